(* C07 -- translator tie: the hand-written elaborator model (Front/Cond.v) is built from exactly the
   rules that pyrtl/conditional.py states NOW (Gen/CondRules.v, regenerated from the source on every
   run by py/genfrag_C07.py).  A source edit that changes a rule changes the generated definition and
   one of these bridging theorems stops compiling. *)
From Coq Require Import ZArith List Bool.
From PyRTL Require Import Front.Cond Front.CondSpec Front.CondProofs Gen.CondRules.
Import ListNotations.
Open Scope Z_scope.

(* _pred_sets_are_in_conflict *)
Theorem rule_conflict : forall a b, in_conflict a b = gen_in_conflict a b.
Proof.
  intros a b. unfold in_conflict, gen_in_conflict, gen_conflict_hit, gen_conflict_miss.
  assert (H : existsb (fun la => existsb (fun lb => opposite la lb) b) a
            = existsb (fun la => existsb (fun lb => gen_conflict_cond (fst la) (snd la) (fst lb) (snd lb)) b) a).
  { apply existsb_ext'. intro la. apply existsb_ext'. intro lb. reflexivity. }
  rewrite H. destruct (existsb _ a); reflexivity.
Qed.

(* _push_condition's width guard *)
Theorem rule_width : forall pw c,
  pred_too_wide pw c
  = gen_pred_too_wide (match c with COth => true | CP _ => false end)
                      (match c with CP p => pw p | COth => 0 end).
Proof. intros pw [p|]; reflexivity. Qed.

(* _current_select: which conjunct goes into `select` and which polarity into `pred_set` *)
Theorem rule_polarity : forall p,
  lit_expr (p, gen_between_flag) = gen_between_expr p /\
  lit_expr (p, gen_current_flag) = gen_current_expr p.
Proof. intro p. split; reflexivity. Qed.

Theorem rule_level : forall c pre,
  level_lits (c :: pre)
  = map (fun q => (q, gen_between_flag)) (rev (since_oth pre))
    ++ match c with CP p => [(p, gen_current_flag)] | COth => [] end.
Proof. intros. reflexivity. Qed.

(* the polarity the code RECORDS for the conflict check is the polarity it USES in the select wire
   (this is what makes the syntactic check sound) *)
Theorem rule_polarity_consistent : forall rho p,
  beval rho (gen_between_expr p) = lit_holds rho (p, gen_between_flag) /\
  beval rho (gen_current_expr p) = lit_holds rho (p, gen_current_flag).
Proof.
  intros rho p. destruct (rule_polarity p) as [H1 H2]. rewrite <- H1, <- H2.
  split; apply lit_expr_holds.
Qed.

(* _finalize: default *)
Definition dsel_expr (d : defaults) (t : wtarget) (c : dsel) : vexpr :=
  match c with
  | DDeclared => match dflt_get d t with Some r => VLeaf r | None => VZero end
  | DSelf => match t with TReg i => VSelf i | TWire i => VSelf (-1 - i) (* never: a wire is not its own default *) end
  | DZero => VZero
  end.

Definition is_register (t : wtarget) : bool := match t with TReg _ => true | TWire _ => false end.

Theorem rule_default : forall d t,
  option_map (dsel_expr d t)
    (gen_default (is_register t) true (match dflt_get d t with Some _ => true | None => false end))
  = Some (default_expr d t).
Proof.
  intros d t. unfold default_expr, gen_default, dsel_expr.
  destruct t as [i|i]; cbn; destruct (dflt_get d _); reflexivity.
Qed.

(* _finalize: the wire / register fold *)
Theorem rule_fin_val : forall dflt recs,
  fin_val dflt recs = fold_left (fun acc pr => gen_fin_step (fst pr) (pl_val (snd pr)) acc) recs dflt.
Proof. reflexivity. Qed.

(* _finalize: the memory write-port fold *)
Lemma triple_fold : forall (rest : list (bexpr * payload)) en ad da,
  fold_left (fun acc pr => gen_mem_step (fst pr) (pl_addr (snd pr)) (pl_val (snd pr)) (pl_en (snd pr)) acc)
            rest (en, ad, da)
  = (fold_left (fun acc pr => VSel (fst pr) (pl_en (snd pr)) acc) rest en,
     fold_left (fun acc pr => VSel (fst pr) (pl_addr (snd pr)) acc) rest ad,
     fold_left (fun acc pr => VSel (fst pr) (pl_val (snd pr)) acc) rest da).
Proof.
  induction rest as [|x rest IH]; intros en ad da; [reflexivity|].
  cbn [fold_left]. unfold gen_mem_step at 2. apply IH.
Qed.

Theorem rule_fin_mem : forall p0 pl0 rest,
  fin_mem ((p0, pl0) :: rest)
  = let '(en, ad, da) :=
      fold_left (fun acc pr => gen_mem_step (fst pr) (pl_addr (snd pr)) (pl_val (snd pr)) (pl_en (snd pr)) acc)
                rest (gen_mem_init p0 (pl_addr pl0) (pl_val pl0) (pl_en pl0)) in
    FMem en ad da.
Proof.
  intros. unfold gen_mem_init. rewrite triple_fold. reflexivity.
Qed.

(* ------------------------------------------------------------------ the WHOLE of _current_select
   The two inner helpers are regenerated from the source (Gen/CondRules.v) and the function is
   assembled over the stack in python order; it computes exactly what the hand-written model
   (current_lits / sel_of_lits over the reversed representation) computes. *)
From Coq Require Import Lia.

Theorem rule_and_opt : forall a b, gen_and_with_possible_none a (Some b) = and_opt a b.
Proof. intros [a|] b; reflexivity. Qed.

Lemma enum_from_app : forall l1 l2 i,
  enum_from i (l1 ++ l2) = enum_from i l1 ++ enum_from (i + Z.of_nat (length l1)) l2.
Proof.
  induction l1 as [|x l1 IH]; intros l2 i; cbn [app enum_from length].
  - rewrite Z.add_0_r. reflexivity.
  - rewrite IH. do 3 f_equal. lia.
Qed.

Definition lastoth (L : list cond) : option Z :=
  fold_left (fun (lo : option Z) (ip : Z * cond) => if is_oth (snd ip) then Some (fst ip) else lo)
            (enum_from 0 L) None.

Definition between_of (L : list cond) : list cond :=
  match lastoth L with None => L | Some i => skipn (Z.to_nat (i + 1)) L end.

Lemma gen_between_unfold : forall predlist,
  gen_between_otherwise_and_current predlist = between_of (removelast predlist).
Proof. reflexivity. Qed.

Lemma lastoth_snoc : forall L x,
  lastoth (L ++ [x]) = if is_oth x then Some (Z.of_nat (length L)) else lastoth L.
Proof.
  intros L x. unfold lastoth. rewrite enum_from_app, fold_left_app. cbn. reflexivity.
Qed.

Lemma lastoth_bound : forall L i, lastoth L = Some i -> 0 <= i < Z.of_nat (length L).
Proof.
  induction L as [|x L IH] using rev_ind; intros i H.
  - discriminate.
  - rewrite lastoth_snoc in H. rewrite app_length. cbn [length].
    destruct (is_oth x).
    + injection H as <-. lia.
    + specialize (IH i H). lia.
Qed.

Lemma between_snoc : forall L x,
  between_of (L ++ [x]) = if is_oth x then [] else between_of L ++ [x].
Proof.
  intros L x. unfold between_of. rewrite lastoth_snoc. destruct (is_oth x).
  - apply skipn_all2. rewrite app_length. cbn [length]. lia.
  - destruct (lastoth L) as [i|] eqn:E; [|reflexivity].
    pose proof (lastoth_bound L i E) as Hb.
    rewrite skipn_app.
    replace (Z.to_nat (i + 1) - length L)%nat with 0%nat by lia. reflexivity.
Qed.

Lemma between_rev : forall pre, between_of (rev pre) = map CP (rev (since_oth pre)).
Proof.
  induction pre as [|c pre IH]; [reflexivity|].
  cbn [rev]. rewrite between_snoc. destruct c as [p|]; cbn [is_oth since_oth rev].
  - rewrite IH, map_app. reflexivity.
  - reflexivity.
Qed.

(* between_otherwise_and_current on a level = the predicates after the last otherwise, oldest first *)
Theorem rule_between : forall c pre,
  gen_between_otherwise_and_current (rev (c :: pre)) = map CP (rev (since_oth pre)).
Proof.
  intros c pre. rewrite gen_between_unfold. cbn [rev]. rewrite removelast_last. apply between_rev.
Qed.

Lemma inner_fold : forall ps acc,
  fold_left (fun (acc : option bexpr * list lit) (c : cond) =>
               match c with
               | CP predicate => (gen_and_with_possible_none (fst acc) (Some (gen_between_expr predicate)),
                                  snd acc ++ [(predicate, gen_between_flag)])
               | COth => acc
               end) (map CP ps) acc
  = (fold_left (fun s l => and_opt s (lit_expr l)) (map (fun p => (p, gen_between_flag)) ps) (fst acc),
     snd acc ++ map (fun p => (p, gen_between_flag)) ps).
Proof.
  induction ps as [|p ps IH]; intros [s ls]; cbn [map fold_left fst snd].
  - rewrite app_nil_r. reflexivity.
  - rewrite IH. cbn [fst snd]. rewrite rule_and_opt, <- app_assoc. reflexivity.
Qed.

Lemma gen_level_rule : forall acc lvl,
  gen_level acc (rev lvl)
  = (fold_left (fun s l => and_opt s (lit_expr l)) (level_lits lvl) (fst acc), snd acc ++ level_lits lvl).
Proof.
  intros [s ls] [|c pre].
  - cbn. rewrite app_nil_r. reflexivity.
  - unfold gen_level. rewrite rule_between, inner_fold. cbn [rev]. rewrite last_last.
    cbn [fst snd level_lits]. destruct c as [p|].
    + rewrite rule_and_opt, fold_left_app, <- app_assoc. reflexivity.
    + rewrite !app_nil_r. reflexivity.
Qed.

Lemma gen_levels_rule : forall L acc,
  fold_left gen_level (map (@rev cond) L) acc
  = (fold_left (fun s l => and_opt s (lit_expr l)) (flat_map level_lits L) (fst acc),
     snd acc ++ flat_map level_lits L).
Proof.
  induction L as [|lvl L IH]; intros [s ls]; cbn [map fold_left flat_map fst snd].
  - rewrite app_nil_r. reflexivity.
  - rewrite gen_level_rule, IH. cbn [fst snd]. rewrite fold_left_app, <- app_assoc. reflexivity.
Qed.

(* _current_select as regenerated from the source, run on the python-order stack, returns exactly the
   (select, pred_set) the model's _build uses *)
Theorem rule_current_select : forall stk,
  gen_current_select (rev (map (@rev cond) stk)) = (sel_of_lits (current_lits stk), current_lits stk).
Proof.
  intros [|cur rest]; [reflexivity|].
  unfold gen_current_select, current_lits, sel_of_lits. cbn [map rev tl].
  rewrite removelast_last, <- map_rev, gen_levels_rule. reflexivity.
Qed.
