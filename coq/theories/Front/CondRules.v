(* C07 -- translator tie: the hand-written elaborator model (Front/Cond.v) is built from exactly the
   rules that pyrtl/conditional.py states NOW (Gen/CondRules.v, regenerated from the source on every
   run by py/genfrag_C07.py).  A source edit that changes a rule changes the generated definition and
   one of these bridging theorems stops compiling. *)
From Coq Require Import ZArith List Bool.
From PyRTL Require Import Front.Cond Front.CondSpec Front.CondProofs Gen.CondRules.
Import ListNotations.
Open Scope Z_scope.

(* _pred_sets_are_in_conflict *)
Theorem rule_conflict : forall a b, in_conflict a b = gen_in_conflict a b.
Proof.
  intros a b. unfold in_conflict, gen_in_conflict, gen_conflict_hit, gen_conflict_miss.
  assert (H : existsb (fun la => existsb (fun lb => opposite la lb) b) a
            = existsb (fun la => existsb (fun lb => gen_conflict_cond (fst la) (snd la) (fst lb) (snd lb)) b) a).
  { apply existsb_ext'. intro la. apply existsb_ext'. intro lb. reflexivity. }
  rewrite H. destruct (existsb _ a); reflexivity.
Qed.

(* _push_condition's width guard *)
Theorem rule_width : forall pw c,
  pred_too_wide pw c
  = gen_pred_too_wide (match c with COth => true | CP _ => false end)
                      (match c with CP p => pw p | COth => 0 end).
Proof. intros pw [p|]; reflexivity. Qed.

(* _current_select: which conjunct goes into `select` and which polarity into `pred_set` *)
Theorem rule_polarity : forall p,
  lit_expr (p, gen_between_flag) = gen_between_expr p /\
  lit_expr (p, gen_current_flag) = gen_current_expr p.
Proof. intro p. split; reflexivity. Qed.

Theorem rule_level : forall c pre,
  level_lits (c :: pre)
  = map (fun q => (q, gen_between_flag)) (rev (since_oth pre))
    ++ match c with CP p => [(p, gen_current_flag)] | COth => [] end.
Proof. intros. reflexivity. Qed.

(* the polarity the code RECORDS for the conflict check is the polarity it USES in the select wire
   (this is what makes the syntactic check sound) *)
Theorem rule_polarity_consistent : forall rho p,
  beval rho (gen_between_expr p) = lit_holds rho (p, gen_between_flag) /\
  beval rho (gen_current_expr p) = lit_holds rho (p, gen_current_flag).
Proof.
  intros rho p. destruct (rule_polarity p) as [H1 H2]. rewrite <- H1, <- H2.
  split; apply lit_expr_holds.
Qed.

(* _finalize: default *)
Definition dsel_expr (d : defaults) (t : wtarget) (c : dsel) : vexpr :=
  match c with
  | DDeclared => match dflt_get d t with Some r => VLeaf r | None => VZero end
  | DSelf => match t with TReg i => VSelf i | TWire i => VSelf (-1 - i) (* never: a wire is not its own default *) end
  | DZero => VZero
  end.

Definition is_register (t : wtarget) : bool := match t with TReg _ => true | TWire _ => false end.

Theorem rule_default : forall d t,
  option_map (dsel_expr d t)
    (gen_default (is_register t) true (match dflt_get d t with Some _ => true | None => false end))
  = Some (default_expr d t).
Proof.
  intros d t. unfold default_expr, gen_default, dsel_expr.
  destruct t as [i|i]; cbn; destruct (dflt_get d _); reflexivity.
Qed.

(* _finalize: the wire / register fold *)
Theorem rule_fin_val : forall dflt recs,
  fin_val dflt recs = fold_left (fun acc pr => gen_fin_step (fst pr) (pl_val (snd pr)) acc) recs dflt.
Proof. reflexivity. Qed.

(* _finalize: the memory write-port fold *)
Lemma triple_fold : forall (rest : list (bexpr * payload)) en ad da,
  fold_left (fun acc pr => gen_mem_step (fst pr) (pl_addr (snd pr)) (pl_val (snd pr)) (pl_en (snd pr)) acc)
            rest (en, ad, da)
  = (fold_left (fun acc pr => VSel (fst pr) (pl_en (snd pr)) acc) rest en,
     fold_left (fun acc pr => VSel (fst pr) (pl_addr (snd pr)) acc) rest ad,
     fold_left (fun acc pr => VSel (fst pr) (pl_val (snd pr)) acc) rest da).
Proof.
  induction rest as [|x rest IH]; intros en ad da; [reflexivity|].
  cbn [fold_left]. unfold gen_mem_step at 2. apply IH.
Qed.

Theorem rule_fin_mem : forall p0 pl0 rest,
  fin_mem ((p0, pl0) :: rest)
  = let '(en, ad, da) :=
      fold_left (fun acc pr => gen_mem_step (fst pr) (pl_addr (snd pr)) (pl_val (snd pr)) (pl_en (snd pr)) acc)
                rest (gen_mem_init p0 (pl_addr pl0) (pl_val pl0) (pl_en pl0)) in
    FMem en ad da.
Proof.
  intros. unfold gen_mem_init. rewrite triple_fold. reflexivity.
Qed.
