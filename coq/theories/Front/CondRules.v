(* C07 -- translator tie: the hand-written elaborator model (Front/Cond.v) is built from exactly the
   rules that pyrtl/conditional.py states NOW (Gen/CondRules.v, regenerated from the source on every
   run by py/genfrag_C07.py).  A source edit that changes a rule changes the generated definition and
   one of these bridging theorems stops compiling. *)
From Coq Require Import ZArith List Bool.
From PyRTL Require Import Front.Cond Front.CondSpec Front.CondProofs Gen.CondRules.
Import ListNotations.
Open Scope Z_scope.

(* _pred_sets_are_in_conflict *)
Theorem rule_conflict : forall a b, in_conflict a b = gen_in_conflict a b.
Proof.
  intros a b. unfold in_conflict, gen_in_conflict, gen_conflict_hit, gen_conflict_miss.
  assert (H : existsb (fun la => existsb (fun lb => opposite la lb) b) a
            = existsb (fun la => existsb (fun lb => gen_conflict_cond (fst la) (snd la) (fst lb) (snd lb)) b) a).
  { apply existsb_ext'. intro la. apply existsb_ext'. intro lb. reflexivity. }
  rewrite H. destruct (existsb _ a); reflexivity.
Qed.

(* _push_condition's width guard *)
Theorem rule_width : forall pw c,
  pred_too_wide pw c
  = gen_pred_too_wide (match c with COth => true | CP _ => false end)
                      (match c with CP p => pw p | COth => 0 end).
Proof. intros pw [p|]; reflexivity. Qed.

(* _current_select: which conjunct goes into `select` and which polarity into `pred_set` *)
Theorem rule_polarity : forall p,
  lit_expr (p, gen_between_flag) = gen_between_expr p /\
  lit_expr (p, gen_current_flag) = gen_current_expr p.
Proof. intro p. split; reflexivity. Qed.

Theorem rule_level : forall c pre,
  level_lits (c :: pre)
  = map (fun q => (q, gen_between_flag)) (rev (since_oth pre))
    ++ match c with CP p => [(p, gen_current_flag)] | COth => [] end.
Proof. intros. reflexivity. Qed.

(* the polarity the code RECORDS for the conflict check is the polarity it USES in the select wire
   (this is what makes the syntactic check sound) *)
Theorem rule_polarity_consistent : forall rho p,
  beval rho (gen_between_expr p) = lit_holds rho (p, gen_between_flag) /\
  beval rho (gen_current_expr p) = lit_holds rho (p, gen_current_flag).
Proof.
  intros rho p. destruct (rule_polarity p) as [H1 H2]. rewrite <- H1, <- H2.
  split; apply lit_expr_holds.
Qed.

(* _finalize: default *)
Definition dsel_expr (d : defaults) (t : wtarget) (c : dsel) : vexpr :=
  match c with
  | DDeclared => match dflt_get d t with Some r => VLeaf r | None => VZero end
  | DSelf => match t with TReg i => VSelf i | TWire i => VSelf (-1 - i) (* never: a wire is not its own default *) end
  | DZero => VZero
  end.

Definition is_register (t : wtarget) : bool := match t with TReg _ => true | TWire _ => false end.

Theorem rule_default : forall d t,
  option_map (dsel_expr d t)
    (gen_default (is_register t) true (match dflt_get d t with Some _ => true | None => false end))
  = Some (default_expr d t).
Proof.
  intros d t. unfold default_expr, gen_default, dsel_expr.
  destruct t as [i|i]; cbn; destruct (dflt_get d _); reflexivity.
Qed.

(* _finalize: the wire / register fold *)
Theorem rule_fin_val : forall dflt recs,
  fin_val dflt recs = fold_left (fun acc pr => gen_fin_step (fst pr) (pl_val (snd pr)) acc) recs dflt.
Proof. reflexivity. Qed.

(* _finalize: the memory write-port fold *)
Lemma triple_fold : forall (rest : list (bexpr * payload)) en ad da,
  fold_left (fun acc pr => gen_mem_step (fst pr) (pl_addr (snd pr)) (pl_val (snd pr)) (pl_en (snd pr)) acc)
            rest (en, ad, da)
  = (fold_left (fun acc pr => VSel (fst pr) (pl_en (snd pr)) acc) rest en,
     fold_left (fun acc pr => VSel (fst pr) (pl_addr (snd pr)) acc) rest ad,
     fold_left (fun acc pr => VSel (fst pr) (pl_val (snd pr)) acc) rest da).
Proof.
  induction rest as [|x rest IH]; intros en ad da; [reflexivity|].
  cbn [fold_left]. unfold gen_mem_step at 2. apply IH.
Qed.

Theorem rule_fin_mem : forall p0 pl0 rest,
  fin_mem ((p0, pl0) :: rest)
  = let '(en, ad, da) :=
      fold_left (fun acc pr => gen_mem_step (fst pr) (pl_addr (snd pr)) (pl_val (snd pr)) (pl_en (snd pr)) acc)
                rest (gen_mem_init p0 (pl_addr pl0) (pl_val pl0) (pl_en pl0)) in
    FMem en ad da.
Proof.
  intros. unfold gen_mem_init. rewrite triple_fold. reflexivity.
Qed.

(* ------------------------------------------------------------------ the WHOLE of _current_select
   The two inner helpers are regenerated from the source (Gen/CondRules.v) and the function is
   assembled over the stack in python order; it computes exactly what the hand-written model
   (current_lits / sel_of_lits over the reversed representation) computes. *)
From Coq Require Import Lia.

Theorem rule_and_opt : forall a b, gen_and_with_possible_none a (Some b) = and_opt a b.
Proof. intros [a|] b; reflexivity. Qed.

Lemma enum_from_app : forall l1 l2 i,
  enum_from i (l1 ++ l2) = enum_from i l1 ++ enum_from (i + Z.of_nat (length l1)) l2.
Proof.
  induction l1 as [|x l1 IH]; intros l2 i; cbn [app enum_from length].
  - rewrite Z.add_0_r. reflexivity.
  - rewrite IH. do 3 f_equal. lia.
Qed.

Definition lastoth (L : list cond) : option Z :=
  fold_left (fun (lo : option Z) (ip : Z * cond) => if is_oth (snd ip) then Some (fst ip) else lo)
            (enum_from 0 L) None.

Definition between_of (L : list cond) : list cond :=
  match lastoth L with None => L | Some i => skipn (Z.to_nat (i + 1)) L end.

Lemma gen_between_unfold : forall predlist,
  gen_between_otherwise_and_current predlist = between_of (removelast predlist).
Proof. reflexivity. Qed.

Lemma lastoth_snoc : forall L x,
  lastoth (L ++ [x]) = if is_oth x then Some (Z.of_nat (length L)) else lastoth L.
Proof.
  intros L x. unfold lastoth. rewrite enum_from_app, fold_left_app. cbn. reflexivity.
Qed.

Lemma lastoth_bound : forall L i, lastoth L = Some i -> 0 <= i < Z.of_nat (length L).
Proof.
  induction L as [|x L IH] using rev_ind; intros i H.
  - discriminate.
  - rewrite lastoth_snoc in H. rewrite app_length. cbn [length].
    destruct (is_oth x).
    + injection H as <-. lia.
    + specialize (IH i H). lia.
Qed.

Lemma between_snoc : forall L x,
  between_of (L ++ [x]) = if is_oth x then [] else between_of L ++ [x].
Proof.
  intros L x. unfold between_of. rewrite lastoth_snoc. destruct (is_oth x).
  - apply skipn_all2. rewrite app_length. cbn [length]. lia.
  - destruct (lastoth L) as [i|] eqn:E; [|reflexivity].
    pose proof (lastoth_bound L i E) as Hb.
    rewrite skipn_app.
    replace (Z.to_nat (i + 1) - length L)%nat with 0%nat by lia. reflexivity.
Qed.

Lemma between_rev : forall pre, between_of (rev pre) = map CP (rev (since_oth pre)).
Proof.
  induction pre as [|c pre IH]; [reflexivity|].
  cbn [rev]. rewrite between_snoc. destruct c as [p|]; cbn [is_oth since_oth rev].
  - rewrite IH, map_app. reflexivity.
  - reflexivity.
Qed.

(* between_otherwise_and_current on a level = the predicates after the last otherwise, oldest first *)
Theorem rule_between : forall c pre,
  gen_between_otherwise_and_current (rev (c :: pre)) = map CP (rev (since_oth pre)).
Proof.
  intros c pre. rewrite gen_between_unfold. cbn [rev]. rewrite removelast_last. apply between_rev.
Qed.

Lemma inner_fold : forall ps acc,
  fold_left (fun (acc : option bexpr * list lit) (c : cond) =>
               match c with
               | CP predicate => (gen_and_with_possible_none (fst acc) (Some (gen_between_expr predicate)),
                                  snd acc ++ [(predicate, gen_between_flag)])
               | COth => acc
               end) (map CP ps) acc
  = (fold_left (fun s l => and_opt s (lit_expr l)) (map (fun p => (p, gen_between_flag)) ps) (fst acc),
     snd acc ++ map (fun p => (p, gen_between_flag)) ps).
Proof.
  induction ps as [|p ps IH]; intros [s ls]; cbn [map fold_left fst snd].
  - rewrite app_nil_r. reflexivity.
  - rewrite IH. cbn [fst snd]. rewrite rule_and_opt, <- app_assoc. reflexivity.
Qed.

Lemma gen_level_rule : forall acc lvl,
  gen_level acc (rev lvl)
  = (fold_left (fun s l => and_opt s (lit_expr l)) (level_lits lvl) (fst acc), snd acc ++ level_lits lvl).
Proof.
  intros [s ls] [|c pre].
  - cbn. rewrite app_nil_r. reflexivity.
  - unfold gen_level. rewrite rule_between, inner_fold. cbn [rev]. rewrite last_last.
    cbn [fst snd level_lits]. destruct c as [p|].
    + rewrite rule_and_opt, fold_left_app, <- app_assoc. reflexivity.
    + rewrite !app_nil_r. reflexivity.
Qed.

Lemma gen_levels_rule : forall L acc,
  fold_left gen_level (map (@rev cond) L) acc
  = (fold_left (fun s l => and_opt s (lit_expr l)) (flat_map level_lits L) (fst acc),
     snd acc ++ flat_map level_lits L).
Proof.
  induction L as [|lvl L IH]; intros [s ls]; cbn [map fold_left flat_map fst snd].
  - rewrite app_nil_r. reflexivity.
  - rewrite gen_level_rule, IH. cbn [fst snd]. rewrite fold_left_app, <- app_assoc. reflexivity.
Qed.

(* _current_select as regenerated from the source, run on the python-order stack, returns exactly the
   (select, pred_set) the model's _build uses *)
Theorem rule_current_select : forall stk,
  gen_current_select (rev (map (@rev cond) stk)) = (sel_of_lits (current_lits stk), current_lits stk).
Proof.
  intros [|cur rest]; [reflexivity|].
  unfold gen_current_select, current_lits, sel_of_lits. cbn [map rev tl].
  rewrite removelast_last, <- map_rev, gen_levels_rule. reflexivity.
Qed.

(* ------------------------------------------------------------------ the assembled state machine
   Gen/CondRules.v assembles _push_condition, _build, the per-target part of _finalize and the whole
   elaboration from the regenerated rules (in the statement order its shape checks established).
   They are, pointwise, the functions of the hand-written model -- so every theorem of Props/C07.v
   about elab / elab_w is a theorem about gen_elab. *)
Theorem rule_push : forall pw c s, push_w pw c s = gen_push pw c s.
Proof. intros pw [p|] s; reflexivity. Qed.

Theorem rule_build : forall l pl s, build l pl s = gen_build l pl s.
Proof.
  intros l pl s. unfold build, gen_build. rewrite rule_current_select.
  destruct (sel_of_lits (current_lits (stk s))) as [sel|]; [|reflexivity].
  rewrite (existsb_ext' _ (in_conflict (current_lits (stk s)))
                          (fun test_set => gen_in_conflict (current_lits (stk s)) test_set)); [reflexivity|].
  intro x. apply rule_conflict.
Qed.

Theorem rule_fin_one : forall d kv, fin_one d kv = gen_fin_one d kv.
Proof.
  intros d [[t|m] recs]; unfold fin_one, gen_fin_one; cbn [fst snd].
  - do 2 f_equal. rewrite rule_fin_val. f_equal.
    unfold default_expr, gen_default. destruct t as [i|i]; destruct (dflt_get d _); reflexivity.
  - f_equal. destruct recs as [|[p0 pl0] rest]; [reflexivity|]. apply rule_fin_mem.
Qed.

Lemma gen_elab_tree_With : forall pw p body s,
  gen_elab_tree pw (With p body) s =
  match gen_push pw (CP p) s with
  | None => None
  | Some s1 => match gen_elab_forest pw body s1 with None => None | Some s2 => pop s2 end
  end.
Proof. reflexivity. Qed.

Lemma gen_elab_tree_Otherwise : forall pw body s,
  gen_elab_tree pw (Otherwise body) s =
  match gen_push pw COth s with
  | None => None
  | Some s1 => match gen_elab_forest pw body s1 with None => None | Some s2 => pop s2 end
  end.
Proof. reflexivity. Qed.

Lemma elab_tree_w_With' : forall pw p body s,
  elab_tree_w pw (With p body) s =
  match push_w pw (CP p) s with
  | None => None
  | Some s1 => match elab_forest_w pw body s1 with None => None | Some s2 => pop s2 end
  end.
Proof. reflexivity. Qed.

Lemma elab_tree_w_Otherwise' : forall pw body s,
  elab_tree_w pw (Otherwise body) s =
  match push_w pw COth s with
  | None => None
  | Some s1 => match elab_forest_w pw body s1 with None => None | Some s2 => pop s2 end
  end.
Proof. reflexivity. Qed.

Lemma gen_forest_eq : forall pw l,
  Forall (fun t => forall s, elab_tree_w pw t s = gen_elab_tree pw t s) l ->
  forall s, elab_forest_w pw l s = gen_elab_forest pw l s.
Proof.
  induction 1 as [|x l Hx Hl IH]; intro s; [reflexivity|].
  cbn [elab_forest_w gen_elab_forest]. rewrite Hx.
  destruct (gen_elab_tree pw x s); [apply IH|reflexivity].
Qed.

Lemma gen_tree_eq : forall pw t s, elab_tree_w pw t s = gen_elab_tree pw t s.
Proof.
  intros pw t. induction t as [p body IH|body IH|t r|m a d e] using ctree_ind2; intro s.
  - rewrite elab_tree_w_With', gen_elab_tree_With, rule_push.
    destruct (gen_push pw (CP p) s) as [s1|]; [|reflexivity].
    rewrite (gen_forest_eq pw body IH). reflexivity.
  - rewrite elab_tree_w_Otherwise', gen_elab_tree_Otherwise, rule_push.
    destruct (gen_push pw COth s) as [s1|]; [|reflexivity].
    rewrite (gen_forest_eq pw body IH). reflexivity.
  - apply rule_build.
  - apply rule_build.
Qed.

(* the capstone: the model the property theorems are about IS the elaborator assembled from the rules
   regenerated from the current source *)
Theorem rule_elab : forall pw prog d, elab_w pw prog d = gen_elab pw prog d.
Proof.
  intros pw prog d. unfold elab_w, gen_elab.
  rewrite (gen_forest_eq pw prog); [|apply Forall_forall; intros t _; apply gen_tree_eq].
  destruct (gen_elab_forest pw prog init_st) as [s|]; [|reflexivity].
  unfold finalize. f_equal. apply map_ext. apply rule_fin_one.
Qed.

From PyRTL Require Import Front.CondWidth.

Theorem gen_elab_none_iff : forall pw prog d,
  gen_elab pw prog d = None <-> spec_accepts_w pw prog = false.
Proof. intros. rewrite <- rule_elab. apply elab_w_none_iff. Qed.

Theorem gen_elab_value : forall pw prog d res, gen_elab pw prog d = Some res ->
  forall t, In (LW t) (map fst (slits prog)) ->
  exists e, res_get res (LW t) = Some (FVal e) /\ forall E, Some (veval E e) = spec_value E d prog t.
Proof.
  intros pw prog d res H. rewrite <- rule_elab in H. apply elab_w_some in H. destruct H as [_ H].
  exact (value_wire prog d res H).
Qed.

Theorem gen_elab_memory : forall pw prog d res, gen_elab pw prog d = Some res ->
  forall m, In (LM m) (map fst (slits prog)) ->
  exists en ad da, res_get res (LM m) = Some (FMem en ad da) /\
    forall E,
      match spec_mem E prog m with
      | Some None => veval E en = 0
      | Some (Some (a, dd, e)) => veval E en = e /\ veval E ad = a /\ veval E da = dd
      | None => False
      end.
Proof.
  intros pw prog d res H. rewrite <- rule_elab in H. apply elab_w_some in H. destruct H as [_ H].
  exact (value_mem prog d res H).
Qed.
