(* C14 -- lemmas about bit lists and the Python slice model. *)
From Coq Require Import ZArith List Bool Lia.
From PyRTL Require Import Base.PyZ Front.SliceC14.
Import ListNotations.
Open Scope Z_scope.

Lemma to_Z_app a b : to_Z (a ++ b) = to_Z a + 2 ^ Z.of_nat (length a) * to_Z b.
Proof.
  induction a as [|x a IH]; cbn [app to_Z length].
  - change (Z.of_nat 0) with 0. rewrite Z.pow_0_r. lia.
  - rewrite IH. rewrite Nat2Z.inj_succ, Z.pow_succ_r by lia. lia.
Qed.

Lemma to_Z_repeat_false n : to_Z (repeat false n) = 0.
Proof. induction n; cbn [repeat to_Z b2z]; lia. Qed.

Lemma to_Z_zext n l : to_Z (zext n l) = to_Z l.
Proof. unfold zext. rewrite to_Z_app, to_Z_repeat_false. lia. Qed.

Lemma length_zext n l : length (zext n l) = Nat.max n (length l).
Proof. unfold zext. rewrite app_length, repeat_length. lia. Qed.

Lemma zext_id n l : (n <= length l)%nat -> zext n l = l.
Proof. intros. unfold zext. replace (n - length l)%nat with 0%nat by lia. cbn. apply app_nil_r. Qed.

Lemma to_Z_nonneg l : 0 <= to_Z l.
Proof. induction l as [|b l IH]; cbn [to_Z]; [lia|]. destruct b; cbn [b2z]; lia. Qed.

Lemma to_Z_range l : 0 <= to_Z l < 2 ^ Z.of_nat (length l).
Proof.
  induction l as [|b l IH]; cbn [to_Z length].
  - change (Z.of_nat 0) with 0. rewrite Z.pow_0_r. lia.
  - rewrite Nat2Z.inj_succ, Z.pow_succ_r by lia. destruct b; cbn [b2z]; lia.
Qed.

Lemma to_Z_testbit l i : Z.testbit (to_Z l) (Z.of_nat i) = nth i l false.
Proof.
  revert i. induction l as [|b l IH]; intros i; cbn [to_Z].
  - destruct i; cbn [nth]; apply Z.testbit_0_l.
  - destruct i as [|i].
    + cbn [nth Z.of_nat]. destruct b; cbn [b2z].
      * replace (1 + 2 * to_Z l) with (2 * to_Z l + 1) by lia. apply Z.testbit_odd_0.
      * rewrite Z.add_0_l. apply Z.testbit_even_0.
    + cbn [nth]. rewrite Nat2Z.inj_succ. destruct b; cbn [b2z].
      * replace (1 + 2 * to_Z l) with (2 * to_Z l + 1) by lia.
        rewrite Z.testbit_odd_succ by lia. apply IH.
      * rewrite Z.add_0_l. rewrite Z.testbit_even_succ by lia. apply IH.
Qed.

Lemma length_of_Z n z : length (of_Z n z) = n.
Proof. unfold of_Z. rewrite map_length, seq_length. reflexivity. Qed.

Lemma nth_map_seq {A} (f : nat -> A) n i d : (i < n)%nat -> nth i (map f (seq 0 n)) d = f i.
Proof.
  intros H. rewrite nth_indep with (d' := f 0%nat) by (rewrite map_length, seq_length; lia).
  rewrite (map_nth f (seq 0 n) 0%nat i). rewrite seq_nth by lia. reflexivity.
Qed.

Lemma nth_of_Z n z i : (i < n)%nat -> nth i (of_Z n z) false = Z.testbit z (Z.of_nat i).
Proof. intros H. exact (nth_map_seq (fun i => Z.testbit z (Z.of_nat i)) n i false H). Qed.

(* a list is determined by its length and its bits *)
Lemma bits_ext (a b : bits) : length a = length b ->
  (forall i, (i < length a)%nat -> nth i a false = nth i b false) -> a = b.
Proof.
  revert b. induction a as [|x a IH]; intros [|y b] Hl H; cbn in Hl; try lia; [reflexivity|].
  f_equal.
  - apply (H 0%nat). cbn. lia.
  - apply IH; [lia|]. intros i Hi. apply (H (S i)). cbn. lia.
Qed.

Lemma of_Z_to_Z l : of_Z (length l) (to_Z l) = l.
Proof.
  apply bits_ext; [apply length_of_Z|].
  intros i Hi. rewrite length_of_Z in Hi. rewrite nth_of_Z by lia. apply to_Z_testbit.
Qed.

Lemma to_Z_inj a b : length a = length b -> to_Z a = to_Z b -> a = b.
Proof. intros Hl H. rewrite <- (of_Z_to_Z a), <- (of_Z_to_Z b), Hl, H. reflexivity. Qed.

(* most significant bit split *)
Lemma to_Z_removelast l : l <> [] ->
  to_Z l = to_Z (removelast l) + 2 ^ Z.of_nat (length l - 1) * b2z (last l false).
Proof.
  intros H. rewrite (app_removelast_last false H) at 1.
  rewrite to_Z_app. cbn [to_Z].
  assert (Hl : length (removelast l) = (length l - 1)%nat).
  { rewrite (app_removelast_last false H) at 2. rewrite app_length. cbn. lia. }
  rewrite Hl. lia.
Qed.

Lemma length_removelast {A} (l : list A) : length (removelast l) = (length l - 1)%nat.
Proof.
  destruct l as [|x l]; [reflexivity|].
  assert (H : x :: l <> []) by discriminate.
  rewrite (app_removelast_last x H) at 2. rewrite app_length. cbn. lia.
Qed.

(* ---- slices ---- *)
Lemma removelast_firstn_len {A} (l : list A) : removelast l = firstn (length l - 1) l.
Proof.
  induction l as [|x l IH]; [reflexivity|]. destruct l as [|y l]; [reflexivity|].
  change (removelast (x :: y :: l)) with (x :: removelast (y :: l)). rewrite IH.
  cbn [length]. rewrite ?Nat.sub_succ, ?Nat.sub_0_r. reflexivity.
Qed.

Lemma pyslice_none_m1 {A} (l : list A) : pyslice l None (Some (-1)) = removelast l.
Proof.
  unfold pyslice, slice_bounds, clamp_bound.
  replace (-1 <? 0) with true by reflexivity.
  rewrite removelast_firstn_len.
  destruct l as [|x l]; [reflexivity|].
  cbn [skipn Z.to_nat]. f_equal.
  cbn [length]. lia.
Qed.

Lemma pyslice_0_m1 {A} (l : list A) : pyslice l (Some 0) (Some (-1)) = removelast l.
Proof.
  rewrite <- pyslice_none_m1. unfold pyslice, slice_bounds, clamp_bound.
  replace (0 <? 0) with false by reflexivity.
  replace (Z.min 0 (Z.of_nat (length l))) with 0 by lia. reflexivity.
Qed.

(* non-negative explicit bounds *)
Lemma sl_spec {A} (l : list A) a b :
  sl l a b = firstn (Nat.min b (length l) - Nat.min a (length l)) (skipn (Nat.min a (length l)) l).
Proof.
  unfold sl, pyslice, slice_bounds, clamp_bound.
  replace (Z.of_nat a <? 0) with false by lia.
  replace (Z.of_nat b <? 0) with false by lia.
  replace (Z.to_nat (Z.min (Z.of_nat a) (Z.of_nat (length l)))) with (Nat.min a (length l)) by lia.
  replace (Z.to_nat (Z.min (Z.of_nat b) (Z.of_nat (length l)))) with (Nat.min b (length l)) by lia.
  reflexivity.
Qed.

Lemma sl_inrange {A} (l : list A) a b : (a <= b <= length l)%nat ->
  sl l a b = firstn (b - a) (skipn a l).
Proof. intros. rewrite sl_spec. repeat rewrite Nat.min_l by lia. reflexivity. Qed.

Lemma slice_bounds_le n s e : let '(a, b) := slice_bounds n s e in (a <= n /\ b <= n)%nat.
Proof.
  unfold slice_bounds, clamp_bound.
  destruct s as [s|], e as [e|]; repeat match goal with |- context [?x <? 0] => destruct (x <? 0) eqn:? end; lia.
Qed.

Lemma skipn_seq' a s n : skipn a (seq s n) = seq (s + a) (n - a).
Proof.
  revert s n. induction a as [|a IH]; intros s n.
  - cbn [skipn]. rewrite Nat.add_0_r, Nat.sub_0_r. reflexivity.
  - destruct n as [|n]; [reflexivity|]. cbn [seq skipn]. rewrite IH.
    rewrite Nat.sub_succ. f_equal. lia.
Qed.

Lemma firstn_seq' k s n : firstn k (seq s n) = seq s (Nat.min k n).
Proof.
  revert s n. induction k as [|k IH]; intros s n; [reflexivity|].
  destruct n as [|n]; [reflexivity|]. cbn [seq firstn Nat.min]. rewrite IH. reflexivity.
Qed.

(* slicing the index list [0..n) gives the contiguous run [a, b) *)
Lemma pyslice_seq n s e :
  pyslice (seq 0 n) s e = seq (fst (slice_bounds n s e)) (snd (slice_bounds n s e) - fst (slice_bounds n s e)).
Proof.
  unfold pyslice. rewrite seq_length.
  pose proof (slice_bounds_le n s e) as Hb.
  destruct (slice_bounds n s e) as [a b]. cbn [fst snd]. destruct Hb as [Ha Hb].
  rewrite skipn_seq', firstn_seq'. cbn [Nat.add]. f_equal. lia.
Qed.

Lemma map_nth_seq {A} (l : list A) d : map (fun i => nth i l d) (seq 0 (length l)) = l.
Proof.
  induction l as [|x l IH]; [reflexivity|].
  cbn [length seq map nth]. f_equal. rewrite <- seq_shift, map_map. exact IH.
Qed.

(* the general slice of a list is the map of the sliced index list *)
Lemma pyslice_nth {A} (l : list A) (d : A) s e :
  pyslice l s e = map (fun i => nth i l d) (pyslice (seq 0 (length l)) s e).
Proof.
  unfold pyslice. rewrite seq_length.
  pose proof (slice_bounds_le (length l) s e) as Hb.
  destruct (slice_bounds (length l) s e) as [a b]. destruct Hb as [Ha Hb].
  rewrite <- firstn_map, <- skipn_map.
  rewrite map_nth_seq. reflexivity.
Qed.
