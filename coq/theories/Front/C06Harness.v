(* Entry points evaluated by py/checks/C06.py (depends on definition files only). *)
From PyRTL Require Export Front.Ops Front.Signed Front.Barrel.

Definition S1 (x : sv) : option sv := Some x.

Definition zrange (n : Z) : list Z := map Z.of_nat (seq 0 (Z.to_nat n)).

(* every value of a wa-bit and a wb-bit operand, a-major *)
Definition exh2 (f : sv -> sv -> option sv) (wa wb : Z) : list (option sv) :=
  flat_map (fun x => map (fun y => f (x, wa) (y, wb)) (zrange (2 ^ wb))) (zrange (2 ^ wa)).

Definition exh1 (f : sv -> option sv) (wa : Z) : list (option sv) :=
  map (fun x => f (x, wa)) (zrange (2 ^ wa)).

(* listed operand values *)
Definition pts2 (f : sv -> sv -> option sv) (wa wb : Z) (l : list (Z * Z)) : list (option sv) :=
  map (fun p => f (fst p, wa) (snd p, wb)) l.

Definition pts1 (f : sv -> option sv) (wa : Z) (l : list Z) : list (option sv) :=
  map (fun x => f (x, wa)) l.

(* index tuples only (compared with Python's tuple(range(n)[item])) *)
Definition idx_of (n : Z) (it : item) : option (list Z) := getitem_indices n it.
