(* rtllib/barrel.py barrel_shifter (Front/Barrel.v: the staged loop) performs the
   FULL shift by the value of the amount wire -- for any data width, any amount
   width (more stages than log2 width included: saturating), either direction and
   either fill bit -- by induction over the stages.  Then the shift_* wrappers. *)
From Coq Require Import ZArith List Bool Lia ZifyBool.
From PyRTL Require Import Front.Ops Front.Signed Front.Barrel Front.PySliceProofs Front.OpsProofs.
Open Scope Z_scope.

(* ------------------------------------------------------------ specification *)
(* m >= 0 positions, vacated positions filled with f *)
Definition fillv (f : bool) (k : Z) : Z := if f then 2 ^ k - 1 else 0.
Definition shl_fill (x w : Z) (f : bool) (m : Z) : Z := (x * 2 ^ m + fillv f m) mod 2 ^ w.
Definition shr_fill (x w : Z) (f : bool) (m : Z) : Z :=
  x / 2 ^ m + (if f then 2 ^ w - 2 ^ (w - Z.min m w) else 0).

(* the same, bit by bit *)
Definition shl_bit (x : Z) (f : bool) (m j : Z) : bool := if j <? m then f else Z.testbit x (j - m).
Definition shr_bit (x w : Z) (f : bool) (m j : Z) : bool :=
  if j + m <? w then Z.testbit x (j + m) else f.
Definition shift_bit (up : bool) (x w : Z) (f : bool) (m j : Z) : bool :=
  if up then shl_bit x f m j else shr_bit x w f m j.

(* ------------------------------------------------------------ bit lemmas *)
Lemma fillv_range f k : 0 <= k -> 0 <= fillv f k < 2 ^ k.
Proof. intros. unfold fillv. pose proof (pow2_pos k ltac:(lia)). destruct f; lia. Qed.

Lemma fillv_testbit f k j : 0 <= j < k -> Z.testbit (fillv f k) j = f.
Proof.
  intros H. unfold fillv. destruct f; [|apply Z.bits_0].
  replace (2 ^ k - 1) with (Z.ones k) by (rewrite Z.ones_equiv; lia). apply Z.ones_spec_low. lia.
Qed.

Lemma fillv_mod f k j : 0 <= j <= k -> fillv f k mod 2 ^ j = fillv f j.
Proof.
  intros H. unfold fillv. destruct f; [|apply Z.mod_0_l; pose proof (pow2_pos j); lia].
  replace (2 ^ k - 1) with (Z.ones k) by (rewrite Z.ones_equiv; lia).
  replace (2 ^ j - 1) with (Z.ones j) by (rewrite Z.ones_equiv; lia). apply Z.ones_mod_pow2. lia.
Qed.

Lemma fillv_double f s : 0 <= s -> fillv f s * 2 ^ s + fillv f s = fillv f (s + s).
Proof.
  intros H. unfold fillv. destruct f; [|lia]. rewrite Z.pow_add_r by lia. lia.
Qed.

(* bits of hi * 2^s + lo with lo < 2^s *)
Lemma testbit_hi_lo hi lo s j : 0 <= s -> 0 <= lo < 2 ^ s -> 0 <= j ->
  Z.testbit (hi * 2 ^ s + lo) j = if j <? s then Z.testbit lo j else Z.testbit hi (j - s).
Proof.
  intros Hs Hlo Hj. pose proof (pow2_pos s Hs) as Hp. destruct (j <? s) eqn:E.
  - rewrite <- (Z.mod_pow2_bits_low (hi * 2 ^ s + lo) s j) by lia.
    rewrite Z.add_comm, Z.mod_add by lia. rewrite Z.mod_small by lia. reflexivity.
  - replace j with ((j - s) + s) at 1 by lia.
    rewrite <- Z.div_pow2_bits by lia.
    rewrite Z.div_add_l by lia. rewrite (Z.div_small lo) by lia. rewrite Z.add_0_r. reflexivity.
Qed.

Lemma shl_fill_range x w f m : 0 <= w -> inrange (shl_fill x w f m) w.
Proof. intros. apply mod_range. assumption. Qed.

Lemma shl_fill_bits x w f m j : 0 <= m -> 0 <= j < w ->
  Z.testbit (shl_fill x w f m) j = shl_bit x f m j.
Proof.
  intros Hm Hj. unfold shl_fill, shl_bit.
  rewrite Z.mod_pow2_bits_low by lia.
  rewrite testbit_hi_lo by (try lia; apply fillv_range; lia).
  destruct (j <? m) eqn:E; [apply fillv_testbit; lia|reflexivity].
Qed.

Lemma shr_fill_form x w f m : 0 <= m -> 0 <= w ->
  shr_fill x w f m = fillv f (Z.min m w) * 2 ^ (w - Z.min m w) + x / 2 ^ m.
Proof.
  intros Hm Hw. unfold shr_fill, fillv. destruct f; [|lia].
  assert (H : 2 ^ w = 2 ^ (Z.min m w) * 2 ^ (w - Z.min m w)).
  { rewrite <- Z.pow_add_r by lia. f_equal. lia. }
  rewrite H at 1. lia.
Qed.

Lemma div_pow2_small x w m : 0 <= m -> 0 <= w -> inrange x w ->
  0 <= x / 2 ^ m < 2 ^ (w - Z.min m w).
Proof.
  intros Hm Hw [H0 H1]. pose proof (pow2_pos m Hm) as Hp. split; [apply Z.div_pos; lia|].
  destruct (Z.le_gt_cases w m) as [Hle|Hgt].
  - rewrite Z.min_r by lia. rewrite Z.sub_diag, Z.pow_0_r.
    rewrite Z.div_small; [lia|]. split; [lia|].
    eapply Z.lt_le_trans; [exact H1|apply pow2_le; lia].
  - rewrite Z.min_l by lia. apply Z.div_lt_upper_bound; [lia|].
    rewrite <- Z.pow_add_r by lia. replace (m + (w - m)) with w by lia. exact H1.
Qed.

Lemma shr_fill_range x w f m : 0 <= m -> 0 <= w -> inrange x w -> inrange (shr_fill x w f m) w.
Proof.
  intros Hm Hw Hx. rewrite shr_fill_form by assumption.
  pose proof (div_pow2_small x w m Hm Hw Hx) as Hd.
  pose proof (fillv_range f (Z.min m w) ltac:(lia)) as Hf.
  assert (H : 2 ^ w = 2 ^ (Z.min m w) * 2 ^ (w - Z.min m w)).
  { rewrite <- Z.pow_add_r by lia. f_equal. lia. }
  unfold inrange. rewrite H. nia.
Qed.

Lemma shr_fill_bits x w f m j : 0 <= m -> inrange x w -> 0 <= j < w ->
  Z.testbit (shr_fill x w f m) j = shr_bit x w f m j.
Proof.
  intros Hm Hx Hj. unfold shr_bit. rewrite shr_fill_form by lia.
  rewrite testbit_hi_lo by (try lia; apply div_pow2_small; try assumption; lia).
  destruct (j <? w - Z.min m w) eqn:E1; destruct (j + m <? w) eqn:E2; try lia.
  - apply Z.div_pow2_bits; lia.
  - apply fillv_testbit. lia.
Qed.

(* ------------------------------------------------------------ more getitem forms *)
Lemma getitem_to_clamp a k : wf a -> 1 <= k ->
  getitem a (ISlice None (Some k) None) = Some (val a mod 2 ^ Z.min k (wd a), Z.min k (wd a)).
Proof.
  intros [Hw Hr] Hk.
  erewrite getitem_contig with (i := 0) (len := Z.min k (wd a)); [| |reflexivity|lia|lia].
  - rewrite Z.pow_0_r, Z.div_1_r. reflexivity.
  - apply getitem_indices_slice; [apply slice_to_indices_clamp; lia|apply range_list_nonempty; lia].
Qed.

Lemma mod_pow2_succ_bit x i : 0 <= i ->
  x mod 2 ^ (i + 1) = x mod 2 ^ i + (if Z.testbit x i then 2 ^ i else 0).
Proof.
  intros Hi. pose proof (pow2_pos i Hi) as Hp.
  rewrite Z.pow_add_r, Z.pow_1_r by lia.
  rewrite Z.rem_mul_r by lia. f_equal.
  rewrite <- Z.testbit_spec' by lia. destruct (Z.testbit x i); cbn [Z.b2z]; lia.
Qed.

(* ------------------------------------------------------------ the stage invariant *)
Section Barrel.
Variables (x fw : Z) (f : bool) (dir dist : sv).
Hypothesis Hfw : 1 <= fw.
Hypothesis Hx : inrange x fw.
Hypothesis Hdist : wf dist.
Let up : bool := negb (val dir =? 0).
Let amt : Z := val dist.

Definition app_of (i : Z) : sv := (fillv f (Z.min (2 ^ i) fw), Z.min (2 ^ i) fw).

Definition Inv (i : Z) (st : sv * sv) : Prop :=
  let '(v, app) := st in
  wd v = fw /\ inrange (val v) fw /\
  (forall j, 0 <= j < fw -> Z.testbit (val v) j = shift_bit up x fw f (amt mod 2 ^ i) j) /\
  app = app_of i.

Lemma app_wf i : 0 <= i -> wf (app_of i).
Proof.
  intros Hi. pose proof (pow2_pos i Hi). apply wf_pair. split; [lia|].
  apply fillv_range. lia.
Qed.

Lemma shift_bit_step j m s : 0 <= j < fw -> 0 <= m -> 0 < s ->
  (if up then (if j <? s then f else shift_bit up x fw f m (j - s))
   else (if j <? fw - s then shift_bit up x fw f m (j + s) else f))
  = shift_bit up x fw f (m + s) j.
Proof.
  intros Hj Hm Hs. unfold shift_bit, shl_bit, shr_bit. destruct up.
  - destruct (j <? s) eqn:E1; destruct (j <? m + s) eqn:E2; try lia; try reflexivity.
    + destruct (j - s <? m) eqn:E3; [reflexivity|lia].
    + destruct (j - s <? m) eqn:E3; [lia|]. f_equal. lia.
  - destruct (j <? fw - s) eqn:E1; destruct (j + (m + s) <? fw) eqn:E2; try lia; try reflexivity.
    + destruct (j + s + m <? fw) eqn:E3; [|lia]. f_equal. lia.
    + destruct (j + s + m <? fw) eqn:E3; [lia|reflexivity].
Qed.

Lemma shift_bit_sat j m : 0 <= j < fw -> fw <= m -> shift_bit up x fw f m j = f.
Proof.
  intros Hj Hm. unfold shift_bit, shl_bit, shr_bit. destruct up.
  - destruct (j <? m) eqn:E; [reflexivity|lia].
  - destruct (j + m <? fw) eqn:E; [lia|reflexivity].
Qed.

Lemma stage_step (i : nat) st : (Z.of_nat i < wd dist) -> Inv (Z.of_nat i) st ->
  Inv (Z.of_nat i + 1) (barrel_stage fw dir dist st i).
Proof.
  intros Hi HI. destruct st as [v app]. destruct HI as [Hwv [Hrv [Hbits Happ]]].
  set (s := 2 ^ Z.of_nat i). pose proof (pow2_pos (Z.of_nat i) ltac:(lia)) as Hs. fold s in Hs.
  assert (Hv : wf v) by (split; [lia|rewrite Hwv; exact Hrv]).
  assert (Hdi : getitem_d dist (IInt (Z.of_nat i)) = (b2z (Z.testbit amt (Z.of_nat i)), 1)).
  { apply getitem_bit; [assumption|lia]. }
  assert (Hmod : amt mod 2 ^ (Z.of_nat i + 1)
                 = amt mod 2 ^ Z.of_nat i + (if Z.testbit amt (Z.of_nat i) then s else 0)).
  { apply mod_pow2_succ_bit. lia. }
  assert (Hm0 : 0 <= amt mod 2 ^ Z.of_nat i) by (apply Z.mod_pos_bound; lia).
  assert (Hs2 : 2 ^ (Z.of_nat i + 1) = s + s).
  { rewrite Z.pow_add_r, Z.pow_1_r by lia. subst s. lia. }
  unfold barrel_stage. fold s. rewrite Hdi.
  destruct (s <? fw) eqn:Es.
  - (* a real shifting stage *)
    assert (Happ' : app = (fillv f s, s)).
    { rewrite Happ. unfold app_of. fold s. rewrite Z.min_l by lia. reflexivity. }
    assert (Hwapp : wf app).
    { rewrite Happ'. apply wf_pair. split; [lia|apply fillv_range; lia]. }
    unfold getitem_d.
    rewrite (getitem_negto v s) by (try assumption; lia).
    rewrite (getitem_from v s) by (try assumption; lia).
    rewrite Hwv.
    assert (Hw1 : wf (val v mod 2 ^ (fw - s), fw - s)).
    { apply wf_pair. split; [lia|]. apply Z.mod_pos_bound. apply pow2_pos. lia. }
    assert (Hw2 : wf (val v / 2 ^ s, fw - s)).
    { apply wf_pair. split; [lia|].
      pose proof (div_pow2_small (val v) fw s ltac:(lia) ltac:(lia) Hrv) as Hd.
      rewrite Z.min_l in Hd by lia. exact Hd. }
    rewrite (concat2 _ app) by assumption. rewrite (concat2 app) by assumption.
    rewrite Happ'. cbn [val wd fst snd].
    set (upv := (val v mod 2 ^ (fw - s) * 2 ^ s + fillv f s, fw - s + s)).
    set (dnv := (fillv f s * 2 ^ (fw - s) + val v / 2 ^ s, s + (fw - s))).
    pose proof (fillv_range f s ltac:(lia)) as Hfs.
    assert (Hupw : wf upv).
    { subst upv. apply wf_pair. split; [lia|].
      destruct Hw1 as [_ [A0 A1]]. cbn [val wd fst snd] in A0, A1.
      replace (fw - s + s) with ((fw - s) + s) by lia. rewrite Z.pow_add_r by lia. nia. }
    assert (Hdnw : wf dnv).
    { subst dnv. apply wf_pair. split; [lia|].
      destruct Hw2 as [_ [A0 A1]]. cbn [val wd fst snd] in A0, A1.
      rewrite Z.pow_add_r by lia. nia. }
    rewrite (select_mux upv dnv Hupw Hdnw dir).
    replace (Z.max (wd upv) (wd dnv)) with fw by (subst upv dnv; cbn [wd snd]; lia).
    set (nv := (if val dir =? 0 then val dnv else val upv, fw)).
    assert (Hnvw : wf nv).
    { subst nv. apply wf_pair. split; [lia|].
      destruct (val dir =? 0).
      - destruct Hdnw as [_ A]. subst dnv. cbn [val wd fst snd] in *.
        replace (s + (fw - s)) with fw in A by lia. exact A.
      - destruct Hupw as [_ A]. subst upv. cbn [val wd fst snd] in *.
        replace (fw - s + s) with fw in A by lia. exact A. }
    assert (Hnvbits : forall j, 0 <= j < fw ->
              Z.testbit (val nv) j = shift_bit up x fw f (amt mod 2 ^ Z.of_nat i + s) j).
    { intros j Hj. rewrite <- shift_bit_step by lia.
      subst nv. cbn [val fst]. subst up. destruct (val dir =? 0); cbn [negb].
      - subst dnv. cbn [val fst].
        rewrite testbit_hi_lo by (try lia; destruct Hw2 as [_ A]; exact A).
        destruct (j <? fw - s) eqn:E.
        + rewrite Z.div_pow2_bits by lia. apply Hbits. lia.
        + apply fillv_testbit. lia.
      - subst upv. cbn [val fst].
        rewrite testbit_hi_lo by (try lia; exact Hfs).
        destruct (j <? s) eqn:E.
        + apply fillv_testbit. lia.
        + rewrite Z.mod_pow2_bits_low by lia. apply Hbits. lia. }
    rewrite (select_mux nv v Hnvw Hv).
    replace (Z.max (wd nv) (wd v)) with fw by (subst nv; cbn [wd snd]; lia).
    unfold Inv. split; [reflexivity|]. cbn [val fst].
    rewrite Hmod.
    split; [|split].
    + destruct (Z.testbit amt (Z.of_nat i)); cbn [b2z].
      * change (1 =? 0) with false. cbv iota. destruct Hnvw as [_ A]. exact A.
      * change (0 =? 0) with true. cbv iota. exact Hrv.
    + intros j Hj. destruct (Z.testbit amt (Z.of_nat i)); cbn [b2z].
      * change (1 =? 0) with false. cbv iota. apply Hnvbits. exact Hj.
      * change (0 =? 0) with true. cbv iota. rewrite Z.add_0_r. apply Hbits. exact Hj.
    + (* append_val = concat(append_val, append_val)[:final_width] *)
      rewrite concat2 by (apply wf_pair; split; [lia|exact Hfs]). cbn [val wd fst snd].
      rewrite fillv_double by lia. rewrite getitem_to_clamp.
      * cbn [val wd fst snd]. unfold app_of. rewrite Hs2.
        rewrite (Z.min_comm fw (s + s)). rewrite fillv_mod by lia. reflexivity.
      * apply wf_pair. split; [lia|apply fillv_range; lia].
      * lia.
  - (* shifting by 2^i >= width: everything is shifted out *)
    assert (Happ' : app = (fillv f fw, fw)).
    { rewrite Happ. unfold app_of. fold s. rewrite Z.min_r by lia. reflexivity. }
    assert (Hwapp : wf app).
    { rewrite Happ'. apply wf_pair. split; [lia|apply fillv_range; lia]. }
    rewrite (select_mux app v Hwapp Hv).
    replace (Z.max (wd app) (wd v)) with fw by (rewrite Happ'; cbn [wd snd]; lia).
    unfold Inv. split; [reflexivity|]. cbn [val fst]. rewrite Hmod.
    split; [|split].
    + destruct (Z.testbit amt (Z.of_nat i)); cbn [b2z].
      * change (1 =? 0) with false. cbv iota. rewrite Happ'. cbn [val fst]. apply fillv_range. lia.
      * change (0 =? 0) with true. cbv iota. exact Hrv.
    + intros j Hj. destruct (Z.testbit amt (Z.of_nat i)); cbn [b2z].
      * change (1 =? 0) with false. cbv iota. rewrite Happ'. cbn [val fst].
        rewrite fillv_testbit by lia. symmetry. apply shift_bit_sat; lia.
      * change (0 =? 0) with true. cbv iota. rewrite Z.add_0_r. apply Hbits. exact Hj.
    + rewrite Happ'. unfold app_of. rewrite Hs2. rewrite Z.min_r by lia. reflexivity.
Qed.

Lemma stages_inv (n : nat) st : Z.of_nat n <= wd dist -> Inv 0 st ->
  Inv (Z.of_nat n) (fold_left (barrel_stage fw dir dist) (seq 0 n) st).
Proof.
  induction n as [|n IH]; intros Hn H0.
  - exact H0.
  - rewrite seq_S, fold_left_app. cbn [fold_left Nat.add].
    rewrite Nat2Z.inj_succ. unfold Z.succ. apply stage_step; [lia|]. apply IH; [lia|exact H0].
Qed.

Lemma inv_init : Inv 0 ((x, fw), (b2z f, 1)).
Proof.
  unfold Inv. cbn [val wd fst snd]. split; [reflexivity|]. split; [exact Hx|]. split.
  - intros j Hj. rewrite Z.pow_0_r, Z.mod_1_r.
    unfold shift_bit, shl_bit, shr_bit. destruct up.
    + destruct (j <? 0) eqn:E; [lia|]. f_equal. lia.
    + destruct (j + 0 <? fw) eqn:E; [|lia]. f_equal. lia.
  - unfold app_of. rewrite Z.pow_0_r, Z.min_l by lia. unfold fillv. destruct f; reflexivity.
Qed.

(* the result: width preserved, bit j = the fully shifted bit *)
Lemma barrel_bits :
  let r := barrel_shifter (x, fw) (b2z f, 1) dir dist in
  wd r = fw /\ inrange (val r) fw /\
  forall j, 0 <= j < fw -> Z.testbit (val r) j = shift_bit up x fw f amt j.
Proof.
  unfold barrel_shifter. cbn [wd snd].
  pose proof Hdist as [Hwd [D0 D1]].
  pose proof (stages_inv (Z.to_nat (wd dist)) ((x, fw), (b2z f, 1)) ltac:(lia) inv_init) as H.
  rewrite Z2Nat.id in H by lia.
  destruct (fold_left _ _ _) as [v app]. cbn [fst].
  destruct H as [Hw [Hr [Hb _]]]. split; [exact Hw|]. split; [exact Hr|].
  intros j Hj. rewrite Hb by exact Hj. subst amt. rewrite Z.mod_small by lia. reflexivity.
Qed.

(* arithmetic form *)
Lemma barrel_full_shift :
  barrel_shifter (x, fw) (b2z f, 1) dir dist =
  (if up then shl_fill x fw f amt else shr_fill x fw f amt, fw).
Proof.
  pose proof barrel_bits as H. cbv zeta in H. destruct H as [Hw [Hr Hb]].
  pose proof Hdist as [Hwd [D0 D1]].
  destruct (barrel_shifter (x, fw) (b2z f, 1) dir dist) as [v w]. cbn [val wd fst snd] in *.
  subst w. f_equal.
  apply (inrange_bits_eq _ _ fw); [lia|exact Hr| |].
  - destruct up; [apply shl_fill_range; lia|apply shr_fill_range; [subst amt|..]; lia || exact Hx].
  - intros j Hj. rewrite Hb by exact Hj. unfold shift_bit. destruct up.
    + symmetry. apply shl_fill_bits; subst amt; lia.
    + symmetry. apply shr_fill_bits; [subst amt; lia|exact Hx|exact Hj].
Qed.

End Barrel.

(* ------------------------------------------------------------ shift_* by a wire amount *)
Lemma shift_left_logical_spec bits amt : wf bits -> wf amt ->
  shift_left_logical bits amt = ((val bits * 2 ^ val amt) mod 2 ^ wd bits, wd bits).
Proof.
  intros [Hw Hr] Ha. destruct bits as [x w]. cbn [val wd fst snd] in *.
  unfold shift_left_logical. change (0, 1) with (b2z false, 1).
  rewrite barrel_full_shift by assumption. cbn [val fst]. change (negb (1 =? 0)) with true. cbv iota.
  unfold shl_fill, fillv. rewrite Z.add_0_r. reflexivity.
Qed.

Lemma shift_left_arithmetic_spec bits amt : wf bits -> wf amt ->
  shift_left_arithmetic bits amt = ((val bits * 2 ^ val amt) mod 2 ^ wd bits, wd bits).
Proof. exact (shift_left_logical_spec bits amt). Qed.

Lemma shift_right_logical_spec bits amt : wf bits -> wf amt ->
  shift_right_logical bits amt = (val bits / 2 ^ val amt, wd bits).
Proof.
  intros [Hw Hr] Ha. destruct bits as [x w]. cbn [val wd fst snd] in *.
  unfold shift_right_logical. change (0, 1) with (b2z false, 1) at 1.
  rewrite barrel_full_shift by assumption. cbn [val fst]. change (negb (0 =? 0)) with false. cbv iota.
  unfold shr_fill. rewrite Z.add_0_r. reflexivity.
Qed.

(* arithmetic right shift: the sign bit is shifted in *)
Lemma shift_right_arithmetic_spec bits amt : wf bits -> wf amt ->
  shift_right_arithmetic bits amt =
  (shr_fill (val bits) (wd bits) (Z.testbit (val bits) (wd bits - 1)) (val amt), wd bits).
Proof.
  intros Hb Ha. unfold shift_right_arithmetic. rewrite msb_spec by assumption.
  destruct Hb as [Hw Hr]. destruct bits as [x w]. cbn [val wd fst snd] in *.
  rewrite barrel_full_shift by assumption. cbn [val fst]. change (negb (0 =? 0)) with false.
  reflexivity.
Qed.

(* ... which is floor division of the two's-complement value *)
Lemma shr_fill_signed x w m : 1 <= w -> inrange x w -> 0 <= m ->
  to_signed (shr_fill x w (Z.testbit x (w - 1)) m) w = to_signed x w / 2 ^ m.
Proof.
  intros Hw Hx Hm. rewrite testbit_msb by assumption. destruct Hx as [H0 H1].
  assert (HP : 2 ^ w = 2 * 2 ^ (w - 1)).
  { replace w with (Z.succ (w - 1)) at 1 by lia. apply Z.pow_succ_r. lia. }
  pose proof (pow2_pos (w - 1) ltac:(lia)) as Hp. pose proof (pow2_pos m Hm) as Hpm.
  unfold shr_fill, to_signed.
  destruct (2 ^ (w - 1) <=? x) eqn:E.
  - destruct (x <? 2 ^ (w - 1)) eqn:E2; [lia|].
    destruct (Z.le_gt_cases m w) as [Hle|Hgt].
    + rewrite Z.min_l by lia.
      assert (Hs : 2 ^ w = 2 ^ (w - m) * 2 ^ m).
      { rewrite <- Z.pow_add_r by lia. f_equal. lia. }
      pose proof (pow2_pos (w - m) ltac:(lia)) as Hpw.
      assert (Hdiv : (x - 2 ^ w) / 2 ^ m = x / 2 ^ m - 2 ^ (w - m)).
      { rewrite Hs. replace (x - 2 ^ (w - m) * 2 ^ m) with (x + (- 2 ^ (w - m)) * 2 ^ m) by lia.
        rewrite Z.div_add by lia. lia. }
      rewrite Hdiv.
      assert (Hq : 2 ^ (w - 1) <= x / 2 ^ m + (2 ^ w - 2 ^ (w - m))).
      { assert (0 <= x / 2 ^ m) by (apply Z.div_pos; lia).
        destruct (Z.eq_dec m 0) as [->|Hne].
        - rewrite Z.sub_0_r, Z.pow_0_r, Z.div_1_r. lia.
        - pose proof (pow2_le (w - m) (w - 1) ltac:(lia)). lia. }
      destruct (x / 2 ^ m + (2 ^ w - 2 ^ (w - m)) <? 2 ^ (w - 1)) eqn:E3; lia.
    + rewrite Z.min_r by lia. rewrite Z.sub_diag, Z.pow_0_r.
      pose proof (pow2_le w m ltac:(lia)) as Hle.
      rewrite (Z.div_small x) by lia.
      assert (Hdiv : (x - 2 ^ w) / 2 ^ m = -1).
      { symmetry. apply Z.div_unique with (x - 2 ^ w + 2 ^ m); lia. }
      rewrite Hdiv. destruct (0 + (2 ^ w - 1) <? 2 ^ (w - 1)) eqn:E3; lia.
  - destruct (x <? 2 ^ (w - 1)) eqn:E2; [|lia]. rewrite Z.add_0_r.
    assert (x / 2 ^ m <= x) by (apply Z.div_le_upper_bound; nia).
    assert (0 <= x / 2 ^ m) by (apply Z.div_pos; lia).
    destruct (x / 2 ^ m <? 2 ^ (w - 1)) eqn:E3; lia.
Qed.

Lemma shift_right_arithmetic_signed bits amt : wf bits -> wf amt ->
  wd (shift_right_arithmetic bits amt) = wd bits /\
  sval (shift_right_arithmetic bits amt) = sval bits / 2 ^ val amt.
Proof.
  intros Hb Ha. rewrite shift_right_arithmetic_spec by assumption. split; [reflexivity|].
  unfold sval. cbn [val wd fst snd]. destruct Hb as [Hw Hr]. destruct Ha as [_ [A0 _]].
  apply shr_fill_signed; assumption.
Qed.

(* ------------------------------------------------------------ shift_* by a Python int *)
Lemma convert_int_zero k : 1 <= k -> convert_int 0 (Some k) false = Some (0, k).
Proof.
  intros Hk. unfold convert_int. cbn. destruct (k <? 1) eqn:E; [lia|reflexivity].
Qed.

Lemma sll_const_spec bits k : wf bits -> 1 <= k <= wd bits - 1 ->
  sll_const bits k = Some ((val bits * 2 ^ k) mod 2 ^ wd bits, wd bits).
Proof.
  intros Hb Hk. pose proof Hb as [Hw [H0 H1]]. unfold sll_const.
  rewrite getitem_negto by (try assumption; lia). rewrite convert_int_zero by lia.
  rewrite concat2.
  - cbn [val wd fst snd]. f_equal. f_equal; [|lia].
    rewrite Z.add_0_r. replace (wd bits) with ((wd bits - k) + k) at 2 by lia.
    rewrite Z.pow_add_r by lia. rewrite Z.mul_mod_distr_r; [reflexivity| |];
      pose proof (pow2_pos (wd bits - k)); pose proof (pow2_pos k); lia.
  - apply wf_pair. split; [lia|]. apply Z.mod_pos_bound. apply pow2_pos. lia.
  - apply wf_pair. pose proof (pow2_pos k). lia.
Qed.

Lemma srl_const_spec bits k : wf bits -> 1 <= k <= wd bits - 1 ->
  srl_const bits k = Some (val bits / 2 ^ k, wd bits).
Proof.
  intros Hb Hk. pose proof Hb as [Hw Hr]. unfold srl_const.
  rewrite getitem_from by (try assumption; lia).
  rewrite zero_extended_spec.
  - cbn [val wd fst snd]. destruct (wd bits <? wd bits - k) eqn:E; [lia|reflexivity].
  - apply wf_pair. split; [lia|].
    pose proof (div_pow2_small (val bits) (wd bits) k ltac:(lia) ltac:(lia) Hr) as Hd.
    rewrite Z.min_l in Hd by lia. exact Hd.
Qed.

Lemma sra_const_spec bits k : wf bits -> 1 <= k <= wd bits - 1 ->
  sra_const bits k =
  Some (shr_fill (val bits) (wd bits) (Z.testbit (val bits) (wd bits - 1)) k, wd bits).
Proof.
  intros Hb Hk. pose proof Hb as [Hw Hr]. unfold sra_const.
  rewrite getitem_from by (try assumption; lia).
  pose proof (div_pow2_small (val bits) (wd bits) k ltac:(lia) ltac:(lia) Hr) as Hd.
  rewrite Z.min_l in Hd by lia.
  assert (Hhi : wf (val bits / 2 ^ k, wd bits - k)) by (apply wf_pair; split; [lia|exact Hd]).
  unfold sign_extended. cbn [wd snd]. destruct (wd bits <? wd bits - k) eqn:E; [lia|].
  rewrite sign_ext_val by (try assumption; cbn [wd snd]; lia). cbn [val wd fst snd].
  f_equal. f_equal. unfold shr_fill. rewrite Z.min_l by lia. f_equal.
  rewrite <- (testbit_msb (val bits / 2 ^ k) (wd bits - k)) by (try lia; exact Hd).
  rewrite Z.div_pow2_bits by lia. replace (wd bits - k - 1 + k) with (wd bits - 1) by lia.
  reflexivity.
Qed.

(* the int-amount and the wire-amount forms agree *)
Lemma const_shift_agrees bits k wk : wf bits -> 1 <= k <= wd bits - 1 -> wf (k, wk) ->
  sll_const bits k = Some (shift_left_logical bits (k, wk)) /\
  srl_const bits k = Some (shift_right_logical bits (k, wk)) /\
  sra_const bits k = Some (shift_right_arithmetic bits (k, wk)).
Proof.
  intros Hb Hk Ha.
  rewrite sll_const_spec, srl_const_spec, sra_const_spec by assumption.
  rewrite shift_left_logical_spec, shift_right_logical_spec, shift_right_arithmetic_spec by assumption.
  repeat split.
Qed.

Lemma shift_fill_bits x w f m j : 0 <= m -> inrange x w -> 0 <= j < w ->
  Z.testbit (shl_fill x w f m) j = (if j <? m then f else Z.testbit x (j - m)) /\
  Z.testbit (shr_fill x w f m) j = (if j + m <? w then Z.testbit x (j + m) else f).
Proof.
  intros Hm Hx Hj. split; [apply shl_fill_bits; assumption|apply shr_fill_bits; assumption].
Qed.

Lemma const_shifts bits k : wf bits -> 1 <= k <= wd bits - 1 ->
  sll_const bits k = Some ((val bits * 2 ^ k) mod 2 ^ wd bits, wd bits) /\
  sla_const bits k = Some ((val bits * 2 ^ k) mod 2 ^ wd bits, wd bits) /\
  srl_const bits k = Some (val bits / 2 ^ k, wd bits) /\
  sra_const bits k = Some (shr_fill (val bits) (wd bits) (Z.testbit (val bits) (wd bits - 1)) k, wd bits).
Proof.
  intros Hb Hk. split; [apply sll_const_spec; assumption|].
  split; [apply sll_const_spec; assumption|].
  split; [apply srl_const_spec; assumption|apply sra_const_spec; assumption].
Qed.
