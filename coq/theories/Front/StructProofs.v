(* C14 -- chop, partition_wire, wire_struct / wire_matrix: every component is
   exactly its bit range and the concatenation reproduces the whole. *)
From Coq Require Import ZArith List Bool Lia.
From PyRTL Require Import Base.PyZ Front.SliceC14 Front.SliceC14Proofs Front.MuxProofs Front.BitfieldProofs Front.Struct.
Import ListNotations.
Open Scope nat_scope.

Lemma all_some_map {A} (l : list (option A)) r : all_some l = Some r -> l = map Some r.
Proof.
  revert r. induction l as [|[x|] l IH]; intros r H; cbn [all_some] in H.
  - injection H as <-. reflexivity.
  - destruct (all_some l) as [r'|]; [|discriminate]. injection H as <-. cbn [map]. f_equal. apply IH. reflexivity.
  - discriminate.
Qed.

Lemma wslice_nat w a b r : wslice w (Some (Z.of_nat a)) (Some (Z.of_nat b)) = Some r ->
  a <= b <= length w -> r = firstn (b - a) (skipn a w) /\ a < b.
Proof.
  intros H Hab. unfold wslice in H. fold (sl w a b) in H. rewrite sl_inrange in H by exact Hab.
  destruct (firstn (b - a) (skipn a w)) as [|x l] eqn:E; [discriminate|]. injection H as <-.
  split; [reflexivity|]. destruct (Nat.eq_dec a b) as [->|]; [|lia].
  rewrite Nat.sub_diag in E. discriminate.
Qed.

Lemma sum_skipn_le ws i : sum_nat (skipn i ws) <= sum_nat ws.
Proof.
  revert i. induction ws as [|a ws IH]; intros [|i]; cbn [skipn sum_nat fold_right]; try lia.
  specialize (IH i). unfold sum_nat in IH. lia.
Qed.

Lemma sum_skipn_S ws i : i < length ws -> sum_nat (skipn i ws) = nth i ws 0 + sum_nat (skipn (S i) ws).
Proof.
  revert i. induction ws as [|a ws IH]; intros [|i] H; cbn [length] in H; try lia.
  - reflexivity.
  - cbn [skipn nth]. apply IH. lia.
Qed.

(* ---------- chop ---------- *)
Definition chop_piece (w : bits) (ws : list nat) (i : nat) : bits :=
  firstn (nth i ws 0) (skipn (sum_nat (skipn (S i) ws)) w).

Lemma chop_pieces : forall w ws ps, chop w ws = Some ps ->
  sum_nat ws = length w /\
  ps = map (chop_piece w ws) (seq 0 (length ws)) /\
  (forall i, i < length ws -> 1 <= nth i ws 0).
Proof.
  intros w ws ps H. unfold chop in H.
  destruct (Nat.eqb (sum_nat ws) (length w)) eqn:E; cbn [negb] in H; [|discriminate].
  apply Nat.eqb_eq in E. split; [exact E|].
  apply all_some_map in H.
  assert (Hc : combine (map (fun i => sum_nat (skipn (S i) ws)) (seq 0 (length ws)))
                       (map (fun i => sum_nat (skipn i ws)) (seq 0 (length ws)))
               = map (fun i => (sum_nat (skipn (S i) ws), sum_nat (skipn i ws))) (seq 0 (length ws))).
  { generalize (seq 0 (length ws)). intros l. induction l as [|x l IH]; cbn [map combine]; [reflexivity|].
    f_equal. exact IH. }
  rewrite Hc, map_map in H. cbn [fst snd] in H.
  assert (Hall : forall i, i < length ws ->
            Some (nth i ps []) = Some (chop_piece w ws i) /\ 1 <= nth i ws 0).
  { intros i Hi.
    assert (Hn : nth i (map Some ps) None = wslice w (Some (Z.of_nat (sum_nat (skipn (S i) ws))))
                                                  (Some (Z.of_nat (sum_nat (skipn i ws))))).
    { rewrite <- H. rewrite nth_map_seq by exact Hi. reflexivity. }
    assert (Hlen : length ps = length ws).
    { apply (f_equal (@length _)) in H. rewrite !map_length, seq_length in H. lia. }
    unfold bits in *.
    rewrite (nth_indep (map Some ps) None (Some (@nil bool))) in Hn by (rewrite map_length; lia).
    rewrite (map_nth (@Some (list bool)) ps (@nil bool) i) in Hn.
    pose proof (sum_skipn_S ws i Hi) as Hs. pose proof (sum_skipn_le ws i) as Hle.
    symmetry in Hn. apply wslice_nat in Hn; [|lia]. destruct Hn as [Hn Hlt].
    split; [|lia]. rewrite Hn. unfold chop_piece. do 2 f_equal. lia. }
  split.
  - assert (Hlen : length ps = length ws).
    { apply (f_equal (@length _)) in H. rewrite !map_length, seq_length in H. lia. }
    apply nth_ext with (d := []) (d' := chop_piece w ws 0).
    + rewrite map_length, seq_length. exact Hlen.
    + intros i Hi. rewrite Hlen in Hi. destruct (Hall i Hi) as [E1 _]. injection E1 as E1. rewrite E1.
      rewrite nth_map_seq by exact Hi. reflexivity.
  - intros i Hi. apply (Hall i Hi).
Qed.

Lemma firstn_skipn_app_exact {A} (lo hi extra : list A) :
  firstn (length hi) (skipn (length lo) (lo ++ hi ++ extra)) = hi.
Proof.
  rewrite skipn_app, skipn_all, Nat.sub_diag. cbn [app skipn].
  rewrite firstn_app, Nat.sub_diag, firstn_all. cbn [firstn]. apply app_nil_r.
Qed.

(* the segments, most significant first, tile w: generalised over a suffix *)
Lemma chop_concat_gen : forall ws w extra, sum_nat ws = length w ->
  concat (rev (map (chop_piece (w ++ extra) ws) (seq 0 (length ws)))) = w.
Proof.
  induction ws as [|a ws IH]; intros w extra Hs.
  - destruct w; [reflexivity|discriminate].
  - cbn [sum_nat fold_right] in Hs. fold (sum_nat ws) in Hs.
    set (lo := firstn (sum_nat ws) w). set (hi := skipn (sum_nat ws) w).
    assert (Hw : w = lo ++ hi) by (symmetry; apply firstn_skipn).
    assert (Hlo : length lo = sum_nat ws) by (unfold lo; rewrite firstn_length; lia).
    assert (Hhi : length hi = a) by (unfold hi; rewrite skipn_length; lia).
    cbn [length seq map]. rewrite <- seq_shift, map_map.
    cbn [rev]. rewrite concat_app. cbn [concat]. rewrite app_nil_r.
    assert (E0 : chop_piece (w ++ extra) (a :: ws) 0 = hi).
    { unfold chop_piece. cbn [nth skipn]. rewrite Hw, <- app_assoc, <- Hlo, <- Hhi.
      apply firstn_skipn_app_exact. }
    assert (Er : map (fun x => chop_piece (w ++ extra) (a :: ws) (S x)) (seq 0 (length ws)) =
                 map (chop_piece (lo ++ (hi ++ extra)) ws) (seq 0 (length ws))).
    { apply map_ext. intros i. unfold chop_piece. cbn [nth skipn]. rewrite Hw at 1. rewrite <- app_assoc. reflexivity. }
    rewrite E0, Er. rewrite IH by (symmetry; exact Hlo). symmetry. exact Hw.
Qed.

(* chop: segment i is exactly bits [sum(ws[i+1:]), sum(ws[i:])) of w, every
   segment has its requested positive width, and concatenating the segments gives back w *)
Theorem chop_spec : forall w ws ps, chop w ws = Some ps ->
  sum_nat ws = length w /\ length ps = length ws /\
  (forall i, i < length ws ->
     nth i ps [] = firstn (nth i ws 0) (skipn (sum_nat (skipn (S i) ws)) w) /\
     length (nth i ps []) = nth i ws 0 /\ 1 <= nth i ws 0) /\
  concat_msb ps = w.
Proof.
  intros w ws ps H. destruct (chop_pieces w ws ps H) as (Hs & Hp & Hpos).
  split; [exact Hs|]. split; [rewrite Hp, map_length, seq_length; reflexivity|]. split.
  - intros i Hi. rewrite Hp.
    rewrite nth_map_seq by exact Hi. unfold chop_piece. split; [reflexivity|].
    split; [|apply Hpos; exact Hi].
    rewrite firstn_length, skipn_length.
    pose proof (sum_skipn_S ws i Hi). pose proof (sum_skipn_le ws i). lia.
  - unfold concat_msb. rewrite Hp. rewrite <- (app_nil_r w) at 1. apply chop_concat_gen. exact Hs.
Qed.

(* ---------- partition_wire ---------- *)
Lemma range_step_spec : forall m fuel lo n step, 1 <= step -> n - lo <= fuel -> lo <= n -> n - lo = m * step ->
  range_step fuel lo n step = map (fun k => lo + k * step) (seq 0 m).
Proof.
  induction m as [|m IH]; intros fuel lo n step Hs Hf Hlo Hm.
  - cbn [seq map]. destruct fuel as [|f]; [reflexivity|]. cbn [range_step].
    replace (lo <? n) with false by (symmetry; apply Nat.ltb_ge; lia). reflexivity.
  - destruct fuel as [|f]; [nia|]. cbn [range_step].
    replace (lo <? n) with true by (symmetry; apply Nat.ltb_lt; nia).
    cbn [seq map]. f_equal; [lia|]. rewrite <- seq_shift, map_map.
    rewrite (IH f (lo + step) n step) by nia. apply map_ext. intros k. lia.
Qed.

Lemma skipn_skipn' {A} (l : list A) a b : skipn a (skipn b l) = skipn (b + a) l.
Proof.
  revert l. induction b as [|b IH]; intros l; [reflexivity|].
  destruct l as [|x l]; [destruct a; reflexivity|]. cbn [skipn Nat.add]. apply IH.
Qed.

Lemma partition_concat {A} : forall m size (w : list A), length w = m * size ->
  concat (map (fun k => firstn size (skipn (k * size) w)) (seq 0 m)) = w.
Proof.
  induction m as [|m IH]; intros size w Hl.
  - destruct w; [reflexivity|discriminate].
  - cbn [seq map concat]. cbn [Nat.mul skipn]. rewrite <- seq_shift, map_map.
    transitivity (firstn size w ++ skipn size w); [|apply firstn_skipn]. f_equal.
    transitivity (concat (map (fun k => firstn size (skipn (k * size) (skipn size w))) (seq 0 m)));
      [|apply IH; rewrite skipn_length; lia].
    f_equal. apply map_ext. intros k. f_equal. rewrite skipn_skipn'. f_equal; lia.
Qed.

(* partition_wire: partition k is bits [k*size, (k+1)*size) and the partitions,
   least significant first, tile the wire *)
Theorem partition_wire_spec : forall w size ps, partition_wire w size = Some ps ->
  1 <= size /\ Nat.modulo (length w) size = 0 /\ length ps = length w / size /\
  (forall k, k < length w / size -> nth k ps [] = firstn size (skipn (k * size) w) /\ length (nth k ps []) = size) /\
  concat_lsb ps = w.
Proof.
  intros w size ps H. unfold partition_wire in H.
  destruct (Nat.eqb size 0) eqn:E0; [discriminate|]. apply Nat.eqb_neq in E0.
  destruct (Nat.eqb (Nat.modulo (length w) size) 0) eqn:Em; cbn [negb] in H; [|discriminate].
  apply Nat.eqb_eq in Em.
  set (m := length w / size) in *.
  assert (Hlen : length w = m * size).
  { unfold m. pose proof (Nat.div_mod (length w) size E0). lia. }
  rewrite (range_step_spec m) in H by lia.
  apply all_some_map in H. rewrite map_map in H. cbn [Nat.add] in H.
  assert (Hall : forall k, k < m -> nth k ps [] = firstn size (skipn (k * size) w)).
  { intros k Hk.
    assert (Hn : nth k (map Some ps) None =
                 wslice w (Some (Z.of_nat (k * size))) (Some (Z.of_nat (k * size + size)))).
    { rewrite <- H. rewrite nth_map_seq by exact Hk. reflexivity. }
    assert (Hl : length ps = m).
    { apply (f_equal (@length _)) in H. rewrite !map_length, seq_length in H. lia. }
    unfold bits in *.
    rewrite (nth_indep (map Some ps) None (Some (@nil bool))) in Hn by (rewrite map_length; lia).
    rewrite (map_nth (@Some (list bool)) ps (@nil bool) k) in Hn.
    symmetry in Hn. apply wslice_nat in Hn; [|nia]. destruct Hn as [Hn _]. rewrite Hn. f_equal. lia. }
  assert (Hl : length ps = m).
  { apply (f_equal (@length _)) in H. rewrite !map_length, seq_length in H. lia. }
  split; [lia|]. split; [exact Em|]. split; [exact Hl|]. split.
  - intros k Hk. split; [apply Hall; exact Hk|]. rewrite Hall by exact Hk.
    rewrite firstn_length, skipn_length. nia.
  - unfold concat_lsb.
    transitivity (concat (map (fun k => firstn size (skipn (k * size) w)) (seq 0 m)));
      [|apply partition_concat; exact Hlen]. f_equal.
    apply nth_ext with (d := []) (d' := firstn size (skipn (0 * size) w)).
    + rewrite map_length, seq_length. exact Hl.
    + intros k Hk. rewrite Hl in Hk. rewrite Hall by exact Hk.
      rewrite (nth_map_seq (fun k => firstn size (skipn (k * size) w))) by exact Hk. reflexivity.
Qed.

(* ---------- wire_struct / wire_matrix ---------- *)
Definition sumbw (l : list schema) : nat := sum_nat (map sbw l).

Lemma sbw_struct fs : sbw (SStruct fs) = sumbw fs.
Proof. induction fs as [|c r IH]; [reflexivity|]. cbn [sbw] in *. unfold sumbw in *. cbn [map sum_nat fold_right]. rewrite IH. reflexivity. Qed.

Lemma sumbw_repeat e n : sumbw (repeat e n) = sbw e * n.
Proof. induction n as [|n IH]; [cbn; lia|]. unfold sumbw in *. cbn [repeat map sum_nat fold_right]. fold (sum_nat (map sbw (repeat e n))). rewrite IH. lia. Qed.

Lemma sbw_children s : children s <> [] -> sbw s = sumbw (children s).
Proof.
  destruct s as [w|fs|e n]; cbn [children]; intros H.
  - congruence.
  - apply sbw_struct.
  - rewrite sumbw_repeat. reflexivity.
Qed.

Fixpoint slice_kids (v : bits) (l : list schema) (endi : nat) : list ctree :=
  match l with
  | [] => []
  | c :: r => slice_comp c (sl v (endi - sbw c) endi) :: slice_kids v r (endi - sbw c)
  end.

(* the two component loops of the model are this one loop over children s *)
Lemma slice_comp_children s v0 :
  slice_comp s v0 =
  CNode (resize (sbw s) v0) (slice_kids (resize (sbw s) v0) (children s) (sbw s)).
Proof.
  destruct s as [w|fs|e n].
  - reflexivity.
  - cbn [slice_comp children]. f_equal.
    generalize (sbw (SStruct fs)) at 2 4. generalize (resize (sbw (SStruct fs)) v0).
    induction fs as [|c r IH]; intros v endi; [reflexivity|]. cbn [slice_kids]. f_equal. apply IH.
  - cbn [slice_comp children]. f_equal.
    generalize (sbw (SMatrix e n)) at 2 4. generalize (resize (sbw (SMatrix e n)) v0).
    induction n as [|n IH]; intros v endi; [reflexivity|]. cbn [repeat slice_kids]. f_equal. apply IH.
Qed.

Lemma length_resize n l : length (resize n l) = n.
Proof. unfold resize. rewrite firstn_length, length_zext. lia. Qed.

Lemma resize_id n l : length l = n -> resize n l = l.
Proof.
  intros H. unfold resize. rewrite zext_id by lia. apply firstn_all2. lia.
Qed.

Lemma firstn_add {A} (l : list A) a b : firstn (a + b) l = firstn a l ++ firstn b (skipn a l).
Proof.
  revert l. induction a as [|a IH]; intros l; [reflexivity|].
  destruct l as [|x l]; [destruct b; reflexivity|]. cbn [Nat.add firstn skipn app]. f_equal. apply IH.
Qed.

(* what a correct instance looks like: every node holds sbw bits, a node with
   components is the concatenation (first component most significant) of its
   components' wires, recursively *)
Inductive well_sliced : schema -> ctree -> Prop :=
| WS : forall s v kids,
    length v = sbw s ->
    Forall2 well_sliced (children s) kids ->
    (children s <> [] -> concat_msb (map croot kids) = v) ->
    well_sliced s (CNode v kids).

Lemma schema_ind2 (P : schema -> Prop)
  (HL : forall w, P (SLeaf w))
  (HS : forall fs, Forall P fs -> P (SStruct fs))
  (HM : forall e n, P e -> P (SMatrix e n)) : forall s, P s.
Proof.
  fix IH 1. intros [w|fs|e n].
  - apply HL.
  - apply HS. induction fs as [|c r IHr]; constructor; [apply IH|exact IHr].
  - apply HM. apply IH.
Qed.

Definition slice_ok (c : schema) : Prop :=
  forall u, well_sliced c (slice_comp c u) /\ croot (slice_comp c u) = resize (sbw c) u.

Lemma slice_kids_spec : forall l v endi,
  Forall slice_ok l -> endi = sumbw l -> endi <= length v ->
  Forall2 well_sliced l (slice_kids v l endi) /\
  concat_msb (map croot (slice_kids v l endi)) = firstn endi v /\
  (forall i, i < length l ->
     croot (nth i (slice_kids v l endi) (CNode [] [])) =
     firstn (sbw (nth i l (SLeaf 0))) (skipn (sumbw (skipn (S i) l)) v)).
Proof.
  induction l as [|c r IH]; intros v endi Hok He Hle.
  - cbn [slice_kids map]. subst endi. split; [constructor|]. split; [reflexivity|]. intros i Hi. cbn in Hi. lia.
  - inversion Hok as [|? ? Hc Hr]; subst.
    unfold sumbw in *. cbn [map sum_nat fold_right] in *. fold (sum_nat (map sbw r)) in *.
    set (sr := sum_nat (map sbw r)) in *.
    cbn [slice_kids]. replace (sbw c + sr - sbw c) with sr by lia.
    rewrite sl_inrange by lia. replace (sbw c + sr - sr) with (sbw c) by lia.
    destruct (IH v sr Hr eq_refl ltac:(lia)) as (I1 & I2 & I3).
    destruct (Hc (firstn (sbw c) (skipn sr v))) as [C1 C2].
    assert (Hl0 : length (firstn (sbw c) (skipn sr v)) = sbw c) by (rewrite firstn_length, skipn_length; lia).
    rewrite resize_id in C2 by exact Hl0.
    split; [constructor; assumption|]. split.
    + unfold concat_msb in *. cbn [map rev]. rewrite concat_app. cbn [concat]. rewrite app_nil_r.
      rewrite I2, C2. rewrite (Nat.add_comm (sbw c) sr). symmetry. apply firstn_add.
    + intros [|i] Hi.
      * cbn [nth skipn]. exact C2.
      * cbn [nth skipn]. apply I3. cbn [length] in Hi. lia.
Qed.

Lemma slice_comp_ok : forall s, slice_ok s.
Proof.
  induction s as [w|fs IHfs|e n IHe] using schema_ind2; intros u.
  - cbn [slice_comp croot]. split; [|reflexivity]. constructor.
    + apply length_resize.
    + constructor.
    + cbn [children]. congruence.
  - rewrite slice_comp_children. cbn [croot]. split; [|reflexivity].
    pose proof (length_resize (sbw (SStruct fs)) u) as Hl.
    destruct (slice_kids_spec fs (resize (sbw (SStruct fs)) u) (sbw (SStruct fs)) IHfs (sbw_struct fs) ltac:(lia))
      as (K1 & K2 & _).
    constructor; [exact Hl|exact K1|]. intros _. cbn [children]. rewrite K2. apply firstn_all2. lia.
  - rewrite slice_comp_children. cbn [croot]. split; [|reflexivity].
    pose proof (length_resize (sbw (SMatrix e n)) u) as Hl.
    assert (Hall : Forall slice_ok (repeat e n)).
    { apply Forall_forall. intros x Hx. apply repeat_spec in Hx. subst. exact IHe. }
    assert (Hs : sbw (SMatrix e n) = sumbw (repeat e n)) by (rewrite sumbw_repeat; reflexivity).
    destruct (slice_kids_spec (repeat e n) (resize (sbw (SMatrix e n)) u) (sbw (SMatrix e n)) Hall Hs ltac:(lia))
      as (K1 & K2 & _).
    constructor; [exact Hl|exact K1|]. intros _. cbn [children]. rewrite K2. apply firstn_all2. lia.
Qed.

(* slicing mode (Struct(Struct=value) / Matrix(values=[value])): the instance is
   the value, correctly sliced at every nesting level, and component i is exactly
   the bit range [sum of the widths of the later components, + its own width) *)
Theorem struct_slice_spec : forall s v, length v = sbw s ->
  croot (slice_comp s v) = v /\
  well_sliced s (slice_comp s v) /\
  (forall i, i < length (children s) ->
     croot (nth i (ckids (slice_comp s v)) (CNode [] [])) =
     firstn (sbw (nth i (children s) (SLeaf 0))) (skipn (sumbw (skipn (S i) (children s))) v)) /\
  Forall2 (fun c k => k = slice_comp c (croot k)) (children s) (ckids (slice_comp s v)).
Proof.
  intros s v Hl. destruct (slice_comp_ok s v) as [W R]. rewrite resize_id in R by exact Hl.
  split; [exact R|]. split; [exact W|].
  rewrite slice_comp_children. cbn [ckids]. rewrite resize_id by exact Hl. split.
  - intros i Hi. assert (Hne : children s <> []) by (destruct (children s); [cbn in Hi; lia|discriminate]).
    assert (Hall : Forall slice_ok (children s)) by (apply Forall_forall; intros; apply slice_comp_ok).
    destruct (slice_kids_spec (children s) v (sbw s) Hall (sbw_children s Hne) ltac:(lia)) as (_ & _ & K3).
    apply K3. exact Hi.
  - generalize (sbw s). induction (children s) as [|c r IH]; intros endi; cbn [slice_kids]; constructor.
    + destruct (slice_comp_ok c (sl v (endi - sbw c) endi)) as [_ R']. rewrite R'.
      (* slicing is idempotent on the resized value *)
      clear. generalize (sl v (endi - sbw c) endi). intros u.
      rewrite (slice_comp_children c u), (slice_comp_children c (resize (sbw c) u)).
      rewrite (resize_id (sbw c) (resize (sbw c) u)) by apply length_resize. reflexivity.
    + apply IH.
Qed.

(* concatenation mode (Struct(f0=.., f1=..) / Matrix(values=[v0, v1, ..])) with
   component values of the declared widths: the whole is the concatenation, first
   component most significant; the components read back are the given values *)
Theorem struct_concat_spec : forall s vals t,
  concat_comp s vals = Some t ->
  length vals = length (children s) /\
  (Forall2 (fun c v => length v = sbw c) (children s) vals -> children s <> [] ->
   croot t = concat_msb vals /\ map croot (ckids t) = vals /\ well_sliced s t).
Proof.
  intros s vals t H. unfold concat_comp in H.
  destruct (Nat.eqb (length (children s)) (length vals)) eqn:El; cbn [negb] in H; [|discriminate].
  apply Nat.eqb_eq in El. injection H as <-. split; [lia|]. intros Hw Hne.
  assert (Hroots : map croot (map (fun cv => slice_comp (fst cv) (snd cv)) (combine (children s) vals)) = vals).
  { clear Hne El. induction Hw as [|c v cs vs Hcv Hrest IH]; [reflexivity|].
    cbn [combine map fst snd]. f_equal; [|exact IH].
    destruct (slice_comp_ok c v) as [_ R]. rewrite R. apply resize_id. exact Hcv. }
  assert (Hlen : length (concat_msb vals) = sbw s).
  { rewrite (sbw_children s Hne). clear Hroots Hne El. unfold concat_msb, sumbw.
    induction Hw as [|c v cs vs Hcv Hrest IH]; [reflexivity|].
    cbn [rev map sum_nat fold_right]. rewrite concat_app, app_length. cbn [concat]. rewrite app_nil_r.
    fold (sum_nat (map sbw cs)). lia. }
  cbn [croot ckids]. rewrite Hroots. rewrite (resize_id _ _ Hlen).
  split; [reflexivity|]. split; [reflexivity|]. constructor; [exact Hlen| |intros _; f_equal; exact Hroots].
  clear Hroots Hlen Hne El. induction Hw as [|c v cs vs Hcv Hrest IH]; [constructor|].
  cbn [combine map fst snd]. constructor; [|exact IH]. apply slice_comp_ok.
Qed.

(* ---------- no spurious errors ---------- *)
Lemma all_some_ok {A B} (f : A -> option B) l : (forall x, In x l -> f x <> None) -> all_some (map f l) <> None.
Proof.
  induction l as [|x l IH]; intros H; cbn [map all_some]; [discriminate|].
  destruct (f x) eqn:E; [|exfalso; apply (H x); [left; reflexivity|exact E]].
  assert (H' : all_some (map f l) <> None) by (apply IH; intros y Hy; apply H; right; exact Hy).
  destruct (all_some (map f l)); [discriminate|congruence].
Qed.

Lemma wslice_nat_ok w a b : a < b <= length w -> wslice w (Some (Z.of_nat a)) (Some (Z.of_nat b)) <> None.
Proof.
  intros H. unfold wslice. fold (sl w a b). rewrite sl_inrange by lia.
  destruct (firstn (b - a) (skipn a w)) eqn:E; [|discriminate].
  apply (f_equal (@length _)) in E. rewrite firstn_length, skipn_length in E. cbn [length] in E. lia.
Qed.

Theorem chop_ok : forall w ws,
  sum_nat ws = length w -> (forall i, i < length ws -> 1 <= nth i ws 0) -> chop w ws <> None.
Proof.
  intros w ws Hs Hpos. unfold chop. rewrite Hs, Nat.eqb_refl. cbn [negb].
  assert (Hc : combine (map (fun i => sum_nat (skipn (S i) ws)) (seq 0 (length ws)))
                       (map (fun i => sum_nat (skipn i ws)) (seq 0 (length ws)))
               = map (fun i => (sum_nat (skipn (S i) ws), sum_nat (skipn i ws))) (seq 0 (length ws))).
  { generalize (seq 0 (length ws)). intros l. induction l as [|x l IH]; cbn [map combine]; [reflexivity|].
    f_equal. exact IH. }
  rewrite Hc, map_map. apply all_some_ok. intros i Hi. apply in_seq in Hi. cbn [fst snd].
  apply wslice_nat_ok.
  pose proof (sum_skipn_S ws i ltac:(lia)). pose proof (sum_skipn_le ws i). specialize (Hpos i ltac:(lia)). lia.
Qed.

Theorem partition_wire_ok : forall w size,
  1 <= size -> Nat.modulo (length w) size = 0 -> partition_wire w size <> None.
Proof.
  intros w size Hs Hm. unfold partition_wire.
  replace (Nat.eqb size 0) with false by (symmetry; apply Nat.eqb_neq; lia).
  rewrite Hm. cbn [Nat.eqb negb].
  set (m := length w / size).
  assert (Hlen : length w = m * size).
  { unfold m. pose proof (Nat.div_mod (length w) size ltac:(lia)). lia. }
  rewrite (range_step_spec m) by lia. rewrite map_map. apply all_some_ok.
  intros k Hk. apply in_seq in Hk. cbn [Nat.add]. apply wslice_nat_ok. nia.
Qed.

(* concatenation mode with drivers of ANY width: `component <<= driver` truncates or
   zero-extends every driver to its declared field width (resize); the whole is the
   msb-first concatenation of the NORMALISED components, which are what is read back *)
Definition norm_vals (cs : list schema) (vals : list bits) : list bits :=
  map (fun cv => resize (sbw (fst cv)) (snd cv)) (combine cs vals).

Theorem struct_concat_norm : forall s vals t,
  concat_comp s vals = Some t -> children s <> [] ->
  map croot (ckids t) = norm_vals (children s) vals /\
  croot t = concat_msb (norm_vals (children s) vals) /\
  length (croot t) = sbw s /\
  well_sliced s t.
Proof.
  intros s vals t H Hne. unfold concat_comp in H.
  destruct (Nat.eqb (length (children s)) (length vals)) eqn:El; cbn [negb] in H; [|discriminate].
  apply Nat.eqb_eq in El. injection H as <-.
  assert (Hroots : map croot (map (fun cv => slice_comp (fst cv) (snd cv)) (combine (children s) vals))
                   = norm_vals (children s) vals).
  { unfold norm_vals. rewrite map_map. apply map_ext. intros [c v]. cbn [fst snd].
    apply (proj2 (slice_comp_ok c v)). }
  assert (Hlen : length (concat_msb (norm_vals (children s) vals)) = sbw s).
  { rewrite (sbw_children s Hne). clear Hroots Hne. unfold concat_msb, sumbw, norm_vals.
    revert vals El. induction (children s) as [|c cs IH]; intros [|v vs] El; cbn [length] in El; try lia; [reflexivity|].
    cbn [combine map rev fst snd sum_nat fold_right]. rewrite concat_app, app_length. cbn [concat]. rewrite app_nil_r.
    rewrite length_resize. fold (sum_nat (map sbw cs)). rewrite (IH vs) by lia. lia. }
  cbn [croot ckids]. rewrite Hroots. rewrite (resize_id _ _ Hlen).
  split; [reflexivity|]. split; [reflexivity|]. split; [exact Hlen|].
  constructor; [exact Hlen| |intros _; f_equal; exact Hroots].
  clear Hroots Hlen Hne. revert vals El.
  induction (children s) as [|c cs IH]; intros [|v vs] El; cbn [length] in El; try lia; [constructor|].
  cbn [combine map fst snd]. constructor; [apply slice_comp_ok|apply IH; lia].
Qed.

(* ---------- WrappedWireVector forwarding ----------
   A wire_struct / wire_matrix instance forwards every operation to its concatenated wire:
   a helper that starts with as_wires(instance) sees croot t.  That wire IS the msb-first
   concatenation of the component wires (both construction modes), so any helper H applied to
   "the components concatenated" equals H applied to the plain wire. *)
Definition as_wires_inst (t : ctree) : bits := croot t.
Definition inst_view (t : ctree) : bits := concat_msb (map croot (ckids t)).

Lemma well_sliced_view s t : well_sliced s t -> children s <> [] -> inst_view t = croot t.
Proof. intros H Hne. inversion H as [s' v kids Hl Hk Hc]; subst. unfold inst_view. cbn [ckids croot]. apply Hc. exact Hne. Qed.

Theorem wrapped_forwarding : forall (A : Type) (H : bits -> A) s t,
  well_sliced s t -> children s <> [] -> H (inst_view t) = H (as_wires_inst t).
Proof. intros A H s t W Hne. unfold as_wires_inst. rewrite (well_sliced_view s t W Hne). reflexivity. Qed.

(* both construction modes produce well-sliced instances *)
Theorem instance_view_slice : forall s v, length v = sbw s -> children s <> [] ->
  as_wires_inst (slice_comp s v) = v /\ inst_view (slice_comp s v) = v.
Proof.
  intros s v Hl Hne. destruct (struct_slice_spec s v Hl) as (R & W & _). unfold as_wires_inst.
  split; [exact R|]. rewrite (well_sliced_view s _ W Hne). exact R.
Qed.

Theorem instance_view_concat : forall s vals t, concat_comp s vals = Some t -> children s <> [] ->
  as_wires_inst t = concat_msb (norm_vals (children s) vals) /\ inst_view t = as_wires_inst t.
Proof.
  intros s vals t H Hne. destruct (struct_concat_norm s vals t H Hne) as (_ & R & _ & W).
  split; [exact R|]. apply (well_sliced_view s t W Hne).
Qed.

(* the component reached by a path of component indices, and its lsb offset in the instance:
   every step adds the widths of the LATER siblings (first component most significant) *)
Fixpoint path_range (s : schema) (p : list nat) : option (schema * nat) :=
  match p with
  | [] => Some (s, 0)
  | i :: r =>
    match nth_error (children s) i with
    | Some c => match path_range c r with
                | Some (node, lo) => Some (node, sumbw (skipn (S i) (children s)) + lo)
                | None => None
                end
    | None => None
    end
  end.

Lemma sumbw_cons c l : sumbw (c :: l) = sbw c + sumbw l.
Proof. reflexivity. Qed.

Lemma sumbw_split l i c : nth_error l i = Some c ->
  sumbw l = sumbw (firstn i l) + sbw c + sumbw (skipn (S i) l).
Proof.
  revert i. induction l as [|x l IH]; intros [|i] H; cbn [nth_error] in H; try discriminate.
  - injection H as ->. change (skipn 1 (c :: l)) with l. change (firstn 0 (c :: l)) with (@nil schema).
    rewrite sumbw_cons. change (sumbw []) with 0. lia.
  - specialize (IH i H). change (skipn (S (S i)) (x :: l)) with (skipn (S i) l).
    change (firstn (S i) (x :: l)) with (x :: firstn i l). rewrite !sumbw_cons. lia.
Qed.

Lemma firstn_skipn_nested {A} (v : list A) a b c d : b + a <= c ->
  firstn a (skipn b (firstn c (skipn d v))) = firstn a (skipn (d + b) v).
Proof.
  intros H. rewrite skipn_firstn_comm. rewrite firstn_firstn. rewrite skipn_skipn'.
  f_equal. lia.
Qed.

Lemma Forall2_len {A B} (R : A -> B -> Prop) l1 l2 : Forall2 R l1 l2 -> length l1 = length l2.
Proof. induction 1; cbn [length]; congruence. Qed.

(* a component at ANY depth of a sliced instance is exactly its bit range of the instance's
   wire, and is itself a sliced instance of its own schema *)
Theorem component_at_path : forall p s v node lo,
  length v = sbw s -> path_range s p = Some (node, lo) ->
  exists t, cpath (slice_comp s v) p = Some t /\
            croot t = firstn (sbw node) (skipn lo v) /\
            t = slice_comp node (croot t) /\
            lo + sbw node <= sbw s.
Proof.
  induction p as [|i r IH]; intros s v node lo Hl Hp.
  - cbn [path_range] in Hp. injection Hp as <- <-. exists (slice_comp s v). cbn [cpath skipn].
    destruct (slice_comp_ok s v) as [_ R]. rewrite resize_id in R by exact Hl.
    split; [reflexivity|]. split; [rewrite R; symmetry; apply firstn_all2; lia|].
    split; [rewrite R; reflexivity|lia].
  - cbn [path_range] in Hp. destruct (nth_error (children s) i) as [c|] eqn:Ec; [|discriminate].
    destruct (path_range c r) as [[node' lo']|] eqn:Er; [|discriminate]. injection Hp as <- <-.
    destruct (struct_slice_spec s v Hl) as (_ & _ & Hrange & Hkids).
    assert (Hi : i < length (children s)) by (apply nth_error_Some; congruence).
    assert (Hne : children s <> []) by (destruct (children s); [cbn in Hi; lia|discriminate]).
    pose proof (sbw_children s Hne) as Hs. pose proof (sumbw_split _ _ _ Ec) as Hsplit.
    set (kids := ckids (slice_comp s v)) in *.
    assert (Hlk : length kids = length (children s)) by (symmetry; apply (Forall2_len _ _ _ Hkids)).
    destruct (nth_error kids i) as [k|] eqn:Ek; [|apply nth_error_None in Ek; lia].
    assert (Hk : k = slice_comp c (croot k)).
    { clear - Hkids Ec Ek. revert i Ec Ek. induction Hkids as [|c0 k0 cs ks H0 Hr IHf]; intros [|i] Ec Ek;
        cbn [nth_error] in *; try discriminate.
      - injection Ec as ->. injection Ek as ->. exact H0.
      - apply (IHf i Ec Ek). }
    assert (Hroot : croot k = firstn (sbw c) (skipn (sumbw (skipn (S i) (children s))) v)).
    { specialize (Hrange i Hi). rewrite (nth_error_nth _ _ _ Ek) in Hrange.
      rewrite (nth_error_nth _ _ _ Ec) in Hrange. exact Hrange. }
    assert (Hlc : length (croot k) = sbw c).
    { rewrite Hroot, firstn_length, skipn_length. lia. }
    destruct (IH c (croot k) node' lo' Hlc Er) as (t & Hpath & Ht & Hself & Hbound).
    exists t. cbn [cpath]. fold kids. rewrite Ek. rewrite Hk.
    change (match children s with [] => [] | _ :: l => skipn i l end) with (skipn (S i) (children s)).
    split; [exact Hpath|].
    split; [|split; [exact Hself|lia]].
    rewrite Ht, Hroot. apply firstn_skipn_nested. lia.
Qed.
