(* C14 -- proofs about the multiplexer models of Front/Mux.v. *)
From Coq Require Import ZArith List Bool Lia.
From PyRTL Require Import Base.PyZ Front.SliceC14 Front.SliceC14Proofs Front.Mux.
Import ListNotations.
Open Scope Z_scope.

Lemma maxlen_app a b : maxlen (a ++ b) = Nat.max (maxlen a) (maxlen b).
Proof. induction a as [|x a IH]; cbn [app maxlen fold_right]; [reflexivity|]. fold (maxlen (a ++ b)). fold (maxlen a). rewrite IH. lia. Qed.

Lemma length_nth_maxlen l k : (length (nth k l []) <= maxlen l)%nat.
Proof.
  revert k. induction l as [|x l IH]; intros k.
  - destruct k; cbn; lia.
  - destruct k as [|k]; cbn [nth maxlen fold_right]; fold (maxlen l); [lia|]. specialize (IH k). lia.
Qed.

Lemma zext_zext n m x : (m <= n)%nat -> zext n (zext m x) = zext n x.
Proof.
  intros H. unfold zext at 1 3. rewrite length_zext. unfold zext.
  rewrite <- app_assoc, <- repeat_app. f_equal. f_equal. lia.
Qed.

Lemma length_select s t f : length (select s t f) = Nat.max (length f) (length t).
Proof. unfold select. destruct s; rewrite length_zext; lia. Qed.

Lemma to_Z_select s t f : to_Z (select s t f) = if s then to_Z t else to_Z f.
Proof. unfold select. destruct s; apply to_Z_zext. Qed.

Lemma pow2_nat_Z n : Z.of_nat (2 ^ n) = 2 ^ Z.of_nat n.
Proof. rewrite Nat2Z.inj_pow. reflexivity. Qed.

Lemma pow2_nat_pos n : (0 < 2 ^ n)%nat.
Proof. pose proof (pow2_nat_Z n). pose proof (pow2_pos (Z.of_nat n)). lia. Qed.

Lemma half_pow2 n : (2 ^ S n / 2 = 2 ^ n)%nat.
Proof. rewrite Nat.pow_succ_r'. rewrite Nat.mul_comm. apply Nat.div_mul. lia. Qed.

(* ---------- mux ---------- *)
Lemma mux_rec_spec : forall n idx ins r,
  length idx = n -> mux_rec n idx ins = Some r ->
  length ins = (2 ^ n)%nat /\
  r = zext (maxlen ins) (nth (Z.to_nat (to_Z idx)) ins []).
Proof.
  induction n as [|n IH]; intros idx ins r Hlen H; [discriminate|].
  cbn [mux_rec] in H.
  destruct (Nat.eqb (2 ^ S n) (length ins)) eqn:Ear; cbn [negb] in H; [|discriminate].
  apply Nat.eqb_eq in Ear. split; [lia|].
  destruct n as [|n'].
  - (* one select bit *)
    injection H as <-.
    destruct idx as [|b [|? ?]]; cbn in Hlen; try lia.
    destruct ins as [|x [|y [|? ?]]]; cbn in Ear; try lia.
    cbn [maxlen fold_right]. unfold select.
    destruct b; [change (Z.to_nat (to_Z [true])) with 1%nat | change (Z.to_nat (to_Z [false])) with 0%nat];
      cbn [nth length]; f_equal; lia.
  - set (n := S n') in *.
    rewrite pyslice_0_m1 in H.
    rewrite <- Ear, half_pow2 in H.
    destruct (mux_rec n (removelast idx) (firstn (2 ^ n) ins)) as [f|] eqn:Ef; [|discriminate].
    destruct (mux_rec n (removelast idx) (skipn (2 ^ n) ins)) as [t|] eqn:Et; [|discriminate].
    injection H as <-.
    assert (Hl' : length (removelast idx) = n) by (rewrite length_removelast; lia).
    destruct (IH _ _ _ Hl' Ef) as [Hlf ->]. destruct (IH _ _ _ Hl' Et) as [Hlt ->].
    assert (Hne : idx <> []) by (intro; subst; cbn in Hlen; lia).
    rewrite (to_Z_removelast idx Hne). rewrite Hlen. replace (S n - 1)%nat with n by lia.
    pose proof (to_Z_range (removelast idx)) as Hr. rewrite Hl' in Hr.
    set (k := to_Z (removelast idx)) in *.
    set (fh := firstn (2 ^ n) ins) in *. set (sh := skipn (2 ^ n) ins) in *.
    assert (Hins : ins = fh ++ sh) by (symmetry; apply firstn_skipn).
    assert (Hmax : maxlen ins = Nat.max (maxlen fh) (maxlen sh)) by (rewrite Hins; apply maxlen_app).
    pose proof (length_nth_maxlen fh (Z.to_nat k)) as Hf1.
    pose proof (length_nth_maxlen sh (Z.to_nat k)) as Ht1.
    pose proof (pow2_nat_Z n) as Hp.
    unfold select. rewrite !length_zext.
    destruct (last idx false); cbn [b2z].
    + rewrite zext_zext by lia.
      replace (Z.to_nat (k + 2 ^ Z.of_nat n * 1)) with (length fh + Z.to_nat k)%nat by (rewrite Hlf; lia).
      rewrite Hins at 2. rewrite app_nth2_plus. f_equal. lia.
    + rewrite zext_zext by lia.
      replace (k + 2 ^ Z.of_nat n * 0) with k by lia.
      rewrite Hins at 2. rewrite app_nth1 by lia. f_equal. lia.
Qed.

Lemma nth_mux_pad n ins d k :
  nth k (mux_pad n ins (Some d)) [] =
  if Nat.ltb k (length ins) then nth k ins []
  else if Nat.ltb k (2 ^ n) then d else [].
Proof.
  unfold mux_pad. destruct (Nat.ltb k (length ins)) eqn:E.
  - apply Nat.ltb_lt in E. apply app_nth1. exact E.
  - apply Nat.ltb_ge in E. rewrite app_nth2 by exact E.
    destruct (Nat.ltb k (2 ^ n)) eqn:E2.
    + apply Nat.ltb_lt in E2. rewrite nth_indep with (d' := d) by (rewrite repeat_length; lia).
      apply nth_repeat.
    + apply Nat.ltb_ge in E2. apply nth_overflow. rewrite repeat_length. lia.
Qed.

(* mux returns exactly the input addressed by the index; the default only for
   index values beyond the list; zero-extended to the longest (padded) input *)
Theorem mux_selects : forall idx ins dflt r,
  mux idx ins dflt = Some r ->
  let k := Z.to_nat (to_Z idx) in
  let chosen := if Nat.ltb k (length ins) then nth k ins []
                else match dflt with Some d => d | None => [] end in
  (1 <= length idx)%nat /\
  length (mux_pad (length idx) ins dflt) = (2 ^ length idx)%nat /\
  r = zext (maxlen (mux_pad (length idx) ins dflt)) chosen /\
  to_Z r = to_Z chosen /\
  (k < length ins \/ dflt <> None)%nat.
Proof.
  intros idx ins dflt r H k chosen. unfold mux in H.
  assert (Hn : (1 <= length idx)%nat).
  { destruct idx; [discriminate H|cbn; lia]. }
  destruct (mux_rec_spec _ _ _ _ eq_refl H) as [Hl Hr].
  pose proof (to_Z_range idx) as Hk. pose proof (pow2_nat_Z (length idx)) as Hp.
  assert (Hk' : (k < 2 ^ length idx)%nat) by (unfold k; lia).
  assert (Hc : nth k (mux_pad (length idx) ins dflt) [] = chosen /\ (k < length ins \/ dflt <> None)%nat).
  { unfold chosen. destruct dflt as [d|].
    - rewrite nth_mux_pad. destruct (Nat.ltb k (length ins)) eqn:E.
      + apply Nat.ltb_lt in E. split; [reflexivity|lia].
      + apply Nat.ltb_lt in Hk'. rewrite Hk'. split; [reflexivity|right; discriminate].
    - cbn [mux_pad] in *. assert (E : Nat.ltb k (length ins) = true) by (apply Nat.ltb_lt; lia).
      rewrite E. apply Nat.ltb_lt in E. split; [reflexivity|lia]. }
  destruct Hc as [Hc Hd]. fold k in Hr. rewrite Hc in Hr.
  repeat split; try assumption. rewrite Hr. apply to_Z_zext.
Qed.

(* arity: mux raises unless the (padded) input count is 2 ** len(index) *)
Theorem mux_arity : forall idx ins dflt,
  mux idx ins dflt <> None <->
  (1 <= length idx)%nat /\ length (mux_pad (length idx) ins dflt) = (2 ^ length idx)%nat.
Proof.
  intros idx ins dflt. split.
  - intros H. destruct (mux idx ins dflt) as [r|] eqn:E; [|congruence].
    pose proof (mux_selects _ _ _ _ E) as S. cbv zeta in S. tauto.
  - intros [Hn Hl]. unfold mux.
    generalize dependent (mux_pad (length idx) ins dflt). clear ins dflt.
    remember (length idx) as n eqn:Hlen. symmetry in Hlen.
    revert idx Hlen Hn. induction n as [|n IH]; intros idx Hlen Hn l Hl; [lia|].
    cbn [mux_rec]. rewrite Hl. rewrite Nat.eqb_refl. cbn [negb].
    destruct n as [|n']; [discriminate|].
    rewrite pyslice_0_m1. rewrite Hl, half_pow2.
    assert (Hl' : length (removelast idx) = S n') by (rewrite length_removelast; lia).
    pose proof (pow2_nat_pos (S n')) as Hp.
    assert (H1 : mux_rec (S n') (removelast idx) (firstn (2 ^ S n') l) <> None).
    { apply IH; [exact Hl'|lia|]. rewrite firstn_length. rewrite Hl.
      rewrite (Nat.pow_succ_r' 2 (S n')). lia. }
    assert (H2 : mux_rec (S n') (removelast idx) (skipn (2 ^ S n') l) <> None).
    { apply IH; [exact Hl'|lia|]. rewrite skipn_length. rewrite Hl.
      rewrite (Nat.pow_succ_r' 2 (S n')). lia. }
    destruct (mux_rec (S n') (removelast idx) (firstn (2 ^ S n') l)); [|congruence].
    destruct (mux_rec (S n') (removelast idx) (skipn (2 ^ S n') l)); [|congruence].
    discriminate.
Qed.
