(* C14 -- proofs about the multiplexer models of Front/Mux.v. *)
From Coq Require Import ZArith List Bool Lia.
From PyRTL Require Import Base.PyZ Front.SliceC14 Front.SliceC14Proofs Front.Mux.
Import ListNotations.
Open Scope Z_scope.

Lemma maxlen_app a b : maxlen (a ++ b) = Nat.max (maxlen a) (maxlen b).
Proof. induction a as [|x a IH]; cbn [app maxlen fold_right]; [reflexivity|]. fold (maxlen (a ++ b)). fold (maxlen a). rewrite IH. lia. Qed.

Lemma length_nth_maxlen l k : (length (nth k l []) <= maxlen l)%nat.
Proof.
  revert k. induction l as [|x l IH]; intros k.
  - destruct k; cbn; lia.
  - destruct k as [|k]; cbn [nth maxlen fold_right]; fold (maxlen l); [lia|]. specialize (IH k). lia.
Qed.

Lemma zext_zext n m x : (m <= n)%nat -> zext n (zext m x) = zext n x.
Proof.
  intros H. unfold zext at 1 3. rewrite length_zext. unfold zext.
  rewrite <- app_assoc, <- repeat_app. f_equal. f_equal. lia.
Qed.

Lemma length_select s t f : length (select s t f) = Nat.max (length f) (length t).
Proof. unfold select. destruct s; rewrite length_zext; lia. Qed.

Lemma to_Z_select s t f : to_Z (select s t f) = if s then to_Z t else to_Z f.
Proof. unfold select. destruct s; apply to_Z_zext. Qed.

Lemma pow2_nat_Z n : Z.of_nat (2 ^ n) = 2 ^ Z.of_nat n.
Proof. rewrite Nat2Z.inj_pow. reflexivity. Qed.

Lemma pow2_nat_pos n : (0 < 2 ^ n)%nat.
Proof. pose proof (pow2_nat_Z n). pose proof (pow2_pos (Z.of_nat n)). lia. Qed.

Lemma half_pow2 n : (2 ^ S n / 2 = 2 ^ n)%nat.
Proof. rewrite Nat.pow_succ_r'. rewrite Nat.mul_comm. apply Nat.div_mul. lia. Qed.

(* ---------- mux ---------- *)
Lemma mux_rec_spec : forall n idx ins r,
  length idx = n -> mux_rec n idx ins = Some r ->
  length ins = (2 ^ n)%nat /\
  r = zext (maxlen ins) (nth (Z.to_nat (to_Z idx)) ins []).
Proof.
  induction n as [|n IH]; intros idx ins r Hlen H; [discriminate|].
  cbn [mux_rec] in H.
  destruct (Nat.eqb (2 ^ S n) (length ins)) eqn:Ear; cbn [negb] in H; [|discriminate].
  apply Nat.eqb_eq in Ear. split; [lia|].
  destruct n as [|n'].
  - (* one select bit *)
    injection H as <-.
    destruct idx as [|b [|? ?]]; cbn in Hlen; try lia.
    destruct ins as [|x [|y [|? ?]]]; cbn in Ear; try lia.
    cbn [maxlen fold_right]. unfold select.
    destruct b; [change (Z.to_nat (to_Z [true])) with 1%nat | change (Z.to_nat (to_Z [false])) with 0%nat];
      cbn [nth length]; f_equal; lia.
  - set (n := S n') in *.
    rewrite pyslice_0_m1 in H.
    rewrite <- Ear, half_pow2 in H.
    destruct (mux_rec n (removelast idx) (firstn (2 ^ n) ins)) as [f|] eqn:Ef; [|discriminate].
    destruct (mux_rec n (removelast idx) (skipn (2 ^ n) ins)) as [t|] eqn:Et; [|discriminate].
    injection H as <-.
    assert (Hl' : length (removelast idx) = n) by (rewrite length_removelast; lia).
    destruct (IH _ _ _ Hl' Ef) as [Hlf ->]. destruct (IH _ _ _ Hl' Et) as [Hlt ->].
    assert (Hne : idx <> []) by (intro; subst; cbn in Hlen; lia).
    rewrite (to_Z_removelast idx Hne). rewrite Hlen. replace (S n - 1)%nat with n by lia.
    pose proof (to_Z_range (removelast idx)) as Hr. rewrite Hl' in Hr.
    set (k := to_Z (removelast idx)) in *.
    set (fh := firstn (2 ^ n) ins) in *. set (sh := skipn (2 ^ n) ins) in *.
    assert (Hins : ins = fh ++ sh) by (symmetry; apply firstn_skipn).
    assert (Hmax : maxlen ins = Nat.max (maxlen fh) (maxlen sh)) by (rewrite Hins; apply maxlen_app).
    pose proof (length_nth_maxlen fh (Z.to_nat k)) as Hf1.
    pose proof (length_nth_maxlen sh (Z.to_nat k)) as Ht1.
    pose proof (pow2_nat_Z n) as Hp.
    unfold select. rewrite !length_zext.
    destruct (last idx false); cbn [b2z].
    + rewrite zext_zext by lia.
      replace (Z.to_nat (k + 2 ^ Z.of_nat n * 1)) with (length fh + Z.to_nat k)%nat by (rewrite Hlf; lia).
      rewrite Hins at 2. rewrite app_nth2_plus. f_equal. unfold bits in *. lia.
    + rewrite zext_zext by lia.
      replace (k + 2 ^ Z.of_nat n * 0) with k by lia.
      rewrite Hins at 2. rewrite app_nth1 by lia. f_equal. unfold bits in *. lia.
Qed.

Lemma nth_mux_pad n ins d k :
  nth k (mux_pad n ins (Some d)) [] =
  if Nat.ltb k (length ins) then nth k ins []
  else if Nat.ltb k (2 ^ n) then d else [].
Proof.
  unfold mux_pad. destruct (Nat.ltb k (length ins)) eqn:E.
  - apply Nat.ltb_lt in E. apply app_nth1. exact E.
  - apply Nat.ltb_ge in E. rewrite app_nth2 by exact E.
    destruct (Nat.ltb k (2 ^ n)) eqn:E2.
    + apply Nat.ltb_lt in E2. rewrite nth_indep with (d' := d) by (rewrite repeat_length; lia).
      apply nth_repeat.
    + apply Nat.ltb_ge in E2. apply nth_overflow. rewrite repeat_length. lia.
Qed.

(* mux returns exactly the input addressed by the index; the default only for
   index values beyond the list; zero-extended to the longest (padded) input *)
Theorem mux_selects : forall idx ins dflt r,
  mux idx ins dflt = Some r ->
  let k := Z.to_nat (to_Z idx) in
  let chosen := if Nat.ltb k (length ins) then nth k ins []
                else match dflt with Some d => d | None => [] end in
  (1 <= length idx)%nat /\
  length (mux_pad (length idx) ins dflt) = (2 ^ length idx)%nat /\
  r = zext (maxlen (mux_pad (length idx) ins dflt)) chosen /\
  to_Z r = to_Z chosen /\
  (k < length ins \/ dflt <> None)%nat.
Proof.
  intros idx ins dflt r H k chosen. unfold mux in H.
  assert (Hn : (1 <= length idx)%nat).
  { destruct idx; [discriminate H|cbn; lia]. }
  destruct (mux_rec_spec _ _ _ _ eq_refl H) as [Hl Hr].
  pose proof (to_Z_range idx) as Hk. pose proof (pow2_nat_Z (length idx)) as Hp.
  assert (Hk' : (k < 2 ^ length idx)%nat) by (unfold k; lia).
  assert (Hc : nth k (mux_pad (length idx) ins dflt) [] = chosen /\ (k < length ins \/ dflt <> None)%nat).
  { unfold chosen. destruct dflt as [d|].
    - rewrite nth_mux_pad. destruct (Nat.ltb k (length ins)) eqn:E.
      + apply Nat.ltb_lt in E. split; [reflexivity|lia].
      + apply Nat.ltb_lt in Hk'. rewrite Hk'. split; [reflexivity|right; discriminate].
    - cbn [mux_pad] in *. assert (E : Nat.ltb k (length ins) = true) by (apply Nat.ltb_lt; lia).
      rewrite E. apply Nat.ltb_lt in E. split; [reflexivity|lia]. }
  destruct Hc as [Hc Hd]. fold k in Hr. rewrite Hc in Hr.
  repeat split; try assumption. rewrite Hr. apply to_Z_zext.
Qed.

(* arity: mux raises unless the (padded) input count is 2 ** len(index) *)
Theorem mux_arity : forall idx ins dflt,
  mux idx ins dflt <> None <->
  (1 <= length idx)%nat /\ length (mux_pad (length idx) ins dflt) = (2 ^ length idx)%nat.
Proof.
  intros idx ins dflt. split.
  - intros H. destruct (mux idx ins dflt) as [r|] eqn:E; [|congruence].
    pose proof (mux_selects _ _ _ _ E) as S. cbv zeta in S. tauto.
  - intros [Hn Hl]. unfold mux.
    generalize dependent (mux_pad (length idx) ins dflt). clear ins dflt.
    remember (length idx) as n eqn:Hlen. symmetry in Hlen.
    revert idx Hlen Hn. induction n as [|n IH]; intros idx Hlen Hn l Hl; [lia|].
    cbn [mux_rec]. rewrite Hl. rewrite Nat.eqb_refl. cbn [negb].
    destruct n as [|n']; [discriminate|].
    rewrite pyslice_0_m1. rewrite half_pow2.
    assert (Hl' : length (removelast idx) = S n') by (rewrite length_removelast; lia).
    pose proof (pow2_nat_pos (S n')) as Hp.
    assert (H1 : mux_rec (S n') (removelast idx) (firstn (2 ^ S n') l) <> None).
    { apply IH; [exact Hl'|lia|]. rewrite firstn_length. rewrite Hl.
      rewrite (Nat.pow_succ_r' 2 (S n')). lia. }
    assert (H2 : mux_rec (S n') (removelast idx) (skipn (2 ^ S n') l) <> None).
    { apply IH; [exact Hl'|lia|]. rewrite skipn_length. rewrite Hl.
      rewrite (Nat.pow_succ_r' 2 (S n')). lia. }
    destruct (mux_rec (S n') (removelast idx) (firstn (2 ^ S n') l)); [|congruence].
    destruct (mux_rec (S n') (removelast idx) (skipn (2 ^ S n') l)); [|congruence].
    discriminate.
Qed.

(* ---------- demux ---------- *)
Lemma nth_map_d {A B} (f : A -> B) l j d d' : f d = d' -> nth j (map f l) d' = f (nth j l d).
Proof. intros <-. apply map_nth. Qed.

Lemma demux_rec_spec : forall n sel, length sel = n -> (1 <= n)%nat ->
  length (demux_rec n sel) = (2 ^ n)%nat /\
  forall j, (j < 2 ^ n)%nat -> nth j (demux_rec n sel) false = (to_Z sel =? Z.of_nat j).
Proof.
  induction n as [|n IH]; intros sel Hlen Hn; [lia|].
  destruct n as [|n'].
  - destruct sel as [|b [|? ?]]; cbn in Hlen; try lia.
    cbn [demux_rec nth]. split; [reflexivity|]. intros j Hj.
    change (2 ^ 1)%nat with 2%nat in Hj.
    destruct j as [|[|j]]; try lia; destruct b; reflexivity.
  - set (n := S n') in *.
    change (demux_rec (S n) sel) with
      (map (fun w => andb (negb (last sel false)) w) (demux_rec n (pyslice sel None (Some (-1)))) ++
       map (fun w => andb (last sel false) w) (demux_rec n (pyslice sel None (Some (-1))))).
    rewrite pyslice_none_m1.
    assert (Hl' : length (removelast sel) = n) by (rewrite length_removelast; lia).
    destruct (IH (removelast sel) Hl' ltac:(lia)) as [Hlw Hw].
    assert (Hne : sel <> []) by (intro; subst; cbn in Hlen; lia).
    pose proof (to_Z_removelast sel Hne) as Hz. rewrite Hlen in Hz. replace (S n - 1)%nat with n in Hz by lia.
    pose proof (to_Z_range (removelast sel)) as Hr. rewrite Hl' in Hr.
    pose proof (pow2_nat_Z n) as Hp.
    split.
    + rewrite app_length, !map_length, Hlw. rewrite (Nat.pow_succ_r' 2 n). lia.
    + intros j Hj. rewrite (Nat.pow_succ_r' 2 n) in Hj.
      destruct (Nat.ltb j (2 ^ n)) eqn:E.
      * apply Nat.ltb_lt in E. rewrite app_nth1 by (rewrite map_length; lia).
        rewrite (nth_map_d _ _ _ false false) by apply andb_false_r.
        rewrite Hw by lia. rewrite Hz. destruct (last sel false); cbn [b2z negb andb]; lia.
      * apply Nat.ltb_ge in E. rewrite app_nth2 by (rewrite map_length; lia).
        rewrite map_length, Hlw.
        rewrite (nth_map_d _ _ _ false false) by apply andb_false_r.
        rewrite Hw by lia. rewrite Hz. destruct (last sel false); cbn [b2z negb andb]; lia.
Qed.

(* demux is one-hot: output j is 1 exactly when the select value is j *)
Theorem demux_one_hot : forall sel, (1 <= length sel)%nat ->
  length (demux sel) = (2 ^ length sel)%nat /\
  forall j, (j < 2 ^ length sel)%nat -> nth j (demux sel) false = (to_Z sel =? Z.of_nat j).
Proof. intros sel H. apply demux_rec_spec; [reflexivity|exact H]. Qed.

(* ---------- prioritized_mux ---------- *)
(* index of the first high select, or the last index if none is high *)
Fixpoint first_high (sels : list bool) : nat :=
  match sels with
  | [] => 0
  | [_] => 0
  | b :: r => if b then 0%nat else S (first_high r)
  end.

Lemma first_high_lt sels : sels <> [] -> (first_high sels < length sels)%nat.
Proof.
  induction sels as [|b [|c r] IH]; intros H; [congruence|cbn; lia|].
  change (first_high (b :: c :: r)) with (if b then 0%nat else S (first_high (c :: r))).
  destruct b; cbn [length]; [lia|]. specialize (IH ltac:(discriminate)). cbn [length] in IH. lia.
Qed.

Lemma first_high_app a b : a <> [] -> b <> [] ->
  first_high (a ++ b) =
  if existsb (fun x => x) a then first_high a else (length a + first_high b)%nat.
Proof.
  intros Ha Hb. induction a as [|x [|y r] IH]; [congruence| |].
  - destruct b as [|z b]; [congruence|]. cbn [app existsb orb length].
    change (first_high (x :: z :: b)) with (if x then 0%nat else S (first_high (z :: b))).
    destruct x; reflexivity.
  - change ((x :: y :: r) ++ b) with (x :: (y :: r) ++ b).
    change (first_high (x :: (y :: r) ++ b)) with
      (match (y :: r) ++ b with [] => 0%nat | _ => if x then 0%nat else S (first_high ((y :: r) ++ b)) end).
    change (first_high (x :: y :: r)) with (if x then 0%nat else S (first_high (y :: r))).
    cbn [app]. cbn [existsb]. destruct x; cbn [orb]; [reflexivity|].
    change (y :: r ++ b) with ((y :: r) ++ b). rewrite IH by discriminate.
    cbn [existsb]. destruct (y || existsb (fun x => x) r); cbn [length]; lia.
Qed.

Lemma pmux_rec_spec : forall fuel sels vals r,
  (length vals < fuel)%nat -> pmux_rec fuel sels vals = Some r ->
  length sels = length vals /\ vals <> [] /\
  to_Z r = to_Z (nth (first_high sels) vals []) /\
  length r = maxlen vals.
Proof.
  induction fuel as [|fuel IH]; intros sels vals r Hf H; [lia|].
  cbn [pmux_rec] in H.
  destruct (Nat.eqb (length sels) (length vals)) eqn:El; cbn [negb] in H; [|discriminate].
  apply Nat.eqb_eq in El.
  destruct vals as [|v0 [|v1 vr]]; [discriminate| |].
  - injection H as <-. destruct sels as [|s0 [|? ?]]; cbn in El; try lia.
    repeat split; try discriminate. cbn. lia.
  - set (vals := v0 :: v1 :: vr) in *.
    set (half := Nat.div (length vals) 2) in *.
    assert (Hlen2 : (2 <= length vals)%nat) by (cbn; lia).
    assert (Hh : (1 <= half /\ half < length vals)%nat).
    { unfold half. split.
      - apply Nat.div_le_lower_bound; lia.
      - apply Nat.div_lt; lia. }
    destruct (pmux_rec fuel (firstn half sels) (firstn half vals)) as [t|] eqn:Et; [|discriminate].
    destruct (pmux_rec fuel (skipn half sels) (skipn half vals)) as [f|] eqn:Ef; [|discriminate].
    injection H as <-.
    apply IH in Et; [|rewrite firstn_length; lia].
    apply IH in Ef; [|rewrite skipn_length; lia].
    destruct Et as (_ & Htn & Htv & Htl). destruct Ef as (_ & Hfn & Hfv & Hfl).
    split; [exact El|]. split; [discriminate|].
    assert (Hs : sels = firstn half sels ++ skipn half sels) by (symmetry; apply firstn_skipn).
    assert (Hv : vals = firstn half vals ++ skipn half vals) by (symmetry; apply firstn_skipn).
    assert (Hsa : firstn half sels <> []).
    { intro E. apply (f_equal (@length bool)) in E. rewrite firstn_length in E. cbn [length] in E. lia. }
    assert (Hsb : skipn half sels <> []).
    { intro E. apply (f_equal (@length bool)) in E. rewrite skipn_length in E. cbn [length] in E. lia. }
    split.
    + rewrite to_Z_select. rewrite Hs at 2. rewrite first_high_app by assumption.
      destruct (existsb (fun b => b) (firstn half sels)).
      * rewrite Htv. rewrite Hv at 2. rewrite app_nth1; [reflexivity|].
        pose proof (first_high_lt _ Hsa) as L. rewrite !firstn_length in *. lia.
      * rewrite Hfv. rewrite Hv at 2. rewrite firstn_length.
        replace (Nat.min half (length sels)) with (length (firstn half vals)) by (rewrite firstn_length; lia).
        rewrite app_nth2_plus. reflexivity.
    + rewrite length_select. rewrite Htl, Hfl. rewrite Hv at 3. rewrite maxlen_app. lia.
Qed.

(* the value of the first wire whose select is high; the last value if none *)
Theorem prioritized_mux_first_high : forall sels vals r,
  prioritized_mux sels vals = Some r ->
  length sels = length vals /\ vals <> [] /\
  to_Z r = to_Z (nth (first_high sels) vals []) /\ length r = maxlen vals.
Proof. intros sels vals r H. unfold prioritized_mux in H. eapply pmux_rec_spec; [|exact H]. lia. Qed.

(* first_high is what its name says *)
Lemma first_high_spec : forall sels, sels <> [] ->
  let k := first_high sels in
  (forall j, (j < k)%nat -> nth j sels false = false) /\
  (nth k sels false = true \/ (k = length sels - 1)%nat /\ forall j, (j < length sels)%nat -> nth j sels false = false).
Proof.
  induction sels as [|b [|c r] IH]; intros H; [congruence| |].
  - cbn. split; [intros; lia|]. destruct b; [left; reflexivity|right]. split; [reflexivity|].
    intros [|j] Hj; [reflexivity|lia].
  - change (first_high (b :: c :: r)) with (if b then 0%nat else S (first_high (c :: r))).
    destruct b.
    + cbn zeta. split; [intros; lia|left; reflexivity].
    + specialize (IH ltac:(discriminate)). cbn zeta in IH |- *. destruct IH as [I1 I2]. split.
      * intros [|j] Hj; [reflexivity|]. cbn [nth]. apply I1. lia.
      * cbn [nth]. destruct I2 as [I2|[I2 I3]]; [left; exact I2|right]. split.
        -- cbn [length] in *. lia.
        -- intros [|j] Hj; [reflexivity|]. cbn [nth]. apply I3. cbn [length] in *. lia.
Qed.

(* ---------- sparse_mux ---------- *)
(* wires that the code would judge equivalent carry the same bits *)
Definition tags_ok (vals : list (Z * wire)) : Prop :=
  forall k1 w1 k2 w2, In (k1, w1) vals -> In (k2, w2) vals -> equiv w1 w2 = true -> wbits w1 = wbits w2.

Lemma lookup_In {A} k (l : list (Z * A)) v : lookup k l = Some v -> In (k, v) l.
Proof.
  induction l as [|[k' v'] l IH]; cbn [lookup]; [discriminate|].
  destruct (k =? k') eqn:E.
  - intros [= <-]. left. f_equal. lia.
  - intros H. right. apply IH. exact H.
Qed.

Lemma In_lookup {A} k (l : list (Z * A)) v : NoDup (map fst l) -> In (k, v) l -> lookup k l = Some v.
Proof.
  induction l as [|[k' v'] l IH]; cbn [lookup map fst]; intros Hnd Hin; [destruct Hin|].
  inversion Hnd as [|? ? Hni Hnd']; subst. destruct Hin as [E|Hin].
  - injection E as -> ->. rewrite Z.eqb_refl. reflexivity.
  - destruct (k =? k') eqn:E.
    + exfalso. apply Hni. assert (k = k') by lia. subst. apply (in_map fst) in Hin. exact Hin.
    + apply IH; assumption.
Qed.

Lemma NoDup_unique {A} k (l : list (Z * A)) v1 v2 :
  NoDup (map fst l) -> In (k, v1) l -> In (k, v2) l -> v1 = v2.
Proof.
  intros Hnd H1 H2. apply (In_lookup _ _ _ Hnd) in H1. apply (In_lookup _ _ _ Hnd) in H2. congruence.
Qed.

Lemma NoDup_map_filter {A} (f : A -> bool) (g : A -> Z) l : NoDup (map g l) -> NoDup (map g (filter f l)).
Proof.
  induction l as [|x l IH]; cbn [map filter]; intros H; [constructor|].
  inversion H as [|? ? Hni Hnd]; subst. destruct (f x); [|apply IH; exact Hnd].
  cbn [map]. constructor; [|apply IH; exact Hnd].
  intro Hin. apply Hni. apply in_map_iff in Hin. destruct Hin as (y & Hy & Hin).
  apply filter_In in Hin. apply in_map_iff. exists y. tauto.
Qed.

Section SparseStep.
  Variable half : Z.
  Variable vals : list (Z * wire).
  Let first := filter (fun kv : Z * wire => fst kv <? half) vals.
  Let second := map (fun kv : Z * wire => (fst kv - half, snd kv))
                    (filter (fun kv : Z * wire => half <=? fst kv) vals).

  Lemma in_first k v : In (k, v) first <-> In (k, v) vals /\ k < half.
  Proof. unfold first. rewrite filter_In. cbn [fst]. split; intros [? ?]; split; auto; lia. Qed.

  Lemma in_second k v : In (k, v) second <-> In (k + half, v) vals /\ 0 <= k.
  Proof.
    unfold second. rewrite in_map_iff. split.
    - intros ([k' v'] & E & Hin). cbn [fst snd] in E. injection E as <- <-.
      apply filter_In in Hin. cbn [fst] in Hin. replace (k' - half + half) with k' by lia.
      split; [tauto|lia].
    - intros [Hin Hk]. exists (k + half, v). cbn [fst snd]. split; [f_equal; lia|].
      apply filter_In. cbn [fst]. split; [exact Hin|lia].
  Qed.

  Lemma nodup_first : NoDup (map fst vals) -> NoDup (map fst first).
  Proof. apply NoDup_map_filter. Qed.

  Lemma nodup_second : NoDup (map fst vals) -> NoDup (map fst second).
  Proof.
    intros H. unfold second. rewrite map_map. cbn [fst].
    apply (NoDup_map_filter (fun kv : Z * wire => half <=? fst kv)) in H.
    remember (filter (fun kv : Z * wire => half <=? fst kv) vals) as l eqn:El. clear El.
    induction l as [|x l IH]; cbn [map] in *; [constructor|].
    inversion H as [|? ? Hni Hnd]; subst. constructor; [|apply IH; exact Hnd].
    intro Hin. apply Hni. apply in_map_iff in Hin. destruct Hin as (y & Hy & Hin).
    apply in_map_iff. exists y. split; [lia|exact Hin].
  Qed.

  Lemma tags_first : tags_ok vals -> tags_ok first.
  Proof. intros H k1 w1 k2 w2 H1 H2. apply in_first in H1, H2. apply (H k1 w1 k2 w2); tauto. Qed.

  Lemma tags_second : tags_ok vals -> tags_ok second.
  Proof. intros H k1 w1 k2 w2 H1 H2. apply in_second in H1, H2. apply (H (k1 + half) w1 (k2 + half) w2); tauto. Qed.
End SparseStep.

Lemma keys_ok_In maxv (vals : list (Z * wire)) : keys_ok maxv vals = true ->
  forall k v, In (k, v) vals -> 0 <= k <= maxv.
Proof.
  unfold keys_ok. rewrite forallb_forall. intros H k v Hin. specialize (H _ Hin). cbn [fst] in H. lia.
Qed.

Lemma to_Z_wselect s t f : to_Z (wbits (wselect s t f)) = if s then to_Z (wbits t) else to_Z (wbits f).
Proof. unfold wselect. cbn [wbits]. apply to_Z_select. Qed.

Lemma equiv_tagged a b : equiv a b = true -> wtag a <> None /\ wtag b <> None.
Proof. unfold equiv. destruct (wtag a), (wtag b); intros H; try discriminate; split; discriminate. Qed.

Definition sparse_post (sel : bits) (vals : list (Z * wire)) (r : wire) : Prop :=
  (wtag r = None \/ exists k, In (k, r) vals) /\
  (forall k v, In (k, v) vals -> to_Z sel = k -> to_Z (wbits r) = to_Z (wbits v)).

(* the final select / equivalence shortcut shared by both branches of _sparse_mux *)
Lemma sparse_final (b : bool) (f t : wire) (vals : list (Z * wire)) :
  tags_ok vals ->
  (wtag f = None \/ exists k, In (k, f) vals) ->
  (wtag t = None \/ exists k, In (k, t) vals) ->
  let r := if equiv f t then t else wselect b t f in
  (wtag r = None \/ exists k, In (k, r) vals) /\
  to_Z (wbits r) = if b then to_Z (wbits t) else to_Z (wbits f).
Proof.
  intros Htags Hf Ht r. unfold r. destruct (equiv f t) eqn:E.
  - split; [exact Ht|]. destruct (equiv_tagged _ _ E) as [Tf Tt].
    destruct Hf as [Hf|[kf Hf]]; [congruence|]. destruct Ht as [Ht|[kt Ht]]; [congruence|].
    rewrite (Htags _ _ _ _ Hf Ht E). destruct b; reflexivity.
  - split; [left; reflexivity|]. apply to_Z_wselect.
Qed.

Lemma sparse_rec_spec : forall n sel vals r,
  length sel = n -> NoDup (map fst vals) -> tags_ok vals ->
  sparse_rec n sel vals = Some r -> sparse_post sel vals r.
Proof.
  induction n as [|n IH]; intros sel vals r Hlen Hnd Htags H; [discriminate|].
  cbn [sparse_rec] in H.
  destruct (keys_ok (2 ^ Z.of_nat (S n) - 1) vals) eqn:Ek; cbn [negb] in H; [|discriminate].
  pose proof (keys_ok_In _ _ Ek) as Hkeys.
  destruct vals as [|kv0 [|kv1 vr]]; [discriminate| |].
  - injection H as <-. destruct kv0 as [k0 v0]. cbn [snd]. split.
    + right. exists k0. left. reflexivity.
    + intros k v [E|[]] _. injection E as _ <-. reflexivity.
  - set (vals := kv0 :: kv1 :: vr) in *.
    assert (Hne : sel <> []) by (intro; subst; cbn in Hlen; lia).
    pose proof (to_Z_removelast sel Hne) as Hz. rewrite Hlen in Hz. replace (S n - 1)%nat with n in Hz by lia.
    destruct n as [|n'].
    + (* len(sel) == 1 *)
      destruct (lookup 0 vals) as [f|] eqn:Lf; [|discriminate].
      destruct (lookup 1 vals) as [t|] eqn:Lt; [|discriminate].
      injection H as <-. apply lookup_In in Lf, Lt.
      destruct (sparse_final (last sel false) f t vals Htags) as [P1 P2];
        [right; eexists; exact Lf|right; eexists; exact Lt|].
      split; [exact P1|]. intros k v Hin Hk. rewrite P2.
      assert (Hrl : removelast sel = []).
      { destruct sel as [|b [|? ?]]; cbn in Hlen; try lia. reflexivity. }
      rewrite Hrl in Hz. cbn [to_Z] in Hz. change (2 ^ Z.of_nat 0) with 1 in Hz.
      destruct (last sel false); cbn [b2z] in Hz.
      * rewrite (NoDup_unique 1 vals v t Hnd); [reflexivity| |exact Lt]. replace 1 with k by lia. exact Hin.
      * rewrite (NoDup_unique 0 vals v f Hnd); [reflexivity| |exact Lf]. replace 0 with k by lia. exact Hin.
    + set (n := S n') in *.
      rewrite pyslice_none_m1 in H.
      remember (2 ^ Z.of_nat n) as half eqn:Ehalf.
      assert (Hl' : length (removelast sel) = n) by (rewrite length_removelast; lia).
      pose proof (to_Z_range (removelast sel)) as Hr. rewrite Hl', <- Ehalf in Hr.
      pose proof (nodup_first half vals Hnd) as Nf. pose proof (nodup_second half vals Hnd) as Ns.
      pose proof (tags_first half vals Htags) as Tf. pose proof (tags_second half vals Htags) as Ts.
      pose proof (in_first half vals) as If. pose proof (in_second half vals) as Is.
      remember (filter (fun kv : Z * wire => fst kv <? half) vals) as first eqn:Efirst.
      remember (map (fun kv : Z * wire => (fst kv - half, snd kv))
                    (filter (fun kv : Z * wire => half <=? fst kv) vals)) as second eqn:Esecond.
      clear Efirst Esecond.
      (* where a listed key lands, depending on the top select bit *)
      assert (Hside : forall k v, In (k, v) vals -> to_Z sel = k ->
                (last sel false = false /\ In (k, v) first /\ to_Z (removelast sel) = k) \/
                (last sel false = true /\ In (k - half, v) second /\ to_Z (removelast sel) = k - half)).
      { intros k v Hin Hk. pose proof (Hkeys _ _ Hin) as Hrange. rewrite Hz in Hk.
        destruct (last sel false); cbn [b2z] in Hk.
        - right. split; [reflexivity|]. split; [|lia]. apply Is. replace (k - half + half) with k by lia.
          split; [exact Hin|lia].
        - left. split; [reflexivity|]. split; [|lia]. apply If. split; [exact Hin|lia]. }
      assert (Hup1 : forall w, (wtag w = None \/ exists k, In (k, w) first) ->
                               (wtag w = None \/ exists k, In (k, w) vals)).
      { intros w [E|[k E]]; [left; exact E|right]. exists k. apply If in E. tauto. }
      assert (Hup2 : forall w, (wtag w = None \/ exists k, In (k, w) second) ->
                               (wtag w = None \/ exists k, In (k, w) vals)).
      { intros w [E|[k E]]; [left; exact E|right]. exists (k + half). apply Is in E. tauto. }
      destruct first as [|f0 fr].
      * (* first half empty *)
        apply IH in H; [|exact Hl'|exact Ns|exact Ts]. destruct H as [P1 P2]. split; [apply Hup2; exact P1|].
        intros k v Hin Hk. destruct (Hside k v Hin Hk) as [(_ & Hin' & _)|(_ & Hin' & Hk')]; [destruct Hin'|].
        apply (P2 _ _ Hin' Hk').
      * destruct second as [|s0 sr].
        -- (* second half empty *)
           apply IH in H; [|exact Hl'|exact Nf|exact Tf]. destruct H as [P1 P2]. split; [apply Hup1; exact P1|].
           intros k v Hin Hk. destruct (Hside k v Hin Hk) as [(_ & Hin' & Hk')|(_ & Hin' & _)]; [|destruct Hin'].
           apply (P2 _ _ Hin' Hk').
        -- destruct (sparse_rec n (removelast sel) (f0 :: fr)) as [f|] eqn:Rf; [|discriminate].
           destruct (sparse_rec n (removelast sel) (s0 :: sr)) as [t|] eqn:Rt; [|discriminate].
           injection H as <-.
           apply IH in Rf; [|exact Hl'|exact Nf|exact Tf]. apply IH in Rt; [|exact Hl'|exact Ns|exact Ts].
           destruct Rf as [F1 F2]. destruct Rt as [T1 T2].
           destruct (sparse_final (last sel false) f t vals Htags (Hup1 _ F1) (Hup2 _ T1)) as [P1 P2].
           split; [exact P1|]. intros k v Hin Hk. rewrite P2.
           destruct (Hside k v Hin Hk) as [(-> & Hin' & Hk')|(-> & Hin' & Hk')].
           ++ apply (F2 _ _ Hin' Hk').
           ++ apply (T2 _ _ Hin' Hk').
Qed.

Lemma zrange_In lo n k : In k (zrange lo n) <-> lo <= k < lo + Z.of_nat n.
Proof.
  revert lo. induction n as [|n IH]; intros lo; cbn [zrange In].
  - lia.
  - rewrite IH. lia.
Qed.

Lemma zrange_NoDup lo n : NoDup (zrange lo n).
Proof.
  revert lo. induction n as [|n IH]; intros lo; cbn [zrange]; constructor; [|apply IH].
  rewrite zrange_In. lia.
Qed.

Lemma lookup_None_notin {A} k (l : list (Z * A)) : lookup k l = None -> ~ In k (map fst l).
Proof.
  induction l as [|[k' v'] l IH]; cbn [lookup map fst]; intros H; [tauto|].
  destruct (k =? k') eqn:E; [discriminate|]. intros [E'|Hin]; [lia|]. exact (IH H Hin).
Qed.

Lemma NoDup_app' {A} (a b : list A) : NoDup a -> NoDup b -> (forall x, In x a -> ~ In x b) -> NoDup (a ++ b).
Proof.
  induction a as [|x a IH]; cbn [app]; intros Ha Hb Hd; [exact Hb|].
  inversion Ha as [|? ? Hni Ha']; subst. constructor.
  - rewrite in_app_iff. intros [H|H]; [exact (Hni H)|]. apply (Hd x); [left; reflexivity|exact H].
  - apply IH; [exact Ha'|exact Hb|]. intros y Hy. apply Hd. right. exact Hy.
Qed.

(* the filled dictionary: keys stay distinct; every unlisted in-range key maps to the default *)
Lemma sparse_fill_spec n vals d :
  NoDup (map fst vals) ->
  NoDup (map fst (sparse_fill n vals (Some d))) /\
  (forall k v, In (k, v) vals -> In (k, v) (sparse_fill n vals (Some d))) /\
  (forall k, 0 <= k < 2 ^ Z.of_nat n -> lookup k vals = None -> In (k, d) (sparse_fill n vals (Some d))) /\
  (forall k v, In (k, v) (sparse_fill n vals (Some d)) -> In (k, v) vals \/ v = d).
Proof.
  intros Hnd. unfold sparse_fill.
  set (missing := filter (fun i => match lookup i vals with Some _ => false | None => true end) (zrange 0 (2 ^ n))).
  assert (Hm : forall k, In k missing <-> 0 <= k < 2 ^ Z.of_nat n /\ lookup k vals = None).
  { intros k. unfold missing. rewrite filter_In, zrange_In. rewrite pow2_nat_Z.
    destruct (lookup k vals); split; intros [? ?]; split; try lia; try reflexivity; discriminate. }
  repeat split.
  - rewrite map_app, map_map. cbn [fst]. rewrite map_id. apply NoDup_app'; [exact Hnd| |].
    + unfold missing. apply NoDup_filter. apply zrange_NoDup.
    + intros k Hk Hk'. apply Hm in Hk'. destruct Hk' as [_ Hk']. apply (lookup_None_notin _ _ Hk' Hk).
  - intros k v Hin. apply in_app_iff. left. exact Hin.
  - intros k Hk Hl. apply in_app_iff. right. apply in_map_iff. exists k. split; [reflexivity|]. apply Hm. tauto.
  - intros k v Hin. apply in_app_iff in Hin. destruct Hin as [Hin|Hin]; [left; exact Hin|right].
    apply in_map_iff in Hin. destruct Hin as (i & E & _). congruence.
Qed.

(* sparse_mux: a listed key delivers its value; with a default, every unlisted
   select value delivers the default.  (Unlisted without default: unconstrained.) *)
Theorem sparse_mux_listed : forall sel vals dflt r k v,
  NoDup (map fst vals) ->
  tags_ok (sparse_fill (length sel) vals dflt) ->
  sparse_mux sel vals dflt = Some r ->
  In (k, v) vals -> to_Z sel = k -> to_Z (wbits r) = to_Z (wbits v).
Proof.
  intros sel vals dflt r k v Hnd Htags H Hin Hk. unfold sparse_mux in H.
  assert (Hnd' : NoDup (map fst (sparse_fill (length sel) vals dflt))).
  { destruct dflt as [d|]; [apply (sparse_fill_spec _ _ d Hnd)|exact Hnd]. }
  destruct (sparse_rec_spec _ _ _ _ eq_refl Hnd' Htags H) as [_ P]. apply (P k v); [|exact Hk].
  destruct dflt as [d|]; [apply (sparse_fill_spec _ _ d Hnd); exact Hin|exact Hin].
Qed.

Theorem sparse_mux_default : forall sel vals d r,
  NoDup (map fst vals) ->
  tags_ok (sparse_fill (length sel) vals (Some d)) ->
  sparse_mux sel vals (Some d) = Some r ->
  lookup (to_Z sel) vals = None -> to_Z (wbits r) = to_Z (wbits d).
Proof.
  intros sel vals d r Hnd Htags H Hl. unfold sparse_mux in H.
  destruct (sparse_fill_spec (length sel) vals d Hnd) as (Hnd' & _ & Hd & _).
  destruct (sparse_rec_spec _ _ _ _ eq_refl Hnd' Htags H) as [_ P]. apply (P (to_Z sel) d); [|reflexivity].
  apply Hd; [apply to_Z_range|exact Hl].
Qed.

(* ---------- select ---------- *)
Theorem select_spec : forall s t f,
  to_Z (select s t f) = (if s then to_Z t else to_Z f) /\
  length (select s t f) = Nat.max (length f) (length t).
Proof. intros s t f. split; [apply to_Z_select|apply length_select]. Qed.

(* ---------- enum_mux ---------- *)
Definition enum_vals (table : list (option Z * wire)) : list (Z * wire) :=
  flat_map (fun kv => match fst kv with Some k => [(k, snd kv)] | None => [] end) table.

Definition enum_default (table : list (option Z * wire)) (dflt : option wire) : option wire :=
  match map snd (filter (fun kv => match fst kv with None => true | _ => false end) table) with
  | o :: _ => Some o
  | [] => dflt
  end.

(* enum_mux is sparse_mux on the table's integer keys, with `otherwise` / default
   as the sparse default (never both); strict tables must list every member *)
Theorem enum_mux_spec : forall cntrl members table dflt strict r,
  enum_mux cntrl members table dflt strict = Some r ->
  sparse_mux cntrl (enum_vals table) (enum_default table dflt) = Some r /\
  (enum_default table dflt = dflt \/ dflt = None) /\
  (strict = true -> enum_default table dflt = None ->
   forall m, In m members -> lookup m (enum_vals table) <> None).
Proof.
  intros cntrl members table dflt strict r H. unfold enum_mux in H.
  fold (enum_vals table) in H. unfold enum_default.
  set (ow := map snd (filter (fun kv : option Z * wire => match fst kv with None => true | _ => false end) table)) in *.
  assert (Hcore : forall d,
    match enum_vals table with
    | [] => None
    | _ :: _ =>
      if strict && match d with Some _ => false | None => true end &&
         match filter (fun m => match lookup m (enum_vals table) with Some _ => false | None => true end) members with
         | [] => false | _ :: _ => true end
      then None else sparse_mux cntrl (enum_vals table) d
    end = Some r ->
    sparse_mux cntrl (enum_vals table) d = Some r /\
    (strict = true -> d = None -> forall m, In m members -> lookup m (enum_vals table) <> None)).
  { intros d Hd. destruct (enum_vals table) as [|v0 vs] eqn:Ev; [discriminate|].
    destruct (filter _ members) as [|m0 ms] eqn:Em.
    - rewrite andb_false_r in Hd. split; [exact Hd|]. intros _ _ m Hm Hl.
      assert (Hin : In m (filter (fun m => match lookup m (v0 :: vs) with Some _ => false | None => true end) members)).
      { apply filter_In. split; [exact Hm|]. rewrite Hl. reflexivity. }
      rewrite Em in Hin. destruct Hin.
    - rewrite andb_true_r in Hd. destruct strict; cbn [andb] in Hd.
      + destruct d; [|discriminate]. split; [exact Hd|]. intros _ E. discriminate.
      + split; [exact Hd|]. intros E. discriminate. }
  destruct ow as [|o ows].
  - destruct dflt as [d|]; [apply (Hcore (Some d)) in H|apply (Hcore None) in H];
      destruct H as [H1 H2]; (split; [exact H1|split; [left; reflexivity|exact H2]]).
  - destruct dflt as [d|]; [discriminate|]. apply (Hcore (Some o)) in H. destruct H as [H1 H2].
    split; [exact H1|]. split; [right; reflexivity|exact H2].
Qed.

(* ---------- MultiSelector ---------- *)
Definition ms_col (opts : list (option Z * list wire)) (w : nat) (j : nat) : list (option Z * wire) :=
  map (fun o => (fst o, as_wires_to w (nth j (snd o) (mkW None [])))) opts.

Definition ms_vals (opts : list (option Z * list wire)) (w j : nat) : list (Z * wire) :=
  enum_vals (ms_col opts w j).

Definition ms_dflt (opts : list (option Z * list wire)) (w j : nat) : option wire :=
  match filter (fun kv : option Z * wire => match fst kv with None => true | _ => false end) (ms_col opts w j) with
  | kv :: _ => Some (snd kv)
  | [] => None
  end.

Lemma dup_keys_NoDup l : dup_keys l = false -> NoDup l.
Proof.
  induction l as [|k r IH]; cbn [dup_keys]; intros H; [constructor|].
  apply orb_false_iff in H. destruct H as [H1 H2]. constructor; [|apply IH; exact H2].
  intro Hin. assert (existsb (Z.eqb k) r = true); [|congruence].
  apply existsb_exists. exists k. split; [exact Hin|apply Z.eqb_refl].
Qed.

Lemma all_some_map' {A} (l : list (option A)) r : all_some l = Some r -> l = map Some r.
Proof.
  revert r. induction l as [|[x|] l IH]; intros r H; cbn [all_some] in H.
  - injection H as <-. reflexivity.
  - destruct (all_some l) as [r'|]; [|discriminate]. injection H as <-. cbn [map]. f_equal. apply IH. reflexivity.
  - discriminate.
Qed.

Lemma ms_vals_keys opts w j :
  map fst (ms_vals opts w j) = flat_map (fun o => match fst o with Some k => [k] | None => [] end) opts.
Proof.
  unfold ms_vals, enum_vals, ms_col. induction opts as [|[[k|] data] r IH]; [reflexivity| |].
  - cbn [map flat_map fst snd app]. f_equal. exact IH.
  - cbn [map flat_map fst snd app]. exact IH.
Qed.

Theorem multiselector_unfold : forall sel dws opts rs,
  multiselector sel dws opts = Some rs ->
  length rs = length dws /\
  (forall j w, NoDup (map fst (ms_vals opts w j))) /\
  (forall j, (j < length dws)%nat ->
     exists r, sparse_mux sel (ms_vals opts (nth j dws 0%nat) j) (ms_dflt opts (nth j dws 0%nat) j) = Some r /\
               nth j rs [] = resize (nth j dws 0%nat) (wbits r)).
Proof.
  intros sel dws opts rs H. unfold multiselector in H.
  destruct (dup_keys _) eqn:Ed; [discriminate|]. apply dup_keys_NoDup in Ed.
  destruct (forallb _ opts) eqn:Ef; cbn [negb] in H; [|discriminate].
  apply all_some_map' in H.
  assert (Hl : length rs = length dws).
  { apply (f_equal (@length _)) in H. rewrite !map_length, seq_length in H. lia. }
  split; [exact Hl|]. split; [intros j w; rewrite ms_vals_keys; exact Ed|].
  intros j Hj.
  unfold bits in *.
  assert (Hn : nth j (map Some rs) None = nth j (map (@Some (list bool)) rs) (Some (@nil bool))).
  { apply nth_indep. rewrite map_length. lia. }
  rewrite (map_nth (@Some (list bool)) rs (@nil bool) j) in Hn. rewrite <- H in Hn.
  rewrite nth_map_seq in Hn by exact Hj.
  fold (ms_col opts (nth j dws 0%nat) j) in Hn.
  fold (enum_vals (ms_col opts (nth j dws 0%nat) j)) in Hn.
  fold (ms_vals opts (nth j dws 0%nat) j) in Hn. fold (ms_dflt opts (nth j dws 0%nat) j) in Hn.
  destruct (sparse_mux sel (ms_vals opts (nth j dws 0%nat) j) (ms_dflt opts (nth j dws 0%nat) j)) as [r|];
    [|discriminate].
  exists r. split; [reflexivity|]. injection Hn as Hn. symmetry. exact Hn.
Qed.

Lemma to_Z_firstn n l : (n <= length l)%nat -> to_Z (firstn n l) = to_Z l mod 2 ^ Z.of_nat n.
Proof.
  intros H. rewrite <- (firstn_skipn n l) at 2. rewrite to_Z_app.
  rewrite firstn_length, Nat.min_l by exact H.
  pose proof (to_Z_range (firstn n l)) as Hr. rewrite firstn_length, Nat.min_l in Hr by exact H.
  rewrite Z.mul_comm, Z_mod_plus_full. symmetry. apply Z.mod_small. exact Hr.
Qed.

Lemma to_Z_resize n l : to_Z (resize n l) = to_Z l mod 2 ^ Z.of_nat n.
Proof.
  unfold resize. rewrite to_Z_firstn by (rewrite length_zext; lia). rewrite to_Z_zext. reflexivity.
Qed.

Lemma to_Z_as_wires_to w x : to_Z (wbits (as_wires_to w x)) = to_Z (wbits x) mod 2 ^ Z.of_nat w.
Proof.
  unfold as_wires_to. destruct (Nat.eqb (length (wbits x)) w) eqn:E.
  - apply Nat.eqb_eq in E. symmetry. apply Z.mod_small. rewrite <- E. apply to_Z_range.
  - cbn [wbits]. apply to_Z_resize.
Qed.

(* MultiSelector: when the select equals an option's value, destination j
   receives that option's j-th data signal (as a dw-bit value); otherwise the
   default's data when a default was given *)
Theorem multiselector_option : forall sel dws opts rs j k data,
  multiselector sel dws opts = Some rs ->
  (j < length dws)%nat ->
  tags_ok (sparse_fill (length sel) (ms_vals opts (nth j dws 0%nat) j) (ms_dflt opts (nth j dws 0%nat) j)) ->
  In (Some k, data) opts -> to_Z sel = k ->
  to_Z (nth j rs []) = to_Z (wbits (nth j data (mkW None []))) mod 2 ^ Z.of_nat (nth j dws 0%nat).
Proof.
  intros sel dws opts rs j k data H Hj Htags Hin Hk.
  destruct (multiselector_unfold _ _ _ _ H) as (_ & Hnd & Hall).
  destruct (Hall j Hj) as (r & Hs & Hr). rewrite Hr, to_Z_resize.
  set (w := nth j dws 0%nat) in *.
  assert (Hv : In (k, as_wires_to w (nth j data (mkW None []))) (ms_vals opts w j)).
  { unfold ms_vals, enum_vals, ms_col. apply in_flat_map.
    exists (Some k, as_wires_to w (nth j data (mkW None []))). split; [|left; reflexivity].
    apply in_map_iff. exists (Some k, data). split; [reflexivity|exact Hin]. }
  rewrite (sparse_mux_listed _ _ _ _ _ _ (Hnd j w) Htags Hs Hv Hk).
  rewrite to_Z_as_wires_to. apply Z.mod_mod. pose proof (pow2_pos (Z.of_nat w)). lia.
Qed.

Theorem multiselector_default : forall sel dws opts rs j d,
  multiselector sel dws opts = Some rs ->
  (j < length dws)%nat ->
  ms_dflt opts (nth j dws 0%nat) j = Some d ->
  tags_ok (sparse_fill (length sel) (ms_vals opts (nth j dws 0%nat) j) (Some d)) ->
  lookup (to_Z sel) (ms_vals opts (nth j dws 0%nat) j) = None ->
  to_Z (nth j rs []) = to_Z (wbits d) mod 2 ^ Z.of_nat (nth j dws 0%nat).
Proof.
  intros sel dws opts rs j d H Hj Hd Htags Hl.
  destruct (multiselector_unfold _ _ _ _ H) as (_ & Hnd & Hall).
  destruct (Hall j Hj) as (r & Hs & Hr). rewrite Hr, to_Z_resize. rewrite Hd in Hs.
  rewrite (sparse_mux_default _ _ _ _ (Hnd j _) Htags Hs Hl). reflexivity.
Qed.

(* ---------- enum_mux corollaries ---------- *)
Lemma enum_vals_In table k v : In (k, v) (enum_vals table) <-> In (Some k, v) table.
Proof.
  unfold enum_vals. rewrite in_flat_map. split.
  - intros ([[k'|] v'] & Hin & H); cbn [fst snd] in H; [|destruct H].
    destruct H as [E|[]]. injection E as <- <-. exact Hin.
  - intros H. exists (Some k, v). split; [exact H|]. left. reflexivity.
Qed.

Theorem enum_mux_listed : forall cntrl members table dflt strict r k v,
  enum_mux cntrl members table dflt strict = Some r ->
  NoDup (map fst (enum_vals table)) ->
  tags_ok (sparse_fill (length cntrl) (enum_vals table) (enum_default table dflt)) ->
  In (Some k, v) table -> to_Z cntrl = k -> to_Z (wbits r) = to_Z (wbits v).
Proof.
  intros cntrl members table dflt strict r k v H Hnd Htags Hin Hk.
  destruct (enum_mux_spec _ _ _ _ _ _ H) as [Hs _].
  apply (sparse_mux_listed _ _ _ _ k v Hnd Htags Hs); [apply enum_vals_In; exact Hin|exact Hk].
Qed.

Theorem enum_mux_default : forall cntrl members table dflt strict r d,
  enum_mux cntrl members table dflt strict = Some r ->
  NoDup (map fst (enum_vals table)) ->
  enum_default table dflt = Some d ->
  tags_ok (sparse_fill (length cntrl) (enum_vals table) (Some d)) ->
  lookup (to_Z cntrl) (enum_vals table) = None -> to_Z (wbits r) = to_Z (wbits d).
Proof.
  intros cntrl members table dflt strict r d H Hnd Hd Htags Hl.
  destruct (enum_mux_spec _ _ _ _ _ _ H) as [Hs _]. rewrite Hd in Hs.
  apply (sparse_mux_default _ _ _ _ Hnd Htags Hs Hl).
Qed.

(* ---------- no spurious errors ---------- *)
Theorem prioritized_mux_ok : forall sels vals,
  length sels = length vals -> vals <> [] -> prioritized_mux sels vals <> None.
Proof.
  intros sels vals. unfold prioritized_mux.
  assert (G : forall fuel sels vals, (length vals < fuel)%nat -> length sels = length vals -> vals <> [] ->
              pmux_rec fuel sels vals <> None).
  { clear. induction fuel as [|fuel IH]; intros sels vals Hf Hl Hne; [lia|].
    cbn [pmux_rec]. rewrite Hl, Nat.eqb_refl. cbn [negb].
    destruct vals as [|v0 [|v1 vr]]; [congruence|discriminate|].
    set (vals := v0 :: v1 :: vr) in *. set (half := Nat.div (length vals) 2).
    assert (Hlen2 : (2 <= length vals)%nat) by (cbn; lia).
    assert (Hh : (1 <= half /\ half < length vals)%nat).
    { unfold half. split; [apply Nat.div_le_lower_bound; lia|apply Nat.div_lt; lia]. }
    assert (H1 : pmux_rec fuel (firstn half sels) (firstn half vals) <> None).
    { apply IH.
      - rewrite firstn_length. lia.
      - rewrite !firstn_length. lia.
      - intro E. apply (f_equal (@length _)) in E. rewrite firstn_length in E. cbn [length] in E. lia. }
    assert (H2 : pmux_rec fuel (skipn half sels) (skipn half vals) <> None).
    { apply IH.
      - rewrite skipn_length. lia.
      - rewrite !skipn_length. lia.
      - intro E. apply (f_equal (@length _)) in E. rewrite skipn_length in E. cbn [length] in E. lia. }
    destruct (pmux_rec fuel (firstn half sels) (firstn half vals)); [|congruence].
    destruct (pmux_rec fuel (skipn half sels) (skipn half vals)); [|congruence]. discriminate. }
  intros Hl Hne. apply G; [lia|exact Hl|exact Hne].
Qed.

Lemma keys_ok_intro maxv (vals : list (Z * wire)) :
  (forall k v, In (k, v) vals -> 0 <= k <= maxv) -> keys_ok maxv vals = true.
Proof.
  intros H. unfold keys_ok. apply forallb_forall. intros [k v] Hin. specialize (H k v Hin). cbn [fst]. lia.
Qed.

Lemma sparse_rec_ok : forall n sel vals,
  vals <> [] -> NoDup (map fst vals) ->
  (forall k v, In (k, v) vals -> 0 <= k <= 2 ^ Z.of_nat n - 1) ->
  (1 <= n)%nat -> sparse_rec n sel vals <> None.
Proof.
  induction n as [|n IH]; intros sel vals Hne Hnd Hk Hn; [lia|].
  cbn [sparse_rec]. rewrite (keys_ok_intro _ _ Hk). cbn [negb].
  destruct vals as [|kv0 [|kv1 vr]]; [congruence|discriminate|].
  set (vals := kv0 :: kv1 :: vr) in *.
  destruct n as [|n'].
  - (* keys are exactly 0 and 1 *)
    destruct kv0 as [k0 v0], kv1 as [k1 v1].
    assert (H0 : 0 <= k0 <= 1) by (apply (Hk k0 v0); left; reflexivity).
    assert (H1 : 0 <= k1 <= 1) by (apply (Hk k1 v1); right; left; reflexivity).
    assert (Hd : k0 <> k1).
    { inversion Hnd as [|? ? Hni _]; subst. cbn [map fst] in Hni. intro E. apply Hni. left. symmetry. exact E. }
    assert (L0 : exists v, In (0, v) vals).
    { destruct (Z.eq_dec k0 0) as [->|]; [exists v0; left; reflexivity|].
      exists v1. right. left. f_equal. lia. }
    assert (L1 : exists v, In (1, v) vals).
    { destruct (Z.eq_dec k0 1) as [->|]; [exists v0; left; reflexivity|].
      exists v1. right. left. f_equal. lia. }
    destruct L0 as [a La]. destruct L1 as [b Lb].
    rewrite (In_lookup _ _ _ Hnd La), (In_lookup _ _ _ Hnd Lb). discriminate.
  - set (n := S n') in *. remember (2 ^ Z.of_nat n) as half eqn:Ehalf.
    assert (Hpow : 2 ^ Z.of_nat (S n) = 2 * half) by (rewrite Ehalf, Nat2Z.inj_succ, Z.pow_succ_r; lia).
    pose proof (nodup_first half vals Hnd) as Nf. pose proof (nodup_second half vals Hnd) as Ns.
    pose proof (in_first half vals) as If. pose proof (in_second half vals) as Is.
    remember (filter (fun kv : Z * wire => fst kv <? half) vals) as first eqn:Efirst.
    remember (map (fun kv : Z * wire => (fst kv - half, snd kv))
                  (filter (fun kv : Z * wire => half <=? fst kv) vals)) as second eqn:Esecond.
    assert (Kf : forall k v, In (k, v) first -> 0 <= k <= half - 1).
    { intros k v Hin. apply If in Hin. destruct Hin as [Hin Hlt]. specialize (Hk k v Hin). lia. }
    assert (Ks : forall k v, In (k, v) second -> 0 <= k <= half - 1).
    { intros k v Hin. apply Is in Hin. destruct Hin as [Hin Hge]. specialize (Hk _ v Hin). lia. }
    assert (Hcover : first = [] -> second <> []).
    { intros E Es. destruct kv0 as [k0 v0].
      assert (Hin : In (k0, v0) vals) by (left; reflexivity).
      destruct (Z.lt_ge_cases k0 half) as [Hlt|Hge].
      - assert (Hf : In (k0, v0) first) by (apply If; split; assumption). rewrite E in Hf. destruct Hf.
      - assert (Hs : In (k0 - half, v0) second).
        { apply Is. replace (k0 - half + half) with k0 by lia. split; [exact Hin|lia]. }
        rewrite Es in Hs. destruct Hs. }
    clear Efirst Esecond.
    destruct first as [|f0 fr].
    + apply IH; [apply Hcover; reflexivity|exact Ns|exact Ks|lia].
    + destruct second as [|s0 sr].
      * apply IH; [discriminate|exact Nf|exact Kf|lia].
      * assert (H1 : sparse_rec n (pyslice sel None (Some (-1))) (f0 :: fr) <> None)
          by (apply IH; [discriminate|exact Nf|exact Kf|lia]).
        assert (H2 : sparse_rec n (pyslice sel None (Some (-1))) (s0 :: sr) <> None)
          by (apply IH; [discriminate|exact Ns|exact Ks|lia]).
        destruct (sparse_rec n (pyslice sel None (Some (-1))) (f0 :: fr)); [|congruence].
        destruct (sparse_rec n (pyslice sel None (Some (-1))) (s0 :: sr)); [|congruence]. discriminate.
Qed.

(* sparse_mux does not raise when the keys are distinct and in range and there is
   at least one value or a default *)
Theorem sparse_mux_ok : forall sel vals dflt,
  (1 <= length sel)%nat -> NoDup (map fst vals) ->
  (forall k v, In (k, v) vals -> 0 <= k <= 2 ^ Z.of_nat (length sel) - 1) ->
  (vals <> [] \/ dflt <> None) ->
  sparse_mux sel vals dflt <> None.
Proof.
  intros sel vals dflt Hn Hnd Hk Hne. unfold sparse_mux.
  destruct dflt as [d|].
  - destruct (sparse_fill_spec (length sel) vals d Hnd) as (Hnd' & Hin1 & Hin2 & Hin3).
    apply sparse_rec_ok; [|exact Hnd'| |exact Hn].
    + destruct vals as [|[k0 v0] vr].
      * intro E. assert (Hz : In (0, d) (sparse_fill (length sel) [] (Some d))).
        { apply Hin2; [pose proof (pow2_pos (Z.of_nat (length sel))); lia|reflexivity]. }
        rewrite E in Hz. destruct Hz.
      * intro E. assert (Hz : In (k0, v0) (sparse_fill (length sel) ((k0, v0) :: vr) (Some d)))
          by (apply Hin1; left; reflexivity).
        rewrite E in Hz. destruct Hz.
    + intros k v Hin. unfold sparse_fill in Hin. apply in_app_iff in Hin. destruct Hin as [Hin|Hin].
      * apply (Hk k v Hin).
      * apply in_map_iff in Hin. destruct Hin as (i & E & Hi). injection E as <- _.
        apply filter_In in Hi. destruct Hi as [Hi _]. apply zrange_In in Hi. rewrite pow2_nat_Z in Hi. lia.
  - cbn [sparse_fill]. apply sparse_rec_ok; [|exact Hnd|exact Hk|exact Hn].
    destruct Hne as [H|H]; [exact H|congruence].
Qed.
