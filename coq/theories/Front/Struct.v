(* C14 -- helperfuncs.chop, libutils.partition_wire, helperfuncs.wire_struct /
   wire_matrix (_slice / _concatenate index arithmetic).  Definitions only. *)
From Coq Require Import ZArith List Bool Lia.
From PyRTL Require Import Base.PyZ Front.SliceC14.
Import ListNotations.
Open Scope Z_scope.

(* chop(w, widths...): starts = [sum(ws[i+1:])], ends = [sum(ws[i:])],
   [w[s:e] for s, e in zip(starts, ends)]; first segment most significant *)
Definition chop (w : bits) (ws : list nat) : option (list bits) :=
  if negb (Nat.eqb (sum_nat ws) (length w)) then None else
  let n := length ws in
  let starts := map (fun i => sum_nat (skipn (S i) ws)) (seq 0 n) in
  let ends := map (fun i => sum_nat (skipn i ws)) (seq 0 n) in
  all_some (map (fun se => wslice w (Some (Z.of_nat (fst se))) (Some (Z.of_nat (snd se))))
                (combine starts ends)).

(* range(0, n, step) for step > 0 *)
Fixpoint range_step (fuel : nat) (lo n step : nat) : list nat :=
  match fuel with
  | O => []
  | S f => if Nat.ltb lo n then lo :: range_step f (lo + step) n step else []
  end.

(* partition_wire(wire, size): [wire[off:off+size] for off in range(0, len, size)];
   first partition least significant *)
Definition partition_wire (w : bits) (size : nat) : option (list bits) :=
  if Nat.eqb size 0 then None else
  if negb (Nat.eqb (Nat.modulo (length w) size) 0) then None else
  all_some (map (fun off => wslice w (Some (Z.of_nat off)) (Some (Z.of_nat (off + size))))
                (range_step (length w) 0 (length w) size)).

(* ---- wire_struct / wire_matrix ---- *)
Inductive schema :=
| SLeaf (w : nat)                       (* "name: w"                         *)
| SStruct (fs : list schema)            (* @wire_struct, fields MSB first    *)
| SMatrix (elem : schema) (size : nat). (* wire_matrix(elem, size), [0] MSB  *)

Fixpoint sbw (s : schema) : nat :=
  match s with
  | SLeaf w => w
  | SStruct fs => (fix go (l : list schema) : nat :=
                     match l with [] => 0 | c :: r => sbw c + go r end) fs
  | SMatrix e n => sbw e * n
  end%nat.

(* the tree of wires an instance exposes: the concatenated wire and components *)
Inductive ctree := CNode (v : bits) (kids : list ctree).
Definition croot (t : ctree) : bits := match t with CNode v _ => v end.
Definition ckids (t : ctree) : list ctree := match t with CNode _ k => k end.

(* _slice: `concatenated <<= value`; end_index = bitwidth; for each component
   value = concatenated[end_index - bw : end_index]; end_index -= bw;
   _make_component builds nested structs/matrices by slicing that value *)
Fixpoint slice_comp (s : schema) (v0 : bits) {struct s} : ctree :=
  let v := resize (sbw s) v0 in
  match s with
  | SLeaf _ => CNode v []
  | SStruct fs =>
    CNode v ((fix go (l : list schema) (endi : nat) : list ctree :=
                match l with
                | [] => []
                | c :: r => slice_comp c (sl v (endi - sbw c) endi) :: go r (endi - sbw c)%nat
                end) fs (sbw s))
  | SMatrix e n =>
    CNode v ((fix go (k : nat) (endi : nat) : list ctree :=
                match k with
                | O => []
                | S k' => slice_comp e (sl v (endi - sbw e) endi) :: go k' (endi - sbw e)%nat
                end) n (sbw s))
  end.

Definition children (s : schema) : list schema :=
  match s with SLeaf _ => [] | SStruct fs => fs | SMatrix e n => repeat e n end.

(* _concatenate: every component is made from its given value (nested ones by
   slicing it), `concatenated <<= concat of all_components` *)
Definition concat_comp (s : schema) (vals : list bits) : option ctree :=
  let cs := children s in
  if negb (Nat.eqb (length cs) (length vals)) then None else
  let kids := map (fun cv => slice_comp (fst cv) (snd cv)) (combine cs vals) in
  Some (CNode (resize (sbw s) (concat_msb (map croot kids))) kids).

(* all wires of the tree, pre-order: node first, then components in order *)
Fixpoint cflat (t : ctree) : list bits :=
  match t with
  | CNode v kids => v :: (fix go (l : list ctree) : list bits :=
                            match l with [] => [] | k :: r => cflat k ++ go r end) kids
  end.

(* follow a path of component indices *)
Fixpoint cpath (t : ctree) (p : list nat) : option ctree :=
  match p with
  | [] => Some t
  | i :: r => match nth_error (ckids t) i with Some k => cpath k r | None => None end
  end.
