(* C07 -- multi-bit predicates and `otherwise` / unguarded-assignment misuse. *)
From Coq Require Import ZArith List Bool Lia.
From PyRTL Require Import Front.Cond Front.CondSpec Front.CondProofs.
Import ListNotations.
Open Scope Z_scope.

(* ------------------------------------------------------------------ widths *)
Lemma elab_tree_w_With : forall pw p body s,
  elab_tree_w pw (With p body) s =
  match push_w pw (CP p) s with
  | None => None
  | Some s1 => match elab_forest_w pw body s1 with None => None | Some s2 => pop s2 end
  end.
Proof. reflexivity. Qed.

Lemma elab_tree_w_Otherwise : forall pw body s,
  elab_tree_w pw (Otherwise body) s =
  match push_w pw COth s with
  | None => None
  | Some s1 => match elab_forest_w pw body s1 with None => None | Some s2 => pop s2 end
  end.
Proof. reflexivity. Qed.

Lemma tree_w1_With : forall pw p body,
  tree_w1 pw (With p body) = negb (pw p >? 1) && forest_w1 pw body.
Proof. reflexivity. Qed.

Lemma tree_w1_Otherwise : forall pw body, tree_w1 pw (Otherwise body) = forest_w1 pw body.
Proof. reflexivity. Qed.

Definition tree_w_ok (pw : pid -> Z) (t : ctree) : Prop :=
  forall s, elab_tree_w pw t s = if tree_w1 pw t then elab_tree t s else None.

Lemma forest_w_ok : forall pw l, Forall (tree_w_ok pw) l ->
  forall s, elab_forest_w pw l s = if forest_w1 pw l then elab_forest l s else None.
Proof.
  induction 1 as [|x l Hx Hl IH]; intro s; [reflexivity|].
  cbn [elab_forest_w elab_forest forest_w1]. rewrite Hx.
  destruct (tree_w1 pw x); cbn [andb]; [|reflexivity].
  destruct (elab_tree x s) as [s'|]; [apply IH|].
  destruct (forest_w1 pw l); reflexivity.
Qed.

Lemma all_tree_w_ok : forall pw t, tree_w_ok pw t.
Proof.
  intros pw t. induction t as [p body IH|body IH|t r|m a d e] using ctree_ind2; unfold tree_w_ok; intro s.
  - rewrite elab_tree_w_With, tree_w1_With, elab_tree_With. unfold push_w. cbn [pred_too_wide].
    destruct (pw p >? 1); cbn [negb andb]; [reflexivity|].
    destruct (push (CP p) s) as [s1|]; [|destruct (forest_w1 pw body); reflexivity].
    rewrite (forest_w_ok pw body IH). destruct (forest_w1 pw body); reflexivity.
  - rewrite elab_tree_w_Otherwise, tree_w1_Otherwise, elab_tree_Otherwise. unfold push_w. cbn [pred_too_wide].
    destruct (push COth s) as [s1|]; [|destruct (forest_w1 pw body); reflexivity].
    rewrite (forest_w_ok pw body IH). destruct (forest_w1 pw body); reflexivity.
  - reflexivity.
  - reflexivity.
Qed.

(* the width check commutes out of the state machine *)
Theorem elab_w_char : forall pw prog d,
  elab_w pw prog d = if forest_w1 pw prog then elab prog d else None.
Proof.
  intros pw prog d. unfold elab_w, elab. rewrite forest_w_ok.
  - destruct (forest_w1 pw prog); reflexivity.
  - apply Forall_forall. intros t _. apply all_tree_w_ok.
Qed.

Theorem elab_w_none_iff : forall pw prog d,
  elab_w pw prog d = None <-> spec_accepts_w pw prog = false.
Proof.
  intros pw prog d. rewrite elab_w_char. unfold spec_accepts_w.
  destruct (forest_w1 pw prog); cbn [andb].
  - apply elab_none_iff.
  - split; reflexivity.
Qed.

(* an accepted program has only 1-bit predicates and is accepted by the 1-bit elaborator with the
   same result: every C07 theorem about `elab` applies *)
Theorem elab_w_some : forall pw prog d res,
  elab_w pw prog d = Some res -> forest_w1 pw prog = true /\ elab prog d = Some res.
Proof.
  intros pw prog d res H. rewrite elab_w_char in H.
  destruct (forest_w1 pw prog); [split; [reflexivity|exact H]|discriminate].
Qed.

(* entering a `with` on a multi-bit wire anywhere in the program raises *)
Inductive has_wide (pw : pid -> Z) : ctree -> Prop :=
| hw_here : forall p body, pw p > 1 -> has_wide pw (With p body)
| hw_with : forall p body t, In t body -> has_wide pw t -> has_wide pw (With p body)
| hw_oth : forall body t, In t body -> has_wide pw t -> has_wide pw (Otherwise body).

Lemma forest_w1_in : forall pw l t, In t l -> tree_w1 pw t = false -> forest_w1 pw l = false.
Proof.
  induction l as [|x l IH]; intros t Hin H; [destruct Hin|]. destruct Hin as [<-|Hin]; cbn.
  - rewrite H. reflexivity.
  - rewrite (IH t Hin H). apply andb_false_r.
Qed.

Lemma has_wide_w1 : forall pw t, has_wide pw t -> tree_w1 pw t = false.
Proof.
  induction 1 as [p body Hp|p body t Hin _ IH|body t Hin _ IH].
  - rewrite tree_w1_With. assert (pw p >? 1 = true) by (apply Z.gtb_lt; lia).
    rewrite H. reflexivity.
  - rewrite tree_w1_With, (forest_w1_in pw body t Hin IH). apply andb_false_r.
  - rewrite tree_w1_Otherwise. exact (forest_w1_in pw body t Hin IH).
Qed.

Theorem wide_predicate_rejected : forall pw prog d t,
  In t prog -> has_wide pw t -> elab_w pw prog d = None.
Proof.
  intros pw prog d t Hin Hw. rewrite elab_w_char.
  rewrite (forest_w1_in pw prog t Hin (has_wide_w1 pw t Hw)). reflexivity.
Qed.

(* ------------------------------------------------------------------ misuse of otherwise / unguarded |= *)
Lemma slits_forest_mid : forall ctx pre x post sn,
  incl (slits_tree ctx (fold_left next_since pre sn) x) (slits_forest ctx (pre ++ x :: post) sn).
Proof.
  intros ctx pre. induction pre as [|y pre IH]; intros x post sn; cbn [app fold_left].
  - rewrite slits_forest_cons. apply incl_appl. apply incl_refl.
  - rewrite slits_forest_cons. apply incl_appr. apply IH.
Qed.

(* (a) `|=` directly under conditional_assignment, outside any `with` *)
Theorem top_level_assign_rejected : forall pre t r post d,
  elab (pre ++ Assign t r :: post) d = None.
Proof.
  intros. apply (rejects_unguarded _ d (LW t)). unfold slits.
  apply (slits_forest_mid [] pre (Assign t r) post []). left. reflexivity.
Qed.

Theorem top_level_memassign_rejected : forall pre m a dd e post d,
  elab (pre ++ MemAssign m a dd e :: post) d = None.
Proof.
  intros. apply (rejects_unguarded _ d (LM m)). unfold slits.
  apply (slits_forest_mid [] pre (MemAssign m a dd e) post []). left. reflexivity.
Qed.

(* the chain that an otherwise would close is empty: it is the first branch of the block, or it
   directly follows another otherwise *)
Definition chain_empty_before (pre : list ctree) : Prop := fold_left next_since pre [] = [].

Lemma chain_empty_first : chain_empty_before [].
Proof. reflexivity. Qed.

Lemma chain_empty_after_otherwise : forall pre b, chain_empty_before (pre ++ [Otherwise b]).
Proof. intros. unfold chain_empty_before. rewrite fold_left_app. reflexivity. Qed.

(* (b) a top-level `with otherwise:` that closes no chain (first in the block / right after another
   otherwise) and assigns directly in its body has no select condition: rejected.
   (Such an otherwise WITHOUT a direct assignment is legal for the code and for the model.) *)
Theorem dangling_otherwise_assign_rejected : forall pre bpre t r bpost post d,
  chain_empty_before pre ->
  elab (pre ++ Otherwise (bpre ++ Assign t r :: bpost) :: post) d = None.
Proof.
  intros pre bpre t r bpost post d Hc. apply (rejects_unguarded _ d (LW t)). unfold slits.
  apply (slits_forest_mid [] pre _ post []). rewrite Hc, slits_tree_Otherwise. cbn [branch_lits map app].
  apply (slits_forest_mid [] bpre (Assign t r) bpost []). left. reflexivity.
Qed.

Theorem dangling_otherwise_memassign_rejected : forall pre bpre m a dd e bpost post d,
  chain_empty_before pre ->
  elab (pre ++ Otherwise (bpre ++ MemAssign m a dd e :: bpost) :: post) d = None.
Proof.
  intros pre bpre m a dd e bpost post d Hc. apply (rejects_unguarded _ d (LM m)). unfold slits.
  apply (slits_forest_mid [] pre _ post []). rewrite Hc, slits_tree_Otherwise. cbn [branch_lits map app].
  apply (slits_forest_mid [] bpre (MemAssign m a dd e) bpost []). left. reflexivity.
Qed.

(* ------------------------------------------------------------------ integer right-hand sides *)
Theorem coerce_int_some : forall w v x, 0 < w -> coerce_int w v = Some x ->
  0 <= x < 2 ^ w /\ x mod 2 ^ w = v mod 2 ^ w /\ - 2 ^ (w - 1) <= v < 2 ^ w.
Proof.
  intros w v x Hw H. unfold coerce_int in H.
  assert (Hp : 2 ^ w = 2 * 2 ^ (w - 1)).
  { replace w with (1 + (w - 1)) at 1 by lia. rewrite Z.pow_add_r by lia. reflexivity. }
  assert (Hpos : 0 < 2 ^ (w - 1)) by (apply Z.pow_pos_nonneg; lia).
  destruct (0 <=? v) eqn:E0.
  - apply Z.leb_le in E0. destruct (v <? 2 ^ w) eqn:E1; [|discriminate].
    apply Z.ltb_lt in E1. injection H as <-. repeat split; lia.
  - apply Z.leb_gt in E0. destruct (- 2 ^ (w - 1) <=? v) eqn:E1; [|discriminate].
    apply Z.leb_le in E1. injection H as <-. repeat split; try lia.
    rewrite <- (Z.mul_1_l (2 ^ w)) at 1. apply Z.mod_add. lia.
Qed.

Theorem coerce_int_none : forall w v, 0 < w ->
  (coerce_int w v = None <-> v >= 2 ^ w \/ v < - 2 ^ (w - 1)).
Proof.
  intros w v Hw. unfold coerce_int.
  assert (Hpos : 0 < 2 ^ (w - 1)) by (apply Z.pow_pos_nonneg; lia).
  assert (Hpos2 : 0 < 2 ^ w) by (apply Z.pow_pos_nonneg; lia).
  destruct (0 <=? v) eqn:E0.
  - apply Z.leb_le in E0. destruct (v <? 2 ^ w) eqn:E1.
    + apply Z.ltb_lt in E1. split; [discriminate|lia].
    + apply Z.ltb_ge in E1. split; [lia|reflexivity].
  - apply Z.leb_gt in E0. destruct (- 2 ^ (w - 1) <=? v) eqn:E1.
    + apply Z.leb_le in E1. split; [discriminate|lia].
    + apply Z.leb_gt in E1. split; [lia|reflexivity].
Qed.
