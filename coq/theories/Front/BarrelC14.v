(* C14 -- rtllib/barrel.barrel_shifter as the staged loop of the source
   (definitions only).  C14's own copy (C06 owns Front/Barrel.v). *)
From Coq Require Import ZArith List Bool Lia.
From PyRTL Require Import Base.PyZ Front.SliceC14 Front.Mux.
Import ListNotations.
Open Scope Z_scope.

(* stages: the remaining bits shift_dist[i], shift_dist[i+1], ... *)
Fixpoint barrel_loop (stages : list bool) (i : nat) (fw : nat) (dir : bool)
         (val app : bits) : bits :=
  match stages with
  | [] => val
  | sdi :: rest =>
    let amt := (2 ^ i)%nat in
    if Nat.ltb amt fw then
      let up := concat2 (pyslice val None (Some (- Z.of_nat amt))) app in    (* shift up *)
      let down := concat2 app (pyslice val (Some (Z.of_nat amt)) None) in    (* shift down *)
      let newval := select dir up down in
      let val' := select sdi newval val in
      let app' := pyslice (concat2 app app) None (Some (Z.of_nat fw)) in
      barrel_loop rest (S i) fw dir val' app'
    else
      barrel_loop rest (S i) fw dir (select sdi app val) app
  end.

Definition barrel_shifter (x : bits) (bit_in : bits) (dir : bool) (sd : bits) : bits :=
  barrel_loop sd 0 (length x) dir x bit_in.

(* specification: shift x by s positions, filling with b, width preserved *)
Definition shift_spec (x : bits) (b : bool) (dir : bool) (s : nat) : bits :=
  let n := length x in
  if dir then firstn n (repeat b s ++ x)              (* up: towards the msb *)
  else skipn s x ++ repeat b (Nat.min s n).           (* down *)

(* corecircuits.shift_left_logical / shift_right_logical / shift_right_arithmetic with a Python
   int amount k >= 0 (after `bits_to_shift = as_wires(bits_to_shift)`):
     concat(bits[:-k], Const(0, k))     bits[k:].zero_extended(len(bits))     bits[k:].sign_extended(len(bits))
   None = it raises (empty slice, or Const of bitwidth 0) *)
Definition sll_const (x : bits) (k : Z) : option bits :=
  match wslice x None (Some (- k)) with
  | Some lo => if 0 <? k then Some (concat2 lo (repeat false (Z.to_nat k))) else None
  | None => None
  end.

Definition srl_const (x : bits) (k : Z) : option bits :=
  match wslice x (Some k) None with
  | Some hi => Some (zext (length x) hi)
  | None => None
  end.

Definition sra_const (x : bits) (k : Z) : option bits :=
  match wslice x (Some k) None with
  | Some hi => Some (hi ++ repeat (last hi false) (length x - length hi))
  | None => None
  end.
