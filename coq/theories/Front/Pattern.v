(* C14 -- helperfuncs.match_bitpattern (definitions only).
   strip '_' and whitespace, reverse so index 0 is the lsb,
   match = rtl_all(one_bits) & ~rtl_any(zero_bits),
   fields by first occurrence (left to right) in the stripped string,
   each field = concat_list of its bits in increasing bit index. *)
From Coq Require Import ZArith List Bool Lia Ascii String.
From PyRTL Require Import Base.PyZ Front.SliceC14.
Import ListNotations.
Open Scope Z_scope.

(* str.split() whitespace restricted to ASCII: \t \n \v \f \r, \x1c-\x1f, space *)
Definition is_ws (c : ascii) : bool :=
  let n := nat_of_ascii c in
  (Nat.leb 9 n && Nat.leb n 13) || (Nat.leb 28 n && Nat.leb n 32).

Definition strip (p : list ascii) : list ascii :=
  filter (fun c => negb (Ascii.eqb c "_"%char || is_ws c)) p.

Definition is_field (c : ascii) : bool :=
  negb (Ascii.eqb c "0"%char || Ascii.eqb c "1"%char || Ascii.eqb c "?"%char).

(* [w[index] for index, x in enumerate(lsb_first_string) if x == c] *)
Definition pick (c : ascii) (lsb : list ascii) (w : bits) : bits :=
  map (fun i => nth i w false)
      (filter (fun i => Ascii.eqb (nth i lsb "?"%char) c) (seq 0 (length lsb))).

(* keep the first occurrence of every element *)
Fixpoint dedup (l : list ascii) : list ascii :=
  match l with
  | [] => []
  | c :: r => c :: filter (fun d => negb (Ascii.eqb d c)) (dedup r)
  end.

Definition match_bits (w : bits) (ns : list ascii) : option (bool * list (ascii * bits)) :=
  if negb (Nat.eqb (length w) (length ns)) then None else
  let lsb := rev ns in
  let zero_bits := pick "0"%char lsb w in
  let one_bits := pick "1"%char lsb w in
  let m := forallb (fun b => b) one_bits && negb (existsb (fun b => b) zero_bits) in
  let names := dedup (filter is_field ns) in
  Some (m, map (fun c => (c, pick c lsb w)) names).

Definition match_bitpattern (w : bits) (pat : string) : option (bool * list (ascii * bits)) :=
  match_bits w (strip (list_ascii_of_string pat)).

(* field_map: a map from field letter to the name of the field in the returned namedtuple.  Every
   field letter must be a key (otherwise PyrtlError); the fields keep the order in which their letters
   first appear in the pattern -- the order of the map's keys plays no role *)
Fixpoint fm_lookup (fm : list (ascii * string)) (c : ascii) : option string :=
  match fm with
  | [] => None
  | (k, nm) :: r => if Ascii.eqb k c then Some nm else fm_lookup r c
  end.

Definition match_bits_fm (w : bits) (ns : list ascii) (fm : list (ascii * string))
  : option (bool * list (string * bits)) :=
  match match_bits w ns with
  | None => None
  | Some (m, fs) =>
    match all_some (map (fun cf => match fm_lookup fm (fst cf) with
                                   | Some nm => Some (nm, snd cf)
                                   | None => None
                                   end) fs) with
    | Some l => Some (m, l)
    | None => None
    end
  end.

Definition match_bitpattern_fm (w : bits) (pat : string) (fm : list (ascii * string)) :=
  match_bits_fm w (strip (list_ascii_of_string pat)) fm.
