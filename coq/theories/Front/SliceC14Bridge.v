(* C14 -- the slice model of Front/SliceC14.v is not a specification of its own: it is proved equal,
   for every length and all bounds, to C06's transcription of CPython's slice.indices
   (Front/PySlice.v) and therefore to the declarative statement of Python slicing from the language
   reference (PySliceProofs.is_slice_of). *)
From Coq Require Import ZArith List Bool Lia ZifyBool.
From PyRTL Require Import Base.PyZ Front.SliceC14 Front.SliceC14Proofs Front.PySlice Front.PySliceProofs.
Import ListNotations.
Open Scope Z_scope.

Lemma slice_start_clamp n s : slice_start n 1 s = clamp_bound n s 0.
Proof. unfold slice_start, clamp_bound, clamp_index, slice_lower, slice_upper. destruct s; reflexivity. Qed.

Lemma slice_stop_clamp n e : slice_stop n 1 e = clamp_bound n e n.
Proof. unfold slice_stop, clamp_bound, clamp_index, slice_lower, slice_upper. destruct e; reflexivity. Qed.

Lemma clamp_bound_range n b d : 0 <= n -> 0 <= d <= n -> 0 <= clamp_bound n b d <= n.
Proof. intros Hn Hd. unfold clamp_bound. destruct b as [x|]; [|exact Hd]. destruct (x <? 0) eqn:E; lia. Qed.

Lemma map_of_nat_seq a k : map Z.of_nat (seq a k) = map (fun m => Z.of_nat a + Z.of_nat m * 1) (seq 0 k).
Proof.
  revert a. induction k as [|k IH]; intros a; [reflexivity|].
  cbn [seq map]. f_equal; [lia|]. rewrite IH.
  rewrite <- seq_shift, map_map. apply map_ext. intros m. lia.
Qed.

(* the index list addressed by l[s:e] (step omitted or 1) is CPython's *)
Theorem pyslice_eq_cpython : forall n s e st, st = None \/ st = Some 1 ->
  slice_indices (Z.of_nat n) s e st = Some (map Z.of_nat (pyslice (seq 0 n) s e)).
Proof.
  intros n s e st Hst. unfold slice_indices, slice_adjust.
  assert (Hk : slice_step st = 1) by (destruct Hst as [-> | ->]; reflexivity). rewrite Hk.
  rewrite slice_start_clamp, slice_stop_clamp. change (1 =? 0) with false. cbv iota. f_equal.
  rewrite pyslice_seq. unfold slice_bounds. cbn [fst snd].
  pose proof (clamp_bound_range (Z.of_nat n) s 0 ltac:(lia) ltac:(lia)) as Ha.
  pose proof (clamp_bound_range (Z.of_nat n) e (Z.of_nat n) ltac:(lia) ltac:(lia)) as Hb.
  set (a := clamp_bound (Z.of_nat n) s 0) in *. set (b := clamp_bound (Z.of_nat n) e (Z.of_nat n)) in *.
  rewrite map_of_nat_seq. unfold range_list. rewrite Z2Nat.id by lia.
  f_equal. unfold range_len. change (0 <? 1) with true. cbv iota.
  destruct (a <? b) eqn:E.
  - apply Z.ltb_lt in E. rewrite Z.div_1_r. f_equal. lia.
  - apply Z.ltb_ge in E. f_equal. lia.
Qed.

(* ... hence it is THE slice in the sense of the Python language reference *)
Theorem pyslice_is_python_slice : forall n s e,
  is_slice_of (Z.of_nat n) s e None (map Z.of_nat (pyslice (seq 0 n) s e)).
Proof.
  intros n s e. apply slice_indices_sound; [lia|]. apply pyslice_eq_cpython. left. reflexivity.
Qed.

Theorem pyslice_unique : forall n s e l,
  is_slice_of (Z.of_nat n) s e None l -> l = map Z.of_nat (pyslice (seq 0 n) s e).
Proof.
  intros n s e l H. apply (is_slice_of_unique (Z.of_nat n) s e None); [exact H|apply pyslice_is_python_slice].
Qed.

(* slicing any list = picking the elements at those indices *)
Theorem pyslice_elements : forall (A : Type) (l : list A) (d : A) s e,
  pyslice l s e = map (fun i => nth i l d) (pyslice (seq 0 (length l)) s e).
Proof. intros A l d s e. apply pyslice_nth. Qed.

(* WireVector.__getitem__: the same error (empty selection) and the same selected bits as C06's
   getitem_indices (what __getitem__ passes as the select net's op_param) *)
Theorem wslice_getitem : forall w s e,
  match getitem_indices (Z.of_nat (length w)) (ISlice s e None) with
  | None => wslice w s e = None
  | Some idx => wslice w s e = Some (map (fun i => nth (Z.to_nat i) w false) idx)
  end.
Proof.
  intros w s e. cbn [getitem_indices]. rewrite (pyslice_eq_cpython (length w) s e None) by (left; reflexivity).
  unfold wslice. rewrite (pyslice_nth w false s e).
  destruct (pyslice (seq 0 (length w)) s e) as [|i l] eqn:E; cbn [map]; [reflexivity|].
  f_equal. rewrite !Nat2Z.id. f_equal. rewrite map_map. apply map_ext. intros j. rewrite Nat2Z.id. reflexivity.
Qed.

Theorem windex_index_int : forall w i,
  windex w i = option_map (fun x => nth (Z.to_nat x) w false) (index_int (Z.of_nat (length w)) i).
Proof.
  intros w i. unfold windex, index_int. set (n := Z.of_nat (length w)).
  destruct (i <? 0) eqn:Ei.
  - assert (H1 : (0 <=? i) && (i <? n) = false) by lia. rewrite H1. rewrite andb_true_r.
    destruct (- n <=? i) eqn:E.
    + assert (H2 : (0 <=? i + n) && (i + n <? n) = true) by lia. rewrite H2. reflexivity.
    + assert (H2 : (0 <=? i + n) && (i + n <? n) = false) by lia. rewrite H2. reflexivity.
  - rewrite andb_false_r. destruct ((0 <=? i) && (i <? n)); reflexivity.
Qed.
