(* rtllib/barrel.py barrel_shifter as the staged loop it is, and the four
   corecircuits.shift_* wrappers (wire amount -> barrel shifter; int amount ->
   slice + extension).  DEFINITIONS ONLY; proofs in BarrelProofs.v.

   Interface (stable; C14 may import it):
     barrel_stage fw dir dist (val, append_val) i : (val', append_val')   one loop iteration
     barrel_shifter bits bit_in dir dist : sv          dir = (1,1) up/left, (0,1) down/right
     shift_left_logical / shift_right_logical / shift_left_arithmetic /
     shift_right_arithmetic bits amount : sv           wire amount
     sll_const / srl_const / sla_const / sra_const bits k : option sv   Python int amount *)
From PyRTL Require Export Front.Ops.

(* for i in range(len(shift_dist)): *)
Definition barrel_stage (fw : Z) (dir dist : sv) (st : sv * sv) (i : nat) : sv * sv :=
  let '(v, app) := st in
  let s := 2 ^ Z.of_nat i in                                   (* shift_amt = pow(2, i) *)
  let di := getitem_d dist (IInt (Z.of_nat i)) in              (* shift_dist[i] *)
  if s <? fw then
    let newval := select dir
                    (concat [getitem_d v (ISlice None (Some (- s)) None); app])   (* shift up *)
                    (concat [app; getitem_d v (ISlice (Some s) None None)]) in    (* shift down *)
    (select di newval v,
     getitem_d (concat [app; app]) (ISlice None (Some fw) None))
  else
    (select di app v, app).

Definition barrel_shifter (bits bit_in dir dist : sv) : sv :=
  fst (fold_left (barrel_stage (wd bits) dir dist) (seq 0 (Z.to_nat (wd dist))) (bits, bit_in)).

(* wire shift amounts: Const(0) / Const(1) are 1-bit constants *)
Definition shift_left_logical (bits amt : sv) : sv := barrel_shifter bits (0, 1) (1, 1) amt.
Definition shift_right_logical (bits amt : sv) : sv := barrel_shifter bits (0, 1) (0, 1) amt.
Definition shift_left_arithmetic := shift_left_logical.
Definition shift_right_arithmetic (bits amt : sv) : sv := barrel_shifter bits (msb bits) (0, 1) amt.

(* Python-int shift amounts; None <-> raises *)
Definition sll_const (bits : sv) (k : Z) : option sv :=
  match getitem bits (ISlice None (Some (- k)) None), convert_int 0 (Some k) false with
  | Some lo, Some z => Some (concat [lo; z])
  | _, _ => None
  end.
Definition sla_const := sll_const.
Definition srl_const (bits : sv) (k : Z) : option sv :=
  match getitem bits (ISlice (Some k) None None) with
  | Some hi => zero_extended hi (wd bits)
  | None => None
  end.
Definition sra_const (bits : sv) (k : Z) : option sv :=
  match getitem bits (ISlice (Some k) None None) with
  | Some hi => sign_extended hi (wd bits)
  | None => None
  end.
