(* Proofs about the operator front end Front/Ops.v: every operator, built the
   way PyRTL builds it, computes the exact integer function at the documented
   width -- for all operand widths and all in-range values. *)
From Coq Require Import ZArith List Bool Lia ZifyBool.
From PyRTL Require Import Front.Ops Front.Signed Front.PySliceProofs.
Open Scope Z_scope.

(* a well-formed wire value: bitwidth >= 1 and the value fits *)
Definition wf (a : sv) : Prop := 1 <= wd a /\ inrange (val a) (wd a).

Lemma wf_pair v w : wf (v, w) <-> 1 <= w /\ 0 <= v < 2 ^ w.
Proof. unfold wf, inrange, val, wd; cbn. tauto. Qed.

Lemma pow2_le a b : 0 <= a <= b -> 2 ^ a <= 2 ^ b.
Proof. intros. apply Z.pow_le_mono_r; lia. Qed.

Lemma pow2_add a b : 0 <= a -> 0 <= b -> 2 ^ (a + b) = 2 ^ a * 2 ^ b.
Proof. intros. apply Z.pow_add_r; lia. Qed.

Lemma b2z_Zb2z b : b2z b = Z.b2z b.
Proof. destruct b; reflexivity. Qed.

Lemma b2z_range b : 0 <= b2z b < 2.
Proof. destruct b; cbn; lia. Qed.

Lemma testbit_b2z b i : 0 <= i -> Z.testbit (b2z b) i = if i =? 0 then b else false.
Proof.
  intros Hi. destruct (i =? 0) eqn:E.
  - assert (i = 0) by lia. subst. destruct b; reflexivity.
  - destruct b; cbn [b2z]; [|apply Z.bits_0].
    apply Z.bits_above_log2; cbn; lia.
Qed.

(* most significant bit of an in-range value *)
Lemma testbit_msb v w : 1 <= w -> inrange v w -> Z.testbit v (w - 1) = (2 ^ (w - 1) <=? v).
Proof.
  intros Hw [H0 H1].
  assert (HP : 2 ^ w = 2 * 2 ^ (w - 1)).
  { replace w with (Z.succ (w - 1)) at 1 by lia. apply Z.pow_succ_r. lia. }
  pose proof (pow2_pos (w - 1) ltac:(lia)) as Hp.
  destruct (2 ^ (w - 1) <=? v) eqn:E.
  - apply Z.testbit_true; [lia|].
    assert (Hq : v / 2 ^ (w - 1) = 1).
    { symmetry. apply Z.div_unique with (v - 2 ^ (w - 1)); lia. }
    rewrite Hq. reflexivity.
  - apply Z.testbit_false; [lia|]. rewrite Z.div_small by lia. reflexivity.
Qed.

(* ------------------------------------------------------------ select net *)
Lemma select_spec_range src idx : 0 <= select_spec src idx < 2 ^ Z.of_nat (length idx).
Proof.
  unfold select_spec.
  induction idx as [|i rest IH]; cbn [length fold_right]; [simpl; lia|].
  rewrite Nat2Z.inj_succ, Z.pow_succ_r by lia.
  destruct (Z.testbit src i); cbn [b2z]; lia.
Qed.

Lemma select_spec_cons src i rest :
  select_spec src (i :: rest) = 2 * select_spec src rest + Z.b2z (Z.testbit src i).
Proof. unfold select_spec. cbn [fold_right]. rewrite b2z_Zb2z. lia. Qed.

Lemma select_spec_testbit src idx : forall j, 0 <= j ->
  Z.testbit (select_spec src idx) j =
  if j <? Z.of_nat (length idx) then Z.testbit src (nth (Z.to_nat j) idx 0) else false.
Proof.
  induction idx as [|i rest IH]; intros j Hj.
  - cbn. rewrite Z.bits_0. destruct (j <? 0) eqn:E; [lia|reflexivity].
  - rewrite select_spec_cons. cbn [length]. rewrite Nat2Z.inj_succ.
    destruct (Z.eq_dec j 0) as [->|Hne].
    + rewrite Z.testbit_0_r. cbn. destruct (0 <? Z.succ (Z.of_nat (length rest))) eqn:E; [reflexivity|lia].
    + replace j with (Z.succ (j - 1)) at 1 by lia.
      rewrite Z.testbit_succ_r by lia. rewrite IH by lia.
      replace (Z.to_nat j) with (S (Z.to_nat (j - 1))) by lia. cbn [nth].
      destruct (j - 1 <? Z.of_nat (length rest)) eqn:E1;
        destruct (j <? Z.succ (Z.of_nat (length rest))) eqn:E2; try lia; reflexivity.
Qed.

Lemma select_spec_zero idx : select_spec 0 idx = 0.
Proof.
  apply Z.bits_inj'. intros j Hj. rewrite select_spec_testbit by assumption.
  rewrite !Z.bits_0. destruct (j <? _); reflexivity.
Qed.

Lemma select_spec_repeat0 src k :
  select_spec src (repeat 0 k) = if Z.testbit src 0 then 2 ^ Z.of_nat k - 1 else 0.
Proof.
  induction k as [|k IH].
  - cbn [repeat Z.of_nat]. change (select_spec src []) with 0. rewrite Z.pow_0_r.
    destruct (Z.testbit src 0); reflexivity.
  - cbn [repeat]. rewrite select_spec_cons, IH, Nat2Z.inj_succ, Z.pow_succ_r by lia.
    destruct (Z.testbit src 0); cbn [Z.b2z]; lia.
Qed.

(* contiguous run of bits: a[i : i+len] *)
Lemma select_spec_range_list v i len : 0 <= i -> 0 <= len ->
  select_spec v (range_list i 1 len) = (v / 2 ^ i) mod 2 ^ len.
Proof.
  intros Hi Hl.
  pose proof (select_spec_range v (range_list i 1 len)) as Hr.
  rewrite length_range_list, Z2Nat.id in Hr by assumption.
  apply (inrange_bits_eq _ _ len); [assumption|exact Hr|apply mod_range; assumption|].
  intros j Hj. rewrite select_spec_testbit by lia.
  rewrite length_range_list, Z2Nat.id by assumption.
  destruct (j <? len) eqn:E; [|lia].
  rewrite nth_range_list by lia. rewrite Z2Nat.id by lia.
  rewrite testbit_mod_pow2 by lia. rewrite E.
  rewrite <- Z.shiftr_div_pow2 by assumption. rewrite Z.shiftr_spec by lia.
  f_equal. lia.
Qed.

(* ------------------------------------------------------------ primitive nets *)
Lemma prim_select idx a w : prim (OpSelect idx) [a] w = (select_spec (val a) idx mod 2 ^ w, w).
Proof. destruct a; reflexivity. Qed.

Lemma prim_w a w : prim OpW [a] w = (val a mod 2 ^ w, w).
Proof. destruct a; reflexivity. Qed.

Lemma prim_not a w : prim OpNot [a] w = ((2 ^ wd a - 1 - val a) mod 2 ^ w, w).
Proof. destruct a; reflexivity. Qed.

Lemma prim_mux s f t w :
  prim OpMux [s; f; t] w = ((if val s =? 0 then val f else val t) mod 2 ^ w, w).
Proof. destruct s, f, t; reflexivity. Qed.

Lemma prim_concat2 a b w : prim OpConcat [a; b] w = ((val a * 2 ^ wd b + val b) mod 2 ^ w, w).
Proof. destruct a, b. unfold prim, op_spec, concat_spec. cbn. reflexivity. Qed.

Lemma mod_small_range v w : inrange v w -> v mod 2 ^ w = v.
Proof. intros H. apply Z.mod_small. exact H. Qed.

(* ------------------------------------------------------------ getitem *)
Lemma msb_spec a : wf a -> msb a = (b2z (Z.testbit (val a) (wd a - 1)), 1).
Proof.
  intros [Hw Hr]. unfold msb, getitem_d, getitem, getitem_indices.
  rewrite index_int_last by assumption. rewrite prim_select. cbn [length Z.of_nat].
  f_equal. rewrite select_spec_cons. change (select_spec (val a) []) with 0.
  rewrite <- b2z_Zb2z. change (2 ^ Z.pos 1) with 2.
  pose proof (b2z_range (Z.testbit (val a) (wd a - 1))). rewrite Z.mod_small; lia.
Qed.

Lemma msb_value a : wf a -> msb a = (b2z (2 ^ (wd a - 1) <=? val a), 1).
Proof. intros H. rewrite msb_spec by assumption. destruct H. rewrite testbit_msb; auto. Qed.

Lemma getitem_bit a i : wf a -> 0 <= i < wd a ->
  getitem_d a (IInt i) = (b2z (Z.testbit (val a) i), 1).
Proof.
  intros [Hw Hr] Hi. unfold getitem_d, getitem, getitem_indices.
  rewrite index_int_nonneg by assumption. rewrite prim_select. cbn [length Z.of_nat].
  f_equal. rewrite select_spec_cons. change (select_spec (val a) []) with 0.
  rewrite <- b2z_Zb2z. change (2 ^ Z.pos 1) with 2.
  pose proof (b2z_range (Z.testbit (val a) i)). rewrite Z.mod_small; lia.
Qed.

Lemma getitem_contig a idxs i len it :
  getitem_indices (wd a) it = Some idxs -> idxs = range_list i 1 len ->
  0 <= i -> 1 <= len ->
  getitem a it = Some ((val a / 2 ^ i) mod 2 ^ len, len).
Proof.
  intros Hidx -> Hi Hl. unfold getitem. rewrite Hidx, prim_select.
  rewrite length_range_list, Z2Nat.id by lia.
  rewrite select_spec_range_list by lia. rewrite Z.mod_mod by (pose proof (pow2_pos len); lia).
  reflexivity.
Qed.

Lemma range_list_nonempty i k len : 1 <= len -> range_list i k len <> [].
Proof.
  intros H E. apply (f_equal (@length Z)) in E. rewrite length_range_list in E. cbn in E. lia.
Qed.

Lemma getitem_indices_slice n s e st l :
  slice_indices n s e st = Some l -> l <> [] -> getitem_indices n (ISlice s e st) = Some l.
Proof.
  intros H Hne. unfold getitem_indices. rewrite H. destruct l; [congruence|reflexivity].
Qed.

(* a[:k] for 1 <= k <= len(a) *)
Lemma getitem_to a k : wf a -> 1 <= k <= wd a ->
  getitem a (ISlice None (Some k) None) = Some (val a mod 2 ^ k, k).
Proof.
  intros [Hw Hr] Hk.
  erewrite getitem_contig with (i := 0) (len := k); [| |reflexivity|lia|lia].
  - rewrite Z.pow_0_r, Z.div_1_r. reflexivity.
  - apply getitem_indices_slice; [apply slice_to_indices; lia|apply range_list_nonempty; lia].
Qed.

(* a[0:k] *)
Lemma getitem_0to a k : wf a -> 1 <= k <= wd a ->
  getitem a (ISlice (Some 0) (Some k) None) = Some (val a mod 2 ^ k, k).
Proof.
  intros [Hw Hr] Hk.
  erewrite getitem_contig with (i := 0) (len := k); [| |reflexivity|lia|lia].
  - rewrite Z.pow_0_r, Z.div_1_r. reflexivity.
  - apply getitem_indices_slice; [apply slice_0to_indices; lia|apply range_list_nonempty; lia].
Qed.

(* a[k:] for 0 <= k < len(a) *)
Lemma getitem_from a k : wf a -> 0 <= k < wd a ->
  getitem a (ISlice (Some k) None None) = Some (val a / 2 ^ k, wd a - k).
Proof.
  intros [Hw Hr] Hk.
  erewrite getitem_contig with (i := k) (len := wd a - k); [| |reflexivity|lia|lia].
  - f_equal. f_equal. apply Z.mod_small. destruct Hr as [H0 H1]. split.
    + apply Z.div_pos; [lia|apply pow2_pos; lia].
    + apply Z.div_lt_upper_bound; [apply pow2_pos; lia|].
      rewrite <- pow2_add by lia. replace (k + (wd a - k)) with (wd a) by lia. exact H1.
  - apply getitem_indices_slice; [apply slice_from_indices; lia|apply range_list_nonempty; lia].
Qed.

(* a[:-s] for 0 < s < len(a) *)
Lemma getitem_negto a s : wf a -> 0 < s < wd a ->
  getitem a (ISlice None (Some (- s)) None) = Some (val a mod 2 ^ (wd a - s), wd a - s).
Proof.
  intros [Hw Hr] Hk.
  erewrite getitem_contig with (i := 0) (len := wd a - s); [| |reflexivity|lia|lia].
  - rewrite Z.pow_0_r, Z.div_1_r. reflexivity.
  - apply getitem_indices_slice; [apply slice_negto_indices; lia|apply range_list_nonempty; lia].
Qed.

(* the general statement: result bit j is source bit indices[j] *)
Lemma getitem_spec a it r : getitem a it = Some r ->
  exists idx, getitem_indices (wd a) it = Some idx /\
    wd r = Z.of_nat (length idx) /\ inrange (val r) (wd r) /\
    forall j, 0 <= j < wd r -> Z.testbit (val r) j = Z.testbit (val a) (nth (Z.to_nat j) idx 0).
Proof.
  unfold getitem. destruct (getitem_indices (wd a) it) as [idx|] eqn:E; [|discriminate].
  intros H. inversion H; subst r; clear H. exists idx. rewrite prim_select. cbn [val wd fst snd].
  pose proof (select_spec_range (val a) idx) as Hr.
  rewrite Z.mod_small by exact Hr.
  split; [reflexivity|]. split; [reflexivity|]. split; [exact Hr|].
  intros j Hj. rewrite select_spec_testbit by lia.
  destruct (j <? Z.of_nat (length idx)) eqn:E2; [reflexivity|lia].
Qed.

(* ------------------------------------------------------------ concat *)
Fixpoint concat_val (args : list sv) : Z :=
  match args with
  | [] => 0
  | a :: rest => val a * 2 ^ sumw rest + concat_val rest
  end.

Lemma sumw_nonneg args : Forall wf args -> 0 <= sumw args.
Proof.
  induction 1 as [|a rest [Hw _] _ IH]; cbn [sumw fold_right]; [lia|].
  change (fold_right (fun a acc => wd a + acc) 0 rest) with (sumw rest). lia.
Qed.

Lemma concat_val_range args : Forall wf args -> 0 <= concat_val args < 2 ^ sumw args.
Proof.
  induction 1 as [|a rest [Hw [H0 H1]] Hrest IH]; cbn [concat_val sumw fold_right]; [cbn; lia|].
  change (fold_right (fun a acc => wd a + acc) 0 rest) with (sumw rest).
  pose proof (sumw_nonneg rest Hrest) as Hs.
  rewrite pow2_add by lia. pose proof (pow2_pos (sumw rest) Hs). nia.
Qed.

Lemma concat_spec_gen args : forall acc, Forall wf args ->
  fold_left (fun acc vw => acc * 2 ^ snd vw + fst vw) args acc
  = acc * 2 ^ sumw args + concat_val args.
Proof.
  induction args as [|a rest IH]; intros acc H.
  - cbn. lia.
  - inversion H as [|? ? Ha Hrest]; subst. cbn [fold_left concat_val sumw fold_right].
    change (fold_right (fun a acc => wd a + acc) 0 rest) with (sumw rest).
    rewrite IH by assumption. destruct Ha as [Hw _].
    rewrite pow2_add by (try lia; apply sumw_nonneg; assumption).
    unfold val, wd. ring.
Qed.

Lemma prim_concat args : Forall wf args ->
  prim OpConcat args (sumw args) = (concat_val args, sumw args).
Proof.
  intros H. unfold prim, op_spec, concat_spec. rewrite concat_spec_gen by assumption.
  rewrite Z.mul_0_l, Z.add_0_l. rewrite Z.mod_small by (apply concat_val_range; assumption).
  reflexivity.
Qed.

(* concat: first argument most significant, width = sum of widths *)
Lemma concat_first_msb args : Forall wf args -> args <> [] ->
  concat args = (concat_val args, sumw args).
Proof.
  intros H Hne. destruct args as [|a [|b rest]]; [congruence| |].
  - inversion H as [|? ? [Hw Hr] _]; subst. unfold concat. cbn [concat_val sumw fold_right].
    rewrite Z.pow_0_r. destruct a as [v w]. cbn [val wd fst snd]. f_equal; lia.
  - unfold concat. apply prim_concat. assumption.
Qed.

Lemma concat2 a b : wf a -> wf b -> concat [a; b] = (val a * 2 ^ wd b + val b, wd a + wd b).
Proof.
  intros Ha Hb.
  rewrite concat_first_msb;
    [|constructor; [assumption|constructor; [assumption|constructor]]|discriminate].
  cbn [concat_val sumw fold_right]. rewrite Z.pow_0_r, Z.add_0_r. f_equal; lia.
Qed.

Lemma concat_wf args : Forall wf args -> args <> [] -> wf (concat args).
Proof.
  intros H Hne. rewrite concat_first_msb by assumption. apply wf_pair. split.
  - destruct args as [|a rest]; [congruence|]. inversion H as [|? ? [Hw _] Hrest]; subst.
    cbn [sumw fold_right]. change (fold_right (fun a acc => wd a + acc) 0 rest) with (sumw rest).
    pose proof (sumw_nonneg rest Hrest). lia.
  - apply concat_val_range. assumption.
Qed.

(* ------------------------------------------------------------ extension *)
Lemma zero_ext_spec a n : wf a -> zero_ext a n = (val a, Z.max (wd a) n).
Proof.
  intros [Hw [H0 H1]]. unfold zero_ext, extend_with_bit.
  destruct (n - wd a <=? 0) eqn:E.
  - rewrite Z.max_l by lia. destruct a; reflexivity.
  - unfold concat. rewrite prim_concat2, prim_select. cbn [val wd fst snd sumw fold_right].
    rewrite select_spec_zero. rewrite Z.mod_0_l by (pose proof (pow2_pos (n - wd a)); lia).
    rewrite Z.mul_0_l, Z.add_0_l. rewrite Z.max_r by lia.
    replace (n - wd a + (wd a + 0)) with n by lia.
    f_equal. apply Z.mod_small. split; [lia|].
    eapply Z.lt_le_trans; [exact H1|apply pow2_le; lia].
Qed.

(* sign extension: the new high bits are copies of the sign bit *)
Lemma sign_ext_val a n : wf a -> wd a <= n ->
  sign_ext a n = (val a + (if 2 ^ (wd a - 1) <=? val a then 2 ^ n - 2 ^ wd a else 0), n).
Proof.
  intros Ha Hn. pose proof Ha as [Hw [H0 H1]]. unfold sign_ext, extend_with_bit.
  destruct (n - wd a <=? 0) eqn:E.
  - replace n with (wd a) by lia. rewrite Z.sub_diag.
    destruct (2 ^ (wd a - 1) <=? val a); rewrite Z.add_0_r; destruct a; reflexivity.
  - rewrite msb_value by assumption.
    unfold concat. rewrite prim_concat2, prim_select. cbn [val wd fst snd sumw fold_right].
    rewrite select_spec_repeat0. rewrite Z2Nat.id by lia.
    replace (n - wd a + (wd a + 0)) with n by lia.
    pose proof (pow2_pos (n - wd a) ltac:(lia)) as Hp.
    assert (Hs : 2 ^ n = 2 ^ (n - wd a) * 2 ^ wd a).
    { rewrite <- pow2_add by lia. f_equal. lia. }
    destruct (2 ^ (wd a - 1) <=? val a) eqn:Em; cbn [b2z].
    + change (Z.testbit 1 0) with true. cbv iota.
      rewrite (Z.mod_small (2 ^ (n - wd a) - 1)) by lia.
      f_equal. rewrite Z.mod_small by nia. nia.
    + change (Z.testbit 0 0) with false. cbv iota.
      rewrite Z.mod_0_l by lia. rewrite Z.mul_0_l, Z.add_0_l, Z.add_0_r.
      f_equal. apply Z.mod_small. split; [lia|]. nia.
Qed.

Lemma to_signed_range v w : 1 <= w -> inrange v w -> - 2 ^ (w - 1) <= to_signed v w < 2 ^ (w - 1).
Proof.
  intros Hw [H0 H1]. unfold to_signed.
  assert (HP : 2 ^ w = 2 * 2 ^ (w - 1)).
  { replace w with (Z.succ (w - 1)) at 1 by lia. apply Z.pow_succ_r. lia. }
  destruct (v <? 2 ^ (w - 1)) eqn:E; lia.
Qed.

Lemma to_signed_mod v w : 1 <= w -> inrange v w -> to_signed v w mod 2 ^ w = v.
Proof.
  intros Hw [H0 H1]. unfold to_signed. pose proof (pow2_pos w ltac:(lia)).
  destruct (v <? 2 ^ (w - 1)) eqn:E.
  - apply Z.mod_small; lia.
  - replace (v - 2 ^ w) with (v + (-1) * 2 ^ w) by lia. rewrite Z.mod_add by lia.
    apply Z.mod_small; lia.
Qed.

(* the two's complement value of x mod 2^w when x is representable *)
Lemma to_signed_of_mod x w : 1 <= w -> - 2 ^ (w - 1) <= x < 2 ^ (w - 1) ->
  to_signed (x mod 2 ^ w) w = x.
Proof.
  intros Hw Hx. unfold to_signed.
  assert (HP : 2 ^ w = 2 * 2 ^ (w - 1)).
  { replace w with (Z.succ (w - 1)) at 1 by lia. apply Z.pow_succ_r. lia. }
  pose proof (pow2_pos (w - 1) ltac:(lia)).
  destruct (Z.lt_ge_cases x 0).
  - replace (x mod 2 ^ w) with (x + 2 ^ w).
    + destruct (x + 2 ^ w <? 2 ^ (w - 1)) eqn:E; lia.
    + symmetry. replace x with ((x + 2 ^ w) + (-1) * 2 ^ w) at 1 by lia.
      rewrite Z.mod_add by lia. apply Z.mod_small; lia.
  - rewrite Z.mod_small by lia. destruct (x <? 2 ^ (w - 1)) eqn:E; lia.
Qed.

Lemma sign_ext_spec a n : wf a -> wd a <= n ->
  sign_ext a n = (sval a mod 2 ^ n, n) /\ wf (sign_ext a n) /\ sval (sign_ext a n) = sval a.
Proof.
  intros Ha Hn. pose proof Ha as [Hw [H0 H1]].
  rewrite sign_ext_val by assumption.
  assert (HP : 2 ^ wd a = 2 * 2 ^ (wd a - 1)).
  { replace (wd a) with (Z.succ (wd a - 1)) at 1 by lia. apply Z.pow_succ_r. lia. }
  assert (HPn : 2 ^ n = 2 * 2 ^ (n - 1)).
  { replace n with (Z.succ (n - 1)) at 1 by lia. apply Z.pow_succ_r. lia. }
  pose proof (pow2_le (wd a) n ltac:(lia)) as Hle.
  pose proof (pow2_le (wd a - 1) (n - 1) ltac:(lia)) as Hle1.
  pose proof (pow2_pos (wd a - 1) ltac:(lia)) as Hp.
  assert (Hv : val a + (if 2 ^ (wd a - 1) <=? val a then 2 ^ n - 2 ^ wd a else 0)
               = sval a mod 2 ^ n).
  { unfold sval, to_signed.
    destruct (2 ^ (wd a - 1) <=? val a) eqn:E; destruct (val a <? 2 ^ (wd a - 1)) eqn:E2; try lia.
    - replace (val a - 2 ^ wd a) with ((val a + (2 ^ n - 2 ^ wd a)) + (-1) * 2 ^ n) by lia.
      rewrite Z.mod_add by lia. symmetry. apply Z.mod_small. lia.
    - rewrite Z.add_0_r. symmetry. apply Z.mod_small. lia. }
  rewrite Hv. split; [reflexivity|].
  assert (Hsr : - 2 ^ (wd a - 1) <= sval a < 2 ^ (wd a - 1)) by (unfold sval; apply to_signed_range; [assumption|split; assumption]).
  split.
  - apply wf_pair. split; [lia|]. apply Z.mod_pos_bound. lia.
  - unfold sval at 1. cbn [val wd fst snd]. apply to_signed_of_mod; lia.
Qed.

Lemma zero_ext_wf a n : wf a -> wf (zero_ext a n).
Proof.
  intros Ha. rewrite zero_ext_spec by assumption. destruct Ha as [Hw [H0 H1]].
  apply wf_pair. split; [lia|]. split; [lia|].
  eapply Z.lt_le_trans; [exact H1|apply pow2_le; lia].
Qed.

Lemma zero_extended_spec a n : wf a ->
  zero_extended a n = if n <? wd a then None else Some (val a, n).
Proof.
  intros Ha. unfold zero_extended. destruct (n <? wd a) eqn:E; [reflexivity|].
  rewrite zero_ext_spec by assumption. rewrite Z.max_r by lia. reflexivity.
Qed.

Lemma sign_extended_spec a n : wf a ->
  sign_extended a n = if n <? wd a then None else Some (sval a mod 2 ^ n, n).
Proof.
  intros Ha. unfold sign_extended. destruct (n <? wd a) eqn:E; [reflexivity|].
  destruct (sign_ext_spec a n Ha ltac:(lia)) as [H _]. rewrite H. reflexivity.
Qed.

Lemma truncate_spec a n : wf a -> 1 <= n ->
  truncate a n = if wd a <? n then None else Some (val a mod 2 ^ n, n).
Proof.
  intros Ha Hn. unfold truncate. destruct (wd a <? n) eqn:E; [reflexivity|].
  apply getitem_to; [assumption|lia].
Qed.

(* ------------------------------------------------------------ <<= *)
Lemma ilshift_wire a dw : wf a -> 1 <= dw ->
  ilshift (Some dw) (OWire a) = Some (val a mod 2 ^ dw, dw).
Proof.
  intros Ha Hd. pose proof Ha as [Hw [H0 H1]]. unfold ilshift, as_wires, as_wires_wire.
  destruct (dw =? 0) eqn:E0; [lia|].
  destruct (wd a <? dw) eqn:E1.
  - rewrite zero_ext_spec by assumption. rewrite prim_w. cbn [val fst]. reflexivity.
  - destruct (dw <? wd a) eqn:E2.
    + rewrite getitem_to by (try assumption; lia). rewrite prim_w. cbn [val fst].
      rewrite Z.mod_mod by (pose proof (pow2_pos dw); lia). reflexivity.
    + rewrite prim_w. reflexivity.
Qed.

(* zero-extension when the destination is at least as wide, truncation otherwise *)
Lemma ilshift_zero_ext_or_trunc a dw : wf a -> 1 <= dw ->
  exists r, ilshift (Some dw) (OWire a) = Some r /\ wd r = dw /\
    (wd a <= dw -> val r = val a) /\ (dw < wd a -> val r = val a mod 2 ^ dw).
Proof.
  intros Ha Hd. eexists. split; [apply ilshift_wire; assumption|]. cbn [val wd fst snd].
  split; [reflexivity|]. split; [|reflexivity].
  intros Hle. apply Z.mod_small. destruct Ha as [Hw [H0 H1]]. split; [lia|].
  eapply Z.lt_le_trans; [exact H1|apply pow2_le; lia].
Qed.

Lemma ilshift_nowidth a : wf a -> ilshift None (OWire a) = Some a.
Proof.
  intros [Hw Hr]. unfold ilshift, as_wires, as_wires_wire. rewrite prim_w.
  rewrite Z.mod_small by exact Hr. destruct a; reflexivity.
Qed.

(* ------------------------------------------------------------ two-operand operators *)
Lemma two_var_op_unfold o a b : wf a -> wf b ->
  two_var_op o a b =
  prim o [(val a, Z.max (wd a) (wd b)); (val b, Z.max (wd a) (wd b))]
       (result_len o (Z.max (wd a) (wd b))).
Proof.
  intros Ha Hb. unfold two_var_op, match_bitwidth.
  rewrite !zero_ext_spec by assumption. cbn [wd snd].
  replace (Z.max (wd a) (Z.max (wd a) (wd b))) with (Z.max (wd a) (wd b)) by lia.
  replace (Z.max (wd b) (Z.max (wd a) (wd b))) with (Z.max (wd a) (wd b)) by lia.
  reflexivity.
Qed.

Section TwoVar.
Variables a b : sv.
Hypothesis Ha : wf a.
Hypothesis Hb : wf b.
Let m := Z.max (wd a) (wd b).

Lemma val_a_lt : 0 <= val a < 2 ^ m.
Proof.
  destruct Ha as [Hw [H0 H1]]. split; [lia|].
  eapply Z.lt_le_trans; [exact H1|apply pow2_le; subst m; lia].
Qed.

Lemma val_b_lt : 0 <= val b < 2 ^ m.
Proof.
  destruct Hb as [Hw [H0 H1]]. split; [lia|].
  eapply Z.lt_le_trans; [exact H1|apply pow2_le; subst m; lia].
Qed.

Lemma m_pos : 1 <= m.
Proof. destruct Ha. subst m. lia. Qed.

Lemma add_exact : op_add a b = (val a + val b, m + 1).
Proof.
  unfold op_add. rewrite two_var_op_unfold by assumption. fold m. cbn.
  pose proof val_a_lt. pose proof val_b_lt. pose proof m_pos.
  f_equal. apply Z.mod_small. rewrite Z.pow_add_r, Z.pow_1_r by lia. lia.
Qed.

Lemma sub_wrap : op_sub a b = ((val a - val b) mod 2 ^ (m + 1), m + 1).
Proof. unfold op_sub. rewrite two_var_op_unfold by assumption. reflexivity. Qed.

Lemma mul_exact : op_mul a b = (val a * val b, m * 2).
Proof.
  unfold op_mul. rewrite two_var_op_unfold by assumption. fold m. cbn.
  pose proof val_a_lt. pose proof val_b_lt. pose proof m_pos.
  f_equal. apply Z.mod_small. replace (m * 2) with (m + m) by lia.
  rewrite Z.pow_add_r by lia. nia.
Qed.

Lemma b2z_mod2 c : b2z c mod 2 ^ 1 = b2z c.
Proof. destruct c; reflexivity. Qed.

Lemma lt_spec : op_lt a b = (b2z (val a <? val b), 1).
Proof. unfold op_lt. rewrite two_var_op_unfold by assumption. cbn. rewrite b2z_mod2. reflexivity. Qed.

Lemma gt_spec : op_gt a b = (b2z (val a >? val b), 1).
Proof. unfold op_gt. rewrite two_var_op_unfold by assumption. cbn. rewrite b2z_mod2. reflexivity. Qed.

Lemma eq_spec : op_eq a b = (b2z (val a =? val b), 1).
Proof. unfold op_eq. rewrite two_var_op_unfold by assumption. cbn. rewrite b2z_mod2. reflexivity. Qed.

Lemma invert_bit c : op_invert (b2z c, 1) = (b2z (negb c), 1).
Proof. destruct c; reflexivity. Qed.

Lemma le_spec : op_le a b = (b2z (val a <=? val b), 1).
Proof.
  unfold op_le. fold (op_gt a b). rewrite gt_spec, invert_bit. f_equal. f_equal. lia.
Qed.

Lemma ge_spec : op_ge a b = (b2z (val a >=? val b), 1).
Proof.
  unfold op_ge. fold (op_lt a b). rewrite lt_spec, invert_bit. f_equal. f_equal. lia.
Qed.

Lemma ne_spec : op_ne a b = (b2z (negb (val a =? val b)), 1).
Proof. unfold op_ne. fold (op_eq a b). rewrite eq_spec, invert_bit. reflexivity. Qed.

Lemma and_spec : op_and a b = (Z.land (val a) (val b), m).
Proof.
  unfold op_and. rewrite two_var_op_unfold by assumption. fold m. cbn.
  f_equal. apply mod_small_range. apply land_range; [pose proof m_pos; lia|apply val_a_lt|apply val_b_lt].
Qed.

Lemma or_spec : op_or a b = (Z.lor (val a) (val b), m).
Proof.
  unfold op_or. rewrite two_var_op_unfold by assumption. fold m. cbn.
  f_equal. apply mod_small_range. apply lor_range; [pose proof m_pos; lia|apply val_a_lt|apply val_b_lt].
Qed.

Lemma xor_spec : op_xor a b = (Z.lxor (val a) (val b), m).
Proof.
  unfold op_xor. rewrite two_var_op_unfold by assumption. fold m. cbn.
  f_equal. apply mod_small_range. apply lxor_range; [pose proof m_pos; lia|apply val_a_lt|apply val_b_lt].
Qed.

Lemma nand_spec : op_nand a b = (2 ^ m - 1 - Z.land (val a) (val b), m).
Proof.
  unfold op_nand. rewrite two_var_op_unfold by assumption. fold m. cbn.
  rewrite Z.max_id.
  pose proof (land_range (val a) (val b) m ltac:(pose proof m_pos; lia) val_a_lt val_b_lt) as [H0 H1].
  f_equal. apply Z.mod_small. lia.
Qed.

(* corecircuits.select: falsecase when sel = 0 else truecase, at the wider width *)
Lemma select_mux s : select s a b = (if val s =? 0 then val b else val a, m).
Proof.
  unfold select, match_bitwidth. rewrite !zero_ext_spec by assumption.
  rewrite prim_mux. cbn [val wd fst snd].
  replace (Z.max (wd b) (Z.max (wd b) (wd a))) with m by (subst m; lia).
  f_equal. apply Z.mod_small. destruct (val s =? 0); [apply val_b_lt|apply val_a_lt].
Qed.

End TwoVar.

Lemma invert_spec a : wf a -> op_invert a = (2 ^ wd a - 1 - val a, wd a).
Proof.
  intros [Hw [H0 H1]]. unfold op_invert. rewrite prim_not. f_equal. apply Z.mod_small. lia.
Qed.

(* results are again well-formed wires (closure, used when operators are composed) *)
Lemma wf_bit c : wf (b2z c, 1).
Proof. apply wf_pair. destruct c; cbn; lia. Qed.

(* the documented width of `*` (sum of the operand widths) is NOT what the code builds *)
Lemma mul_width_refuted : exists a b, wf a /\ wf b /\ wd (op_mul a b) <> wd a + wd b.
Proof.
  exists (7, 3), (31, 5). split; [apply wf_pair; cbn; lia|]. split; [apply wf_pair; cbn; lia|].
  vm_compute. discriminate.
Qed.

Lemma mul_width_partial a b : wf a -> wf b ->
  (wd a = wd b -> wd (op_mul a b) = wd a + wd b) /\ wd a + wd b <= wd (op_mul a b).
Proof.
  intros Ha Hb. rewrite mul_exact by assumption. cbn [wd snd]. lia.
Qed.

Lemma comparisons a b : wf a -> wf b ->
  op_lt a b = (b2z (val a <? val b), 1) /\ op_le a b = (b2z (val a <=? val b), 1) /\
  op_gt a b = (b2z (val a >? val b), 1) /\ op_ge a b = (b2z (val a >=? val b), 1) /\
  op_eq a b = (b2z (val a =? val b), 1) /\ op_ne a b = (b2z (negb (val a =? val b)), 1).
Proof.
  intros Ha Hb.
  split; [apply lt_spec; assumption|]. split; [apply le_spec; assumption|].
  split; [apply gt_spec; assumption|]. split; [apply ge_spec; assumption|].
  split; [apply eq_spec; assumption|apply ne_spec; assumption].
Qed.

Lemma bitwise a b : wf a -> wf b ->
  let m := Z.max (wd a) (wd b) in
  op_and a b = (Z.land (val a) (val b), m) /\ op_or a b = (Z.lor (val a) (val b), m) /\
  op_xor a b = (Z.lxor (val a) (val b), m) /\ op_nand a b = (2 ^ m - 1 - Z.land (val a) (val b), m).
Proof.
  intros Ha Hb m.
  split; [apply and_spec; assumption|]. split; [apply or_spec; assumption|].
  split; [apply xor_spec; assumption|apply nand_spec; assumption].
Qed.

Lemma mul_width_statement_refuted :
  ~ (forall a b, wf a -> wf b -> wd (op_mul a b) = wd a + wd b).
Proof.
  intros H. destruct mul_width_refuted as [a [b [Ha [Hb Hne]]]]. apply Hne. apply H; assumption.
Qed.

(* concat_list: element 0 least significant *)
Lemma concat_list_spec args : Forall wf args -> args <> [] ->
  concat_list args = (concat_val (rev args), sumw (rev args)).
Proof.
  intros H Hne. unfold concat_list. apply concat_first_msb.
  - apply Forall_rev. assumption.
  - intro E. apply Hne. apply (f_equal (@rev sv)) in E. rewrite rev_involutive in E. exact E.
Qed.

(* ------------------------------------------------------------ getitem, stated against the
   declarative definition of Python slicing *)
Lemma getitem_of_indices a it idx : getitem_indices (wd a) it = Some idx ->
  exists r, getitem a it = Some r /\ wd r = Z.of_nat (length idx) /\ inrange (val r) (wd r) /\
    forall j, 0 <= j < wd r -> Z.testbit (val r) j = Z.testbit (val a) (nth (Z.to_nat j) idx 0).
Proof.
  intros H. destruct (getitem a it) as [r|] eqn:E.
  - destruct (getitem_spec a it r E) as [idx' [H1 H2]]. rewrite H in H1. inversion H1; subst idx'.
    exists r. split; [reflexivity|exact H2].
  - unfold getitem in E. rewrite H in E. discriminate.
Qed.

Lemma getitem_slice_python a s e st idx : 0 <= wd a -> is_slice_of (wd a) s e st idx ->
  (idx = [] -> getitem a (ISlice s e st) = None) /\
  (idx <> [] -> exists r, getitem a (ISlice s e st) = Some r /\
      wd r = Z.of_nat (length idx) /\ inrange (val r) (wd r) /\
      forall j, 0 <= j < wd r -> Z.testbit (val r) j = Z.testbit (val a) (nth (Z.to_nat j) idx 0)).
Proof.
  intros Hw H. apply slice_indices_complete in H; [|assumption]. split.
  - intros ->. unfold getitem, getitem_indices. rewrite H. reflexivity.
  - intros Hne. apply getitem_of_indices. apply getitem_indices_slice; assumption.
Qed.

(* w[i] for a Python int i: bit i, or bit len(w)+i for negative i; IndexError outside *)
Lemma getitem_int_spec a i : wf a ->
  getitem a (IInt i) =
  if (- wd a <=? i) && (i <? wd a)
  then Some (b2z (Z.testbit (val a) (if i <? 0 then i + wd a else i)), 1)
  else None.
Proof.
  intros Ha. pose proof Ha as [Hw Hr].
  destruct ((- wd a <=? i) && (i <? wd a)) eqn:E.
  - destruct (i <? 0) eqn:E0.
    + unfold getitem, getitem_indices. rewrite index_int_neg by lia.
      rewrite prim_select. cbn [length Z.of_nat]. f_equal. f_equal.
      rewrite select_spec_cons. change (select_spec (val a) []) with 0.
      rewrite <- b2z_Zb2z. change (2 ^ Z.pos 1) with 2.
      pose proof (b2z_range (Z.testbit (val a) (i + wd a))). rewrite Z.mod_small; lia.
    + pose proof (getitem_bit a i Ha ltac:(lia)) as H. unfold getitem_d in H.
      destruct (getitem a (IInt i)) as [r|] eqn:E2.
      * rewrite H. reflexivity.
      * unfold getitem, getitem_indices in E2. rewrite index_int_nonneg in E2 by lia. discriminate.
  - unfold getitem, getitem_indices. rewrite index_int_none by lia. reflexivity.
Qed.

(* w[::-1] reverses the bits *)
Lemma getitem_reverse a : wf a ->
  exists r, getitem a (ISlice None None (Some (-1))) = Some r /\ wd r = wd a /\
    inrange (val r) (wd a) /\
    forall j, 0 <= j < wd a -> Z.testbit (val r) j = Z.testbit (val a) (wd a - 1 - j).
Proof.
  intros [Hw Hr].
  assert (Hidx : getitem_indices (wd a) (ISlice None None (Some (-1)))
                 = Some (range_list (wd a - 1) (-1) (wd a))).
  { apply getitem_indices_slice; [apply slice_reverse_indices; lia|apply range_list_nonempty; lia]. }
  destruct (getitem_of_indices a _ _ Hidx) as [r [H1 [H2 [H3 H4]]]].
  rewrite length_range_list, Z2Nat.id in H2 by lia.
  exists r. split; [exact H1|]. split; [exact H2|]. rewrite H2 in H3, H4. split; [exact H3|].
  intros j Hj. rewrite H4 by exact Hj. rewrite nth_range_list by lia.
  rewrite Z2Nat.id by lia. f_equal. lia.
Qed.
