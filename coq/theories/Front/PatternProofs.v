(* C14 -- match_bitpattern: matched is 1 exactly when every 0/1 position agrees;
   the fields are the bits under each letter, letters by first occurrence. *)
From Coq Require Import ZArith List Bool Lia Ascii String.
From PyRTL Require Import Base.PyZ Front.SliceC14 Front.SliceC14Proofs Front.Pattern.
Import ListNotations.
Open Scope nat_scope.

Lemma in_pick c lsb w b :
  In b (pick c lsb w) <-> exists i, i < length lsb /\ nth i lsb "?"%char = c /\ nth i w false = b.
Proof.
  unfold pick. rewrite in_map_iff. split.
  - intros (i & Hb & Hi). apply filter_In in Hi. destruct Hi as [Hi He]. apply in_seq in Hi.
    apply Ascii.eqb_eq in He. exists i. repeat split; [lia|exact He|exact Hb].
  - intros (i & Hi & He & Hb). exists i. split; [exact Hb|]. apply filter_In. split.
    + apply in_seq. lia.
    + apply Ascii.eqb_eq. exact He.
Qed.

(* matched = 1  <->  every position holding '1' carries 1 and every position holding '0' carries 0
   (positions counted from the lsb = from the right end of the stripped pattern) *)
Theorem match_bits_matched : forall w ns m fs,
  match_bits w ns = Some (m, fs) ->
  length w = length ns /\
  (m = true <->
   forall i, i < length w ->
     (nth i (rev ns) "?"%char = "1"%char -> nth i w false = true) /\
     (nth i (rev ns) "?"%char = "0"%char -> nth i w false = false)).
Proof.
  intros w ns m fs H. unfold match_bits in H.
  destruct (Nat.eqb (length w) (length ns)) eqn:El; cbn [negb] in H; [|discriminate].
  apply Nat.eqb_eq in El. injection H as Hm _. split; [exact El|].
  assert (Hlr : length (rev ns) = length w) by (rewrite rev_length; lia).
  rewrite <- Hm. rewrite andb_true_iff, negb_true_iff. rewrite forallb_forall.
  split.
  - intros [H1 H0] i Hi. split; intros Hc.
    + apply H1. apply in_pick. exists i. repeat split; [lia|exact Hc].
    + destruct (nth i w false) eqn:Eb; [|reflexivity]. exfalso.
      assert (Hex : existsb (fun b : bool => b) (pick "0"%char (rev ns) w) = true).
      { apply existsb_exists. exists true. split; [|reflexivity]. apply in_pick. exists i. repeat split; [lia|exact Hc|exact Eb]. }
      congruence.
  - intros Hall. split.
    + intros b Hb. apply in_pick in Hb. destruct Hb as (i & Hi & Hc & Hb). rewrite <- Hb.
      apply (Hall i); [lia|exact Hc].
    + destruct (existsb (fun b : bool => b) (pick "0"%char (rev ns) w)) eqn:Ex; [|reflexivity].
      apply existsb_exists in Ex. destruct Ex as (b & Hb & Hbt). apply in_pick in Hb.
      destruct Hb as (i & Hi & Hc & Hb). rewrite <- Hb in Hbt.
      rewrite (proj2 (Hall i ltac:(lia)) Hc) in Hbt. discriminate.
Qed.

(* ---- fields ---- *)
Lemma filter_map_S (f : nat -> bool) l :
  filter f (map S l) = map S (filter (fun i => f (S i)) l).
Proof.
  induction l as [|x l IH]; [reflexivity|]. cbn [map filter]. destruct (f (S x)); cbn [map]; rewrite IH; reflexivity.
Qed.

(* the index formulation of the code equals "walk pattern and wire side by side" *)
Lemma pick_combine c : forall lsb w, length lsb = length w ->
  pick c lsb w = map snd (filter (fun p => Ascii.eqb (fst p) c) (combine lsb w)).
Proof.
  induction lsb as [|x l IH]; intros w Hl.
  - reflexivity.
  - destruct w as [|b w]; [discriminate|]. cbn [length] in Hl.
    unfold pick. cbn [length seq]. rewrite <- seq_shift. cbn [filter nth combine fst].
    rewrite filter_map_S. cbn [nth].
    specialize (IH w ltac:(lia)). unfold pick in IH.
    destruct (Ascii.eqb x c); cbn [map snd nth]; rewrite map_map; cbn [nth]; rewrite IH; reflexivity.
Qed.

Lemma combine_app' {A B} (a1 a2 : list A) (b1 b2 : list B) : length a1 = length b1 ->
  combine (a1 ++ a2) (b1 ++ b2) = combine a1 b1 ++ combine a2 b2.
Proof.
  revert b1. induction a1 as [|x a1 IH]; intros [|y b1] H; cbn [length] in H; try lia; [reflexivity|].
  cbn [app combine]. f_equal. apply IH. lia.
Qed.

Lemma rev_combine {A B} (a : list A) (b : list B) : length a = length b ->
  rev (combine a b) = combine (rev a) (rev b).
Proof.
  revert b. induction a as [|x a IH]; intros [|y b] H; cbn [length] in H; try lia; [reflexivity|].
  cbn [combine rev]. rewrite combine_app' by (rewrite !rev_length; lia). rewrite IH by lia. reflexivity.
Qed.

Lemma filter_rev {A} (f : A -> bool) l : filter f (rev l) = rev (filter f l).
Proof.
  induction l as [|x l IH]; [reflexivity|]. cbn [rev filter]. rewrite filter_app, IH. cbn [filter].
  destruct (f x); cbn [rev]; [reflexivity|apply app_nil_r].
Qed.

(* read msb first (left to right, like the pattern string), the field named c is
   the sequence of wire bits standing under the letter c *)
Lemma pick_msb_first c ns w : length w = length ns ->
  rev (pick c (rev ns) w) =
  map snd (filter (fun p => Ascii.eqb (fst p) c) (combine ns (rev w))).
Proof.
  intros Hl. rewrite pick_combine by (rewrite rev_length; lia).
  rewrite <- map_rev, <- filter_rev. rewrite rev_combine by (rewrite rev_length; lia).
  rewrite rev_involutive. reflexivity.
Qed.

Lemma dedup_In l x : In x (dedup l) <-> In x l.
Proof.
  induction l as [|c r IH]; [reflexivity|]. cbn [dedup In]. rewrite filter_In, IH.
  destruct (Ascii.eqb x c) eqn:E.
  - apply Ascii.eqb_eq in E. subst. tauto.
  - cbn [negb]. tauto.
Qed.

Lemma dedup_NoDup l : NoDup (dedup l).
Proof.
  induction l as [|c r IH]; [constructor|]. cbn [dedup]. constructor.
  - rewrite filter_In. intros [_ H]. rewrite Ascii.eqb_refl in H. discriminate.
  - apply NoDup_filter. exact IH.
Qed.

Theorem match_bits_fields : forall w ns m fs,
  match_bits w ns = Some (m, fs) ->
  map fst fs = dedup (filter is_field ns) /\
  NoDup (map fst fs) /\
  (forall c, In c (map fst fs) <-> In c ns /\ is_field c = true) /\
  (forall c bs, In (c, bs) fs ->
     rev bs = map snd (filter (fun p => Ascii.eqb (fst p) c) (combine ns (rev w)))).
Proof.
  intros w ns m fs H. unfold match_bits in H.
  destruct (Nat.eqb (length w) (length ns)) eqn:El; cbn [negb] in H; [|discriminate].
  apply Nat.eqb_eq in El. injection H as _ Hf. subst fs.
  rewrite map_map. cbn [fst]. rewrite map_id.
  split; [reflexivity|]. split; [apply dedup_NoDup|]. split.
  - intros c. rewrite dedup_In, filter_In. reflexivity.
  - intros c bs Hin. apply in_map_iff in Hin. destruct Hin as (c' & E & _). injection E as <- <-.
    apply pick_msb_first. exact El.
Qed.

(* the string-level entry point only strips '_' and whitespace first *)
Theorem match_bitpattern_unfold : forall w pat,
  match_bitpattern w pat = match_bits w (strip (list_ascii_of_string pat)).
Proof. reflexivity. Qed.

Lemma strip_spec p c : In c (strip p) <-> In c p /\ c <> "_"%char /\ is_ws c = false.
Proof.
  unfold strip. rewrite filter_In. rewrite negb_true_iff, orb_false_iff.
  split; intros [H1 [H2 H3]]; (split; [exact H1|split]); try exact H3.
  - intro E. subst. rewrite Ascii.eqb_refl in H2. discriminate.
  - apply Ascii.eqb_neq. exact H2.
Qed.

(* match_bitpattern raises exactly when the stripped pattern and the wire differ in length *)
Theorem match_bits_ok : forall w ns, match_bits w ns <> None <-> length w = length ns.
Proof.
  intros w ns. unfold match_bits. destruct (Nat.eqb (length w) (length ns)) eqn:E; cbn [negb].
  - apply Nat.eqb_eq in E. split; [intros _; exact E|discriminate].
  - apply Nat.eqb_neq in E. split; [congruence|intros H; contradiction].
Qed.

(* ---------- field_map ---------- *)
From Coq Require Import Permutation.

Lemma fm_lookup_In fm c nm : NoDup (map fst fm) -> (fm_lookup fm c = Some nm <-> In (c, nm) fm).
Proof.
  induction fm as [|[k n0] r IH]; cbn [fm_lookup map fst In]; intros Hnd.
  - split; [discriminate|tauto].
  - inversion Hnd as [|? ? Hni Hnd']; subst. destruct (Ascii.eqb k c) eqn:E.
    + apply Ascii.eqb_eq in E. subst k. split.
      * intros [= <-]. left. reflexivity.
      * intros [[= <-]|Hin]; [reflexivity|]. exfalso. apply Hni. apply (in_map fst) in Hin. exact Hin.
    + apply Ascii.eqb_neq in E. rewrite (IH Hnd'). split; [tauto|]. intros [[= -> _]|Hin]; [congruence|exact Hin].
Qed.

Lemma fm_lookup_None fm c : fm_lookup fm c = None <-> ~ In c (map fst fm).
Proof.
  induction fm as [|[k n0] r IH]; cbn [fm_lookup map fst In]; [tauto|].
  destruct (Ascii.eqb k c) eqn:E.
  - apply Ascii.eqb_eq in E. split; [discriminate|]. intros H. exfalso. apply H. left. exact E.
  - apply Ascii.eqb_neq in E. rewrite IH. tauto.
Qed.

Lemma fm_lookup_perm fm fm' c : NoDup (map fst fm) -> Permutation fm fm' -> fm_lookup fm c = fm_lookup fm' c.
Proof.
  intros Hnd Hp.
  assert (Hnd' : NoDup (map fst fm')) by (apply (Permutation_NoDup (Permutation_map fst Hp) Hnd)).
  destruct (fm_lookup fm c) as [nm|] eqn:E.
  - symmetry. apply (fm_lookup_In fm' c nm Hnd'). apply (Permutation_in _ Hp). apply (fm_lookup_In fm c nm Hnd). exact E.
  - symmetry. apply fm_lookup_None. intro Hin. apply (proj1 (fm_lookup_None fm c) E).
    apply (Permutation_in _ (Permutation_sym (Permutation_map fst Hp))). exact Hin.
Qed.

(* the order in which the map's keys are written plays no role *)
Theorem match_bits_fm_perm : forall w ns fm fm',
  NoDup (map fst fm) -> Permutation fm fm' -> match_bits_fm w ns fm = match_bits_fm w ns fm'.
Proof.
  intros w ns fm fm' Hnd Hp. unfold match_bits_fm. destruct (match_bits w ns) as [[m fs]|]; [|reflexivity].
  assert (E : map (fun cf : ascii * bits => match fm_lookup fm (fst cf) with Some nm => Some (nm, snd cf) | None => None end) fs =
              map (fun cf : ascii * bits => match fm_lookup fm' (fst cf) with Some nm => Some (nm, snd cf) | None => None end) fs).
  { apply map_ext. intros cf. rewrite (fm_lookup_perm fm fm' (fst cf) Hnd Hp). reflexivity. }
  rewrite E. reflexivity.
Qed.

Lemma all_some_inv {A} (l : list (option A)) r : all_some l = Some r -> l = map Some r.
Proof.
  revert r. induction l as [|[x|] l IH]; intros r H; cbn [all_some] in H.
  - injection H as <-. reflexivity.
  - destruct (all_some l) as [r'|]; [|discriminate]. injection H as <-. cbn [map]. f_equal. apply IH. reflexivity.
  - discriminate.
Qed.

(* with a field_map the match bit and the fields -- positionally, in the order the letters first appear
   in the pattern -- are those of the call without a map; only the names are replaced; it raises
   exactly when a field letter is not a key of the map (or the lengths differ) *)
Theorem match_bits_fm_spec : forall w ns fm m l,
  match_bits_fm w ns fm = Some (m, l) ->
  exists fs, match_bits w ns = Some (m, fs) /\
             map snd l = map snd fs /\
             map (fun cf => fm_lookup fm (fst cf)) fs = map (fun nl => Some (fst nl)) l.
Proof.
  intros w ns fm m l H. unfold match_bits_fm in H. destruct (match_bits w ns) as [[m' fs]|]; [|discriminate].
  destruct (all_some _) as [l'|] eqn:E; [|discriminate]. injection H as <- <-.
  exists fs. split; [reflexivity|]. apply all_some_inv in E.
  clear - E. revert l' E. induction fs as [|[c b] r IH]; intros [|[nm b'] l'] E; cbn [map] in E; try discriminate.
  - split; reflexivity.
  - injection E as E0 Er. cbn [fst snd] in E0. destruct (fm_lookup fm c) as [nm0|] eqn:El; [|discriminate].
    injection E0 as <- <-. destruct (IH l' Er) as [I1 I2]. cbn [map fst snd]. rewrite El, I1, I2. split; reflexivity.
Qed.

Theorem match_bits_fm_raises : forall w ns fm,
  match_bits_fm w ns fm = None <->
  length w <> length ns \/ exists c, In c ns /\ is_field c = true /\ ~ In c (map fst fm).
Proof.
  intros w ns fm. unfold match_bits_fm.
  destruct (match_bits w ns) as [[m fs]|] eqn:Em.
  - pose proof (proj1 (match_bits_ok w ns)) as Hok. rewrite Em in Hok. specialize (Hok ltac:(discriminate)).
    destruct (match_bits_fields _ _ _ _ Em) as (_ & _ & Hnames & _).
    destruct (all_some _) as [l|] eqn:E.
    + split; [discriminate|]. intros [Hl|(c & Hc & Hf & Hn)]; [contradiction|]. exfalso.
      apply all_some_inv in E.
      assert (Hin : In c (map fst fs)) by (apply Hnames; tauto).
      apply in_map_iff in Hin. destruct Hin as ([c' b] & Ec & Hin). cbn [fst] in Ec. subst c'.
      apply (in_map (fun cf : ascii * bits => match fm_lookup fm (fst cf) with Some nm => Some (nm, snd cf) | None => None end)) in Hin.
      rewrite E in Hin. cbn [fst] in Hin. apply fm_lookup_None in Hn. rewrite Hn in Hin.
      apply in_map_iff in Hin. destruct Hin as (x & Hx & _). discriminate.
    + split; [|reflexivity]. intros _. right.
      assert (Hex : exists cf, In cf fs /\ fm_lookup fm (fst cf) = None).
      { clear - E. induction fs as [|cf r IH]; cbn [map all_some] in E; [discriminate|].
        destruct (fm_lookup fm (fst cf)) eqn:El; [|exists cf; split; [left; reflexivity|exact El]].
        destruct (all_some _) eqn:Er in E; [discriminate|]. destruct (IH Er) as (x & Hx & Hl). exists x. split; [right; exact Hx|exact Hl]. }
      destruct Hex as ([c b] & Hin & Hl). cbn [fst] in Hl. exists c.
      assert (Hc : In c (map fst fs)) by (apply in_map_iff; exists (c, b); split; [reflexivity|exact Hin]).
      apply Hnames in Hc. split; [tauto|]. split; [tauto|]. apply fm_lookup_None. exact Hl.
  - split; [|reflexivity]. intros _. left. intro Hl. apply (proj2 (match_bits_ok w ns)) in Hl. congruence.
Qed.
