(* Operand kinds: an int / bool / Verilog-string operand is turned by as_wires into
   exactly the Const it denotes, and that Const has the documented value and width
   (helperfuncs.infer_val_and_bitwidth as modelled by Ops.convert_int, convert_bool, convert_vstr). *)
From Coq Require Import ZArith List Bool Lia ZifyBool.
From PyRTL Require Import Front.Ops Front.Signed Front.PySliceProofs Front.OpsProofs.
Open Scope Z_scope.

Lemma operand_kinds_agree f (c : operand) x :
  (forall a, c <> OWire a) -> (forall o bw s, c <> OConst o bw s) -> (forall a, c <> OLazy a) ->
  lift2 f x c = lift2 f x (OConst c None false).
Proof.
  intros Hw Hc Hl. unfold lift2.
  destruct c as [a|v|b|neg bw num|o bw s|a];
    [exfalso; apply (Hw a); reflexivity| | | |exfalso; apply (Hc o bw s); reflexivity
    |exfalso; apply (Hl a); reflexivity];
    cbn [as_wires]; destruct (as_wires x None);
    try match goal with |- context [const_of ?c None false] => destruct (const_of c None false) end;
    reflexivity.
Qed.

Lemma len_bin_pos v : 0 < v -> len_bin v = Z.log2 v + 1.
Proof.
  intros H. unfold len_bin. destruct (v =? 0) eqn:E; [lia|]. rewrite Z.abs_eq by lia. reflexivity.
Qed.

Lemma const_int_unsigned v : 0 <= v ->
  exists w, convert_int v None false = Some (v, w) /\ wf (v, w) /\
            (forall w', 1 <= w' -> v < 2 ^ w' -> w <= w').
Proof.
  intros Hv. unfold convert_int. destruct (0 <=? v) eqn:E; [|lia]. cbn [andb].
  exists (len_bin v + 0). split; [reflexivity|]. rewrite Z.add_0_r.
  destruct (Z.eq_dec v 0) as [->|Hne].
  - cbn. split; [apply wf_pair; cbn; lia|]. intros; lia.
  - rewrite len_bin_pos by lia. pose proof (Z.log2_nonneg v).
    destruct (Z.log2_spec v ltac:(lia)) as [L0 L1]. split.
    + apply wf_pair. unfold Z.succ in L1. lia.
    + intros w' Hw' Hlt. apply Z.log2_lt_pow2 in Hlt; lia.
Qed.

Lemma const_int_signed v : exists r, convert_int v None true = Some r /\ wf r /\ sval r = v.
Proof.
  unfold convert_int. destruct (0 <=? v) eqn:E.
  - eexists. split; [reflexivity|]. cbn [andb].
    destruct (Z.eq_dec v 0) as [->|Hne].
    + cbn. split; [apply wf_pair; cbn; lia|reflexivity].
    + assert (Hb : (v =? 0) = false) by lia. rewrite Hb. cbn [negb].
      rewrite len_bin_pos by lia. pose proof (Z.log2_nonneg v).
      destruct (Z.log2_spec v ltac:(lia)) as [L0 L1]. unfold Z.succ in L1.
      assert (Hp : 2 ^ (Z.log2 v + 1 + 1) = 2 * 2 ^ (Z.log2 v + 1)).
      { rewrite (Z.pow_add_r 2 (Z.log2 v + 1) 1) by lia. lia. }
      split.
      * apply wf_pair. lia.
      * unfold sval, to_signed. cbn [val wd fst snd].
        replace (Z.log2 v + 1 + 1 - 1) with (Z.log2 v + 1) by lia.
        destruct (v <? 2 ^ (Z.log2 v + 1)) eqn:E2; lia.
  - cbn [negb andb].
    set (bw := if v =? -1 then 1 else len_bin (Z.lnot v) + 1).
    assert (Hbw : 1 <= bw /\ - 2 ^ (bw - 1) <= v).
    { subst bw. destruct (v =? -1) eqn:E1.
      - split; [lia|]. cbn. lia.
      - unfold Z.lnot. rewrite len_bin_pos by lia.
        pose proof (Z.log2_nonneg (Z.pred (- v))).
        destruct (Z.log2_spec (Z.pred (- v)) ltac:(lia)) as [L0 L1]. unfold Z.succ in L1.
        split; [lia|]. replace (Z.log2 (Z.pred (- v)) + 1 + 1 - 1) with (Z.log2 (Z.pred (- v)) + 1) by lia.
        lia. }
    destruct Hbw as [Hbw Hlo].
    pose proof (pow2_pos (bw - 1) ltac:(lia)) as Hp.
    assert (Hsh : Z.shiftr v (bw - 1) = -1).
    { rewrite Z.shiftr_div_pow2 by lia. symmetry.
      apply Z.div_unique with (v + 2 ^ (bw - 1)); lia. }
    rewrite Hsh. cbn [Z.eqb negb].
    eexists. split; [reflexivity|].
    assert (Hl : Z.land v (Z.shiftl 1 bw - 1) = v mod 2 ^ bw).
    { rewrite Z.shiftl_mul_pow2, Z.mul_1_l by lia.
      replace (2 ^ bw - 1) with (Z.ones bw) by (rewrite Z.ones_equiv; lia).
      apply Z.land_ones. lia. }
    rewrite Hl. split.
    + apply wf_pair. split; [lia|]. apply Z.mod_pos_bound. apply pow2_pos. lia.
    + unfold sval. cbn [val wd fst snd]. apply to_signed_of_mod; lia.
Qed.

Lemma const_bool b : as_wires (OBool b) None = Some (b2z b, 1).
Proof. reflexivity. Qed.

Lemma const_vstr bw num : 1 <= bw -> 0 <= num < 2 ^ bw ->
  as_wires (OVStr false bw num) None = Some (num, bw).
Proof.
  intros Hbw Hn. cbn [as_wires const_of]. unfold convert_vstr.
  destruct (bw <? 1) eqn:E; [lia|]. cbn [andb negb].
  rewrite Z.shiftr_div_pow2 by lia. rewrite Z.div_small by lia. reflexivity.
Qed.

(* A lazily materialised memory / ROM read used as an operand IS the read-data wire, on
   whichever side it stands: the operator is built with the operands in the written order
   (memory._MemIndexed._two_var_op = as_wires(self)._two_var_op(other, op)). *)
Lemma lazy_read_is_wire f a y :
  lift2 f (OLazy a) y = lift2 f (OWire a) y /\ lift2 f y (OLazy a) = lift2 f y (OWire a) /\
  lift2s f (OLazy a) y = lift2s f (OWire a) y /\ lift2s f y (OLazy a) = lift2s f y (OWire a).
Proof. repeat split; reflexivity. Qed.

Lemma lazy_sub a b : wf a -> wf b ->
  lift2 op_sub (OLazy a) (OWire b)
  = Some ((val a - val b) mod 2 ^ (Z.max (wd a) (wd b) + 1), Z.max (wd a) (wd b) + 1).
Proof. intros Ha Hb. unfold lift2. cbn [as_wires as_wires_wire]. rewrite sub_wrap by assumption. reflexivity. Qed.
