(* corecircuits.signed_add / signed_mult / signed_lt / le / gt / ge exactly as
   composed in pyrtl/corecircuits.py:165-247.  DEFINITIONS ONLY. *)
From PyRTL Require Export Front.Ops.

(* two's-complement reading of a w-bit value *)
Definition to_signed (v w : Z) : Z := if v <? 2 ^ (w - 1) then v else v - 2 ^ w.
Definition sval (a : sv) : Z := to_signed (val a) (wd a).

(* a, b = match_bitwidth(as_wires(a), as_wires(b), signed=True)
   result_len = len(a) + 1
   (a.sign_extended(result_len) + b.sign_extended(result_len))[0:result_len] *)
Definition signed_add (a b : sv) : sv :=
  let '(a', b') := match_bitwidth a b true in
  let rl := wd a' + 1 in
  getitem_d (op_add (sign_ext a' rl) (sign_ext b' rl)) (ISlice (Some 0) (Some rl) None).

(* final_len = len(a) + len(b); (a.sign_extended(final_len) * b.sign_extended(final_len))[0:final_len] *)
Definition signed_mult (a b : sv) : sv :=
  let fl := wd a + wd b in
  getitem_d (op_mul (sign_ext a fl) (sign_ext b fl)) (ISlice (Some 0) (Some fl) None).

(* r[-1] ^ (~a[-1]) ^ (~b[-1]) on the sign-matched operands *)
Definition sign_trick (r a b : sv) : sv :=
  op_xor (op_xor (msb r) (op_invert (msb a))) (op_invert (msb b)).

Definition signed_lt (a b : sv) : sv :=
  let '(a', b') := match_bitwidth a b true in
  sign_trick (op_sub a' b') a' b'.

Definition signed_le (a b : sv) : sv :=
  let '(a', b') := match_bitwidth a b true in
  op_or (sign_trick (op_sub a' b') a' b') (op_eq a' b').

Definition signed_gt (a b : sv) : sv :=
  let '(a', b') := match_bitwidth a b true in
  sign_trick (op_sub b' a') a' b'.

Definition signed_ge (a b : sv) : sv :=
  let '(a', b') := match_bitwidth a b true in
  op_or (sign_trick (op_sub b' a') a' b') (op_eq a' b').

(* operand kinds: signed_add/signed_mult turn a Python int into Const(v, signed=True)
   (a bool is an int there, and Const(bool, signed=True) raises); the comparisons
   use plain as_wires *)
Definition as_signed_operand (o : operand) : option sv :=
  match o with
  | OInt v => convert_int v None true
  | OBool b => convert_bool b None true
  | _ => as_wires o None
  end.

Definition lift2s (f : sv -> sv -> sv) (x y : operand) : option sv :=
  match as_signed_operand x, as_signed_operand y with
  | Some a, Some b => Some (f a b)
  | _, _ => None
  end.
