(* C15 -- round trips decode (encode trace) = trace for the text channels of IO/Vcd.v:
   numerals in every radix 2..16, print_trace (padded and compact), the value-change
   section of print_vcd. *)
From Coq Require Import ZArith List Bool Lia ZifyBool String.
From PyRTL Require Import Base.PyZ Sim.TraceBase Sim.Trace Sim.TraceProofs IO.Vcd.
Import ListNotations.
Open Scope Z_scope.

(* ================================================================== numerals *)
Definition value (b : Z) (ds : list Z) : Z := fold_left (fun a d => a * b + d) ds 0.

Lemma digits_fuel_acc : forall fuel b n acc,
  digits_fuel fuel b n acc = digits_fuel fuel b n [] ++ acc.
Proof.
  induction fuel as [|f IH]; intros b n acc; cbn [digits_fuel]; [reflexivity|].
  destruct (n <? b); [reflexivity|].
  rewrite (IH b (n / b) (n mod b :: acc)), (IH b (n / b) [n mod b]).
  rewrite <- app_assoc. reflexivity.
Qed.

Lemma digits_fuel_nonnil fuel b n acc : digits_fuel fuel b n acc <> [].
Proof.
  revert n acc. induction fuel as [|f IH]; intros n acc; cbn [digits_fuel]; [discriminate|].
  destruct (n <? b); [discriminate|apply IH].
Qed.

Lemma value_snoc b l d : value b (l ++ [d]) = value b l * b + d.
Proof. unfold value. rewrite fold_left_app. reflexivity. Qed.

Lemma digits_fuel_value : forall fuel b n, 2 <= b -> 0 <= n < 2 ^ (Z.of_nat fuel + 1) ->
  value b (digits_fuel fuel b n []) = n /\ Forall (fun d => 0 <= d < b) (digits_fuel fuel b n []).
Proof.
  induction fuel as [|f IH]; intros b n Hb Hn; cbn [digits_fuel].
  - change (2 ^ (Z.of_nat 0 + 1)) with 2 in Hn. split; [unfold value; cbn; lia|]. constructor; [lia|constructor].
  - destruct (n <? b) eqn:E.
    + split; [unfold value; cbn; lia|]. constructor; [lia|constructor].
    + rewrite digits_fuel_acc.
      assert (Hq : 0 <= n / b < 2 ^ (Z.of_nat f + 1)).
      { split; [apply Z.div_pos; lia|]. apply Z.div_lt_upper_bound; [lia|].
        replace (Z.of_nat (S f) + 1) with (Z.succ (Z.of_nat f + 1)) in Hn by lia.
        rewrite Z.pow_succ_r in Hn by lia.
        assert (0 < 2 ^ (Z.of_nat f + 1)) by (apply Z.pow_pos_nonneg; lia). nia. }
      destruct (IH b (n / b) Hb Hq) as [Hv Hd]. split.
      * rewrite value_snoc, Hv. pose proof (Z.div_mod n b ltac:(lia)). lia.
      * apply Forall_app. split; [exact Hd|]. constructor; [|constructor].
        apply Z.mod_pos_bound. lia.
Qed.

Lemma digits_spec b n : 2 <= b -> 0 <= n ->
  value b (digits b n) = n /\ Forall (fun d => 0 <= d < b) (digits b n) /\ digits b n <> [].
Proof.
  intros Hb Hn. unfold digits.
  assert (Hr : 0 <= n < 2 ^ (Z.of_nat (Z.to_nat (Z.log2 n)) + 1)).
  { rewrite Z2Nat.id by apply Z.log2_nonneg. split; [lia|].
    destruct (Z.eq_dec n 0) as [->|Hne]; [cbn; lia|].
    replace (Z.log2 n + 1) with (Z.succ (Z.log2 n)) by lia. apply Z.log2_spec. lia. }
  destruct (digits_fuel_value _ b n Hb Hr) as [Hv Hd].
  split; [exact Hv|]. split; [exact Hd|]. apply digits_fuel_nonnil.
Qed.

Lemma char_digit_char d : 0 <= d < 16 -> char_digit (digit_char d) = Some d.
Proof.
  intro H. unfold char_digit, digit_char. destruct (d <? 10) eqn:E.
  - replace ((48 <=? 48 + d) && (48 + d <=? 57)) with true by lia. f_equal. lia.
  - replace ((48 <=? 87 + d) && (87 + d <=? 57)) with false by lia.
    replace ((97 <=? 87 + d) && (87 + d <=? 102)) with true by lia. f_equal. lia.
Qed.

(* the characters a numeral is made of: never a space or a newline *)
Definition plain (c : Z) : Prop := c <> 32 /\ c <> 10.

Lemma digit_char_plain d : 0 <= d < 16 -> plain (digit_char d).
Proof. intro H. unfold plain, digit_char. destruct (d <? 10); lia. Qed.

Lemma parse_fold b ds a : b <= 16 -> Forall (fun d => 0 <= d < b) ds ->
  fold_left (parse_step b) (map digit_char ds) (Some a) = Some (fold_left (fun a d => a * b + d) ds a).
Proof.
  intros Hb. revert a. induction ds as [|d ds IH]; intros a Hd; [reflexivity|].
  inversion Hd as [|? ? H1 H2]; subst. cbn beta in H1. cbn [map fold_left]. unfold parse_step at 2.
  rewrite char_digit_char by lia. replace (d <? b) with true by lia. apply IH, H2.
Qed.

Theorem parse_render b n : 2 <= b <= 16 -> 0 <= n -> parse b (render b n) = Some n.
Proof.
  intros Hb Hn. destruct (digits_spec b n ltac:(lia) Hn) as (Hv & Hd & Hne).
  unfold render, parse. destruct (digits b n) as [|d ds] eqn:E; [congruence|].
  cbn [map]. change (digit_char d :: map digit_char ds) with (map digit_char (d :: ds)).
  rewrite parse_fold by (lia || assumption). unfold value in Hv. rewrite Hv. reflexivity.
Qed.

Lemma render_plain b n : 2 <= b <= 16 -> 0 <= n -> Forall plain (render b n).
Proof.
  intros Hb Hn. destruct (digits_spec b n ltac:(lia) Hn) as (_ & Hd & _).
  unfold render. apply Forall_map. eapply Forall_impl; [|exact Hd].
  intros d H. cbn beta in H. apply digit_char_plain. lia.
Qed.

Lemma render_nonnil b n : render b n <> [].
Proof.
  unfold render, digits. intro H. apply map_eq_nil in H. revert H. apply digits_fuel_nonnil.
Qed.

Lemma render_single b n : 0 <= n < b -> render b n = [digit_char n].
Proof.
  intro H. unfold render, digits. destruct (Z.to_nat (Z.log2 n)); cbn [digits_fuel]; [reflexivity|].
  replace (n <? b) with true by lia. reflexivity.
Qed.

Lemma plain_not_in c l : Forall plain l -> (c = 32 \/ c = 10) -> ~ In c l.
Proof.
  intros H Hc Hin. rewrite Forall_forall in H. destruct (H c Hin) as [H1 H2]. lia.
Qed.

(* ================================================================== splitting *)
Lemma split_on_app sep l rest : ~ In sep l ->
  split_on sep (l ++ sep :: rest) = l :: split_on sep rest.
Proof.
  induction l as [|c l IH]; intro H; cbn [app split_on].
  - rewrite Z.eqb_refl. reflexivity.
  - assert (c <> sep) by (intro; subst; apply H; left; reflexivity).
    replace (c =? sep) with false by lia.
    rewrite IH by (intro; apply H; right; assumption). reflexivity.
Qed.

Lemma split_on_nosep sep l : ~ In sep l -> split_on sep l = [l].
Proof.
  induction l as [|c l IH]; intro H; cbn [split_on]; [reflexivity|].
  assert (c <> sep) by (intro; subst; apply H; left; reflexivity).
  replace (c =? sep) with false by lia.
  rewrite IH by (intro; apply H; right; assumption). reflexivity.
Qed.

Lemma split_lines ls : Forall (fun l => ~ In NL l) ls ->
  split_on NL (concat (map line ls)) = ls ++ [[]].
Proof.
  induction ls as [|l ls IH]; intro H; [reflexivity|].
  inversion H as [|? ? H1 H2]; subst. cbn [map concat]. unfold line at 1.
  rewrite <- app_assoc. cbn [app]. rewrite split_on_app by exact H1. rewrite IH by exact H2. reflexivity.
Qed.

Lemma lines_concat ls : Forall (fun l => ~ In NL l) ls -> lines (concat (map line ls)) = ls.
Proof. intro H. unfold lines. rewrite split_lines by exact H. apply removelast_last. Qed.

Lemma words_nil : words [] = [].
Proof. reflexivity. Qed.

Lemma words_tok_sp tok rest : ~ In 32 tok ->
  words (tok ++ 32 :: rest) = (if is_nil tok then [] else [tok]) ++ words rest.
Proof.
  intro H. unfold words. rewrite split_on_app by exact H. cbn [filter].
  destruct tok; reflexivity.
Qed.

Lemma words_tok tok : ~ In 32 tok -> tok <> [] -> words tok = [tok].
Proof.
  intros H Hne. unfold words. rewrite split_on_nosep by exact H. cbn [filter].
  destruct tok; [congruence|reflexivity].
Qed.

Lemma words_spaces n rest : words (spaces n ++ rest) = words rest.
Proof.
  unfold spaces. induction (Z.to_nat n) as [|k IH]; [reflexivity|].
  cbn [repeat app]. change (32 :: repeat 32 k ++ rest) with ([] ++ 32 :: (repeat 32 k ++ rest)).
  rewrite words_tok_sp by (intros []). cbn [is_nil app]. exact IH.
Qed.

Lemma spaces_pos n rest : 1 <= n -> spaces n ++ rest = 32 :: (spaces (n - 1) ++ rest).
Proof.
  intro H. unfold spaces. replace (Z.to_nat n) with (S (Z.to_nat (n - 1))) by lia. reflexivity.
Qed.

(* ================================================================== print_trace, padded *)
Lemma words_joined base ml vals : 2 <= base <= 16 -> Forall (fun v => 0 <= v) vals ->
  words (join [SP] (map (fun v => rjust ml (render base v)) vals)) = map (render base) vals.
Proof.
  intros Hb. induction vals as [|v vs IH]; intro Hv; [reflexivity|].
  inversion Hv as [|? ? H1 H2]; subst.
  assert (Hsp : ~ In 32 (render base v)) by (apply plain_not_in; [apply render_plain; lia|lia]).
  cbn [map]. destruct vs as [|v2 vs'].
  - cbn [map join]. unfold rjust. rewrite words_spaces. rewrite words_tok; [reflexivity|exact Hsp|apply render_nonnil].
  - change (join [SP] (rjust ml (render base v) :: map (fun v0 => rjust ml (render base v0)) (v2 :: vs')))
      with (rjust ml (render base v) ++ [SP] ++ join [SP] (map (fun v0 => rjust ml (render base v0)) (v2 :: vs'))).
    unfold rjust at 1. rewrite <- app_assoc. rewrite words_spaces. cbn [app]. unfold SP.
    rewrite words_tok_sp by exact Hsp.
    pose proof (render_nonnil base v). destruct (render base v) eqn:E; [congruence|]. cbn [is_nil app].
    rewrite <- E. f_equal. apply IH. exact H2.
Qed.

Definition good_name (nm : name) : Prop := nm <> [] /\ ~ In 32 nm /\ ~ In 10 nm.
Definition good_row (r : row) : Prop := good_name (fst r) /\ Forall (fun v => 0 <= v) (snd r).

Lemma parse_all_render base vals : 2 <= base <= 16 -> Forall (fun v => 0 <= v) vals ->
  all_some (map (parse base) (map (render base) vals)) = Some vals.
Proof.
  intros Hb. induction vals as [|v vs IH]; intro Hv; [reflexivity|].
  inversion Hv; subst. cbn [map all_some]. rewrite parse_render by (lia || assumption).
  rewrite IH by assumption. reflexivity.
Qed.

Definition trace_line_body (base il ml : Z) (r : row) : text :=
  ljust (il + 1) (fst r) ++ join [SP] (map (fun v => rjust ml (render base v)) (snd r)).

Lemma trace_line_is_line base il ml r : trace_line base il ml r = line (trace_line_body base il ml r).
Proof. unfold trace_line, trace_line_body, line. rewrite app_assoc. reflexivity. Qed.

Lemma decode_trace_line base il ml r : 2 <= base <= 16 -> good_row r -> len (fst r) <= il ->
  decode_line base (trace_line_body base il ml r) = Some r.
Proof.
  intros Hb [[Hne [Hsp Hnl]] Hv] Hil. destruct r as [nm vals]. cbn [fst snd] in *.
  unfold decode_line, trace_line_body, ljust. cbn [fst snd]. rewrite <- app_assoc.
  rewrite spaces_pos by lia. rewrite words_tok_sp by exact Hsp.
  destruct nm as [|c nm']; [congruence|]. cbn [is_nil app]. rewrite words_spaces.
  rewrite words_joined by assumption. rewrite parse_all_render by assumption. reflexivity.
Qed.

Lemma join_plain ml base vals : 2 <= base <= 16 -> Forall (fun v => 0 <= v) vals ->
  ~ In NL (join [SP] (map (fun v => rjust ml (render base v)) vals)).
Proof.
  intros Hb. induction vals as [|v vs IH]; intro Hv; [intros []|].
  inversion Hv as [|? ? H1 H2]; subst.
  assert (Hr : ~ In NL (rjust ml (render base v))).
  { unfold rjust, spaces, NL. intro Hin. apply in_app_or in Hin. destruct Hin as [Hin|Hin].
    - apply repeat_spec in Hin. lia.
    - revert Hin. apply plain_not_in; [apply render_plain; lia|lia]. }
  cbn [map]. destruct vs as [|v2 vs']; [exact Hr|].
  change (join [SP] (rjust ml (render base v) :: map (fun v0 => rjust ml (render base v0)) (v2 :: vs')))
    with (rjust ml (render base v) ++ [SP] ++ join [SP] (map (fun v0 => rjust ml (render base v0)) (v2 :: vs'))).
  intro Hin. apply in_app_or in Hin. destruct Hin as [Hin|Hin]; [exact (Hr Hin)|].
  apply in_app_or in Hin. destruct Hin as [Hin|Hin].
  - cbn in Hin. unfold SP, NL in Hin. lia.
  - exact (IH H2 Hin).
Qed.

Lemma trace_line_body_no_nl base il ml r : 2 <= base <= 16 -> good_row r ->
  ~ In NL (trace_line_body base il ml r).
Proof.
  intros Hb [[Hne [Hsp Hnl]] Hv]. unfold trace_line_body, ljust. intro Hin.
  apply in_app_or in Hin. destruct Hin as [Hin|Hin].
  - apply in_app_or in Hin. destruct Hin as [Hin|Hin]; [exact (Hnl Hin)|].
    unfold spaces in Hin. apply repeat_spec in Hin. unfold NL in Hin. lia.
  - revert Hin. apply join_plain; assumption.
Qed.

Lemma max_list_ge l x : In x l -> x <= max_list l.
Proof.
  induction l as [|y l IH]; [intros []|]. cbn [max_list fold_right]. intros [->|H].
  - lia.
  - specialize (IH H). unfold max_list in IH. lia.
Qed.

Lemma all_some_map_some {A B} (f : A -> option B) (g : A -> B) l :
  Forall (fun x => f x = Some (g x)) l -> all_some (map f l) = Some (map g l).
Proof.
  induction l as [|x l IH]; intro H; [reflexivity|]. inversion H; subst.
  cbn [map all_some]. rewrite H2, IH by assumption. reflexivity.
Qed.

Lemma header_no_nl base rows : 2 <= base <= 16 ->
  ~ In NL (spaces (ident_len rows - 3) ++ codes "--- Values in base " ++ render 10 base ++ codes " ---").
Proof.
  intros Hb Hin. apply in_app_or in Hin. destruct Hin as [Hin|Hin].
  - unfold spaces in Hin. apply repeat_spec in Hin. unfold NL in Hin. lia.
  - apply in_app_or in Hin. destruct Hin as [Hin|Hin].
    + vm_compute in Hin. intuition lia.
    + apply in_app_or in Hin. destruct Hin as [Hin|Hin].
      * revert Hin. apply plain_not_in; [apply render_plain; lia|unfold NL; lia].
      * vm_compute in Hin. intuition lia.
Qed.

Theorem print_trace_roundtrip base rows : 2 <= base <= 16 -> Forall good_row rows ->
  decode_trace base false (print_trace base false rows) = Some rows.
Proof.
  intros Hb Hrows. unfold decode_trace, print_trace.
  set (il := ident_len rows). set (ml := maxlenval base rows).
  set (hdr := spaces (il - 3) ++ codes "--- Values in base " ++ render 10 base ++ codes " ---").
  assert (Ht : trace_header base rows ++ concat (map (trace_line base il ml) rows)
               = concat (map line (hdr :: map (trace_line_body base il ml) rows))).
  { cbn [map concat]. unfold trace_header, line at 1. fold il. subst hdr.
    rewrite <- !app_assoc. do 4 f_equal. rewrite map_map. cbn [app]. f_equal. f_equal.
    apply map_ext. intro r. apply trace_line_is_line. }
  rewrite Ht. rewrite lines_concat.
  - rewrite map_map. rewrite (all_some_map_some _ (fun r => r)).
    + rewrite map_id. reflexivity.
    + apply Forall_forall. intros r Hr. rewrite Forall_forall in Hrows.
      apply decode_trace_line; [exact Hb|apply Hrows, Hr|].
      subst il. unfold ident_len. apply max_list_ge. apply in_map_iff. exists r. auto.
  - constructor.
    + subst hdr il. apply header_no_nl. exact Hb.
    + apply Forall_map. rewrite Forall_forall in *. intros r Hr.
      apply trace_line_body_no_nl; [exact Hb|apply Hrows, Hr].
Qed.

(* ================================================================== print_trace, compact
   one character per value: faithful exactly when every value is a single digit *)
Definition compact_line_body (base il : Z) (r : row) : text :=
  rjust il (fst r) ++ [SP] ++ concat (map (render base) (snd r)).

Lemma compact_line_is_line base il r : compact_line base il r = line (compact_line_body base il r).
Proof. unfold compact_line, compact_line_body, line. rewrite <- !app_assoc. reflexivity. Qed.

Lemma concat_single base vals : Forall (fun v => 0 <= v < base) vals ->
  concat (map (render base) vals) = map digit_char vals.
Proof.
  induction vals as [|v vs IH]; intro H; [reflexivity|]. inversion H; subst.
  cbn [map concat]. rewrite render_single by assumption. rewrite IH by assumption. reflexivity.
Qed.

Lemma parse_single base v : 2 <= base <= 16 -> 0 <= v < base -> parse base [digit_char v] = Some v.
Proof. intros Hb Hv. rewrite <- (render_single base v Hv). apply parse_render; lia. Qed.

Definition single_row (base : Z) (r : row) : Prop :=
  good_name (fst r) /\ Forall (fun v => 0 <= v < base) (snd r).

Lemma decode_compact_line_body base il r : 2 <= base <= 16 -> single_row base r ->
  decode_compact_line base (compact_line_body base il r) = Some r.
Proof.
  intros Hb [[Hne [Hsp Hnl]] Hv]. destruct r as [nm vals]. cbn [fst snd] in *.
  unfold decode_compact_line, compact_line_body, rjust. cbn [fst snd].
  rewrite <- app_assoc. rewrite words_spaces. cbn [app]. unfold SP.
  rewrite words_tok_sp by exact Hsp. destruct nm as [|c nm']; [congruence|]. cbn [is_nil app].
  rewrite concat_single by exact Hv. destruct vals as [|v vs].
  - reflexivity.
  - assert (Hd : Forall plain (map digit_char (v :: vs))).
    { apply Forall_map. eapply Forall_impl; [|exact Hv]. intros d H. cbn beta in H. apply digit_char_plain. lia. }
    rewrite words_tok; [|apply plain_not_in; [exact Hd|lia]|discriminate].
    rewrite map_map. rewrite (all_some_map_some _ (fun v => v)); [rewrite map_id; reflexivity|].
    eapply Forall_impl; [|exact Hv]. intros d H. cbn beta in H. apply parse_single; assumption.
Qed.

Lemma compact_line_body_no_nl base il r : 2 <= base <= 16 -> single_row base r ->
  ~ In NL (compact_line_body base il r).
Proof.
  intros Hb [[Hne [Hsp Hnl]] Hv]. unfold compact_line_body, rjust. intro Hin.
  apply in_app_or in Hin. destruct Hin as [Hin|Hin].
  - apply in_app_or in Hin. destruct Hin as [Hin|Hin]; [|exact (Hnl Hin)].
    unfold spaces in Hin. apply repeat_spec in Hin. unfold NL in Hin. lia.
  - apply in_app_or in Hin. destruct Hin as [Hin|Hin]; [cbn in Hin; unfold SP, NL in Hin; lia|].
    rewrite concat_single in Hin by exact Hv. apply in_map_iff in Hin. destruct Hin as [d [Hd Hin]].
    rewrite Forall_forall in Hv. specialize (Hv d Hin). cbn beta in Hv.
    pose proof (digit_char_plain d ltac:(lia)) as [_ Hp]. unfold NL in Hd. lia.
Qed.

Theorem print_trace_compact_roundtrip base rows : 2 <= base <= 16 -> Forall (single_row base) rows ->
  decode_trace base true (print_trace base true rows) = Some rows.
Proof.
  intros Hb Hrows. unfold decode_trace, print_trace.
  set (il := ident_len rows).
  assert (Ht : concat (map (compact_line base il) rows)
               = concat (map line (map (compact_line_body base il) rows))).
  { rewrite map_map. f_equal. apply map_ext. intro r. apply compact_line_is_line. }
  rewrite Ht. rewrite lines_concat.
  - rewrite map_map. rewrite (all_some_map_some _ (fun r => r)); [rewrite map_id; reflexivity|].
    eapply Forall_impl; [|exact Hrows]. intros r Hr. apply decode_compact_line_body; assumption.
  - apply Forall_map. eapply Forall_impl; [|exact Hrows]. intros r Hr.
    apply compact_line_body_no_nl; assumption.
Qed.

(* compact mode is NOT injective on multi-digit values: two different traces, one text *)
Lemma print_trace_compact_ambiguous :
  print_trace 10 true [(codes "a", [1; 11])] = print_trace 10 true [(codes "a", [11; 1])].
Proof. vm_compute. reflexivity. Qed.

(* ================================================================== print_vcd, value changes *)
Lemma events_app a b : events (a ++ b) = events a ++ events b.
Proof.
  induction a as [|l a IH]; [reflexivity|]. cbn [app events].
  destruct (decode_value_line l); rewrite IH; reflexivity.
Qed.

Lemma cut_at_app sep a b : ~ In sep a -> cut_at sep (a ++ sep :: b) = Some (a, b).
Proof.
  induction a as [|c a IH]; intro H; cbn [app cut_at].
  - rewrite Z.eqb_refl. reflexivity.
  - assert (c <> sep) by (intro; subst; apply H; left; reflexivity).
    replace (c =? sep) with false by lia.
    rewrite IH by (intro; apply H; right; assumption). reflexivity.
Qed.

Definition value_line_body (t : nat) (r : vrow) : text :=
  codes "b" ++ render 2 (nth t (vvals r) 0) ++ [SP] ++ vid r.

Lemma decode_value_line_body t r : 0 <= nth t (vvals r) 0 ->
  decode_value_line (value_line_body t r) = Some (vid r, nth t (vvals r) 0).
Proof.
  intro Hv. unfold value_line_body, decode_value_line.
  change (codes "b" ++ ?x) with (98 :: x). cbn [app]. unfold SP.
  rewrite cut_at_app by (apply plain_not_in; [apply render_plain; lia|lia]).
  rewrite parse_render by lia. reflexivity.
Qed.

(* the lines of one time step *)
Definition step_lines (clock : bool) (rows : list vrow) (t : nat) : list text :=
  [codes "#" ++ render 10 (Z.of_nat t * 10)] ++
  map (value_line_body t) rows ++
  (if clock then [codes "b1 clk"; []; codes "#" ++ render 10 (Z.of_nat t * 10 + 5); codes "b0 clk"] else []) ++
  [[]].

Lemma vcd_step_lines clock rows t : vcd_step clock rows t = concat (map line (step_lines clock rows t)).
Proof.
  unfold vcd_step, step_lines, timestamp, value_lines.
  rewrite !map_app, !concat_app. cbn [map concat]. rewrite app_nil_r.
  f_equal. f_equal; [rewrite map_map; reflexivity|].
  destruct clock; cbn [map concat app]; rewrite ?app_nil_r, <- ?app_assoc; reflexivity.
Qed.

Definition body_lines (clock : bool) (rows : list vrow) : list text :=
  flat_map (step_lines clock rows) (seq 0 (endtime rows)) ++
  [codes "#" ++ render 10 (Z.of_nat (endtime rows) * 10)].

Lemma concat_map_flat_map {A B} (f : B -> text) (g : A -> list B) l :
  concat (map f (flat_map g l)) = concat (map (fun x => concat (map f (g x))) l).
Proof.
  induction l as [|x l IH]; [reflexivity|]. cbn [flat_map map concat].
  rewrite map_app, concat_app, IH. reflexivity.
Qed.

Lemma vcd_body_lines clock rows : vcd_body clock rows = concat (map line (body_lines clock rows)).
Proof.
  unfold vcd_body, body_lines. rewrite map_app, concat_app, concat_map_flat_map.
  cbn [map concat]. rewrite app_nil_r. f_equal.
  f_equal. apply map_ext. intro t. apply vcd_step_lines.
Qed.

Definition clock_events (clock : bool) : list event :=
  if clock then [(codes "clk", 1); (codes "clk", 0)] else [].

Definition step_events (clock : bool) (rows : list vrow) (t : nat) : list event :=
  map (fun r => (vid r, nth t (vvals r) 0)) rows ++ clock_events clock.

Definition good_vrow (n : nat) (r : vrow) : Prop :=
  length (vvals r) = n /\ Forall (fun v => 0 <= v) (vvals r) /\ ~ In NL (vid r).

Lemma nth_nonneg l t : Forall (fun v => 0 <= v) l -> 0 <= nth t l 0.
Proof.
  intro H. destruct (nth_in_or_default t l 0) as [Hin | ->]; [|lia].
  rewrite Forall_forall in H. apply H, Hin.
Qed.

Lemma hash_line_no_event n : decode_value_line (codes "#" ++ render 10 n) = None.
Proof. reflexivity. Qed.

Lemma events_value_lines n rows t : Forall (good_vrow n) rows ->
  events (map (value_line_body t) rows) = map (fun r => (vid r, nth t (vvals r) 0)) rows.
Proof.
  induction rows as [|r rows IH]; intro H; [reflexivity|]. inversion H as [|? ? [Hl [Hv Hid]] H2]; subst.
  cbn [map events]. rewrite decode_value_line_body by (apply nth_nonneg, Hv). rewrite IH by exact H2. reflexivity.
Qed.

Lemma events_step_lines n clock rows t : Forall (good_vrow n) rows ->
  events (step_lines clock rows t) = step_events clock rows t.
Proof.
  intro H. unfold step_lines, step_events. rewrite !events_app.
  rewrite (events_value_lines n) by exact H.
  change (events [codes "#" ++ render 10 (Z.of_nat t * 10)]) with (@nil event).
  cbn [app]. f_equal. destruct clock; reflexivity.
Qed.

Lemma events_body n clock rows : Forall (good_vrow n) rows ->
  events (body_lines clock rows ++ [[]]) = flat_map (step_events clock rows) (seq 0 (endtime rows)).
Proof.
  intro H. unfold body_lines. rewrite !events_app.
  change (events [codes "#" ++ render 10 (Z.of_nat (endtime rows) * 10)]) with (@nil event).
  change (events [[]]) with (@nil event). rewrite !app_nil_r.
  induction (seq 0 (endtime rows)) as [|t ts IH]; [reflexivity|].
  cbn [flat_map]. rewrite events_app, (events_step_lines n) by exact H. rewrite IH. reflexivity.
Qed.

Lemma filter_flat_map {A B} (p : B -> bool) (f : A -> list B) l :
  filter p (flat_map f l) = flat_map (fun x => filter p (f x)) l.
Proof.
  induction l as [|x l IH]; [reflexivity|]. cbn [flat_map]. rewrite filter_app, IH. reflexivity.
Qed.

Lemma filter_id_rows (g : vrow -> Z) rows r : NoDup (map vid rows) -> In r rows ->
  filter (fun e : event => text_eqb (fst e) (vid r)) (map (fun r' => (vid r', g r')) rows) = [(vid r, g r)].
Proof.
  induction rows as [|r0 rows IH]; intros Hnd Hin; [destruct Hin|].
  inversion Hnd as [|? ? Hnotin Hnd']; subst. cbn [map filter fst].
  destruct Hin as [->|Hin].
  - rewrite text_eqb_refl. f_equal.
    assert (Hnone : forall l, (forall r', In r' l -> vid r' <> vid r) ->
              filter (fun e : event => text_eqb (fst e) (vid r)) (map (fun r' => (vid r', g r')) l) = []).
    { induction l as [|x l IHl]; intro Hl; [reflexivity|]. cbn [map filter fst].
      destruct (text_eqb (vid x) (vid r)) eqn:E.
      - apply text_eqb_eq in E. exfalso. apply (Hl x); [left; reflexivity|exact E].
      - apply IHl. intros r' Hr'. apply Hl. right. exact Hr'. }
    apply Hnone. intros r' Hr' Heq. apply Hnotin. rewrite <- Heq. apply in_map. exact Hr'.
  - destruct (text_eqb (vid r0) (vid r)) eqn:E.
    + apply text_eqb_eq in E. exfalso. apply Hnotin. rewrite E. apply in_map. exact Hin.
    + apply IH; assumption.
Qed.

Lemma map_nth_seq (l : list Z) : map (fun t => nth t l 0) (seq 0 (length l)) = l.
Proof.
  induction l as [|x l IH]; [reflexivity|]. cbn [length seq map nth]. f_equal.
  rewrite <- seq_shift, map_map. exact IH.
Qed.

Lemma body_lines_no_nl n clock rows : Forall (good_vrow n) rows ->
  Forall (fun l => ~ In NL l) (body_lines clock rows).
Proof.
  intro H.
  assert (Hts : forall m, 0 <= m -> ~ In NL (codes "#" ++ render 10 m)).
  { intros m Hm Hin. change (codes "#" ++ render 10 m) with (35 :: render 10 m) in Hin.
    destruct Hin as [Hin|Hin]; [unfold NL in Hin; lia|].
    revert Hin. apply plain_not_in; [apply render_plain; lia|unfold NL; lia]. }
  unfold body_lines. apply Forall_app. split; [|constructor; [apply Hts; lia|constructor]].
  apply Forall_forall. intros l Hl. apply in_flat_map in Hl. destruct Hl as [t [_ Hl]].
  unfold step_lines in Hl. apply in_app_or in Hl. destruct Hl as [Hl|Hl].
  - destruct Hl as [<-|[]]. apply Hts. lia.
  - apply in_app_or in Hl. destruct Hl as [Hl|Hl].
    + apply in_map_iff in Hl. destruct Hl as [r [<- Hr]]. rewrite Forall_forall in H.
      destruct (H r Hr) as [_ [Hv Hid]]. unfold value_line_body.
      change (codes "b" ++ ?x) with (98 :: x). intro Hin. destruct Hin as [Hin|Hin]; [unfold NL in Hin; lia|].
      apply in_app_or in Hin. destruct Hin as [Hin|Hin].
      * revert Hin. apply plain_not_in; [apply render_plain; [lia|apply nth_nonneg, Hv]|unfold NL; lia].
      * destruct Hin as [Hin|Hin]; [unfold SP, NL in Hin; lia|exact (Hid Hin)].
    + apply in_app_or in Hl. destruct Hl as [Hl|Hl].
      * destruct clock; [|destruct Hl]. destruct Hl as [<-|[<-|[<-|[<-|[]]]]].
        -- vm_compute. intuition lia.
        -- intros [].
        -- apply Hts. lia.
        -- vm_compute. intuition lia.
      * destruct Hl as [<-|[]]. intros [].
Qed.

(* decoding the value-change section gives back every traced list, given unique identifiers *)
Theorem vcd_body_roundtrip clock rows :
  Forall (good_vrow (endtime rows)) rows -> NoDup (map vid rows) ->
  (clock = true -> ~ In (codes "clk") (map vid rows)) ->
  decode_vcd_body (map vid rows) (vcd_body clock rows) = map vvals rows.
Proof.
  intros Hgood Hnd Hclk. unfold decode_vcd_body.
  rewrite vcd_body_lines, split_lines by (apply (body_lines_no_nl (endtime rows)); exact Hgood).
  rewrite (events_body (endtime rows)) by exact Hgood.
  rewrite map_map. apply map_ext_in. intros r Hr. unfold values_of.
  rewrite filter_flat_map.
  assert (Hstep : forall t, filter (fun e : event => text_eqb (fst e) (vid r)) (step_events clock rows t)
                            = [(vid r, nth t (vvals r) 0)]).
  { intro t. unfold step_events. rewrite filter_app. rewrite filter_id_rows by assumption.
    replace (filter _ (clock_events clock)) with (@nil event); [reflexivity|].
    destruct clock; [|reflexivity]. cbn [clock_events filter fst].
    destruct (text_eqb (codes "clk") (vid r)) eqn:E; [|reflexivity].
    apply text_eqb_eq in E. exfalso. apply (Hclk eq_refl). rewrite E. apply in_map. exact Hr. }
  rewrite (flat_map_ext _ (fun t => [(vid r, nth t (vvals r) 0)])) by exact Hstep.
  rewrite flat_map_concat_map, concat_map, map_map. cbn [map snd].
  rewrite Forall_forall in Hgood. destruct (Hgood r Hr) as [Hlen _]. rewrite <- Hlen.
  rewrite <- (map_nth_seq (vvals r)) at 2.
  induction (seq 0 (length (vvals r))) as [|t ts IH]; [reflexivity|]. cbn [map concat app]. f_equal. exact IH.
Qed.

(* ================================================================== print_vcd, whole text *)
Definition var_line_body (r : vrow) : text :=
  codes "$var wire " ++ render 10 (vwidth r) ++ [SP] ++ vid r ++ [SP] ++ vid r ++ codes " $end".

Definition header_lines (clock : bool) (rows : list vrow) : list text :=
  [codes "$timescale 1ns $end"; codes "$scope module logic $end"] ++
  (if clock then [codes "$var wire 1 clk clk $end"] else []) ++
  map var_line_body rows ++
  [codes "$upscope $end"; codes "$enddefinitions $end"; codes "$dumpvars"] ++
  map (value_line_body 0) rows.

Lemma vcd_header_lines clock rows :
  vcd_header clock rows = concat (map line (header_lines clock rows ++ [codes "$end"])).
Proof.
  unfold vcd_header, header_lines, value_lines.
  rewrite !map_app, !concat_app. cbn [map concat]. rewrite !app_nil_r, <- !app_assoc.
  do 2 f_equal. f_equal; [destruct clock; reflexivity|].
  f_equal; [rewrite map_map; reflexivity|].
  do 3 f_equal. f_equal. rewrite map_map. reflexivity.
Qed.

Lemma after_end_skip pre rest : Forall (fun l => text_eqb l (codes "$end") = false) pre ->
  after_end (pre ++ codes "$end" :: rest) = rest.
Proof.
  induction pre as [|l pre IH]; intro H; cbn [app after_end].
  - rewrite text_eqb_refl. reflexivity.
  - inversion H; subst. rewrite H2. apply IH. assumption.
Qed.

Definition good_vrow_full (n : nat) (r : vrow) : Prop := good_vrow n r /\ 0 <= vwidth r.

Lemma header_lines_ok n clock rows : Forall (good_vrow_full n) rows ->
  Forall (fun l => ~ In NL l /\ text_eqb l (codes "$end") = false) (header_lines clock rows).
Proof.
  intro H. unfold header_lines. repeat (apply Forall_app; split).
  - repeat constructor; try (vm_compute; intuition lia).
  - destruct clock; repeat constructor. vm_compute; intuition lia.
  - apply Forall_map. eapply Forall_impl; [|exact H]. intros r [[_ [_ Hid]] Hw]. split.
    + unfold var_line_body. intro Hin.
      repeat (apply in_app_or in Hin; destruct Hin as [Hin|Hin]);
        try (vm_compute in Hin; intuition lia); try exact (Hid Hin).
      revert Hin. apply plain_not_in; [apply render_plain; lia|unfold NL; lia].
    + unfold var_line_body. reflexivity.
  - repeat constructor; try (vm_compute; intuition lia).
  - apply Forall_map. eapply Forall_impl; [|exact H]. intros r [[_ [Hv Hid]] Hw]. split.
    + unfold value_line_body. change (codes "b" ++ ?x) with (98 :: x). intro Hin.
      destruct Hin as [Hin|Hin]; [unfold NL in Hin; lia|].
      apply in_app_or in Hin. destruct Hin as [Hin|Hin].
      * revert Hin. apply plain_not_in; [apply render_plain; [lia|apply nth_nonneg, Hv]|unfold NL; lia].
      * destruct Hin as [Hin|Hin]; [unfold SP, NL in Hin; lia|exact (Hid Hin)].
    + reflexivity.
Qed.

Theorem vcd_roundtrip clock rows :
  Forall (good_vrow_full (endtime rows)) rows -> NoDup (map vid rows) ->
  (clock = true -> ~ In (codes "clk") (map vid rows)) ->
  decode_vcd (map vid rows) (print_vcd clock rows) = map vvals rows.
Proof.
  intros Hgood Hnd Hclk.
  assert (Hg : Forall (good_vrow (endtime rows)) rows)
    by (eapply Forall_impl; [|exact Hgood]; intros r [H _]; exact H).
  pose proof (header_lines_ok _ clock rows Hgood) as Hh.
  pose proof (vcd_body_roundtrip clock rows Hg Hnd Hclk) as Hb.
  unfold decode_vcd_body in Hb. unfold decode_vcd, print_vcd.
  rewrite vcd_header_lines, vcd_body_lines. rewrite <- concat_app, <- map_app.
  rewrite split_lines.
  - rewrite <- !app_assoc. cbn [app]. rewrite after_end_skip.
    + rewrite vcd_body_lines, split_lines in Hb by (apply (body_lines_no_nl (endtime rows)); exact Hg).
      exact Hb.
    + eapply Forall_impl; [|exact Hh]. intros l [_ H]. exact H.
  - apply Forall_app. split.
    + apply Forall_app. split.
      * eapply Forall_impl; [|exact Hh]. intros l [H _]. exact H.
      * repeat constructor. vm_compute. intuition lia.
    + apply (body_lines_no_nl (endtime rows)). exact Hg.
Qed.

(* ================================================================== step_multiple report text *)
Definition report_line_body (f : nat * name * Z * Z) : text :=
  let '(i, n, e, a) := f in
  rjust 5 (render 10 (Z.of_nat i)) ++ [SP] ++ rjust 10 n ++ [SP]
  ++ rjust 8 (render 10 e) ++ [SP] ++ rjust 8 (render 10 a).

Definition good_failure (f : nat * name * Z * Z) : Prop :=
  let '(i, n, e, a) := f in good_name n /\ 0 <= e /\ 0 <= a.

Lemma render10_tok n : 0 <= n -> ~ In 32 (render 10 n) /\ ~ In NL (render 10 n) /\ render 10 n <> [].
Proof.
  intro H. split; [|split].
  - apply plain_not_in; [apply render_plain; lia|lia].
  - apply plain_not_in; [apply render_plain; lia|unfold NL; lia].
  - apply render_nonnil.
Qed.

Lemma words_rjust_sp k tok rest : ~ In 32 tok -> tok <> [] ->
  words (rjust k tok ++ 32 :: rest) = tok :: words rest.
Proof.
  intros H Hne. unfold rjust. rewrite <- app_assoc, words_spaces, words_tok_sp by exact H.
  destruct tok; [congruence|reflexivity].
Qed.

Lemma decode_report_line_body f : good_failure f -> decode_report_line (report_line_body f) = Some f.
Proof.
  destruct f as [[[i n] e] a]. intros [[Hne [Hsp Hnl]] [He Ha]].
  destruct (render10_tok (Z.of_nat i) ltac:(lia)) as (Hi1 & _ & Hi3).
  destruct (render10_tok e He) as (He1 & _ & He3).
  destruct (render10_tok a Ha) as (Ha1 & _ & Ha3).
  unfold decode_report_line, report_line_body. unfold SP. cbn [app].
  rewrite words_rjust_sp by assumption. rewrite words_rjust_sp by assumption.
  rewrite words_rjust_sp by assumption. unfold rjust at 1. rewrite words_spaces, words_tok by assumption.
  rewrite !parse_render by lia. rewrite Nat2Z.id. reflexivity.
Qed.

Lemma in_rjust c k tok : In c (rjust k tok) -> c = 32 \/ In c tok.
Proof.
  unfold rjust, spaces. intro H. apply in_app_or in H. destruct H as [H|H]; [|right; exact H].
  apply repeat_spec in H. left. lia.
Qed.

Lemma report_line_body_no_nl f : good_failure f -> ~ In NL (report_line_body f).
Proof.
  destruct f as [[[i n] e] a]. intros [[Hne [Hsp Hnl]] [He Ha]].
  destruct (render10_tok (Z.of_nat i) ltac:(lia)) as (_ & Hi2 & _).
  destruct (render10_tok e He) as (_ & He2 & _).
  destruct (render10_tok a Ha) as (_ & Ha2 & _).
  unfold report_line_body. unfold NL in *. intro Hin.
  repeat (apply in_app_or in Hin; destruct Hin as [Hin|Hin]);
    try (apply in_rjust in Hin; destruct Hin as [Hin|Hin]; [lia|]);
    try (unfold spaces in Hin; apply repeat_spec in Hin; lia);
    try (cbn in Hin; unfold SP in Hin; lia); tauto.
Qed.

Lemma report_line_is_line f : report_line f = line (report_line_body f).
Proof. destruct f as [[[i n] e] a]. reflexivity. Qed.

(* parsing the text written to `file=` gives back exactly the sorted failed list *)
Theorem report_roundtrip stop failed : failed <> [] -> Forall good_failure failed ->
  decode_report (report_text stop failed) = Some (report failed).
Proof.
  intros Hne Hgood. unfold decode_report, report_text. destruct failed as [|f0 fs] eqn:Ef; [congruence|].
  rewrite <- Ef in *. clear Ef f0 fs Hne.
  set (h1 := codes "Unexpected output " ++ (if stop then codes "(stopped after step with first error):"
                                           else codes "on one or more steps:")).
  set (h2 := rjust 5 (codes "step") ++ [SP] ++ rjust 10 (codes "name") ++ [SP]
             ++ rjust 8 (codes "expected") ++ [SP] ++ rjust 8 (codes "actual")).
  assert (Hperm : Forall good_failure (report failed)).
  { apply Forall_forall. intros f Hf. rewrite Forall_forall in Hgood. apply Hgood.
    eapply Permutation.Permutation_in; [apply report_perm|exact Hf]. }
  assert (Ht : line h1 ++ line h2 ++ concat (map report_line (report failed))
               = concat (map line (h1 :: h2 :: map report_line_body (report failed)))).
  { cbn [map concat]. do 2 f_equal. rewrite map_map. f_equal. apply map_ext. intro f. apply report_line_is_line. }
  rewrite Ht, lines_concat.
  - rewrite map_map. rewrite (all_some_map_some _ (fun f => f)); [rewrite map_id; reflexivity|].
    eapply Forall_impl; [|exact Hperm]. intros f Hf. apply decode_report_line_body, Hf.
  - constructor; [|constructor].
    + subst h1. destruct stop; vm_compute; intuition lia.
    + subst h2. vm_compute. intuition lia.
    + apply Forall_map. eapply Forall_impl; [|exact Hperm]. intros f Hf. apply report_line_body_no_nl, Hf.
Qed.
