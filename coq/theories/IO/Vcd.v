(* C15 -- SimulationTrace.print_trace and SimulationTrace.print_vcd as ENCODERS
   trace -> text, with DECODERS text -> trace.  Text = list of character codes
   (Sim/TraceBase.v); `string_of_text` converts to Coq.Strings.String.
   Rows are given in the order Python lists them (sorted by _trace_sort_key,
   modelled by Sim/Trace.v `sort_names`).  No proofs here (IO/VcdProofs.v). *)
From Coq Require Import ZArith List Bool Lia String.
From PyRTL Require Import Base.PyZ Sim.TraceBase Sim.Trace.
Import ListNotations.
Open Scope Z_scope.

Definition NL : Z := 10.
Definition SP : Z := 32.

Definition row := (name * list Z)%type.

(* ------------------------------------------------------------------ print_trace *)
Definition max_list (l : list Z) : Z := fold_right Z.max 0 l.

(* max(len(w) for w in self.trace) *)
Definition ident_len (rows : list row) : Z := max_list (map (fun r => len (fst r)) rows).
(* max(len('{0:{1}}'.format(x, basekey)) for w in self.trace for x in self.trace[w]) *)
Definition maxlenval (base : Z) (rows : list row) : Z :=
  max_list (map (fun v => len (render base v)) (concat (map snd rows))).

Definition trace_header (base : Z) (rows : list row) : text :=
  spaces (ident_len rows - 3) ++ codes "--- Values in base " ++ render 10 base ++ codes " ---" ++ [NL].

(* w.ljust(ident_len + 1) + ' '.join('{0:>{1}{2}}'.format(x, maxlenval, basekey) ...) + '\n' *)
Definition trace_line (base il ml : Z) (r : row) : text :=
  ljust (il + 1) (fst r) ++ join [SP] (map (fun v => rjust ml (render base v)) (snd r)) ++ [NL].

(* w.rjust(ident_len) + ' ' + ''.join('{0:{1}}'.format(x, basekey) ...) + '\n' *)
Definition compact_line (base il : Z) (r : row) : text :=
  rjust il (fst r) ++ [SP] ++ concat (map (render base) (snd r)) ++ [NL].

Definition print_trace (base : Z) (compact : bool) (rows : list row) : text :=
  if compact then concat (map (compact_line base (ident_len rows)) rows)
  else trace_header base rows
       ++ concat (map (trace_line base (ident_len rows) (maxlenval base rows)) rows).

(* decoders *)
Definition decode_line (base : Z) (line : text) : option row :=
  match words line with
  | [] => None
  | nm :: toks => match all_some (map (parse base) toks) with
                  | Some vs => Some (nm, vs)
                  | None => None
                  end
  end.

(* compact form: one character per value (only faithful when every value < base) *)
Definition decode_compact_line (base : Z) (line : text) : option row :=
  match words line with
  | [nm] => Some (nm, [])
  | [nm; ds] => match all_some (map (fun c => parse base [c]) ds) with
                | Some vs => Some (nm, vs)
                | None => None
                end
  | _ => None
  end.

(* the pieces between newlines, without the empty piece after the final newline *)
Definition lines (t : text) : list text := removelast (split_on NL t).

Definition decode_trace (base : Z) (compact : bool) (t : text) : option (list row) :=
  if compact then all_some (map (decode_compact_line base) (lines t))
  else match lines t with
       | [] => None
       | _hdr :: body => all_some (map (decode_line base) body)
       end.

(* ------------------------------------------------------------------ print_vcd *)
Record vrow := mkVrow {
  vname : name;       (* wire name *)
  vid : text;         (* identifier from the _VerilogSanitizer('_vcd_tmp_') *)
  vwidth : Z;
  vvals : list Z
}.

Definition line (t : text) : text := t ++ [NL].

(* print_trace_strs(time): ' '.join([str(bin(v))[1:], _varname(wn)]) per wire *)
Definition value_line (t : nat) (r : vrow) : text :=
  line (codes "b" ++ render 2 (nth t (vvals r) 0) ++ [SP] ++ vid r).
Definition value_lines (rows : list vrow) (t : nat) : text := concat (map (value_line t) rows).

Definition var_line (r : vrow) : text :=
  line (codes "$var wire " ++ render 10 (vwidth r) ++ [SP] ++ vid r ++ [SP] ++ vid r ++ codes " $end").

Definition endtime (rows : list vrow) : nat :=
  fold_right Nat.max O (map (fun r => length (vvals r)) rows).

Definition vcd_header (clock : bool) (rows : list vrow) : text :=
  line (codes "$timescale 1ns $end") ++
  line (codes "$scope module logic $end") ++
  (if clock then line (codes "$var wire 1 clk clk $end") else []) ++
  concat (map var_line rows) ++
  line (codes "$upscope $end") ++
  line (codes "$enddefinitions $end") ++
  line (codes "$dumpvars") ++
  value_lines rows 0 ++
  line (codes "$end").

Definition timestamp (n : Z) : text := line (codes "#" ++ render 10 n).

Definition vcd_step (clock : bool) (rows : list vrow) (t : nat) : text :=
  timestamp (Z.of_nat t * 10) ++
  value_lines rows t ++
  (if clock then line (codes "b1 clk") ++ line [] ++ timestamp (Z.of_nat t * 10 + 5) ++ line (codes "b0 clk")
   else []) ++
  line [].

(* the value-change section: everything after the `$end` that closes $dumpvars *)
Definition vcd_body (clock : bool) (rows : list vrow) : text :=
  concat (map (vcd_step clock rows) (seq 0 (endtime rows))) ++
  timestamp (Z.of_nat (endtime rows) * 10).

Definition print_vcd (clock : bool) (rows : list vrow) : text :=
  vcd_header clock rows ++ vcd_body clock rows.

(* decoder: value-change events `b<binary> <id>` in order of appearance *)
Definition event := (text * Z)%type.

Definition decode_value_line (l : text) : option event :=
  match l with
  | 98 :: rest =>                                     (* 'b' *)
      match cut_at SP rest with
      | Some (bits, id) => match parse 2 bits with
                           | Some v => Some (id, v)
                           | None => None
                           end
      | None => None
      end
  | _ => None
  end.

Fixpoint events (ls : list text) : list event :=
  match ls with
  | [] => []
  | l :: r => match decode_value_line l with
              | Some e => e :: events r
              | None => events r
              end
  end.

Definition values_of (id : text) (es : list event) : list Z :=
  map snd (filter (fun e => text_eqb (fst e) id) es).

(* values per identifier, from the value-change section *)
Definition decode_vcd_body (ids : list text) (body : text) : list (list Z) :=
  let es := events (split_on NL body) in
  map (fun id => values_of id es) ids.

(* drop everything up to and including the first line that is exactly `$end` *)
Fixpoint after_end (ls : list text) : list text :=
  match ls with
  | [] => []
  | l :: r => if text_eqb l (codes "$end") then r else after_end r
  end.

Definition decode_vcd (ids : list text) (t : text) : list (list Z) :=
  let es := events (after_end (split_on NL t)) in
  map (fun id => values_of id es) ids.

(* `$var wire <width> <id> <id> $end` declarations: (id, width) *)
Definition decode_var_line (l : text) : option (text * Z) :=
  match words l with
  | [v; w; wd; id1; id2; e] =>
      if text_eqb v (codes "$var") && text_eqb w (codes "wire") && text_eqb e (codes "$end")
         && text_eqb id1 id2
      then match parse 10 wd with Some n => Some (id1, n) | None => None end
      else None
  | _ => None
  end.

Fixpoint decode_vars (ls : list text) : list (text * Z) :=
  match ls with
  | [] => []
  | l :: r => match decode_var_line l with
              | Some d => d :: decode_vars r
              | None => decode_vars r
              end
  end.

(* ------------------------------------------------------------------ step_multiple report
   "{0:>5} {1:>10} {2:>8} {3:>8}\n".format(step, name, expected, actual) *)
Definition report_line (f : nat * name * Z * Z) : text :=
  let '(i, n, e, a) := f in
  line (rjust 5 (render 10 (Z.of_nat i)) ++ [SP] ++ rjust 10 n ++ [SP]
        ++ rjust 8 (render 10 e) ++ [SP] ++ rjust 8 (render 10 a)).

Definition report_text (stop : bool) (failed : list (nat * name * Z * Z)) : text :=
  match failed with
  | [] => []
  | _ =>
    line (codes "Unexpected output " ++
          (if stop then codes "(stopped after step with first error):" else codes "on one or more steps:")) ++
    line (rjust 5 (codes "step") ++ [SP] ++ rjust 10 (codes "name") ++ [SP]
          ++ rjust 8 (codes "expected") ++ [SP] ++ rjust 8 (codes "actual")) ++
    concat (map report_line (report failed))
  end.

Definition decode_report_line (l : text) : option (nat * name * Z * Z) :=
  match words l with
  | [i; n; e; a] =>
      match parse 10 i, parse 10 e, parse 10 a with
      | Some i', Some e', Some a' => Some (Z.to_nat i', n, e', a')
      | _, _, _ => None
      end
  | _ => None
  end.

Definition decode_report (t : text) : option (list (nat * name * Z * Z)) :=
  match lines t with
  | _ :: _ :: rows => all_some (map decode_report_line rows)
  | _ => None
  end.
