(* C20 -- the bytes of print_trace / print_vcd do not depend on the order of the trace dict. *)
From Coq Require Import String Ascii List NArith ZArith Bool Permutation.
From PyRTL Require Sim.TraceBase Sim.Trace IO.Vcd.
From PyRTL Require Import IO.NatSort IO.NatSortProofs IO.Determinism IO.DeterminismProofs IO.DeterminismInj
  Gen.C20Src IO.DeterminismSrc IO.DeterminismTrace.
Import ListNotations.

Lemma sorted_entries_perm_invariant : forall items items',
  Permutation items items' -> NoDup (map t_name items) ->
  sorted_entries items = sorted_entries items'.
Proof.
  intros items items' P ND. unfold sorted_entries.
  apply sort_by_key_perm_invariant; auto. exact src_trace_ltb_strict_total.
  intros x y Hx Hy E. apply src_trace_key_injective in E. eapply NoDup_map_inj_in; eauto.
Qed.

Theorem full_print_trace_perm_invariant : forall base compact items items',
  Permutation items items' -> NoDup (map t_name items) ->
  full_print_trace base compact items = full_print_trace base compact items'.
Proof.
  intros base compact items items' P ND. unfold full_print_trace.
  rewrite (sorted_entries_perm_invariant items items' P ND). reflexivity.
Qed.

Theorem full_print_vcd_perm_invariant : forall clock items items',
  Permutation items items' -> NoDup (map t_name items) ->
  full_print_vcd clock items = full_print_vcd clock items'.
Proof.
  intros clock items items' P ND. unfold full_print_vcd, vcd_ids.
  rewrite (sorted_entries_perm_invariant items items' P ND).
  rewrite (src_vcd_names_perm_invariant (map t_name items) (map t_name items')).
  reflexivity. apply Permutation_map. exact P.
Qed.

(* the identifiers written into the $var lines are pairwise distinct *)
Theorem full_print_vcd_ids_distinct : forall items, NoDup (map t_name items) ->
  NoDup (map (fun e => varname (vcd_ids items) (t_name e)) items).
Proof.
  intros items ND. unfold vcd_ids.
  rewrite <- (map_map t_name (varname (sanitize_all src_valid_vcd src_prefix_vcd (src_present_vcd (map t_name items))))).
  destruct (src_identifiers_distinct (map t_name items) ND) as [_ [_ H]]. exact H.
Qed.
