(* C12 -- ISCAS .bench: AST, gate semantics (specification), model of
   pyrtl.importexport.input_from_iscas_bench (its gate dispatch comes from
   Gen/BlifTables.v : iscas_gate, regenerated from /repo on every run).
   Definitions only. *)
From Coq Require Import ZArith List Bool String.
From PyRTL Require Import IO.BlifSyntax IO.BlifSem Gen.BlifTables IO.BlifImport.
Import ListNotations.
Open Scope Z_scope.

(* dst = GATE(src, ...) *)
Record bench := mkBench {
  b_inputs : list sig;
  b_outputs : list sig;
  b_gates : list (sig * string * list sig)
}.

(* ---------- specification: .bench gate semantics ----------
   AND/OR/NAND/NOR/XOR take any number >= 1 of sources (XOR = parity);
   NOT/BUFF/DFF exactly one. *)
Definition gate_sem (g : string) (vs : list bool) : option bool :=
  if String.eqb g "AND" then (match vs with [] => None | _ => Some (forallb (fun b => b) vs) end)
  else if String.eqb g "OR" then (match vs with [] => None | _ => Some (existsb (fun b => b) vs) end)
  else if String.eqb g "NAND" then (match vs with [] => None | _ => Some (negb (forallb (fun b => b) vs)) end)
  else if String.eqb g "NOR" then (match vs with [] => None | _ => Some (negb (existsb (fun b => b) vs)) end)
  else if String.eqb g "XOR" then (match vs with [] => None | _ => Some (fold_right xorb false vs) end)
  else if String.eqb g "NOT" then (match vs with [v] => Some (negb v) | _ => None end)
  else if String.eqb g "BUFF" then (match vs with [v] => Some v | _ => None end)
  else None.

Definition is_dff (g : string) : bool := String.eqb g "DFF".

Fixpoint find_gate (gs : list (sig * string * list sig)) (x : sig) : option (string * list sig) :=
  match gs with
  | [] => None
  | (d, g, srcs) :: r => if sig_eqb d x then Some (g, srcs) else find_gate r x
  end.

Fixpoint bench_ev (fuel : nat) (b : bench) (st ins : sig -> bool) (x : sig) : bool :=
  match fuel with
  | O => false
  | S f =>
    if sig_mem x (b_inputs b) then ins x
    else match find_gate (b_gates b) x with
         | Some (g, srcs) =>
             if is_dff g then st x
             else match gate_sem g (map (bench_ev f b st ins) srcs) with
                  | Some v => v
                  | None => false
                  end
         | None => false
         end
  end.

Fixpoint bench_def (fuel : nat) (b : bench) (x : sig) : bool :=
  match fuel with
  | O => false
  | S f =>
    if sig_mem x (b_inputs b) then true
    else match find_gate (b_gates b) x with
         | Some (g, srcs) =>
             if is_dff g then Nat.eqb (List.length srcs) 1
             else match gate_sem g (map (fun _ => false) srcs) with
                  | Some _ => forallb (bench_def f b) srcs
                  | None => false
                  end
         | None => false
         end
  end.

Definition bench_next (fuel : nat) (b : bench) (st ins : sig -> bool)
           (gt : sig * string * list sig) : list (sig * bool) :=
  match gt with
  | (q, g, [d]) => if is_dff g then [(q, bench_ev fuel b st ins d)] else []
  | _ => []
  end.

Definition bench_step (fuel : nat) (b : bench) (st : list (sig * bool)) (ins : sig -> bool)
  : list bool * list (sig * bool) :=
  (map (bench_ev fuel b (slookup st) ins) (b_outputs b),
   flat_map (bench_next fuel b (slookup st) ins) (b_gates b)).

Fixpoint bench_run (fuel : nat) (b : bench) (st : list (sig * bool)) (inss : list (sig -> bool))
  : list (list bool) :=
  match inss with
  | [] => []
  | i :: r => let '(o, st') := bench_step fuel b st i in o :: bench_run fuel b st' r
  end.

(* ---------- importer model ---------- *)
Definition drv_absent (d : drv) : bool :=
  match d with DComb e => has_absent e | DReg n _ => has_absent n end.

Definition import_gate (gt : sig * string * list sig) : option (sig * drv) :=
  let '(dst, g, srcs) := gt in
  if existsb (String.eqb g) iscas_gate_names then
    match iscas_gate g (map BVar srcs) with
    | Some d => if drv_absent d then None else Some (dst, d)
    | None => None
    end
  else None.

Definition import_bench (b : bench) : option circuit :=
  match mapM import_gate (b_gates b) with
  | Some ds => Some (mkCircuit (b_inputs b) (b_outputs b) ds)
  | None => None
  end.
