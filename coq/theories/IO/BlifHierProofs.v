(* C12 -- hierarchical BLIF: importing with .subckt instantiation
   (extract_model_reference / instantiate) equals flattening the model per
   the BLIF definition of .subckt and importing the flat result. *)
From Coq Require Import ZArith List Bool String Lia.
From PyRTL Require Import IO.BlifSyntax IO.BlifSem Gen.BlifTables IO.BlifImport IO.BlifProofs.
Import ListNotations.
Open Scope Z_scope.
Close Scope string_scope.

(* ---------- renaming commutes with everything the importer does ---------- *)

Lemma bsubst_ext : forall e f g, (forall x, f x = g x) -> bsubst f e = bsubst g e.
Proof.
  induction e as [s|b|a IHa|a IHa b IHb|a IHa b IHb|a IHa b IHb|a IHa b IHb|c IHc t IHt f0 IHf|];
    simpl; intros f g H; auto;
    try (rewrite (IHa f g H); reflexivity);
    try (rewrite (IHa f g H), (IHb f g H); reflexivity).
  rewrite (IHc f g H), (IHt f g H), (IHf f g H). reflexivity.
Qed.

Lemma bsubst_bsubst : forall e f g, bsubst g (bsubst f e) = bsubst (fun x => bsubst g (f x)) e.
Proof.
  induction e as [s|b|a IHa|a IHa b IHb|a IHa b IHb|a IHa b IHb|a IHa b IHb|c IHc t IHt f0 IHf|];
    simpl; intros f g; auto;
    try (rewrite IHa; reflexivity);
    try (rewrite IHa, IHb; reflexivity).
  rewrite IHc, IHt, IHf. reflexivity.
Qed.

Lemma ren_absent k : forall e, has_absent (ren_bexp k e) = has_absent e.
Proof.
  unfold ren_bexp.
  induction e as [s|b|a IHa|a IHa b IHb|a IHa b IHb|a IHa b IHb|a IHa b IHb|c IHc t IHt f0 IHf|];
    simpl; auto;
    try (rewrite IHa, IHb; reflexivity).
  rewrite IHc, IHt, IHf. reflexivity.
Qed.

Lemma tree_reduce_ren k op :
  (forall a b, ren_bexp k (op a b) = op (ren_bexp k a) (ren_bexp k b)) ->
  forall n l, ren_bexp k (tree_reduce n op l) = tree_reduce n op (map (ren_bexp k) l).
Proof.
  intro Hop. induction n as [|n IH]; intro l; [reflexivity|].
  destruct l as [|x [|y l']]; [reflexivity|reflexivity|].
  set (l := x :: y :: l').
  change (tree_reduce (S n) op l)
    with (op (tree_reduce n op (firstn (Nat.div (List.length l) 2) l))
             (tree_reduce n op (skipn (Nat.div (List.length l) 2) l))).
  change (tree_reduce (S n) op (map (ren_bexp k) l))
    with (op (tree_reduce n op (firstn (Nat.div (List.length (map (ren_bexp k) l)) 2) (map (ren_bexp k) l)))
             (tree_reduce n op (skipn (Nat.div (List.length (map (ren_bexp k) l)) 2) (map (ren_bexp k) l)))).
  rewrite Hop, IH, IH, map_length, firstn_map, skipn_map. reflexivity.
Qed.

Lemma rtl_all_ren k l : ren_bexp k (rtl_all l) = rtl_all (map (ren_bexp k) l).
Proof.
  destruct l as [|x l]; [reflexivity|]. unfold rtl_all.
  change (map (ren_bexp k) (x :: l)) with (ren_bexp k x :: map (ren_bexp k) l).
  rewrite <- (map_length (ren_bexp k) (x :: l)).
  apply tree_reduce_ren. reflexivity.
Qed.

Lemma rtl_any_ren k l : ren_bexp k (rtl_any l) = rtl_any (map (ren_bexp k) l).
Proof.
  destruct l as [|x l]; [reflexivity|]. unfold rtl_any.
  change (map (ren_bexp k) (x :: l)) with (ren_bexp k x :: map (ren_bexp k) l).
  rewrite <- (map_length (ren_bexp k) (x :: l)).
  apply tree_reduce_ren. reflexivity.
Qed.

Lemma row_lits_ren k : forall r netio,
  row_lits (map (I k) netio) r = map (ren_bexp k) (row_lits netio r).
Proof.
  induction r as [|p r IH]; intro netio; [reflexivity|].
  destruct netio as [|s netio].
  - specialize (IH []). simpl in IH. destruct p; simpl; try (f_equal; exact IH); exact IH.
  - destruct p; simpl; rewrite IH; reflexivity.
Qed.

Lemma generic_cover_ren k netio planes :
  generic_cover (map (I k) netio) planes = ren_bexp k (generic_cover netio planes).
Proof.
  unfold generic_cover. rewrite rtl_any_ren, map_map. f_equal.
  apply map_ext. intro r. rewrite rtl_all_ren, row_lits_ren. reflexivity.
Qed.

Lemma twire_ix_ren k netio x : twire_ix (map (I k) netio) x = ren_bexp k (twire_ix netio x).
Proof.
  unfold twire_ix. destruct x as [i|]; [|reflexivity].
  destruct (0 <=? i); [|reflexivity].
  rewrite nth_error_map. destruct (nth_error netio (Z.to_nat i)); reflexivity.
Qed.

Lemma last_map_f {A B} (f : A -> B) : forall (l : list A) (x : A), last (map f l) (f x) = f (last l x).
Proof.
  induction l as [|y l IH]; intro x; [reflexivity|].
  destruct l as [|z l]; [reflexivity|].
  change (last (map f (y :: z :: l)) (f x)) with (last (map f (z :: l)) (f x)).
  change (last (y :: z :: l) x) with (last (z :: l) x). apply IH.
Qed.

Lemma last_opt_map {A B} (f : A -> B) (l : list A) : last_opt (map f l) = option_map f (last_opt l).
Proof.
  unfold last_opt. destruct l as [|x l]; [reflexivity|]. simpl. f_equal. apply last_map_f.
Qed.

Lemma py_index_map {A B} (f : A -> B) (l : list A) (k : Z) :
  py_index (map f l) k = option_map f (py_index l k).
Proof.
  unfold py_index. rewrite map_length.
  destruct (0 <=? (if 0 <=? k then k else Z.of_nat (List.length l) + k)); [|reflexivity].
  rewrite nth_error_map. reflexivity.
Qed.

Definition ren_pair (k : Z) (p : sig * bexp) : sig * bexp := (I k (fst p), ren_bexp k (snd p)).

Lemma extract_cover_ren k sigs rows :
  extract_cover (map (I k) sigs) rows = option_map (ren_pair k) (extract_cover sigs rows).
Proof.
  unfold extract_cover.
  destruct (find_special cover_special_table (tokens_of_rows rows)) as [[kk e]|].
  - rewrite py_index_map. destruct (py_index sigs kk) as [d|]; [|reflexivity].
    simpl.
    assert (E : bsubst (twire_ix (map (I k) sigs)) e = ren_bexp k (bsubst (twire_ix sigs) e)).
    { unfold ren_bexp at 1. rewrite bsubst_bsubst. apply bsubst_ext. intro x. apply twire_ix_ren. }
    rewrite E, ren_absent. destruct (has_absent (bsubst (twire_ix sigs) e)); reflexivity.
  - destruct (pair_tokens (tokens_of_rows rows)) as [planes|]; [|reflexivity].
    rewrite last_opt_map. destruct (last_opt sigs) as [d|]; [|reflexivity]. simpl.
    rewrite generic_cover_ren, ren_absent.
    destruct (has_absent (generic_cover sigs planes)); reflexivity.
Qed.

Lemma flop_args_ren k d q e s r x :
  flop_args (I k d) (I k q) (option_map (I k) e) (option_map (I k) s) (option_map (I k) r) x
  = ren_bexp k (flop_args d q e s r x).
Proof.
  unfold flop_args.
  destruct (pin_index x =? 0); [reflexivity|].
  destruct (pin_index x =? 1); [destruct e; reflexivity|].
  destruct (pin_index x =? 2); [destruct s; reflexivity|].
  destruct (pin_index x =? 3); [destruct r; reflexivity|].
  destruct (pin_index x =? 4); reflexivity.
Qed.

Lemma import_cmd_ren k c : import_cmd (ren_cmd k c) = option_map (ren_drv k) (import_cmd c).
Proof.
  destruct c as [sigs rows|d q i|cell d q e s r|n b]; simpl.
  - rewrite extract_cover_ren. destruct (extract_cover sigs rows) as [[o e]|]; reflexivity.
  - unfold extract_latch. destruct (existsb (Z.eqb i) latch_init_codes); [|reflexivity].
    destruct (latch_init_map i); reflexivity.
  - unfold extract_flop. destruct (existsb (String.eqb cell) dff_names); [|reflexivity].
    destruct (str_assoc flop_table cell) as [body|]; [|reflexivity].
    assert (E : bsubst (flop_args (I k d) (I k q) (option_map (I k) e) (option_map (I k) s)
                                  (option_map (I k) r)) body
                = ren_bexp k (bsubst (flop_args d q e s r) body)).
    { unfold ren_bexp at 1. rewrite bsubst_bsubst. apply bsubst_ext. intro x. apply flop_args_ren. }
    rewrite E, ren_absent. destruct (has_absent (bsubst (flop_args d q e s r) body)); reflexivity.
  - reflexivity.
Qed.

Lemma mapM_map_ren k : forall l,
  mapM import_cmd (map (ren_cmd k) l) = option_map (map (ren_drv k)) (mapM import_cmd l).
Proof.
  induction l as [|c l IH]; [reflexivity|]. simpl.
  rewrite import_cmd_ren, IH.
  destruct (import_cmd c); [|reflexivity]. simpl. destruct (mapM import_cmd l); reflexivity.
Qed.

Lemma mapM_app {A B} (f : A -> option B) : forall l1 l2,
  mapM f (l1 ++ l2) = match mapM f l1, mapM f l2 with
                      | Some a, Some b => Some (a ++ b)%list
                      | _, _ => None
                      end.
Proof.
  induction l1 as [|x l1 IH]; intro l2; simpl.
  - destruct (mapM f l2); reflexivity.
  - destruct (f x); [|reflexivity]. rewrite IH.
    destruct (mapM f l1); [|reflexivity]. destruct (mapM f l2); reflexivity.
Qed.

(* a formal/actual connection imports as the buffer the code creates
   (wf <<= wa  /  wa <<= wf): needs the simple-wire entry of the cover table *)
Lemma import_buffer a b : import_cmd (Names [a; b] [[P1]]) = Some (b, DComb (BVar a)).
Proof. vm_compute. reflexivity. Qed.

Lemma bind_drv_cmd k sub fa :
  bind_drv k sub fa = match bind_cmd k sub fa with Some c => import_cmd c | None => None end.
Proof.
  destruct fa as [formal actual]. unfold bind_drv, bind_cmd.
  destruct (sig_mem formal (minputs sub)); [rewrite import_buffer; reflexivity|].
  destruct (sig_mem formal (moutputs sub)); [rewrite import_buffer; reflexivity|reflexivity].
Qed.

Lemma mapM_bind k sub : forall binds,
  mapM (bind_drv k sub) binds
  = match mapM (bind_cmd k sub) binds with Some cs => mapM import_cmd cs | None => None end.
Proof.
  induction binds as [|fa binds IH]; [reflexivity|]. simpl.
  rewrite bind_drv_cmd, IH.
  destruct (bind_cmd k sub fa) as [c|]; [|reflexivity].
  destruct (mapM (bind_cmd k sub) binds) as [cs|]; simpl.
  - reflexivity.
  - destruct (import_cmd c); reflexivity.
Qed.

(* ---------- the two instantiation loops, named ---------- *)
Section Go.
  Variable f : nat.
  Variable lib : list (Z * model).

  Fixpoint fgo (cs : list command) (k : Z) {struct cs} : option (list command) :=
    match cs with
    | [] => Some []
    | Subckt name binds :: r =>
        match zassoc lib name with
        | None => None
        | Some sub =>
          match flatten f lib (mcmds sub), mapM (bind_cmd k sub) binds, fgo r (k + 1) with
          | Some inner, Some conns, Some rest => Some (map (ren_cmd k) inner ++ conns ++ rest)%list
          | _, _, _ => None
          end
        end
    | c :: r => match fgo r (k + 1) with Some rest => Some (c :: rest) | None => None end
    end.

  Fixpoint igo (cs : list command) (k : Z) {struct cs} : option (list (sig * drv)) :=
    match cs with
    | [] => Some []
    | Subckt name binds :: r =>
        match zassoc lib name with
        | None => None
        | Some sub =>
          match import_cmds f lib (mcmds sub), mapM (bind_drv k sub) binds, igo r (k + 1) with
          | Some inner, Some conns, Some rest => Some (map (ren_drv k) inner ++ conns ++ rest)%list
          | _, _, _ => None
          end
        end
    | c :: r => match import_cmd c, igo r (k + 1) with
                | Some d, Some rest => Some (d :: rest)
                | _, _ => None
                end
    end.
End Go.

Lemma flatten_S f lib cmds : flatten (S f) lib cmds = fgo f lib cmds 0.
Proof. reflexivity. Qed.

Lemma import_cmds_S f lib cmds : import_cmds (S f) lib cmds = igo f lib cmds 0.
Proof. reflexivity. Qed.

Definition import_of_flat (o : option (list command)) : option (list (sig * drv)) :=
  match o with Some cs => mapM import_cmd cs | None => None end.

Lemma igo_fgo f lib :
  (forall cmds, import_cmds f lib cmds = import_of_flat (flatten f lib cmds)) ->
  forall cs k, igo f lib cs k = import_of_flat (fgo f lib cs k).
Proof.
  intro IHf. induction cs as [|c cs IH]; intro k; [reflexivity|].
  destruct c as [sigs rows|d q i|cell d q e s r|name binds].
  - cbn [igo fgo]. rewrite IH. destruct (fgo f lib cs (k + 1)) as [rest|]; simpl.
    + reflexivity.
    + destruct (match extract_cover sigs rows with Some (d, e) => Some (d, DComb e) | None => None end);
        reflexivity.
  - cbn [igo fgo]. rewrite IH. destruct (fgo f lib cs (k + 1)) as [rest|]; simpl.
    + reflexivity.
    + destruct (extract_latch d q i); reflexivity.
  - cbn [igo fgo]. rewrite IH. destruct (fgo f lib cs (k + 1)) as [rest|]; simpl.
    + reflexivity.
    + destruct (extract_flop cell d q e s r); reflexivity.
  - cbn [igo fgo]. destruct (zassoc lib name) as [sub|]; [|reflexivity].
    rewrite IHf, IH, mapM_bind.
    destruct (flatten f lib (mcmds sub)) as [inner|]; [|reflexivity].
    destruct (mapM (bind_cmd k sub) binds) as [conns|];
      [|simpl; destruct (mapM import_cmd inner); reflexivity].
    destruct (fgo f lib cs (k + 1)) as [rest|];
      [|simpl; destruct (mapM import_cmd inner); [destruct (mapM import_cmd conns)|]; reflexivity].
    simpl. rewrite !mapM_app, mapM_map_ren.
    destruct (mapM import_cmd inner); [|reflexivity]. simpl.
    destruct (mapM import_cmd conns); [|reflexivity].
    destruct (mapM import_cmd rest); reflexivity.
Qed.

(* Importing a hierarchy = importing its flattening, for every library,
   every nesting depth and every fuel (both fail together). *)
Theorem import_cmds_flatten : forall f lib cmds,
  import_cmds f lib cmds = import_of_flat (flatten f lib cmds).
Proof.
  induction f as [|f IH]; intros lib cmds; [reflexivity|].
  rewrite flatten_S, import_cmds_S. apply igo_fgo. intro. apply IH.
Qed.

Definition flat_wf (cs : list command) : bool := forallb cmd_wf cs.

(* hierarchical models: the imported block computes blif_run of the flattened model *)
Theorem hier_import_correct : forall fuel lib top c fm,
  import_blif fuel lib top = Some c -> flatten_model fuel lib top = Some fm ->
  model_wf fm = true ->
  (forall fuel' st inss, c_run fuel' c st inss = blif_run fuel' fm st inss)
  /\ blif_init_ok fm (slookup (c_init c)).
Proof.
  intros fuel lib top c fm Hi Hf Hwf.
  unfold import_blif in Hi. unfold flatten_model in Hf.
  rewrite import_cmds_flatten in Hi.
  destruct (flatten fuel lib (mcmds top)) as [cs|]; [|discriminate].
  inversion Hf; subst fm. simpl in Hi.
  apply flat_import_correct; [exact Hwf|].
  unfold import_flat. simpl. destruct (mapM import_cmd cs); [|discriminate].
  inversion Hi; reflexivity.
Qed.

(* and the importer accepts a hierarchy exactly when it accepts its flattening *)
Theorem hier_import_defined : forall fuel lib top,
  import_blif fuel lib top
  = match flatten_model fuel lib top with Some fm => import_flat fm | None => None end.
Proof.
  intros. unfold import_blif, flatten_model, import_flat. rewrite import_cmds_flatten.
  destruct (flatten fuel lib (mcmds top)); reflexivity.
Qed.
