(* C20 -- proofs about the ordering machinery of NatSort.v:
   * comparisons are strict total orders (lexicographic lifting);
   * the stable sort is a permutation, sorted, stable, and THE unique such list;
   * sorting is invariant under permutation of its input when keys are distinct;
   * the natural key is injective on names without superfluous leading zeros, and
     collides on "x01"/"x1"; the tie-broken key is injective on all names. *)
From Coq Require Import String Ascii List NArith ZArith Bool Lia Permutation Sorted.
From PyRTL Require Import IO.NatSort.
Import ListNotations.

(* ------------------------------------------------------------------ *)
(* comparisons                                                          *)

Record cmp_ok {A : Type} (cmp : A -> A -> comparison) : Prop := {
  cmp_eq : forall a b, cmp a b = Eq -> a = b;
  cmp_refl : forall a, cmp a a = Eq;
  cmp_sym : forall a b, cmp b a = CompOpp (cmp a b);
  cmp_trans : forall a b c, cmp a b = Lt -> cmp b c = Lt -> cmp a c = Lt }.

Lemma lex_cmp_ok : forall A (cmp : A -> A -> comparison), cmp_ok cmp -> cmp_ok (lex_cmp cmp).
Proof.
  intros A cmp H. constructor.
  - induction a as [|x r IH]; destruct b as [|y r2]; simpl; try discriminate; auto.
    destruct (cmp x y) eqn:E; try discriminate. intro Hr.
    apply (cmp_eq _ H) in E. subst. f_equal. auto.
  - induction a as [|x r IH]; simpl; auto. rewrite (cmp_refl _ H). exact IH.
  - induction a as [|x r IH]; destruct b as [|y r2]; simpl; auto.
    rewrite (cmp_sym _ H x y). destruct (cmp x y); simpl; auto.
  - induction a as [|x r IH]; destruct b as [|y r2]; destruct c as [|z r3]; simpl;
      try discriminate; auto.
    destruct (cmp x y) eqn:E1; try discriminate.
    + apply (cmp_eq _ H) in E1. subst y.
      destruct (cmp x z) eqn:E2; try discriminate; auto. apply IH.
    + intros _. destruct (cmp y z) eqn:E2; try discriminate.
      * apply (cmp_eq _ H) in E2. subst z. rewrite E1. auto.
      * intros _. rewrite (cmp_trans _ H x y z E1 E2). reflexivity.
Qed.

Lemma N_compare_ok : cmp_ok N.compare.
Proof.
  constructor.
  - intros a b. apply N.compare_eq.
  - apply N.compare_refl.
  - intros a b. apply N.compare_antisym.
  - intros a b c H1 H2. rewrite N.compare_lt_iff in *. lia.
Qed.

Lemma cmp_ok_inj : forall A B (f : A -> B) (cmp : B -> B -> comparison),
  (forall a b, f a = f b -> a = b) -> cmp_ok cmp -> cmp_ok (fun a b => cmp (f a) (f b)).
Proof.
  intros A B f cmp Hinj H. constructor.
  - intros a b E. apply Hinj. apply (cmp_eq _ H). exact E.
  - intros a. apply (cmp_refl _ H).
  - intros a b. apply (cmp_sym _ H).
  - intros a b c. apply (cmp_trans _ H).
Qed.

Lemma code_inj : forall a b, code a = code b -> a = b.
Proof.
  unfold code. intros a b E.
  rewrite <- (ascii_N_embedding a), <- (ascii_N_embedding b), E. reflexivity.
Qed.

Lemma ascii_cmp_ok : cmp_ok ascii_cmp.
Proof. exact (cmp_ok_inj _ _ code N.compare code_inj N_compare_ok). Qed.

Lemma str_cmp_ok : cmp_ok str_cmp.
Proof. exact (lex_cmp_ok _ _ ascii_cmp_ok). Qed.

Lemma tok_cmp_ok : cmp_ok tok_cmp.
Proof.
  constructor.
  - intros [a|a] [b|b]; simpl; try discriminate; intro E.
    + f_equal. apply (cmp_eq _ str_cmp_ok). exact E.
    + f_equal. apply N.compare_eq. exact E.
  - intros [a|a]; simpl. apply (cmp_refl _ str_cmp_ok). apply N.compare_refl.
  - intros [a|a] [b|b]; simpl; auto. apply (cmp_sym _ str_cmp_ok). apply N.compare_antisym.
  - intros [a|a] [b|b] [c|c]; simpl; try discriminate; auto.
    apply (cmp_trans _ str_cmp_ok). apply (cmp_trans _ N_compare_ok).
Qed.

Lemma key_cmp_ok : cmp_ok key_cmp.
Proof. exact (lex_cmp_ok _ _ tok_cmp_ok). Qed.

Lemma pair_cmp_ok : forall A B (ca : A -> A -> comparison) (cb : B -> B -> comparison),
  cmp_ok ca -> cmp_ok cb -> cmp_ok (pair_cmp ca cb).
Proof.
  intros A B ca cb Ha Hb. unfold pair_cmp. constructor.
  - intros [a1 b1] [a2 b2]; simpl. destruct (ca a1 a2) eqn:E; try discriminate.
    intro E2. apply (cmp_eq _ Ha) in E. apply (cmp_eq _ Hb) in E2. subst. reflexivity.
  - intros [a b]; simpl. rewrite (cmp_refl _ Ha). apply (cmp_refl _ Hb).
  - intros [a1 b1] [a2 b2]; simpl. rewrite (cmp_sym _ Ha a1 a2).
    destruct (ca a1 a2); simpl; auto. apply (cmp_sym _ Hb).
  - intros [a1 b1] [a2 b2] [a3 b3]; simpl.
    destruct (ca a1 a2) eqn:E1; try discriminate.
    + apply (cmp_eq _ Ha) in E1. subst a2.
      destruct (ca a1 a3) eqn:E2; try discriminate; auto. apply (cmp_trans _ Hb).
    + intros _. destruct (ca a2 a3) eqn:E2; try discriminate.
      * apply (cmp_eq _ Ha) in E2. subst a3. rewrite E1. auto.
      * intros _. rewrite (cmp_trans _ Ha _ _ _ E1 E2). reflexivity.
Qed.

Lemma key2_cmp_ok : cmp_ok key2_cmp.
Proof. exact (pair_cmp_ok _ _ _ _ key_cmp_ok str_cmp_ok). Qed.

(* what `sorted` needs of `<` on keys *)
Record strict_total {K : Type} (ltb : K -> K -> bool) : Prop := {
  st_trans : forall a b c, ltb a b = true -> ltb b c = true -> ltb a c = true;
  st_asym : forall a b, ltb a b = true -> ltb b a = false;
  st_total : forall a b, ltb a b = false -> ltb b a = false -> a = b }.

Lemma ltb_of_strict_total : forall K (cmp : K -> K -> comparison),
  cmp_ok cmp -> strict_total (ltb_of cmp).
Proof.
  intros K cmp H. unfold ltb_of. constructor.
  - intros a b c. destruct (cmp a b) eqn:E1; try discriminate.
    destruct (cmp b c) eqn:E2; try discriminate. intros _ _.
    rewrite (cmp_trans _ H _ _ _ E1 E2). reflexivity.
  - intros a b. rewrite (cmp_sym _ H a b). destruct (cmp a b); simpl; auto; discriminate.
  - intros a b. rewrite (cmp_sym _ H a b). destruct (cmp a b) eqn:E; simpl; try discriminate.
    intros _ _. apply (cmp_eq _ H). exact E.
Qed.

Lemma key_ltb_strict_total : strict_total key_ltb.
Proof. exact (ltb_of_strict_total _ _ key_cmp_ok). Qed.
Lemma str_ltb_strict_total : strict_total str_ltb.
Proof. exact (ltb_of_strict_total _ _ str_cmp_ok). Qed.
Lemma key2_ltb_strict_total : strict_total key2_ltb.
Proof. exact (ltb_of_strict_total _ _ key2_cmp_ok). Qed.

(* ------------------------------------------------------------------ *)
(* the stable sort                                                      *)

Section SortFacts.
  Context {A K : Type} (key : A -> K) (ltb : K -> K -> bool).
  Hypothesis ST : strict_total ltb.

  (* x may stand before y *)
  Definition le_key (x y : A) : Prop := ltb (key y) (key x) = false.

  Lemma ltb_irrefl : forall a, ltb a a = false.
  Proof.
    intro a. destruct (ltb a a) eqn:E; auto. rewrite (st_asym _ ST _ _ E) in E. discriminate.
  Qed.

  Lemma le_key_trans : forall x y z, le_key x y -> le_key y z -> le_key x z.
  Proof.
    unfold le_key. intros x y z Hxy Hyz.
    destruct (ltb (key z) (key x)) eqn:Hzx; auto.
    destruct (ltb (key x) (key y)) eqn:Hxy2.
    - rewrite (st_trans _ ST _ _ _ Hzx Hxy2) in Hyz. discriminate.
    - rewrite (st_total _ ST _ _ Hxy2 Hxy) in Hzx. rewrite Hzx in Hyz. discriminate.
  Qed.

  Lemma insert_perm : forall x l, Permutation (insert key ltb x l) (x :: l).
  Proof.
    intros x l. induction l as [|y r IH]; simpl; auto.
    destruct (ltb (key y) (key x)); auto.
    eapply perm_trans. apply perm_skip. exact IH. apply perm_swap.
  Qed.

  Lemma sort_by_perm : forall l, Permutation (sort_by key ltb l) l.
  Proof.
    induction l as [|x r IH]; simpl; auto.
    eapply perm_trans. apply insert_perm. apply perm_skip. exact IH.
  Qed.

  Lemma insert_sorted : forall x l,
    StronglySorted le_key l -> StronglySorted le_key (insert key ltb x l).
  Proof.
    intros x l H. induction H as [|y r Hr IH Hall]; simpl.
    - constructor. constructor. constructor.
    - destruct (ltb (key y) (key x)) eqn:E.
      + constructor; auto.
        eapply Permutation_Forall. apply Permutation_sym. apply insert_perm.
        constructor; auto. unfold le_key. apply (st_asym _ ST). exact E.
      + constructor. constructor; auto.
        constructor. exact E.
        eapply Forall_impl; [|exact Hall]. intros z Hz. eapply le_key_trans; eauto.
  Qed.

  Lemma sort_by_sorted : forall l, StronglySorted le_key (sort_by key ltb l).
  Proof.
    induction l as [|x r IH]; simpl. constructor. apply insert_sorted. exact IH.
  Qed.

  (* two sorted arrangements of the same multiset coincide as soon as elements
     that may stand on either side of each other are equal *)
  Lemma sorted_perm_unique : forall l1 l2,
    StronglySorted le_key l1 -> StronglySorted le_key l2 -> Permutation l1 l2 ->
    (forall x y, In x l1 -> In y l1 -> le_key x y -> le_key y x -> x = y) ->
    l1 = l2.
  Proof.
    induction l1 as [|a r1 IH]; intros l2 S1 S2 P Anti.
    - apply Permutation_nil in P. auto.
    - destruct l2 as [|b r2].
      + apply Permutation_sym, Permutation_nil in P. discriminate.
      + inversion S1 as [|? ? S1r F1]; subst. inversion S2 as [|? ? S2r F2]; subst.
        assert (Hab : a = b).
        { assert (Ia : In a (b :: r2)) by (eapply Permutation_in; [exact P | left; auto]).
          assert (Ib : In b (a :: r1)) by (eapply Permutation_in; [apply Permutation_sym; exact P | left; auto]).
          destruct Ia as [Ia|Ia]; [auto|].
          destruct Ib as [Ib|Ib]; [auto|].
          rewrite Forall_forall in F1, F2.
          apply Anti; [left; auto | right; auto | apply F1; auto | apply F2; auto]. }
        subst b. f_equal. apply IH; auto.
        * eapply Permutation_cons_inv. exact P.
        * intros x y Hx Hy. apply Anti; right; auto.
  Qed.

  (* Theorem 1 *)
  Theorem sort_by_key_perm_invariant : forall l l',
    (forall x y, In x l -> In y l -> key x = key y -> x = y) ->
    Permutation l l' -> sort_by key ltb l = sort_by key ltb l'.
  Proof.
    intros l l' Inj P.
    apply sorted_perm_unique; try apply sort_by_sorted.
    - eapply perm_trans. apply sort_by_perm.
      eapply perm_trans. exact P. apply Permutation_sym, sort_by_perm.
    - intros x y Hx Hy H1 H2.
      apply Inj.
      + eapply Permutation_in. apply sort_by_perm. exact Hx.
      + eapply Permutation_in. apply sort_by_perm. exact Hy.
      + apply (st_total _ ST); assumption.
  Qed.

  (* ---- stability: elements with equivalent keys keep their input order ---- *)
  Definition same_class (k : K) (x : A) : bool := negb (ltb (key x) k) && negb (ltb k (key x)).

  Lemma insert_stable : forall k x l,
    filter (same_class k) (insert key ltb x l) = filter (same_class k) (x :: l).
  Proof.
    intros k x l. induction l as [|y r IH]; auto.
    cbn [insert]. destruct (ltb (key y) (key x)) eqn:E; auto.
    cbn [filter]. rewrite IH. cbn [filter].
    destruct (same_class k x) eqn:Cx; auto.
    destruct (same_class k y) eqn:Cy; auto.
    (* y < x and both equivalent to k: impossible *)
    exfalso. unfold same_class in Cx, Cy.
    apply andb_prop in Cx. destruct Cx as [Cx1 Cx2].
    apply andb_prop in Cy. destruct Cy as [Cy1 Cy2].
    apply negb_true_iff in Cx1, Cx2, Cy1, Cy2.
    rewrite (st_total _ ST _ _ Cx1 Cx2) in E. rewrite E in Cy1. discriminate.
  Qed.

  Theorem sort_by_stable : forall k l,
    filter (same_class k) (sort_by key ltb l) = filter (same_class k) l.
  Proof.
    intros k l. induction l as [|x r IH]; auto.
    cbn [sort_by fold_right]. rewrite insert_stable. cbn [filter].
    fold (sort_by key ltb r). rewrite IH. reflexivity.
  Qed.
End SortFacts.

(* ------------------------------------------------------------------ *)
(* chunks and the natural key                                           *)

Lemma chunks_concat : forall s, List.concat (map snd (chunks s)) = s.
Proof.
  induction s as [|c r IH]; auto.
  cbn [chunks]. destruct (chunks r) as [|[b run] rest] eqn:E.
  - simpl in *. subst. reflexivity.
  - destruct (Bool.eqb b (is_digit c)); simpl in *; rewrite <- IH; reflexivity.
Qed.

Definition chunk_wf (c : bool * list ascii) : Prop :=
  snd c <> [] /\ Forall (fun a => is_digit a = fst c) (snd c).

Lemma chunks_wf : forall s, Forall chunk_wf (chunks s).
Proof.
  induction s as [|c r IH]; cbn [chunks]. constructor.
  destruct (chunks r) as [|[b run] rest] eqn:E.
  - constructor; [|constructor]. split; simpl. discriminate. constructor; auto.
  - inversion IH as [|? ? [Hne Hall] Hrest]; subst. simpl in *.
    destruct (Bool.eqb b (is_digit c)) eqn:Eb.
    + apply eqb_prop in Eb. constructor; auto. split; simpl. discriminate.
      constructor; auto.
    + constructor. split; simpl. discriminate. constructor; auto.
      constructor; auto. split; auto.
Qed.

(* adjacent chunks have different tags *)
Fixpoint tags_alternate (l : list (bool * list ascii)) : Prop :=
  match l with
  | c1 :: ((c2 :: _) as r) => fst c1 <> fst c2 /\ tags_alternate r
  | _ => True
  end.

Lemma chunks_alternate : forall s, tags_alternate (chunks s).
Proof.
  induction s as [|c r IH]; cbn [chunks]. exact I.
  destruct (chunks r) as [|[b run] rest] eqn:E.
  - exact I.
  - destruct (Bool.eqb b (is_digit c)) eqn:Eb.
    + destruct rest; simpl in *; auto.
    + simpl. split; auto. simpl. intro H. rewrite H in Eb. rewrite eqb_reflx in Eb. discriminate.
Qed.

(* ---- value of a digit run ---- *)
Lemma digit_val_bound : forall c, is_digit c = true -> (digit_val c <= 9)%N.
Proof.
  unfold is_digit, digit_val. intros c H. apply andb_prop in H. destruct H as [H1 H2].
  apply N.leb_le in H1, H2. lia.
Qed.

Lemma digit_val_inj : forall a b, is_digit a = true -> is_digit b = true ->
  digit_val a = digit_val b -> a = b.
Proof.
  unfold is_digit, digit_val. intros a b Ha Hb E.
  apply andb_prop in Ha. destruct Ha as [Ha1 Ha2]. apply andb_prop in Hb. destruct Hb as [Hb1 Hb2].
  apply N.leb_le in Ha1, Ha2, Hb1, Hb2. apply code_inj. lia.
Qed.

Definition val_acc (acc : N) (ds : list ascii) : N :=
  fold_left (fun acc c => 10 * acc + digit_val c)%N ds acc.

Lemma val_acc_split : forall ds acc,
  val_acc acc ds = (acc * 10 ^ N.of_nat (length ds) + val_acc 0 ds)%N.
Proof.
  induction ds as [|d r IH]; intro acc.
  - simpl. lia.
  - unfold val_acc in *. cbn [fold_left length]. rewrite IH. rewrite (IH (10 * 0 + digit_val d)%N).
    rewrite Nat2N.inj_succ, N.pow_succ_r'. lia.
Qed.

Lemma val_bound : forall ds, Forall (fun a => is_digit a = true) ds ->
  (val_acc 0 ds < 10 ^ N.of_nat (length ds))%N.
Proof.
  induction ds as [|d r IH]; intro H.
  - simpl. lia.
  - inversion H; subst. unfold val_acc in *. cbn [fold_left length].
    fold (val_acc (10 * 0 + digit_val d) r). rewrite val_acc_split.
    specialize (IH H3). unfold val_acc in IH.
    pose proof (digit_val_bound d H2).
    rewrite Nat2N.inj_succ, N.pow_succ_r'.
    fold (val_acc 0 r). fold (val_acc 0 r) in IH. nia.
Qed.

Lemma val_cons : forall d r,
  val_acc 0 (d :: r) = (digit_val d * 10 ^ N.of_nat (length r) + val_acc 0 r)%N.
Proof.
  intros d r. unfold val_acc at 1. cbn [fold_left]. fold (val_acc (10 * 0 + digit_val d) r).
  rewrite val_acc_split. lia.
Qed.

Lemma radix_unique : forall P d1 d2 v1 v2 : N,
  (v1 < P -> v2 < P -> d1 * P + v1 = d2 * P + v2 -> d1 = d2 /\ v1 = v2)%N.
Proof.
  intros P d1 d2 v1 v2 B1 B2 E.
  assert (d1 = d2).
  { destruct (N.lt_trichotomy d1 d2) as [L|[L|L]]; auto; exfalso.
    - assert ((d1 + 1) * P <= d2 * P)%N as M by (apply N.mul_le_mono_r; lia).
      rewrite N.mul_add_distr_r in M. lia.
    - assert ((d2 + 1) * P <= d1 * P)%N as M by (apply N.mul_le_mono_r; lia).
      rewrite N.mul_add_distr_r in M. lia. }
  subst. split; auto. lia.
Qed.

(* same length => the value determines the digits *)
Lemma val_inj_same_length : forall ds1 ds2,
  Forall (fun a => is_digit a = true) ds1 -> Forall (fun a => is_digit a = true) ds2 ->
  length ds1 = length ds2 -> val_acc 0 ds1 = val_acc 0 ds2 -> ds1 = ds2.
Proof.
  induction ds1 as [|d1 r1 IH]; destruct ds2 as [|d2 r2]; intros H1 H2 HL HV; try discriminate; auto.
  inversion H1; subst. inversion H2; subst. injection HL as HL.
  rewrite !val_cons in HV. rewrite HL in HV.
  pose proof (val_bound r1 H4) as B1. pose proof (val_bound r2 H6) as B2. rewrite HL in B1.
  destruct (radix_unique _ _ _ _ _ B1 B2 HV) as [Hd Hr].
  f_equal. apply digit_val_inj; auto. apply IH; auto.
Qed.

(* no leading zero => the value determines the length *)
Definition lz_free (ds : list ascii) : Prop :=
  match ds with d :: _ :: _ => code d <> 48%N | _ => True end.

Lemma val_lower : forall d r, is_digit d = true -> code d <> 48%N ->
  (10 ^ N.of_nat (length r) <= val_acc 0 (d :: r))%N.
Proof.
  intros d r Hd Hz. rewrite val_cons.
  assert (1 <= digit_val d)%N.
  { unfold is_digit, digit_val in *. apply andb_prop in Hd. destruct Hd as [H1 H2].
    apply N.leb_le in H1, H2. lia. }
  nia.
Qed.

Lemma pow10_mono : forall a b, (a <= b)%nat -> (10 ^ N.of_nat a <= 10 ^ N.of_nat b)%N.
Proof. intros a b H. apply N.pow_le_mono_r; lia. Qed.

Lemma val_length_lt : forall ds1 ds2,
  Forall (fun a => is_digit a = true) ds1 -> Forall (fun a => is_digit a = true) ds2 ->
  ds1 <> [] -> lz_free ds2 -> (length ds1 < length ds2)%nat ->
  (val_acc 0 ds1 < val_acc 0 ds2)%N.
Proof.
  intros ds1 ds2 H1 H2 Hne Hz HL.
  destruct ds2 as [|d2 [|e2 r2]].
  - simpl in HL. lia.
  - destruct ds1; [contradiction|]. simpl in HL. lia.
  - simpl in Hz. inversion H2; subst.
    pose proof (val_lower d2 (e2 :: r2) H3 Hz) as L.
    pose proof (val_bound ds1 H1) as B.
    assert (10 ^ N.of_nat (length ds1) <= 10 ^ N.of_nat (length (e2 :: r2)))%N.
    { apply pow10_mono. simpl in *. lia. }
    lia.
Qed.

Lemma digits_val_inj : forall ds1 ds2,
  Forall (fun a => is_digit a = true) ds1 -> Forall (fun a => is_digit a = true) ds2 ->
  ds1 <> [] -> ds2 <> [] -> lz_free ds1 -> lz_free ds2 ->
  digits_val ds1 = digits_val ds2 -> ds1 = ds2.
Proof.
  intros ds1 ds2 H1 H2 N1 N2 Z1 Z2 E. unfold digits_val in E. fold (val_acc 0 ds1) (val_acc 0 ds2) in E.
  destruct (Nat.lt_trichotomy (length ds1) (length ds2)) as [L|[L|L]].
  - pose proof (val_length_lt ds1 ds2 H1 H2 N1 Z2 L). lia.
  - apply val_inj_same_length; auto.
  - pose proof (val_length_lt ds2 ds1 H2 H1 N2 Z1 L). lia.
Qed.

(* ---- injectivity of the natural key ---- *)
Lemma run_ok_lz_free : forall b r, run_ok (b, r) = true -> b = true -> lz_free r.
Proof.
  unfold run_ok, lz_free. intros b r H Hb. subst b. simpl in H.
  destruct r as [|d [|e r]]; auto.
  apply negb_true_iff in H. apply N.eqb_neq in H. exact H.
Qed.

Lemma tok_of_chunk_inj : forall c1 c2,
  chunk_wf c1 -> chunk_wf c2 -> run_ok c1 = true -> run_ok c2 = true ->
  tok_of_chunk c1 = tok_of_chunk c2 -> c1 = c2.
Proof.
  intros [b1 r1] [b2 r2] [N1 F1] [N2 F2] O1 O2 E. unfold tok_of_chunk in E. simpl in *.
  destruct b1, b2; try discriminate.
  - injection E as E. f_equal. apply digits_val_inj; auto.
    eapply run_ok_lz_free; eauto. eapply run_ok_lz_free; eauto.
  - injection E as E. subst. reflexivity.
Qed.

Lemma map_tok_inj : forall l1 l2,
  Forall chunk_wf l1 -> Forall chunk_wf l2 ->
  forallb run_ok l1 = true -> forallb run_ok l2 = true ->
  map tok_of_chunk l1 = map tok_of_chunk l2 -> l1 = l2.
Proof.
  induction l1 as [|c1 r1 IH]; destruct l2 as [|c2 r2]; intros W1 W2 O1 O2 E; try discriminate; auto.
  inversion W1; subst. inversion W2; subst. simpl in O1, O2.
  apply andb_prop in O1. destruct O1. apply andb_prop in O2. destruct O2.
  injection E as E1 E2. f_equal. apply tok_of_chunk_inj; auto. apply IH; auto.
Qed.

(* tokens coming from chunks are never the empty text *)
Definition tok_nonempty (t : tok) : Prop := match t with TS [] => False | _ => True end.

Lemma toks_nonempty : forall l, Forall chunk_wf l -> Forall tok_nonempty (map tok_of_chunk l).
Proof.
  induction l as [|[b r] l IH]; intro W; simpl. constructor.
  inversion W as [|? ? [Hne _] Wl]; subst. constructor; auto.
  unfold tok_of_chunk. simpl in *. destruct b; simpl; auto. destruct r; auto.
Qed.

Lemma pad_front_inj : forall l1 l2, Forall tok_nonempty l1 -> Forall tok_nonempty l2 ->
  pad_front l1 = pad_front l2 -> l1 = l2.
Proof.
  intros l1 l2 N1 N2 E. unfold pad_front in E.
  destruct l1 as [|[s1|n1] r1]; destruct l2 as [|[s2|n2] r2]; auto.
  - injection E as E1 E2. subst. inversion N2 as [|? ? Hh _]; subst. simpl in Hh. contradiction.
  - injection E as E. discriminate.
  - injection E as E1 E2. subst. inversion N1 as [|? ? Hh _]; subst. simpl in Hh. contradiction.
  - injection E as E1 E2. subst. inversion N1 as [|? ? Hh _]; subst. simpl in Hh. contradiction.
  - injection E as E. discriminate.
  - injection E as E1 E2. subst. inversion N2 as [|? ? Hh _]; subst. simpl in Hh. contradiction.
  - injection E as E1 E2. subst. reflexivity.
Qed.

Lemma pad_front_nonempty_tail : forall l, Forall tok_nonempty l ->
  exists h, pad_front l = h :: l \/ (pad_front l = l /\ exists t, l = h :: t).
Proof.
  intros l _. unfold pad_front. destruct l as [|[s|n] r].
  - exists (TS []). left. reflexivity.
  - exists (TS s). right. split; eauto.
  - exists (TS []). left. reflexivity.
Qed.

Lemma pad_back_inj : forall l1 l2,
  Forall tok_nonempty (tl l1) -> Forall tok_nonempty (tl l2) -> l1 <> [] -> l2 <> [] ->
  pad_back l1 = pad_back l2 -> l1 = l2.
Proof.
  intros l1 l2 N1 N2 E1 E2 E. unfold pad_back in E.
  destruct (rev l1) as [|t1 q1] eqn:R1.
  { apply (f_equal (@rev tok)) in R1. rewrite rev_involutive in R1. simpl in R1. contradiction. }
  destruct (rev l2) as [|t2 q2] eqn:R2.
  { apply (f_equal (@rev tok)) in R2. rewrite rev_involutive in R2. simpl in R2. contradiction. }
  assert (L1 : l1 = rev q1 ++ [t1]).
  { rewrite <- (rev_involutive l1), R1. reflexivity. }
  assert (L2 : l2 = rev q2 ++ [t2]).
  { rewrite <- (rev_involutive l2), R2. reflexivity. }
  (* the last element of li is ti; a padded list ends with TS [] *)
  destruct t1 as [s1|n1]; destruct t2 as [s2|n2]; auto.
  - (* l1 = l2 ++ [TS []] : then l1's last is TS [] and l1 has a tail containing it, or l1 is a singleton *)
    exfalso. rewrite L1 in E. rewrite L2 in E.
    rewrite <- app_assoc in E. simpl in E.
    assert (Hl : last (rev q1 ++ [TS s1]) (TN 0) = last (rev q2 ++ [TN n2; TS []]) (TN 0)) by (rewrite E; auto).
    rewrite last_last in Hl.
    replace (rev q2 ++ [TN n2; TS []]) with ((rev q2 ++ [TN n2]) ++ [TS []]) in Hl, E
      by (rewrite <- app_assoc; reflexivity).
    rewrite last_last in Hl. injection Hl as Hl. subst s1.
    apply app_inj_tail in E. destruct E as [E _].
    (* rev q1 = rev q2 ++ [TN n2] is nonempty, so TS [] lies in the tail of l1 *)
    rewrite L1, E in N1.
    destruct (rev q2) as [|h t]; simpl in N1.
    + inversion N1; subst. simpl in *. contradiction.
    + rewrite Forall_app in N1. destruct N1 as [_ N1].
      inversion N1 as [|? ? Hh _]; subst. simpl in Hh. contradiction.
  - exfalso. rewrite L1 in E. rewrite L2 in E.
    rewrite <- app_assoc in E. simpl in E.
    assert (Hl : last (rev q1 ++ [TN n1; TS []]) (TN 0) = last (rev q2 ++ [TS s2]) (TN 0)) by (rewrite E; auto).
    rewrite last_last in Hl.
    replace (rev q1 ++ [TN n1; TS []]) with ((rev q1 ++ [TN n1]) ++ [TS []]) in Hl, E
      by (rewrite <- app_assoc; reflexivity).
    rewrite last_last in Hl. injection Hl as Hl. subst s2.
    apply app_inj_tail in E. destruct E as [E _].
    rewrite L2, <- E in N2.
    destruct (rev q1) as [|h t]; simpl in N2.
    + inversion N2; subst. simpl in *. contradiction.
    + rewrite Forall_app in N2. destruct N2 as [_ N2].
      inversion N2 as [|? ? Hh _]; subst. simpl in Hh. contradiction.
  - apply app_inj_tail in E. destruct E as [E _]. exact E.
Qed.

Lemma pad_front_props : forall l, Forall tok_nonempty l ->
  pad_front l <> [] /\ Forall tok_nonempty (tl (pad_front l)).
Proof.
  intros l N. unfold pad_front. destruct l as [|[s|n] r]; simpl; split; try discriminate; auto.
  inversion N; auto.
Qed.

(* Theorem 2a *)
Theorem natural_key_injective_on : forall s s',
  no_leading_zero s = true -> no_leading_zero s' = true ->
  natural_key s = natural_key s' -> s = s'.
Proof.
  intros s s' Z1 Z2 E. unfold natural_key in E.
  pose proof (toks_nonempty _ (chunks_wf s)) as N1.
  pose proof (toks_nonempty _ (chunks_wf s')) as N2.
  destruct (pad_front_props _ N1) as [P1 T1]. destruct (pad_front_props _ N2) as [P2 T2].
  apply pad_back_inj in E; auto.
  apply pad_front_inj in E; auto.
  apply map_tok_inj in E; auto using chunks_wf.
  rewrite <- (chunks_concat s), <- (chunks_concat s'), E. reflexivity.
Qed.

(* Theorem 2b: the general claim is false of the pinned source *)
Theorem natural_key_collision : exists s s',
  s <> s' /\ natural_key s = natural_key s'.
Proof.
  exists (nm "x01"), (nm "x1"). split. discriminate. vm_compute. reflexivity.
Qed.

(* Theorem 2c: the tie-broken key (F16 repaired) is injective on all names *)
Theorem natural_key_tb_injective : forall s s', natural_key_tb s = natural_key_tb s' -> s = s'.
Proof. intros s s' E. injection E as _ E. exact E. Qed.

