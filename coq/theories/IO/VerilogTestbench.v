(* What a testbench written by output_verilog_testbench must contain, as a
   decidable predicate on the parsed testbench (py/verilog_reader.py
   parse_testbench).  TRUSTED reading of the `initial` block of module tb:
   statements execute in order; `block.r = v;` sets register r of the
   instantiated design, `for (tb_iter = 0; tb_iter < n; tb_iter++) begin
   block.mem_m[tb_iter] = v; end` sets words 0..n-1, `block.mem_m[a] = v;` sets
   one word; then per cycle every input is driven with a sized decimal literal
   before `#10`.  No proofs in this file. *)
From PyRTL Require Export Netlist.Sem IO.VerilogEmit.

Inductive tbstmt :=
| TReg (r v : Z)            (* block.r = v; *)
| TFill (m n v : Z)         (* for (tb_iter = 0; tb_iter < n; tb_iter++) begin block.mem_m[tb_iter] = v; end *)
| TMem (m a v : Z).         (* block.mem_m[a] = v; *)

Record testbench := mkTB {
  tb_init : list tbstmt;                      (* in text order *)
  tb_cycles : list (list (Z * (Z * Z)))       (* per cycle: x = w'dv;  as (x, (w, v)) *)
}.

(* state written by the initial statements (None = never written = x) *)
Record tbstate := mkTBS { tregs : Z -> option Z; tmems : Z -> Z -> option Z }.

Definition tb_exec (s : tbstate) (c : tbstmt) : tbstate :=
  match c with
  | TReg r v => mkTBS (upd (tregs s) r (Some v)) (tmems s)
  | TFill m n v =>
      mkTBS (tregs s) (upd (tmems s) m (fun a => if (0 <=? a) && (a <? n) then Some v else tmems s m a))
  | TMem m a v => mkTBS (tregs s) (upd (tmems s) m (upd (tmems s m) a (Some v)))
  end.

Definition tb_state (tb : testbench) : tbstate :=
  fold_left tb_exec (tb_init tb) (mkTBS (fun _ => None) (fun _ _ => None)).

Definition opt_is (o : option Z) (v : Z) : bool :=
  match o with Some u => u =? v | None => false end.

Definition addrs (aw : Z) : list Z := map Z.of_nat (seq 0 (Z.to_nat (2 ^ aw))).

(* every register is initialised to the value the simulation started from *)
Definition tb_regs_ok (nl : netlist) (st0 : state) (tb : testbench) : bool :=
  forallb (fun x => opt_is (tregs (tb_state tb) (wname x)) (sregs st0 (wname x)))
          (filter is_kreg (wires nl)).

(* every word of every (non-ROM) memory likewise *)
Definition tb_mems_ok (nl : netlist) (st0 : state) (tb : testbench) : bool :=
  forallb (fun mm => match mrom mm with
                     | Some _ => true
                     | None => forallb (fun a => opt_is (tmems (tb_state tb) (mid mm) a)
                                                        (smems st0 (mid mm) a))
                                       (addrs (maddrw mm))
                     end) (mems nl).

(* cycle by cycle, exactly the inputs are driven, with their traced values *)
Definition drives_ok (nl : netlist) (ins : wid -> Z) (ds : list (Z * (Z * Z))) : bool :=
  Nat.eqb (length ds) (length (filter is_kinput (wires nl)))
  && forallb (fun x => existsb (fun d => (fst d =? wname x) && (fst (snd d) =? wwidth x)
                                         && (snd (snd d) =? ins (wname x))) ds)
             (filter is_kinput (wires nl)).

Fixpoint tb_drives_ok (nl : netlist) (inss : list (wid -> Z)) (cs : list (list (Z * (Z * Z)))) : bool :=
  match inss, cs with
  | [], [] => true
  | ins :: r, c :: rc => drives_ok nl ins c && tb_drives_ok nl r rc
  | _, _ => false
  end.

Definition tb_ok (nl : netlist) (st0 : state) (inss : list (wid -> Z)) (tb : testbench) : bool :=
  tb_regs_ok nl st0 tb && tb_mems_ok nl st0 tb && tb_drives_ok nl inss (tb_cycles tb).
