(* The sanitizer model instantiated with the parameters regenerated from the source,
   and the entry point the C05 check evaluates (definitions only). *)
From Coq Require Import String Ascii List NArith ZArith Bool.
From PyRTL Require Export IO.VerilogSanitizer Gen.C05Sanitizer.
Import ListNotations.

Definition src_params : sparams :=
  mkSP src_start src_body src_strict_end src_reserved src_forbidden src_check_prefix
       src_digit_patterns src_max_len src_no_newline src_prefix.

Definition of_codes (l : list Z) : name := map (fun z => ascii_of_N (Z.to_N z)) l.
Definition to_codes (s : name) : list Z := map (fun c => Z.of_N (code c)) s.

(* names as UTF-8 byte lists; per name: [] if it is kept, else the bytes of its identifier;
   last row: [validity flags] *)
Definition sanitizer_case (names : list (list Z)) : list (list Z) :=
  let ns := map of_codes names in
  let m := sp_map src_params ns in      (* computed once; sp_name src_params ns a = varname m a *)
  map (fun a => let v := varname m a in
                if name_eqb v a then [] else to_codes v) ns
  ++ [map (fun a => if sp_valid src_params a then 1%Z else 0%Z) ns].
