(* C12 -- ISCAS .bench: the importer's gate dispatch (Gen/BlifTables.v :
   iscas_gate, regenerated from /repo) against the .bench gate semantics. *)
From Coq Require Import ZArith List Bool String Lia.
From PyRTL Require Import IO.BlifSyntax IO.BlifSem Gen.BlifTables IO.BlifImport IO.Iscas IO.BlifProofs.
Import ListNotations.
Open Scope Z_scope.
Open Scope string_scope.

(* the arity at which the importer reads ALL the sources of a gate *)
Definition iscas_exact_arity (g : string) : nat :=
  if existsb (String.eqb g) ["NOT"; "BUFF"; "DFF"] then 1%nat else 2%nat.

Definition comb_gates : list string := ["AND"; "OR"; "NAND"; "NOR"; "XOR"; "NOT"; "BUFF"].

(* every combinational gate, at its exact arity, for all source signals and
   all valuations *)
Lemma iscas_gate_exact_correct : forall g srcs, In g comb_gates ->
  List.length srcs = iscas_exact_arity g ->
  exists e, iscas_gate g (map BVar srcs) = Some (DComb e) /\ has_absent e = false
            /\ forall rho, gate_sem g (map rho srcs) = Some (beval rho e).
Proof.
  intros g srcs Hin Hlen. unfold comb_gates in Hin. simpl in Hin.
  destruct Hin as [<-|[<-|[<-|[<-|[<-|[<-|[<-|[]]]]]]]];
    vm_compute in Hlen;
    (destruct srcs as [|a [|b [|c srcs]]]; simpl in Hlen; try discriminate);
    (eexists; split; [vm_compute; reflexivity|]; split; [reflexivity|]);
    intro rho; vm_compute;
    try (destruct (rho a); try destruct (rho b); reflexivity).
Qed.

Lemma iscas_dff_correct : forall d,
  iscas_gate "DFF" [BVar d] = Some (DReg (BVar d) None).
Proof. intro d. vm_compute. reflexivity. Qed.

Lemma iscas_names_consistent :
  forallb (fun g => match iscas_gate g [BVar (L 0); BVar (L 1)] with Some _ => true | None => false end)
          iscas_gate_names = true
  /\ forallb (fun g => existsb (String.eqb g) iscas_gate_names) (comb_gates ++ ["DFF"])%list = true.
Proof. vm_compute. split; reflexivity. Qed.

(* The full statement: whenever the .bench semantics gives the gate a value
   (AND/OR/NAND/NOR/XOR with any number >= 1 of sources), the imported gate
   computes it. *)
Definition iscas_full_statement : Prop :=
  forall g srcs, In g comb_gates -> gate_sem g (map (fun _ => false) srcs) <> None ->
  exists e, iscas_gate g (map BVar srcs) = Some (DComb e)
            /\ forall rho, gate_sem g (map rho srcs) = Some (beval rho e).

Definition iscas_witness_rho (x : sig) : bool :=
  match x with L 2 => false | _ => true end.

(* y = AND(a, b, c) with a = b = 1, c = 0: the imported gate evaluates to 1,
   the .bench semantics to 0 *)
Lemma iscas_nary_refuted :
  exists g srcs rho e,
    In g comb_gates /\ gate_sem g (map rho srcs) <> None
    /\ iscas_gate g (map BVar srcs) = Some (DComb e)
    /\ gate_sem g (map rho srcs) <> Some (beval rho e).
Proof.
  exists "AND", [L 0; L 1; L 2], iscas_witness_rho, (BAnd (BVar (L 0)) (BVar (L 1))).
  vm_compute. repeat split; try discriminate; auto.
Qed.

Lemma iscas_full_statement_false : ~ iscas_full_statement.
Proof.
  intro H. destruct (H "AND" [L 0; L 1; L 2]) as (e & He & Hs).
  - simpl. auto.
  - vm_compute. discriminate.
  - vm_compute in He. inversion He; subst e.
    specialize (Hs iscas_witness_rho). vm_compute in Hs. discriminate.
Qed.

(* ------------------------------------------------------------------ *)
(* whole netlists whose gates all have their exact arity               *)

Definition gate_wf (gt : sig * string * list sig) : bool :=
  let '(_, g, srcs) := gt in
  existsb (String.eqb g) (comb_gates ++ ["DFF"])%list
  && Nat.eqb (List.length srcs) (iscas_exact_arity g).

Definition bench_wf (b : bench) : bool := forallb gate_wf (b_gates b).

Lemma gate_wf_cases d g srcs : gate_wf (d, g, srcs) = true ->
  (In g comb_gates /\ List.length srcs = iscas_exact_arity g)
  \/ (g = "DFF" /\ exists s, srcs = [s]).
Proof.
  unfold gate_wf. intro H. apply andb_prop in H. destruct H as [Hg Hl].
  apply Nat.eqb_eq in Hl. apply existsb_exists in Hg. destruct Hg as (g' & Hin & Heq).
  apply String.eqb_eq in Heq. subst g'.
  apply in_app_or in Hin. destruct Hin as [Hin|Hin]; [left; auto|].
  right. simpl in Hin. destruct Hin as [<-|[]]. split; [reflexivity|].
  vm_compute in Hl. destruct srcs as [|s [|]]; simpl in Hl; try discriminate. eauto.
Qed.

Lemma import_gate_lookup : forall gs ds, forallb gate_wf gs = true -> mapM import_gate gs = Some ds ->
  forall x, match find_gate gs x with
            | Some (g, srcs) => exists d0 dr, import_gate (d0, g, srcs) = Some (d0, dr)
                                          /\ sassoc ds x = Some dr /\ gate_wf (d0, g, srcs) = true
            | None => sassoc ds x = None
            end.
Proof.
  induction gs as [|[[d g] srcs] gs IH]; intros ds Hwf Hm x.
  - inversion Hm. reflexivity.
  - cbn [forallb] in Hwf. cbn [mapM] in Hm. cbn [find_gate].
    apply andb_prop in Hwf. destruct Hwf as [Hc Hwf].
    destruct (import_gate (d, g, srcs)) as [[o dr]|] eqn:Hi; [|discriminate].
    destruct (mapM import_gate gs) as [ds'|] eqn:Hm'; [|discriminate].
    inversion Hm; subst ds.
    assert (o = d).
    { unfold import_gate in Hi. destruct (existsb (String.eqb g) iscas_gate_names); [|discriminate].
      destruct (iscas_gate g (map BVar srcs)) as [dd|]; [|discriminate].
      destruct (drv_absent dd); inversion Hi; reflexivity. }
    subst o. cbn [sassoc]. destruct (sig_eqb d x) eqn:E.
    + exists d, dr. auto.
    + apply IH; auto.
Qed.

Lemma comb_not_dff g : In g comb_gates -> is_dff g = false.
Proof.
  unfold comb_gates. simpl. intro H.
  destruct H as [<-|[<-|[<-|[<-|[<-|[<-|[<-|[]]]]]]]]; reflexivity.
Qed.

Lemma import_gate_comb d g srcs o dr : In g comb_gates -> List.length srcs = iscas_exact_arity g ->
  import_gate (d, g, srcs) = Some (o, dr) ->
  exists e, dr = DComb e /\ forall rho, gate_sem g (map rho srcs) = Some (beval rho e).
Proof.
  intros Hin Hlen Hi. destruct (iscas_gate_exact_correct g srcs Hin Hlen) as (e & He & Ha & Hs).
  unfold import_gate in Hi. destruct (existsb (String.eqb g) iscas_gate_names); [|discriminate].
  rewrite He in Hi. simpl in Hi. rewrite Ha in Hi. inversion Hi; subst. eauto.
Qed.

Lemma import_gate_dff d s o dr : import_gate (d, "DFF", [s]) = Some (o, dr) ->
  dr = DReg (BVar s) None.
Proof. vm_compute. intro H. inversion H. reflexivity. Qed.

Section FlatBench.
  Variable b : bench.
  Variable ds : list (sig * drv).
  Hypothesis Hwf : bench_wf b = true.
  Hypothesis Himp : mapM import_gate (b_gates b) = Some ds.
  Let c := mkCircuit (b_inputs b) (b_outputs b) ds.

  Lemma bench_ev_eq : forall fuel st ins x, c_ev fuel c st ins x = bench_ev fuel b st ins x.
  Proof.
    induction fuel as [|f IH]; intros st ins x; [reflexivity|].
    simpl. destruct (sig_mem x (b_inputs b)); [reflexivity|].
    pose proof (import_gate_lookup _ _ Hwf Himp x) as Hl.
    destruct (find_gate (b_gates b) x) as [[g srcs]|].
    - destruct Hl as (d0 & dr & Hi & Hs & Hg). rewrite Hs.
      destruct (gate_wf_cases _ _ _ Hg) as [[Hin Hlen]|[-> [s ->]]].
      + destruct (import_gate_comb _ _ _ _ _ Hin Hlen Hi) as (e & -> & Hsem).
        rewrite (comb_not_dff g Hin), Hsem.
        apply beval_ext. intros y _. apply IH.
      + rewrite (import_gate_dff _ _ _ _ Hi). reflexivity.
    - rewrite Hl. reflexivity.
  Qed.

  Lemma bench_next_eq : forall fuel st ins gs ds', forallb gate_wf gs = true ->
    mapM import_gate gs = Some ds' ->
    flat_map (c_next fuel c st ins) ds' = flat_map (bench_next fuel b st ins) gs.
  Proof.
    intros fuel st ins. induction gs as [|[[d g] srcs] gs IH]; intros ds' Hw Hm.
    - inversion Hm. reflexivity.
    - cbn [forallb] in Hw. cbn [mapM] in Hm. apply andb_prop in Hw. destruct Hw as [Hg Hw].
      destruct (import_gate (d, g, srcs)) as [[o dr]|] eqn:Hi; [|discriminate].
      destruct (mapM import_gate gs) as [ds''|] eqn:Hm'; [|discriminate].
      inversion Hm; subst ds'. cbn [flat_map]. rewrite (IH ds'' Hw eq_refl). f_equal.
      assert (o = d).
      { unfold import_gate in Hi. destruct (existsb (String.eqb g) iscas_gate_names); [|discriminate].
        destruct (iscas_gate g (map BVar srcs)) as [dd|]; [|discriminate].
        destruct (drv_absent dd); inversion Hi; reflexivity. }
      subst o.
      destruct (gate_wf_cases _ _ _ Hg) as [[Hin Hlen]|[-> [s ->]]].
      + destruct (import_gate_comb _ _ _ _ _ Hin Hlen Hi) as (e & -> & _).
        simpl. rewrite (comb_not_dff g Hin). destruct srcs as [|s0 [|]]; reflexivity.
      + rewrite (import_gate_dff _ _ _ _ Hi). simpl. rewrite bench_ev_eq. reflexivity.
  Qed.

  Lemma bench_run_eq fuel : forall inss st, c_run fuel c st inss = bench_run fuel b st inss.
  Proof.
    induction inss as [|i inss IH]; intro st; [reflexivity|].
    cbn [c_run bench_run].
    assert (Hs : c_step fuel c st i = bench_step fuel b st i).
    { unfold c_step, bench_step. f_equal.
      - simpl. apply map_ext. intro x. apply bench_ev_eq.
      - apply bench_next_eq; [exact Hwf | exact Himp]. }
    rewrite Hs. destruct (bench_step fuel b st i) as [o st']. rewrite IH. reflexivity.
  Qed.
End FlatBench.

(* .bench netlists all of whose gates have their exact arity *)
Theorem bench_import_correct : forall b c, bench_wf b = true -> import_bench b = Some c ->
  forall fuel st inss, c_run fuel c st inss = bench_run fuel b st inss.
Proof.
  intros b c Hwf Hi. unfold import_bench in Hi.
  destruct (mapM import_gate (b_gates b)) as [ds|] eqn:Hm; [|discriminate]. inversion Hi; subst c.
  intros. apply bench_run_eq; assumption.
Qed.
