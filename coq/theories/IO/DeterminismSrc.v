(* C20 -- theorems about the definitions REGENERATED FROM THE SOURCE
   (Gen/C20Src.v: which sort key the code uses, in which order names reach the
   sanitizer, the identifier regex / reserved words).  They are re-checked against
   what /repo says on every run: with the list key or the set-order presentation
   (the pinned source before the F15/F16 repairs) these proofs do not go through. *)
From Coq Require Import String Ascii List NArith ZArith Bool Lia Permutation.
From PyRTL Require Import IO.NatSort IO.NatSortProofs IO.Determinism IO.DeterminismProofs IO.DeterminismInj Gen.C20Src.
Import ListNotations.

(* the key of the source is injective on ALL names, and its order is strict total *)
Lemma src_natural_key_injective : forall s s', src_natural_key s = src_natural_key s' -> s = s'.
Proof. exact natural_key_tb_injective. Qed.
Lemma src_trace_key_injective : forall s s', src_trace_key s = src_trace_key s' -> s = s'.
Proof. exact natural_key_tb_injective. Qed.
Lemma src_natural_ltb_strict_total : strict_total src_natural_key_ltb.
Proof. exact key2_ltb_strict_total. Qed.
Lemma src_trace_ltb_strict_total : strict_total src_trace_key_ltb.
Proof. exact key2_ltb_strict_total. Qed.

(* _name_sorted over a set of objects with distinct names *)
Theorem src_name_sorted_perm_invariant : forall (A : Type) (name_of : A -> name) (l l' : list A),
  NoDup (map name_of l) -> Permutation l l' ->
  sort_by (fun x => src_natural_key (name_of x)) src_natural_key_ltb l =
  sort_by (fun x => src_natural_key (name_of x)) src_natural_key_ltb l'.
Proof.
  intros A name_of l l' ND P.
  apply sort_by_key_perm_invariant; auto. exact src_natural_ltb_strict_total.
  intros x y Hx Hy E. apply src_natural_key_injective in E. eapply NoDup_map_inj_in; eauto.
Qed.

(* the identifiers handed out by the sanitizer do not depend on the schedule *)
Theorem src_verilog_names_perm_invariant : forall pres pres',
  Permutation pres pres' ->
  sanitize_all src_valid_verilog src_prefix_verilog (src_present_verilog pres) =
  sanitize_all src_valid_verilog src_prefix_verilog (src_present_verilog pres').
Proof. intros pres pres' P. apply sanitize_sorted_perm_invariant. exact P. Qed.

Theorem src_vcd_names_perm_invariant : forall pres pres',
  Permutation pres pres' ->
  sanitize_all src_valid_vcd src_prefix_vcd (src_present_vcd pres) =
  sanitize_all src_valid_vcd src_prefix_vcd (src_present_vcd pres').
Proof. intros pres pres' P. apply sanitize_sorted_perm_invariant. exact P. Qed.

(* output_to_verilog (and, with its own sections, output_verilog_testbench): the module
   text is the same for every iteration order of wirevector_set and of logic, provided the
   identifiers written are pairwise distinct and no two nets are sorted by the same name *)
Section SrcExport.
  Variables (present : list name -> list name) (valid : name -> bool) (prefix : name).
  Hypothesis present_is_sorted : present = present_sorted.

  Theorem src_export_text_perm_invariant : forall wsecs nsecs ws ws' ns ns',
    Permutation ws ws' -> Permutation ns ns' ->
    NoDup (map (fun w => export_vn present valid prefix ws (wname w)) ws) ->
    NoDup (map (fun n => nsort (rename_n (export_vn present valid prefix ws) n)) ns) ->
    export_text src_natural_key src_natural_key_ltb present valid prefix wsecs nsecs ws ns =
    export_text src_natural_key src_natural_key_ltb present valid prefix wsecs nsecs ws' ns'.
  Proof.
    intros wsecs nsecs ws ws' ns ns' Pw Pn NDw NDn. subst present.
    apply export_text_perm_invariant_sorted; auto. exact src_natural_ltb_strict_total.
    - intros x y Hx Hy E. apply src_natural_key_injective in E. cbn [rename_w wname] in E.
      exact (NoDup_map_inj_in _ _ _ ws x y NDw Hx Hy E).
    - intros x y Hx Hy E. apply src_natural_key_injective in E.
      exact (NoDup_map_inj_in _ _ _ ns x y NDn Hx Hy E).
  Qed.
End SrcExport.

Theorem src_verilog_text_perm_invariant : forall wsecs nsecs ws ws' ns ns',
  Permutation ws ws' -> Permutation ns ns' ->
  NoDup (map (fun w => export_vn src_present_verilog src_valid_verilog src_prefix_verilog ws (wname w)) ws) ->
  NoDup (map (fun n => nsort (rename_n (export_vn src_present_verilog src_valid_verilog src_prefix_verilog ws) n)) ns) ->
  export_text src_natural_key src_natural_key_ltb src_present_verilog src_valid_verilog src_prefix_verilog
              wsecs nsecs ws ns =
  export_text src_natural_key src_natural_key_ltb src_present_verilog src_valid_verilog src_prefix_verilog
              wsecs nsecs ws' ns'.
Proof. exact (src_export_text_perm_invariant src_present_verilog src_valid_verilog src_prefix_verilog eq_refl). Qed.

Theorem src_testbench_text_perm_invariant : forall wsecs nsecs ws ws' ns ns',
  Permutation ws ws' -> Permutation ns ns' ->
  NoDup (map (fun w => export_vn src_present_testbench src_valid_testbench src_prefix_testbench ws (wname w)) ws) ->
  NoDup (map (fun n => nsort (rename_n (export_vn src_present_testbench src_valid_testbench src_prefix_testbench ws) n)) ns) ->
  export_text src_natural_key src_natural_key_ltb src_present_testbench src_valid_testbench src_prefix_testbench
              wsecs nsecs ws ns =
  export_text src_natural_key src_natural_key_ltb src_present_testbench src_valid_testbench src_prefix_testbench
              wsecs nsecs ws' ns'.
Proof. exact (src_export_text_perm_invariant src_present_testbench src_valid_testbench src_prefix_testbench eq_refl). Qed.

(* the same with hypotheses on the DESIGN only (no memory-write nets): wire names pairwise
   distinct and not already of the generated form, every net sorted by the name of a
   declared wire, one net per such wire (single driver) *)
Theorem src_verilog_text_perm_invariant_names : forall wsecs nsecs ws ws' ns ns',
  Permutation ws ws' -> Permutation ns ns' ->
  NoDup (map wname ws) ->
  (forall w, In w ws -> has_prefix src_prefix_verilog (wname w) = false) ->
  (forall n, In n ns -> nraw n = false /\ In (nsort n) (map wname ws)) ->
  NoDup (map nsort ns) ->
  export_text src_natural_key src_natural_key_ltb src_present_verilog src_valid_verilog src_prefix_verilog
              wsecs nsecs ws ns =
  export_text src_natural_key src_natural_key_ltb src_present_verilog src_valid_verilog src_prefix_verilog
              wsecs nsecs ws' ns'.
Proof.
  intros wsecs nsecs ws ws' ns ns' Pw Pn ND NP Hn NDn.
  apply src_verilog_text_perm_invariant; auto.
  - exact (export_vn_sorted_NoDup src_valid_verilog src_prefix_verilog ws ND NP).
  - exact (export_nets_sorted_NoDup src_valid_verilog src_prefix_verilog ws ns ND NP Hn NDn).
Qed.

(* memories / ROMs are emitted `sorted(..., key=lambda m: m.id)` (the generator checks every
   such loop in the Verilog emitters); ids are unique, so the order is schedule-independent
   even when several memories carry the same name *)
Lemma N_ltb_strict_total : strict_total N.ltb.
Proof. exact (ltb_of_strict_total _ _ N_compare_ok). Qed.

Theorem src_memories_by_id_perm_invariant : forall (A : Type) (mid : A -> N) (l l' : list A),
  src_memories_sorted_by_id = true ->
  NoDup (map mid l) -> Permutation l l' ->
  sort_by mid N.ltb l = sort_by mid N.ltb l'.
Proof.
  intros A mid l l' _ ND P. apply sort_by_key_perm_invariant; auto. exact N_ltb_strict_total.
  intros x y Hx Hy E. eapply NoDup_map_inj_in; eauto.
Qed.

(* ---- identifiers are pairwise distinct, and validity is PER PREFIX ----
   The validity test of the source rejects names starting with the sanitizer's own prefix, so
   (sanitized_names_NoDup) distinct wire names always get distinct identifiers, in the module,
   the testbench and the VCD -- whatever the user called the wires ('_vcd_tmp_0' included). *)
Lemma src_valid_rejects_prefix : forall p s, src_verilog_valid_p p s = true -> has_prefix p s = false.
Proof.
  intros p s H. destruct (has_prefix p s) eqn:E; [exfalso|reflexivity].
  unfold src_verilog_valid_p in H. rewrite E in H. cbn [negb] in H.
  repeat (rewrite ?andb_false_r in H; cbn [andb] in H). discriminate H.
Qed.

Lemma present_sorted_perm : forall l, Permutation (present_sorted l) l.
Proof. intro l. unfold present_sorted. apply sort_by_perm. Qed.

Theorem src_identifiers_distinct : forall names, NoDup names ->
  NoDup (map (varname (sanitize_all src_valid_verilog src_prefix_verilog (src_present_verilog names))) names)
  /\ NoDup (map (varname (sanitize_all src_valid_testbench src_prefix_testbench (src_present_testbench names))) names)
  /\ NoDup (map (varname (sanitize_all src_valid_vcd src_prefix_vcd (src_present_vcd names))) names).
Proof.
  intros names ND. repeat split;
    apply sanitized_names_NoDup; auto using present_sorted_perm; intro s; apply src_valid_rejects_prefix.
Qed.

(* validity depends on the sanitizer instance: the same name is a legal identifier for the
   module exporter and must be renamed by the VCD exporter (and vice versa), so an answer
   remembered across instances would be wrong for one of them *)
Theorem src_validity_is_per_prefix : exists s s',
  src_valid_verilog s = true /\ src_valid_vcd s = false /\
  src_valid_verilog s' = false /\ src_valid_vcd s' = true.
Proof. exists (nm "_vcd_tmp_0"), (nm "_ver_out_tmp_0"). vm_compute. repeat split; reflexivity. Qed.

(* print_trace: the trace dict has one entry per name *)
Theorem src_trace_text_perm_invariant : forall render_line fmt (items items' : list titem),
  Permutation items items' -> NoDup (map fst items) ->
  trace_text src_trace_key src_trace_key_ltb render_line fmt items =
  trace_text src_trace_key src_trace_key_ltb render_line fmt items'.
Proof.
  intros render_line fmt items items' P ND.
  apply trace_text_perm_invariant; auto. exact src_trace_ltb_strict_total.
  intros x y Hx Hy E. apply src_trace_key_injective in E. eapply NoDup_map_inj_in; eauto.
Qed.

(* print_vcd: also independent of the order of wires_to_track *)
Theorem src_vcd_text_perm_invariant : forall render_var tracked tracked' (items items' : list titem),
  Permutation tracked tracked' -> Permutation items items' -> NoDup (map fst items) ->
  vcd_text src_trace_key src_trace_key_ltb src_present_vcd src_valid_vcd src_prefix_vcd render_var tracked items =
  vcd_text src_trace_key src_trace_key_ltb src_present_vcd src_valid_vcd src_prefix_vcd render_var tracked' items'.
Proof.
  intros render_var tracked tracked' items items' Pt P ND.
  apply vcd_text_perm_invariant; auto. exact src_trace_ltb_strict_total.
  - intro s. rewrite (src_vcd_names_perm_invariant tracked tracked' Pt). reflexivity.
  - intros x y Hx Hy E. apply src_trace_key_injective in E. eapply NoDup_map_inj_in; eauto.
Qed.

(* ---- the name `_net_sorted` sorts a memory-write net by.  The statement says which of the
   two situations the source is in NOW (the generator reads it off `_net_sorted`): either the
   name is built from enable, address and data and determines the port, or it is the enable
   wire alone and two write ports sharing one enable collide -- and are then emitted in set
   order (next theorem). ---- *)
Definition memwrite_sort_key_status : Prop :=
  if src_memwrite_total
  then forall we a d we' a' d' : name,
         no_space we = true -> no_space a = true -> no_space we' = true -> no_space a' = true ->
         src_memwrite_sortname we a d = src_memwrite_sortname we' a' d' ->
         we = we' /\ a = a' /\ d = d'
  else exists we a d a' d' : name,
         (a, d) <> (a', d') /\ src_memwrite_sortname we a d = src_memwrite_sortname we a' d'.

Theorem src_memwrite_sort_key_status : memwrite_sort_key_status.
Proof.
  unfold memwrite_sort_key_status, src_memwrite_total, src_memwrite_sortname.
  first [ exact memwrite_sortname_all_injective | exact memwrite_sortname_enable_collides ].
Qed.

(* two nets sorted by the same name are emitted in set order.  Witness: two write ports
   rendered with their address and data names. *)
Definition demo_nsec : section nitem :=
  {| s_head := []; s_sel := fun _ => true;
     s_render := fun n => (List.concat (nnames n) ++ [ascii_of_N 10])%list |}.
Definition demo_write (addr data : string) : nitem :=
  {| nsort := nm "we/1W"; nraw := true; nop := 1000; nnames := [nm "we"; nm addr; nm data] |}.

Theorem src_shared_write_enable_refuted : exists ns ns',
  Permutation ns ns' /\ NoDup ns /\
  export_text src_natural_key src_natural_key_ltb src_present_verilog src_valid_verilog src_prefix_verilog
              [] [demo_nsec] [] ns <>
  export_text src_natural_key src_natural_key_ltb src_present_verilog src_valid_verilog src_prefix_verilog
              [] [demo_nsec] [] ns'.
Proof.
  exists [demo_write "a0" "d0"; demo_write "a1" "d1"], [demo_write "a1" "d1"; demo_write "a0" "d0"].
  split; [apply perm_swap|]. split.
  - constructor. simpl. intros [H|[]]. discriminate H. constructor. simpl. tauto. constructor.
  - vm_compute. discriminate.
Qed.
