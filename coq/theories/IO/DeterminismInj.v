(* C20 -- the sanitizer is injective on the names it is given (as long as no name
   already looks like a generated one), so "the identifiers written are pairwise
   distinct" follows from "the wire names are pairwise distinct". *)
From Coq Require Import String Ascii List NArith ZArith Bool Lia Permutation DecimalString DecimalN DecimalPos.
From PyRTL Require Import IO.NatSort IO.NatSortProofs IO.Determinism IO.DeterminismProofs.
Import ListNotations.

Lemma list_ascii_of_string_inj : forall a b, list_ascii_of_string a = list_ascii_of_string b -> a = b.
Proof.
  intros a b E. rewrite <- (string_of_list_ascii_of_string a), <- (string_of_list_ascii_of_string b), E.
  reflexivity.
Qed.

Lemma N_to_uint_nonnil : forall n, N.to_uint n <> Decimal.Nil.
Proof.
  intros [|p]; simpl. discriminate. apply Unsigned.to_uint_nonnil.
Qed.

(* str(i) = str(j) -> i = j *)
Lemma dec_inj : forall a b, dec a = dec b -> a = b.
Proof.
  unfold dec. intros a b E. apply list_ascii_of_string_inj in E.
  apply (f_equal NilZero.uint_of_string) in E.
  rewrite !NilZero.usu in E by apply N_to_uint_nonnil.
  injection E as E. apply DecimalN.Unsigned.to_uint_inj. exact E.
Qed.

Lemma has_prefix_app : forall p x, has_prefix p (p ++ x) = true.
Proof. induction p as [|a p IH]; intro x; simpl; auto. rewrite N.eqb_refl. apply IH. Qed.

Lemma NoDup_map_inj : forall A B (f : A -> B) l,
  (forall x y, In x l -> In y l -> f x = f y -> x = y) -> NoDup l -> NoDup (map f l).
Proof.
  intros A B f l. induction l as [|a r IH]; intros Inj ND; simpl. constructor.
  inversion ND as [|? ? Hnotin NDr]; subst. constructor.
  - intro H. apply in_map_iff in H. destruct H as [y [Ey Hy]].
    assert (y = a) by (apply Inj; [right; auto | left; auto | exact Ey]). subst. contradiction.
  - apply IH; auto. intros x y Hx Hy. apply Inj; right; auto.
Qed.

Section Inj.
  Variables (valid : name -> bool) (prefix : name).

  Lemma varname_skip : forall x v m s, name_eqb s x = false ->
    varname ((x, v) :: m) s = varname m s.
  Proof. intros x v m s E. unfold varname. cbn [find fst]. rewrite E. reflexivity. Qed.

  Lemma varname_hit : forall x v m, varname ((x, v) :: m) x = v.
  Proof.
    intros x v m. unfold varname. cbn [find fst].
    replace (name_eqb x x) with true by (symmetry; apply name_eqb_eq; reflexivity). reflexivity.
  Qed.

  (* an invalid presented name gets prefix ++ str(i) for some i >= the current counter *)
  Lemma varname_invalid_range : forall pres k a,
    In a pres -> valid a = false ->
    exists i, (k <= i)%N /\ varname (sanitize_from valid prefix k pres) a = (prefix ++ dec i)%list.
  Proof.
    induction pres as [|x r IH]; intros k a Ha Va. contradiction.
    cbn [sanitize_from]. destruct (name_eqb a x) eqn:E.
    - apply name_eqb_eq in E. subst x. rewrite Va. exists k. split. lia. apply varname_hit.
    - assert (Har : In a r).
      { destruct Ha as [Ha|Ha]; auto. subst. apply name_eqb_neq in E. contradiction. }
      destruct (valid x).
      + rewrite varname_skip by exact E. apply IH; auto.
      + rewrite varname_skip by exact E.
        destruct (IH (k + 1)%N a Har Va) as [i [Hi Hv]]. exists i. split. lia. exact Hv.
  Qed.

  Lemma sanitize_inj_invalid : forall pres k, NoDup pres -> forall a b,
    In a pres -> In b pres -> valid a = false -> valid b = false ->
    varname (sanitize_from valid prefix k pres) a = varname (sanitize_from valid prefix k pres) b ->
    a = b.
  Proof.
    induction pres as [|x r IH]; intros k ND a b Ha Hb Va Vb E. contradiction.
    inversion ND as [|? ? Hnotin NDr]; subst.
    cbn [sanitize_from] in E.
    destruct (name_eqb a x) eqn:Ea; destruct (name_eqb b x) eqn:Eb.
    - apply name_eqb_eq in Ea, Eb. congruence.
    - apply name_eqb_eq in Ea. subst x. rewrite Va in E.
      rewrite varname_hit in E. rewrite varname_skip in E by exact Eb.
      assert (Hbr : In b r).
      { destruct Hb as [Hb|Hb]; auto. subst. apply name_eqb_neq in Eb. contradiction. }
      destruct (varname_invalid_range r (k + 1)%N b Hbr Vb) as [i [Hi Hv]].
      rewrite Hv in E. apply app_inv_head in E. apply dec_inj in E. lia.
    - apply name_eqb_eq in Eb. subst x. rewrite Vb in E.
      rewrite varname_hit in E. rewrite varname_skip in E by exact Ea.
      assert (Har : In a r).
      { destruct Ha as [Ha|Ha]; auto. subst. apply name_eqb_neq in Ea. contradiction. }
      destruct (varname_invalid_range r (k + 1)%N a Har Va) as [i [Hi Hv]].
      rewrite Hv in E. apply app_inv_head in E. apply dec_inj in E. lia.
    - assert (Har : In a r).
      { destruct Ha as [Ha|Ha]; auto. subst. apply name_eqb_neq in Ea. contradiction. }
      assert (Hbr : In b r).
      { destruct Hb as [Hb|Hb]; auto. subst. apply name_eqb_neq in Eb. contradiction. }
      destruct (valid x); rewrite !varname_skip in E by assumption; eapply IH; eauto.
  Qed.

  (* the sanitizer is injective on what it was given *)
  Theorem sanitize_injective : forall pres, NoDup pres ->
    (forall s, In s pres -> has_prefix prefix s = false) ->
    forall a b, In a pres -> In b pres ->
    varname (sanitize_all valid prefix pres) a = varname (sanitize_all valid prefix pres) b -> a = b.
  Proof.
    intros pres ND NP a b Ha Hb E. unfold sanitize_all in E.
    destruct (valid a) eqn:Va; destruct (valid b) eqn:Vb.
    - rewrite !varname_valid in E by assumption. exact E.
    - rewrite varname_valid in E by assumption.
      destruct (varname_invalid_range pres 0%N b Hb Vb) as [i [_ Hv]]. rewrite Hv in E.
      specialize (NP a Ha). rewrite E, has_prefix_app in NP. discriminate.
    - rewrite (varname_valid valid prefix pres 0%N b Vb) in E.
      destruct (varname_invalid_range pres 0%N a Ha Va) as [i [_ Hv]]. rewrite Hv in E.
      specialize (NP b Hb). rewrite <- E, has_prefix_app in NP. discriminate.
    - eapply sanitize_inj_invalid; eauto.
  Qed.
End Inj.

(* with names presented in sorted order (F15 repaired): distinct wire names that do not
   already start with the generated prefix give distinct identifiers *)
Theorem export_vn_sorted_NoDup : forall valid prefix ws,
  NoDup (map wname ws) ->
  (forall w, In w ws -> has_prefix prefix (wname w) = false) ->
  NoDup (map (fun w => export_vn present_sorted valid prefix ws (wname w)) ws).
Proof.
  intros valid prefix ws ND NP.
  rewrite <- (map_map wname (export_vn present_sorted valid prefix ws)).
  apply NoDup_map_inj; auto.
  unfold export_vn, present_sorted.
  set (names := map wname ws) in *.
  assert (P : Permutation (sort_by (fun s : name => s) str_ltb names) names) by apply sort_by_perm.
  intros x y Hx Hy E.
  eapply (sanitize_injective valid prefix (sort_by (fun s : name => s) str_ltb names)); eauto.
  - eapply Permutation_NoDup. apply Permutation_sym. exact P. exact ND.
  - intros s Hs. eapply Permutation_in in Hs; [|exact P].
    unfold names in Hs. apply in_map_iff in Hs. destruct Hs as [w [Ew Hw]]. subst. apply NP. exact Hw.
  - eapply Permutation_in. apply Permutation_sym. exact P. exact Hx.
  - eapply Permutation_in. apply Permutation_sym. exact P. exact Hy.
Qed.

Definition nodupb (l : list name) : bool :=
  (fix go (l : list name) : bool :=
     match l with [] => true | x :: r => negb (existsb (name_eqb x) r) && go r end) l.

Lemma nodupb_NoDup : forall l, nodupb l = true -> NoDup l.
Proof.
  induction l as [|x r IH]; intro H. constructor.
  simpl in H. apply andb_prop in H. destruct H as [H1 H2]. constructor.
  - intro Hin. apply negb_true_iff in H1.
    assert (existsb (name_eqb x) r = true).
    { apply existsb_exists. exists x. split; auto. apply name_eqb_eq. reflexivity. }
    congruence.
  - apply IH. exact H2.
Qed.

Lemma export_vn_sorted_inj : forall valid prefix ws,
  NoDup (map wname ws) ->
  (forall w, In w ws -> has_prefix prefix (wname w) = false) ->
  forall a b, In a (map wname ws) -> In b (map wname ws) ->
  export_vn present_sorted valid prefix ws a = export_vn present_sorted valid prefix ws b -> a = b.
Proof.
  intros valid prefix ws ND NP a b Hx Hy E.
  unfold export_vn, present_sorted in E.
  set (names := map wname ws) in *.
  assert (P : Permutation (sort_by (fun s : name => s) str_ltb names) names) by apply sort_by_perm.
  eapply (sanitize_injective valid prefix (sort_by (fun s : name => s) str_ltb names)); eauto.
  - eapply Permutation_NoDup. apply Permutation_sym. exact P. exact ND.
  - intros s Hs. eapply Permutation_in in Hs; [|exact P].
    unfold names in Hs. apply in_map_iff in Hs. destruct Hs as [w [Ew Hw]]. subst. apply NP. exact Hw.
  - eapply Permutation_in. apply Permutation_sym. exact P. exact Hx.
  - eapply Permutation_in. apply Permutation_sym. exact P. exact Hy.
Qed.

(* nets sorted by the (sanitised) name of a declared wire, all distinct *)
Theorem export_nets_sorted_NoDup : forall valid prefix ws ns,
  NoDup (map wname ws) ->
  (forall w, In w ws -> has_prefix prefix (wname w) = false) ->
  (forall n, In n ns -> nraw n = false /\ In (nsort n) (map wname ws)) ->
  NoDup (map nsort ns) ->
  NoDup (map (fun n => nsort (rename_n (export_vn present_sorted valid prefix ws) n)) ns).
Proof.
  intros valid prefix ws ns ND NP Hn NDn.
  assert (E : map (fun n => nsort (rename_n (export_vn present_sorted valid prefix ws) n)) ns =
              map (export_vn present_sorted valid prefix ws) (map nsort ns)).
  { rewrite map_map. apply map_ext_in. intros n Hin. destruct (Hn n Hin) as [R _].
    unfold rename_n. cbn [nsort]. rewrite R. reflexivity. }
  rewrite E. apply NoDup_map_inj; auto.
  intros x y Hx Hy. apply export_vn_sorted_inj; auto.
  - apply in_map_iff in Hx. destruct Hx as [n [En Hin]]. subst. apply Hn. exact Hin.
  - apply in_map_iff in Hy. destruct Hy as [n [En Hin]]. subst. apply Hn. exact Hin.
Qed.

(* when the validity test itself rejects every name that starts with the generated prefix (the
   source's `not str.startswith(self.internal_prefix)`), no hypothesis on the user's names is
   needed: the sanitizer never hands one identifier to two names *)
Theorem sanitize_injective_rejecting : forall (valid : name -> bool) (prefix : name) pres,
  (forall s, valid s = true -> has_prefix prefix s = false) ->
  NoDup pres ->
  forall a b, In a pres -> In b pres ->
  varname (sanitize_all valid prefix pres) a = varname (sanitize_all valid prefix pres) b -> a = b.
Proof.
  intros valid prefix pres Rej ND a b Ha Hb E. unfold sanitize_all in E.
  destruct (valid a) eqn:Va; destruct (valid b) eqn:Vb.
  - rewrite !varname_valid in E by assumption. exact E.
  - rewrite varname_valid in E by assumption.
    destruct (varname_invalid_range valid prefix pres 0%N b Hb Vb) as [i [_ Hv]]. rewrite Hv in E.
    pose proof (Rej a Va) as R. rewrite E, has_prefix_app in R. discriminate.
  - rewrite (varname_valid valid prefix pres 0%N b Vb) in E.
    destruct (varname_invalid_range valid prefix pres 0%N a Ha Va) as [i [_ Hv]]. rewrite Hv in E.
    pose proof (Rej b Vb) as R. rewrite <- E, has_prefix_app in R. discriminate.
  - eapply sanitize_inj_invalid; eauto.
Qed.

Corollary sanitized_names_NoDup : forall (valid : name -> bool) (prefix : name)
  (present : list name -> list name) names,
  (forall s, valid s = true -> has_prefix prefix s = false) ->
  (forall l, Permutation (present l) l) ->
  NoDup names ->
  NoDup (map (varname (sanitize_all valid prefix (present names))) names).
Proof.
  intros valid prefix present names Rej PP ND.
  apply NoDup_map_inj; auto. intros x y Hx Hy E.
  eapply (sanitize_injective_rejecting valid prefix (present names)); eauto.
  - eapply Permutation_NoDup. apply Permutation_sym. apply PP. exact ND.
  - eapply Permutation_in. apply Permutation_sym. apply PP. exact Hx.
  - eapply Permutation_in. apply Permutation_sym. apply PP. exact Hy.
Qed.
