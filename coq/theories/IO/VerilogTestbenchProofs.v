(* C05 proofs, part 3: the decidable testbench predicate means what it says. *)
From PyRTL Require Import Netlist.Sem IO.VerilogTestbench.
From Coq Require Import ZifyBool.

Lemma opt_is_eq o v : opt_is o v = true -> o = Some v.
Proof. unfold opt_is. destruct o; [|discriminate]. intros H. f_equal. lia. Qed.

Lemma addrs_in aw a : 0 <= a < 2 ^ aw -> In a (addrs aw).
Proof.
  intros H. unfold addrs. apply in_map_iff. exists (Z.to_nat a). split; [lia|].
  apply in_seq. lia.
Qed.

Definition drives_spec (nl : netlist) (ins : wid -> Z) (ds : list (Z * (Z * Z))) : Prop :=
  length ds = length (filter is_kinput (wires nl))
  /\ forall x, In x (wires nl) -> is_kinput x = true -> In (wname x, (wwidth x, ins (wname x))) ds.

Lemma drives_ok_sound nl ins ds : drives_ok nl ins ds = true -> drives_spec nl ins ds.
Proof.
  unfold drives_ok, drives_spec. intros H. apply andb_true_iff in H. destruct H as [H1 H2].
  split; [apply Nat.eqb_eq; assumption|].
  intros x Hx Hk. rewrite forallb_forall in H2.
  assert (Hf : In x (filter is_kinput (wires nl))) by (apply filter_In; split; assumption).
  specialize (H2 x Hf). apply existsb_exists in H2. destruct H2 as [[k [w v]] [Hin Heq]].
  cbn [fst snd] in Heq. assert (k = wname x /\ w = wwidth x /\ v = ins (wname x)) as [-> [-> ->]] by lia.
  assumption.
Qed.

Lemma tb_drives_ok_sound nl : forall inss cs, tb_drives_ok nl inss cs = true ->
  Forall2 (drives_spec nl) inss cs.
Proof.
  induction inss as [|ins r IH]; intros [|c rc] H; simpl in H; try discriminate; constructor.
  - apply andb_true_iff in H. destruct H as [H _]. apply drives_ok_sound. assumption.
  - apply andb_true_iff in H. destruct H as [_ H]. apply IH. assumption.
Qed.

(* A testbench accepted by [tb_ok] (a) leaves every register of the design at the
   value the simulation started from, (b) likewise every word of every non-ROM
   memory, (c) drives, cycle by cycle, exactly the design's inputs, each with its
   declared width and its traced value. *)
Theorem tb_ok_sound nl st0 inss tb : tb_ok nl st0 inss tb = true ->
  (forall x, In x (wires nl) -> is_kreg x = true ->
     tregs (tb_state tb) (wname x) = Some (sregs st0 (wname x)))
  /\ (forall mm, In mm (mems nl) -> mrom mm = None -> forall a, 0 <= a < 2 ^ maddrw mm ->
        tmems (tb_state tb) (mid mm) a = Some (smems st0 (mid mm) a))
  /\ Forall2 (drives_spec nl) inss (tb_cycles tb).
Proof.
  unfold tb_ok. intros H. apply andb_true_iff in H. destruct H as [H H3].
  apply andb_true_iff in H. destruct H as [H1 H2]. repeat split.
  - intros x Hx Hk. unfold tb_regs_ok in H1. rewrite forallb_forall in H1.
    apply opt_is_eq. apply H1. apply filter_In. split; assumption.
  - intros mm Hmm Hrom a Ha. unfold tb_mems_ok in H2. rewrite forallb_forall in H2.
    specialize (H2 mm Hmm). rewrite Hrom in H2. rewrite forallb_forall in H2.
    apply opt_is_eq. apply H2. apply addrs_in. assumption.
  - apply tb_drives_ok_sound. assumption.
Qed.
