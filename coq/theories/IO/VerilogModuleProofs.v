(* C05 proofs, part 2: a module that passes the structural tie [emitted_ok]
   refines the reference semantics cycle by cycle. *)
From PyRTL Require Import Netlist.Sem Netlist.WFDefs IO.VerilogEmit IO.VerilogProofs.
From Coq Require Import ZifyBool.

(* ---- small list / boolean facts ---- *)
Lemma mem_in_In w l : mem_in w l = true <-> In w l.
Proof.
  unfold mem_in. rewrite existsb_exists. split.
  - intros [x [Hin Heq]]. apply Z.eqb_eq in Heq. subst. assumption.
  - intros H. exists w. split; [assumption|apply Z.eqb_refl].
Qed.

Lemma find_wire_In ws w x : find_wire ws w = Some x -> In x ws /\ wname x = w.
Proof.
  induction ws as [|y r IH]; simpl; [discriminate|].
  destruct (wname y =? w) eqn:E.
  - intros H. injection H as <-. split; [left; reflexivity|lia].
  - intros H. destruct (IH H). split; [right|]; assumption.
Qed.

Lemma vexpr_eqb_eq : forall a b, vexpr_eqb a b = true -> a = b.
Proof.
  fix IH 1. intros a b. destruct a; destruct b; cbn [vexpr_eqb]; try discriminate; intros H.
  - f_equal; lia.
  - f_equal; lia.
  - f_equal; lia.
  - f_equal; lia.
  - f_equal. apply IH. exact H.
  - apply andb_true_iff in H. destruct H as [H H2]. apply andb_true_iff in H. destruct H as [H0 H1].
    f_equal; [destruct o, o0; try discriminate; reflexivity | apply IH; assumption | apply IH; assumption].
  - apply andb_true_iff in H. destruct H as [H H2]. apply andb_true_iff in H. destruct H as [H0 H1].
    f_equal; [destruct o, o0; try discriminate; reflexivity | apply IH; assumption | apply IH; assumption].
  - apply andb_true_iff in H. destruct H as [H H2]. apply andb_true_iff in H. destruct H as [H0 H1].
    f_equal; apply IH; assumption.
  - f_equal. revert es0 H. induction es as [|e r IHr]; intros [|f fs] H; try discriminate; [reflexivity|].
    apply andb_true_iff in H. destruct H as [H1 H2]. f_equal; [apply IH; exact H1 | apply IHr; exact H2].
Qed.

Lemma has_item_In l x e : has_item l x e = true -> In (x, e) l.
Proof.
  unfold has_item. rewrite existsb_exists. intros [[y f] [Hin H]]. cbn [fst snd] in H.
  apply andb_true_iff in H. destruct H as [H1 H2]. apply vexpr_eqb_eq in H2.
  assert (y = x) by lia. subst. assumption.
Qed.

Lemma items_eqb_eq l1 : forall l2, items_eqb l1 l2 = true -> l1 = l2.
Proof.
  induction l1 as [|[x e] r IH]; intros [|[y f] r2] H; simpl in H; try discriminate; [reflexivity|].
  apply andb_true_iff in H. destruct H as [H H3]. apply andb_true_iff in H. destruct H as [H1 H2].
  apply vexpr_eqb_eq in H2. apply IH in H3. assert (x = y) by lia. subst. reflexivity.
Qed.

Lemma list_eqb_nil_r {A} (eqb : A -> A -> bool) l : list_eqb eqb l [] = true -> l = [].
Proof. destruct l; simpl; [reflexivity|discriminate]. Qed.

Lemma assoc_nodup_in l : nodupb (map fst l) = true -> forall k v, In (k, v) l -> assoc l k = Some v.
Proof.
  induction l as [|[k0 v0] r IH]; intros Hn k v Hin; [contradiction|].
  simpl in Hn. apply andb_true_iff in Hn. destruct Hn as [Hfresh Hn].
  simpl. destruct Hin as [Heq|Hin].
  - injection Heq as -> ->. rewrite Z.eqb_refl. reflexivity.
  - destruct (k0 =? k) eqn:E.
    + exfalso. assert (k0 = k) by lia. subst k0.
      apply negb_true_iff in Hfresh.
      assert (existsb (Z.eqb k) (map fst r) = true).
      { apply existsb_exists. exists k. split; [|apply Z.eqb_refl].
        apply in_map_iff. exists (k, v). split; [reflexivity|assumption]. }
      congruence.
    + apply IH; assumption.
Qed.

Lemma assoc_in_some l k v : In (k, v) l -> exists u, assoc l k = Some u.
Proof.
  induction l as [|[k0 v0] r IH]; intros Hin; [contradiction|].
  simpl. destruct (k0 =? k) eqn:E; [eexists; reflexivity|].
  destruct Hin as [Heq|Hin]; [injection Heq as -> ->; lia|apply IH; assumption].
Qed.

Lemma decl_class_in ws ds x : decl_class_ok ws ds = true -> In x ws -> In (wname x, wwidth x) ds.
Proof.
  unfold decl_class_ok. intros H Hx. apply andb_true_iff in H. destruct H as [_ H].
  rewrite forallb_forall in H. specialize (H x Hx). apply existsb_exists in H.
  destruct H as [[k v] [Hin Heq]]. unfold pair_eqb in Heq. cbn [fst snd] in Heq.
  assert (k = wname x /\ v = wwidth x) as [-> ->] by lia. assumption.
Qed.

Lemma wfb_parts nl : wfb nl = true ->
  forallb (fun x => 0 <=? wwidth x) (wires nl) = true
  /\ forallb (fun x => match wkind x with
                       | KConst c => inrangeb c (wwidth x)
                       | _ => true
                       end) (wires nl) = true
  /\ nets_ok nl (rdy0 nl) (nets nl) = true
  /\ forallb (fun n => if is_comb (nop n) then true
                       else forallb (fun a => mem_in a (rdy_final nl)) (nargs n)
                            && arity_ok (nop n) (length (nargs n))) (nets nl) = true
  /\ forallb (fun x => mem_in (wname x) (rdy_final nl)) (wires nl) = true.
Proof.
  unfold wfb. intros H.
  repeat (apply andb_true_iff in H; destruct H as [H ?]). auto.
Qed.

Definition legal_ins (nl : netlist) (ins : wid -> Z) : Prop :=
  forall w x, find_wire (wires nl) w = Some x -> wkind x = KInput -> inrange (ins w) (wwidth x).
Definition legal_regs (nl : netlist) (rg : wid -> Z) : Prop :=
  forall w x, find_wire (wires nl) w = Some x -> is_kreg x = true -> inrange (rg w) (wwidth x).

(* state correspondence: same register values; every memory word the Verilog
   module holds is what the reference semantics reads (ROM table or array) *)
Definition SR (nl : netlist) (st : state) (vst : vstate) : Prop :=
  (forall r, vregs vst r = sregs st r)
  /\ (forall mm a, vmems vst mm a = mem_read nl st mm a).

Definition Agree (nl : netlist) (rdy : list wid) (v env : wid -> Z) : Prop :=
  forall w, In w rdy -> v w = env w /\ inrange (env w) (width_of nl w).

Section Module.
Variable nl : netlist.
Variable mode : rmode.
Variable m : vmodule.
Hypothesis Hwf : wfb nl = true.
Hypothesis Hok : emitted_ok nl mode m = true.

Local Notation wd := (width_of nl).

Lemma checks : forall k, nth k (emit_checks nl mode m) true = true.
Proof.
  intros k. unfold emitted_ok in Hok. rewrite forallb_forall in Hok.
  destruct (Nat.lt_ge_cases k (length (emit_checks nl mode m))) as [Hlt|Hge].
  - apply Hok. apply nth_In. assumption.
  - apply nth_overflow. assumption.
Qed.

Lemma width_nonneg w : 0 <= wd w.
Proof.
  unfold width_of. destruct (find_wire (wires nl) w) as [x|] eqn:E; [|lia].
  apply find_wire_In in E. destruct E as [Hin _].
  destruct (wfb_parts nl Hwf) as [H1 _].
  rewrite forallb_forall in H1. specialize (H1 x Hin). lia.
Qed.

Lemma wire_decl x : In x (wires nl) -> In (wname x, wwidth x) (decls m).
Proof.
  intros Hx. unfold decls.
  pose proof (checks 0) as C0. pose proof (checks 1) as C1.
  pose proof (checks 2) as C2. pose proof (checks 3) as C3.
  cbn [nth emit_checks] in C0, C1, C2, C3.
  destruct (wkind x) eqn:K.
  - apply in_or_app. right. apply in_or_app. right. apply in_or_app. right.
    apply (decl_class_in _ _ x C3). apply filter_In. split; [assumption|]. unfold is_kwire. rewrite K. reflexivity.
  - apply in_or_app. left.
    apply (decl_class_in _ _ x C0). apply filter_In. split; [assumption|]. unfold is_kinput. rewrite K. reflexivity.
  - apply in_or_app. right. apply in_or_app. left.
    apply (decl_class_in _ _ x C1). apply filter_In. split; [assumption|]. unfold is_koutput. rewrite K. reflexivity.
  - apply in_or_app. right. apply in_or_app. right. apply in_or_app. right.
    apply (decl_class_in _ _ x C3). apply filter_In. split; [assumption|]. unfold is_kwire. rewrite K. reflexivity.
  - apply in_or_app. right. apply in_or_app. right. apply in_or_app. left.
    apply (decl_class_in _ _ x C2). apply filter_In. split; [assumption|]. unfold is_kreg. rewrite K. reflexivity.
Qed.

(* the module declares every wire of the netlist with its bitwidth *)
Lemma dwidth_wire w : declared_wire nl w = true -> dwidth m w = wd w.
Proof.
  unfold declared_wire, width_of. destruct (find_wire (wires nl) w) as [x|] eqn:E; [|discriminate].
  intros _. apply find_wire_In in E. destruct E as [Hin <-].
  pose proof (checks 4) as C4. cbn [nth emit_checks] in C4.
  apply andb_true_iff in C4. destruct C4 as [C4 _].
  unfold dwidth. rewrite (assoc_nodup_in _ C4 _ _ (wire_decl x Hin)). reflexivity.
Qed.

Lemma input_declared w x : find_wire (wires nl) w = Some x -> wkind x = KInput ->
  declared_in (m_inputs m) w = true.
Proof.
  intros E K. apply find_wire_In in E. destruct E as [Hin <-].
  pose proof (checks 0) as C0. cbn [nth emit_checks] in C0.
  assert (H : In (wname x, wwidth x) (m_inputs m)).
  { apply (decl_class_in _ _ x C0). apply filter_In. split; [assumption|]. unfold is_kinput. rewrite K. reflexivity. }
  unfold declared_in. destruct (assoc_in_some _ _ _ H) as [u ->]. reflexivity.
Qed.

Lemma reg_declared w x : find_wire (wires nl) w = Some x -> is_kreg x = true ->
  declared_in (m_regs m) w = true.
Proof.
  intros E K. apply find_wire_In in E. destruct E as [Hin <-].
  pose proof (checks 2) as C2. cbn [nth emit_checks] in C2.
  assert (H : In (wname x, wwidth x) (m_regs m)).
  { apply (decl_class_in _ _ x C2). apply filter_In. split; assumption. }
  unfold declared_in. destruct (assoc_in_some _ _ _ H) as [u ->]. reflexivity.
Qed.

(* per-net facts delivered by check 15 *)
Lemma net_rules n : In n (nets nl) ->
  (match nop n with OpNand => false | _ => vrules nl n end) = true
  /\ (forall a, In a (nargs n) -> declared_wire nl a = true)
  /\ match nop n with
     | OpMemWr mm => exists x, find_mem (mems nl) mm = Some x /\ wd (arg n 1) <= mdataw x /\ mrom x = None
     | OpMemRd mm => declared_wire nl (ndest n) = true /\ exists x, find_mem (mems nl) mm = Some x
     | _ => declared_wire nl (ndest n) = true
     end.
Proof.
  intros Hn. pose proof (checks 15) as C. cbn [nth emit_checks] in C.
  rewrite forallb_forall in C. specialize (C n Hn).
  apply andb_true_iff in C. destruct C as [C C3]. apply andb_true_iff in C. destruct C as [C1 C2].
  split; [assumption|]. split.
  - intros a Ha. rewrite forallb_forall in C2. apply C2. assumption.
  - destruct (nop n); try assumption.
    + apply andb_true_iff in C3. destruct C3 as [C3 C4]. split; [assumption|].
      destruct (find_mem (mems nl) m0); [eexists; reflexivity|discriminate].
    + destruct (find_mem (mems nl) m0) as [x|]; [|discriminate]. exists x.
      apply andb_true_iff in C3. destruct C3 as [C3 C4].
      split; [reflexivity|]. split; [lia|]. destruct (mrom x); [discriminate|reflexivity].
Qed.


(* ---- one cycle: any settled valuation is the reference valuation ---- *)
Section Cycle.
Variable dflt : Z.
Variable st : state.
Variable vst : vstate.
Variable ins : wid -> Z.
Variable env : Z -> Z.
Hypothesis HSR : SR nl st vst.
Hypothesis Hins : legal_ins nl ins.
Hypothesis Hregs : legal_regs nl (sregs st).
Hypothesis Hset : settled m vst ins env.

Lemma base_agree : Agree nl (rdy0 nl) (base_val nl dflt st ins) env.
Proof.
  intros w Hw. unfold rdy0 in Hw. apply filter_In in Hw. destruct Hw as [_ Hb].
  unfold is_base in Hb. unfold base_val, width_of.
  destruct (find_wire (wires nl) w) as [x|] eqn:E; [|discriminate].
  destruct Hset as [S1 [S2 [S3 S4]]]. destruct HSR as [R1 R2].
  pose proof (find_wire_In _ _ _ E) as [Hin Hname].
  destruct (wkind x) eqn:K; try discriminate.
  - (* input *)
    rewrite (S1 w (input_declared w x E K)). split; [reflexivity|]. apply (Hins w x E K).
  - (* const *)
    pose proof (checks 7) as C7. cbn [nth emit_checks] in C7.
    rewrite forallb_forall in C7. specialize (C7 x Hin). rewrite K in C7.
    apply has_item_In in C7. rewrite Hname in C7. rewrite (S3 _ _ C7).
    unfold vassign. cbn [veval].
    assert (Hd : dwidth m w = wwidth x).
    { rewrite dwidth_wire; [unfold width_of; rewrite E; reflexivity|].
      unfold declared_wire. rewrite E. reflexivity. }
    rewrite Hd.
    destruct (wfb_parts nl Hwf) as [_ [H2 _]]. rewrite forallb_forall in H2.
    specialize (H2 x Hin). rewrite K in H2. apply inrangeb_spec in H2.
    rewrite Z.mod_small by exact H2. split; [reflexivity|assumption].
  - (* register *)
    assert (Kr : is_kreg x = true) by (unfold is_kreg; rewrite K; reflexivity).
    rewrite (S2 w (reg_declared w x E Kr)), R1. split; [reflexivity|]. apply (Hregs w x E Kr).
Qed.

Lemma argvals_agree rdy v n :
  Agree nl rdy v env -> (forall a, In a (nargs n) -> In a rdy) ->
  argvals nl v n = argvals nl env n.
Proof.
  intros HA Hargs. unfold argvals. apply map_ext_in. intros a Ha.
  destruct (HA a (Hargs a Ha)) as [-> _]. reflexivity.
Qed.

Lemma exec_agree rdy v n :
  In n (nets nl) -> Agree nl rdy v env -> net_ok nl rdy n = true ->
  Agree nl (rdy_next rdy n) (exec_spec nl st v n) env.
Proof.
  intros Hn HA Hnet. unfold rdy_next. unfold net_ok in Hnet.
  destruct (is_comb (nop n)) eqn:Hc.
  2:{ unfold exec_spec. destruct (nop n); try discriminate Hc; assumption. }
  apply andb_true_iff in Hnet. destruct Hnet as [Hnet Hop].
  apply andb_true_iff in Hnet. destruct Hnet as [Hnet Har].
  apply andb_true_iff in Hnet. destruct Hnet as [Hargs Hfresh].
  assert (Hargs' : forall a, In a (nargs n) -> In a rdy).
  { intros a Ha. rewrite forallb_forall in Hargs. apply mem_in_In. apply Hargs. assumption. }
  assert (Hfresh' : ~ In (ndest n) rdy).
  { intro Hin. apply mem_in_In in Hin. rewrite Hin in Hfresh. discriminate. }
  destruct (net_rules n Hn) as [Hvr [Hdecl Hdest]].
  destruct Hset as [S1 [S2 [S3 S4]]]. destruct HSR as [R1 R2].
  assert (Hval : exec_spec nl st v n = upd v (ndest n) (env (ndest n))
                 /\ inrange (env (ndest n)) (wd (ndest n))).
  { destruct (nop n) eqn:Eo; try discriminate Hc.
    all: try discriminate Hvr.
    15:{ (* memory read *)
      destruct Hdest as [Hdd Hmem].
      pose proof (checks 10) as C. cbn [nth emit_checks] in C.
      apply andb_true_iff in C. destruct C as [C _].
      rewrite forallb_forall in C. specialize (C n Hn). rewrite Eo in C.
      apply existsb_exists in C. destruct C as [[x [mm a]] [Hin Heq]].
      unfold pair_eqb in Heq. cbn [fst snd] in Heq.
      assert (x = ndest n /\ mm = m0 /\ a = arg n 0) as [-> [-> ->]] by lia.
      rewrite (S4 _ _ _ Hin). rewrite (dwidth_wire _ Hdd).
      assert (Ha0 : In (arg n 0) (nargs n)).
      { unfold arg. simpl in Har. apply Nat.eqb_eq in Har.
        apply nth_In. lia. }
      destruct (HA _ (Hargs' _ Ha0)) as [Hv _].
      unfold exec_spec. rewrite Eo. rewrite Hv, R2. split; [reflexivity|].
      apply mod_range. apply width_nonneg. }
    all: (
      pose proof (checks 8) as C; cbn [nth emit_checks] in C;
      rewrite forallb_forall in C; specialize (C n Hn);
      unfold is_assign_net in C; rewrite Eo in C;
      destruct (emit_expr nl n) as [e|] eqn:Ee; [|discriminate];
      apply has_item_In in C;
      destruct (assign_correct_gen nl env (dwidth m) n e) as [r [Hr Hv]];
      [ intros x [<-|Hx]; apply dwidth_wire; [exact Hdest | apply Hdecl; exact Hx]
      | exact Ee
      | exact Hvr
      | intros a Ha; apply (HA a (Hargs' a Ha))
      | ];
      rewrite (S3 _ _ C), Hv;
      unfold exec_spec; rewrite Eo; rewrite Eo in Hr;
      rewrite (argvals_agree rdy v n HA Hargs'), Hr;
      split; [reflexivity | apply mod_range; apply width_nonneg] ). }
  destruct Hval as [-> Hrange].
  intros w [<-|Hin].
  - rewrite upd_same. split; [reflexivity|assumption].
  - assert (w <> ndest n) by (intro; subst; contradiction).
    rewrite upd_other by assumption. apply HA. assumption.
Qed.

Lemma comb_agree : forall ns rdy v,
  incl ns (nets nl) -> Agree nl rdy v env -> nets_ok nl rdy ns = true ->
  Agree nl (fold_left rdy_next ns rdy) (fold_left (exec_spec nl st) ns v) env.
Proof.
  induction ns as [|n r IH]; intros rdy v Hincl HA Hnets; simpl; [assumption|].
  simpl in Hnets. apply andb_true_iff in Hnets. destruct Hnets as [Hn Hr].
  apply IH; [intros x Hx; apply Hincl; right; assumption| |assumption].
  apply exec_agree; [apply Hincl; left; reflexivity|assumption|assumption].
Qed.

(* every wire of the design has exactly its reference value, in range *)
Theorem settled_is_comb :
  Agree nl (rdy_final nl) (comb nl st (base_val nl dflt st ins)) env.
Proof.
  destruct (wfb_parts nl Hwf) as [_ [_ [H3 _]]].
  apply comb_agree; [apply incl_refl|apply base_agree|assumption].
Qed.


(* ---- the clock edge ---- *)
Let v := comb nl st (base_val nl dflt st ins).

Lemma final_arg_agree n a : In n (nets nl) -> is_comb (nop n) = false -> In a (nargs n) ->
  v a = env a /\ inrange (env a) (wd a).
Proof.
  intros Hn Hc Ha. destruct (wfb_parts nl Hwf) as [_ [_ [_ [H4 _]]]].
  rewrite forallb_forall in H4. specialize (H4 n Hn). rewrite Hc in H4.
  apply andb_true_iff in H4. destruct H4 as [H4 _]. rewrite forallb_forall in H4.
  apply settled_is_comb. apply mem_in_In. apply H4. assumption.
Qed.

Lemma final_arity n : In n (nets nl) -> is_comb (nop n) = false ->
  arity_ok (nop n) (length (nargs n)) = true.
Proof.
  intros Hn Hc. destruct (wfb_parts nl Hwf) as [_ [_ [_ [H4 _]]]].
  rewrite forallb_forall in H4. specialize (H4 n Hn). rewrite Hc in H4.
  apply andb_true_iff in H4. destruct H4 as [_ H4]. assumption.
Qed.

Lemma regs_step : forall ns rg rv, incl ns (nets nl) -> (forall r, rv r = rg r) ->
  forall r, fold_left (nb_assign m env)
                      (map (fun n => (ndest n, VId (arg n 0))) (filter is_regnet ns)) rv r
            = fold_left (regnext_spec nl v) ns rg r.
Proof.
  induction ns as [|n ns IH]; intros rg rv Hincl Heq r; simpl; [apply Heq|].
  assert (Hn : In n (nets nl)) by (apply Hincl; left; reflexivity).
  assert (Hincl' : incl ns (nets nl)) by (intros x Hx; apply Hincl; right; assumption).
  destruct (is_regnet n) eqn:E.
  - simpl. apply IH; [assumption|]. intros r'.
    unfold is_regnet in E. destruct (nop n) eqn:Eo; try discriminate E.
    unfold nb_assign, regnext_spec. rewrite Eo. cbn [fst snd]. unfold upd.
    destruct (r' =? ndest n); [|apply Heq].
    unfold vassign. cbn [veval vwidth].
    destruct (net_rules n Hn) as [_ [_ Hd]]. rewrite Eo in Hd. rewrite (dwidth_wire _ Hd).
    assert (Ha : In (arg n 0) (nargs n)).
    { pose proof (final_arity n Hn) as Har. rewrite Eo in Har. specialize (Har eq_refl).
      simpl in Har. apply Nat.eqb_eq in Har. unfold arg. apply nth_In. lia. }
    destruct (final_arg_agree n (arg n 0) Hn) as [Hv _]; [rewrite Eo; reflexivity|exact Ha|].
    rewrite Hv. reflexivity.
  - apply IH; [assumption|]. intros r'. unfold regnext_spec.
    unfold is_regnet in E. destruct (nop n); try discriminate E; apply Heq.
Qed.

Lemma regs_legal : forall ns rg, legal_regs nl rg -> legal_regs nl (fold_left (regnext_spec nl v) ns rg).
Proof.
  induction ns as [|n ns IH]; intros rg Hl; simpl; [assumption|].
  apply IH. unfold regnext_spec. destruct (nop n); try assumption.
  intros w x E K. unfold upd. destruct (w =? ndest n) eqn:Ew; [|apply (Hl w x E K)].
  assert (w = ndest n) by lia. subst w.
  assert (Hw : wd (ndest n) = wwidth x) by (unfold width_of; rewrite E; reflexivity).
  rewrite Hw. apply mod_range. rewrite <- Hw. apply width_nonneg.
Qed.

End Cycle.

(* ---- memory write ports ---- *)
Lemma list_eqb_eq {A} (eqb : A -> A -> bool) :
  (forall a b, eqb a b = true -> a = b) -> forall l1 l2, list_eqb eqb l1 l2 = true -> l1 = l2.
Proof.
  intros He. induction l1 as [|a r IH]; intros [|b r2] H; simpl in H; try discriminate; [reflexivity|].
  apply andb_true_iff in H. destruct H as [H1 H2]. f_equal; [apply He; assumption|apply IH; assumption].
Qed.

Lemma memwrs_eq : m_memwrs m = expected_memwrs nl.
Proof.
  pose proof (checks 14) as C. cbn [nth emit_checks] in C. revert C. apply list_eqb_eq.
  intros [k1 w1] [k2 w2] H. cbn [fst snd] in H. apply andb_true_iff in H. destruct H as [H1 H2].
  f_equal; [lia|]. revert H2. apply list_eqb_eq.
  intros [e1 a1 d1] [e2 a2 d2] H. unfold vmemwrite_eqb in H. cbn [vw_en vw_addr vw_data] in H.
  f_equal; lia.
Qed.

Lemma mems_eq : m_mems m = map (fun mm => (mid mm, (mdataw mm, 2 ^ maddrw mm))) (mems nl).
Proof.
  pose proof (checks 5) as C. cbn [nth emit_checks] in C. revert C. apply list_eqb_eq.
  intros [k1 [w1 d1]] [k2 [w2 d2]] H. unfold pair_eqb in H. cbn [fst snd] in H.
  f_equal; [lia|f_equal; lia].
Qed.

Lemma memwidth_find mm x : find_mem (mems nl) mm = Some x -> memwidth m mm = mdataw x.
Proof.
  unfold memwidth. rewrite mems_eq. induction (mems nl) as [|y r IH]; simpl; [discriminate|].
  destruct (mid y =? mm) eqn:E.
  - intros H. injection H as <-. reflexivity.
  - apply IH.
Qed.

(* Sem side: the effect of all write nets on one memory *)
Definition wr1 (v : wid -> Z) (f : Z -> Z) (n : net) : Z -> Z :=
  if v (arg n 2) =? 0 then f else upd f (v (arg n 0)) (v (arg n 1)).

Lemma sem_writes_proj v mm : forall ns ms,
  fold_left (write_spec v) ns ms mm = fold_left (wr1 v) (filter (writes_to mm) ns) (ms mm).
Proof.
  induction ns as [|n ns IH]; intros ms; simpl; [reflexivity|].
  rewrite IH. unfold write_spec, writes_to at 2.
  destruct (nop n) eqn:Eo; try reflexivity.
  destruct (m0 =? mm) eqn:E.
  - simpl. f_equal. unfold wr1. destruct (v (arg n 2) =? 0); [reflexivity|].
    assert (m0 = mm) by lia. subst. rewrite upd_same. reflexivity.
  - f_equal. destruct (v (arg n 2) =? 0); [reflexivity|]. rewrite upd_other by lia. reflexivity.
Qed.

(* Verilog side *)
Definition nbw1 (env : Z -> Z) (k : Z) (f : Z -> Z) (w : vmemwrite) : Z -> Z :=
  if env (vw_en w) =? 0 then f
  else upd f (env (vw_addr w)) (env (vw_data w) mod 2 ^ memwidth m k).

Lemma ver_block_proj env k mm : forall ws ms,
  fold_left (nb_memwrite m env k) ws ms mm
  = if mm =? k then fold_left (nbw1 env k) ws (ms k) else ms mm.
Proof.
  induction ws as [|w ws IH]; intros ms; simpl.
  - destruct (mm =? k) eqn:E; [assert (mm = k) by lia; subst|]; reflexivity.
  - rewrite IH. unfold nb_memwrite, nbw1.
    destruct (env (vw_en w) =? 0); [reflexivity|].
    destruct (mm =? k) eqn:E.
    + rewrite upd_same. reflexivity.
    + rewrite upd_other by lia. reflexivity.
Qed.

Lemma ver_blocks_proj env mm : forall bs ms,
  (forall b, In b bs -> fst b <> mm) ->
  fold_left (fun ms blk => fold_left (nb_memwrite m env (fst blk)) (snd blk) ms) bs ms mm = ms mm.
Proof.
  induction bs as [|[k ws] bs IH]; intros ms H; simpl; [reflexivity|].
  rewrite IH by (intros b Hb; apply H; right; assumption).
  rewrite ver_block_proj.
  assert (k <> mm) by (apply (H (k, ws)); left; reflexivity).
  destruct (mm =? k) eqn:E; [lia|reflexivity].
Qed.

Lemma ver_blocks_proj_in env mm : forall bs ms,
  nodupb (map fst bs) = true ->
  forall ws, In (mm, ws) bs ->
  fold_left (fun ms blk => fold_left (nb_memwrite m env (fst blk)) (snd blk) ms) bs ms mm
  = fold_left (nbw1 env mm) ws (ms mm).
Proof.
  induction bs as [|[k ws0] bs IH]; intros ms Hnd ws Hin; [contradiction|].
  simpl in Hnd. apply andb_true_iff in Hnd. destruct Hnd as [Hfresh Hnd]. simpl.
  destruct Hin as [Heq|Hin].
  - injection Heq as -> ->. rewrite ver_blocks_proj.
    + rewrite ver_block_proj, Z.eqb_refl. reflexivity.
    + intros b Hb Heq. apply negb_true_iff in Hfresh.
      assert (existsb (Z.eqb mm) (map fst bs) = true); [|congruence].
      apply existsb_exists. exists (fst b). split; [apply in_map; assumption|lia].
  - rewrite (IH _ Hnd ws Hin). rewrite ver_block_proj.
    destruct (mm =? k) eqn:E; [|reflexivity].
    exfalso. assert (mm = k) by lia. subst k. apply negb_true_iff in Hfresh.
    assert (existsb (Z.eqb mm) (map fst bs) = true); [|congruence].
    apply existsb_exists. exists mm. split; [|apply Z.eqb_refl].
    apply in_map_iff. exists (mm, ws). split; [reflexivity|assumption].
Qed.

Lemma nodupb_filter {A} (f : A -> Z) (p : A -> bool) : forall l,
  nodupb (map f l) = true -> nodupb (map f (filter p l)) = true.
Proof.
  induction l as [|a l IH]; intros H; simpl; [reflexivity|].
  simpl in H. apply andb_true_iff in H. destruct H as [H1 H2].
  destruct (p a); [|apply IH; assumption].
  simpl. rewrite (IH H2), andb_true_r. apply negb_true_iff. apply negb_true_iff in H1.
  destruct (existsb (Z.eqb (f a)) (map f (filter p l))) eqn:E; [|reflexivity].
  apply existsb_exists in E. destruct E as [z [Hz Heq]].
  apply in_map_iff in Hz. destruct Hz as [b [<- Hb]]. apply filter_In in Hb. destruct Hb as [Hb _].
  rewrite <- H1. symmetry. apply existsb_exists. exists (f b). split; [apply in_map; assumption|assumption].
Qed.

Lemma find_mem_In ms mm x : find_mem ms mm = Some x -> In x ms /\ mid x = mm.
Proof.
  induction ms as [|y r IH]; simpl; [discriminate|].
  destruct (mid y =? mm) eqn:E.
  - intros H. injection H as <-. split; [left; reflexivity|lia].
  - intros H. destruct (IH H). split; [right|]; assumption.
Qed.

Lemma memwrs_nodup : nodupb (map fst (expected_memwrs nl)) = true.
Proof.
  pose proof (checks 16) as C. cbn [nth emit_checks] in C.
  apply andb_true_iff in C. destruct C as [C _].
  unfold expected_memwrs. apply nodupb_filter. rewrite map_map. cbn [fst]. assumption.
Qed.

Section MemStep.
Variable dflt : Z.
Variable st : state.
Variable vst : vstate.
Variable ins : wid -> Z.
Variable env : Z -> Z.
Hypothesis HSR : SR nl st vst.
Hypothesis Hins : legal_ins nl ins.
Hypothesis Hregs : legal_regs nl (sregs st).
Hypothesis Hset : settled m vst ins env.
Let v := comb nl st (base_val nl dflt st ins).

Lemma writes_pointwise mm x : find_mem (mems nl) mm = Some x -> forall ns f g,
  incl ns (nets nl) -> (forall a, f a = g a) ->
  forall a, fold_left (nbw1 env mm) (map (fun n => mkVW (arg n 2) (arg n 0) (arg n 1)) (filter (writes_to mm) ns)) f a
            = fold_left (wr1 v) (filter (writes_to mm) ns) g a.
Proof.
  intros Hx. induction ns as [|n ns IH]; intros f g Hincl Hfg a; simpl; [apply Hfg|].
  assert (Hn : In n (nets nl)) by (apply Hincl; left; reflexivity).
  assert (Hincl' : incl ns (nets nl)) by (intros y Hy; apply Hincl; right; assumption).
  destruct (writes_to mm n) eqn:E; [|apply IH; assumption].
  simpl. apply IH; [assumption|]. intros a'.
  unfold writes_to in E. destruct (nop n) eqn:Eo; try discriminate E.
  assert (m0 = mm) by lia. subst m0.
  destruct (net_rules n Hn) as [_ [_ Hd]]. rewrite Eo in Hd. destruct Hd as [x' [Hx' [Hw _]]].
  rewrite Hx in Hx'. injection Hx' as <-.
  pose proof (final_arity n Hn) as Har. rewrite Eo in Har. specialize (Har eq_refl).
  simpl in Har. apply Nat.eqb_eq in Har.
  assert (Hc : is_comb (nop n) = false) by (rewrite Eo; reflexivity).
  assert (Hargs : forall i, (i < 3)%nat -> v (arg n i) = env (arg n i) /\ inrange (env (arg n i)) (wd (arg n i))).
  { intros i Hi. apply (final_arg_agree dflt st vst ins env HSR Hins Hregs Hset n (arg n i) Hn Hc).
    unfold arg. apply nth_In. lia. }
  destruct (Hargs 0%nat) as [H0 _]; [lia|]. destruct (Hargs 1%nat) as [H1 R1]; [lia|].
  destruct (Hargs 2%nat) as [H2 _]; [lia|].
  unfold nbw1, wr1. cbn [vw_en vw_addr vw_data]. fold v. rewrite H0, H1, H2.
  destruct (env (arg n 2) =? 0); [apply Hfg|].
  rewrite (memwidth_find mm x Hx).
  rewrite Z.mod_small.
  - unfold upd. destruct (a' =? env (arg n 0)); [reflexivity|apply Hfg].
  - destruct R1 as [Ra Rb]. split; [assumption|].
    eapply Z.lt_le_trans; [exact Rb|]. apply Z.pow_le_mono_r; [lia|assumption].
Qed.

Lemma no_writer_filter mm : find_mem (mems nl) mm = None ->
  forall ns, incl ns (nets nl) -> filter (writes_to mm) ns = [].
Proof.
  intros Hnone. induction ns as [|n ns IH]; intros Hincl; simpl; [reflexivity|].
  assert (Hn : In n (nets nl)) by (apply Hincl; left; reflexivity).
  rewrite IH by (intros y Hy; apply Hincl; right; assumption).
  destruct (writes_to mm n) eqn:E; [|reflexivity].
  unfold writes_to in E. destruct (nop n) eqn:Eo; try discriminate E.
  assert (m0 = mm) by lia. subst m0.
  destruct (net_rules n Hn) as [_ [_ Hd]]. rewrite Eo in Hd. destruct Hd as [x' [Hx' _]]. congruence.
Qed.

Lemma rom_no_writer mm x : find_mem (mems nl) mm = Some x -> mrom x <> None ->
  forall ns, incl ns (nets nl) -> filter (writes_to mm) ns = [].
Proof.
  intros Hx Hrom. induction ns as [|n ns IH]; intros Hincl; simpl; [reflexivity|].
  assert (Hn : In n (nets nl)) by (apply Hincl; left; reflexivity).
  rewrite IH by (intros y Hy; apply Hincl; right; assumption).
  destruct (writes_to mm n) eqn:E; [|reflexivity].
  unfold writes_to in E. destruct (nop n) eqn:Eo; try discriminate E.
  assert (m0 = mm) by lia. subst m0.
  destruct (net_rules n Hn) as [_ [_ Hd]]. rewrite Eo in Hd. destruct Hd as [x' [Hx' [_ Hr]]].
  rewrite Hx in Hx'. injection Hx' as <-. contradiction.
Qed.

(* the Verilog memory array after the edge, word by word *)
Lemma ver_mems_after mm a :
  vmems (vedge m false env vst) mm a
  = fold_left (nbw1 env mm) (expected_writes nl mm) (vmems vst mm) a.
Proof.
  cbn [vedge vmems]. rewrite memwrs_eq.
  destruct (expected_writes nl mm) as [|w ws] eqn:Ew.
  - (* no block for mm *)
    rewrite ver_blocks_proj; [reflexivity|].
    intros [k ws] Hb Hk. cbn [fst] in Hk. subst k.
    unfold expected_memwrs in Hb. apply filter_In in Hb. destruct Hb as [Hb Hne].
    apply in_map_iff in Hb. destruct Hb as [y [Hy _]]. injection Hy as Hmid <-.
    rewrite Hmid, Ew in Hne. discriminate.
  - destruct (find_mem (mems nl) mm) as [x|] eqn:Hx.
    + rewrite (ver_blocks_proj_in env mm _ _ memwrs_nodup (w :: ws)); [reflexivity|].
      unfold expected_memwrs. apply filter_In. split.
      * apply in_map_iff. apply find_mem_In in Hx. destruct Hx as [Hin Hmid].
        exists x. rewrite Hmid, Ew. split; [reflexivity|assumption].
      * reflexivity.
    + unfold expected_writes in Ew. rewrite (no_writer_filter mm Hx (nets nl) (incl_refl _)) in Ew.
      discriminate.
Qed.

Lemma mems_step mm a :
  vmems (vedge m false env vst) mm a
  = mem_read nl (snd (step nl dflt st ins)) mm a.
Proof.
  destruct HSR as [R1 R2]. rewrite ver_mems_after.
  unfold step. cbn [snd]. fold v. unfold mem_read. cbn [smems].
  rewrite sem_writes_proj.
  pose proof (R2 mm) as R2m. unfold mem_read in R2m.
  destruct (find_mem (mems nl) mm) as [x|] eqn:Hx.
  - destruct (mrom x) as [data|] eqn:Hrom.
    + unfold expected_writes.
      rewrite (rom_no_writer mm x Hx) by (try apply incl_refl; congruence).
      simpl. apply R2m.
    + unfold expected_writes. apply (writes_pointwise mm x Hx); [apply incl_refl|assumption].
  - unfold expected_writes.
    rewrite (no_writer_filter mm Hx (nets nl) (incl_refl _)). simpl. apply R2m.
Qed.

End MemStep.

Lemma updates_eq : m_updates m = expected_updates nl.
Proof. pose proof (checks 12) as C. cbn [nth emit_checks] in C. apply items_eqb_eq. assumption. Qed.

Lemma reg_block_false : reg_block m false = m_updates m.
Proof. unfold reg_block. destruct (m_mode m); reflexivity. Qed.

(* one cycle + one clock edge with rst low *)
Theorem step_refines dflt st vst ins env :
  SR nl st vst -> legal_ins nl ins -> legal_regs nl (sregs st) ->
  settled m vst ins env ->
  Agree nl (rdy_final nl) (fst (step nl dflt st ins)) env
  /\ SR nl (snd (step nl dflt st ins)) (vedge m false env vst)
  /\ legal_regs nl (sregs (snd (step nl dflt st ins))).
Proof.
  intros HSR Hi Hr Hs.
  split; [apply (settled_is_comb dflt st vst ins env HSR Hi Hr Hs)|]. split.
  - split.
    + destruct HSR as [R1 R2]. intros r. unfold step. cbn [fst snd vedge vregs sregs].
      rewrite reg_block_false, updates_eq. unfold expected_updates.
      apply (regs_step dflt st vst ins env (conj R1 R2) Hi Hr Hs); [apply incl_refl|assumption].
    + intros mm a. apply (mems_step dflt st vst ins env HSR Hi Hr Hs).
  - unfold step. cbn [snd sregs]. apply regs_legal. assumption.
Qed.

Theorem run_refines dflt : forall inss st vst envs,
  SR nl st vst -> legal_regs nl (sregs st) -> Forall (legal_ins nl) inss ->
  vtrace m vst (map (fun i => (i, false)) inss) envs ->
  Forall2 (fun v env => forall x, In x (wires nl) ->
             env (wname x) = v (wname x) /\ inrange (env (wname x)) (wd (wname x)))
          (fst (run nl dflt st inss)) envs.
Proof.
  induction inss as [|ins inss IH]; intros st vst envs HSR Hr Hi Ht.
  - destruct envs; [constructor|contradiction].
  - destruct envs as [|env envs]; [contradiction|].
    cbn [map vtrace] in Ht. destruct Ht as [Hs Ht].
    inversion Hi as [|? ? Hi1 Hi2]; subst.
    destruct (step_refines dflt st vst ins env HSR Hi1 Hr Hs) as [HA [HSR' Hr']].
    cbn [run]. destruct (step nl dflt st ins) as [v st'] eqn:Es. cbn [fst snd] in *.
    specialize (IH st' _ envs HSR' Hr' Hi2 Ht).
    destruct (run nl dflt st' inss) as [vs st'']. cbn [fst] in *.
    constructor; [|assumption].
    intros x Hx. destruct (wfb_parts nl Hwf) as [_ [_ [_ [_ H5]]]].
    rewrite forallb_forall in H5. specialize (H5 x Hx). apply mem_in_In in H5.
    destruct (HA _ H5) as [-> Hrange]. split; [reflexivity|assumption].
Qed.

(* ---- initial state: ROM `initial` blocks hold the ROM tables ---- *)
Lemma roms_eq : m_roms m = expected_roms nl.
Proof.
  pose proof (checks 6) as C. cbn [nth emit_checks] in C. revert C. apply list_eqb_eq.
  intros [k1 t1] [k2 t2] H. cbn [fst snd] in H. apply andb_true_iff in H. destruct H as [H1 H2].
  apply items_eqb_eq in H2. f_equal; [lia|assumption].
Qed.

Definition rom_entry (x : mem) : list (Z * list (Z * vexpr)) :=
  match mrom x with Some data => [(mid x, expected_rom x data)] | None => [] end.

Lemma find_roms_none mm : forall ms, (forall x, In x ms -> mid x <> mm) ->
  find (fun p : Z * list (Z * vexpr) => fst p =? mm) (flat_map rom_entry ms) = None.
Proof.
  induction ms as [|y r IH]; intros H; simpl; [reflexivity|].
  assert (mid y <> mm) by (apply H; left; reflexivity).
  unfold rom_entry at 1. destruct (mrom y); simpl.
  - destruct (mid y =? mm) eqn:E; [lia|]. apply IH. intros x Hx. apply H. right. assumption.
  - apply IH. intros x Hx. apply H. right. assumption.
Qed.

Lemma find_roms mm : forall ms, nodupb (map mid ms) = true ->
  find (fun p : Z * list (Z * vexpr) => fst p =? mm) (flat_map rom_entry ms)
  = match find_mem ms mm with
    | Some x => match mrom x with Some data => Some (mid x, expected_rom x data) | None => None end
    | None => None
    end.
Proof.
  induction ms as [|y r IH]; intros Hnd; simpl; [reflexivity|].
  simpl in Hnd. apply andb_true_iff in Hnd. destruct Hnd as [Hfresh Hnd].
  destruct (mid y =? mm) eqn:E.
  - assert (Hr : forall x, In x r -> mid x <> mm).
    { intros x Hx Heq. apply negb_true_iff in Hfresh.
      assert (existsb (Z.eqb (mid y)) (map mid r) = true); [|congruence].
      apply existsb_exists. exists (mid x). split; [apply in_map; assumption|lia]. }
    unfold rom_entry at 1. destruct (mrom y); simpl.
    + rewrite E. reflexivity.
    + apply find_roms_none. assumption.
  - unfold rom_entry at 1. destruct (mrom y); simpl; [rewrite E|]; apply IH; assumption.
Qed.

Lemma find_seq_table (g : Z -> vexpr) a : forall len start,
  find (fun p : Z * vexpr => fst p =? a)
       (map (fun k => (Z.of_nat k, g (Z.of_nat k))) (seq start len))
  = if (Z.of_nat start <=? a) && (a <? Z.of_nat start + Z.of_nat len) then Some (a, g a) else None.
Proof.
  induction len as [|len IH]; intros start; simpl.
  - destruct ((Z.of_nat start <=? a) && (a <? Z.of_nat start + 0)) eqn:E; [lia|reflexivity].
  - destruct (Z.of_nat start =? a) eqn:E.
    + assert (Z.of_nat start = a) by lia. subst a.
      destruct ((Z.of_nat start <=? Z.of_nat start)
                && (Z.of_nat start <? Z.of_nat start + Z.pos (Pos.of_succ_nat len))) eqn:E2; [reflexivity|lia].
    + rewrite IH.
      destruct ((Z.of_nat (S start) <=? a) && (a <? Z.of_nat (S start) + Z.of_nat len)) eqn:E1;
      destruct ((Z.of_nat start <=? a) && (a <? Z.of_nat start + Z.pos (Pos.of_succ_nat len))) eqn:E2;
      try reflexivity; lia.
Qed.

Lemma rom_read_cases data a : rom_read data a = 0 \/ exists k, In (k, rom_read data a) data /\ k = a.
Proof.
  unfold rom_read, assoc_d. induction data as [|[k v] r IH]; simpl; [left; reflexivity|].
  destruct (k =? a) eqn:E.
  - right. exists k. split; [left; reflexivity|lia].
  - destruct IH as [IH|[k' [Hin Hk]]]; [left; assumption|]. right. exists k'. split; [right|]; assumption.
Qed.

Lemma mem_rules x : In x (mems nl) ->
  0 <= maddrw x /\ 0 <= mdataw x
  /\ forall data, mrom x = Some data ->
       forall k v, In (k, v) data -> 0 <= k < 2 ^ maddrw x /\ inrange v (mdataw x).
Proof.
  intros Hx. pose proof (checks 16) as C. cbn [nth emit_checks] in C.
  apply andb_true_iff in C. destruct C as [_ C]. rewrite forallb_forall in C.
  specialize (C x Hx). apply andb_true_iff in C. destruct C as [C C3].
  apply andb_true_iff in C. destruct C as [C1 C2].
  split; [lia|]. split; [lia|]. intros data Hd k v Hin. rewrite Hd in C3.
  rewrite forallb_forall in C3. specialize (C3 (k, v) Hin). cbn [fst snd] in C3.
  apply andb_true_iff in C3. destruct C3 as [C3 C4]. apply inrangeb_spec in C4.
  split; [lia|assumption].
Qed.

(* registers at the same values, memories at the given contents, ROMs from
   their initial blocks: the two states correspond *)
Theorem init_related st :
  SR nl st (mkVState (sregs st) (vinit_mems m (smems st))).
Proof.
  split; [reflexivity|]. intros mm a. cbn [vmems]. unfold vinit_mems, mem_read.
  rewrite roms_eq. unfold expected_roms. fold rom_entry.
  change (fun mm0 : mem => match mrom mm0 with
                           | Some data => [(mid mm0, expected_rom mm0 data)]
                           | None => []
                           end) with rom_entry.
  pose proof (checks 16) as C. cbn [nth emit_checks] in C.
  apply andb_true_iff in C. destruct C as [Cnd _].
  rewrite (find_roms mm (mems nl) Cnd).
  destruct (find_mem (mems nl) mm) as [x|] eqn:Hx; [|reflexivity].
  destruct (mrom x) as [data|] eqn:Hrom; [|reflexivity].
  pose proof (find_mem_In _ _ _ Hx) as [Hin Hmid].
  destruct (mem_rules x Hin) as [Haw [Hdw Hdata]].
  unfold expected_rom. rewrite (find_seq_table (fun a => VSized (mdataw x) (rom_read data a)) a).
  rewrite (memwidth_find mm x Hx). cbn [Z.of_nat].
  rewrite Z2Nat.id by (apply Z.lt_le_incl; apply pow2_pos; assumption).
  destruct (rom_read_cases data a) as [H0|[k [Hk Hka]]].
  - rewrite H0. destruct ((0 <=? a) && (a <? 0 + 2 ^ maddrw x)); [|reflexivity].
    cbn [veval]. pose proof (pow2_pos (mdataw x) Hdw). rewrite !Z.mod_0_l by lia. reflexivity.
  - subst k. destruct (Hdata data Hrom _ _ Hk) as [Hka Hv].
    destruct ((0 <=? a) && (a <? 0 + 2 ^ maddrw x)) eqn:E; [|lia].
    cbn [veval]. rewrite (Z.mod_small _ _ Hv). rewrite (Z.mod_small _ _ Hv). reflexivity.
Qed.

(* ---- the executable evaluator only ever returns settled valuations ---- *)
End Module.

Lemma assoc_some_in l k v : assoc l k = Some v -> In (k, v) l.
Proof.
  induction l as [|[k0 v0] r IH]; simpl; [discriminate|].
  destruct (k0 =? k) eqn:E.
  - intros H. injection H as <-. left. f_equal. lia.
  - intros H. right. apply IH. assumption.
Qed.

Lemma settledb_sound m st ins env : settledb m st ins env = true -> settled m st ins env.
Proof.
  unfold settledb. intros H.
  apply andb_true_iff in H. destruct H as [H H4]. apply andb_true_iff in H. destruct H as [H H3].
  apply andb_true_iff in H. destruct H as [H1 H2].
  rewrite forallb_forall in H1, H2, H3, H4. repeat split.
  - intros x Hx. unfold declared_in in Hx. destruct (assoc (m_inputs m) x) as [w|] eqn:E; [|discriminate].
    apply assoc_some_in in E. specialize (H1 _ E). cbn [fst] in H1. lia.
  - intros x Hx. unfold declared_in in Hx. destruct (assoc (m_regs m) x) as [w|] eqn:E; [|discriminate].
    apply assoc_some_in in E. specialize (H2 _ E). cbn [fst] in H2. lia.
  - intros x e Hin. specialize (H3 _ Hin). cbn [fst snd] in H3. lia.
  - intros x mm a Hin. specialize (H4 _ Hin). cbn beta iota in H4. lia.
Qed.

Theorem vrun_is_vtrace m order : forall stim st,
  forallb (fun eo => snd eo) (fst (vrun m order st stim)) = true ->
  vtrace m st stim (map fst (fst (vrun m order st stim))).
Proof.
  induction stim as [|[ins rst] stim IH]; intros st H; [exact I|].
  cbn [vrun] in *. destruct (settle m order st ins) as [env ok] eqn:Es.
  destruct (vrun m order (vedge m rst env st) stim) as [tr st'] eqn:Er.
  cbn [fst snd map forallb vtrace] in *. apply andb_true_iff in H. destruct H as [Hok Hrest].
  split.
  - apply settledb_sound. unfold settle in Es. injection Es as <- <-. assumption.
  - specialize (IH (vedge m rst env st)). rewrite Er in IH. apply IH. assumption.
Qed.

(* ---- one clock edge with rst high loads every register's reset value ---- *)
Lemma fold_nb_notin m env r : forall items rg,
  ~ In r (map fst items) -> fold_left (nb_assign m env) items rg r = rg r.
Proof.
  induction items as [|a items IH]; intros rg Hn; simpl; [reflexivity|].
  rewrite IH by (intro H; apply Hn; right; assumption).
  unfold nb_assign. apply upd_other. intro Heq. apply Hn. left. symmetry. assumption.
Qed.

Lemma fold_nb_keyfun m env (G : Z -> vexpr) r : forall items rg,
  (forall a, In a items -> snd a = G (fst a)) -> In r (map fst items) ->
  fold_left (nb_assign m env) items rg r = vassign (dwidth m) env r (G r).
Proof.
  induction items as [|a items IH]; intros rg HG Hin; [contradiction|]. simpl.
  destruct (in_dec Z.eq_dec r (map fst items)) as [Hr|Hr].
  - apply IH; [intros b Hb; apply HG; right; assumption|assumption].
  - rewrite fold_nb_notin by assumption. destruct Hin as [Heq|Hin]; [|contradiction].
    unfold nb_assign. rewrite <- Heq, upd_same. rewrite (HG a) by (left; reflexivity). reflexivity.
Qed.

Theorem reset_loads nl mode m : wfb nl = true -> emitted_ok nl mode m = true -> mode <> RNone ->
  forall env vst n, In n (nets nl) -> nop n = OpReg ->
  vregs (vedge m true env vst) (ndest n) = reset_of nl (ndest n) mod 2 ^ width_of nl (ndest n).
Proof.
  intros Hwf Hok Hmode env vst n Hn Hop.
  assert (Hne : expected_updates nl <> []).
  { unfold expected_updates. intro H.
    assert (Hin : In n (filter is_regnet (nets nl))).
    { apply filter_In. split; [assumption|]. unfold is_regnet. rewrite Hop. reflexivity. }
    apply (in_map (fun n => (ndest n, VId (arg n 0)))) in Hin. rewrite H in Hin. contradiction. }
  pose proof (checks nl mode m Hok 11) as C11. pose proof (checks nl mode m Hok 13) as C13.
  cbn [nth emit_checks] in C11, C13. apply items_eqb_eq in C13.
  assert (Hm : m_mode m = mode).
  { destruct mode, (m_mode m); try reflexivity; try contradiction;
    destruct (expected_updates nl); try discriminate C11; contradiction. }
  cbn [vedge vregs]. unfold reg_block. rewrite Hm.
  assert (Hres : m_resets m = map (fun n => (ndest n, VDec (reset_of nl (ndest n))))
                                  (filter is_regnet (nets nl))).
  { rewrite C13. destruct (expected_updates nl); [contradiction|].
    unfold expected_resets. destruct mode; [contradiction|reflexivity|reflexivity]. }
  assert (Hfold : fold_left (nb_assign m env) (m_resets m) (vregs vst) (ndest n)
                  = vassign (dwidth m) env (ndest n) (VDec (reset_of nl (ndest n)))).
  { apply (fold_nb_keyfun m env (fun r => VDec (reset_of nl r))).
    - rewrite Hres. intros a Ha. apply in_map_iff in Ha. destruct Ha as [k [<- _]]. reflexivity.
    - rewrite Hres, map_map. cbn [fst]. apply in_map. apply filter_In. split; [assumption|].
      unfold is_regnet. rewrite Hop. reflexivity. }
  destruct (net_rules nl mode m Hwf Hok n Hn) as [_ [_ Hd]]. rewrite Hop in Hd.
  assert (Hgoal : vassign (dwidth m) env (ndest n) (VDec (reset_of nl (ndest n)))
                  = reset_of nl (ndest n) mod 2 ^ width_of nl (ndest n)).
  { unfold vassign. cbn [veval]. rewrite (dwidth_wire nl mode m Hok _ Hd). reflexivity. }
  destruct mode; [contradiction| |]; rewrite Hfold; exact Hgoal.
Qed.

(* ---- end to end: what the search's evaluator returns is the reference trace ---- *)
Theorem evaluator_refines_spec nl mode m order dflt st inss :
  wfb nl = true -> emitted_ok nl mode m = true ->
  legal_regs nl (sregs st) -> Forall (legal_ins nl) inss ->
  let tr := fst (vrun m order (mkVState (sregs st) (vinit_mems m (smems st)))
                      (map (fun i => (i, false)) inss)) in
  forallb (fun eo => snd eo) tr = true ->
  Forall2 (fun v env => forall x, In x (wires nl) -> env (wname x) = v (wname x))
          (fst (run nl dflt st inss)) (map fst tr).
Proof.
  intros Hwf Hok Hr Hi tr Hall.
  pose proof (vrun_is_vtrace m order _ _ Hall) as Ht.
  pose proof (run_refines nl mode m Hwf Hok dflt inss st _ _ (init_related nl mode m Hwf Hok st) Hr Hi Ht) as H.
  fold tr in H. revert H. generalize (fst (run nl dflt st inss)) (map fst tr).
  intros l1 l2 HF. induction HF as [|v env l1' l2' Hhd Htl IHF]; constructor; [|assumption].
  intros w Hw. apply Hhd. assumption.
Qed.
