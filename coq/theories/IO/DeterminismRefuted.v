(* C20 -- why the two repairs were needed: the models of the code BEFORE the F15/F16
   repairs (names presented to the sanitizer in set order; list key without
   tie-break) are schedule-dependent.  Witnesses by computation. *)
From Coq Require Import String Ascii List NArith ZArith Bool Permutation.
From PyRTL Require Import IO.NatSort IO.NatSortProofs IO.Determinism IO.DeterminismProofs.
Import ListNotations.

(* F15: with two names needing sanitising the identifiers depend on the presentation order *)
Theorem sanitizer_set_order_refuted : exists (valid : name -> bool) prefix pres pres' s,
  Permutation pres pres' /\ count_invalid valid pres = 2%N /\
  varname (sanitize_all valid prefix (present_set_order pres)) s <>
  varname (sanitize_all valid prefix (present_set_order pres')) s.
Proof.
  exists (fun s => negb (existsb (fun c => N.eqb (code c) 32) s)), (nm "_ver_out_tmp_"),
         [nm "ok"; nm "w 0"; nm "w 1"], [nm "ok"; nm "w 1"; nm "w 0"], (nm "w 0").
  split.
  - apply perm_skip. apply perm_swap.
  - split. vm_compute. reflexivity. vm_compute. discriminate.
Qed.

(* F16: the list key ties on "x01"/"x1", so sorted() returns them in input (= set) order *)
Theorem natural_key_tie_order_refuted : exists l l' : list name,
  Permutation l l' /\ NoDup l /\
  sort_by natural_key key_ltb l <> sort_by natural_key key_ltb l'.
Proof.
  exists [nm "x01"; nm "x1"], [nm "x1"; nm "x01"]. split. apply perm_swap. split.
  - constructor. simpl. intros [H|[]]. discriminate H. constructor. simpl. tauto. constructor.
  - vm_compute. discriminate.
Qed.

(* ... while the tie-broken key sorts both presentations identically *)
Example natural_key_tb_same_order :
  sort_by natural_key_tb key2_ltb [nm "x01"; nm "x1"; nm "x001"] =
  sort_by natural_key_tb key2_ltb [nm "x1"; nm "x001"; nm "x01"].
Proof. vm_compute. reflexivity. Qed.

(* distinct objects with EQUAL names (memories: build_new_roms clones, user-chosen duplicate names)
   sorted by a key of the name -- even the tie-broken one -- come out in set order *)
Theorem same_name_sort_order_refuted : exists l l' : list (N * name),
  Permutation l l' /\ NoDup l /\ NoDup (map fst l) /\
  sort_by (fun m => natural_key_tb (snd m)) key2_ltb l <>
  sort_by (fun m => natural_key_tb (snd m)) key2_ltb l'.
Proof.
  exists [(4%N, nm "crom"); (5%N, nm "crom")], [(5%N, nm "crom"); (4%N, nm "crom")].
  split. apply perm_swap. split.
  - constructor. simpl. intros [H|[]]. discriminate H. constructor. simpl. tauto. constructor.
  - split. constructor. simpl. intros [H|[]]. discriminate H. constructor. simpl. tauto. constructor.
    vm_compute. discriminate.
Qed.
