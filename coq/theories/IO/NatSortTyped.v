(* C20 -- two more facts about the ordering model.
   (1) A natural key is  text, number, text, ..., text  (what re.split with one
       capturing group returns), so two keys are only ever compared text-with-text
       and number-with-number: Python raises no TypeError and the arbitrary
       TS-vs-TN convention of tok_cmp is never exercised.
   (2) ANY stable sort (sorted permutation preserving the input order inside each key
       class -- all CPython promises for sorted()/list.sort()) returns exactly
       `sort_by`: modelling Timsort by insertion sort loses nothing. *)
From Coq Require Import String Ascii List NArith ZArith Bool Lia Permutation Sorted.
From PyRTL Require Import IO.NatSort IO.NatSortProofs.
Import ListNotations.

(* ---------------- (1) ---------------- *)
Fixpoint alt_from (expect_text : bool) (l : list tok) : bool :=
  match l with
  | [] => true
  | TS _ :: r => expect_text && alt_from false r
  | TN _ :: r => negb expect_text && alt_from true r
  end.

(* alternating AND ending with a text *)
Fixpoint alternates (expect_text : bool) (l : list tok) : bool :=
  match l with
  | [] => negb expect_text
  | TS _ :: r => expect_text && alternates false r
  | TN _ :: r => negb expect_text && alternates true r
  end.

Lemma alt_from_chunks : forall c b,
  tags_alternate c ->
  match c with [] => True | c1 :: _ => fst c1 = negb b end ->
  alt_from b (map tok_of_chunk c) = true.
Proof.
  induction c as [|c1 rest IH]; intros b TA H. reflexivity.
  cbn [map]. unfold tok_of_chunk at 1. destruct c1 as [t run]. simpl in H. subst t.
  assert (Hrest : match rest with [] => True | c2 :: _ => fst c2 = b end /\ tags_alternate rest).
  { destruct rest as [|c2 r2].
    - split; exact I.
    - simpl in TA. destruct TA as [Hne TA]. split; [|exact TA].
      destruct (fst c2), b; simpl in *; congruence. }
  destruct Hrest as [Hh TA'].
  destruct b; cbn [negb fst snd alt_from andb].
  - (* expecting text: chunk is text, then expect number *)
    apply IH; auto.
  - apply IH; auto.
Qed.

Lemma pad_back_cons : forall x r, r <> [] -> pad_back (x :: r) = x :: pad_back r.
Proof.
  intros x r Hne. unfold pad_back. cbn [rev].
  destruct (rev r) as [|t q] eqn:R.
  - exfalso. apply Hne. rewrite <- (rev_involutive r), R. reflexivity.
  - cbn [app]. destruct t; reflexivity.
Qed.

Lemma alternates_pad_back : forall l b, l <> [] -> alt_from b l = true ->
  alternates b (pad_back l) = true.
Proof.
  induction l as [|x r IH]; intros b Hne H. contradiction.
  destruct r as [|y r'].
  - destruct x; simpl in *.
    + rewrite andb_true_r in H. subst. reflexivity.
    + rewrite andb_true_r in H. apply negb_true_iff in H. subst. reflexivity.
  - rewrite pad_back_cons by discriminate.
    destruct x; cbn [alt_from alternates] in *; apply andb_prop in H; destruct H as [H1 H2];
      rewrite H1; cbn [andb]; apply IH; auto; discriminate.
Qed.

Theorem natural_key_alternates : forall s, alternates true (natural_key s) = true.
Proof.
  intro s. unfold natural_key.
  pose proof (chunks_alternate s) as TA.
  apply alternates_pad_back.
  - unfold pad_front. destruct (map tok_of_chunk (chunks s)) as [|[a|n] r]; discriminate.
  - unfold pad_front.
    destruct (chunks s) as [|[t run] rest] eqn:E.
    + reflexivity.
    + destruct t.
      * (* starts with a number: an empty text is put in front *)
        change (alt_from true (TS [] :: map tok_of_chunk ((true, run) :: rest)) = true).
        cbn [alt_from andb]. apply alt_from_chunks; auto.
      * change (map tok_of_chunk ((false, run) :: rest))
          with (TS run :: map tok_of_chunk rest).
        cbn [alt_from andb].
        change (alt_from true (map tok_of_chunk ((false, run) :: rest)) = true).
        apply alt_from_chunks; auto.
Qed.

(* any other convention for text-vs-number gives the same comparison on natural keys *)
Definition tok_cmp_with (mixed : comparison) (t1 t2 : tok) : comparison :=
  match t1, t2 with
  | TS a, TS b => str_cmp a b
  | TN a, TN b => N.compare a b
  | _, _ => mixed
  end.

Lemma lex_cmp_never_mixed : forall mixed l1 l2 b,
  alternates b l1 = true -> alternates b l2 = true ->
  lex_cmp tok_cmp l1 l2 = lex_cmp (tok_cmp_with mixed) l1 l2.
Proof.
  intros mixed. induction l1 as [|t1 r1 IH]; intros l2 b A1 A2; destruct l2 as [|t2 r2]; auto.
  destruct t1 as [a|a]; destruct t2 as [c|c]; cbn [alternates] in A1, A2;
    apply andb_prop in A1; destruct A1 as [B1 A1]; apply andb_prop in A2; destruct A2 as [B2 A2].
  - cbn [lex_cmp tok_cmp tok_cmp_with]. destruct (str_cmp a c); auto. eapply IH; eauto.
  - destruct b; discriminate.
  - destruct b; discriminate.
  - cbn [lex_cmp tok_cmp tok_cmp_with]. destruct (N.compare a c); auto. eapply IH; eauto.
Qed.

Theorem natural_key_cmp_never_mixed : forall mixed s s',
  key_cmp (natural_key s) (natural_key s') =
  lex_cmp (tok_cmp_with mixed) (natural_key s) (natural_key s').
Proof.
  intros mixed s s'. unfold key_cmp.
  apply (lex_cmp_never_mixed mixed _ _ true); apply natural_key_alternates.
Qed.

(* ---------------- (2) ---------------- *)
Section StableUnique.
  Context {A K : Type} (key : A -> K) (ltb : K -> K -> bool).
  Hypothesis ST : strict_total ltb.

  Lemma same_class_self : forall x, same_class key ltb (key x) x = true.
  Proof. intro x. unfold same_class. rewrite (ltb_irrefl ltb ST). reflexivity. Qed.

  Theorem stable_sorted_unique : forall l1 l2,
    StronglySorted (le_key key ltb) l1 -> StronglySorted (le_key key ltb) l2 ->
    Permutation l1 l2 ->
    (forall k, filter (same_class key ltb k) l1 = filter (same_class key ltb k) l2) ->
    l1 = l2.
  Proof.
    induction l1 as [|a r1 IH]; intros l2 S1 S2 P F.
    - apply Permutation_nil in P. auto.
    - destruct l2 as [|b r2].
      + apply Permutation_sym, Permutation_nil in P. discriminate.
      + inversion S1 as [|? ? S1r F1]; subst. inversion S2 as [|? ? S2r F2]; subst.
        assert (Hk : key a = key b).
        { assert (Ia : In a (b :: r2)) by (eapply Permutation_in; [exact P | left; auto]).
          assert (Ib : In b (a :: r1)) by (eapply Permutation_in; [apply Permutation_sym; exact P | left; auto]).
          rewrite Forall_forall in F1, F2.
          destruct Ia as [Ia|Ia]; [subst; auto|].
          destruct Ib as [Ib|Ib]; [subst; auto|].
          pose proof (F1 b Ib) as Hab. pose proof (F2 a Ia) as Hba. unfold le_key in Hab, Hba.
          apply (st_total _ ST); assumption. }
        assert (Hab : a = b).
        { specialize (F (key a)). cbn [filter] in F. rewrite same_class_self in F.
          rewrite Hk in F at 2. rewrite same_class_self in F. injection F as F _. exact F. }
        subst b. f_equal. apply IH; auto.
        * eapply Permutation_cons_inv. exact P.
        * intro k. specialize (F k). cbn [filter] in F.
          destruct (same_class key ltb k a); [injection F as F|]; exact F.
  Qed.

  (* whatever stable sort CPython uses, its result is the model's *)
  Corollary any_stable_sort_is_sort_by : forall l l',
    Permutation l' l -> StronglySorted (le_key key ltb) l' ->
    (forall k, filter (same_class key ltb k) l' = filter (same_class key ltb k) l) ->
    l' = sort_by key ltb l.
  Proof.
    intros l l' P S F. apply stable_sorted_unique; auto.
    - apply sort_by_sorted. exact ST.
    - eapply perm_trans. exact P. apply Permutation_sym. apply sort_by_perm.
    - intro k. rewrite F. symmetry. apply sort_by_stable. exact ST.
  Qed.
End StableUnique.
