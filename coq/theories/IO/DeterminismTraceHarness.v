(* C20 -- byte-for-byte comparison of the real print_trace / print_vcd text with the model
   (entry points evaluated by py/checks/C20.py; no proofs).  Names and the real text travel as
   packed hexadecimal literals (big-endian bytes), values as numbers; the answer is [1], or
   [0; position; model byte; real byte] for the first difference (-1 = text ended). *)
From Coq Require Import String Ascii List NArith ZArith Bool.
From PyRTL Require Sim.TraceBase Sim.Trace IO.Vcd.
From PyRTL Require Import IO.NatSort IO.Determinism Gen.C20Src IO.DeterminismTrace.
Import ListNotations.
Open Scope Z_scope.

Fixpoint unpack_fuel (fuel : nat) (z : Z) (acc : list Z) : list Z :=
  match fuel with
  | O => acc
  | S f => if z =? 0 then acc else unpack_fuel f (z / 256) (z mod 256 :: acc)
  end.
Definition unpack (z : Z) : list Z := unpack_fuel (Z.to_nat (Z.log2 z / 8 + 1)) z [].

Fixpoint first_diff (i : Z) (got want : list Z) : list Z :=
  match got, want with
  | [], [] => [1]
  | [], w :: _ => [0; i; -1; w]
  | g :: _, [] => [0; i; g; -1]
  | g :: gr, w :: wr => if g =? w then first_diff (i + 1) gr wr else [0; i; g; w]
  end.

Definition mk_entry (e : Z * Z * list Z) : tentry :=
  match e with (nm_, w, vals) => {| t_name := name_of_codes (unpack nm_); t_width := w; t_vals := vals |} end.

Definition trace_bytes_case (base : Z) (compact : bool) (items : list (Z * Z * list Z)) (real : list Z) : list Z :=
  first_diff 0 (full_print_trace base compact (map mk_entry items)) (flat_map unpack real).

Definition vcd_bytes_case (clock : bool) (items : list (Z * Z * list Z)) (real : list Z) : list Z :=
  first_diff 0 (full_print_vcd clock (map mk_entry items)) (flat_map unpack real).
