(* C12 -- the NAME-RESOLUTION layer of input_from_blif, modelled explicitly.
   IO/BlifImport.v identifies a wire with the name of the net it carries.  The
   real importer does not: every Subcircuit keeps dictionaries name -> wire
   (Gen/BlifNames.v, REGENERATED from class Subcircuit on every run), twire(x)
   looks a name up or creates an anonymous wire, registers are filed under
   <Q> + "_reg", top-level outputs get an intermediate wire, and each .subckt
   instance gets fresh tables.  Here wires are numbered in order of creation
   (L 0, L 1, ..) and the imported block is a `circuit` over WIRES.
   Definitions only. *)
From Coq Require Import ZArith List Bool String.
From PyRTL Require Import IO.BlifSyntax IO.BlifSem Gen.BlifTables Gen.BlifNames IO.BlifImport.
Import ListNotations.
Open Scope Z_scope.

(* importer state: the current Subcircuit's tables, the next wire number, the nets built so far *)
Record lst := mkLst { l_sc : subc; l_next : Z; l_drv : list (sig * drv) }.

Definition fresh (s : lst) : sig * lst :=
  (L (l_next s), mkLst (l_sc s) (l_next s + 1) (l_drv s)).
Definition with_sc (s : lst) (c : subc) : lst := mkLst c (l_next s) (l_drv s).
Definition emit (s : lst) (w : sig) (d : drv) : lst := mkLst (l_sc s) (l_next s) ((w, d) :: l_drv s).

(* Subcircuit.twire *)
Definition twire (s : lst) (x : sig) : sig * lst :=
  match sc_twire_lookup (l_sc s) x with
  | Some w => (w, s)
  | None => let '(w, s1) := fresh s in (w, with_sc s1 (sc_twire_store (l_sc s1) x w))
  end.

Definition otwire (s : lst) (o : option sig) : option sig * lst :=
  match o with
  | Some x => let '(w, s1) := twire s x in (Some w, s1)
  | None => (None, s)
  end.

(* an expression over names -> the same expression over wires (twire on every name, left to right) *)
Fixpoint rsv (e : bexp) (s : lst) : bexp * lst :=
  match e with
  | BVar x => let '(w, s1) := twire s x in (BVar w, s1)
  | BConst b => (BConst b, s)
  | BAbsent => (BAbsent, s)
  | BNot a => let '(a', s1) := rsv a s in (BNot a', s1)
  | BAnd a b => let '(a', s1) := rsv a s in let '(b', s2) := rsv b s1 in (BAnd a' b', s2)
  | BOr a b => let '(a', s1) := rsv a s in let '(b', s2) := rsv b s1 in (BOr a' b', s2)
  | BXor a b => let '(a', s1) := rsv a s in let '(b', s2) := rsv b s1 in (BXor a' b', s2)
  | BNand a b => let '(a', s1) := rsv a s in let '(b', s2) := rsv b s1 in (BNand a' b', s2)
  | BSel c t f => let '(c', s1) := rsv c s in let '(t', s2) := rsv t s1 in
                  let '(f', s3) := rsv f s2 in (BSel c' t' f', s3)
  end.

(* extract_cover / extract_latch / extract_flop at wire level.
   regname q = the key under which the register of Q is filed (Q + "_reg") *)
Definition low_simple (regname : sig -> sig) (c : command) (s : lst) : option lst :=
  match c with
  | Names sigs rows =>
      match extract_cover sigs rows with
      | Some (d, e) =>
          let '(wd, s1) := twire s d in
          let '(e', s2) := rsv e s1 in
          Some (emit s2 wd (DComb e'))
      | None => None
      end
  | Latch d q i =>
      match extract_latch d q i with
      | Some (_, DReg _ r) =>
          let '(R, s1) := fresh s in
          let s2 := with_sc s1 (sc_add_reg (l_sc s1) (regname q) R) in
          let '(wd, s3) := twire s2 d in
          let s4 := emit s3 R (DReg (BVar wd) r) in
          let '(wq, s5) := twire s4 q in
          Some (emit s5 wq (DComb (BVar R)))
      | _ => None
      end
  | Flop cell d q e sp r =>
      if existsb (String.eqb cell) dff_names then
        match str_assoc flop_table cell with
        | Some body =>
            let '(R, s1) := fresh s in
            let s2 := with_sc s1 (sc_add_reg (l_sc s1) (regname q) R) in
            let '(wd, s3) := twire s2 d in
            let '(we, s4) := otwire s3 e in
            let '(ws, s5) := otwire s4 sp in
            let '(wr, s6) := otwire s5 r in
            (* flop_next(twire(D), opt_twire(E), opt_twire(S), opt_twire(R), flop): prev is the register itself *)
            let nx := bsubst (flop_args wd R we ws wr) body in
            if has_absent nx then None
            else let s7 := emit s6 R (DReg nx flop_reset) in
                 let '(wq, s8) := twire s7 q in
                 Some (emit s8 wq (DComb (BVar R)))
        | None => None
        end
      else None
  | Subckt _ _ => None
  end.

(* extract_inputs / extract_outputs of a NON-top Subcircuit: one fresh wire per port *)
Fixpoint sub_inputs (names : list sig) (s : lst) : lst :=
  match names with
  | [] => s
  | x :: r => let '(w, s1) := fresh s in sub_inputs r (with_sc s1 (sc_add_input (l_sc s1) x w))
  end.

Fixpoint sub_outputs (names : list sig) (s : lst) : lst :=
  match names with
  | [] => s
  | x :: r => let '(w, s1) := fresh s in sub_outputs r (with_sc s1 (sc_add_output (l_sc s1) x w))
  end.

(* extract_model_reference: formal in child.inputs: wf <<= twire(actual); in child.outputs: twire(actual) <<= wf *)
Fixpoint connect (child : subc) (binds : list (sig * sig)) (s : lst) : option lst :=
  match binds with
  | [] => Some s
  | (formal, actual) :: r =>
      match sassoc (sc_inputs child) formal with
      | Some wf => let '(wa, s1) := twire s actual in connect child r (emit s1 wf (DComb (BVar wa)))
      | None =>
          match sassoc (sc_outputs child) formal with
          | Some wf => let '(wa, s1) := twire s actual in connect child r (emit s1 wa (DComb (BVar wf)))
          | None => None
          end
      end
  end.

(* extract_commands, with instantiate() of model references; regname is per model *)
Fixpoint low_cmds (fuel : nat) (regname : Z -> sig -> sig) (lib : list (Z * model)) (mid : Z)
         (cmds : list command) (s : lst) : option lst :=
  match fuel with
  | O => None
  | S f =>
    (fix go (cs : list command) (s : lst) {struct cs} : option lst :=
       match cs with
       | [] => Some s
       | Subckt name binds :: r =>
           match zassoc lib name with
           | None => None
           | Some sub =>
               let parent := l_sc s in
               let s1 := sub_outputs (moutputs sub) (sub_inputs (minputs sub) (with_sc s subc_empty)) in
               match low_cmds f regname lib name (mcmds sub) s1 with
               | Some s2 =>
                   match connect (l_sc s2) binds (with_sc s2 parent) with
                   | Some s3 => go r s3
                   | None => None
                   end
               | None => None
               end
           end
       | c :: r => match low_simple (regname mid) c s with
                   | Some s1 => go r s1
                   | None => None
                   end
       end) cmds s
  end.

(* top level: an Input wire per input bit; per output an intermediate wire filed under the output's name
   and the Output wire driven from it *)
Fixpoint top_inputs (names : list sig) (s : lst) : list sig * lst :=
  match names with
  | [] => ([], s)
  | x :: r => let '(w, s1) := fresh s in
              let '(ws, s2) := top_inputs r (with_sc s1 (sc_add_input (l_sc s1) x w)) in
              (w :: ws, s2)
  end.

Fixpoint top_outputs (names : list sig) (s : lst) : list sig * lst :=
  match names with
  | [] => ([], s)
  | x :: r => let '(wi, s1) := fresh s in
              let '(wo, s2) := fresh s1 in
              let s3 := emit (with_sc s2 (sc_add_output (l_sc s2) x wi)) wo (DComb (BVar wi)) in
              let '(ws, s4) := top_outputs r s3 in
              (wo :: ws, s4)
  end.

Definition low_import (fuel : nat) (regname : Z -> sig -> sig) (lib : list (Z * model)) (tid : Z)
           (top : model) : option circuit :=
  let '(iw, s1) := top_inputs (minputs top) (mkLst subc_empty 0 []) in
  let '(ow, s2) := top_outputs (moutputs top) s1 in
  match low_cmds fuel regname lib tid (mcmds top) s2 with
  | Some s3 => Some (mkCircuit iw ow (rev (l_drv s3)))
  | None => None
  end.

(* renaming the nets of a model *)
Definition gren_cmd (rho : sig -> sig) (c : command) : command :=
  match c with
  | Names sigs rows => Names (map rho sigs) rows
  | Latch d q i => Latch (rho d) (rho q) i
  | Flop cell d q e s r => Flop cell (rho d) (rho q) (option_map rho e) (option_map rho s) (option_map rho r)
  | Subckt n b => Subckt n (map (fun fa => (fst fa, rho (snd fa))) b)
  end.

Definition gren_model (rho : sig -> sig) (m : model) : model :=
  mkModel (map rho (minputs m)) (map rho (moutputs m)) (map (gren_cmd rho) (mcmds m)).

(* the register-name function handed over by the harness: per model, the nets X for which X + reg_suffix is
   also a net of that model map to it; every other register name is fresh *)
Definition regname_of (tbl : list (Z * list (sig * sig))) (mid : Z) (q : sig) : sig :=
  match zassoc tbl mid with
  | Some l => match sassoc l q with Some x => x | None => I (-1) q end
  | None => I (-1) q
  end.
