(* C20 -- model of what makes PyRTL's text exporters (in)dependent of the
   SCHEDULE (hash seed / allocation order = iteration order of every set).
   DEFINITIONS ONLY; proofs are in DeterminismProofs.v.

   A Python set / identity-hashed dict is a `list` in ARBITRARY order; a schedule
   is a choice of that order; determinism = invariance under `Permutation`.

   Source modelled:
   * core._NameSanitizer.make_valid_string / __getitem__ (pyrtl/core.py:1046-1087):
     valid names map to themselves, the i-th INVALID name PRESENTED gets
     prefix ++ str(i)  (i = 0, 1, ...);
   * importexport._VerilogSanitizer (regex + reserved words + 'clk' + length);
   * output_to_verilog / output_verilog_testbench: names presented in
     `block.wirevector_set` order, then every emitted list is
     `sorted(..., key=_natural_sort_key(varname(w)))` (pyrtl/importexport.py:634-644,698-870);
   * SimulationTrace.print_trace / print_vcd: `sorted(self.trace, key=_trace_sort_key)`
     over RAW names, VCD identifiers through a sanitizer fed in `wires_to_track`
     order (pyrtl/simulation.py:1502-1591). *)
From Coq Require Import String Ascii List NArith ZArith Bool DecimalString.
From PyRTL Require Import IO.NatSort.
Import ListNotations.
Open Scope N_scope.

Definition name_eqb (a b : name) : bool :=
  match str_cmp a b with Eq => true | _ => false end.

(* str(i) *)
Definition dec (k : N) : name := list_ascii_of_string (NilZero.string_of_uint (N.to_uint k)).

(* ---- identifier syntax: a regex of the shape  [start-class][body-class]*$  used
   with re.match; classes are given as code-point ranges (regenerated from the
   source literal in Gen/C20Src.v) ---- *)
Definition in_ranges (rs : list (N * N)) (c : ascii) : bool :=
  existsb (fun r => (fst r <=? code c) && (code c <=? snd r)) rs.
Definition ident_body (start body : list (N * N)) (s : name) : bool :=
  match s with [] => false | c :: r => in_ranges start c && forallb (in_ranges body) r end.
(* `$` also matches just before one final newline *)
Definition strip_final_newline (s : name) : name :=
  match rev s with c :: r => if code c =? 10 then rev r else s | [] => s end.
Definition matches_ident (start body : list (N * N)) (s : name) : bool :=
  ident_body start body s || ident_body start body (strip_final_newline s).

(* str.startswith(p) *)
Fixpoint has_prefix (p s : name) : bool :=
  match p, s with
  | [], _ => true
  | a :: p', b :: s' => N.eqb (code a) (code b) && has_prefix p' s'
  | _ :: _, [] => false
  end.
Fixpoint drop_prefix (p s : name) : name :=
  match p, s with
  | _ :: p', _ :: s' => drop_prefix p' s'
  | _, _ => s
  end.
(* re.match(r'<literal>\d+$', s) *)
Definition lit_digits_body (lit s : name) : bool :=
  has_prefix lit s &&
  match drop_prefix lit s with [] => false | r => forallb is_digit r end.
Definition matches_lit_digits (lit s : name) : bool :=
  lit_digits_body lit s || lit_digits_body lit (strip_final_newline s).

(* ---- the sanitizer as a function of the PRESENTATION ORDER ---- *)
Definition smap := list (name * name).

Fixpoint sanitize_from (valid : name -> bool) (prefix : name) (k : N) (pres : list name) : smap :=
  match pres with
  | [] => []
  | s :: r =>
      if valid s then (s, s) :: sanitize_from valid prefix k r
      else (s, prefix ++ dec k) :: sanitize_from valid prefix (k + 1) r
  end.
Definition sanitize_all (valid : name -> bool) (prefix : name) (pres : list name) : smap :=
  sanitize_from valid prefix 0 pres.

(* internal_names[s] *)
Definition varname (m : smap) (s : name) : name :=
  match find (fun p => name_eqb s (fst p)) m with Some p => snd p | None => s end.

(* the two presentation disciplines *)
Definition present_set_order (l : list name) : list name := l.                 (* pinned source *)
Definition present_sorted (l : list name) : list name := sort_by (fun s => s) str_ltb l.  (* F15 repaired *)

(* ---- the name a memory-write ('@') net is sorted by in _net_sorted ---- *)
Definition space : ascii := ascii_of_N 32.
(* pinned source: key = str(n.args[2])  (the write-enable wire only) *)
Definition memwrite_sortname_enable (we addr data : name) : name := we.
(* repaired: key = ' '.join(str(n.args[i]) for i in (2, 0, 1)) *)
Definition memwrite_sortname_all (we addr data : name) : name :=
  (we ++ space :: addr ++ space :: data)%list.
Definition no_space (s : name) : bool := forallb (fun c => negb (N.eqb (code c) 32)) s.

(* ---- emitter skeleton: text = concatenation of per-item renderings over a sorted list ---- *)
Definition emit {A K : Type} (render : A -> name) (key : A -> K) (ltb : K -> K -> bool)
  (items : list A) : name :=
  List.concat (map render (sort_by key ltb items)).

(* ---- a Verilog-like module text ---- *)
Record witem := { wname : name; wkind : N; wwidth : N }.
Record nitem := { nsort : name;              (* name the net is sorted by: dests[0].name, or
                                                str(args[2]) for a memory write *)
                  nraw : bool;               (* true: nsort is NOT passed through varname ('@' nets) *)
                  nop : N; nnames : list name }.

Definition rename_w (vn : name -> name) (w : witem) : witem :=
  {| wname := vn (wname w); wkind := wkind w; wwidth := wwidth w |}.
Definition rename_n (vn : name -> name) (n : nitem) : nitem :=
  {| nsort := if nraw n then nsort n else vn (nsort n); nraw := nraw n; nop := nop n;
     nnames := map vn (nnames n) |}.

(* a section = fixed header, selector on the kind / op, renderer of one renamed item *)
Record section (A : Type) := { s_head : name; s_sel : A -> bool; s_render : A -> name }.
Arguments s_head {A}. Arguments s_sel {A}. Arguments s_render {A}.

Section Export.
  Context {K : Type}.
  Variables (nkey : name -> K) (ltb : K -> K -> bool)
            (present : list name -> list name)
            (valid : name -> bool) (prefix : name)
            (wsecs : list (section witem)) (nsecs : list (section nitem)).

  Definition export_vn (ws : list witem) : name -> name :=
    varname (sanitize_all valid prefix (present (map wname ws))).

  Definition export_text (ws : list witem) (ns : list nitem) : name :=
    let vn := export_vn ws in
    List.concat (map (fun sec => s_head sec ++
                    emit (s_render sec) (fun w => nkey (wname w)) ltb
                         (map (rename_w vn) (filter (s_sel sec) ws))) wsecs)
    ++ List.concat (map (fun sec => s_head sec ++
                    emit (s_render sec) (fun n => nkey (nsort n)) ltb
                         (map (rename_n vn) (filter (s_sel sec) ns))) nsecs).
End Export.

(* ---- trace printing (print_trace / print_vcd): sorted by the key of the RAW
   name; VCD prints varname of it ---- *)
Definition titem := (name * list N)%type.

Definition max_name_len (items : list titem) : N :=
  fold_right N.max 0 (map (fun it => N.of_nat (length (fst it))) items).
Definition max_val_len (fmt : N -> name) (items : list titem) : N :=
  fold_right N.max 0
    (map (fun it => fold_right N.max 0 (map (fun v => N.of_nat (length (fmt v))) (snd it))) items).

Section Trace.
  Context {K : Type}.
  Variables (tkey : name -> K) (ltb : K -> K -> bool).
  (* render gets the two global column widths, like ident_len / maxlenval *)
  Variable render_line : N -> N -> titem -> name.
  Definition trace_text (fmt : N -> name) (items : list titem) : name :=
    emit (render_line (max_name_len items) (max_val_len fmt items)) (fun it => tkey (fst it)) ltb items.

  Variables (present : list name -> list name) (valid : name -> bool) (prefix : name).
  Variable render_var : name -> titem -> name.      (* sanitised identifier, item *)
  Definition vcd_text (tracked : list name) (items : list titem) : name :=
    let vn := varname (sanitize_all valid prefix (present tracked)) in
    emit (fun it => render_var (vn (fst it)) it) (fun it => tkey (fst it)) ltb items.
End Trace.

(* number of names a sanitizer would rename *)
Definition count_invalid (valid : name -> bool) (l : list name) : N :=
  N.of_nat (length (filter (fun s => negb (valid s)) l)).
