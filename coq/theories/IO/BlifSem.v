(* C12 -- BLIF SEMANTICS (the specification side; hand-written, trusted).
   Written from the Berkeley BLIF description and the Yosys internal cell
   library (simcells: the $_DFF_, $_DFFE_, $_DFFSR_, $_DFFSRE_, $_SDFF_,
   $_SDFFE_, $_SDFFCE_ families).  Does not depend on anything generated from /repo.
   Definitions only. *)
From Coq Require Import ZArith List Bool String Ascii.
From PyRTL Require Import IO.BlifSyntax.
Import ListNotations.
Open Scope Z_scope.

(* ---------- .names : single-output on-set cover ----------
   value = OR over rows of AND over the non '-' positions of
   (signal if '1', complement if '0').  No rows = constant 0;
   a row with an empty input plane (".names x / 1") = constant 1. *)
Definition lit_sem (p : plane) (v : bool) : bool :=
  match p with P1 => v | P0 => negb v | PD => true end.

Fixpoint row_sem (r : list plane) (vs : list bool) : bool :=
  match r, vs with
  | p :: r', v :: vs' => lit_sem p v && row_sem r' vs'
  | _, _ => true
  end.

Definition cover_sem (rows : list (list plane)) (vs : list bool) : bool :=
  existsb (fun r => row_sem r vs) rows.

(* Well-formed .names: n input signals + 1 output, every row n wide (no rows
   at all = constant 0, at any n); a constant cover (n = 0) has at most one row. *)
Definition cover_wf (sigs : list sig) (rows : list (list plane)) : bool :=
  match sigs with
  | [] => false
  | _ => let n := (List.length sigs - 1)%nat in
         forallb (fun r => Nat.eqb (List.length r) n) rows
         && (if Nat.eqb n 0 then Nat.leb (List.length rows) 1 else true)
  end.

(* ---------- flip-flop cells, by DECODING THE CELL NAME ----------
   $_DFF_<C>_            $_DFFE_<C><E>_
   $_DFF_<C><R><v>_      $_DFFE_<C><R><v><E>_      (async reset to v)
   $_DFFSR_<C><S><R>_    $_DFFSRE_<C><S><R><E>_    (async set / reset, reset wins)
   $_SDFF_<C><R><v>_     $_SDFFE_<C><R><v><E>_     (sync reset, reset over enable)
   $_SDFFCE_<C><R><v><E>_                           (sync reset, enable over reset)
   <C>,<E>,<S>,<R> in {P,N} = active level / edge, <v> in {0,1} = reset value.
   Only positive-edge clocks are in the supported subset.  Asynchronous pins
   are observed at clock edges (single-clock, cycle-based semantics). *)
Record cell_desc := mkCell {
  cd_en : option bool;            (* enable pin: active level *)
  cd_rst : option (bool * bool);  (* reset pin: (active level, value loaded) *)
  cd_set : option bool;           (* set pin: active level *)
  cd_ce : bool                    (* true: enable has priority over reset *)
}.

Fixpoint split_on (c : ascii) (s : string) : list string :=
  match s with
  | EmptyString => [EmptyString]
  | String a r =>
    let rest := split_on c r in
    if Ascii.eqb a c then EmptyString :: rest
    else match rest with
         | [] => [String a EmptyString]
         | h :: t => String a h :: t
         end
  end.

Definition pol (c : ascii) : option bool :=
  if Ascii.eqb c "P"%char then Some true
  else if Ascii.eqb c "N"%char then Some false else None.

Definition rstval (c : ascii) : option bool :=
  if Ascii.eqb c "0"%char then Some false
  else if Ascii.eqb c "1"%char then Some true else None.

Definition obind {A B} (o : option A) (f : A -> option B) : option B :=
  match o with Some x => f x | None => None end.

Definition decode_kind (kind : string) (rest : list ascii) : option cell_desc :=
  if String.eqb kind "DFF" then
    match rest with
    | [] => Some (mkCell None None None false)
    | [r; v] => obind (pol r) (fun rp => obind (rstval v) (fun rv =>
                  Some (mkCell None (Some (rp, rv)) None false)))
    | _ => None
    end
  else if String.eqb kind "DFFE" then
    match rest with
    | [e] => obind (pol e) (fun ep => Some (mkCell (Some ep) None None false))
    | [r; v; e] => obind (pol r) (fun rp => obind (rstval v) (fun rv => obind (pol e) (fun ep =>
                  Some (mkCell (Some ep) (Some (rp, rv)) None false))))
    | _ => None
    end
  else if String.eqb kind "DFFSR" then
    match rest with
    | [s; r] => obind (pol s) (fun sp => obind (pol r) (fun rp =>
                  Some (mkCell None (Some (rp, false)) (Some sp) false)))
    | _ => None
    end
  else if String.eqb kind "DFFSRE" then
    match rest with
    | [s; r; e] => obind (pol s) (fun sp => obind (pol r) (fun rp => obind (pol e) (fun ep =>
                  Some (mkCell (Some ep) (Some (rp, false)) (Some sp) false))))
    | _ => None
    end
  else if String.eqb kind "SDFF" then
    match rest with
    | [r; v] => obind (pol r) (fun rp => obind (rstval v) (fun rv =>
                  Some (mkCell None (Some (rp, rv)) None false)))
    | _ => None
    end
  else if String.eqb kind "SDFFE" then
    match rest with
    | [r; v; e] => obind (pol r) (fun rp => obind (rstval v) (fun rv => obind (pol e) (fun ep =>
                  Some (mkCell (Some ep) (Some (rp, rv)) None false))))
    | _ => None
    end
  else if String.eqb kind "SDFFCE" then
    match rest with
    | [r; v; e] => obind (pol r) (fun rp => obind (rstval v) (fun rv => obind (pol e) (fun ep =>
                  Some (mkCell (Some ep) (Some (rp, rv)) None true))))
    | _ => None
    end
  else None.

(* "$_KIND_POLS_"  ->  ["$"; KIND; POLS; ""] *)
Definition decode_cell (name : string) : option cell_desc :=
  match split_on "_"%char name with
  | [d; kind; pols; e] =>
    if String.eqb d "$" && String.eqb e "" then
      match list_ascii_of_string pols with
      | c :: rest => if Ascii.eqb c "P"%char then decode_kind kind rest else None
      | [] => None
      end
    else None
  | _ => None
  end.

Fixpoint last_char (s : string) : option ascii :=
  match s with
  | EmptyString => None
  | String a EmptyString => Some a
  | String _ r => last_char r
  end.

(* the importer lists one cell without its trailing underscore
   ('$_DFFSR_PPP'); canon_cell restores the Yosys spelling *)
Definition canon_cell (name : string) : string :=
  match last_char name with
  | Some c => if Ascii.eqb c "_"%char then name else (name ++ "_")%string
  | None => name
  end.

(* next state of the cell at a (positive) clock edge *)
Definition dff_next (c : cell_desc) (d e s r q : bool) : bool :=
  let en := match cd_en c with None => true | Some p => Bool.eqb e p end in
  let rst := match cd_rst c with None => false | Some (p, _) => Bool.eqb r p end in
  let rv := match cd_rst c with Some (_, v) => v | None => false end in
  let st := match cd_set c with None => false | Some p => Bool.eqb s p end in
  if cd_ce c then (if en then (if rst then rv else d) else q)
  else if rst then rv else if st then true else if en then d else q.

(* pins the cell has *)
Definition cell_pins_ok (c : cell_desc) (e s r : option sig) : bool :=
  (match cd_en c, e with Some _, None => false | None, Some _ => false | _, _ => true end)
  && (match cd_set c, s with Some _, None => false | None, Some _ => false | _, _ => true end)
  && (match cd_rst c, r with Some _, None => false | None, Some _ => false | _, _ => true end).

(* ---------- .latch initial values ----------
   0 / 1 = that value; 2 = don't care, 3 = unknown: any initial value. *)
Definition init_code_ok (code : Z) (v : bool) : Prop :=
  (code = 0 -> v = false) /\ (code = 1 -> v = true).

Definition init_code_okb (code : Z) (v : bool) : bool :=
  if Z.eqb code 0 then negb v else if Z.eqb code 1 then v else true.

(* ---------- flat models ---------- *)
Definition cmd_out (c : command) : option sig :=
  match c with
  | Names sigs _ => last_opt sigs
  | Latch _ q _ => Some q
  | Flop _ _ q _ _ _ => Some q
  | Subckt _ _ => None
  end.

Fixpoint find_drv (cmds : list command) (x : sig) : option command :=
  match cmds with
  | [] => None
  | c :: r => match cmd_out c with
              | Some y => if sig_eqb y x then Some c else find_drv r x
              | None => find_drv r x
              end
  end.

(* value of signal x in the current cycle; fuel bounds the combinational
   depth (number of commands + 1 suffices for an acyclic model) *)
Fixpoint blif_ev (fuel : nat) (m : model) (st ins : sig -> bool) (x : sig) : bool :=
  match fuel with
  | O => false
  | S f =>
    if sig_mem x (minputs m) then ins x
    else match find_drv (mcmds m) x with
         | Some (Names sigs rows) =>
             cover_sem rows (map (blif_ev f m st ins) (removelast sigs))
         | Some (Latch _ _ _) | Some (Flop _ _ _ _ _ _) => st x
         | _ => false
         end
  end.

(* is x determined within the fuel (driven, acyclic, every cover well-formed)? *)
Fixpoint blif_def (fuel : nat) (m : model) (x : sig) : bool :=
  match fuel with
  | O => false
  | S f =>
    if sig_mem x (minputs m) then true
    else match find_drv (mcmds m) x with
         | Some (Names sigs rows) =>
             cover_wf sigs rows && forallb (blif_def f m) (removelast sigs)
         | Some (Latch _ _ _) => true
         | Some (Flop cell _ _ e s r) =>
             match decode_cell (canon_cell cell) with
             | Some cd => cell_pins_ok cd e s r
             | None => false
             end
         | _ => false
         end
  end.

Definition opt_ev (ev : sig -> bool) (o : option sig) : bool :=
  match o with Some s => ev s | None => false end.

(* the state elements and their next values *)
Definition blif_next (fuel : nat) (m : model) (st ins : sig -> bool) (c : command)
  : list (sig * bool) :=
  let ev := blif_ev fuel m st ins in
  match c with
  | Latch d q _ => [(q, ev d)]
  | Flop cell d q e s r =>
      match decode_cell (canon_cell cell) with
      | Some cd => [(q, dff_next cd (ev d) (opt_ev ev e) (opt_ev ev s) (opt_ev ev r) (ev q))]
      | None => []
      end
  | _ => []
  end.

Definition blif_step (fuel : nat) (m : model) (st : list (sig * bool)) (ins : sig -> bool)
  : list bool * list (sig * bool) :=
  (map (blif_ev fuel m (slookup st) ins) (moutputs m),
   flat_map (blif_next fuel m (slookup st) ins) (mcmds m)).

Fixpoint blif_run (fuel : nat) (m : model) (st : list (sig * bool)) (inss : list (sig -> bool))
  : list (list bool) :=
  match inss with
  | [] => []
  | i :: r => let '(o, st') := blif_step fuel m st i in o :: blif_run fuel m st' r
  end.

(* initial states allowed by the file *)
Definition blif_init_ok (m : model) (st : sig -> bool) : Prop :=
  forall x d q i, find_drv (mcmds m) x = Some (Latch d q i) -> init_code_ok i (st x).

(* ---------- hierarchy: .subckt = a renamed copy of the referenced model with
   each formal identified with its actual (inputs driven from the actual,
   outputs driving the actual) ---------- *)
Definition ren_cmd (k : Z) (c : command) : command :=
  match c with
  | Names sigs rows => Names (map (I k) sigs) rows
  | Latch d q i => Latch (I k d) (I k q) i
  | Flop cell d q e s r => Flop cell (I k d) (I k q) (option_map (I k) e)
                                (option_map (I k) s) (option_map (I k) r)
  | Subckt n b => Subckt n b
  end.

Fixpoint zassoc {A} (l : list (Z * A)) (k : Z) : option A :=
  match l with
  | [] => None
  | (k', v) :: r => if Z.eqb k' k then Some v else zassoc r k
  end.

Definition bind_cmd (k : Z) (sub : model) (fa : sig * sig) : option command :=
  let '(formal, actual) := fa in
  if sig_mem formal (minputs sub) then Some (Names [actual; I k formal] [[P1]])
  else if sig_mem formal (moutputs sub) then Some (Names [I k formal; actual] [[P1]])
  else None.

Fixpoint flatten (fuel : nat) (lib : list (Z * model)) (cmds : list command) : option (list command) :=
  match fuel with
  | O => None
  | S f =>
    (fix go (cs : list command) (k : Z) {struct cs} : option (list command) :=
       match cs with
       | [] => Some []
       | Subckt name binds :: r =>
           match zassoc lib name with
           | None => None
           | Some sub =>
             match flatten f lib (mcmds sub), mapM (bind_cmd k sub) binds, go r (k + 1) with
             | Some inner, Some conns, Some rest => Some (map (ren_cmd k) inner ++ conns ++ rest)
             | _, _, _ => None
             end
           end
       | c :: r => match go r (k + 1) with Some rest => Some (c :: rest) | None => None end
       end) cmds 0
  end.

Definition flatten_model (fuel : nat) (lib : list (Z * model)) (m : model) : option model :=
  match flatten fuel lib (mcmds m) with
  | Some cs => Some (mkModel (minputs m) (moutputs m) cs)
  | None => None
  end.

(* the fixed resolution of unconstrained initial values used by the harness:
   init 1 -> 1, everything else 0 *)
Definition blif_init0 (m : model) : list (sig * bool) :=
  flat_map (fun c => match c with
                     | Latch _ q i => [(q, Z.eqb i 1)]
                     | Flop _ _ q _ _ _ => [(q, false)]
                     | _ => []
                     end) (mcmds m).
