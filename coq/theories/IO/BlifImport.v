(* C12 -- model of pyrtl.importexport.input_from_blif (the IMPLEMENTATION side).
   The table-like parts (dff_names, flop_next, latch init map, special-cased
   cover literals) come from Gen/BlifTables.v, regenerated from /repo on every
   run; the algorithmic parts (token pairing, generic sum-of-products through
   rtl_all / rtl_any, .subckt instantiation) are hand-modelled and tied to the
   code by the behavioural correspondence in py/checks/C12.py.
   Definitions only (no proofs): the harness evaluates these. *)
From Coq Require Import ZArith List Bool String.
From PyRTL Require Import IO.BlifSyntax IO.BlifSem Gen.BlifTables.
Import ListNotations.
Open Scope Z_scope.

(* the imported block, abstracted to "who drives each 1-bit wire" *)
Record circuit := mkCircuit {
  c_inputs : list sig;
  c_outputs : list sig;
  c_drv : list (sig * drv)
}.

(* ---------- extract_cover ---------- *)
(* command['cover_list'] is the flat token list of the cover: for each row the
   input plane (absent when the cover has no inputs) then the output plane *)
Definition tokens_of_rows (rows : list (list plane)) : list (list plane) :=
  flat_map (fun r => match r with [] => [[P1]] | _ => [r; [P1]] end) rows.

Fixpoint find_special (tbl : list (list (list plane) * Z * bexp)) (toks : list (list plane))
  : option (Z * bexp) :=
  match tbl with
  | [] => None
  | (t, k, e) :: r => if tokens_eqb toks t then Some (k, e) else find_special r toks
  end.

(* twire(netio[i]) for the index variables L i of a table entry *)
Definition twire_ix (netio : list sig) (s : sig) : bexp :=
  match s with
  | L i => if 0 <=? i then match nth_error netio (Z.to_nat i) with
                           | Some x => BVar x
                           | None => BAbsent     (* IndexError *)
                           end
           else BAbsent
  | _ => BAbsent
  end.

(* while cover: input_plane, output_plane, cover = cover[0], cover[1], cover[2:]
   -- raises on an odd tail and on an output plane other than '1' *)
Fixpoint pair_tokens (toks : list (list plane)) : option (list (list plane)) :=
  match toks with
  | [] => Some []
  | [_] => None
  | ip :: op :: rest =>
      if planes_eqb op [P1]
      then match pair_tokens rest with Some l => Some (ip :: l) | None => None end
      else None
  end.

(* [convert_val(ix, val) for ix, val in enumerate(input_plane) if val != '-'] *)
Fixpoint row_lits (netio : list sig) (r : list plane) : list bexp :=
  match r with
  | [] => []
  | p :: r' =>
    let w := match netio with s :: _ => BVar s | [] => BAbsent end in
    let rest := match netio with _ :: n' => n' | [] => [] end in
    match p with
    | PD => row_lits rest r'
    | P1 => w :: row_lits rest r'
    | P0 => BNot w :: row_lits rest r'
    end
  end.

(* netio[k] with Python semantics: k < 0 counts from the end; IndexError = None *)
Definition py_index {A} (l : list A) (k : Z) : option A :=
  let i := if 0 <=? k then k else Z.of_nat (List.length l) + k in
  if 0 <=? i then nth_error l (Z.to_nat i) else None.

Definition generic_cover (netio : list sig) (planes : list (list plane)) : bexp :=
  rtl_any (map (fun r => rtl_all (row_lits netio r)) planes).

Definition extract_cover (netio : list sig) (rows : list (list plane)) : option (sig * bexp) :=
  let toks := tokens_of_rows rows in
  match find_special cover_special_table toks with
  | Some (k, e) =>
      match py_index netio k with
      | Some d => let e' := bsubst (twire_ix netio) e in
                  if has_absent e' then None else Some (d, e')
      | None => None
      end
  | None =>
      match pair_tokens toks, last_opt netio with
      | Some planes, Some d =>
          let e := generic_cover netio planes in
          if has_absent e then None else Some (d, e)
      | _, _ => None
      end
  end.

(* ---------- extract_latch / extract_flop ---------- *)
Definition extract_latch (d q : sig) (init : Z) : option (sig * drv) :=
  if existsb (Z.eqb init) latch_init_codes then
    match latch_init_map init with
    | Some r => Some (q, DReg (BVar d) r)
    | None => None                                   (* KeyError *)
    end
  else None.                                         (* not accepted by the grammar *)

Fixpoint str_assoc {A} (l : list (string * A)) (k : string) : option A :=
  match l with
  | [] => None
  | (k', v) :: r => if String.eqb k' k then Some v else str_assoc r k
  end.

Definition opt_wire (o : option sig) : bexp :=
  match o with Some s => BVar s | None => BAbsent end.

(* flop_next(twire(D), opt_twire(E), opt_twire(S), opt_twire(R), flop) *)
Definition pin_index (x : sig) : Z := match x with L i => i | _ => -1 end.

Definition flop_args (d q : sig) (e s r : option sig) (x : sig) : bexp :=
  let i := pin_index x in
  if i =? 0 then BVar d
  else if i =? 1 then opt_wire e
  else if i =? 2 then opt_wire s
  else if i =? 3 then opt_wire r
  else if i =? 4 then BVar q            (* the register; twire(Q) <<= register *)
  else BAbsent.

(* valuation of the five flop_next parameters *)
Definition flop_env (d e s r q : bool) (x : sig) : bool :=
  let i := pin_index x in
  if i =? 0 then d else if i =? 1 then e else if i =? 2 then s
  else if i =? 3 then r else if i =? 4 then q else false.

Definition extract_flop (cell : string) (d q : sig) (e s r : option sig) : option (sig * drv) :=
  if existsb (String.eqb cell) dff_names then
    match str_assoc flop_table cell with
    | Some body => let nx := bsubst (flop_args d q e s r) body in
                   if has_absent nx then None else Some (q, DReg nx flop_reset)
    | None => None                                   (* KeyError *)
    end
  else None.

Definition import_cmd (c : command) : option (sig * drv) :=
  match c with
  | Names sigs rows =>
      match extract_cover sigs rows with Some (d, e) => Some (d, DComb e) | None => None end
  | Latch d q i => extract_latch d q i
  | Flop cell d q e s r => extract_flop cell d q e s r
  | Subckt _ _ => None
  end.

(* a single flat model *)
Definition import_flat (m : model) : option circuit :=
  match mapM import_cmd (mcmds m) with
  | Some ds => Some (mkCircuit (minputs m) (moutputs m) ds)
  | None => None
  end.

(* ---------- extract_model_reference / instantiate ---------- *)
Definition ren_bexp (k : Z) (e : bexp) : bexp := bsubst (fun s => BVar (I k s)) e.
Definition ren_drv (k : Z) (p : sig * drv) : sig * drv :=
  match p with
  | (x, DComb e) => (I k x, DComb (ren_bexp k e))
  | (x, DReg n r) => (I k x, DReg (ren_bexp k n) r)
  end.

(* formal in subckt.inputs: wf <<= wa ; formal in subckt.outputs: wa <<= wf *)
Definition bind_drv (k : Z) (sub : model) (fa : sig * sig) : option (sig * drv) :=
  let '(formal, actual) := fa in
  if sig_mem formal (minputs sub) then Some (I k formal, DComb (BVar actual))
  else if sig_mem formal (moutputs sub) then Some (actual, DComb (BVar (I k formal)))
  else None.

Fixpoint import_cmds (fuel : nat) (lib : list (Z * model)) (cmds : list command)
  : option (list (sig * drv)) :=
  match fuel with
  | O => None
  | S f =>
    (fix go (cs : list command) (k : Z) {struct cs} : option (list (sig * drv)) :=
       match cs with
       | [] => Some []
       | Subckt name binds :: r =>
           match zassoc lib name with
           | None => None
           | Some sub =>
             match import_cmds f lib (mcmds sub), mapM (bind_drv k sub) binds, go r (k + 1) with
             | Some inner, Some conns, Some rest => Some (map (ren_drv k) inner ++ conns ++ rest)%list
             | _, _, _ => None
             end
           end
       | c :: r => match import_cmd c, go r (k + 1) with
                   | Some d, Some rest => Some (d :: rest)
                   | _, _ => None
                   end
       end) cmds 0
  end.

Definition import_blif (fuel : nat) (lib : list (Z * model)) (top : model) : option circuit :=
  match import_cmds fuel lib (mcmds top) with
  | Some ds => Some (mkCircuit (minputs top) (moutputs top) ds)
  | None => None
  end.

(* ---------- cycle semantics of the imported block (1-bit wires; registers
   update at the end of the cycle; default_value = 0) ---------- *)
Fixpoint c_ev (fuel : nat) (c : circuit) (st ins : sig -> bool) (x : sig) : bool :=
  match fuel with
  | O => false
  | S f =>
    if sig_mem x (c_inputs c) then ins x
    else match sassoc (c_drv c) x with
         | Some (DComb e) => beval (c_ev f c st ins) e
         | Some (DReg _ _) => st x
         | None => false
         end
  end.

Fixpoint c_def (fuel : nat) (c : circuit) (x : sig) : bool :=
  match fuel with
  | O => false
  | S f =>
    if sig_mem x (c_inputs c) then true
    else match sassoc (c_drv c) x with
         | Some (DComb e) => forallb (c_def f c) (bvars e)
         | Some (DReg _ _) => true
         | None => false
         end
  end.

Definition c_next (fuel : nat) (c : circuit) (st ins : sig -> bool) (p : sig * drv)
  : list (sig * bool) :=
  match p with
  | (q, DReg n _) => [(q, beval (c_ev fuel c st ins) n)]
  | _ => []
  end.

Definition c_step (fuel : nat) (c : circuit) (st : list (sig * bool)) (ins : sig -> bool)
  : list bool * list (sig * bool) :=
  (map (c_ev fuel c (slookup st) ins) (c_outputs c),
   flat_map (c_next fuel c (slookup st) ins) (c_drv c)).

Fixpoint c_run (fuel : nat) (c : circuit) (st : list (sig * bool)) (inss : list (sig -> bool))
  : list (list bool) :=
  match inss with
  | [] => []
  | i :: r => let '(o, st') := c_step fuel c st i in o :: c_run fuel c st' r
  end.

(* Simulation's initial register value: reset_value if given, else default 0 *)
Definition c_init (c : circuit) : list (sig * bool) :=
  flat_map (fun p => match p with
                     | (q, DReg _ (Some z)) => [(q, negb (Z.eqb z 0))]
                     | (q, DReg _ None) => [(q, false)]
                     | _ => []
                     end) (c_drv c).

(* ---------- vector ports (merge_io_vectors=True) ----------
   Input a (n bits): the wire named a[i] is bit i of a;
   Output a = concat_list([a[0], a[1], ..]) : index 0 least significant. *)
Definition vec_bit (v : Z) (i : nat) : bool := Z.testbit v (Z.of_nat i).
Fixpoint vec_merge (bits : list bool) : Z :=
  match bits with [] => 0 | b :: r => Z.b2z b + 2 * vec_merge r end.
