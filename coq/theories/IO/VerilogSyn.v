(* Abstract syntax of the Verilog-2001 subset written by
   pyrtl.importexport.output_to_verilog (TRUSTED: hand-written; the Python
   reader py/verilog_reader.py parses the emitted text into these terms).

   Identifiers are integers: the reader numbers the identifiers of the text
   (the harness chooses the numbering so that the identifier emitted for a
   PyRTL wire gets that wire's id in the netlist dump).  Memories `mem_<id>`
   live in their own namespace and are numbered by <id>.  `clk` and `rst` are
   not identifiers of the AST: they only occur in the event control / the
   `if (rst)` of the register block, which the AST represents by [rmode]. *)
(* Netlist.Syntax is imported only for the dictionary helpers [assoc] and [upd]. *)
From PyRTL Require Export Base.PyZ Netlist.Syntax.

Inductive vbinop := BAnd | BOr | BXor | BAdd | BSub | BMul.   (* & | ^ + - * *)
Inductive vcmpop := CLt | CGt | CEq.                          (* < > == *)

Inductive vexpr :=
| VId (x : Z)                        (* identifier *)
| VBit (x : Z) (i : Z)               (* bit-select  x[i]  *)
| VDec (v : Z)                       (* unsized decimal literal  123  *)
| VSized (w v : Z)                   (* sized literal  8'hff / 8'd255 *)
| VNot (e : vexpr)                   (* ~e *)
| VBin (o : vbinop) (a b : vexpr)    (* a o b *)
| VCmp (o : vcmpop) (a b : vexpr)    (* a < b, a > b, a == b *)
| VCond (c t f : vexpr)              (* c ? t : f *)
| VCat (es : list vexpr).            (* {e1, ..., ek}  (e1 most significant) *)

(* reset structure of the single register block
     RNone : always @(posedge clk) begin begin <updates> end end
     RSync : always @(posedge clk) begin if (rst) begin <resets> end else begin <updates> end end
     RAsync: always @(posedge clk or posedge rst) ... same body as RSync *)
Inductive rmode := RNone | RSync | RAsync.

Record vmemwrite := mkVW { vw_en : Z; vw_addr : Z; vw_data : Z }.
(* if (en) begin mem_<m>[addr] <= data; end *)

Record vmodule := mkVModule {
  m_inputs  : list (Z * Z);          (* input[w-1:0] x;   as (x, w); clk/rst excluded *)
  m_outputs : list (Z * Z);          (* output[w-1:0] x; *)
  m_regs    : list (Z * Z);          (* reg[w-1:0] x; *)
  m_wires   : list (Z * Z);          (* wire[w-1:0] x; *)
  m_mems    : list (Z * (Z * Z));    (* reg[w-1:0] mem_<m>[d-1:0];  as (m, (w, d)) *)
  m_roms    : list (Z * list (Z * vexpr));   (* initial begin mem_<m>[a]=lit; ... end *)
  m_assigns : list (Z * vexpr);      (* assign x = e;   in text order *)
  m_memrds  : list (Z * (Z * Z));    (* assign x = mem_<m>[a];  as (x, (m, a)) *)
  m_mode    : rmode;
  m_resets  : list (Z * vexpr);      (* x <= lit;  of the `if (rst)` branch *)
  m_updates : list (Z * vexpr);      (* x <= e;    of the else / plain branch *)
  m_memwrs  : list (Z * list vmemwrite)   (* one always block per written memory *)
}.

Definition decls (m : vmodule) : list (Z * Z) :=
  m_inputs m ++ m_outputs m ++ m_regs m ++ m_wires m.

(* declared width of an identifier (0 if undeclared; the reader rejects
   undeclared and doubly declared identifiers before anything is evaluated) *)
Definition dwidth (m : vmodule) (x : Z) : Z :=
  match assoc (decls m) x with Some w => w | None => 0 end.
