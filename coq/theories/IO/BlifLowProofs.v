(* C12 -- the name-resolution layer (IO/BlifLow.v over the REGENERATED
   Subcircuit tables of Gen/BlifNames.v): the imported block does not depend
   on what the nets of the file are called. *)
From Coq Require Import ZArith List Bool String Lia.
From PyRTL Require Import IO.BlifSyntax IO.BlifSem Gen.BlifTables Gen.BlifNames IO.BlifImport
                          IO.BlifLow IO.BlifProofs IO.BlifHierProofs.
Import ListNotations.
Open Scope Z_scope.
Close Scope string_scope.

Arguments fresh : simpl never.
Arguments twire : simpl never.
Arguments otwire : simpl never.
Arguments emit : simpl never.
Arguments with_sc : simpl never.

Definition orel (R : lst -> lst -> Prop) (a b : option lst) : Prop :=
  match a, b with
  | Some t, Some t' => R t t'
  | None, None => True
  | _, _ => False
  end.

Section Rename.
  Variable rho : sig -> sig.
  Hypothesis rho_inj : forall a b, sig_eqb (rho a) (rho b) = sig_eqb a b.

  Definition gren (e : bexp) : bexp := bsubst (fun x => BVar (rho x)) e.

  (* ---- the pure part of the importer commutes with renaming ---- *)
  Lemma gren_absent : forall e, has_absent (gren e) = has_absent e.
  Proof.
    unfold gren.
    induction e as [s|b|a IHa|a IHa b IHb|a IHa b IHb|a IHa b IHb|a IHa b IHb|c IHc t IHt f0 IHf|];
      simpl; auto; try (rewrite IHa, IHb; reflexivity).
    rewrite IHc, IHt, IHf. reflexivity.
  Qed.

  Lemma tree_reduce_gren op :
    (forall a b, gren (op a b) = op (gren a) (gren b)) ->
    forall n l, gren (tree_reduce n op l) = tree_reduce n op (map gren l).
  Proof.
    intro Hop. induction n as [|n IH]; intro l; [reflexivity|].
    destruct l as [|x [|y l']]; [reflexivity|reflexivity|].
    set (l := x :: y :: l').
    change (tree_reduce (S n) op l)
      with (op (tree_reduce n op (firstn (Nat.div (List.length l) 2) l))
               (tree_reduce n op (skipn (Nat.div (List.length l) 2) l))).
    change (tree_reduce (S n) op (map gren l))
      with (op (tree_reduce n op (firstn (Nat.div (List.length (map gren l)) 2) (map gren l)))
               (tree_reduce n op (skipn (Nat.div (List.length (map gren l)) 2) (map gren l)))).
    rewrite Hop, IH, IH, map_length, firstn_map, skipn_map. reflexivity.
  Qed.

  Lemma rtl_all_gren l : gren (rtl_all l) = rtl_all (map gren l).
  Proof.
    destruct l as [|x l]; [reflexivity|]. unfold rtl_all.
    change (map gren (x :: l)) with (gren x :: map gren l).
    rewrite <- (map_length gren (x :: l)). apply tree_reduce_gren. reflexivity.
  Qed.

  Lemma rtl_any_gren l : gren (rtl_any l) = rtl_any (map gren l).
  Proof.
    destruct l as [|x l]; [reflexivity|]. unfold rtl_any.
    change (map gren (x :: l)) with (gren x :: map gren l).
    rewrite <- (map_length gren (x :: l)). apply tree_reduce_gren. reflexivity.
  Qed.

  Lemma row_lits_gren : forall r netio, row_lits (map rho netio) r = map gren (row_lits netio r).
  Proof.
    induction r as [|p r IH]; intro netio; [reflexivity|].
    destruct netio as [|s netio].
    - specialize (IH []). simpl in IH. destruct p; simpl; try (f_equal; exact IH); exact IH.
    - destruct p; simpl; rewrite IH; reflexivity.
  Qed.

  Lemma generic_cover_gren netio planes :
    generic_cover (map rho netio) planes = gren (generic_cover netio planes).
  Proof.
    unfold generic_cover. rewrite rtl_any_gren, map_map. f_equal.
    apply map_ext. intro r. rewrite rtl_all_gren, row_lits_gren. reflexivity.
  Qed.

  Lemma twire_ix_gren netio x : twire_ix (map rho netio) x = gren (twire_ix netio x).
  Proof.
    unfold twire_ix. destruct x as [i|]; [|reflexivity].
    destruct (0 <=? i); [|reflexivity].
    rewrite nth_error_map. destruct (nth_error netio (Z.to_nat i)); reflexivity.
  Qed.

  Lemma extract_cover_gren sigs rows :
    extract_cover (map rho sigs) rows
    = option_map (fun p => (rho (fst p), gren (snd p))) (extract_cover sigs rows).
  Proof.
    unfold extract_cover.
    destruct (find_special cover_special_table (tokens_of_rows rows)) as [[kk e]|].
    - rewrite py_index_map. destruct (py_index sigs kk) as [d|]; [|reflexivity].
      simpl.
      assert (E : bsubst (twire_ix (map rho sigs)) e = gren (bsubst (twire_ix sigs) e)).
      { unfold gren at 1. rewrite bsubst_bsubst. apply bsubst_ext. intro x. apply twire_ix_gren. }
      rewrite E, gren_absent. destruct (has_absent (bsubst (twire_ix sigs) e)); reflexivity.
    - destruct (pair_tokens (tokens_of_rows rows)) as [planes|]; [|reflexivity].
      rewrite last_opt_map. destruct (last_opt sigs) as [d|]; [|reflexivity]. simpl.
      rewrite generic_cover_gren, gren_absent.
      destruct (has_absent (generic_cover sigs planes)); reflexivity.
  Qed.

  (* ---- the name tables ---- *)
  Definition trel (c c' : subc) : Prop :=
    (forall x, sc_twire_lookup c' (rho x) = sc_twire_lookup c x)
    /\ (forall x, sassoc (sc_inputs c') (rho x) = sassoc (sc_inputs c) x)
    /\ (forall x, sassoc (sc_outputs c') (rho x) = sassoc (sc_outputs c) x).

  Definition rel (s s' : lst) : Prop :=
    l_next s = l_next s' /\ l_drv s = l_drv s' /\ trel (l_sc s) (l_sc s').

  Lemma trel_empty : trel subc_empty subc_empty.
  Proof. repeat split. Qed.

  (* each of these unfolds a REGENERATED method: they hold because twire's table
     is written only under the (renamed) names of nets *)
  Lemma trel_store c c' x w : trel c c' -> trel (sc_twire_store c x w) (sc_twire_store c' (rho x) w).
  Proof.
    intros (H1 & H2 & H3). unfold trel, sc_twire_lookup, sc_twire_store in *. simpl.
    repeat split; auto. intro y. rewrite rho_inj. destruct (sig_eqb x y); auto.
  Qed.

  Lemma trel_add_reg c c' k k' w : trel c c' -> trel (sc_add_reg c k w) (sc_add_reg c' k' w).
  Proof.
    intros (H1 & H2 & H3). unfold trel, sc_twire_lookup, sc_add_reg in *. simpl.
    repeat split; auto.
  Qed.

  Lemma trel_add_input c c' x w : trel c c' -> trel (sc_add_input c x w) (sc_add_input c' (rho x) w).
  Proof.
    intros (H1 & H2 & H3). unfold trel, sc_twire_lookup, sc_add_input in *. simpl.
    repeat split; auto; intro y; rewrite rho_inj; destruct (sig_eqb x y); auto.
  Qed.

  Lemma trel_add_output c c' x w : trel c c' -> trel (sc_add_output c x w) (sc_add_output c' (rho x) w).
  Proof.
    intros (H1 & H2 & H3). unfold trel, sc_twire_lookup, sc_add_output in *. simpl.
    repeat split; auto; intro y; rewrite rho_inj; destruct (sig_eqb x y); auto.
  Qed.

  Lemma rel_fresh s s' : rel s s' ->
    fst (fresh s') = fst (fresh s) /\ rel (snd (fresh s)) (snd (fresh s')).
  Proof.
    intros (H1 & H2 & H3). unfold fresh, rel. simpl. split; [f_equal; symmetry; exact H1|].
    repeat split; try apply H3; auto. f_equal. exact H1.
  Qed.

  Lemma rel_emit s s' w d : rel s s' -> rel (emit s w d) (emit s' w d).
  Proof. intros (H1 & H2 & H3). unfold emit, rel. simpl. rewrite H2. auto. Qed.

  Lemma rel_with_sc s s' c c' : rel s s' -> trel c c' -> rel (with_sc s c) (with_sc s' c').
  Proof. intros (H1 & H2 & H3) H. unfold with_sc, rel. simpl. auto. Qed.

  Lemma twire_rel s s' x : rel s s' ->
    fst (twire s' (rho x)) = fst (twire s x) /\ rel (snd (twire s x)) (snd (twire s' (rho x))).
  Proof.
    intro H. pose proof H as (H1 & H2 & (T1 & T2 & T3)). unfold twire. rewrite T1.
    destruct (sc_twire_lookup (l_sc s) x) as [w|]; simpl; [auto|].
    unfold fresh. simpl. rewrite H1. split; [reflexivity|].
    unfold rel, with_sc. simpl. repeat split; auto.
    apply trel_store. repeat split; auto.
  Qed.

  Lemma otwire_rel s s' o : rel s s' ->
    fst (otwire s' (option_map rho o)) = fst (otwire s o)
    /\ rel (snd (otwire s o)) (snd (otwire s' (option_map rho o))).
  Proof.
    intro H. destruct o as [x|]; unfold otwire; simpl; [|auto].
    destruct (twire_rel s s' x H) as [E R].
    destruct (twire s x) as [w s1]. destruct (twire s' (rho x)) as [w' s1']. simpl in *.
    subst w'. auto.
  Qed.

  Lemma rsv_rel : forall e s s', rel s s' ->
    fst (rsv (gren e) s') = fst (rsv e s) /\ rel (snd (rsv e s)) (snd (rsv (gren e) s')).
  Proof.
    unfold gren.
    induction e as [x|b|a IHa|a IHa b IHb|a IHa b IHb|a IHa b IHb|a IHa b IHb|c IHc t IHt f0 IHf|];
      intros s s' H; simpl.
    - destruct (twire_rel s s' x H) as [E R].
      destruct (twire s x) as [w s1]. destruct (twire s' (rho x)) as [w' s1']. simpl in *.
      subst w'. auto.
    - auto.
    - destruct (IHa s s' H) as [E R].
      destruct (rsv a s) as [a1 s1]. destruct (rsv (bsubst _ a) s') as [a1' s1']. simpl in *.
      subst. auto.
    - destruct (IHa s s' H) as [E R].
      destruct (rsv a s) as [a1 s1]. destruct (rsv (bsubst _ a) s') as [a1' s1']. simpl in *.
      destruct (IHb s1 s1' R) as [E2 R2].
      destruct (rsv b s1) as [b1 s2]. destruct (rsv (bsubst _ b) s1') as [b1' s2']. simpl in *.
      subst. auto.
    - destruct (IHa s s' H) as [E R].
      destruct (rsv a s) as [a1 s1]. destruct (rsv (bsubst _ a) s') as [a1' s1']. simpl in *.
      destruct (IHb s1 s1' R) as [E2 R2].
      destruct (rsv b s1) as [b1 s2]. destruct (rsv (bsubst _ b) s1') as [b1' s2']. simpl in *.
      subst. auto.
    - destruct (IHa s s' H) as [E R].
      destruct (rsv a s) as [a1 s1]. destruct (rsv (bsubst _ a) s') as [a1' s1']. simpl in *.
      destruct (IHb s1 s1' R) as [E2 R2].
      destruct (rsv b s1) as [b1 s2]. destruct (rsv (bsubst _ b) s1') as [b1' s2']. simpl in *.
      subst. auto.
    - destruct (IHa s s' H) as [E R].
      destruct (rsv a s) as [a1 s1]. destruct (rsv (bsubst _ a) s') as [a1' s1']. simpl in *.
      destruct (IHb s1 s1' R) as [E2 R2].
      destruct (rsv b s1) as [b1 s2]. destruct (rsv (bsubst _ b) s1') as [b1' s2']. simpl in *.
      subst. auto.
    - destruct (IHc s s' H) as [E R].
      destruct (rsv c s) as [c1 s1]. destruct (rsv (bsubst _ c) s') as [c1' s1']. simpl in *.
      destruct (IHt s1 s1' R) as [E2 R2].
      destruct (rsv t s1) as [t1 s2]. destruct (rsv (bsubst _ t) s1') as [t1' s2']. simpl in *.
      destruct (IHf s2 s2' R2) as [E3 R3].
      destruct (rsv f0 s2) as [f1 s3]. destruct (rsv (bsubst _ f0) s2') as [f1' s3']. simpl in *.
      subst. auto.
    - auto.
  Qed.

  (* ---- one command ---- *)
  Lemma low_simple_rel rn rn' c s s' : rel s s' ->
    orel rel (low_simple rn c s) (low_simple rn' (gren_cmd rho c) s').
  Proof.
    intro H. destruct c as [sigs rows|d q i|cell d q e sp r|n b]; cbn [low_simple gren_cmd].
    - rewrite extract_cover_gren. destruct (extract_cover sigs rows) as [[dd ee]|]; cbn [option_map fst snd orel]; [|exact Logic.I].
      destruct (twire_rel s s' dd H) as [E R].
      destruct (twire s dd) as [w s1]. destruct (twire s' (rho dd)) as [w' s1']. simpl in *. subst w'.
      destruct (rsv_rel ee s1 s1' R) as [E2 R2]. fold (gren ee).
      destruct (rsv ee s1) as [e1 s2]. destruct (rsv (gren ee) s1') as [e1' s2']. simpl in *. subst e1'.
      apply rel_emit. exact R2.
    - unfold extract_latch. destruct (existsb (Z.eqb i) latch_init_codes); [|exact Logic.I].
      destruct (latch_init_map i) as [rr|]; [|exact Logic.I]. cbv beta iota.
      destruct (rel_fresh s s' H) as [E R].
      destruct (fresh s) as [R0 s1]. destruct (fresh s') as [R0' s1']. simpl in *. subst R0'.
      assert (R2 : rel (with_sc s1 (sc_add_reg (l_sc s1) (rn q) R0))
                       (with_sc s1' (sc_add_reg (l_sc s1') (rn' (rho q)) R0))).
      { apply rel_with_sc; [exact R|]. apply trel_add_reg. apply R. }
      destruct (twire_rel _ _ d R2) as [E3 R3].
      destruct (twire (with_sc s1 _) d) as [wd s3]. destruct (twire (with_sc s1' _) (rho d)) as [wd' s3'].
      simpl in *. subst wd'.
      assert (R4 := rel_emit s3 s3' R0 (DReg (BVar wd) rr) R3).
      destruct (twire_rel _ _ q R4) as [E5 R5].
      destruct (twire (emit s3 _ _) q) as [wq s5]. destruct (twire (emit s3' _ _) (rho q)) as [wq' s5'].
      simpl in *. subst wq'. apply rel_emit. exact R5.
    - destruct (existsb (String.eqb cell) dff_names); [|exact Logic.I].
      destruct (str_assoc flop_table cell) as [body|]; [|exact Logic.I].
      destruct (rel_fresh s s' H) as [E R].
      destruct (fresh s) as [R0 s1]. destruct (fresh s') as [R0' s1']. simpl in *. subst R0'.
      assert (R2 : rel (with_sc s1 (sc_add_reg (l_sc s1) (rn q) R0))
                       (with_sc s1' (sc_add_reg (l_sc s1') (rn' (rho q)) R0))).
      { apply rel_with_sc; [exact R|]. apply trel_add_reg. apply R. }
      destruct (twire_rel _ _ d R2) as [E3 R3].
      destruct (twire (with_sc s1 _) d) as [wd s3]. destruct (twire (with_sc s1' _) (rho d)) as [wd' s3'].
      simpl in *. subst wd'.
      destruct (otwire_rel _ _ e R3) as [E4 R4].
      destruct (otwire s3 e) as [we s4]. destruct (otwire s3' (option_map rho e)) as [we' s4'].
      simpl in *. subst we'.
      destruct (otwire_rel _ _ sp R4) as [E5 R5].
      destruct (otwire s4 sp) as [ws s5]. destruct (otwire s4' (option_map rho sp)) as [ws' s5'].
      simpl in *. subst ws'.
      destruct (otwire_rel _ _ r R5) as [E6 R6].
      destruct (otwire s5 r) as [wr s6]. destruct (otwire s5' (option_map rho r)) as [wr' s6'].
      simpl in *. subst wr'.
      destruct (has_absent (bsubst (flop_args wd R0 we ws wr) body)); [exact Logic.I|].
      assert (R7 := rel_emit s6 s6' R0 (DReg (bsubst (flop_args wd R0 we ws wr) body) flop_reset) R6).
      destruct (twire_rel _ _ q R7) as [E8 R8].
      destruct (twire (emit s6 _ _) q) as [wq s8]. destruct (twire (emit s6' _ _) (rho q)) as [wq' s8'].
      simpl in *. subst wq'. apply rel_emit. exact R8.
    - exact Logic.I.
  Qed.

  (* binding the formals of an instance whose tables agree *)
  Lemma connect_rel ch ch' :
    (forall x, sassoc (sc_inputs ch') x = sassoc (sc_inputs ch) x) ->
    (forall x, sassoc (sc_outputs ch') x = sassoc (sc_outputs ch) x) ->
    forall binds s s', rel s s' ->
    orel rel (connect ch binds s) (connect ch' (map (fun fa => (fst fa, rho (snd fa))) binds) s').
  Proof.
    intros Hi Ho. induction binds as [|[formal actual] binds IH]; intros s s' H; simpl; [exact H|].
    rewrite Hi, Ho.
    destruct (twire_rel s s' actual H) as [E R].
    destruct (twire s actual) as [wa s1]. destruct (twire s' (rho actual)) as [wa' s1']. simpl in *. subst wa'.
    destruct (sassoc (sc_inputs ch) formal) as [wf|].
    - apply IH. apply rel_emit. exact R.
    - destruct (sassoc (sc_outputs ch) formal) as [wf|]; [|exact Logic.I].
      apply IH. apply rel_emit. exact R.
  Qed.

  Lemma top_inputs_rel : forall names s s', rel s s' ->
    fst (top_inputs (map rho names) s') = fst (top_inputs names s)
    /\ rel (snd (top_inputs names s)) (snd (top_inputs (map rho names) s')).
  Proof.
    induction names as [|x names IH]; intros s s' H; cbn [top_inputs top_outputs map]; [split; [reflexivity|exact H]|].
    destruct (rel_fresh s s' H) as [E R].
    destruct (fresh s) as [w s1]. destruct (fresh s') as [w' s1']. cbn [fst snd] in *. subst w'.
    assert (R2 : rel (with_sc s1 (sc_add_input (l_sc s1) x w)) (with_sc s1' (sc_add_input (l_sc s1') (rho x) w))).
    { apply rel_with_sc; [exact R|]. apply trel_add_input. apply R. }
    destruct (IH _ _ R2) as [E3 R3].
    destruct (top_inputs names (with_sc s1 _)) as [ws s2].
    destruct (top_inputs (map rho names) (with_sc s1' _)) as [ws' s2']. cbn [fst snd] in *. subst ws'. auto.
  Qed.

  Lemma top_outputs_rel : forall names s s', rel s s' ->
    fst (top_outputs (map rho names) s') = fst (top_outputs names s)
    /\ rel (snd (top_outputs names s)) (snd (top_outputs (map rho names) s')).
  Proof.
    induction names as [|x names IH]; intros s s' H; cbn [top_inputs top_outputs map]; [split; [reflexivity|exact H]|].
    destruct (rel_fresh s s' H) as [E R].
    destruct (fresh s) as [wi s1]. destruct (fresh s') as [wi' s1']. cbn [fst snd] in *. subst wi'.
    destruct (rel_fresh s1 s1' R) as [E2 R2].
    destruct (fresh s1) as [wo s2]. destruct (fresh s1') as [wo' s2']. cbn [fst snd] in *. subst wo'.
    assert (R3 : rel (emit (with_sc s2 (sc_add_output (l_sc s2) x wi)) wo (DComb (BVar wi)))
                     (emit (with_sc s2' (sc_add_output (l_sc s2') (rho x) wi)) wo (DComb (BVar wi)))).
    { apply rel_emit. apply rel_with_sc; [exact R2|]. apply trel_add_output. apply R2. }
    destruct (IH _ _ R3) as [E4 R4].
    destruct (top_outputs names (emit _ _ _)) as [ws s4].
    destruct (top_outputs (map rho names) (emit _ _ _)) as [ws' s4']. cbn [fst snd] in *. subst ws'. auto.
  Qed.
End Rename.

(* the identity renaming *)
Lemma id_inj : forall a b : sig, sig_eqb ((fun x => x) a) ((fun x => x) b) = sig_eqb a b.
Proof. reflexivity. Qed.

Lemma gren_cmd_id : forall c, gren_cmd (fun x => x) c = c.
Proof.
  destruct c as [sigs rows|d q i|cell d q e s r|n b]; simpl.
  - rewrite map_id. reflexivity.
  - reflexivity.
  - destruct e, s, r; reflexivity.
  - f_equal. induction b as [|[f a] b IH]; simpl; [reflexivity|]. rewrite IH. reflexivity.
Qed.

Lemma map_gren_cmd_id cs : map (gren_cmd (fun x => x)) cs = cs.
Proof. induction cs as [|c cs IH]; simpl; [reflexivity|]. rewrite gren_cmd_id, IH. reflexivity. Qed.

(* ---- the instantiation loop, named (same device as in BlifHierProofs) ---- *)
Section LGo.
  Variable f : nat.
  Variable regname : Z -> sig -> sig.
  Variable lib : list (Z * model).
  Variable mid : Z.

  Fixpoint lgo (cs : list command) (s : lst) {struct cs} : option lst :=
    match cs with
    | [] => Some s
    | Subckt name binds :: r =>
        match zassoc lib name with
        | None => None
        | Some sub =>
            let parent := l_sc s in
            let s1 := sub_outputs (moutputs sub) (sub_inputs (minputs sub) (with_sc s subc_empty)) in
            match low_cmds f regname lib name (mcmds sub) s1 with
            | Some s2 =>
                match connect (l_sc s2) binds (with_sc s2 parent) with
                | Some s3 => lgo r s3
                | None => None
                end
            | None => None
            end
        end
    | c :: r => match low_simple (regname mid) c s with
                | Some s1 => lgo r s1
                | None => None
                end
    end.
End LGo.

Lemma low_cmds_S f regname lib mid cmds s :
  low_cmds (S f) regname lib mid cmds s = lgo f regname lib mid cmds s.
Proof. reflexivity. Qed.

Lemma rel_next_drv rho s s' : rel rho s s' -> l_next s = l_next s' /\ l_drv s = l_drv s'.
Proof. intros (H1 & H2 & _). auto. Qed.

(* all commands, any nesting: related states stay related, both sides fail together *)
Lemma low_cmds_rel : forall fuel rn rn' lib rho,
  (forall a b, sig_eqb (rho a) (rho b) = sig_eqb a b) ->
  forall mid cmds s s', rel rho s s' ->
  orel (rel rho) (low_cmds fuel rn lib mid cmds s)
                 (low_cmds fuel rn' lib mid (map (gren_cmd rho) cmds) s').
Proof.
  induction fuel as [|f IHf]; intros rn rn' lib rho Hinj mid cmds s s' H; [exact Logic.I|].
  rewrite !low_cmds_S. revert s s' H.
  induction cmds as [|c cmds IH]; intros s s' H; [exact H|].
  destruct c as [sigs rows|d q i|cell d q e sp r|name binds].
  - pose proof (low_simple_rel rho Hinj (rn mid) (rn' mid) (Names sigs rows) s s' H) as Hs.
    cbn [map gren_cmd lgo] in *.
    destruct (low_simple (rn mid) (Names sigs rows) s) as [t|];
      destruct (low_simple (rn' mid) (Names (map rho sigs) rows) s') as [t'|]; simpl in Hs; try contradiction;
      [apply IH; exact Hs | exact Logic.I].
  - pose proof (low_simple_rel rho Hinj (rn mid) (rn' mid) (Latch d q i) s s' H) as Hs.
    cbn [map gren_cmd lgo] in *.
    destruct (low_simple (rn mid) (Latch d q i) s) as [t|];
      destruct (low_simple (rn' mid) (Latch (rho d) (rho q) i) s') as [t'|]; simpl in Hs; try contradiction;
      [apply IH; exact Hs | exact Logic.I].
  - pose proof (low_simple_rel rho Hinj (rn mid) (rn' mid) (Flop cell d q e sp r) s s' H) as Hs.
    cbn [map gren_cmd lgo] in *.
    destruct (low_simple (rn mid) (Flop cell d q e sp r) s) as [t|];
      destruct (low_simple (rn' mid) (Flop cell (rho d) (rho q) (option_map rho e) (option_map rho sp)
                                           (option_map rho r)) s') as [t'|]; simpl in Hs; try contradiction;
      [apply IH; exact Hs | exact Logic.I].
  - cbn [map gren_cmd lgo].
    destruct (zassoc lib name) as [sub|]; [|exact Logic.I].
    destruct (rel_next_drv rho s s' H) as [Hn Hd].
    assert (E0 : with_sc s' subc_empty = with_sc s subc_empty).
    { unfold with_sc. rewrite Hn, Hd. reflexivity. }
    rewrite E0.
    set (s1 := sub_outputs (moutputs sub) (sub_inputs (minputs sub) (with_sc s subc_empty))).
    (* the instance is built from identical states: identity renaming *)
    assert (Hid : rel (fun x => x) s1 s1) by (repeat split).
    pose proof (IHf rn rn' lib (fun x => x) id_inj name (mcmds sub) s1 s1 Hid) as Hc.
    rewrite map_gren_cmd_id in Hc.
    destruct (low_cmds f rn lib name (mcmds sub) s1) as [s2|];
      destruct (low_cmds f rn' lib name (mcmds sub) s1) as [s2'|]; simpl in Hc; try contradiction; [|exact Logic.I].
    destruct Hc as (Hn2 & Hd2 & (_ & Ti & To)).
    assert (Hp : rel rho (with_sc s2 (l_sc s)) (with_sc s2' (l_sc s'))).
    { unfold rel, with_sc. simpl. repeat split; auto; apply H. }
    pose proof (connect_rel rho Hinj (l_sc s2) (l_sc s2') Ti To binds _ _ Hp) as Hk.
    destruct (connect (l_sc s2) binds (with_sc s2 (l_sc s))) as [s3|];
      destruct (connect (l_sc s2') (map (fun fa => (fst fa, rho (snd fa))) binds) (with_sc s2' (l_sc s')))
        as [s3'|]; simpl in Hk; try contradiction; [|exact Logic.I].
    apply IH. exact Hk.
Qed.

(* THE THEOREM: the imported block (its wires, nets, registers with their reset
   values, the order of its ports) is the same whatever the nets of the top
   model are called, for every injective renaming, every library of
   sub-models, every nesting depth, and whatever keys the registers are filed
   under on either side. *)
Theorem low_import_rename_invariant : forall rho,
  (forall a b, sig_eqb (rho a) (rho b) = sig_eqb a b) ->
  forall fuel rn rn' lib tid top,
  low_import fuel rn' lib tid (gren_model rho top) = low_import fuel rn lib tid top.
Proof.
  intros rho Hinj fuel rn rn' lib tid top. unfold low_import, gren_model. simpl.
  assert (H0 : rel rho (mkLst subc_empty 0 []) (mkLst subc_empty 0 [])) by (repeat split).
  destruct (top_inputs_rel rho Hinj (minputs top) _ _ H0) as [E1 R1].
  destruct (top_inputs (minputs top) (mkLst subc_empty 0 [])) as [iw s1].
  destruct (top_inputs (map rho (minputs top)) (mkLst subc_empty 0 [])) as [iw' s1']. simpl in *. subst iw'.
  destruct (top_outputs_rel rho Hinj (moutputs top) _ _ R1) as [E2 R2].
  destruct (top_outputs (moutputs top) s1) as [ow s2].
  destruct (top_outputs (map rho (moutputs top)) s1') as [ow' s2']. simpl in *. subst ow'.
  pose proof (low_cmds_rel fuel rn rn' lib rho Hinj tid (mcmds top) s2 s2' R2) as Hc.
  destruct (low_cmds fuel rn lib tid (mcmds top) s2) as [s3|];
    destruct (low_cmds fuel rn' lib tid (map (gren_cmd rho) (mcmds top)) s2') as [s3'|];
    simpl in Hc; try contradiction; [|reflexivity].
  destruct Hc as (_ & Hd & _). rewrite Hd. reflexivity.
Qed.
