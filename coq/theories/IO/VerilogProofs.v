(* C05 proofs, part 1: every emitted assign means what the op table says. *)
From PyRTL Require Import Netlist.Sem Netlist.WFDefs IO.VerilogEmit.
From Coq Require Import ZifyBool.

Lemma mod_mod_pow2 x cw wd : 0 <= wd <= cw -> (x mod 2 ^ cw) mod 2 ^ wd = x mod 2 ^ wd.
Proof.
  intros H. apply Z.bits_inj'. intros i Hi.
  rewrite !testbit_mod_pow2 by lia.
  destruct (i <? wd) eqn:E; [|reflexivity].
  destruct (i <? cw) eqn:E2; [reflexivity|lia].
Qed.

Lemma max_ge_l a b : a <= Z.max a b. Proof. lia. Qed.

(* ---- concatenation ---- *)
Lemma cat_val_width_nonneg l : (forall p, In p l -> 0 <= snd p) -> 0 <= snd (cat_val l).
Proof.
  induction l as [|[v w] r IH]; intros H; simpl; [lia|].
  destruct (cat_val r) as [vr wr] eqn:E. simpl.
  assert (0 <= w) by (apply (H (v, w)); left; reflexivity).
  assert (0 <= wr) by (apply IH; intros p Hp; apply H; right; assumption). lia.
Qed.

Lemma cat_val_fold l : (forall p, In p l -> 0 <= snd p) -> forall acc,
  fold_left (fun acc vw => acc * 2 ^ (snd vw) + fst vw) l acc
  = acc * 2 ^ snd (cat_val l) + fst (cat_val l).
Proof.
  induction l as [|[v w] r IH]; intros H acc; simpl; [lia|].
  assert (Hw : 0 <= w) by (apply (H (v, w)); left; reflexivity).
  assert (Hr : forall p, In p r -> 0 <= snd p) by (intros p Hp; apply H; right; assumption).
  rewrite (IH Hr). pose proof (cat_val_width_nonneg r Hr) as Hwr.
  destruct (cat_val r) as [vr wr]. simpl in *.
  rewrite Z.pow_add_r by assumption. ring.
Qed.

Lemma cat_val_concat_spec l : (forall p, In p l -> 0 <= snd p) ->
  fst (cat_val l) = concat_spec l.
Proof.
  intros H. unfold concat_spec. rewrite (cat_val_fold l H 0). lia.
Qed.

(* ---- select ---- *)
Lemma cat_val_app1 l b : (forall p, In p l -> 0 <= snd p) ->
  cat_val (l ++ [(b, 1)]) = (2 * fst (cat_val l) + b, snd (cat_val l) + 1).
Proof.
  induction l as [|[v w] r IH]; intros H; [simpl; f_equal; lia|].
  assert (Hr : forall p, In p r -> 0 <= snd p) by (intros p Hp; apply H; right; assumption).
  change (((v, w) :: r) ++ [(b, 1)]) with ((v, w) :: (r ++ [(b, 1)])).
  cbn [cat_val]. rewrite (IH Hr). pose proof (cat_val_width_nonneg r Hr) as Hwr.
  destruct (cat_val r) as [vr wr]. cbn [fst snd] in *.
  f_equal; [|lia]. rewrite Z.pow_add_r by lia. change (2 ^ 1) with 2. ring.
Qed.

Lemma cat_val_select x idx :
  fst (cat_val (map (fun i => (b2z (Z.testbit x i), 1)) (rev idx))) = select_spec x idx.
Proof.
  induction idx as [|i r IH]; simpl; [reflexivity|].
  rewrite map_app. simpl. rewrite cat_val_app1.
  - simpl. rewrite IH. unfold select_spec. lia.
  - intros p Hp. apply in_map_iff in Hp. destruct Hp as [j [<- _]]. simpl. lia.
Qed.

(* ---- every op ---- *)
Section Assign.
Variable nl : netlist.
Variable env : Z -> Z.
Local Notation wd := (width_of nl).

Lemma vrules_parts n : vrules nl n = true ->
  0 <= wd (ndest n) /\ (forall a, In a (nargs n) -> 0 <= wd a)
  /\ match nop n with
     | OpNot => wd (ndest n) <= wd (arg n 0)
     | OpSelect idx => forall i, In i idx -> 0 <= i < wd (arg n 0)
     | _ => True
     end.
Proof.
  unfold vrules. intros H.
  apply andb_true_iff in H. destruct H as [H H3].
  apply andb_true_iff in H. destruct H as [H1 H2].
  split; [lia|]. split.
  - intros a Ha. rewrite forallb_forall in H2. specialize (H2 a Ha). lia.
  - destruct (nop n); try exact I.
    + lia.
    + intros i Hi. rewrite forallb_forall in H3. specialize (H3 i Hi). lia.
Qed.

(* generic in the width map wd' used on the Verilog side: it only has to agree
   with the netlist widths on the wires of this net (the module's declarations do) *)
Theorem assign_correct_gen wd' n e :
  (forall x, In x (ndest n :: nargs n) -> wd' x = wd x) ->
  emit_expr nl n = Some e ->
  vrules nl n = true ->
  (forall a, In a (nargs n) -> inrange (env a) (wd a)) ->
  exists r, op_spec (nop n) (argvals nl env n) = Some r
            /\ vassign wd' env (ndest n) e = r mod 2 ^ wd (ndest n).
Proof.
  intros Hwd He Hr Hin. destruct (vrules_parts n Hr) as [Hd [Hw Hop]].
  destruct n as [o args d]. unfold emit_expr in He. unfold argvals.
  cbn [nop nargs ndest] in *.
  assert (Hd' : wd' d = wd d) by (apply Hwd; left; reflexivity).
  assert (Ha' : forall a, In a args -> wd' a = wd a) by (intros a Ha; apply Hwd; right; assumption).
  destruct o.
  - (* w *) destruct args as [|a [|]]; try discriminate. injection He as <-.
    eexists; split; [reflexivity|]. unfold vassign. cbn [veval vwidth]. rewrite Hd'. reflexivity.
  - (* ~ *) destruct args as [|a [|]]; try discriminate. injection He as <-.
    eexists; split; [reflexivity|]. unfold vassign. cbn [veval vwidth].
    unfold arg in Hop. cbn [nargs nth] in Hop. rewrite Hd', (Ha' a) by (simpl; auto).
    rewrite Z.max_r by lia. reflexivity.
  - (* & *) destruct args as [|a [|b [|]]]; try discriminate. injection He as <-.
    eexists; split; [reflexivity|]. unfold vassign. cbn [veval vwidth bin_val]. rewrite Hd'. apply mod_mod_pow2; lia.
  - destruct args as [|a [|b [|]]]; try discriminate. injection He as <-.
    eexists; split; [reflexivity|]. unfold vassign. cbn [veval vwidth bin_val]. rewrite Hd'. apply mod_mod_pow2; lia.
  - destruct args as [|a [|b [|]]]; try discriminate. injection He as <-.
    eexists; split; [reflexivity|]. unfold vassign. cbn [veval vwidth bin_val]. rewrite Hd'. apply mod_mod_pow2; lia.
  - (* nand *) destruct args as [|a [|b [|]]]; discriminate.
  - (* + *) destruct args as [|a [|b [|]]]; try discriminate. injection He as <-.
    eexists; split; [reflexivity|]. unfold vassign. cbn [veval vwidth bin_val]. rewrite Hd'. apply mod_mod_pow2; lia.
  - (* - *) destruct args as [|a [|b [|]]]; try discriminate. injection He as <-.
    eexists; split; [reflexivity|]. unfold vassign. cbn [veval vwidth bin_val]. rewrite Hd'. apply mod_mod_pow2; lia.
  - (* * *) destruct args as [|a [|b [|]]]; try discriminate. injection He as <-.
    eexists; split; [reflexivity|]. unfold vassign. cbn [veval vwidth bin_val]. rewrite Hd'. apply mod_mod_pow2; lia.
  - (* < *) destruct args as [|a [|b [|]]]; try discriminate. injection He as <-.
    eexists; split; [reflexivity|]. unfold vassign. cbn [veval vwidth cmp_val map fst snd]. rewrite Hd'. reflexivity.
  - (* > *) destruct args as [|a [|b [|]]]; try discriminate. injection He as <-.
    eexists; split; [reflexivity|]. unfold vassign. cbn [veval vwidth cmp_val map fst snd].
    rewrite Z.gtb_ltb, Hd'. reflexivity.
  - (* == *) destruct args as [|a [|b [|]]]; try discriminate. injection He as <-.
    eexists; split; [reflexivity|]. unfold vassign. cbn [veval vwidth cmp_val map fst snd]. rewrite Hd'. reflexivity.
  - (* mux *) destruct args as [|s [|a [|b [|]]]]; try discriminate. injection He as <-.
    eexists; split; [reflexivity|]. unfold vassign. cbn [veval vwidth]. rewrite Hd'. reflexivity.
  - (* concat *) injection He as <-.
    eexists; split; [reflexivity|]. unfold vassign. cbn [veval vwidth].
    rewrite map_map. cbn [veval vwidth]. rewrite Hd'.
    rewrite (map_ext_in _ (fun a => (env a, wd a))).
    + rewrite cat_val_concat_spec; [reflexivity|].
      intros p Hp. apply in_map_iff in Hp. destruct Hp as [a [<- Ha]]. cbn [snd]. apply Hw. assumption.
    + intros a Ha. rewrite (Ha' a Ha). reflexivity.
  - (* select *) destruct args as [|a [|]]; try discriminate. injection He as <-.
    eexists; split; [reflexivity|]. unfold vassign. cbn [veval vwidth].
    rewrite map_map. unfold arg in Hop. cbn [nargs nth] in Hop. rewrite Hd'.
    rewrite (map_ext_in _ (fun i => (b2z (Z.testbit (env a) i), 1))).
    + rewrite cat_val_select. reflexivity.
    + intros i Hi. apply in_rev in Hi. specialize (Hop i Hi).
      destruct (1 <? wd a) eqn:E; cbn [veval vwidth]; [reflexivity|].
      assert (H : wd a = 1) by lia. assert (i = 0) by lia. subst i.
      assert (Ha : inrange (env a) (wd a)) by (apply Hin; left; reflexivity).
      rewrite (Ha' a) by (simpl; auto).
      rewrite H in *. unfold inrange in Ha. change (2 ^ 1) with 2 in Ha.
      assert (env a = 0 \/ env a = 1) as [->| ->] by lia; reflexivity.
  - (* r *) destruct args as [|a [|]]; discriminate.
  - destruct args as [|a [|]]; discriminate.
  - destruct args as [|a [|b [|c [|]]]]; discriminate.
Qed.

Theorem assign_correct n e :
  emit_expr nl n = Some e ->
  vrules nl n = true ->
  (forall a, In a (nargs n) -> inrange (env a) (wd a)) ->
  exists r, op_spec (nop n) (argvals nl env n) = Some r
            /\ vassign wd env (ndest n) e = r mod 2 ^ wd (ndest n).
Proof. apply assign_correct_gen. reflexivity. Qed.

End Assign.
