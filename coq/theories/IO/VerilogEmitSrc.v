(* C05 -- bridge between the hand-written emitter model (IO/VerilogEmit.v: the tables
   emitted_ok is built from) and the tables REGENERATED from the source by
   py/genfrag_C05.py (Gen/C05Emit.v: symbolic execution of the loop bodies of
   _to_verilog_combinational / _sequential / _memories).  Re-checked on every run: an
   edit of the emitter that changes what a loop body prints for some op changes the
   generated table and breaks these proofs. *)
From PyRTL Require Import Netlist.Sem Netlist.WFDefs IO.VerilogEmit IO.VerilogProofs Gen.C05Emit.

(* Register.reset_value of the register wire r *)
Definition reg_reset (nl : netlist) (r : wid) : option Z :=
  match kind_of nl r with KReg rv => rv | _ => None end.

Lemma gen_emit_expr_eq nl n : gen_emit_expr nl n = emit_expr nl n.
Proof.
  destruct n as [o args d]. unfold gen_emit_expr, emit_expr. cbn [nop nargs].
  destruct o; destruct args as [|a [|b [|c [|e r]]]]; reflexivity.
Qed.

Lemma gen_const_expr_eq c : gen_const_expr c = VDec c.
Proof. reflexivity. Qed.

Lemma gen_reset_expr_eq nl r : gen_reset_expr (reg_reset nl r) = VDec (reset_of nl r).
Proof.
  unfold gen_reset_expr, reg_reset, reset_of. destruct (kind_of nl r) as [| | | |[v|]]; reflexivity.
Qed.

Lemma gen_updates_eq nl :
  expected_updates nl = map (fun n => (ndest n, gen_update_expr n)) (filter is_regnet (nets nl)).
Proof. reflexivity. Qed.

Lemma gen_resets_eq nl mode : mode <> RNone ->
  expected_resets nl mode
  = map (fun n => (ndest n, gen_reset_expr (reg_reset nl (ndest n)))) (filter is_regnet (nets nl)).
Proof.
  intros H. unfold expected_resets.
  destruct mode; [contradiction| |]; apply map_ext; intros n; rewrite gen_reset_expr_eq; reflexivity.
Qed.

Lemma gen_writes_eq nl mm :
  expected_writes nl mm = map gen_memwrite (filter (writes_to mm) (nets nl)).
Proof. reflexivity. Qed.

Lemma gen_memread_eq n : gen_memread_addr n = arg n 0.
Proof. reflexivity. Qed.

Theorem model_tables_match_source :
  (forall nl n, emit_expr nl n = gen_emit_expr nl n)
  /\ (forall c, VDec c = gen_const_expr c)
  /\ (forall nl, expected_updates nl
                 = map (fun n => (ndest n, gen_update_expr n)) (filter is_regnet (nets nl)))
  /\ (forall nl mode, mode <> RNone ->
        expected_resets nl mode
        = map (fun n => (ndest n, gen_reset_expr (reg_reset nl (ndest n)))) (filter is_regnet (nets nl)))
  /\ (forall nl mm, expected_writes nl mm = map gen_memwrite (filter (writes_to mm) (nets nl)))
  /\ (forall n, arg n 0 = gen_memread_addr n).
Proof.
  split; [intros; symmetry; apply gen_emit_expr_eq|].
  split; [reflexivity|].
  split; [apply gen_updates_eq|].
  split; [apply gen_resets_eq|].
  split; [apply gen_writes_eq|reflexivity].
Qed.

(* the per-op theorem, about the table read from the source *)
Theorem assign_correct_src nl env n e :
  gen_emit_expr nl n = Some e ->
  vrules nl n = true ->
  (forall a, In a (nargs n) -> inrange (env a) (width_of nl a)) ->
  exists r, op_spec (nop n) (argvals nl env n) = Some r
            /\ vassign (width_of nl) env (ndest n) e = r mod 2 ^ width_of nl (ndest n).
Proof. rewrite gen_emit_expr_eq. apply assign_correct. Qed.
