(* Meaning of the Verilog subset of IO/VerilogSyn.v (TRUSTED: my reading of
   IEEE 1364-2001 for exactly this subset; there is no Verilog simulator in the
   sandbox, so this file IS the "independent evaluator of the emitted text").

   Expression sizing (IEEE 1364-2001 section 4.4/4.5, table 4-21):
   * self-determined width L(e):  identifier = declared width; bit-select = 1;
     sized literal = its size; unsized decimal literal = at least 32 bits;
     ~a : L(a);  a op b (op in + - * & | ^) : max(L(a),L(b));
     a < b, a > b, a == b : 1 (operands sized to max(L(a),L(b)));
     c ? t : f : max(L(t),L(f)) (c self-determined);
     {e1,...,ek} : L(e1)+...+L(ek) (all operands self-determined).
   * in `lhs = e` (continuous or non-blocking) the context width is
     cw = max(L(lhs), L(e)); it is propagated down to every context-determined
     operand; operands are extended to cw BEFORE the operator is applied
     (zero-extension: every identifier the emitter declares is unsigned);
     the cw-bit result is truncated to L(lhs).
   * every value is a natural number < 2^width; zero-extension therefore leaves
     the number unchanged and only operators that can leave [0,2^cw) reduce
     mod 2^cw (+ - * ~).  Invariant: cw >= L(e) at every context-determined
     position, so no leaf is ever truncated by its context.
   * unsized decimal literals are signed 32-bit in the standard; the emitter
     writes them only as the whole right-hand side (constants, reset values) and
     only non-negative.  Below 2^31 sign- and zero-extension agree.  For
     literals >= 2^31 the standard leaves the width implementation-defined
     (>= 32 bits); they are given their mathematical value here (ASSUMPTION
     recorded in py/checks/C05.py, an observation rather than a violation).
   * x/z values are not modelled: registers and memories start from given
     values (the property's hypothesis), every wire is driven. *)
From PyRTL Require Export IO.VerilogSyn.

Definition bin_val (o : vbinop) (a b : Z) : Z :=
  match o with
  | BAnd => Z.land a b | BOr => Z.lor a b | BXor => Z.lxor a b
  | BAdd => a + b | BSub => a - b | BMul => a * b
  end.

Definition cmp_val (o : vcmpop) (a b : Z) : bool :=
  match o with CLt => a <? b | CGt => b <? a | CEq => a =? b end.

(* {v1,...,vk} from (value, width) pairs, first most significant: (value, total width) *)
Fixpoint cat_val (l : list (Z * Z)) : Z * Z :=
  match l with
  | [] => (0, 0)
  | (v, w) :: r => let '(vr, wr) := cat_val r in (v * 2 ^ wr + vr, w + wr)
  end.

Section Expr.
Variable wd : Z -> Z.      (* declared width of each identifier *)
Variable env : Z -> Z.     (* current value of each identifier, in [0, 2^wd x) *)

(* self-determined width *)
Fixpoint vwidth (e : vexpr) : Z :=
  match e with
  | VId x => wd x
  | VBit _ _ => 1
  | VDec v => Z.max 32 (Z.log2 v + 1)
  | VSized w _ => w
  | VNot a => vwidth a
  | VBin _ a b => Z.max (vwidth a) (vwidth b)
  | VCmp _ _ _ => 1
  | VCond _ t f => Z.max (vwidth t) (vwidth f)
  | VCat es => fold_right (fun x acc => vwidth x + acc) 0 es
  end.

(* value of e evaluated at context width cw (cw >= vwidth e) *)
Fixpoint veval (cw : Z) (e : vexpr) : Z :=
  match e with
  | VId x => env x
  | VBit x i => b2z (Z.testbit (env x) i)
  | VDec v => v
  | VSized w v => v mod 2 ^ w
  | VNot a => 2 ^ cw - 1 - veval cw a
  | VBin o a b => bin_val o (veval cw a) (veval cw b) mod 2 ^ cw
  | VCmp o a b => let w := Z.max (vwidth a) (vwidth b) in
                  b2z (cmp_val o (veval w a) (veval w b))
  | VCond c t f => if veval (vwidth c) c =? 0 then veval cw f else veval cw t
  | VCat es => fst (cat_val (map (fun x => (veval (vwidth x) x, vwidth x)) es))
  end.

(* the value stored into lhs by `assign lhs = e;` / `lhs <= e;` *)
Definition vassign (lhs : Z) (e : vexpr) : Z :=
  veval (Z.max (wd lhs) (vwidth e)) e mod 2 ^ wd lhs.

End Expr.

(* ---- clocked semantics of a module ---------------------------------------- *)

Record vstate := mkVState {
  vregs : Z -> Z;            (* current value of each `reg` identifier *)
  vmems : Z -> Z -> Z        (* mem_<m>[a] *)
}.

Definition memwidth (m : vmodule) (mm : Z) : Z :=
  match find (fun p => fst p =? mm) (m_mems m) with
  | Some (_, (w, _)) => w
  | None => 0
  end.

Definition declared_in (l : list (Z * Z)) (x : Z) : bool :=
  match assoc l x with Some _ => true | None => false end.

(* Between clock edges the continuous assignments hold simultaneously: [env] is
   a settled valuation for state [st] and input values [ins]. *)
Definition settled (m : vmodule) (st : vstate) (ins : Z -> Z) (env : Z -> Z) : Prop :=
  (forall x, declared_in (m_inputs m) x = true -> env x = ins x)
  /\ (forall x, declared_in (m_regs m) x = true -> env x = vregs st x)
  /\ (forall x e, In (x, e) (m_assigns m) -> env x = vassign (dwidth m) env x e)
  /\ (forall x mm a, In (x, (mm, a)) (m_memrds m) ->
        env x = vmems st mm (env a) mod 2 ^ dwidth m x).

(* posedge: every right-hand side is sampled from the settled pre-edge
   valuation (non-blocking assignment); later assignments to the same target in
   the same block win.  [rst] is the level of the rst input at the edge. *)
Definition nb_assign (m : vmodule) (env : Z -> Z) (rg : Z -> Z) (a : Z * vexpr) : Z -> Z :=
  upd rg (fst a) (vassign (dwidth m) env (fst a) (snd a)).

Definition nb_memwrite (m : vmodule) (env : Z -> Z) (mm : Z) (ms : Z -> Z -> Z)
           (w : vmemwrite) : Z -> Z -> Z :=
  if env (vw_en w) =? 0 then ms
  else upd ms mm (upd (ms mm) (env (vw_addr w)) (env (vw_data w) mod 2 ^ memwidth m mm)).

Definition reg_block (m : vmodule) (rst : bool) : list (Z * vexpr) :=
  match m_mode m with
  | RNone => m_updates m
  | _ => if rst then m_resets m else m_updates m
  end.

Definition vedge (m : vmodule) (rst : bool) (env : Z -> Z) (st : vstate) : vstate :=
  {| vregs := fold_left (nb_assign m env) (reg_block m rst) (vregs st);
     vmems := fold_left (fun ms blk => fold_left (nb_memwrite m env (fst blk)) (snd blk) ms)
                        (m_memwrs m) (vmems st) |}.

(* A run: one settled valuation per cycle, an edge between consecutive cycles.
   (`always @(posedge clk or posedge rst)` additionally executes the same block
   when rst rises between clock edges; with rst constant that never happens,
   and with rst high at a clock edge the block takes the reset branch in both
   modes, which is what [reg_block] says.) *)
Fixpoint vtrace (m : vmodule) (st : vstate) (stim : list ((Z -> Z) * bool))
         (envs : list (Z -> Z)) : Prop :=
  match stim, envs with
  | [], [] => True
  | (ins, rst) :: stim', env :: envs' =>
      settled m st ins env /\ vtrace m (vedge m rst env st) stim' envs'
  | _, _ => False
  end.

(* ROM `initial` blocks: mem_<m>[a] = lit  (truncated to the word width) *)
Definition vinit_mems (m : vmodule) (given : Z -> Z -> Z) : Z -> Z -> Z :=
  fun mm a =>
    match find (fun p => fst p =? mm) (m_roms m) with
    | Some (_, tab) =>
        match find (fun p => fst p =? a) tab with
        | Some (_, lit) => veval (fun _ => 0) (fun _ => 0) (memwidth m mm) lit mod 2 ^ memwidth m mm
        | None => 0    (* x in Verilog; the emitter lists every address *)
        end
    | None => given mm a
    end.

(* ---- executable settling (used by the search) --------------------------------
   The harness supplies an evaluation order for the left-hand sides (a HINT,
   e.g. a dependency order); the candidate valuation it produces is accepted
   only if every equation of [settled] is then CHECKED to hold. *)

Definition base_env (m : vmodule) (st : vstate) (ins : Z -> Z) : Z -> Z :=
  fun x => if declared_in (m_inputs m) x then ins x
           else if declared_in (m_regs m) x then vregs st x else 0.

Definition eval_item (m : vmodule) (st : vstate) (env : Z -> Z) (x : Z) : Z -> Z :=
  match find (fun a => fst a =? x) (m_assigns m) with
  | Some (_, e) => upd env x (vassign (dwidth m) env x e)
  | None =>
      match find (fun r => fst r =? x) (m_memrds m) with
      | Some (_, (mm, a)) => upd env x (vmems st mm (env a) mod 2 ^ dwidth m x)
      | None => env
      end
  end.

Definition settledb (m : vmodule) (st : vstate) (ins : Z -> Z) (env : Z -> Z) : bool :=
  forallb (fun d => env (fst d) =? ins (fst d)) (m_inputs m)
  && forallb (fun d => env (fst d) =? vregs st (fst d)) (m_regs m)
  && forallb (fun a => env (fst a) =? vassign (dwidth m) env (fst a) (snd a)) (m_assigns m)
  && forallb (fun r => let '(x, (mm, a)) := r in
                       env x =? vmems st mm (env a) mod 2 ^ dwidth m x) (m_memrds m).

Definition settle (m : vmodule) (order : list Z) (st : vstate) (ins : Z -> Z) : (Z -> Z) * bool :=
  let env := fold_left (eval_item m st) order (base_env m st ins) in
  (env, settledb m st ins env).

Fixpoint vrun (m : vmodule) (order : list Z) (st : vstate) (stim : list ((Z -> Z) * bool))
  : list ((Z -> Z) * bool) * vstate :=
  match stim with
  | [] => ([], st)
  | (ins, rst) :: rest =>
      let '(env, ok) := settle m order st ins in
      let '(tr, st') := vrun m order (vedge m rst env st) rest in
      ((env, ok) :: tr, st')
  end.
