(* C20 -- model of the ordering machinery every PyRTL exporter relies on.
   DEFINITIONS ONLY (evaluated by py/checks/C20.py); proofs are in NatSortProofs.v.

   Source modelled (pyrtl/importexport.py:26-51, pyrtl/simulation.py:1402-1408):

     def _natural_sort_key(key):
         def convert(text): return int(text) if text.isdigit() else text
         return [convert(c) for c in re.split(r'(\d+)', key)]
     _name_sorted(wires, name_mapper) = sorted(wires, key=lambda w: _natural_sort_key(name_mapper(w)))
     _trace_sort_key(w) = [tryint(c) for c in re.split('([0-9]+)', w)]

   Names are ASCII strings = `list ascii` (`name`); Python str comparison = code
   point lexicographic; Python list comparison = lexicographic with the element
   comparison; `sorted(key=)` = THE stable sort (insertion sort below; uniqueness of
   the stable sorted arrangement is proved in NatSortProofs.v). *)
From Coq Require Import String Ascii List NArith ZArith Bool.
Import ListNotations.
Open Scope N_scope.

Definition name := list ascii.
Definition nm (s : string) : name := list_ascii_of_string s.

Definition code (c : ascii) : N := N_of_ascii c.
Definition is_digit (c : ascii) : bool := (48 <=? code c) && (code c <=? 57).
Definition digit_val (c : ascii) : N := code c - 48.

(* int(text) for a run of ASCII digits, most significant first *)
Definition digits_val (ds : list ascii) : N :=
  fold_left (fun acc c => 10 * acc + digit_val c) ds 0.

(* maximal runs of digits / non-digits, tagged (true = digit run) *)
Fixpoint chunks (l : list ascii) : list (bool * list ascii) :=
  match l with
  | [] => []
  | c :: r =>
      match chunks r with
      | (b, run) :: rest =>
          if Bool.eqb b (is_digit c) then (b, c :: run) :: rest
          else (is_digit c, [c]) :: (b, run) :: rest
      | [] => [(is_digit c, [c])]
      end
  end.

(* one element of the key list: a str or an int *)
Inductive tok := TS (s : list ascii) | TN (n : N).

Definition tok_of_chunk (c : bool * list ascii) : tok :=
  if fst c then TN (digits_val (snd c)) else TS (snd c).

(* re.split with a capturing group always yields text, digits, text, ..., text:
   an empty text piece appears in front of a leading digit run, after a trailing
   one, and alone for the empty string. *)
Definition pad_front (l : list tok) : list tok :=
  match l with TS _ :: _ => l | _ => TS [] :: l end.
Definition pad_back (l : list tok) : list tok :=
  match rev l with TN _ :: _ => l ++ [TS []] | _ => l end.

Definition natural_key (s : name) : list tok :=
  pad_back (pad_front (map tok_of_chunk (chunks s))).

(* ---- comparisons ---- *)
Fixpoint lex_cmp {A : Type} (cmp : A -> A -> comparison) (l1 l2 : list A) : comparison :=
  match l1, l2 with
  | [], [] => Eq
  | [], _ :: _ => Lt
  | _ :: _, [] => Gt
  | a :: r1, b :: r2 => match cmp a b with Eq => lex_cmp cmp r1 r2 | c => c end
  end.

Definition ascii_cmp (a b : ascii) : comparison := N.compare (code a) (code b).
Definition str_cmp : name -> name -> comparison := lex_cmp ascii_cmp.

(* str vs int never happens between two natural keys (they alternate in lock
   step: NatSortProofs.natural_key_alternates); the model makes the comparison
   total by an arbitrary convention there. *)
Definition tok_cmp (t1 t2 : tok) : comparison :=
  match t1, t2 with
  | TS a, TS b => str_cmp a b
  | TN a, TN b => N.compare a b
  | TS _, TN _ => Lt
  | TN _, TS _ => Gt
  end.

Definition key_cmp : list tok -> list tok -> comparison := lex_cmp tok_cmp.

Definition ltb_of {K : Type} (cmp : K -> K -> comparison) (a b : K) : bool :=
  match cmp a b with Lt => true | _ => false end.

Definition key_ltb := ltb_of key_cmp.
Definition str_ltb := ltb_of str_cmp.

(* the repaired key (F16): the tuple (natural key, raw name) *)
Definition key2 := (list tok * name)%type.
Definition pair_cmp {A B : Type} (ca : A -> A -> comparison) (cb : B -> B -> comparison)
  (x y : A * B) : comparison :=
  match ca (fst x) (fst y) with Eq => cb (snd x) (snd y) | c => c end.
Definition natural_key_tb (s : name) : key2 := (natural_key s, s).
Definition key2_cmp : key2 -> key2 -> comparison := pair_cmp key_cmp str_cmp.
Definition key2_ltb := ltb_of key2_cmp.

(* ---- sorted(items, key=...) : stable insertion sort ---- *)
Section SortBy.
  Context {A K : Type} (key : A -> K) (ltb : K -> K -> bool).
  Fixpoint insert (x : A) (l : list A) : list A :=
    match l with
    | [] => [x]
    | y :: r => if ltb (key y) (key x) then y :: insert x r else x :: y :: r
    end.
  Definition sort_by (l : list A) : list A := fold_right insert [] l.
End SortBy.

(* absence of a digit run with a superfluous leading zero ("x01", "a007b") *)
Definition run_ok (c : bool * list ascii) : bool :=
  negb (fst c) ||
  match snd c with
  | d :: _ :: _ => negb (N.eqb (code d) 48)
  | _ => true
  end.
Definition no_leading_zero (s : name) : bool := forallb run_ok (chunks s).

(* ---- encodings used by the harness (results must print as lists of Z) ---- *)
Definition tok_codes (t : tok) : list Z :=
  match t with
  | TS s => 0%Z :: map (fun c => Z.of_N (code c)) s
  | TN n => [1%Z; Z.of_N n]
  end.
Definition name_of_codes (l : list Z) : name := map (fun z => ascii_of_N (Z.to_N z)) l.
