(* C05 -- theorems about the sanitizer model, for ALL parameter values satisfying
   the stated (decidable) side conditions; Props/C05.v instantiates them with the
   parameters regenerated from the source. *)
From Coq Require Import String Ascii List NArith ZArith Bool Lia Permutation DecimalString.
From PyRTL Require Import IO.NatSort IO.NatSortProofs IO.Determinism IO.DeterminismProofs
  IO.DeterminismInj IO.VerilogSanitizer.
Import ListNotations.

(* ---- presentation order ---- *)
Lemma present_perm names : Permutation (present_sorted names) names.
Proof. unfold present_sorted. apply sort_by_perm. Qed.

Lemma present_in names a : In a names -> In a (present_sorted names).
Proof. intros H. eapply Permutation_in; [apply Permutation_sym; apply present_perm|exact H]. Qed.

Lemma present_nodup names : NoDup names -> NoDup (present_sorted names).
Proof. intros H. eapply Permutation_NoDup; [apply Permutation_sym; apply present_perm|exact H]. Qed.

(* ---- str(i) consists of digits ---- *)
Lemma string_of_uint_digits d :
  forallb is_digit (list_ascii_of_string (NilZero.string_of_uint d)) = true.
Proof.
  assert (H : forall u, forallb is_digit (list_ascii_of_string (NilEmpty.string_of_uint u)) = true).
  { induction u; simpl; auto. }
  destruct d; simpl; auto; apply H.
Qed.

Lemma dec_digits k : forallb is_digit (dec k) = true.
Proof. unfold dec. apply string_of_uint_digits. Qed.

(* ---- prefixes ---- *)
Lemma has_prefix_app_l : forall p s x, (length p <= length s)%nat ->
  has_prefix p (s ++ x) = has_prefix p s.
Proof.
  induction p as [|a p IH]; intros s x H; [reflexivity|].
  destruct s as [|b s]; [simpl in H; lia|]. simpl. rewrite IH by (simpl in H; lia). reflexivity.
Qed.

(* ---- character classes over the 256 bytes ---- *)
Lemma class_subset_spec r1 r2 : class_subset r1 r2 = true ->
  forall c, in_ranges r1 c = true -> in_ranges r2 c = true.
Proof.
  unfold class_subset. intros H c Hc. rewrite forallb_forall in H.
  assert (Hin : In (N_of_ascii c) all_bytes).
  { unfold all_bytes. apply in_map_iff. exists (N.to_nat (N_of_ascii c)). split; [lia|].
    apply in_seq. pose proof (N_ascii_bounded c). lia. }
  specialize (H _ Hin). rewrite ascii_N_embedding in H. rewrite Hc in H. exact H.
Qed.

Lemma ident_body_mono s1 b1 s2 b2 v :
  (forall c, in_ranges s1 c = true -> in_ranges s2 c = true) ->
  (forall c, in_ranges b1 c = true -> in_ranges b2 c = true) ->
  ident_body s1 b1 v = true -> ident_body s2 b2 v = true.
Proof.
  intros Hs Hb. unfold ident_body. destruct v as [|c r]; [discriminate|].
  intros H. apply andb_true_iff in H. destruct H as [H1 H2]. apply andb_true_iff. split; [auto|].
  rewrite forallb_forall in *. intros x Hx. auto.
Qed.

Lemma ident_body_app st bd p x :
  ident_body st bd p = true -> forallb (in_ranges bd) x = true -> ident_body st bd (p ++ x) = true.
Proof.
  unfold ident_body. destruct p as [|c r]; [discriminate|]. simpl.
  intros H Hx. apply andb_true_iff in H. destruct H as [H1 H2]. rewrite H1. simpl.
  rewrite forallb_app, H2, Hx. reflexivity.
Qed.

Lemma no_newline_strip s : has_newline s = false -> strip_final_newline s = s.
Proof.
  unfold strip_final_newline, has_newline. intros H.
  destruct (rev s) as [|c r] eqn:E; [reflexivity|].
  destruct (code c =? 10)%N eqn:Ec; [|reflexivity].
  exfalso. assert (Hin : In c s) by (apply in_rev; rewrite E; left; reflexivity).
  assert (existsb (fun c => (code c =? 10)%N) s = true) by (apply existsb_exists; exists c; auto).
  congruence.
Qed.

Lemma existsb_name_eqb_in v l : existsb (name_eqb v) l = true <-> In v l.
Proof.
  rewrite existsb_exists. split.
  - intros [x [Hin He]]. apply name_eqb_eq in He. subst. assumption.
  - intros H. exists v. split; [assumption|]. apply name_eqb_eq. reflexivity.
Qed.

Lemma not_in_sub v sub sup :
  forallb (fun k => existsb (name_eqb k) sup) sub = true ->
  existsb (name_eqb v) sup = false -> existsb (name_eqb v) sub = false.
Proof.
  intros Hsub Hv. destruct (existsb (name_eqb v) sub) eqn:E; [|reflexivity].
  apply existsb_name_eqb_in in E. rewrite forallb_forall in Hsub. specialize (Hsub v E).
  congruence.
Qed.

Section San.
Variable P : sparams.
Variable names : list name.

Lemma valid_parts a : sp_valid P a = true ->
  (if sp_strict P then ident_body (sp_start P) (sp_body P) a
   else matches_ident (sp_start P) (sp_body P) a) = true
  /\ existsb (name_eqb a) (sp_reserved P) = false
  /\ existsb (name_eqb a) (sp_forbidden P) = false
  /\ (sp_check_prefix P = true -> has_prefix (sp_prefix P) a = false)
  /\ existsb (fun l => matches_lit_digits l a) (sp_patterns P) = false
  /\ (forall n, sp_max_len P = Some n -> (N.of_nat (length a) <= n)%N)
  /\ (sp_no_newline P = true -> has_newline a = false).
Proof.
  unfold sp_valid. intros H.
  repeat (apply andb_true_iff in H; destruct H as [H ?]).
  repeat split; try assumption.
  - apply negb_true_iff. assumption.
  - apply negb_true_iff. assumption.
  - intros Hc. rewrite Hc in *. apply negb_true_iff. assumption.
  - apply negb_true_iff. assumption.
  - intros n Hn. rewrite Hn in *. apply N.leb_le. assumption.
  - intros Hc. rewrite Hc in *. apply negb_true_iff. assumption.
Qed.

(* (1) names that need no sanitising are unchanged *)
Theorem kept_unchanged a : sp_valid P a = true -> sp_name P names a = a.
Proof. intros H. unfold sp_name, sp_map, sanitize_all. apply varname_valid. exact H. Qed.

(* every other name of the block gets prefix ++ str(i) *)
Theorem replaced_generated a : In a names -> sp_valid P a = false ->
  exists i, sp_name P names a = (sp_prefix P ++ dec i)%list.
Proof.
  intros Hin Hv. unfold sp_name, sp_map, sanitize_all.
  destruct (varname_invalid_range (sp_valid P) (sp_prefix P) (present_sorted names) 0%N a
              (present_in names a Hin) Hv) as [i [_ Hi]].
  exists i. exact Hi.
Qed.

(* (2) no two wires get one identifier *)
Theorem sanitizer_injective : sp_check_prefix P = true -> NoDup names ->
  forall a b, In a names -> In b names -> sp_name P names a = sp_name P names b -> a = b.
Proof.
  intros Hcp Hnd a b Ha Hb E.
  destruct (sp_valid P a) eqn:Va; destruct (sp_valid P b) eqn:Vb.
  - rewrite !kept_unchanged in E by assumption. exact E.
  - rewrite kept_unchanged in E by assumption.
    destruct (replaced_generated b Hb Vb) as [i Hi]. rewrite Hi in E.
    destruct (valid_parts a Va) as [_ [_ [_ [Hp _]]]]. specialize (Hp Hcp).
    rewrite E, has_prefix_app in Hp. discriminate.
  - rewrite (kept_unchanged b Vb) in E.
    destruct (replaced_generated a Ha Va) as [i Hi]. rewrite Hi in E.
    destruct (valid_parts b Vb) as [_ [_ [_ [Hp _]]]]. specialize (Hp Hcp).
    rewrite <- E, has_prefix_app in Hp. discriminate.
  - unfold sp_name, sp_map, sanitize_all in E.
    eapply (sanitize_inj_invalid (sp_valid P) (sp_prefix P) (present_sorted names) 0%N);
      eauto using present_nodup, present_in.
Qed.

(* (3) every identifier written is legal *)
Theorem sanitizer_outputs_legal : params_legal P = true ->
  forall a, In a names ->
  legal_ident (sp_name P names a) = true
  /\ (sp_valid P a = true -> forall n, sp_max_len P = Some n ->
        (N.of_nat (length (sp_name P names a)) <= n)%N).
Proof.
  unfold params_legal. intros HP a Ha.
  repeat (apply andb_true_iff in HP; destruct HP as [HP ?]).
  rename HP into Hstrict, H into Hlen, H0 into Hmemp, H1 into Hpk, H2 into Hpid, H3 into Hmem,
         H4 into Hown, H5 into Hkw, H6 into Hbody, H7 into Hstart.
  pose proof (class_subset_spec _ _ Hstart) as Hs. pose proof (class_subset_spec _ _ Hbody) as Hb.
  destruct (sp_valid P a) eqn:Va.
  - rewrite (kept_unchanged a Va).
    destruct (valid_parts a Va) as [Hid [Hres [Hforb [_ [Hpat [Hl Hnl]]]]]].
    split; [|intros _ n Hn; apply Hl; exact Hn].
    unfold legal_ident. repeat (apply andb_true_iff; split).
    + apply (ident_body_mono _ _ _ _ a Hs Hb).
      destruct (sp_strict P) eqn:Est; [exact Hid|].
      simpl in Hstrict. specialize (Hnl Hstrict).
      unfold matches_ident in Hid. rewrite (no_newline_strip a Hnl) in Hid.
      destruct (ident_body (sp_start P) (sp_body P) a); [reflexivity|discriminate].
    + apply negb_true_iff. apply (not_in_sub a _ _ Hkw Hres).
    + apply negb_true_iff. apply (not_in_sub a _ _ Hown Hforb).
    + apply negb_true_iff.
      apply existsb_name_eqb_in in Hmem.
      destruct (lit_digits_body mem_lit a) eqn:E; [|reflexivity].
      assert (existsb (fun l => matches_lit_digits l a) (sp_patterns P) = true); [|congruence].
      apply existsb_exists. exists mem_lit. split; [assumption|].
      unfold matches_lit_digits. rewrite E. reflexivity.
  - split; [|discriminate].
    destruct (replaced_generated a Ha Va) as [i ->].
    assert (Hpre : has_prefix (sp_prefix P) (sp_prefix P ++ dec i) = true) by apply has_prefix_app.
    assert (Hnot : forall l, forallb (fun k => negb (has_prefix (sp_prefix P) k)) l = true ->
                   existsb (name_eqb (sp_prefix P ++ dec i)%list) l = false).
    { intros l Hl. destruct (existsb (name_eqb (sp_prefix P ++ dec i)%list) l) eqn:E; [|reflexivity].
      apply existsb_name_eqb_in in E. rewrite forallb_forall in Hl. specialize (Hl _ E).
      rewrite Hpre in Hl. discriminate. }
    rewrite forallb_app in Hpk. apply andb_true_iff in Hpk. destruct Hpk as [Hpk1 Hpk2].
    unfold legal_ident. repeat (apply andb_true_iff; split).
    + apply ident_body_app; [exact Hpid|].
      pose proof (dec_digits i) as Hd. rewrite forallb_forall in *. intros c Hc.
      specialize (Hd c Hc). unfold is_digit in Hd. unfold in_ranges, v2001_body. simpl.
      apply andb_true_iff in Hd. destruct Hd as [Hd1 Hd2].
      rewrite Hd1, Hd2. simpl. rewrite !orb_true_r. reflexivity.
    + apply negb_true_iff. apply Hnot. exact Hpk1.
    + apply negb_true_iff. apply Hnot. exact Hpk2.
    + apply negb_true_iff. unfold lit_digits_body.
      rewrite has_prefix_app_l by (apply Nat.leb_le; exact Hlen).
      apply negb_true_iff in Hmemp. rewrite Hmemp. reflexivity.
Qed.

End San.
