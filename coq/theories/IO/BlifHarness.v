(* C12 -- entry points evaluated by py/checks/C12.py with vm_compute.
   Definitions only; depends on no proof file. *)
From Coq Require Import ZArith List Bool String.
From PyRTL Require Import IO.BlifSyntax IO.BlifSem Gen.BlifTables Gen.BlifNames IO.BlifImport IO.BlifLow IO.Iscas.
Import ListNotations.
Open Scope Z_scope.

(* port values -> per-bit input valuation.  A port is the list of its bit
   signals, least significant first (a scalar port is a singleton). *)
Fixpoint port_bits (g : list sig) (v : Z) (i : nat) : list (sig * bool) :=
  match g with
  | [] => []
  | s :: r => (s, vec_bit v i) :: port_bits r v (S i)
  end.

Fixpoint ins_of_ports (groups : list (list sig)) (vals : list Z) : list (sig * bool) :=
  match groups, vals with
  | g :: gr, v :: vr => (port_bits g v 0 ++ ins_of_ports gr vr)%list
  | _, _ => []
  end.

(* per-bit outputs -> port values; a port is the list of positions of its bits
   in the model's output list, least significant first *)
Definition merge_outs (ogroups : list (list nat)) (outs : list bool) : list Z :=
  map (fun g => vec_merge (map (fun i => nth i outs false) g)) ogroups.

Definition cmd_state_sigs (c : command) : list sig :=
  match c with
  | Latch d _ _ => [d]
  | Flop _ d q e s r =>
      let o := fun x : option sig => match x with Some y => [y] | None => [] end in
      (d :: q :: o e ++ o s ++ o r)%list
  | _ => []
  end.

Definition blif_all_def (fuel : nat) (m : model) : bool :=
  forallb (blif_def fuel m) (moutputs m ++ flat_map cmd_state_sigs (mcmds m))%list.

Definition c_all_def (fuel : nat) (c : circuit) : bool :=
  forallb (c_def fuel c) (c_outputs c)
  && forallb (fun p => match p with
                       | (_, DReg n _) => forallb (c_def fuel c) (bvars n)
                       | _ => true
                       end) (c_drv c).

(* BLIF: (specification side, importer-model side); each is
   Some (everything determined within the fuel?, per-cycle port values) *)
Definition blif_case (fuel : nat) (lib : list (Z * model)) (top : model)
           (igroups : list (list sig)) (ogroups : list (list nat)) (inss : list (list Z))
  : option (bool * list (list Z)) * option (bool * list (list Z)) :=
  let fi := map (fun vs => slookup (ins_of_ports igroups vs)) inss in
  (match flatten_model fuel lib top with
   | Some fm => Some (blif_all_def fuel fm,
                      map (merge_outs ogroups) (blif_run fuel fm (blif_init0 fm) fi))
   | None => None
   end,
   match import_blif fuel lib top with
   | Some c => Some (c_all_def fuel c, map (merge_outs ogroups) (c_run fuel c (c_init c) fi))
   | None => None
   end).

(* the same case through the name-resolution model (IO/BlifLow.v): the block over numbered wires.
   rn: per model id, the pairs (Q, X) of nets such that name(X) = name(Q) ++ reg_suffix *)
Definition blif_case3 (fuel : nat) (lib : list (Z * model)) (tid : Z) (rn : list (Z * list (sig * sig)))
           (top : model) (igroups : list (list sig)) (ogroups : list (list nat)) (inss : list (list Z))
  : option (bool * list (list Z)) * option (bool * list (list Z)) * option (bool * list (list Z)) :=
  (blif_case fuel lib top igroups ogroups inss,
   match low_import fuel (regname_of rn) lib tid top with
   | Some c =>
       let fi := map (fun vs =>
                        let nv := ins_of_ports igroups vs in
                        slookup (map (fun p => (snd p, slookup nv (fst p)))
                                     (combine (minputs top) (c_inputs c)))) inss in
       let f3 := (3 * fuel + 6)%nat in
       Some (c_all_def f3 c, map (merge_outs ogroups) (c_run f3 c (c_init c) fi))
   | None => None
   end).

(* specification side only (still evaluable when Gen/BlifTables.v is broken:
   needs IO.BlifSem alone, see BlifSpecHarness below) *)

Definition b2z_row (l : list bool) : list Z := map Z.b2z l.

(* ISCAS: inputs / outputs are scalars *)
Definition bench_case (fuel : nat) (b : bench) (inss : list (list Z))
  : (bool * list (list Z)) * option (bool * list (list Z)) :=
  let igroups := map (fun s => [s]) (b_inputs b) in
  let fi := map (fun vs => slookup (ins_of_ports igroups vs)) inss in
  ((forallb (bench_def fuel b) (b_outputs b ++ flat_map (fun gt => snd gt) (b_gates b))%list,
    map b2z_row (bench_run fuel b [] fi)),
   match import_bench b with
   | Some c => Some (c_all_def fuel c, map b2z_row (c_run fuel c (c_init c) fi))
   | None => None
   end).

(* one cover on canonical signals L 0 .. L (n-1) -> L n, all 2^n valuations
   (valuation v: input i = bit i of v): (spec, model) truth tables *)
Fixpoint seqZ (n : nat) : list Z :=
  match n with O => [] | S k => (seqZ k ++ [Z.of_nat k])%list end.

Definition cover_case (n : nat) (rows : list (list plane)) : list bool * option (list bool) :=
  let ins := map L (seqZ n) in
  let sigs := (ins ++ [L (Z.of_nat n)])%list in
  let vals := seqZ (Nat.pow 2 n) in
  let rho := fun v (s : sig) => match s with L i => Z.testbit v i | _ => false end in
  (map (fun v => cover_sem rows (map (rho v) ins)) vals,
   match extract_cover sigs rows with
   | Some (_, e) => Some (map (fun v => beval (rho v) e) vals)
   | None => None
   end).
