(* Entry points evaluated by py/checks/C05.py with vm_compute (definitions
   only; depends on no proof file). *)
From PyRTL Require Import Netlist.Sem Netlist.WFDefs Netlist.SpecHarness.
From PyRTL Require Export IO.VerilogEmit IO.VerilogTestbench.

Definition vprobe (nl : netlist) (env : Z -> Z) : list Z :=
  map (fun x => env (wname x)) (wires nl).

(* rows: structural-tie checks; registers after one reset edge from an all-ones
   state; final memory probes; then per cycle [settled?; every wire] under
   VerilogSem, starting from reset values (0 if none) and the given memories *)
Definition verilog_case (nl : netlist) (mode : rmode) (m : vmodule)
    (order : list Z) (memmap : list (Z * list (Z * Z))) (inss : list (list (Z * Z)))
    (probes : list (Z * Z)) : list (list Z) :=
  let sst := init_state nl 0 [] memmap in
  let st0 := mkVState (sregs sst) (vinit_mems m (smems sst)) in
  let '(tr, st) := vrun m order st0 (map (fun l => (ins_of l, false)) inss) in
  let garbage := mkVState (fun x => 2 ^ dwidth m x - 1) (vmems st0) in
  let rst_st := vedge m true (fst (settle m order garbage (fun _ => 0))) garbage in
  map b2z (emit_checks nl mode m)
  :: map (fun d => vregs rst_st (fst d)) (m_regs m)
  :: map (fun p => vmems st (fst p) (snd p)) probes
  :: map (fun eo => b2z (snd eo) :: vprobe nl (fst eo)) tr.

(* the same module text under another add_reset option: only the register block's reset
   structure differs (the harness compares the parsed texts field by field before using this) *)
Definition set_mode (m : vmodule) (md : rmode) (rs : list (Z * vexpr)) : vmodule :=
  mkVModule (m_inputs m) (m_outputs m) (m_regs m) (m_wires m) (m_mems m) (m_roms m) (m_assigns m)
            (m_memrds m) md rs (m_updates m) (m_memwrs m).

Definition tb_case (nl : netlist) (dflt : Z) (regmap : list (Z * Z))
    (memmap : list (Z * list (Z * Z))) (inss : list (list (Z * Z))) (tb : testbench) : list Z :=
  let st0 := init_state nl dflt regmap memmap in
  [ b2z (tb_regs_ok nl st0 tb); b2z (tb_mems_ok nl st0 tb);
    b2z (tb_drives_ok nl (map ins_of inss) (tb_cycles tb)) ].
