(* C20 -- entry points evaluated by py/checks/C20.py (vm_compute).  No proofs.
   Names travel as lists of character codes; results are lists of Z. *)
From Coq Require Import String Ascii List NArith ZArith Bool.
From PyRTL Require Import IO.NatSort IO.Determinism Gen.C20Src.
Import ListNotations.
Open Scope Z_scope.

Definition codes_of (s : name) : list Z := map (fun c => Z.of_N (code c)) s.

(* _natural_sort_key(name) / _trace_sort_key(name), encoded *)
Definition natkey_case (s : list Z) : list (list Z) := src_natural_key_codes (name_of_codes s).
Definition tracekey_case (s : list Z) : list (list Z) := src_trace_key_codes (name_of_codes s).

(* sorted(names, key=...) as the permutation of input positions *)
Fixpoint number {A : Type} (i : Z) (l : list A) : list (Z * A) :=
  match l with [] => [] | x :: r => (i, x) :: number (i + 1) r end.
Definition natsort_case (names : list (list Z)) : list Z :=
  map fst (sort_by (fun p => src_natural_key (snd p)) src_natural_key_ltb
                   (number 0 (map name_of_codes names))).
Definition tracesort_case (names : list (list Z)) : list Z :=
  map fst (sort_by (fun p => src_trace_key (snd p)) src_trace_key_ltb
                   (number 0 (map name_of_codes names))).

(* _VerilogSanitizer fed `pres` in this order: the identifier given to each name *)
Definition sanitize_case (prefix : list Z) (pres : list (list Z)) : list (list Z) :=
  let p := map name_of_codes pres in
  let m := sanitize_all (src_verilog_valid_p (name_of_codes prefix)) (name_of_codes prefix) p in
  map (fun s => codes_of (varname m s)) p.
Definition valid_case (prefix : list Z) (names : list (list Z)) : list bool :=
  map (fun s => src_verilog_valid_p (name_of_codes prefix) (name_of_codes s)) names.

(* ---- output_to_verilog: every name the module text mentions in a sorted list, in
   order, one per line, sections separated by '#'. ---- *)
Definition nl : ascii := ascii_of_N 10.
Definition hash : ascii := ascii_of_N 35.

Definition mkw (w : list Z * Z) : witem :=
  {| wname := name_of_codes (fst w); wkind := Z.to_N (snd w); wwidth := 0 |}.
(* net = (sort name parts, raw?, op class, names to rename & print instead of the sort name);
   sort name parts = [dest name], or [str(enable); str(addr); str(data)] for a memory write,
   combined the way the source's _net_sorted does *)
Definition mkn (n : list (list Z) * bool * Z * list (list Z)) : nitem :=
  match n with
  | (parts, raw, op, extra) =>
      {| nsort := match map name_of_codes parts with
                  | [we; a; d] => src_memwrite_sortname we a d
                  | [s] => s
                  | _ => []
                  end;
         nraw := raw; nop := Z.to_N op; nnames := map name_of_codes extra |}
  end.
Definition wsec (kinds : list Z) : section witem :=
  {| s_head := [hash]; s_sel := fun w => existsb (fun k => Z.eqb k (Z.of_N (wkind w))) kinds;
     s_render := fun w => (wname w ++ [nl])%list |}.
Definition nsec (opclass : Z) : section nitem :=
  {| s_head := [hash]; s_sel := fun n => Z.eqb opclass (Z.of_N (nop n));
     s_render := fun n => (match nnames n with x :: _ => x | [] => nsort n end ++ [nl])%list |}.

Definition verilog_case (wsecs : list (list Z)) (nsecs : list Z)
  (ws : list (list Z * Z)) (ns : list (list (list Z) * bool * Z * list (list Z))) : list Z :=
  codes_of (export_text src_natural_key src_natural_key_ltb src_present_verilog src_valid_verilog
                        src_prefix_verilog (map wsec wsecs) (map nsec nsecs) (map mkw ws) (map mkn ns)).

Definition testbench_case (wsecs : list (list Z)) (ws : list (list Z * Z)) : list Z :=
  codes_of (export_text src_natural_key src_natural_key_ltb src_present_testbench src_valid_testbench
                        src_prefix_testbench (map wsec wsecs) [] (map mkw ws) []).

(* ---- print_trace: names in printed order; print_vcd: identifiers in $var order ---- *)
Definition trace_case (names : list (list Z)) : list Z :=
  codes_of (trace_text src_trace_key src_trace_key_ltb (fun _ _ it => (fst it ++ [nl])%list)
                       (fun _ => []) (map (fun s => (name_of_codes s, [])) names)).
Definition vcd_case (tracked : list (list Z)) (names : list (list Z)) : list Z :=
  codes_of (vcd_text src_trace_key src_trace_key_ltb src_present_vcd src_valid_vcd src_prefix_vcd
                     (fun v _ => (v ++ [nl])%list)
                     (map name_of_codes tracked) (map (fun s => (name_of_codes s, [])) names)).
