(* Model of what pyrtl.importexport.output_to_verilog writes, as a decidable
   predicate on a parsed module:  [emitted_ok nl mode m = true]  says that m is
   the module the emitter produces for netlist nl and add_reset option mode
   (identifiers = wire ids).  It mirrors _to_verilog_header (declarations, ROM
   initial blocks), _to_verilog_combinational (one assign per Const and per
   net; [emit_expr] is the per-op expression), _to_verilog_sequential (the
   register block under the three add_reset options) and _to_verilog_memories
   (write blocks, read assigns).  No proofs here: the harness evaluates it on
   the parse of the REAL emitter's text for every sampled design (structural
   tie), and Props/C05.v proves the refinement theorem from it. *)
From PyRTL Require Export IO.VerilogSem Netlist.WFDefs.

(* _to_verilog_combinational, one branch per op ('n' is rejected, 'r' 'm' '@'
   are handled elsewhere) *)
Definition emit_expr (nl : netlist) (n : net) : option vexpr :=
  match nop n, nargs n with
  | OpW, [a] => Some (VId a)                                      (* assign d = a;      *)
  | OpNot, [a] => Some (VNot (VId a))                             (* assign d = ~a;     *)
  | OpAnd, [a; b] => Some (VBin BAnd (VId a) (VId b))             (* assign d = a & b;  *)
  | OpOr, [a; b] => Some (VBin BOr (VId a) (VId b))
  | OpXor, [a; b] => Some (VBin BXor (VId a) (VId b))
  | OpAdd, [a; b] => Some (VBin BAdd (VId a) (VId b))
  | OpSub, [a; b] => Some (VBin BSub (VId a) (VId b))
  | OpMul, [a; b] => Some (VBin BMul (VId a) (VId b))
  | OpLt, [a; b] => Some (VCmp CLt (VId a) (VId b))
  | OpGt, [a; b] => Some (VCmp CGt (VId a) (VId b))
  | OpEq, [a; b] => Some (VCmp CEq (VId a) (VId b))               (* assign d = a == b; *)
  | OpMux, [s; a; b] => Some (VCond (VId s) (VId b) (VId a))      (* assign d = s ? b : a; *)
  | OpConcat, args => Some (VCat (map VId args))                  (* assign d = {a1, ..., ak}; *)
  | OpSelect idx, [a] =>                                          (* assign d = {a[i_k], ..., a[i_0]}; *)
      Some (VCat (map (fun i => if 1 <? width_of nl a then VBit a i else VId a) (rev idx)))
  | _, _ => None
  end.

(* the width rules of Block.sanity_check_net that the correctness of an emitted
   assign actually depends on *)
Definition vrules (nl : netlist) (n : net) : bool :=
  (0 <=? width_of nl (ndest n))
  && forallb (fun a => 0 <=? width_of nl a) (nargs n)
  && match nop n with
     | OpNot => width_of nl (ndest n) <=? width_of nl (arg n 0)
     | OpSelect idx => forallb (fun i => (0 <=? i) && (i <? width_of nl (arg n 0))) idx
     | _ => true
     end.

Fixpoint vexpr_eqb (a b : vexpr) : bool :=
  match a, b with
  | VId x, VId y => x =? y
  | VBit x i, VBit y j => (x =? y) && (i =? j)
  | VDec v, VDec u => v =? u
  | VSized w v, VSized w' u => (w =? w') && (v =? u)
  | VNot e, VNot f => vexpr_eqb e f
  | VBin o e1 e2, VBin o' f1 f2 =>
      match o, o' with
      | BAnd, BAnd | BOr, BOr | BXor, BXor | BAdd, BAdd | BSub, BSub | BMul, BMul => true
      | _, _ => false
      end && vexpr_eqb e1 f1 && vexpr_eqb e2 f2
  | VCmp o e1 e2, VCmp o' f1 f2 =>
      match o, o' with
      | CLt, CLt | CGt, CGt | CEq, CEq => true
      | _, _ => false
      end && vexpr_eqb e1 f1 && vexpr_eqb e2 f2
  | VCond c t f, VCond c' t' f' => vexpr_eqb c c' && vexpr_eqb t t' && vexpr_eqb f f'
  | VCat es, VCat fs =>
      (fix go (es fs : list vexpr) : bool :=
         match es, fs with
         | [], [] => true
         | e :: es', f :: fs' => vexpr_eqb e f && go es' fs'
         | _, _ => false
         end) es fs
  | _, _ => false
  end.

Definition has_item (l : list (Z * vexpr)) (x : Z) (e : vexpr) : bool :=
  existsb (fun p => (fst p =? x) && vexpr_eqb (snd p) e) l.

Fixpoint items_eqb (l1 l2 : list (Z * vexpr)) : bool :=
  match l1, l2 with
  | [], [] => true
  | (x, e) :: r1, (y, f) :: r2 => (x =? y) && vexpr_eqb e f && items_eqb r1 r2
  | _, _ => false
  end.

Definition is_regnet (n : net) : bool := match nop n with OpReg => true | _ => false end.
Definition writes_to (mm : Z) (n : net) : bool :=
  match nop n with OpMemWr k => k =? mm | _ => false end.
Definition is_assign_net (n : net) : bool :=
  match nop n with OpReg | OpMemWr _ | OpMemRd _ => false | _ => true end.
Definition is_const (x : wire) : bool := match wkind x with KConst _ => true | _ => false end.
Definition is_kinput (x : wire) : bool := match wkind x with KInput => true | _ => false end.
Definition is_koutput (x : wire) : bool := match wkind x with KOutput => true | _ => false end.
Definition is_kreg (x : wire) : bool := match wkind x with KReg _ => true | _ => false end.
Definition is_kwire (x : wire) : bool := match wkind x with KWire | KConst _ => true | _ => false end.

Definition declared_wire (nl : netlist) (w : wid) : bool :=
  match find_wire (wires nl) w with Some _ => true | None => false end.

Definition reset_of (nl : netlist) (r : wid) : Z :=
  match kind_of nl r with KReg (Some v) => v | _ => 0 end.

(* _to_verilog_sequential *)
Definition expected_updates (nl : netlist) : list (Z * vexpr) :=
  map (fun n => (ndest n, VId (arg n 0))) (filter is_regnet (nets nl)).
Definition expected_resets (nl : netlist) (mode : rmode) : list (Z * vexpr) :=
  match mode with
  | RNone => []
  | _ => map (fun n => (ndest n, VDec (reset_of nl (ndest n)))) (filter is_regnet (nets nl))
  end.

(* _to_verilog_memories: one block per memory that has write ports *)
Definition expected_writes (nl : netlist) (mm : Z) : list vmemwrite :=
  map (fun n => mkVW (arg n 2) (arg n 0) (arg n 1)) (filter (writes_to mm) (nets nl)).
Definition expected_memwrs (nl : netlist) : list (Z * list vmemwrite) :=
  filter (fun b => negb (Nat.eqb (length (snd b)) 0))
         (map (fun mm => (mid mm, expected_writes nl (mid mm))) (mems nl)).

Definition vmemwrite_eqb (a b : vmemwrite) : bool :=
  (vw_en a =? vw_en b) && (vw_addr a =? vw_addr b) && (vw_data a =? vw_data b).

Fixpoint list_eqb {A} (eqb : A -> A -> bool) (l1 l2 : list A) : bool :=
  match l1, l2 with
  | [], [] => true
  | a :: r1, b :: r2 => eqb a b && list_eqb eqb r1 r2
  | _, _ => false
  end.

(* ROM initial block: every address 0 .. 2^addrwidth-1 with a sized literal *)
Definition expected_rom (mm : mem) (data : list (Z * Z)) : list (Z * vexpr) :=
  map (fun k => let a := Z.of_nat k in (a, VSized (mdataw mm) (rom_read data a)))
      (seq 0 (Z.to_nat (2 ^ maddrw mm))).
Definition expected_roms (nl : netlist) : list (Z * list (Z * vexpr)) :=
  flat_map (fun mm => match mrom mm with
                      | Some data => [(mid mm, expected_rom mm data)]
                      | None => []
                      end) (mems nl).

Definition pair_eqb (a b : Z * Z) : bool := (fst a =? fst b) && (snd a =? snd b).

(* declarations of one class = the wires of that kind, as sets, no duplicates
   (same length + every wire present with its width) *)
Definition decl_class_ok (ws : list wire) (ds : list (Z * Z)) : bool :=
  Nat.eqb (length ws) (length ds)
  && forallb (fun x => existsb (pair_eqb (wname x, wwidth x)) ds) ws.

Fixpoint nodupb (l : list Z) : bool :=
  match l with
  | [] => true
  | x :: r => negb (existsb (Z.eqb x) r) && nodupb r
  end.

(* the individual structural checks, in a fixed order (the harness reports the
   index of a failing one) *)
Definition emit_checks (nl : netlist) (mode : rmode) (m : vmodule) : list bool :=
  [ (* 0 *) decl_class_ok (filter is_kinput (wires nl)) (m_inputs m);
    (* 1 *) decl_class_ok (filter is_koutput (wires nl)) (m_outputs m);
    (* 2 *) decl_class_ok (filter is_kreg (wires nl)) (m_regs m);
    (* 3 *) decl_class_ok (filter is_kwire (wires nl)) (m_wires m);
    (* 4 *) nodupb (map fst (decls m)) && nodupb (map wname (wires nl));
    (* 5 memories *)
    list_eqb (fun a b => (fst a =? fst b) && pair_eqb (snd a) (snd b)) (m_mems m)
             (map (fun mm => (mid mm, (mdataw mm, 2 ^ maddrw mm))) (mems nl));
    (* 6 ROM contents *)
    list_eqb (fun a b => (fst a =? fst b) && items_eqb (snd a) (snd b)) (m_roms m) (expected_roms nl);
    (* 7 one `assign c = <val>;` per Const *)
    forallb (fun x => match wkind x with
                      | KConst c => has_item (m_assigns m) (wname x) (VDec c)
                      | _ => true
                      end) (wires nl);
    (* 8 one assign per combinational net, with the expression emit_expr predicts *)
    forallb (fun n => if is_assign_net n then
                        match emit_expr nl n with
                        | Some e => has_item (m_assigns m) (ndest n) e
                        | None => false
                        end
                      else true) (nets nl);
    (* 9 nothing else is assigned *)
    Nat.eqb (length (m_assigns m))
            (length (filter is_const (wires nl)) + length (filter is_assign_net (nets nl)));
    (* 10 memory reads *)
    forallb (fun n => match nop n with
                      | OpMemRd mm => existsb (fun r => (fst r =? ndest n) && pair_eqb (snd r) (mm, arg n 0))
                                              (m_memrds m)
                      | _ => true
                      end) (nets nl)
    && Nat.eqb (length (m_memrds m))
               (length (filter (fun n => match nop n with OpMemRd _ => true | _ => false end) (nets nl)));
    (* 11 register block *)
    match mode, m_mode m with
    | RNone, RNone | RSync, RSync | RAsync, RAsync => true
    | _, _ => match expected_updates nl with [] => true | _ => false end
              (* no registers: no block is written, the reader reports RNone *)
    end;
    (* 12 *) items_eqb (m_updates m) (expected_updates nl);
    (* 13 *) items_eqb (m_resets m) (match expected_updates nl with [] => [] | _ => expected_resets nl mode end);
    (* 14 memory write blocks *)
    list_eqb (fun a b => (fst a =? fst b) && list_eqb vmemwrite_eqb (snd a) (snd b))
             (m_memwrs m) (expected_memwrs nl);
    (* 15 every net is exportable, obeys the width rules used by the proof, and only
          mentions declared wires and memories *)
    forallb (fun n => match nop n with OpNand => false | _ => vrules nl n end
                      && forallb (declared_wire nl) (nargs n)
                      && match nop n with
                         | OpMemWr mm => match find_mem (mems nl) mm with
                                         | Some x => (width_of nl (arg n 1) <=? mdataw x)
                                                     && match mrom x with None => true | Some _ => false end
                                         | None => false
                                         end
                         | OpMemRd mm => declared_wire nl (ndest n)
                                         && match find_mem (mems nl) mm with Some _ => true | None => false end
                         | _ => declared_wire nl (ndest n)
                         end) (nets nl);
    (* 16 memories: distinct ids; ROM tables within the address range, words within the word width *)
    nodupb (map mid (mems nl))
    && forallb (fun mm => (0 <=? maddrw mm) && (0 <=? mdataw mm)
                          && match mrom mm with
                             | Some data => forallb (fun kv => (0 <=? fst kv) && (fst kv <? 2 ^ maddrw mm)
                                                               && inrangeb (snd kv) (mdataw mm)) data
                             | None => true
                             end) (mems nl)
  ].

Definition emitted_ok (nl : netlist) (mode : rmode) (m : vmodule) : bool :=
  forallb (fun b => b) (emit_checks nl mode m).
