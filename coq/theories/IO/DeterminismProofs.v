(* C20 -- proofs about the determinism model (Determinism.v):
   the sanitizer as a function of presentation order, permutation invariance of
   sorted emitters and of the module / trace texts, and the refutations. *)
From Coq Require Import String Ascii List NArith ZArith Bool Lia Permutation Sorted.
From PyRTL Require Import IO.NatSort IO.NatSortProofs IO.Determinism.
Import ListNotations.

(* ------------------------------------------------------------------ *)
(* small list facts                                                      *)

Lemma perm_filter : forall A (f : A -> bool) l l',
  Permutation l l' -> Permutation (filter f l) (filter f l').
Proof.
  intros A f l l' P. induction P; simpl; auto.
  - destruct (f x); auto.
  - destruct (f x), (f y); auto. apply perm_swap.
  - eapply perm_trans; eauto.
Qed.

Lemma existsb_perm : forall A (f : A -> bool) l l',
  Permutation l l' -> existsb f l = existsb f l'.
Proof.
  intros A f l l' P. induction P; simpl; auto.
  - rewrite IHP. reflexivity.
  - destruct (f x), (f y); reflexivity.
  - congruence.
Qed.

Lemma max_perm : forall l l', Permutation l l' ->
  fold_right N.max 0%N l = fold_right N.max 0%N l'.
Proof.
  intros l l' P. induction P; simpl; auto.
  - rewrite IHP. reflexivity.
  - lia.
  - congruence.
Qed.

Lemma NoDup_map_inj_in : forall A B (f : A -> B) l x y,
  NoDup (map f l) -> In x l -> In y l -> f x = f y -> x = y.
Proof.
  intros A B f l. induction l as [|a r IH]; intros x y ND Hx Hy E. contradiction.
  simpl in ND. inversion ND as [|? ? Hnotin NDr]; subst.
  destruct Hx as [Hx|Hx], Hy as [Hy|Hy]; subst; auto.
  - exfalso. apply Hnotin. rewrite E. apply in_map. exact Hy.
  - exfalso. apply Hnotin. rewrite <- E. apply in_map. exact Hx.
Qed.

Lemma name_eqb_eq : forall a b, name_eqb a b = true <-> a = b.
Proof.
  intros a b. unfold name_eqb. split.
  - destruct (str_cmp a b) eqn:E; try discriminate. intros _. apply (cmp_eq _ str_cmp_ok). exact E.
  - intros ->. rewrite (cmp_refl _ str_cmp_ok). reflexivity.
Qed.

Lemma name_eqb_neq : forall a b, name_eqb a b = false <-> a <> b.
Proof.
  intros a b. split.
  - intros H E. apply name_eqb_eq in E. congruence.
  - intros H. destruct (name_eqb a b) eqn:E; auto. apply name_eqb_eq in E. contradiction.
Qed.

(* ------------------------------------------------------------------ *)
(* emitters over sorted lists                                            *)

(* Theorem 4 *)
Theorem emit_perm_invariant : forall A K (render : A -> name) (key : A -> K) (ltb : K -> K -> bool),
  strict_total ltb -> forall items items',
  (forall x y, In x items -> In y items -> key x = key y -> x = y) ->
  Permutation items items' ->
  emit render key ltb items = emit render key ltb items'.
Proof.
  intros A K render key ltb ST items items' Inj P. unfold emit.
  rewrite (sort_by_key_perm_invariant key ltb ST items items' Inj P). reflexivity.
Qed.

(* ------------------------------------------------------------------ *)
(* the sanitizer                                                         *)

Section Sanitizer.
  Variables (valid : name -> bool) (prefix : name).

  (* valid names are never renamed, whatever the order *)
  Lemma varname_valid : forall pres k s, valid s = true ->
    varname (sanitize_from valid prefix k pres) s = s.
  Proof.
    induction pres as [|x r IH]; intros k s V. reflexivity.
    unfold varname in *. cbn [sanitize_from]. destruct (valid x) eqn:Vx; cbn [find fst snd].
    - destruct (name_eqb s x) eqn:E. apply name_eqb_eq in E. subst. reflexivity. apply IH. exact V.
    - destruct (name_eqb s x) eqn:E. apply name_eqb_eq in E. subst. congruence. apply IH. exact V.
  Qed.

  (* when every invalid name presented is the same name a, it gets number k *)
  Lemma varname_single : forall a pres k s,
    (forall x, In x pres -> valid x = false -> x = a) ->
    varname (sanitize_from valid prefix k pres) s =
      if valid s then s else if existsb (name_eqb s) pres then (prefix ++ dec k)%list else s.
  Proof.
    intros a. induction pres as [|x r IH]; intros k s H.
    - unfold varname. simpl. destruct (valid s); reflexivity.
    - destruct (valid s) eqn:Vs. apply varname_valid. exact Vs.
      assert (Hr : forall y, In y r -> valid y = false -> y = a) by (intros y Hy; apply H; right; exact Hy).
      specialize (IH k s Hr) as IHk. rewrite Vs in IHk.
      unfold varname in *. cbn [sanitize_from existsb]. destruct (valid x) eqn:Vx; cbn [find fst snd].
      + destruct (name_eqb s x) eqn:E.
        * apply name_eqb_eq in E. subst. congruence.
        * simpl. exact IHk.
      + destruct (name_eqb s x) eqn:E.
        * reflexivity.
        * simpl. specialize (IH (k + 1)%N s Hr). rewrite Vs in IH. rewrite IH.
          destruct (existsb (name_eqb s) r) eqn:Ex; auto.
          exfalso. apply existsb_exists in Ex. destruct Ex as [y [Hy Ey]].
          apply name_eqb_eq in Ey. subst y.
          assert (s = a) by (apply Hr; auto).
          assert (x = a) by (apply H; [left; auto | exact Vx]).
          apply name_eqb_neq in E. congruence.
  Qed.

  (* Theorem 3 (positive, pinned source): with at most one name needing
     sanitising the identifiers do not depend on the presentation order *)
  Theorem sanitize_le1_perm_invariant : forall pres pres',
    Permutation pres pres' ->
    (forall x y, In x pres -> In y pres -> valid x = false -> valid y = false -> x = y) ->
    forall s, varname (sanitize_all valid prefix pres) s = varname (sanitize_all valid prefix pres') s.
  Proof.
    intros pres pres' P Le1 s. unfold sanitize_all.
    set (a := match find (fun x => negb (valid x)) pres with Some a => a | None => [] end).
    assert (H : forall x, In x pres -> valid x = false -> x = a).
    { intros x Hx Vx. unfold a. destruct (find (fun x => negb (valid x)) pres) as [b|] eqn:F.
      - apply find_some in F. destruct F as [Hb Vb]. apply negb_true_iff in Vb. apply Le1; auto.
      - apply (find_none _ _ F) in Hx. rewrite Vx in Hx. discriminate. }
    assert (H' : forall x, In x pres' -> valid x = false -> x = a).
    { intros x Hx. apply H. eapply Permutation_in. apply Permutation_sym. exact P. exact Hx. }
    rewrite (varname_single a pres 0%N s H), (varname_single a pres' 0%N s H').
    rewrite (existsb_perm _ _ _ _ P). reflexivity.
  Qed.

  (* Theorem 3 (positive, F15 repaired): names presented in sorted order *)
  Theorem present_sorted_perm_invariant : forall pres pres',
    Permutation pres pres' -> present_sorted pres = present_sorted pres'.
  Proof.
    intros pres pres' P. unfold present_sorted.
    apply sort_by_key_perm_invariant; auto. exact str_ltb_strict_total.
  Qed.

  Corollary sanitize_sorted_perm_invariant : forall pres pres',
    Permutation pres pres' ->
    sanitize_all valid prefix (present_sorted pres) = sanitize_all valid prefix (present_sorted pres').
  Proof. intros pres pres' P. rewrite (present_sorted_perm_invariant _ _ P). reflexivity. Qed.
End Sanitizer.

(* ------------------------------------------------------------------ *)
(* module text                                                           *)

Lemma rename_w_ext : forall vn vn' w, (forall s, vn s = vn' s) -> rename_w vn w = rename_w vn' w.
Proof. intros vn vn' w E. unfold rename_w. rewrite E. reflexivity. Qed.

Lemma rename_n_ext : forall vn vn' n, (forall s, vn s = vn' s) -> rename_n vn n = rename_n vn' n.
Proof.
  intros vn vn' n E. unfold rename_n. rewrite E. f_equal. apply map_ext. exact E.
Qed.

Section ExportProofs.
  Context {K : Type}.
  Variables (nkey : name -> K) (ltb : K -> K -> bool).
  Hypothesis ST : strict_total ltb.

  Lemma section_perm_invariant : forall A (rn rn' : A -> A) (keyname : A -> name) (sec : section A) l l',
    (forall x, rn x = rn' x) ->
    Permutation l l' ->
    (forall x y, In x l -> In y l -> nkey (keyname (rn x)) = nkey (keyname (rn y)) -> x = y) ->
    emit (s_render sec) (fun x => nkey (keyname x)) ltb (map rn (filter (s_sel sec) l)) =
    emit (s_render sec) (fun x => nkey (keyname x)) ltb (map rn' (filter (s_sel sec) l')).
  Proof.
    intros A rn rn' keyname sec l l' E P Inj.
    rewrite <- (map_ext rn rn' E).
    apply emit_perm_invariant; auto.
    - intros x y Hx Hy Hk. apply in_map_iff in Hx. destruct Hx as [x0 [Ex Hx]].
      apply in_map_iff in Hy. destruct Hy as [y0 [Ey Hy]]. subst.
      apply filter_In in Hx. destruct Hx as [Hx _]. apply filter_In in Hy. destruct Hy as [Hy _].
      f_equal. apply Inj; auto.
    - apply Permutation_map. apply perm_filter. exact P.
  Qed.

  Variables (present : list name -> list name) (valid : name -> bool) (prefix : name)
            (wsecs : list (section witem)) (nsecs : list (section nitem)).

  (* generic statement: the text is schedule-independent as soon as the name map is,
     and the sort keys of the renamed items are distinct *)
  Theorem export_text_perm_invariant : forall ws ws' ns ns',
    Permutation ws ws' -> Permutation ns ns' ->
    (forall s, export_vn present valid prefix ws s = export_vn present valid prefix ws' s) ->
    (forall x y, In x ws -> In y ws ->
       nkey (wname (rename_w (export_vn present valid prefix ws) x)) =
       nkey (wname (rename_w (export_vn present valid prefix ws) y)) -> x = y) ->
    (forall x y, In x ns -> In y ns ->
       nkey (nsort (rename_n (export_vn present valid prefix ws) x)) =
       nkey (nsort (rename_n (export_vn present valid prefix ws) y)) -> x = y) ->
    export_text nkey ltb present valid prefix wsecs nsecs ws ns =
    export_text nkey ltb present valid prefix wsecs nsecs ws' ns'.
  Proof.
    intros ws ws' ns ns' Pw Pn Evn Iw In_. unfold export_text.
    f_equal.
    - f_equal. apply map_ext. intro sec. f_equal.
      apply (section_perm_invariant witem _ _ wname sec ws ws'); auto.
      intro x. apply rename_w_ext. exact Evn.
    - f_equal. apply map_ext. intro sec. f_equal.
      apply (section_perm_invariant nitem _ _ nsort sec ns ns'); auto.
      intro x. apply rename_n_ext. exact Evn.
  Qed.
End ExportProofs.

(* pinned source (names reach the sanitizer in set order): at most one name needs sanitising *)
Theorem export_text_perm_invariant_le1 : forall K (nkey : name -> K) ltb, strict_total ltb ->
  forall valid prefix wsecs nsecs ws ws' ns ns',
  Permutation ws ws' -> Permutation ns ns' ->
  (forall x y, In x (map wname ws) -> In y (map wname ws) ->
     valid x = false -> valid y = false -> x = y) ->
  (forall x y, In x ws -> In y ws ->
     nkey (wname (rename_w (export_vn present_set_order valid prefix ws) x)) =
     nkey (wname (rename_w (export_vn present_set_order valid prefix ws) y)) -> x = y) ->
  (forall x y, In x ns -> In y ns ->
     nkey (nsort (rename_n (export_vn present_set_order valid prefix ws) x)) =
     nkey (nsort (rename_n (export_vn present_set_order valid prefix ws) y)) -> x = y) ->
  export_text nkey ltb present_set_order valid prefix wsecs nsecs ws ns =
  export_text nkey ltb present_set_order valid prefix wsecs nsecs ws' ns'.
Proof.
  intros K nkey ltb ST valid prefix wsecs nsecs ws ws' ns ns' Pw Pn Le1 Iw In_.
  apply export_text_perm_invariant; auto.
  intro s. unfold export_vn, present_set_order.
  apply sanitize_le1_perm_invariant; auto. apply Permutation_map. exact Pw.
Qed.

(* F15 repaired (names reach the sanitizer in sorted order): any number of invalid names *)
Theorem export_text_perm_invariant_sorted : forall K (nkey : name -> K) ltb, strict_total ltb ->
  forall valid prefix wsecs nsecs ws ws' ns ns',
  Permutation ws ws' -> Permutation ns ns' ->
  (forall x y, In x ws -> In y ws ->
     nkey (wname (rename_w (export_vn present_sorted valid prefix ws) x)) =
     nkey (wname (rename_w (export_vn present_sorted valid prefix ws) y)) -> x = y) ->
  (forall x y, In x ns -> In y ns ->
     nkey (nsort (rename_n (export_vn present_sorted valid prefix ws) x)) =
     nkey (nsort (rename_n (export_vn present_sorted valid prefix ws) y)) -> x = y) ->
  export_text nkey ltb present_sorted valid prefix wsecs nsecs ws ns =
  export_text nkey ltb present_sorted valid prefix wsecs nsecs ws' ns'.
Proof.
  intros K nkey ltb ST valid prefix wsecs nsecs ws ws' ns ns' Pw Pn Iw In_.
  apply export_text_perm_invariant; auto.
  intro s. unfold export_vn.
  rewrite (present_sorted_perm_invariant (map wname ws) (map wname ws')); auto.
  apply Permutation_map. exact Pw.
Qed.

(* the usual case spelled out for the pinned source: no name needs sanitising, names are
   unique and have no superfluous leading zeros, nets are sorted by distinct names *)
Theorem export_text_perm_invariant_clean : forall valid prefix wsecs nsecs ws ws' ns ns',
  Permutation ws ws' -> Permutation ns ns' ->
  (forall w, In w ws -> valid (wname w) = true /\ no_leading_zero (wname w) = true) ->
  (forall n, In n ns -> (nraw n = true \/ valid (nsort n) = true) /\ no_leading_zero (nsort n) = true) ->
  NoDup (map wname ws) -> NoDup (map nsort ns) ->
  export_text natural_key key_ltb present_set_order valid prefix wsecs nsecs ws ns =
  export_text natural_key key_ltb present_set_order valid prefix wsecs nsecs ws' ns'.
Proof.
  intros valid prefix wsecs nsecs ws ws' ns ns' Pw Pn Vw Vn NDw NDn.
  apply export_text_perm_invariant_le1; auto using key_ltb_strict_total.
  - intros x y Hx Hy Vx. apply in_map_iff in Hx. destruct Hx as [w [Ew Hw]]. subst.
    destruct (Vw w Hw) as [V _]. congruence.
  - intros x y Hx Hy. unfold rename_w, export_vn, sanitize_all. cbn [wname].
    destruct (Vw x Hx) as [Vx Zx]. destruct (Vw y Hy) as [Vy Zy].
    rewrite !varname_valid by assumption. intro E.
    apply natural_key_injective_on in E; auto.
    eapply NoDup_map_inj_in; eauto.
  - intros x y Hx Hy. unfold rename_n, export_vn, sanitize_all. cbn [nsort].
    destruct (Vn x Hx) as [Vx Zx]. destruct (Vn y Hy) as [Vy Zy].
    assert (Ex : (if nraw x then nsort x else
                    varname (sanitize_from valid prefix 0 (present_set_order (map wname ws))) (nsort x)) = nsort x).
    { destruct (nraw x); auto. destruct Vx as [Vx|Vx]; [discriminate|]. apply varname_valid. exact Vx. }
    assert (Ey : (if nraw y then nsort y else
                    varname (sanitize_from valid prefix 0 (present_set_order (map wname ws))) (nsort y)) = nsort y).
    { destruct (nraw y); auto. destruct Vy as [Vy|Vy]; [discriminate|]. apply varname_valid. exact Vy. }
    rewrite Ex, Ey. intro E. apply natural_key_injective_on in E; auto.
    eapply NoDup_map_inj_in; eauto.
Qed.

(* ------------------------------------------------------------------ *)
(* trace printing                                                        *)

Section TraceProofs.
  Context {K : Type}.
  Variables (tkey : name -> K) (ltb : K -> K -> bool).
  Hypothesis ST : strict_total ltb.

  Theorem trace_text_perm_invariant : forall render_line fmt items items',
    Permutation items items' ->
    (forall x y, In x items -> In y items -> tkey (fst x) = tkey (fst y) -> x = y) ->
    trace_text tkey ltb render_line fmt items = trace_text tkey ltb render_line fmt items'.
  Proof.
    intros render_line fmt items items' P Inj. unfold trace_text.
    assert (E1 : max_name_len items = max_name_len items').
    { unfold max_name_len. apply max_perm. apply Permutation_map. exact P. }
    assert (E2 : max_val_len fmt items = max_val_len fmt items').
    { unfold max_val_len. apply max_perm. apply Permutation_map. exact P. }
    rewrite <- E1, <- E2. apply emit_perm_invariant; auto.
  Qed.

  Theorem vcd_text_perm_invariant : forall present valid prefix render_var tracked tracked' items items',
    Permutation items items' ->
    (forall s, varname (sanitize_all valid prefix (present tracked)) s =
               varname (sanitize_all valid prefix (present tracked')) s) ->
    (forall x y, In x items -> In y items -> tkey (fst x) = tkey (fst y) -> x = y) ->
    vcd_text tkey ltb present valid prefix render_var tracked items =
    vcd_text tkey ltb present valid prefix render_var tracked' items'.
  Proof.
    intros present valid prefix render_var tracked tracked' items items' P Evn Inj. unfold vcd_text, emit.
    rewrite (sort_by_key_perm_invariant _ ltb ST items items' Inj P).
    f_equal. apply map_ext. intro it. rewrite Evn. reflexivity.
  Qed.
End TraceProofs.

(* ------------------------------------------------------------------ *)
(* the name a memory-write net is sorted by                             *)

Theorem memwrite_sortname_enable_collides : exists we a d a' d' : name,
  (a, d) <> (a', d') /\ memwrite_sortname_enable we a d = memwrite_sortname_enable we a' d'.
Proof.
  exists (nm "we/1W"), (nm "a0/2W"), (nm "d0/4W"), (nm "a1/2W"), (nm "d1/4W").
  split. discriminate. reflexivity.
Qed.

Lemma split_at_space : forall a a' r r' : name,
  no_space a = true -> no_space a' = true ->
  (a ++ space :: r = a' ++ space :: r')%list -> a = a' /\ r = r'.
Proof.
  induction a as [|c a IH]; intros a' r r' Na Na' E; destruct a' as [|c' a'']; simpl in *.
  - injection E as E. auto.
  - injection E as E1 E2. subst c'. apply andb_prop in Na'. destruct Na' as [H _].
    vm_compute in H. discriminate.
  - injection E as E1 E2. subst c. apply andb_prop in Na. destruct Na as [H _].
    vm_compute in H. discriminate.
  - injection E as E1 E2. subst c'.
    apply andb_prop in Na. destruct Na as [_ Na]. apply andb_prop in Na'. destruct Na' as [_ Na'].
    destruct (IH a'' r r' Na Na' E2) as [Ea Er]. subst. auto.
Qed.

Theorem memwrite_sortname_all_injective : forall we a d we' a' d' : name,
  no_space we = true -> no_space a = true -> no_space we' = true -> no_space a' = true ->
  memwrite_sortname_all we a d = memwrite_sortname_all we' a' d' ->
  we = we' /\ a = a' /\ d = d'.
Proof.
  unfold memwrite_sortname_all. intros we a d we' a' d' N1 N2 N3 N4 E.
  destruct (split_at_space _ _ _ _ N1 N3 E) as [E1 E2].
  destruct (split_at_space _ _ _ _ N2 N4 E2) as [E3 E4]. auto.
Qed.
