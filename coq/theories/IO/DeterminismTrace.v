(* C20 -- the BYTES of SimulationTrace.print_trace / print_vcd as a function of the trace
   dict in ARBITRARY (schedule-dependent) order.  DEFINITIONS ONLY.

   Composition of
     * the ordering / identifier model of this property, driven by the definitions regenerated
       from the source (Gen/C20Src.v: src_trace_key, src_present_vcd, src_valid_vcd, src_prefix_vcd),
     * the text layout of IO/Vcd.v (C15: `print_trace base compact rows`, `print_vcd clock rows`
       take the rows ALREADY in printing order).
   py/checks/C20.py compares these bytes with the real text, byte for byte, for every sampled
   (design, schedule): at those points the real exporter IS this function, whose independence of
   the dict order is DeterminismTraceProofs.full_print_*_perm_invariant. *)
From Coq Require Import String Ascii List NArith ZArith Bool.
From PyRTL Require Sim.TraceBase Sim.Trace IO.Vcd.
From PyRTL Require Import IO.NatSort IO.Determinism Gen.C20Src.
Import ListNotations.

(* one entry of SimulationTrace.trace / _wires: name, bitwidth, values per cycle *)
Record tentry := { t_name : name; t_width : Z; t_vals : list Z }.

Definition text_of_name (s : name) : TraceBase.text := map TraceBase.code_of_ascii s.

(* sorted(self.trace, key=_trace_sort_key) *)
Definition sorted_entries (items : list tentry) : list tentry :=
  sort_by (fun e => src_trace_key (t_name e)) src_trace_key_ltb items.

Definition full_print_trace (base : Z) (compact : bool) (items : list tentry) : TraceBase.text :=
  Vcd.print_trace base compact
    (map (fun e => (text_of_name (t_name e), t_vals e)) (sorted_entries items)).

(* the _VerilogSanitizer('_vcd_tmp_') of print_vcd, fed the way the source feeds it *)
Definition vcd_ids (items : list tentry) : smap :=
  sanitize_all src_valid_vcd src_prefix_vcd (src_present_vcd (map t_name items)).

Definition vcd_row (m : smap) (e : tentry) : Vcd.vrow :=
  Vcd.mkVrow (text_of_name (t_name e)) (text_of_name (varname m (t_name e))) (t_width e) (t_vals e).

Definition full_print_vcd (clock : bool) (items : list tentry) : TraceBase.text :=
  Vcd.print_vcd clock (map (vcd_row (vcd_ids items)) (sorted_entries items)).
