(* C12 -- syntax shared by the BLIF / ISCAS models: signals, cover planes,
   one-bit gate expressions (what the importer builds out of PyRTL operators),
   the BLIF AST, and the models of corecircuits.rtl_all / rtl_any / tree_reduce.
   Definitions only (no proofs): the harness evaluates these. *)
From Coq Require Import ZArith List Bool String.
Import ListNotations.
Open Scope Z_scope.

(* A signal: a name local to a model (L x), or the signal s inside the
   instance created by the k-th command of the enclosing model (I k s). *)
Inductive sig := L (x : Z) | I (k : Z) (s : sig).

Fixpoint sig_eqb (a b : sig) : bool :=
  match a, b with
  | L x, L y => Z.eqb x y
  | I k s, I j t => Z.eqb k j && sig_eqb s t
  | _, _ => false
  end.

Fixpoint sig_mem (x : sig) (l : list sig) : bool :=
  match l with [] => false | y :: r => sig_eqb y x || sig_mem x r end.

(* first-match association on signals (Python dict lookup by name) *)
Fixpoint sassoc {A} (l : list (sig * A)) (x : sig) : option A :=
  match l with
  | [] => None
  | (y, v) :: r => if sig_eqb y x then Some v else sassoc r x
  end.

Definition slookup (l : list (sig * bool)) (x : sig) : bool :=
  match sassoc l x with Some v => v | None => false end.

(* one character of a cover's input plane: '0' '1' '-' *)
Inductive plane := P0 | P1 | PD.

Definition plane_eqb (a b : plane) : bool :=
  match a, b with P0, P0 | P1, P1 | PD, PD => true | _, _ => false end.

Fixpoint planes_eqb (a b : list plane) : bool :=
  match a, b with
  | [], [] => true
  | x :: a', y :: b' => plane_eqb x y && planes_eqb a' b'
  | _, _ => false
  end.

Fixpoint tokens_eqb (a b : list (list plane)) : bool :=
  match a, b with
  | [], [] => true
  | x :: a', y :: b' => planes_eqb x y && tokens_eqb a' b'
  | _, _ => false
  end.

(* One-bit expressions: the PyRTL operators the importer applies to 1-bit
   wires.  BSel c t f = select(c, truecase=t, falsecase=f);  BAbsent = Python
   None handed to an operator (a missing pin / a list index out of range):
   the real importer raises when it touches it. *)
Inductive bexp :=
| BVar (s : sig)
| BConst (b : bool)
| BNot (a : bexp)
| BAnd (a b : bexp)
| BOr (a b : bexp)
| BXor (a b : bexp)
| BNand (a b : bexp)
| BSel (c t f : bexp)
| BAbsent.

Fixpoint beval (rho : sig -> bool) (e : bexp) : bool :=
  match e with
  | BVar s => rho s
  | BConst b => b
  | BNot a => negb (beval rho a)
  | BAnd a b => beval rho a && beval rho b
  | BOr a b => beval rho a || beval rho b
  | BXor a b => xorb (beval rho a) (beval rho b)
  | BNand a b => negb (beval rho a && beval rho b)
  | BSel c t f => if beval rho c then beval rho t else beval rho f
  | BAbsent => false
  end.

Fixpoint has_absent (e : bexp) : bool :=
  match e with
  | BVar _ | BConst _ => false
  | BNot a => has_absent a
  | BAnd a b | BOr a b | BXor a b | BNand a b => has_absent a || has_absent b
  | BSel c t f => has_absent c || has_absent t || has_absent f
  | BAbsent => true
  end.

Fixpoint bsubst (f : sig -> bexp) (e : bexp) : bexp :=
  match e with
  | BVar s => f s
  | BConst b => BConst b
  | BNot a => BNot (bsubst f a)
  | BAnd a b => BAnd (bsubst f a) (bsubst f b)
  | BOr a b => BOr (bsubst f a) (bsubst f b)
  | BXor a b => BXor (bsubst f a) (bsubst f b)
  | BNand a b => BNand (bsubst f a) (bsubst f b)
  | BSel c t f' => BSel (bsubst f c) (bsubst f t) (bsubst f f')
  | BAbsent => BAbsent
  end.

Fixpoint bvars (e : bexp) : list sig :=
  match e with
  | BVar s => [s]
  | BConst _ | BAbsent => []
  | BNot a => bvars a
  | BAnd a b | BOr a b | BXor a b | BNand a b => bvars a ++ bvars b
  | BSel c t f => bvars c ++ bvars t ++ bvars f
  end.

(* corecircuits.tree_reduce(op, vector): split at len // 2, recurse on both
   halves.  `fuel` bounds the depth (length l suffices). *)
Fixpoint tree_reduce (fuel : nat) (op : bexp -> bexp -> bexp) (l : list bexp) : bexp :=
  match fuel with
  | O => BAbsent
  | S f =>
    match l with
    | [] => BAbsent                       (* "Cannot reduce empty vectors" *)
    | [x] => x
    | _ => let h := Nat.div (List.length l) 2 in
           op (tree_reduce f op (firstn h l)) (tree_reduce f op (skipn h l))
    end
  end.

(* corecircuits.rtl_all / rtl_any: Const for the empty list, otherwise
   and_all_bits / or_all_bits (= tree_reduce) over concat_list(args). *)
Definition rtl_all (l : list bexp) : bexp :=
  match l with [] => BConst true | _ => tree_reduce (List.length l) BAnd l end.
Definition rtl_any (l : list bexp) : bexp :=
  match l with [] => BConst false | _ => tree_reduce (List.length l) BOr l end.

(* functools.reduce(op, l) without initial value *)
Definition breduce (op : bexp -> bexp -> bexp) (l : list bexp) : bexp :=
  match l with [] => BAbsent | x :: r => fold_left op r x end.

(* what drives a signal in the imported block *)
Inductive drv :=
| DComb (e : bexp)                              (* w <<= e *)
| DReg (next : bexp) (reset : option Z).         (* r = Register(1, reset_value); r.next <<= next; w <<= r *)

(* ---- BLIF AST ---- *)
Inductive command :=
| Names (sigs : list sig) (rows : list (list plane))
    (* .names s1 .. sn out ; each row = input plane, output plane "1" *)
| Latch (d q : sig) (init : Z)                     (* .latch d q re clk init *)
| Flop (cell : string) (d q : sig) (e s r : option sig)
    (* .subckt $_DFF.. C=clk D=d [E=e] Q=q [S=s] [R=r] *)
| Subckt (mname : Z) (binds : list (sig * sig)).   (* .subckt model formal=actual .. *)

Record model := mkModel { minputs : list sig; moutputs : list sig; mcmds : list command }.

(* option-monad helpers *)
Fixpoint mapM {A B} (f : A -> option B) (l : list A) : option (list B) :=
  match l with
  | [] => Some []
  | x :: r => match f x with
              | Some y => match mapM f r with Some ys => Some (y :: ys) | None => None end
              | None => None
              end
  end.

Definition last_opt {A} (l : list A) : option A :=
  match l with [] => None | x :: r => Some (last r x) end.
