(* C05 -- model of importexport._VerilogSanitizer / core._NameSanitizer as used by
   output_to_verilog and output_verilog_testbench, PARAMETERISED by what
   py/genfrag_C05.py reads from the source on every run (Gen/C05Sanitizer.v):
   the two character classes of the identifier regex and whether its end anchor
   is strict, the reserved-word list, and which extra checks _extra_checks makes.
   Names are byte strings (the harness passes UTF-8: byte order = code-point
   order, and no class contains a byte >= 128).  DEFINITIONS ONLY.
   The machinery shared with C20 (sanitize_from: valid names map to themselves,
   the i-th invalid name PRESENTED gets prefix ++ str(i); varname; present_sorted;
   matches_ident = re.match with `$`) is imported from IO/Determinism.v. *)
From Coq Require Import String Ascii List NArith ZArith Bool.
From PyRTL Require Export IO.NatSort IO.Determinism.
Import ListNotations.
Open Scope N_scope.

Record sparams := mkSP {
  sp_start : list (N * N);        (* first-character class *)
  sp_body : list (N * N);         (* other-characters class *)
  sp_strict : bool;               (* \Z or fullmatch: no trailing-newline leniency *)
  sp_reserved : list name;        (* str not in self._verilog_reserved_set *)
  sp_forbidden : list name;       (* str != 'clk', str not in ('tb_iter', 'block') *)
  sp_check_prefix : bool;         (* not str.startswith(self.internal_prefix) *)
  sp_patterns : list name;        (* not re.match(r'mem_\d+$', str) *)
  sp_max_len : option N;          (* len(str) <= 1024 *)
  sp_no_newline : bool;           (* '\n' not in str *)
  sp_prefix : name                (* _VerilogSanitizer('_ver_out_tmp_') *)
}.

Definition has_newline (s : name) : bool := existsb (fun c => code c =? 10) s.

(* _NameSanitizer.is_valid_str *)
Definition sp_valid (P : sparams) (s : name) : bool :=
  (if sp_strict P then ident_body (sp_start P) (sp_body P) s
   else matches_ident (sp_start P) (sp_body P) s)
  && negb (existsb (name_eqb s) (sp_reserved P))
  && negb (existsb (name_eqb s) (sp_forbidden P))
  && (if sp_check_prefix P then negb (has_prefix (sp_prefix P) s) else true)
  && negb (existsb (fun l => matches_lit_digits l s) (sp_patterns P))
  && match sp_max_len P with Some n => N.of_nat (length s) <=? n | None => true end
  && (if sp_no_newline P then negb (has_newline s) else true).

(* the names of a block's wires are fed in sorted order; varname = internal_names[name] *)
Definition sp_map (P : sparams) (names : list name) : smap :=
  sanitize_all (sp_valid P) (sp_prefix P) (present_sorted names).
Definition sp_name (P : sparams) (names : list name) (a : name) : name :=
  varname (sp_map P names) a.

(* ---- TRUSTED: what a legal identifier of the emitted texts is ----
   IEEE 1364-2001 3.7: simple identifier = [a-zA-Z_][a-zA-Z0-9_$]*, not a keyword
   (Annex B); and it must not be a name the emitted module / testbench declares
   itself: clk, the testbench's integer tb_iter and instance block, the arrays
   mem_<id>. *)
Definition v2001_start : list (N * N) := [(65, 90); (97, 122); (95, 95)].
Definition v2001_body : list (N * N) := [(65, 90); (97, 122); (95, 95); (48, 57); (36, 36)].
Definition ieee_keywords : list name := map nm
  ["always"; "and"; "assign"; "automatic"; "begin"; "buf"; "bufif0"; "bufif1"; "case"; "casex";
   "casez"; "cell"; "cmos"; "config"; "deassign"; "default"; "defparam"; "design"; "disable";
   "edge"; "else"; "end"; "endcase"; "endconfig"; "endfunction"; "endgenerate"; "endmodule";
   "endprimitive"; "endspecify"; "endtable"; "endtask"; "event"; "for"; "force"; "forever";
   "fork"; "function"; "generate"; "genvar"; "highz0"; "highz1"; "if"; "ifnone"; "incdir";
   "include"; "initial"; "inout"; "input"; "instance"; "integer"; "join"; "large"; "liblist";
   "library"; "localparam"; "macromodule"; "medium"; "module"; "nand"; "negedge"; "nmos"; "nor";
   "noshowcancelled"; "not"; "notif0"; "notif1"; "or"; "output"; "parameter"; "pmos"; "posedge";
   "primitive"; "pull0"; "pull1"; "pulldown"; "pullup"; "pulsestyle_onevent";
   "pulsestyle_ondetect"; "rcmos"; "real"; "realtime"; "reg"; "release"; "repeat"; "rnmos";
   "rpmos"; "rtran"; "rtranif0"; "rtranif1"; "scalared"; "showcancelled"; "signed"; "small";
   "specify"; "specparam"; "strong0"; "strong1"; "supply0"; "supply1"; "table"; "task"; "time";
   "tran"; "tranif0"; "tranif1"; "tri"; "tri0"; "tri1"; "triand"; "trior"; "trireg"; "unsigned";
   "use"; "vectored"; "wait"; "wand"; "weak0"; "weak1"; "while"; "wire"; "wor"; "xnor"; "xor"]%string.
Definition own_names : list name := map nm ["clk"; "tb_iter"; "block"]%string.
Definition mem_lit : name := nm "mem_".

Definition legal_ident (v : name) : bool :=
  ident_body v2001_start v2001_body v
  && negb (existsb (name_eqb v) ieee_keywords)
  && negb (existsb (name_eqb v) own_names)
  && negb (lit_digits_body mem_lit v).

(* ---- decidable side conditions on the parameters (all re-evaluated on the values
   regenerated from the source) ---- *)
Definition all_bytes : list N := map N.of_nat (seq 0 256).
Definition class_subset (r1 r2 : list (N * N)) : bool :=
  forallb (fun k => implb (in_ranges r1 (ascii_of_N k)) (in_ranges r2 (ascii_of_N k))) all_bytes.

Definition params_legal (P : sparams) : bool :=
  (sp_strict P || sp_no_newline P)
  && class_subset (sp_start P) v2001_start && class_subset (sp_body P) v2001_body
  && forallb (fun k => existsb (name_eqb k) (sp_reserved P)) ieee_keywords
  && forallb (fun k => existsb (name_eqb k) (sp_forbidden P)) own_names
  && existsb (name_eqb mem_lit) (sp_patterns P)
  (* the generated names prefix ++ digits are themselves legal *)
  && ident_body v2001_start v2001_body (sp_prefix P)
  && forallb (fun k => negb (has_prefix (sp_prefix P) k)) (ieee_keywords ++ own_names)
  && negb (has_prefix mem_lit (sp_prefix P))
  && (length mem_lit <=? length (sp_prefix P))%nat.
