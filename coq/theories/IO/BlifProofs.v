(* C12 -- proofs relating the importer model (IO/BlifImport.v, tables from
   Gen/BlifTables.v) to the BLIF semantics (IO/BlifSem.v). *)
From Coq Require Import ZArith List Bool String Lia.
From PyRTL Require Import IO.BlifSyntax IO.BlifSem Gen.BlifTables IO.BlifImport.
Import ListNotations.
Open Scope Z_scope.
Close Scope string_scope.

(* ------------------------------------------------------------------ *)
(* basic facts                                                         *)

Lemma plane_eqb_eq a b : plane_eqb a b = true -> a = b.
Proof. destruct a, b; simpl; congruence. Qed.

Lemma planes_eqb_eq : forall a b, planes_eqb a b = true -> a = b.
Proof.
  induction a as [|x a IH]; destruct b as [|y b]; simpl; try congruence.
  intro H. apply andb_prop in H. destruct H as [H1 H2].
  apply plane_eqb_eq in H1. apply IH in H2. congruence.
Qed.

Lemma planes_eqb_refl : forall a, planes_eqb a a = true.
Proof. induction a as [|x a IH]; simpl; auto. destruct x; simpl; auto. Qed.

Lemma tokens_eqb_eq : forall a b, tokens_eqb a b = true -> a = b.
Proof.
  induction a as [|x a IH]; destruct b as [|y b]; simpl; try congruence.
  intro H. apply andb_prop in H. destruct H as [H1 H2].
  apply planes_eqb_eq in H1. apply IH in H2. congruence.
Qed.

Ltac in_app_tac H := intros; apply H; repeat (first [assumption | apply in_or_app; first [left; assumption | right]]).

Lemma beval_ext : forall e r1 r2, (forall x, In x (bvars e) -> r1 x = r2 x) -> beval r1 e = beval r2 e.
Proof.
  induction e as [s|b|a IHa|a IHa b IHb|a IHa b IHb|a IHa b IHb|a IHa b IHb|c IHc t IHt f IHf|];
    simpl; intros r1 r2 H.
  - apply H. left; reflexivity.
  - reflexivity.
  - f_equal. apply IHa. exact H.
  - rewrite (IHa r1 r2), (IHb r1 r2); [reflexivity| |]; in_app_tac H.
  - rewrite (IHa r1 r2), (IHb r1 r2); [reflexivity| |]; in_app_tac H.
  - rewrite (IHa r1 r2), (IHb r1 r2); [reflexivity| |]; in_app_tac H.
  - rewrite (IHa r1 r2), (IHb r1 r2); [reflexivity| |]; in_app_tac H.
  - rewrite (IHc r1 r2), (IHt r1 r2), (IHf r1 r2); [reflexivity| | |]; in_app_tac H.
  - reflexivity.
Qed.

Lemma beval_bsubst : forall e f rho, beval rho (bsubst f e) = beval (fun x => beval rho (f x)) e.
Proof.
  induction e as [s|b|a IHa|a IHa b IHb|a IHa b IHb|a IHa b IHb|a IHa b IHb|c IHc t IHt f0 IHf|];
    simpl; intros; try reflexivity;
    try (rewrite IHa; reflexivity);
    try (rewrite IHa, IHb; reflexivity).
  rewrite IHc, IHt, IHf. reflexivity.
Qed.

Lemma absent_bsubst : forall e f,
  has_absent e = false -> (forall x, In x (bvars e) -> has_absent (f x) = false) ->
  has_absent (bsubst f e) = false.
Proof.
  induction e as [s|b|a IHa|a IHa b IHb|a IHa b IHb|a IHa b IHb|a IHa b IHb|c IHc t IHt f0 IHf|];
    simpl; intros f Ha Hv.
  - apply Hv. left; reflexivity.
  - reflexivity.
  - apply IHa; assumption.
  - apply orb_false_elim in Ha. destruct Ha as [A1 A2].
    rewrite IHa, IHb; [reflexivity|assumption| |assumption|]; in_app_tac Hv.
  - apply orb_false_elim in Ha. destruct Ha as [A1 A2].
    rewrite IHa, IHb; [reflexivity|assumption| |assumption|]; in_app_tac Hv.
  - apply orb_false_elim in Ha. destruct Ha as [A1 A2].
    rewrite IHa, IHb; [reflexivity|assumption| |assumption|]; in_app_tac Hv.
  - apply orb_false_elim in Ha. destruct Ha as [A1 A2].
    rewrite IHa, IHb; [reflexivity|assumption| |assumption|]; in_app_tac Hv.
  - apply orb_false_elim in Ha. destruct Ha as [A12 A3].
    apply orb_false_elim in A12. destruct A12 as [A1 A2].
    rewrite IHc, IHt, IHf; [reflexivity|assumption| |assumption| |assumption|]; in_app_tac Hv.
  - discriminate.
Qed.

(* ------------------------------------------------------------------ *)
(* tree_reduce / rtl_all / rtl_any                                     *)

Section TreeReduce.
  Variable g : bexp -> bool.
  Variable bop : bool -> bool -> bool.
  Variable op : bexp -> bexp -> bexp.
  Variable F : list bexp -> bool.
  Hypothesis g_op : forall a b, g (op a b) = bop (g a) (g b).
  Hypothesis F_one : forall x, F [x] = g x.
  Hypothesis F_app : forall l1 l2, l1 <> [] -> l2 <> [] -> F (l1 ++ l2) = bop (F l1) (F l2).

  Lemma tree_reduce_sem : forall n l, l <> [] -> (List.length l <= n)%nat ->
    g (tree_reduce n op l) = F l.
  Proof.
    induction n as [|n IH]; intros l Hne Hlen.
    - destruct l; [congruence | simpl in Hlen; lia].
    - destruct l as [|x [|y l']]; [congruence | simpl; symmetry; apply F_one |].
      set (l := x :: y :: l') in *.
      assert (Hl : (2 <= List.length l)%nat) by (unfold l; simpl; lia).
      change (tree_reduce (S n) op l)
        with (op (tree_reduce n op (firstn (Nat.div (List.length l) 2) l))
                 (tree_reduce n op (skipn (Nat.div (List.length l) 2) l))).
      clearbody l.
      set (h := Nat.div (List.length l) 2).
      assert (Hh1 : (1 <= h)%nat) by (unfold h; apply Nat.div_le_lower_bound; lia).
      assert (Hh2 : (h < List.length l)%nat) by (unfold h; apply Nat.div_lt; lia).
      rewrite g_op.
      rewrite IH, IH.
      + rewrite <- F_app.
        * rewrite firstn_skipn. reflexivity.
        * intro E. apply (f_equal (@List.length bexp)) in E. rewrite firstn_length in E. simpl in E. lia.
        * intro E. apply (f_equal (@List.length bexp)) in E. rewrite skipn_length in E. simpl in E. lia.
      + intro E. apply (f_equal (@List.length bexp)) in E. rewrite skipn_length in E. simpl in E. lia.
      + rewrite skipn_length. lia.
      + intro E. apply (f_equal (@List.length bexp)) in E. rewrite firstn_length in E. simpl in E. lia.
      + rewrite firstn_length. lia.
  Qed.
End TreeReduce.

Lemma rtl_all_sem rho l : beval rho (rtl_all l) = forallb (beval rho) l.
Proof.
  destruct l as [|x l]; [reflexivity|]. unfold rtl_all.
  apply (tree_reduce_sem (beval rho) andb BAnd (forallb (beval rho))).
  - reflexivity.
  - intros y. simpl. apply andb_true_r.
  - intros. apply forallb_app.
  - congruence.
  - lia.
Qed.

Lemma rtl_any_sem rho l : beval rho (rtl_any l) = existsb (beval rho) l.
Proof.
  destruct l as [|x l]; [reflexivity|]. unfold rtl_any.
  apply (tree_reduce_sem (beval rho) orb BOr (existsb (beval rho))).
  - reflexivity.
  - intros y. simpl. apply orb_false_r.
  - intros. apply existsb_app.
  - congruence.
  - lia.
Qed.

Lemma rtl_all_absent l : has_absent (rtl_all l) = existsb has_absent l.
Proof.
  destruct l as [|x l]; [reflexivity|]. unfold rtl_all.
  apply (tree_reduce_sem has_absent orb BAnd (existsb has_absent)).
  - reflexivity.
  - intros y. simpl. apply orb_false_r.
  - intros. apply existsb_app.
  - congruence.
  - lia.
Qed.

Lemma rtl_any_absent l : has_absent (rtl_any l) = existsb has_absent l.
Proof.
  destruct l as [|x l]; [reflexivity|]. unfold rtl_any.
  apply (tree_reduce_sem has_absent orb BOr (existsb has_absent)).
  - reflexivity.
  - intros y. simpl. apply orb_false_r.
  - intros. apply existsb_app.
  - congruence.
  - lia.
Qed.

(* ------------------------------------------------------------------ *)
(* the generic sum-of-products branch                                  *)

Lemma row_lits_sem rho : forall r ins rest, List.length r = List.length ins ->
  forallb (beval rho) (row_lits (ins ++ rest) r) = row_sem r (map rho ins).
Proof.
  induction r as [|p r IH]; intros ins rest Hl; destruct ins as [|s ins]; simpl in Hl; try lia; auto.
  simpl. destruct p; simpl; rewrite IH by lia; reflexivity.
Qed.

Lemma row_lits_absent : forall r ins rest, List.length r = List.length ins ->
  existsb has_absent (row_lits (ins ++ rest) r) = false.
Proof.
  induction r as [|p r IH]; intros ins rest Hl; destruct ins as [|s ins]; simpl in Hl; try lia; auto.
  simpl. destruct p; simpl; rewrite IH by lia; reflexivity.
Qed.

Lemma existsb_map {A B} (f : A -> B) (g : B -> bool) l : existsb g (map f l) = existsb (fun x => g (f x)) l.
Proof. induction l; simpl; congruence. Qed.

Lemma existsb_ext_in {A} (f g : A -> bool) l : (forall x, In x l -> f x = g x) -> existsb f l = existsb g l.
Proof.
  induction l as [|a l IH]; simpl; intro H; auto.
  rewrite H by auto. rewrite IH; auto.
Qed.

Lemma generic_cover_sem rho ins o rows :
  (forall r, In r rows -> List.length r = List.length ins) ->
  beval rho (generic_cover (ins ++ [o]) rows) = cover_sem rows (map rho ins)
  /\ has_absent (generic_cover (ins ++ [o]) rows) = false.
Proof.
  intro Hw. unfold generic_cover, cover_sem. split.
  - rewrite rtl_any_sem, existsb_map. apply existsb_ext_in. intros r Hr.
    rewrite rtl_all_sem. apply row_lits_sem. auto.
  - rewrite rtl_any_absent, existsb_map.
    rewrite (existsb_ext_in _ (fun _ => false)).
    + clear Hw. induction rows as [|a l IH]; simpl; auto.
    + intros r Hr. rewrite rtl_all_absent. apply row_lits_absent. auto.
Qed.

(* ------------------------------------------------------------------ *)
(* tokens                                                              *)

Definition rows_wfb (n : nat) (rows : list (list plane)) : bool :=
  forallb (fun r => Nat.eqb (List.length r) n) rows
  && (if Nat.eqb n 0 then Nat.leb (List.length rows) 1 else true).

Lemma cover_wf_rows sigs rows : cover_wf sigs rows = true ->
  exists ins o, sigs = (ins ++ [o])%list /\ rows_wfb (List.length ins) rows = true.
Proof.
  unfold cover_wf. destruct sigs as [|s sigs]; [discriminate|].
  intro H. exists (removelast (s :: sigs)), (last (s :: sigs) s). split.
  - apply app_removelast_last. discriminate.
  - unfold rows_wfb.
    replace (List.length (removelast (s :: sigs))) with (List.length (s :: sigs) - 1)%nat; [exact H|].
    rewrite (app_removelast_last s) at 1 by discriminate.
    rewrite app_length. simpl. lia.
Qed.

Definition tok_arity (toks : list (list plane)) : nat :=
  match toks with [] => 0 | [_] => 0 | t :: _ => List.length t end.

Definition untoken (n : nat) (toks : list (list plane)) : option (list (list plane)) :=
  if Nat.eqb n 0 then
    (if forallb (fun t => planes_eqb t [P1]) toks then Some (map (fun _ => []) toks) else None)
  else pair_tokens toks.

Lemma rows_wfb_width n rows : rows_wfb n rows = true -> forall r, In r rows -> List.length r = n.
Proof.
  unfold rows_wfb. intro H. apply andb_prop in H. destruct H as [H _].
  rewrite forallb_forall in H. intros r Hr. apply Nat.eqb_eq. auto.
Qed.

Lemma pair_tokens_rows n rows : n <> O -> (forall r, In r rows -> List.length r = n) ->
  pair_tokens (tokens_of_rows rows) = Some rows.
Proof.
  intros Hn. induction rows as [|r rows IH]; intro Hw; [reflexivity|].
  assert (Hr : List.length r = n) by (apply Hw; left; reflexivity).
  destruct r as [|p r]; [simpl in Hr; lia|].
  unfold tokens_of_rows. simpl flat_map.
  change (pair_tokens ((p :: r) :: [P1] :: tokens_of_rows rows) = Some ((p :: r) :: rows)).
  simpl. fold (tokens_of_rows rows). rewrite IH; auto. intros; apply Hw; right; auto.
Qed.

Lemma untoken_tokens n rows : rows_wfb n rows = true -> untoken n (tokens_of_rows rows) = Some rows.
Proof.
  intro H. pose proof (rows_wfb_width _ _ H) as Hw. unfold untoken.
  destruct (Nat.eqb n 0) eqn:En.
  - apply Nat.eqb_eq in En. subst n.
    assert (Hall : forall r, In r rows -> r = []).
    { intros r Hr. apply Hw in Hr. destruct r; simpl in Hr; [reflexivity|lia]. }
    clear H Hw. induction rows as [|r rows IH]; [reflexivity|].
    rewrite (Hall r) by (left; reflexivity). simpl.
    assert (IH' := IH (fun x Hx => Hall x (or_intror Hx))). clear IH.
    fold (tokens_of_rows rows).
    destruct (forallb (fun t => planes_eqb t [P1]) (tokens_of_rows rows)); [|discriminate].
    congruence.
  - apply Nat.eqb_neq in En. apply (pair_tokens_rows n); auto.
Qed.

Lemma tok_arity_tokens n rows : rows_wfb n rows = true -> rows <> [] ->
  tok_arity (tokens_of_rows rows) = n.
Proof.
  intros H Hne. pose proof (rows_wfb_width _ _ H) as Hw.
  unfold rows_wfb in H. apply andb_prop in H. destruct H as [_ H].
  destruct (Nat.eqb n 0) eqn:En.
  - apply Nat.eqb_eq in En. subst n. apply Nat.leb_le in H.
    destruct rows as [|r [|r2 rows]]; simpl in H; try lia; [reflexivity|].
    assert (r = []) by (assert (List.length r = O) by (apply Hw; left; reflexivity); destruct r; simpl in *; [auto|lia]).
    subst r. reflexivity.
  - apply Nat.eqb_neq in En.
    destruct rows as [|r rows]; [congruence|].
    assert (Hr : List.length r = n) by (apply Hw; left; reflexivity).
    destruct r as [|p r]; [simpl in Hr; lia|]. simpl. exact Hr.
Qed.

Lemma tokens_nonempty rows : rows <> [] -> tokens_of_rows rows <> [].
Proof.
  destruct rows as [|r rows]; [congruence|]. intros _. unfold tokens_of_rows. simpl.
  destruct r; discriminate.
Qed.

(* ------------------------------------------------------------------ *)
(* the special-case table: every entry is checked, by evaluation, against
   cover_sem on ALL valuations of its (fixed, finite) input list          *)

Fixpoint all_vals (n : nat) : list (list bool) :=
  match n with
  | O => [[]]
  | S k => (map (cons false) (all_vals k) ++ map (cons true) (all_vals k))%list
  end.

Lemma in_all_vals : forall vs, In vs (all_vals (List.length vs)).
Proof.
  induction vs as [|b vs IH]; simpl; [auto|].
  apply in_or_app. destruct b; [right|left]; apply in_map; exact IH.
Qed.

Definition env_of (vs : list bool) (x : sig) : bool :=
  match x with L i => nth (Z.to_nat i) vs false | _ => false end.

Definition var_in_range (n : nat) (x : sig) : bool :=
  match x with L i => (0 <=? i) && (i <? Z.of_nat n) | _ => false end.

(* the destination index (Python indexing into netio) denotes the LAST signal *)
Definition dest_is_last (k : Z) (n : nat) : bool := Z.eqb k (Z.of_nat n) || Z.eqb k (-1).

(* a literal with at least one token fixes the number of inputs *)
Definition special_rows_ok (toks : list (list plane)) (k : Z) (e : bexp) : bool :=
  let n := tok_arity toks in
  match untoken n toks with
  | Some rows =>
      if rows_wfb n rows then
        dest_is_last k n && negb (has_absent e) && forallb (var_in_range n) (bvars e)
        && forallb (fun vs => Bool.eqb (beval (env_of vs) e) (cover_sem rows vs)) (all_vals n)
      else true
  | None => true
  end.

(* the empty literal (no rows) matches covers of EVERY arity: the destination
   must be netio[-1], the expression closed and equal to 0 *)
Definition special_entry_ok (en : list (list plane) * Z * bexp) : bool :=
  let '(toks, k, e) := en in
  match toks with
  | [] => Z.eqb k (-1) && negb (has_absent e)
          && (match bvars e with [] => true | _ => false end)
          && negb (beval (fun _ => false) e)
  | _ :: _ => special_rows_ok toks k e
  end.

(* bound: 8 entries x at most 2^2 valuations (as many as the table has) *)
Lemma cover_special_table_ok : forallb special_entry_ok cover_special_table = true.
Proof. vm_compute. reflexivity. Qed.

Lemma cover_const1_special : find_special cover_special_table [[P1]] <> None.
Proof. vm_compute. discriminate. Qed.

Lemma find_special_in : forall tbl toks k e, find_special tbl toks = Some (k, e) -> In (toks, k, e) tbl.
Proof.
  induction tbl as [|[[t k0] e0] tbl IH]; simpl; intros toks k e H; [discriminate|].
  destruct (tokens_eqb toks t) eqn:E.
  - apply tokens_eqb_eq in E. inversion H; subst. left; reflexivity.
  - right. apply IH. exact H.
Qed.

Lemma nth_error_app_last {A} (l : list A) (x : A) : nth_error (l ++ [x]) (List.length l) = Some x.
Proof. rewrite nth_error_app2 by lia. rewrite Nat.sub_diag. reflexivity. Qed.

Lemma last_app_one {A} (l : list A) (x d : A) : last (l ++ [x]) d = x.
Proof. apply last_last. Qed.

Lemma removelast_app_one {A} (l : list A) (x : A) : removelast (l ++ [x]) = l.
Proof. apply removelast_last. Qed.

Lemma twire_ix_in_range ins o i : 0 <= i < Z.of_nat (List.length ins) ->
  twire_ix (ins ++ [o]) (L i) = BVar (nth (Z.to_nat i) ins o).
Proof.
  intros [H0 H1]. unfold twire_ix.
  destruct (0 <=? i) eqn:E; [|apply Z.leb_gt in E; lia].
  rewrite nth_error_app1 by lia.
  rewrite (nth_error_nth' ins o) by lia. reflexivity.
Qed.

Lemma py_index_last {A} (ins : list A) (o : A) k :
  dest_is_last k (List.length ins) = true -> py_index (ins ++ [o]) k = Some o.
Proof.
  unfold dest_is_last, py_index. intro H. rewrite app_length. simpl List.length.
  apply orb_prop in H. destruct H as [H|H]; apply Z.eqb_eq in H; subst k.
  - destruct (0 <=? Z.of_nat (List.length ins)) eqn:E; [|apply Z.leb_gt in E; lia].
    rewrite ?E. rewrite Nat2Z.id. apply nth_error_app_last.
  - change (0 <=? -1) with false. cbv iota.
    replace (Z.of_nat (List.length ins + 1) + -1) with (Z.of_nat (List.length ins)) by lia.
    destruct (0 <=? Z.of_nat (List.length ins)) eqn:E; [|apply Z.leb_gt in E; lia].
    rewrite Nat2Z.id. apply nth_error_app_last.
Qed.

Lemma last_opt_app_one {A} (l : list A) (x : A) : last_opt (l ++ [x]) = Some x.
Proof.
  unfold last_opt. destruct (l ++ [x])%list as [|a l0] eqn:E.
  - destruct l; discriminate.
  - f_equal. assert (H : last (a :: l0) a = x) by (rewrite <- E; apply last_last).
    destruct l0; simpl in *; auto.
Qed.

(* THE COVER THEOREM *)
Lemma cover_correct : forall sigs rows, cover_wf sigs rows = true ->
  exists e, extract_cover sigs rows = Some (last sigs (L 0), e)
            /\ forall rho, beval rho e = cover_sem rows (map rho (removelast sigs)).
Proof.
  intros sigs rows Hwf.
  destruct (cover_wf_rows _ _ Hwf) as (ins & o & -> & Hrows).
  set (n := List.length ins) in *.
  rewrite last_app_one, removelast_app_one.
  unfold extract_cover.
  destruct (find_special cover_special_table (tokens_of_rows rows)) as [[k e0]|] eqn:Hf.
  - (* a special-cased literal *)
    apply find_special_in in Hf.
    pose proof cover_special_table_ok as Hok. rewrite forallb_forall in Hok.
    specialize (Hok _ Hf). unfold special_entry_ok in Hok.
    destruct rows as [|r0 rows0].
    + (* no rows: constant 0 at every arity *)
      simpl in Hok.
      apply andb_prop in Hok. destruct Hok as [Hok Hsem].
      apply andb_prop in Hok. destruct Hok as [Hok Hvars].
      apply andb_prop in Hok. destruct Hok as [Hk Habs].
      apply negb_true_iff in Habs. apply negb_true_iff in Hsem.
      destruct (bvars e0) eqn:Hbv; [|discriminate].
      rewrite (py_index_last ins o k) by (unfold dest_is_last; rewrite Hk; apply orb_true_r).
      rewrite absent_bsubst; [|exact Habs|rewrite Hbv; intros x []].
      eexists. split; [reflexivity|].
      intro rho. rewrite beval_bsubst.
      rewrite (beval_ext e0 _ (fun _ => false)) by (rewrite Hbv; intros x []).
      exact Hsem.
    + assert (Hne : r0 :: rows0 <> []) by discriminate.
      set (rows := r0 :: rows0) in *.
      destruct (tokens_of_rows rows) as [|t ts] eqn:Etok; [exfalso; exact (tokens_nonempty rows Hne Etok)|].
      rewrite <- Etok in Hok. unfold special_rows_ok in Hok.
      rewrite (tok_arity_tokens n), (untoken_tokens n), Hrows in Hok by assumption.
      apply andb_prop in Hok. destruct Hok as [Hok Hsem].
      apply andb_prop in Hok. destruct Hok as [Hok Hvars].
      apply andb_prop in Hok. destruct Hok as [Hk Habs].
      apply negb_true_iff in Habs.
      rewrite forallb_forall in Hvars. rewrite forallb_forall in Hsem.
      rewrite (py_index_last ins o k Hk).
      assert (Hva : forall x, In x (bvars e0) -> exists i, x = L i /\ 0 <= i < Z.of_nat n).
      { intros x Hx. apply Hvars in Hx. destruct x as [i|]; [|discriminate].
        simpl in Hx. apply andb_prop in Hx. destruct Hx as [A B].
        apply Z.leb_le in A. apply Z.ltb_lt in B. exists i. split; [reflexivity|lia]. }
      rewrite absent_bsubst; [|exact Habs|].
      2:{ intros x Hx. destruct (Hva x Hx) as (i & -> & Hi).
          rewrite twire_ix_in_range by exact Hi. reflexivity. }
      eexists. split; [reflexivity|].
      intro rho. rewrite beval_bsubst.
      rewrite (beval_ext e0 _ (env_of (map rho ins))).
      * specialize (Hsem (map rho ins)).
        assert (Hin : In (map rho ins) (all_vals n)).
        { replace n with (List.length (map rho ins)) by (rewrite map_length; reflexivity). apply in_all_vals. }
        apply Hsem in Hin. apply eqb_prop in Hin. exact Hin.
      * intros x Hx. destruct (Hva x Hx) as (i & -> & Hi).
        rewrite twire_ix_in_range by exact Hi. simpl.
        rewrite <- (map_nth rho ins o).
        apply nth_indep. rewrite map_length. lia.
  - (* generic sum of products *)
    destruct (Nat.eqb n 0) eqn:En.
    + (* no inputs: rows = [] (constant 0 through the generic path) or [[]] (always special) *)
      apply Nat.eqb_eq in En.
      pose proof (rows_wfb_width _ _ Hrows) as Hw.
      unfold rows_wfb in Hrows. rewrite En in Hrows. simpl in Hrows.
      apply andb_prop in Hrows. destruct Hrows as [_ Hlen]. apply Nat.leb_le in Hlen.
      destruct rows as [|r [|r2 rows]]; simpl in Hlen; try lia.
      * simpl. unfold n in En. destruct ins; [|simpl in En; lia]. simpl.
        eexists. split; [reflexivity|]. intro rho. reflexivity.
      * assert (r = []).
        { assert (List.length r = n) by (apply Hw; left; reflexivity). destruct r; simpl in *; [auto|lia]. }
        subst r. simpl in Hf. exfalso. apply cover_const1_special. exact Hf.
    + apply Nat.eqb_neq in En.
      rewrite (pair_tokens_rows n) by (auto; apply rows_wfb_width; exact Hrows).
      assert (Hlast : last_opt (ins ++ [o]) = Some o) by apply last_opt_app_one.
      rewrite Hlast.
      destruct (generic_cover_sem (fun _ => false) ins o rows (rows_wfb_width _ _ Hrows)) as [_ Ha].
      rewrite Ha. eexists. split; [reflexivity|].
      intro rho. apply generic_cover_sem. apply rows_wfb_width. exact Hrows.
Qed.

(* ------------------------------------------------------------------ *)
(* the flip-flop table                                                 *)

Definition bools : list bool := [false; true].

Lemma in_bools b : In b bools.
Proof. destruct b; simpl; auto. Qed.

(* pins a cell has, by its decoded name: L 0 = D, L 1 = E, L 2 = S, L 3 = R, L 4 = Q *)
Definition pin_allowed (cd : cell_desc) (x : sig) : bool :=
  let i := pin_index x in
  if i =? 0 then true
  else if i =? 1 then (match cd_en cd with Some _ => true | None => false end)
  else if i =? 2 then (match cd_set cd with Some _ => true | None => false end)
  else if i =? 3 then (match cd_rst cd with Some _ => true | None => false end)
  else if i =? 4 then true else false.

Definition flop_entry_ok (cell : String.string) : bool :=
  match str_assoc flop_table cell, decode_cell (canon_cell cell) with
  | Some body, Some cd =>
      negb (has_absent body) && forallb (pin_allowed cd) (bvars body) &&
      forallb (fun d => forallb (fun e => forallb (fun s => forallb (fun r => forallb (fun q =>
        Bool.eqb (beval (flop_env d e s r q) body) (dff_next cd d e s r q))
        bools) bools) bools) bools) bools
  | _, _ => false
  end.

(* bound: 32 listed cells x 2^5 valuations of (D, E, S, R, Q) -- the whole domain *)
Lemma flop_table_ok : forallb flop_entry_ok dff_names = true.
Proof. vm_compute. reflexivity. Qed.

Lemma flop_table_correct : forall cell, In cell dff_names ->
  exists body cd,
    str_assoc flop_table cell = Some body /\ decode_cell (canon_cell cell) = Some cd
    /\ has_absent body = false
    /\ (forall x, In x (bvars body) -> pin_allowed cd x = true)
    /\ forall d e s r q, beval (flop_env d e s r q) body = dff_next cd d e s r q.
Proof.
  intros cell Hin. pose proof flop_table_ok as H. rewrite forallb_forall in H.
  specialize (H _ Hin). unfold flop_entry_ok in H.
  destruct (str_assoc flop_table cell) as [body|]; [|discriminate].
  destruct (decode_cell (canon_cell cell)) as [cd|]; [|discriminate].
  apply andb_prop in H. destruct H as [H Hsem]. apply andb_prop in H. destruct H as [Ha Hp].
  exists body, cd. repeat split; auto.
  - apply negb_true_iff. exact Ha.
  - rewrite forallb_forall in Hp. exact Hp.
  - intros d e s r q.
    rewrite forallb_forall in Hsem. specialize (Hsem d (in_bools d)).
    rewrite forallb_forall in Hsem. specialize (Hsem e (in_bools e)).
    rewrite forallb_forall in Hsem. specialize (Hsem s (in_bools s)).
    rewrite forallb_forall in Hsem. specialize (Hsem r (in_bools r)).
    rewrite forallb_forall in Hsem. specialize (Hsem q (in_bools q)).
    apply eqb_prop. exact Hsem.
Qed.

(* every key of dff_names has a row and vice versa (the NOTE in the source) *)
Lemma dff_names_table_consistent :
  forallb (fun c => existsb (String.eqb c) (map fst flop_table)) dff_names = true
  /\ forallb (fun c => existsb (String.eqb c) dff_names) (map fst flop_table) = true.
Proof. vm_compute. split; reflexivity. Qed.

Lemma flop_args_env rho d q e s r x :
  beval rho (flop_args d q e s r x)
  = flop_env (rho d) (opt_ev rho e) (opt_ev rho s) (opt_ev rho r) (rho q) x.
Proof.
  unfold flop_args, flop_env.
  destruct (pin_index x =? 0); [reflexivity|].
  destruct (pin_index x =? 1); [destruct e; reflexivity|].
  destruct (pin_index x =? 2); [destruct s; reflexivity|].
  destruct (pin_index x =? 3); [destruct r; reflexivity|].
  destruct (pin_index x =? 4); reflexivity.
Qed.

Lemma extract_flop_sem cell d q e s r o dr :
  extract_flop cell d q e s r = Some (o, dr) ->
  o = q /\ exists nx cd, dr = DReg nx flop_reset /\ decode_cell (canon_cell cell) = Some cd /\
    forall rho, beval rho nx
      = dff_next cd (rho d) (opt_ev rho e) (opt_ev rho s) (opt_ev rho r) (rho q).
Proof.
  unfold extract_flop. destruct (existsb (String.eqb cell) dff_names) eqn:Hin; [|discriminate].
  apply existsb_exists in Hin. destruct Hin as (c' & Hin & Heq). apply String.eqb_eq in Heq. subst c'.
  destruct (flop_table_correct cell Hin) as (body & cd & Hb & Hd & _ & _ & Hsem).
  rewrite Hb. destruct (has_absent (bsubst (flop_args d q e s r) body)); [discriminate|].
  intro H. injection H as Ho Hdr. subst o dr. split; [reflexivity|].
  eexists. exists cd. repeat split; auto.
  intro rho. rewrite beval_bsubst.
  rewrite (beval_ext body _ (flop_env (rho d) (opt_ev rho e) (opt_ev rho s) (opt_ev rho r) (rho q))).
  - apply Hsem.
  - intros x _. apply flop_args_env.
Qed.

(* ------------------------------------------------------------------ *)
(* .latch initial values                                               *)

Definition reset_bool (r : option Z) : bool :=
  match r with Some z => negb (Z.eqb z 0) | None => false end.

Lemma latch_init_table_ok :
  forallb (fun code => match latch_init_map code with
                       | Some r => init_code_okb code (reset_bool r)
                       | None => false
                       end) latch_init_codes = true
  /\ forallb (fun code => existsb (Z.eqb code) latch_init_codes) [0; 1; 2; 3] = true
  /\ existsb (Z.eqb latch_init_default) latch_init_codes = true.
Proof. vm_compute. repeat split; reflexivity. Qed.

Lemma init_code_okb_ok code v : init_code_okb code v = true -> init_code_ok code v.
Proof.
  unfold init_code_okb, init_code_ok.
  destruct (Z.eqb_spec code 0); [intros; subst; split; [intros _; destruct v; auto; discriminate | lia] |].
  destruct (Z.eqb_spec code 1); [intros; subst; split; [lia | auto] |].
  intros _. split; intro; lia.
Qed.

Lemma latch_init_correct : forall code, 0 <= code <= 3 ->
  exists r, latch_init_map code = Some r /\ existsb (Z.eqb code) latch_init_codes = true
            /\ init_code_ok code (reset_bool r).
Proof.
  intros code Hc. destruct latch_init_table_ok as (H1 & H2 & _).
  rewrite forallb_forall in H1. rewrite forallb_forall in H2.
  assert (Hin : In code [0; 1; 2; 3]) by (simpl; lia).
  specialize (H2 _ Hin). pose proof H2 as H2'.
  apply existsb_exists in H2. destruct H2 as (c & Hc1 & Hc2). apply Z.eqb_eq in Hc2. subst c.
  specialize (H1 _ Hc1). destruct (latch_init_map code) as [r|]; [|discriminate].
  exists r. split; [reflexivity|]. split; [exact H2'|]. apply init_code_okb_ok. exact H1.
Qed.

(* ------------------------------------------------------------------ *)
(* flat models: the imported circuit computes blif_run                 *)

Definition cmd_wf (c : command) : bool :=
  match c with Names sigs rows => cover_wf sigs rows | Subckt _ _ => false | _ => true end.

Definition model_wf (m : model) : bool := forallb cmd_wf (mcmds m).

Lemma import_cmd_out c o d : cmd_wf c = true -> import_cmd c = Some (o, d) -> cmd_out c = Some o.
Proof.
  destruct c as [sigs rows|d0 q i|cell d0 q e s r|n b]; simpl; intros Hwf H.
  - destruct (cover_correct sigs rows Hwf) as (e & He & _). rewrite He in H. inversion H; subst.
    destruct (cover_wf_rows _ _ Hwf) as (ins & o' & -> & _).
    rewrite last_opt_app_one, last_app_one. reflexivity.
  - unfold extract_latch in H. destruct (existsb (Z.eqb i) latch_init_codes); [|discriminate].
    destruct (latch_init_map i); inversion H; reflexivity.
  - apply extract_flop_sem in H. destruct H as [-> _]. reflexivity.
  - discriminate.
Qed.

Lemma import_lookup : forall cmds ds, forallb cmd_wf cmds = true -> mapM import_cmd cmds = Some ds ->
  forall x, match find_drv cmds x with
            | Some c => exists o d, import_cmd c = Some (o, d) /\ sassoc ds x = Some d /\ cmd_wf c = true
            | None => sassoc ds x = None
            end.
Proof.
  induction cmds as [|c cmds IH]; simpl; intros ds Hwf Hm x.
  - inversion Hm. reflexivity.
  - apply andb_prop in Hwf. destruct Hwf as [Hc Hwf].
    destruct (import_cmd c) as [[o d]|] eqn:Hi; [|discriminate].
    destruct (mapM import_cmd cmds) as [ds'|] eqn:Hm'; [|discriminate].
    inversion Hm; subst ds. rewrite (import_cmd_out c o d Hc Hi). simpl.
    destruct (sig_eqb o x).
    + exists o, d. auto.
    + apply IH; auto.
Qed.

Section Flat.
  Variable m : model.
  Variable ds : list (sig * drv).
  Hypothesis Hwf : model_wf m = true.
  Hypothesis Himp : mapM import_cmd (mcmds m) = Some ds.
  Let c := mkCircuit (minputs m) (moutputs m) ds.

  Lemma flat_ev : forall fuel st ins x, c_ev fuel c st ins x = blif_ev fuel m st ins x.
  Proof.
    induction fuel as [|f IH]; intros st ins x; [reflexivity|].
    simpl. destruct (sig_mem x (minputs m)); [reflexivity|].
    pose proof (import_lookup _ _ Hwf Himp x) as Hl.
    destruct (find_drv (mcmds m) x) as [cmd|].
    - destruct Hl as (o & d & Hi & Hs & Hc). rewrite Hs.
      destruct cmd as [sigs rows|d0 q i|cell d0 q e s r|n b]; simpl in Hi, Hc.
      + destruct (cover_correct sigs rows Hc) as (e & He & Hsem). rewrite He in Hi.
        inversion Hi; subst. rewrite Hsem. f_equal. apply map_ext. intro y. apply IH.
      + unfold extract_latch in Hi. destruct (existsb (Z.eqb i) latch_init_codes); [|discriminate].
        destruct (latch_init_map i); inversion Hi; reflexivity.
      + apply extract_flop_sem in Hi. destruct Hi as (_ & nx & cd & -> & _). reflexivity.
      + discriminate.
    - rewrite Hl. reflexivity.
  Qed.

  Lemma opt_ev_ext f g o : (forall x, f x = g x) -> opt_ev f o = opt_ev g o.
  Proof. intro H. destruct o; simpl; auto. Qed.

  Lemma flat_next : forall fuel st ins cmds' ds', forallb cmd_wf cmds' = true ->
    mapM import_cmd cmds' = Some ds' ->
    flat_map (c_next fuel c st ins) ds' = flat_map (blif_next fuel m st ins) cmds'.
  Proof.
    intros fuel st ins. induction cmds' as [|cmd cmds' IH]; simpl; intros ds' Hw Hm.
    - inversion Hm. reflexivity.
    - apply andb_prop in Hw. destruct Hw as [Hc Hw].
      destruct (import_cmd cmd) as [[o d]|] eqn:Hi; [|discriminate].
      destruct (mapM import_cmd cmds') as [ds''|] eqn:Hm'; [|discriminate].
      inversion Hm; subst ds'. simpl. rewrite (IH ds'' Hw eq_refl). f_equal.
      destruct cmd as [sigs rows|d0 q i|cell d0 q e s r|n b]; simpl in Hi, Hc.
      + destruct (extract_cover sigs rows) as [[o' e']|]; inversion Hi; reflexivity.
      + unfold extract_latch in Hi. destruct (existsb (Z.eqb i) latch_init_codes); [|discriminate].
        destruct (latch_init_map i); inversion Hi; subst. simpl. rewrite flat_ev. reflexivity.
      + apply extract_flop_sem in Hi. destruct Hi as (-> & nx & cd & -> & Hd & Hsem).
        simpl. rewrite Hd, Hsem. rewrite !flat_ev.
        rewrite (opt_ev_ext _ (blif_ev fuel m st ins) e), (opt_ev_ext _ (blif_ev fuel m st ins) s),
                (opt_ev_ext _ (blif_ev fuel m st ins) r); auto using flat_ev.
      + discriminate.
  Qed.

  Lemma flat_step fuel st ins : c_step fuel c st ins = blif_step fuel m st ins.
  Proof.
    unfold c_step, blif_step. f_equal.
    - simpl. apply map_ext. intro x. apply flat_ev.
    - apply flat_next; [exact Hwf | exact Himp].
  Qed.

  Lemma flat_run fuel : forall inss st, c_run fuel c st inss = blif_run fuel m st inss.
  Proof.
    induction inss as [|i inss IH]; intro st; [reflexivity|].
    cbn [c_run blif_run]. rewrite flat_step. destruct (blif_step fuel m st i) as [o st']. rewrite IH. reflexivity.
  Qed.
End Flat.

Lemma c_init_lookup : forall ds x n r, sassoc ds x = Some (DReg n r) ->
  slookup (c_init (mkCircuit [] [] ds)) x = reset_bool r.
Proof.
  unfold c_init. simpl.
  induction ds as [|[y d] ds IH]; simpl; intros x n r H; [discriminate|].
  destruct (sig_eqb y x) eqn:E.
  - inversion H; subst d. destruct r as [z|]; unfold slookup; simpl; rewrite E; reflexivity.
  - specialize (IH x n r H). destruct d as [e|n' [z|]]; simpl; auto;
      unfold slookup in *; simpl; rewrite E; exact IH.
Qed.

Theorem flat_import_correct : forall m c, model_wf m = true -> import_flat m = Some c ->
  (forall fuel st inss, c_run fuel c st inss = blif_run fuel m st inss)
  /\ blif_init_ok m (slookup (c_init c)).
Proof.
  intros m c Hwf Hi. unfold import_flat in Hi.
  destruct (mapM import_cmd (mcmds m)) as [ds|] eqn:Hm; [|discriminate]. inversion Hi; subst c.
  split.
  - intros. apply flat_run; assumption.
  - intros x d q i Hf.
    pose proof (import_lookup _ _ Hwf Hm x) as Hl. rewrite Hf in Hl.
    destruct Hl as (o & dr & Hic & Hs & _). simpl in Hic.
    unfold extract_latch in Hic. destruct (existsb (Z.eqb i) latch_init_codes) eqn:Hcode; [|discriminate].
    destruct (latch_init_map i) as [r|] eqn:Hmap; [|discriminate]. inversion Hic; subst.
    change (c_init {| c_inputs := minputs m; c_outputs := moutputs m; c_drv := ds |})
      with (c_init (mkCircuit [] [] ds)).
    rewrite (c_init_lookup ds x _ _ Hs).
    destruct latch_init_table_ok as (H1 & _). rewrite forallb_forall in H1.
    apply existsb_exists in Hcode. destruct Hcode as (c0 & Hc0 & Heq). apply Z.eqb_eq in Heq. subst c0.
    specialize (H1 _ Hc0). rewrite Hmap in H1. apply init_code_okb_ok. exact H1.
Qed.

(* ------------------------------------------------------------------ *)
(* vector ports (merge_io_vectors=True)                                *)

Lemma vec_merge_bit : forall bits i, vec_bit (vec_merge bits) i = nth i bits false.
Proof.
  unfold vec_bit. induction bits as [|b bits IH]; intro i.
  - simpl. destruct i; apply Z.testbit_0_l.
  - cbn [vec_merge]. destruct i as [|i].
    + simpl. apply Z.add_b2z_double_bit0.
    + rewrite Nat2Z.inj_succ. rewrite (Z.add_comm (Z.b2z b)).
      rewrite Z.testbit_succ_r by lia. simpl. apply IH.
Qed.

Lemma vec_merge_range : forall bits, 0 <= vec_merge bits < 2 ^ Z.of_nat (List.length bits).
Proof.
  induction bits as [|b bits IH]; [simpl; lia|].
  cbn [vec_merge List.length]. rewrite Nat2Z.inj_succ, Z.pow_succ_r by lia.
  destruct b; simpl Z.b2z; lia.
Qed.
