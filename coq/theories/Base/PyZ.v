(* Python `int` operations on Z, and the bit-level lemmas every other file uses.
   Python ints are unbounded two's-complement integers; Coq's Z.land/Z.lor/
   Z.lxor/Z.lnot/Z.shiftl/Z.shiftr implement exactly that semantics (floor shifts,
   infinite sign extension), so the model maps each Python operator to the
   homonymous Z function. *)
From Coq Require Export ZArith List Bool Lia.
From Coq Require Import ZifyBool.
Export ListNotations.
Open Scope Z_scope.

Definition b2z (b : bool) : Z := if b then 1 else 0.

(* mask of the w low bits: Python `(1 << w) - 1`, WireVector.bitmask *)
Definition mask (w : Z) : Z := Z.ones w.

(* `val & wirevector.bitmask` *)
Definition sanitize (v w : Z) : Z := Z.land v (mask w).

(* value is representable in w bits *)
Definition inrange (v w : Z) : Prop := 0 <= v < 2 ^ w.
Definition inrangeb (v w : Z) : bool := (0 <=? v) && (v <? 2 ^ w).

Lemma inrangeb_spec v w : inrangeb v w = true <-> inrange v w.
Proof. unfold inrangeb, inrange. lia. Qed.

Lemma mask_eq w : 0 <= w -> mask w = 2 ^ w - 1.
Proof. intros. unfold mask. rewrite Z.ones_equiv. lia. Qed.

Lemma sanitize_mod v w : 0 <= w -> sanitize v w = v mod 2 ^ w.
Proof. intros. unfold sanitize, mask. apply Z.land_ones; assumption. Qed.

Lemma sanitize_range v w : 0 <= w -> inrange (sanitize v w) w.
Proof.
  intros. rewrite sanitize_mod by assumption. unfold inrange.
  apply Z.mod_pos_bound. apply Z.pow_pos_nonneg; lia.
Qed.

Lemma sanitize_id v w : 0 <= w -> inrange v w -> sanitize v w = v.
Proof.
  intros Hw Hr. rewrite sanitize_mod by assumption. apply Z.mod_small. exact Hr.
Qed.

Lemma mod_range v w : 0 <= w -> inrange (v mod 2 ^ w) w.
Proof. intros. unfold inrange. apply Z.mod_pos_bound. apply Z.pow_pos_nonneg; lia. Qed.

Lemma pow2_pos w : 0 <= w -> 0 < 2 ^ w.
Proof. intros. apply Z.pow_pos_nonneg; lia. Qed.

(* testbit characterisation of being in range *)
Lemma inrange_testbit v w : 0 <= w -> inrange v w ->
  forall i, w <= i -> Z.testbit v i = false.
Proof.
  intros Hw [H0 H1] i Hi.
  destruct (Z.eq_dec v 0) as [->|Hne]; [apply Z.bits_0|].
  apply Z.bits_above_log2; [lia|].
  apply Z.log2_lt_pow2; [lia|].
  eapply Z.lt_le_trans; [exact H1|]. apply Z.pow_le_mono_r; lia.
Qed.

Lemma testbit_inrange v w : 0 <= w -> 0 <= v ->
  (forall i, w <= i -> Z.testbit v i = false) -> inrange v w.
Proof.
  intros Hw Hv H. split; [assumption|].
  destruct (Z.eq_dec v 0) as [->|Hne]; [apply pow2_pos; assumption|].
  destruct (Z.lt_ge_cases v (2 ^ w)) as [Hlt|Hge]; [assumption|exfalso].
  assert (Hl : w <= Z.log2 v) by (apply Z.log2_le_pow2; lia).
  specialize (H (Z.log2 v) Hl). rewrite Z.bit_log2 in H by lia. discriminate.
Qed.

Lemma testbit_mod_pow2 v w i : 0 <= w -> 0 <= i ->
  Z.testbit (v mod 2 ^ w) i = if i <? w then Z.testbit v i else false.
Proof.
  intros Hw Hi. destruct (i <? w) eqn:E.
  - apply Z.mod_pow2_bits_low. lia.
  - apply Z.mod_pow2_bits_high. lia.
Qed.

(* Equality of two in-range values from equality of their low bits *)
Lemma inrange_bits_eq a b w : 0 <= w -> inrange a w -> inrange b w ->
  (forall i, 0 <= i < w -> Z.testbit a i = Z.testbit b i) -> a = b.
Proof.
  intros Hw Ha Hb H. apply Z.bits_inj'. intros i Hi.
  destruct (Z.lt_ge_cases i w).
  - apply H. lia.
  - rewrite (inrange_testbit a w), (inrange_testbit b w); auto.
Qed.

Lemma mod_bits_eq a b w : 0 <= w ->
  (forall i, 0 <= i < w -> Z.testbit a i = Z.testbit b i) -> a mod 2 ^ w = b mod 2 ^ w.
Proof.
  intros Hw H. apply Z.bits_inj'. intros i Hi.
  rewrite !testbit_mod_pow2 by lia. destruct (i <? w) eqn:E; [apply H; lia|reflexivity].
Qed.

(* ~x masked to w bits is the w-bit complement *)
Lemma lnot_mask x w : 0 <= w -> inrange x w -> sanitize (Z.lnot x) w = 2 ^ w - 1 - x.
Proof.
  intros Hw [H0 H1]. rewrite sanitize_mod by assumption. unfold Z.lnot.
  replace (Z.pred (- x)) with ((2 ^ w - 1 - x) + (-1) * 2 ^ w) by lia.
  rewrite Z.mod_add by (pose proof (pow2_pos w Hw); lia).
  apply Z.mod_small. lia.
Qed.

Lemma land_range a b w : 0 <= w -> inrange a w -> inrange b w -> inrange (Z.land a b) w.
Proof.
  intros Hw Ha Hb. apply testbit_inrange; [assumption| apply Z.land_nonneg; left; apply Ha |].
  intros i Hi. rewrite Z.land_spec, (inrange_testbit a w) by auto. reflexivity.
Qed.

Lemma lor_range a b w : 0 <= w -> inrange a w -> inrange b w -> inrange (Z.lor a b) w.
Proof.
  intros Hw Ha Hb. apply testbit_inrange; [assumption| apply Z.lor_nonneg; split; [apply Ha|apply Hb] |].
  intros i Hi. rewrite Z.lor_spec, (inrange_testbit a w), (inrange_testbit b w) by auto. reflexivity.
Qed.

Lemma lxor_range a b w : 0 <= w -> inrange a w -> inrange b w -> inrange (Z.lxor a b) w.
Proof.
  intros Hw Ha Hb. apply testbit_inrange; [assumption| apply Z.lxor_nonneg; split; intros; [apply Hb|apply Ha] |].
  intros i Hi. rewrite Z.lxor_spec, (inrange_testbit a w), (inrange_testbit b w) by auto. reflexivity.
Qed.

Lemma inrange_mono v w w' : w <= w' -> inrange v w -> inrange v w'.
Proof.
  intros Hle [H0 H1]. split; [assumption|].
  destruct (Z.lt_ge_cases w 0) as [Hn|Hn].
  - rewrite Z.pow_neg_r in H1 by assumption. lia.
  - eapply Z.lt_le_trans; [exact H1|]. apply Z.pow_le_mono_r; lia.
Qed.

Lemma inrange_nonneg_w v w : inrange v w -> 0 <= w.
Proof.
  intros [H0 H1]. destruct (Z.lt_ge_cases w 0) as [Hn|Hn]; [|assumption].
  rewrite Z.pow_neg_r in H1 by assumption. lia.
Qed.

(* Python's  len(bin(x)) - 2  for x >= 0  and  x.bit_length() *)
Definition bit_length (x : Z) : Z := if x =? 0 then 0 else Z.log2 (Z.abs x) + 1.
Definition len_bin (x : Z) : Z := if x =? 0 then 1 else Z.log2 (Z.abs x) + 1.

Lemma bit_length_le x w : 0 <= x -> 0 <= w -> (bit_length x <= w <-> x < 2 ^ w).
Proof.
  intros Hx Hw. unfold bit_length. destruct (x =? 0) eqn:E.
  - assert (x = 0) by lia. subst. pose proof (pow2_pos w Hw). lia.
  - assert (0 < x) by lia. rewrite Z.abs_eq by lia. split; intro H1.
    + apply Z.log2_lt_pow2; lia.
    + apply Z.log2_lt_pow2 in H1; lia.
Qed.
