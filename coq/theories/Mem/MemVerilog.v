(* C08 -- the exported Verilog module under the Verilog semantics of IO/VerilogSem.v
   (the formalisation of the IEEE 1364-2001 subset written for C05): how a memory of ANY
   module of that subset evolves, stated in the vocabulary of Mem/MemDefs.v, and the entry
   point the harness evaluates.  DEFINITIONS ONLY (proofs: Mem/MemVerilogProofs.v). *)
From PyRTL Require Export IO.VerilogSem.
From PyRTL Require Import Mem.MemDefs Mem.MemHarness.

(* what the statement `if (en) begin mem_<mm>[addr] <= data; end` presents to the memory
   under the settled pre-edge valuation [env] *)
Definition vport (m : vmodule) (mm : Z) (env : Z -> Z) (w : vmemwrite) : wport :=
  (env (vw_addr w), env (vw_data w) mod 2 ^ memwidth m mm, env (vw_en w)).

(* the read assigns `assign x = mem_<mm>[a];` of memory mm, as (x, a) *)
Definition vreads_of (m : vmodule) (mm : Z) : list (Z * Z) :=
  map (fun r => (fst r, snd (snd r))) (filter (fun r => fst (snd r) =? mm) (m_memrds m)).

(* the cycle memory mm goes through when the module sits in valuation [env] *)
Definition vcycle (m : vmodule) (mm : Z) (ws : list vmemwrite) (env : Z -> Z) : cycle :=
  (map (vport m mm env) ws, map (fun xa => env (snd xa)) (vreads_of m mm)).

(* the state reached after the clock edges of a run whose settled valuations are [envs] *)
Fixpoint vstate_after (m : vmodule) (st : vstate) (stim : list ((Z -> Z) * bool))
         (envs : list (Z -> Z)) : vstate :=
  match stim, envs with
  | (_, rst) :: stim', env :: envs' => vstate_after m (vedge m rst env st) stim' envs'
  | _, _ => st
  end.

(* ---- harness entry point ---------------------------------------------------- *)

(* one hexadecimal literal per cycle: the inputs in declaration order, first lowest *)
Fixpoint unpack_inputs (decl : list (Z * Z)) (z : Z) : list (Z * Z) :=
  match decl with
  | [] => []
  | (x, w) :: r => let '(v, z') := take w z in (x, v) :: unpack_inputs r z'
  end.

Definition ins_of_packed (decl : list (Z * Z)) (z : Z) : Z -> Z :=
  let tbl := unpack_inputs decl z in
  fun x => match assoc tbl x with Some v => v | None => 0 end.

Fixpoint pack_values (l : list (Z * Z)) : Z :=        (* (value, width), first lowest *)
  match l with
  | [] => 0
  | (v, w) :: r => v + Z.shiftl (pack_values r) w
  end.

Definition given_mems (memmap : list (Z * list (Z * Z))) : Z -> Z -> Z :=
  fun mm a => match find (fun p => fst p =? mm) memmap with
              | Some (_, d) => assoc_d d a 0
              | None => 0
              end.

(* run the WHOLE parsed module under IO/VerilogSem.v (registers start at 0, rst low) and
   compare with what the array specification expects at the outputs and in the memories.
   flags: [every cycle's valuation satisfies all continuous assignments (settledb);
           outputs of every cycle = expected; memory words at the probes after the run = expected;
           memory words at the probes after [snap] cycles = expected] *)
Definition vlog_module_check (m : vmodule) (order : list Z) (memmap : list (Z * list (Z * Z)))
           (steps : list Z) (exp_outs : list Z) (probes : list (Z * Z)) (exp_final : list Z)
           (snap : nat) (exp_mid : list Z) : list bool :=
  let st0 := mkVState (fun _ => 0) (vinit_mems m (given_mems memmap)) in
  let stim := map (fun z => (ins_of_packed (m_inputs m) z, false)) steps in
  let '(tr, st) := vrun m order st0 stim in
  let '(_, stmid) := vrun m order st0 (firstn snap stim) in
  [ forallb (fun eo => snd eo) tr;
    lz_eqb (map (fun eo => pack_values (map (fun d => (fst eo (fst d), snd d)) (m_outputs m))) tr) exp_outs;
    lz_eqb (map (fun p => vmems st (fst p) (snd p)) probes) exp_final;
    lz_eqb (map (fun p => vmems stmid (fst p) (snd p)) probes) exp_mid ].

(* verbose form, to explain a disagreement *)
Definition vlog_module_case (m : vmodule) (order : list Z) (memmap : list (Z * list (Z * Z)))
           (steps : list Z) (probes : list (Z * Z)) :=
  let st0 := mkVState (fun _ => 0) (vinit_mems m (given_mems memmap)) in
  let stim := map (fun z => (ins_of_packed (m_inputs m) z, false)) steps in
  let '(tr, st) := vrun m order st0 stim in
  (map (fun eo => (snd eo, map (fun d => fst eo (fst d)) (m_outputs m))) tr,
   map (fun p => vmems st (fst p) (snd p)) probes).

(* the write statements of memory mm (one always block per written memory; none = never written) *)
Definition vwrites_of (m : vmodule) (mm : Z) : list vmemwrite :=
  match find (fun b => fst b =? mm) (m_memwrs m) with
  | Some (_, ws) => ws
  | None => []
  end.

(* the history memory mm goes through along a run *)
Definition vhistory (m : vmodule) (mm : Z) (envs : list (Z -> Z)) : list cycle :=
  map (vcycle m mm (vwrites_of m mm)) envs.

(* what the read assigns of memory mm show in valuation env, given the words read *)
Definition vreads_show (m : vmodule) (mm : Z) (env : Z -> Z) (words : list Z) : Prop :=
  Forall2 (fun xa v => env (fst xa) = v mod 2 ^ dwidth m (fst xa)) (vreads_of m mm) words.
