(* C08 -- under IO/VerilogSem.v every memory of every module of the emitted subset IS the
   array of Mem/MemDefs.v driven by what its write statements and read assigns present. *)
From PyRTL Require Import Mem.MemDefs Mem.MemProofs Mem.MemVerilog.
From Coq Require Import ZifyBool.

Section OneMemory.
Variable m : vmodule.
Variable env : Z -> Z.

Lemma nb_memwrite_arr mm ms w mm' a :
  nb_memwrite m env mm ms w mm' a
  = if mm' =? mm then arr_write (ms mm) (vport m mm env w) a else ms mm' a.
Proof.
  unfold nb_memwrite, arr_write, enabled, vport, w_en, w_addr, w_data. simpl.
  destruct (env (vw_en w) =? 0) eqn:E; simpl.
  - destruct (mm' =? mm) eqn:E1; [|reflexivity]. assert (mm' = mm) by lia. subst. reflexivity.
  - unfold upd at 1. destruct (mm' =? mm); reflexivity.
Qed.

Lemma block_arr mm : forall ws ms mm' a,
  fold_left (nb_memwrite m env mm) ws ms mm' a
  = if mm' =? mm then fold_left arr_write (map (vport m mm env) ws) (ms mm) a else ms mm' a.
Proof.
  induction ws as [|w r IH]; intros ms mm' a; simpl.
  - destruct (mm' =? mm) eqn:E; [|reflexivity]. assert (mm' = mm) by lia. subst. reflexivity.
  - rewrite IH. destruct (mm' =? mm) eqn:E.
    + apply fold_write_ext. intros a'. rewrite nb_memwrite_arr. rewrite Z.eqb_refl. reflexivity.
    + rewrite nb_memwrite_arr. rewrite E. reflexivity.
Qed.

Definition blk_step (ms : Z -> Z -> Z) (blk : Z * list vmemwrite) : Z -> Z -> Z :=
  fold_left (nb_memwrite m env (fst blk)) (snd blk) ms.

Lemma find_notin (blks : list (Z * list vmemwrite)) mm :
  ~ In mm (map fst blks) -> find (fun b => fst b =? mm) blks = None.
Proof.
  induction blks as [|[k ws] r IH]; simpl; intros H; [reflexivity|].
  destruct (k =? mm) eqn:E; [exfalso; apply H; left; lia|]. apply IH. tauto.
Qed.

Lemma blocks_arr : forall blks ms, NoDup (map fst blks) -> forall mm a,
  fold_left blk_step blks ms mm a
  = fold_left arr_write
      (map (vport m mm env) (match find (fun b => fst b =? mm) blks with Some (_, ws) => ws | None => [] end))
      (ms mm) a.
Proof.
  induction blks as [|[k ws] r IH]; intros ms Hnd mm a; [reflexivity|].
  inversion Hnd as [|? ? Hn Hr]; subst. cbn [fold_left]. rewrite IH by assumption.
  cbn [find fst]. destruct (k =? mm) eqn:E.
  - assert (k = mm) by lia. subst k. rewrite (find_notin r mm Hn). simpl.
    unfold blk_step. simpl. rewrite block_arr. rewrite Z.eqb_refl. reflexivity.
  - apply fold_write_ext. intros a'. unfold blk_step. simpl. rewrite block_arr.
    rewrite Z.eqb_sym, E. reflexivity.
Qed.

End OneMemory.

(* one clock edge: the non-blocking writes of memory mm are arr_write, in statement order *)
Lemma vedge_mem m rst env st mm : NoDup (map fst (m_memwrs m)) -> forall a,
  vmems (vedge m rst env st) mm a
  = fold_left arr_write (map (vport m mm env) (vwrites_of m mm)) (vmems st mm) a.
Proof.
  intros Hnd a. unfold vedge, vwrites_of. cbn [vmems].
  exact (blocks_arr m env (m_memwrs m) (vmems st) Hnd mm a).
Qed.

Lemma Forall2_map_r {A B} (P : A -> B -> Prop) (f : A -> B) l :
  (forall x, In x l -> P x (f x)) -> Forall2 P l (map f l).
Proof.
  induction l as [|x r IH]; intros H; simpl; constructor.
  - apply H. left. reflexivity.
  - apply IH. intros y Hy. apply H. right. assumption.
Qed.

(* between edges: every read assign of memory mm shows the word the array holds *)
Lemma settled_reads m st ins env mm A :
  settled m st ins env -> (forall a, vmems st mm a = A a) ->
  vreads_show m mm env (map A (map (fun xa => env (snd xa)) (vreads_of m mm))).
Proof.
  intros [_ [_ [_ Hrd]]] HA. unfold vreads_show. rewrite map_map.
  apply Forall2_map_r. intros [x a] Hin. simpl.
  unfold vreads_of in Hin. apply in_map_iff in Hin. destruct Hin as [[x' [mm' a']] [Heq Hf]].
  simpl in Heq. injection Heq as -> ->. apply filter_In in Hf. destruct Hf as [Hin Hmm].
  simpl in Hmm. assert (mm' = mm) by lia. subst mm'.
  rewrite (Hrd x mm a Hin). rewrite HA. reflexivity.
Qed.

(* every run of every module *)
Theorem vsem_memory_is_array_gen m mm : NoDup (map fst (m_memwrs m)) ->
  forall stim envs st A,
  (forall a, vmems st mm a = A a) -> vtrace m st stim envs ->
  Forall2 (vreads_show m mm) envs (fst (arr_run A (vhistory m mm envs)))
  /\ forall a, vmems (vstate_after m st stim envs) mm a = snd (arr_run A (vhistory m mm envs)) a.
Proof.
  intros Hnd. induction stim as [|[ins rst] stim IH]; intros envs st A HA Htr.
  - destruct envs; [|contradiction]. simpl. split; [constructor|assumption].
  - destruct envs as [|env envs]; [contradiction|]. destruct Htr as [Hset Htr].
    cbn [vhistory map arr_run vstate_after]. unfold arr_step. cbn [fst snd vcycle].
    assert (Hnext : forall a, vmems (vedge m rst env st) mm a
              = fold_left arr_write (map (vport m mm env) (vwrites_of m mm)) A a).
    { intros a. rewrite vedge_mem by assumption. apply fold_write_ext. assumption. }
    specialize (IH envs _ _ Hnext Htr). fold (vhistory m mm envs) in *.
    destruct (arr_run (fold_left arr_write (map (vport m mm env) (vwrites_of m mm)) A) (vhistory m mm envs))
      as [rds A2]. simpl in *. destruct IH as [IH1 IH2]. split; [|assumption].
    constructor; [|assumption]. eapply settled_reads; eassumption.
Qed.

Theorem vsem_memory_is_array m mm stim envs st :
  NoDup (map fst (m_memwrs m)) -> vtrace m st stim envs ->
  Forall2 (vreads_show m mm) envs (fst (arr_run (vmems st mm) (vhistory m mm envs)))
  /\ forall a, vmems (vstate_after m st stim envs) mm a
               = snd (arr_run (vmems st mm) (vhistory m mm envs)) a.
Proof. intros Hnd Htr. apply (vsem_memory_is_array_gen m mm Hnd stim envs st); auto. Qed.

(* ... hence, in the property's words, what a read assign shows is the word last written to
   that address in a strictly earlier cycle, else the initial content *)
Corollary vsem_reads_last_written m mm stim envs st :
  NoDup (map fst (m_memwrs m)) -> vtrace m st stim envs ->
  Forall cycle_ok (vhistory m mm envs) ->
  Forall2 (vreads_show m mm) envs (hist_reads (vmems st mm) [] (vhistory m mm envs)).
Proof.
  intros Hnd Htr Hok. rewrite <- arr_run_last_write_from_start by assumption.
  apply (vsem_memory_is_array m mm stim envs st Hnd Htr).
Qed.

(* the executable run the harness evaluates is such a trace whenever every cycle's
   valuation passed the settledb check *)
Lemma settledb_settled m st ins env : settledb m st ins env = true -> settled m st ins env.
Proof.
  unfold settledb, settled. intros H.
  repeat (apply andb_true_iff in H; destruct H as [H ?]).
  rewrite forallb_forall in *. repeat split.
  - intros x Hx. unfold declared_in in Hx. destruct (assoc (m_inputs m) x) as [w|] eqn:E; [|discriminate].
    assert (Hin : In (x, w) (m_inputs m)).
    { clear - E. induction (m_inputs m) as [|[k v] r IH]; simpl in E; [discriminate|].
      destruct (k =? x) eqn:Ek; [injection E as <-; left; f_equal; lia|right; auto]. }
    specialize (H _ Hin). simpl in H. lia.
  - intros x Hx. unfold declared_in in Hx. destruct (assoc (m_regs m) x) as [w|] eqn:E; [|discriminate].
    assert (Hin : In (x, w) (m_regs m)).
    { clear - E. induction (m_regs m) as [|[k v] r IH]; simpl in E; [discriminate|].
      destruct (k =? x) eqn:Ek; [injection E as <-; left; f_equal; lia|right; auto]. }
    specialize (H2 _ Hin). simpl in H2. lia.
  - intros x e Hin. specialize (H1 _ Hin). simpl in H1. lia.
  - intros x mm a Hin. specialize (H0 _ Hin). simpl in H0. lia.
Qed.

Theorem vrun_is_trace m order : forall stim st,
  forallb (fun eo => snd eo) (fst (vrun m order st stim)) = true ->
  vtrace m st stim (map fst (fst (vrun m order st stim)))
  /\ snd (vrun m order st stim) = vstate_after m st stim (map fst (fst (vrun m order st stim))).
Proof.
  induction stim as [|[ins rst] stim IH]; intros st H; [simpl; auto|].
  cbn [vrun] in *. destruct (settle m order st ins) as [env ok] eqn:Es.
  specialize (IH (vedge m rst env st)).
  destruct (vrun m order (vedge m rst env st) stim) as [tr st']. simpl in *.
  apply andb_true_iff in H. destruct H as [Hok Hrest]. subst ok.
  destruct (IH Hrest) as [IH1 IH2]. split; [|assumption]. split; [|assumption].
  apply settledb_settled. unfold settle in Es. injection Es as <- Hb. assumption.
Qed.
