(* C08 -- entry points evaluated by py/checks/C08.py (vm_compute).  No proofs here
   and no dependency on proof files: the search still runs when a proof breaks. *)
From PyRTL Require Import Mem.MemDefs.

(* the order in which a back-end visits the write ports *)
Definition permute (p : list nat) (ws : list wport) : list wport :=
  map (fun i => nth i ws (0, 0, 0)) p.
Definition perm_hist (p : list nat) (h : list cycle) : list cycle :=
  map (fun c => (permute p (fst c), snd c)) h.

Fixpoint lz_eqb (a b : list Z) : bool :=
  match a, b with
  | [], [] => true
  | x :: r, y :: s => (x =? y) && lz_eqb r s
  | _, _ => false
  end.
Fixpoint llz_eqb (a b : list (list Z)) : bool :=
  match a, b with
  | [], [] => true
  | x :: r, y :: s => lz_eqb x y && llz_eqb r s
  | _, _ => false
  end.

(* one memory, one history: the array spec (in both formulations) and the three
   concrete models, each with its own port order *)
Definition mem_case (dflt dw : Z) (init : list (Z * Z)) (h : list cycle)
           (p_sim p_fast p_comp : list nat) (probes : list Z) :=
  let nl := limbs_of_width dw in
  let '(sr, sA) := arr_run (arr_init init dflt) h in
  let '(r1, d1) := sim_mem_run_w dflt dw init (perm_hist p_sim h) in
  let '(r2, d2) := fast_mem_run dflt init (perm_hist p_fast h) in
  let '(r3, h3) := comp_mem_run nl (c_init nl c_size init) (perm_hist p_comp h) in
  ((forallb cycle_okb h, llz_eqb sr (hist_reads (arr_init init dflt) [] h)),
   (sr, map sA probes), (r1, d1), (r2, d2), (r3, map (c_lookup nl h3) probes)).

(* long histories: the models are compared with the spec inside Coq *)
Definition mem_case_flags (dflt dw : Z) (init : list (Z * Z)) (h : list cycle)
           (p_sim p_fast p_comp : list nat) (probes : list Z) :=
  let nl := limbs_of_width dw in
  let '(sr, sA) := arr_run (arr_init init dflt) h in
  let '(r1, d1) := sim_mem_run_w dflt dw init (perm_hist p_sim h) in
  let '(r2, d2) := fast_mem_run dflt init (perm_hist p_fast h) in
  let '(r3, h3) := comp_mem_run nl (c_init nl c_size init) (perm_hist p_comp h) in
  ((forallb cycle_okb h, llz_eqb sr (hist_reads (arr_init init dflt) [] h)),
   (sr, map sA probes),
   [llz_eqb r1 sr; llz_eqb r2 sr; llz_eqb r3 sr],
   (d1, d2, map (c_lookup nl h3) probes)).

(* -- the 2-word x 1-bit memory: every operation tuple -- *)
Fixpoint cart {A} (n : nat) (xs : list A) : list (list A) :=
  match n with
  | O => [[]]
  | S n' => flat_map (fun x => map (cons x) (cart n' xs)) xs
  end.

Definition wports01 : list wport :=
  flat_map (fun a => flat_map (fun d => map (fun e => (a, d, e)) [0; 1]) [0; 1]) [0; 1].

Definition all_ops (nw nr : nat) : list cycle :=
  flat_map (fun ws => map (fun rs => (ws, rs)) (cart nr [0; 1])) (cart nw wports01).

Definition ok_ops (nw nr : nat) : list cycle := filter cycle_okb (all_ops nw nr).

(* every admissible operation applied to the given content *)
Definition sweep_case (dflt : Z) (init : list (Z * Z)) (nw nr : nat) (p_sim p_fast p_comp : list nat) :=
  map (fun c => mem_case dflt 1 init [c] p_sim p_fast p_comp [0; 1]) (ok_ops nw nr).

(* a long walk given as indices into ok_ops *)
Definition walk_case (dflt : Z) (init : list (Z * Z)) (nw nr : nat) (codes : list Z)
           (p_sim p_fast p_comp : list nat) :=
  let ops := ok_ops nw nr in
  let h := map (fun i => nth (Z.to_nat i) ops ([], [])) codes in
  mem_case_flags dflt 1 init h p_sim p_fast p_comp [0; 1].

(* -- the hash map helpers driven directly (bucket structure) -- *)
(* op = (kind, key, value): kind 0 = insert, 1 = lookup *)
Definition hm_case (size nl : nat) (ops : list (Z * Z * Z)) :=
  let step := fun (st : cmap * list Z) (o : Z * Z * Z) =>
    let '(kind, k, v) := o in
    if kind =? 0 then (hm_insert c_hash (fst st) k (split_limbs nl v), snd st)
    else (fst st, snd st ++ [join_limbs (hm_lookup c_hash (repeat 0 nl) (fst st) k)]) in
  let '(h, outs) := fold_left step ops (hm_create size, []) in
  (map (map (fun kv => (fst kv, join_limbs (snd kv)))) h, outs).

(* -- ROM -- *)
Definition rom_code (r : rom_result) : Z * Z :=
  match r with
  | RomOk v => (0, v)
  | RomErr ErrAddr => (1, 1)
  | RomErr ErrFun => (1, 2)
  | RomErr ErrKey => (1, 3)
  | RomErr ErrIndex => (1, 4)
  | RomErr ErrValue => (1, 5)
  end.

Definition rom_case (aw bw : Z) (pad : bool) (data : romdata) (addrs : list Z) :=
  (map (fun a => rom_code (rom_read aw bw pad data a)) addrs,
   match rom_table aw bw pad data with Some t => (1, t) | None => (0, []) end).

Definition fun_table (t : list (Z * Z)) : romdata := RomFun (fun a => assoc t a).

(* ------------------------------------------------------------------ *)
(* Compact protocol.  Coq's numeral parser/printer costs ~1-3 ms per number, so the
   harness sends one (hexadecimal) literal per cycle, sends what the implementation
   produced, and receives booleans; the verbose [mem_case] above is evaluated only to
   explain a disagreement. *)

Definition take (w z : Z) : Z * Z := (Z.land z (Z.ones w), Z.shiftr z w).

Fixpoint dec_list (w : Z) (n : nat) (z : Z) : list Z :=
  match n with
  | O => []
  | S n' => let '(x, z') := take w z in x :: dec_list w n' z'
  end.

Fixpoint dec_writes (aw dw : Z) (n : nat) (z : Z) : list wport * Z :=
  match n with
  | O => ([], z)
  | S n' =>
      let '(a, z1) := take aw z in
      let '(d, z2) := take dw z1 in
      let '(e, z3) := take 1 z2 in
      let '(ws, z4) := dec_writes aw dw n' z3 in
      ((a, d, e) :: ws, z4)
  end.

Definition dec_cycle (aw dw : Z) (nw nr : nat) (z : Z) : cycle :=
  let '(ws, z') := dec_writes aw dw nw z in (ws, dec_list aw nr z').

(* first element in the lowest bits *)
Definition enc_list (w : Z) (l : list Z) : Z :=
  fold_right (fun x acc => x + Z.shiftl acc w) 0 l.

Fixpoint items_eqb (a b : list (Z * Z)) : bool :=
  match a, b with
  | [], [] => true
  | (k, v) :: r, (k', v') :: s => (k =? k') && (v =? v') && items_eqb r s
  | _, _ => false
  end.

(* flags: [history admissible; two spec formulations agree; Coq spec reads = expected reads;
           Coq spec final = expected final;
           sim model reads = spec; sim model dict = given items;
           fast model reads = spec; fast model dict = given items;
           hash-map model reads = spec; hash-map model at probes = given values] *)
Definition mem_check (dflt aw dw : Z) (nw nr : nat) (init : list (Z * Z)) (ph : list Z)
           (exp_reads : list Z) (probes exp_final : list Z)
           (sim_items fast_items : list (Z * Z)) (comp_probes : list Z)
           (p_sim p_fast p_comp : list nat) : list bool :=
  let h := map (dec_cycle aw dw nw nr) ph in
  let nl := limbs_of_width dw in
  let '(sr, sA) := arr_run (arr_init init dflt) h in
  let er := map (dec_list dw nr) exp_reads in
  let '(r1, d1) := sim_mem_run_w dflt dw init (perm_hist p_sim h) in
  let '(r2, d2) := fast_mem_run dflt init (perm_hist p_fast h) in
  let '(r3, h3) := comp_mem_run nl (c_init nl c_size init) (perm_hist p_comp h) in
  [ forallb cycle_okb h; llz_eqb sr (hist_reads (arr_init init dflt) [] h);
    llz_eqb sr er; lz_eqb (map sA probes) exp_final;
    llz_eqb r1 sr; items_eqb d1 sim_items;
    llz_eqb r2 sr; items_eqb d2 fast_items;
    llz_eqb r3 sr; lz_eqb (map (c_lookup nl h3) probes) comp_probes ].

(* the verbose form on a packed history *)
Definition mem_case_packed (dflt aw dw : Z) (nw nr : nat) (init : list (Z * Z)) (ph : list Z)
           (p_sim p_fast p_comp : list nat) (probes : list Z) :=
  mem_case dflt dw init (map (dec_cycle aw dw nw nr) ph) p_sim p_fast p_comp probes.

(* -- tiny memory: outcome of one operation as one small number -- *)
Definition enc_items (d : list (Z * Z)) : Z :=
  fold_right (fun kv acc => 1 + 2 * (fst kv + 2 * (snd kv + 2 * acc))) 0 d.
Definition out_spec (nr : nat) (rd : list Z) (a0 a1 : Z) : Z :=
  enc_list 1 rd + 2 ^ Z.of_nat nr * (a0 + 2 * a1).
Definition out_items (nr : nat) (rd : list Z) (d : list (Z * Z)) : Z :=
  enc_list 1 rd + 2 ^ Z.of_nat nr * enc_items d.

(* every admissible operation on the given content; the implementation's outcomes are
   passed in.  flags: [number of operations agrees; Coq spec = expected (Python spec);
   sim model = Simulation; fast model = FastSimulation; hash-map model = CompiledSimulation;
   all three models' reads = spec reads] *)
Definition sweep_check (dflt : Z) (init : list (Z * Z)) (nw nr : nat)
           (p_sim p_fast p_comp : list nat) (exp sim fast comp : list Z) : list bool :=
  let ops := ok_ops nw nr in
  let A0 := arr_init init dflt in
  let spec_c := fun c => let '(rd, A) := arr_step A0 c in out_spec nr rd (A 0) (A 1) in
  let sim_c := fun c => let '(rd, d) := sim_mem_step_w dflt 1 init (permute p_sim (fst c), snd c) in
                        out_items nr rd d in
  let fast_c := fun c => let '(rd, d) := fast_mem_step dflt init (permute p_fast (fst c), snd c) in
                         out_items nr rd d in
  let comp_c := fun c => let '(rd, h) := comp_mem_step 1 (c_init 1 c_size init) (permute p_comp (fst c), snd c) in
                         out_spec nr rd (c_lookup 1 h 0) (c_lookup 1 h 1) in
  let rd_of := fun x => x mod 2 ^ Z.of_nat nr in
  [ (length ops =? length exp)%nat;
    lz_eqb (map spec_c ops) exp;
    lz_eqb (map sim_c ops) sim;
    lz_eqb (map fast_c ops) fast;
    match comp with [] => true | _ => lz_eqb (map comp_c ops) comp end;
    forallb (fun c => (rd_of (sim_c c) =? rd_of (spec_c c)) && (rd_of (fast_c c) =? rd_of (spec_c c))
                      && ((negb (dflt =? 0)) || (rd_of (comp_c c) =? rd_of (spec_c c)))) ops ].

(* a long walk: operation indices packed [per] to a literal with [bits]-bit fields;
   expected reads (nr bits per cycle) packed 32 cycles to a literal *)
Definition walk_check (dflt : Z) (init : list (Z * Z)) (nw nr : nat) (bits : Z) (per n : nat)
           (pcodes : list Z) (exp_reads : list Z) (p_sim p_fast p_comp : list nat) :=
  let ops := ok_ops nw nr in
  let codes := firstn n (flat_map (dec_list bits per) pcodes) in
  let h := map (fun i => nth (Z.to_nat i) ops ([], [])) codes in
  let '(sr, sA) := arr_run (arr_init init dflt) h in
  let er := firstn n (flat_map (dec_list (Z.of_nat nr) 32) exp_reads) in
  let '(r1, d1) := sim_mem_run_w dflt 1 init (perm_hist p_sim h) in
  let '(r2, d2) := fast_mem_run dflt init (perm_hist p_fast h) in
  let '(r3, h3) := comp_mem_run 1 (c_init 1 c_size init) (perm_hist p_comp h) in
  ([ forallb cycle_okb h; llz_eqb sr (hist_reads (arr_init init dflt) [] h);
     lz_eqb (map (enc_list 1) sr) er; llz_eqb r1 sr; llz_eqb r2 sr; llz_eqb r3 sr ],
   ([sA 0; sA 1], d1, d2, [c_lookup 1 h3 0; c_lookup 1 h3 1])).

(* the hash-map helpers: real chains and real lookup results are passed in *)
Fixpoint chains_eqb (a b : list (list (Z * Z))) : bool :=
  match a, b with
  | [], [] => true
  | x :: r, y :: s => items_eqb x y && chains_eqb r s
  | _, _ => false
  end.

Definition hm_check (size nl : nat) (ops : list (Z * Z * Z))
           (real_chains : list (list (Z * Z))) (real_outs : list Z) : list bool :=
  let '(chains, outs) := hm_case size nl ops in
  [chains_eqb chains real_chains; lz_eqb outs real_outs].
