(* C08 -- entry points evaluated by py/checks/C08.py (vm_compute).  No proofs here
   and no dependency on proof files: the search still runs when a proof breaks. *)
From PyRTL Require Import Mem.MemDefs.

(* the order in which a back-end visits the write ports *)
Definition permute (p : list nat) (ws : list wport) : list wport :=
  map (fun i => nth i ws (0, 0, 0)) p.
Definition perm_hist (p : list nat) (h : list cycle) : list cycle :=
  map (fun c => (permute p (fst c), snd c)) h.

Fixpoint lz_eqb (a b : list Z) : bool :=
  match a, b with
  | [], [] => true
  | x :: r, y :: s => (x =? y) && lz_eqb r s
  | _, _ => false
  end.
Fixpoint llz_eqb (a b : list (list Z)) : bool :=
  match a, b with
  | [], [] => true
  | x :: r, y :: s => lz_eqb x y && llz_eqb r s
  | _, _ => false
  end.

(* one memory, one history: the array spec (in both formulations) and the three
   concrete models, each with its own port order *)
Definition mem_case (dflt dw : Z) (init : list (Z * Z)) (h : list cycle)
           (p_sim p_fast p_comp : list nat) (probes : list Z) :=
  let nl := limbs_of_width dw in
  let '(sr, sA) := arr_run (arr_init init dflt) h in
  let '(r1, d1) := sim_mem_run_w dflt dw init (perm_hist p_sim h) in
  let '(r2, d2) := fast_mem_run dflt init (perm_hist p_fast h) in
  let '(r3, h3) := comp_mem_run nl (c_init nl c_size init) (perm_hist p_comp h) in
  ((forallb cycle_okb h, llz_eqb sr (hist_reads (arr_init init dflt) [] h)),
   (sr, map sA probes), (r1, d1), (r2, d2), (r3, map (c_lookup nl h3) probes)).

(* long histories: the models are compared with the spec inside Coq *)
Definition mem_case_flags (dflt dw : Z) (init : list (Z * Z)) (h : list cycle)
           (p_sim p_fast p_comp : list nat) (probes : list Z) :=
  let nl := limbs_of_width dw in
  let '(sr, sA) := arr_run (arr_init init dflt) h in
  let '(r1, d1) := sim_mem_run_w dflt dw init (perm_hist p_sim h) in
  let '(r2, d2) := fast_mem_run dflt init (perm_hist p_fast h) in
  let '(r3, h3) := comp_mem_run nl (c_init nl c_size init) (perm_hist p_comp h) in
  ((forallb cycle_okb h, llz_eqb sr (hist_reads (arr_init init dflt) [] h)),
   (sr, map sA probes),
   [llz_eqb r1 sr; llz_eqb r2 sr; llz_eqb r3 sr],
   (d1, d2, map (c_lookup nl h3) probes)).

(* -- the 2-word x 1-bit memory: every operation tuple -- *)
Fixpoint cart {A} (n : nat) (xs : list A) : list (list A) :=
  match n with
  | O => [[]]
  | S n' => flat_map (fun x => map (cons x) (cart n' xs)) xs
  end.

Definition wports01 : list wport :=
  flat_map (fun a => flat_map (fun d => map (fun e => (a, d, e)) [0; 1]) [0; 1]) [0; 1].

Definition all_ops (nw nr : nat) : list cycle :=
  flat_map (fun ws => map (fun rs => (ws, rs)) (cart nr [0; 1])) (cart nw wports01).

Definition ok_ops (nw nr : nat) : list cycle := filter cycle_okb (all_ops nw nr).

(* every admissible operation applied to the given content *)
Definition sweep_case (dflt : Z) (init : list (Z * Z)) (nw nr : nat) (p_sim p_fast p_comp : list nat) :=
  map (fun c => mem_case dflt 1 init [c] p_sim p_fast p_comp [0; 1]) (ok_ops nw nr).

(* a long walk given as indices into ok_ops *)
Definition walk_case (dflt : Z) (init : list (Z * Z)) (nw nr : nat) (codes : list Z)
           (p_sim p_fast p_comp : list nat) :=
  let ops := ok_ops nw nr in
  let h := map (fun i => nth (Z.to_nat i) ops ([], [])) codes in
  mem_case_flags dflt 1 init h p_sim p_fast p_comp [0; 1].

(* -- the hash map helpers driven directly (bucket structure) -- *)
(* op = (kind, key, value): kind 0 = insert, 1 = lookup *)
Definition hm_case (size nl : nat) (ops : list (Z * Z * Z)) :=
  let step := fun (st : cmap * list Z) (o : Z * Z * Z) =>
    let '(kind, k, v) := o in
    if kind =? 0 then (hm_insert c_hash (fst st) k (split_limbs nl v), snd st)
    else (fst st, snd st ++ [join_limbs (hm_lookup c_hash (repeat 0 nl) (fst st) k)]) in
  let '(h, outs) := fold_left step ops (hm_create size, []) in
  (map (map (fun kv => (fst kv, join_limbs (snd kv)))) h, outs).

(* -- ROM -- *)
Definition rom_code (r : rom_result) : Z * Z :=
  match r with
  | RomOk v => (0, v)
  | RomErr ErrAddr => (1, 1)
  | RomErr ErrFun => (1, 2)
  | RomErr ErrKey => (1, 3)
  | RomErr ErrIndex => (1, 4)
  | RomErr ErrValue => (1, 5)
  end.

Definition rom_case (aw bw : Z) (pad : bool) (data : romdata) (addrs : list Z) :=
  (map (fun a => rom_code (rom_read aw bw pad data a)) addrs,
   match rom_table aw bw pad data with Some t => (1, t) | None => (0, []) end).

Definition fun_table (t : list (Z * Z)) : romdata := RomFun (fun a => assoc t a).
