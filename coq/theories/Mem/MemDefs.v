(* C08 -- memories as arrays: the specification and the executable models of the
   three simulators' memory state, of the C hash map and of RomBlock._get_read_data.
   DEFINITIONS ONLY (the search harness evaluates these; proofs are in MemProofs.v).

   Anchors in /repo/pyrtl:
     memory.py      MemBlock._build_read_port ('m' net), _build ('@' net, EnabledWrite),
                    RomBlock._get_read_data
     simulation.py  Simulation._execute op 'm' (memvalue[memid].get(addr, default)),
                    Simulation._mem_update (memvalue[memid][addr] = val under enable),
                    FastSimulation._compiled ('m' -> d[mem].get(addr, default);
                    '@' -> `if en: mem_ws.append((mem, addr, val))`), FastSimulation.step
                    (`for mem, addr, value in mem_writes: self.mems[mem][addr] = value`)
     compilesim.py  _declare_mem_helpers (create_hash_map / hash_code / insert / lookup),
                    _build_memread (lookup(mem, addr[0])[n]), memory writes
                    (`if (en[0]) insert(mem, addr[0], data)`), _declare_roms *)
From PyRTL Require Export Netlist.Syntax.
From PyRTL Require Export Gen.MemFrag.   (* regenerated from /repo on every run (py/genfrag_C08.py) *)

(* ------------------------------------------------------------------ *)
(** * The specification: an array of words                              *)

Definition array := Z -> Z.

(* one write port in one cycle: (address, data, enable) *)
Definition wport := (Z * Z * Z)%type.
Definition w_addr (w : wport) : Z := fst (fst w).
Definition w_data (w : wport) : Z := snd (fst w).
Definition w_en (w : wport) : Z := snd w.
Definition enabled (w : wport) : bool := negb (w_en w =? 0).

(* one cycle: what every write port and every read port presents *)
Definition cycle := (list wport * list Z)%type.

Definition arr_write (A : array) (w : wport) : array :=
  if enabled w then upd A (w_addr w) (w_data w) else A.

(* reads answer from the array BEFORE this cycle's writes; then the enabled
   writes are applied *)
Definition arr_step (A : array) (c : cycle) : list Z * array :=
  (map A (snd c), fold_left arr_write (fst c) A).

Fixpoint arr_run (A : array) (h : list cycle) : list (list Z) * array :=
  match h with
  | [] => ([], A)
  | c :: r => let '(rd, A') := arr_step A c in
              let '(rds, A'') := arr_run A' r in (rd :: rds, A'')
  end.

(* initial contents: memory_value_map entry, else default *)
Definition arr_init (init : list (Z * Z)) (dflt : Z) : array :=
  fun a => assoc_d init a dflt.

(* the side condition of the property: write ports address distinct words *)
Definition enabled_addrs (ws : list wport) : list Z :=
  map w_addr (filter enabled ws).
Definition cycle_ok (c : cycle) : Prop := NoDup (enabled_addrs (fst c)).

Fixpoint nodupb (l : list Z) : bool :=
  match l with
  | [] => true
  | x :: r => negb (existsb (Z.eqb x) r) && nodupb r
  end.
Definition cycle_okb (c : cycle) : bool := nodupb (enabled_addrs (fst c)).

(* -- the same specification in the property's own words: a read returns the word
      last written to that address in a strictly earlier cycle, else the initial
      content -- *)
Definition cycle_write_to (c : cycle) (a : Z) : option Z :=
  match find (fun w => enabled w && (w_addr w =? a)) (fst c) with
  | Some w => Some (w_data w)
  | None => None
  end.

(* [past] lists the earlier cycles, most recent first *)
Fixpoint last_write (past : list cycle) (a : Z) : option Z :=
  match past with
  | [] => None
  | c :: r => match cycle_write_to c a with
              | Some v => Some v
              | None => last_write r a
              end
  end.

Definition word_at (A0 : array) (past : list cycle) (a : Z) : Z :=
  match last_write past a with Some v => v | None => A0 a end.

Fixpoint hist_reads (A0 : array) (past h : list cycle) : list (list Z) :=
  match h with
  | [] => []
  | c :: r => map (word_at A0 past) (snd c) :: hist_reads A0 (c :: past) r
  end.

(* ------------------------------------------------------------------ *)
(** * Generic state machines over cycles                                *)

Section Machine.
Context {S : Type}.
Variable cread : S -> Z -> Z.
Variable cwrite : S -> wport -> S.

Definition mach_step (s : S) (c : cycle) : list Z * S :=
  (map (cread s) (snd c), fold_left cwrite (fst c) s).

Fixpoint mach_run (s : S) (h : list cycle) : list (list Z) * S :=
  match h with
  | [] => ([], s)
  | c :: r => let '(rd, s') := mach_step s c in
              let '(rds, s'') := mach_run s' r in (rd :: rds, s'')
  end.
End Machine.

(* ------------------------------------------------------------------ *)
(** * (i) Simulation: memvalue[memid] is a Python dict                  *)

Definition pydict := list (Z * Z).        (* in insertion order, keys unique *)

(* d[k] = v : replace in place when present, else append (CPython keeps
   insertion order; list(d.items()) is this list) *)
Fixpoint pyd_set (d : pydict) (k v : Z) : pydict :=
  match d with
  | [] => [(k, v)]
  | (k', v') :: r => if k' =? k then (k', v) :: r else (k', v') :: pyd_set r k v
  end.

(* d.get(k, dflt) *)
Definition pyd_get (dflt : Z) (d : pydict) (k : Z) : Z := assoc_d d k dflt.

(* Simulation._mem_update: `if write_enable: memvalue[memid][write_addr] = write_val`;
   the condition is the translated source text (Gen/MemFrag.v mem_update_cond) *)
Definition sim_mem_update (d : pydict) (w : wport) : pydict :=
  if mem_update_cond (w_en w) then pyd_set d (w_addr w) (w_data w) else d.

(* the operands each layer takes from the '@' net's args (translated positions) *)
Definition build_args (w : wport) : list Z :=
  map (fun i => if Nat.eqb i build_addr_arg then w_addr w
                else if Nat.eqb i build_data_arg then w_data w else w_en w) [0; 1; 2]%nat.
Definition sim_port (args : list Z) : wport :=
  (nth mem_update_addr_arg args 0, nth mem_update_data_arg args 0, nth mem_update_enable_arg args 0).
Definition c_port (args : list Z) : wport :=
  (nth c_write_addr_arg args 0, nth c_write_data_arg args 0, nth c_write_enable_arg args 0).

(* one Simulation.step seen from one memory: all 'm' nets are executed against
   memvalue, then _mem_update runs for every '@' net *)
Definition sim_mem_step (dflt : Z) := mach_step (pyd_get dflt) sim_mem_update.
Definition sim_mem_run (dflt : Z) := mach_run (pyd_get dflt) sim_mem_update.

(* with the `& bitmask` of _sanitize on the read port's destination *)
Definition sim_mem_step_w (dflt dw : Z) :=
  mach_step (fun d a => sanitize (pyd_get dflt d a) dw) sim_mem_update.
Definition sim_mem_run_w (dflt dw : Z) :=
  mach_run (fun d a => sanitize (pyd_get dflt d a) dw) sim_mem_update.

(* ------------------------------------------------------------------ *)
(** * (ii) FastSimulation: deferred write list mem_ws                   *)

(* the generated sim_func is a straight-line program; seen from one memory it is
   an interleaving (topological net order) of reads and guarded appends *)
Inductive fast_ev :=
| EvRead (a : Z)                    (*  x = d[mem].get(a, default)            *)
| EvWrite (w : wport).              (*  if en: mem_ws.append((mem, a, v))     *)

Definition fast_exec (dflt : Z) (d : pydict) (st : list Z * list (Z * Z)) (e : fast_ev)
  : list Z * list (Z * Z) :=
  match e with
  | EvRead a => (fst st ++ [pyd_get dflt d a], snd st)
  | EvWrite w => (fst st, if enabled w then snd st ++ [(w_addr w, w_data w)] else snd st)
  end.

Definition fast_apply (d : pydict) (p : Z * Z) : pydict := pyd_set d (fst p) (snd p).

(* FastSimulation.step: run sim_func (dict untouched), then apply mem_ws in order *)
Definition fast_prog_step (dflt : Z) (d : pydict) (prog : list fast_ev) : list Z * pydict :=
  let '(rds, mem_ws) := fold_left (fast_exec dflt d) prog ([], []) in
  (rds, fold_left fast_apply mem_ws d).

(* the same, presented per cycle (reads in read-port order, writes in net order) *)
Definition fast_mem_ws (ws : list wport) : list (Z * Z) :=
  flat_map (fun w => if enabled w then [(w_addr w, w_data w)] else []) ws.

Definition fast_mem_step (dflt : Z) (d : pydict) (c : cycle) : list Z * pydict :=
  (map (pyd_get dflt d) (snd c), fold_left fast_apply (fast_mem_ws (fst c)) d).

Fixpoint fast_mem_run (dflt : Z) (d : pydict) (h : list cycle) : list (list Z) * pydict :=
  match h with
  | [] => ([], d)
  | c :: r => let '(rd, d') := fast_mem_step dflt d c in
              let '(rds, d'') := fast_mem_run dflt d' r in (rd :: rds, d'')
  end.

Definition prog_reads (prog : list fast_ev) : list Z :=
  flat_map (fun e => match e with EvRead a => [a] | EvWrite _ => [] end) prog.
Definition prog_writes (prog : list fast_ev) : list wport :=
  flat_map (fun e => match e with EvRead _ => [] | EvWrite w => [w] end) prog.

(* ------------------------------------------------------------------ *)
(** * (iii) CompiledSimulation: chained hash map                        *)

Section HashMap.
Context {V : Type}.
Variable hash : Z -> Z.               (* hash_code before the `% size` *)
Variable dfl : V.                     (* h->default_value *)

Definition chain := list (Z * V).     (* node list of one bucket, head first *)
Definition hmap := list chain.        (* h->list ; h->size = length *)

Fixpoint kassoc (c : chain) (k : Z) : option V :=
  match c with
  | [] => None
  | (k', v) :: r => if k' =? k then Some v else kassoc r k
  end.

(* the `while (temp)` loop of insert: memcpy into the node that has the key *)
Fixpoint chain_replace (c : chain) (k : Z) (v : V) : option chain :=
  match c with
  | [] => None
  | (k', v') :: r =>
      if k' =? k then Some ((k', v) :: r)
      else match chain_replace r k v with
           | Some r' => Some ((k', v') :: r')
           | None => None
           end
  end.

(* ... else new_node->next = list; h->list[pos] = new_node *)
Definition chain_insert (c : chain) (k : Z) (v : V) : chain :=
  match chain_replace c k v with
  | Some c' => c'
  | None => (k, v) :: c
  end.

Fixpoint set_nth {A} (n : nat) (l : list A) (x : A) : list A :=
  match l, n with
  | [], _ => []
  | _ :: r, O => x :: r
  | y :: r, Datatypes.S n' => y :: set_nth n' r x
  end.

Definition hm_pos (h : hmap) (k : Z) : nat := Z.to_nat (hash k mod Z.of_nat (length h)).

Definition hm_create (size : nat) : hmap := repeat [] size.

Definition hm_insert (h : hmap) (k : Z) (v : V) : hmap :=
  let pos := hm_pos h k in
  set_nth pos h (chain_insert (nth pos h []) k v).

(* the `while (temp)` loop of lookup *)
Definition hm_find (h : hmap) (k : Z) : option V :=
  kassoc (nth (hm_pos h k) h []) k.

Definition hm_lookup (h : hmap) (k : Z) : V :=
  match hm_find h k with
  | Some v => v
  | None => dfl                       (* return h->default_value *)
  end.

(* all bindings, bucket by bucket *)
Definition hm_bindings (h : hmap) : list (Z * V) := concat h.

(* structural invariant, per bucket: no key twice, and every key sits in the bucket its
   hash selects *)
Definition hm_wf (h : hmap) : Prop :=
  forall i c, nth_error h i = Some c ->
    NoDup (map fst c) /\ forall k, In k (map fst c) -> hm_pos h k = i.
End HashMap.

(* a finite map (the abstraction of the hash map) *)
Definition fmap_set {V} (m : Z -> option V) (k : Z) (v : V) : Z -> option V :=
  fun k' => if k' =? k then Some v else m k'.

(* -- the C instance: key % size, values are arrays of 64-bit limbs -- *)
Definition c_hash (k : Z) : Z := k.                       (* hash_code: key % h->size *)
Definition c_key (a : Z) : Z := a mod 2 ^ 64.             (* `addr[0]`: low limb only  *)
Definition c_size : nat := c_size_src.                    (* create_hash_map(256, limbs): translated *)

Fixpoint split_limbs (n : nat) (v : Z) : list Z :=        (* _makeini / wire limbs *)
  match n with
  | O => []
  | Datatypes.S n' => v mod 2 ^ 64 :: split_limbs n' (v / 2 ^ 64)
  end.

Fixpoint join_limbs (l : list Z) : Z :=                   (* DllMemInspector.__getitem__ *)
  match l with
  | [] => 0
  | x :: r => x + 2 ^ 64 * join_limbs r
  end.

Definition limbs_of_width (w : Z) : nat := Z.to_nat ((w + 63) / 64).

Definition cmap := @hmap (list Z).

Definition c_lookup (nl : nat) (h : cmap) (a : Z) : Z :=
  join_limbs (hm_lookup c_hash (repeat 0 nl) h (c_key a)).

Definition c_write (nl : nat) (h : cmap) (w : wport) : cmap :=
  if enabled w then hm_insert c_hash h (c_key (w_addr w)) (split_limbs nl (w_data w)) else h.

(* initialize_mems: create_hash_map(256, limbs) then one insert per map item *)
Definition c_init (nl : nat) (size : nat) (init : list (Z * Z)) : cmap :=
  fold_left (c_write nl) (map (fun kv => (fst kv, snd kv, 1)) init) (hm_create size).

Definition comp_mem_step (nl : nat) := mach_step (c_lookup nl) (c_write nl).
Definition comp_mem_run (nl : nat) := mach_run (c_lookup nl) (c_write nl).

(* the emitted sim_run_step seen from one memory: lookups and guarded inserts executed in
   place, in program order (inserts are NOT deferred: the C relies on emitting every
   combinational net -- hence every lookup -- before the memory writes) *)
Inductive c_ev :=
| CLookup (a : Z)                   (*  dest[n] = lookup(mem, addr[0])[n];            *)
| CInsert (w : wport).              (*  if (en[0]) { insert(mem, addr[0], data); }     *)

Definition c_exec (nl : nat) (st : list Z * cmap) (e : c_ev) : list Z * cmap :=
  match e with
  | CLookup a => (fst st ++ [c_lookup nl (snd st) a], snd st)
  | CInsert w => (fst st, c_write nl (snd st) w)
  end.

Definition c_prog_step (nl : nat) (h : cmap) (prog : list c_ev) : list Z * cmap :=
  fold_left (c_exec nl) prog ([], h).

Definition c_prog_reads (prog : list c_ev) : list Z :=
  flat_map (fun e => match e with CLookup a => [a] | CInsert _ => [] end) prog.
Definition c_prog_writes (prog : list c_ev) : list wport :=
  flat_map (fun e => match e with CLookup _ => [] | CInsert w => [w] end) prog.

Definition is_insert (e : c_ev) : bool := match e with CInsert _ => true | CLookup _ => false end.
Fixpoint lookups_first (prog : list c_ev) : bool :=
  match prog with
  | [] => true
  | CLookup _ :: r => lookups_first r
  | CInsert _ :: r => forallb is_insert r
  end.

(* ------------------------------------------------------------------ *)
(** * (iv) RomBlock._get_read_data                                      *)

Inductive romdata :=
| RomList (l : list Z)                 (* list / tuple *)
| RomDict (d : list (Z * Z))           (* dict *)
| RomFun (f : Z -> option Z).          (* function; None = it raised / returned a non-int *)

Inductive rom_err := ErrAddr | ErrFun | ErrKey | ErrIndex | ErrValue.

Inductive rom_result := RomOk (v : Z) | RomErr (e : rom_err).

(* Python sequence indexing l[i] (negative indices count from the end) *)
Definition py_list_get (l : list Z) (i : Z) : option Z :=
  let n := Z.of_nat (length l) in
  if (i <? - n) || (n <=? i) then None
  else nth_error l (Z.to_nat (if i <? 0 then i + n else i)).

Definition rom_read (aw bw : Z) (pad : bool) (data : romdata) (a : Z) : rom_result :=
  if rom_addr_guard aw a then RomErr ErrAddr          (* translated guard *)
  else
    let value : rom_result :=
      match data with
      | RomFun f => match f a with Some v => RomOk v | None => RomErr ErrFun end
      | RomDict d => match assoc d a with
                     | Some v => RomOk v
                     | None => if pad then RomOk rom_pad_key else RomErr ErrKey
                     end
      | RomList l => match py_list_get l a with
                     | Some v => RomOk v
                     | None => if pad then RomOk rom_pad_index else RomErr ErrIndex
                     end
      end in
    match value with
    | RomErr e => RomErr e
    | RomOk v => if rom_value_guard bw v then RomErr ErrValue else RomOk v   (* translated guard *)
    end.

(* the mathematical content of a ROM: data[a] *)
Definition rom_data_at (data : romdata) (a : Z) : option Z :=
  match data with
  | RomFun f => f a
  | RomDict d => assoc d a
  | RomList l => nth_error l (Z.to_nat a)
  end.

(* CompiledSimulation._declare_roms / Verilog `initial` block: the ROM is tabulated
   at every address when the artefact is built; any error aborts the build *)
Fixpoint rom_tabulate (aw bw : Z) (pad : bool) (data : romdata) (n : nat) (a : Z)
  : option (list Z) :=
  match n with
  | O => Some []
  | Datatypes.S n' =>
      match rom_read aw bw pad data a, rom_tabulate aw bw pad data n' (a + 1) with
      | RomOk v, Some r => Some (v :: r)
      | _, _ => None
      end
  end.

Definition rom_table (aw bw : Z) (pad : bool) (data : romdata) : option (list Z) :=
  rom_tabulate aw bw pad data (Z.to_nat (2 ^ aw)) 0.

(* ------------------------------------------------------------------ *)
(** * (v) exported Verilog memory block                                 *)
(* reg [dw-1:0] mem_N [2^aw-1:0];
   always @(posedge clk) begin if (we) begin mem_N[wa] <= wd; end ... end
   assign o = mem_N[ra];
   Continuous assigns show the array as it is before the edge; at the edge every
   enabled non-blocking assignment samples (address, data), and the updates are then
   applied in source order (IEEE 1364 NBA region). *)
Definition vlog_nba (ws : list wport) : list (Z * Z) := fast_mem_ws ws.
Definition vlog_apply (m : array) (p : Z * Z) : array := upd m (fst p) (snd p).
Definition vlog_step (m : array) (c : cycle) : list Z * array :=
  (map m (snd c), fold_left vlog_apply (vlog_nba (fst c)) m).
Fixpoint vlog_run (m : array) (h : list cycle) : list (list Z) * array :=
  match h with
  | [] => ([], m)
  | c :: r => let '(rd, m') := vlog_step m c in
              let '(rds, m'') := vlog_run m' r in (rd :: rds, m'')
  end.

(* ------------------------------------------------------------------ *)
(** * (vi) memory ports after synthesize (passes._decompose, ops 'm' and '@')  *)
(* every wire is split into 1-bit wires; around a memory port the address and the
   data are re-assembled with concat_list (LSB first) and the word read is split into
   bits again (data[i]) *)
Fixpoint to_bits (n : nat) (x : Z) : list bool :=
  match n with
  | O => []
  | Datatypes.S n' => Z.odd x :: to_bits n' (x / 2)
  end.
Fixpoint of_bits (l : list bool) : Z :=
  match l with
  | [] => 0
  | b :: r => b2z b + 2 * of_bits r
  end.
Definition rebuild (n : nat) (x : Z) : Z := of_bits (to_bits n x).

Definition synth_wport (aw dw : nat) (w : wport) : wport :=
  (rebuild aw (w_addr w), rebuild dw (w_data w), rebuild 1 (w_en w)).
Definition synth_cycle (aw dw : nat) (c : cycle) : cycle :=
  (map (synth_wport aw dw) (fst c), map (rebuild aw) (snd c)).
(* a machine seen through synthesized ports *)
Definition synth_step {S} (step : S -> cycle -> list Z * S) (aw dw : nat) (s : S) (c : cycle) : list Z * S :=
  let '(rd, s') := step s (synth_cycle aw dw c) in (map (rebuild dw) rd, s').

Definition wport_fits (aw dw : nat) (w : wport) : Prop :=
  0 <= w_addr w < 2 ^ Z.of_nat aw /\ 0 <= w_data w < 2 ^ Z.of_nat dw /\ 0 <= w_en w < 2.
Definition cycle_fits (aw dw : nat) (c : cycle) : Prop :=
  Forall (wport_fits aw dw) (fst c) /\ Forall (fun a => 0 <= a < 2 ^ Z.of_nat aw) (snd c).

(* ------------------------------------------------------------------ *)
(** * (vii) a write port described under conditional_assignment          *)
(* conditional._finalize, memory branch: the branches (predicate, (addr, data, enable)) of one
   memory are folded into ONE '@' net:
     enable = select(p0, en0, 0); addr = addr0; data = data0;
     for every later branch:  x = select(p, x_branch, x)   for x in enable, addr, data
   (a plain `mem[a] |= d` has enable Const 1, an EnabledWrite its own enable) *)
Definition cond_port (brs : list (bool * wport)) : wport :=
  match brs with
  | [] => (0, 0, 0)
  | (p0, w0) :: rest =>
      fold_left (fun (acc : wport) (pw : bool * wport) => if fst pw then snd pw else acc) rest
                (w_addr w0, w_data w0, if p0 then w_en w0 else 0)
  end.
