(* C08 -- proofs: every concrete memory model refines the array specification for
   every history; writes to distinct addresses commute; the chained hash map is a
   finite map for every bucket count and hash function; rom_read is data[a]. *)
From PyRTL Require Import Mem.MemDefs.
From Coq Require Import ZifyBool Permutation.

(* ------------------------------------------------------------------ *)
(** * The array specification                                           *)

Lemma fold_write_ext ws : forall A B, (forall a, A a = B a) ->
  forall a, fold_left arr_write ws A a = fold_left arr_write ws B a.
Proof.
  induction ws as [|w r IH]; intros A B H a; simpl; [apply H|].
  apply IH. intros a'. unfold arr_write, upd. destruct (enabled w); [|apply H].
  destruct (a' =? w_addr w); [reflexivity|apply H].
Qed.

Lemma arr_step_ext A B c : (forall a, A a = B a) ->
  fst (arr_step A c) = fst (arr_step B c)
  /\ forall a, snd (arr_step A c) a = snd (arr_step B c) a.
Proof.
  intros H. unfold arr_step. simpl. split.
  - apply map_ext. assumption.
  - apply fold_write_ext. assumption.
Qed.

Lemma arr_run_ext h : forall A B, (forall a, A a = B a) ->
  fst (arr_run A h) = fst (arr_run B h)
  /\ forall a, snd (arr_run A h) a = snd (arr_run B h) a.
Proof.
  induction h as [|c r IH]; intros A B H; simpl; [auto|].
  destruct (arr_step_ext A B c H) as [H1 H2]. unfold arr_step in *. simpl in H1, H2.
  specialize (IH _ _ H2).
  destruct (arr_run (fold_left arr_write (fst c) A) r) as [rds A2].
  destruct (arr_run (fold_left arr_write (fst c) B) r) as [rds' B2].
  simpl in *. destruct IH as [IH1 IH2]. split; [congruence|assumption].
Qed.

Lemma enabled_addrs_cons w ws :
  enabled_addrs (w :: ws) = if enabled w then w_addr w :: enabled_addrs ws else enabled_addrs ws.
Proof. unfold enabled_addrs. simpl. destruct (enabled w); reflexivity. Qed.

Lemma enabled_addrs_perm ws ws' : Permutation ws ws' ->
  Permutation (enabled_addrs ws) (enabled_addrs ws').
Proof.
  induction 1.
  - constructor.
  - rewrite !enabled_addrs_cons. destruct (enabled x); [constructor|]; assumption.
  - rewrite !enabled_addrs_cons. destruct (enabled x), (enabled y);
      try apply Permutation_refl. apply perm_swap.
  - eapply Permutation_trans; eassumption.
Qed.

Lemma nodupb_spec l : nodupb l = true <-> NoDup l.
Proof.
  induction l as [|x r IH]; simpl.
  - split; [constructor|reflexivity].
  - rewrite andb_true_iff, negb_true_iff, IH. split.
    + intros [H1 H2]. constructor; [|assumption]. intro Hin.
      assert (existsb (Z.eqb x) r = true); [|congruence].
      apply existsb_exists. exists x. split; [assumption|apply Z.eqb_refl].
    + intros H. inversion H as [|? ? Hn Hr]; subst. split; [|assumption].
      destruct (existsb (Z.eqb x) r) eqn:E; [|reflexivity].
      apply existsb_exists in E. destruct E as [y [Hy Heq]].
      apply Z.eqb_eq in Heq. subst. contradiction.
Qed.

Lemma cycle_okb_spec c : cycle_okb c = true <-> cycle_ok c.
Proof. apply nodupb_spec. Qed.

(* writes to distinct addresses commute: the order in which the ports are visited
   (port order, Python set order, net order) is irrelevant *)
Theorem writes_commute ws ws' : Permutation ws ws' -> NoDup (enabled_addrs ws) ->
  forall A a, fold_left arr_write ws A a = fold_left arr_write ws' A a.
Proof.
  induction 1 as [|x l l' Hp IH|x y l|l l' l'' Hp1 IH1 Hp2 IH2]; intros Hnd A a.
  - reflexivity.
  - simpl. apply IH. rewrite enabled_addrs_cons in Hnd.
    destruct (enabled x); [inversion Hnd|]; assumption.
  - simpl. apply fold_write_ext. intros a'.
    rewrite !enabled_addrs_cons in Hnd. unfold arr_write, upd.
    destruct (enabled y) eqn:Ey, (enabled x) eqn:Ex; try reflexivity.
    destruct (a' =? w_addr x) eqn:E1, (a' =? w_addr y) eqn:E2; try reflexivity.
    exfalso. inversion Hnd as [|? ? Hn _]; subst. apply Hn. left. lia.
  - rewrite IH1 by assumption. apply IH2.
    eapply Permutation_NoDup; [apply enabled_addrs_perm; eassumption|assumption].
Qed.

(* the value an address holds after the cycle's writes *)
Lemma write_untouched ws : forall A a,
  (forall w, In w ws -> enabled w = true -> w_addr w <> a) ->
  fold_left arr_write ws A a = A a.
Proof.
  induction ws as [|w r IH]; intros A a H; simpl; [reflexivity|].
  rewrite IH by (intros; apply H; [right|]; assumption).
  unfold arr_write. destruct (enabled w) eqn:E; [|reflexivity].
  apply upd_other. intro Heq. apply (H w (or_introl eq_refl) E). congruence.
Qed.

Lemma write_lands ws : forall A w, NoDup (enabled_addrs ws) -> In w ws -> enabled w = true ->
  fold_left arr_write ws A (w_addr w) = w_data w.
Proof.
  induction ws as [|x r IH]; intros A w Hnd Hin He; [contradiction|].
  simpl. rewrite enabled_addrs_cons in Hnd. destruct Hin as [->|Hin].
  - rewrite He in Hnd. inversion Hnd as [|? ? Hn Hr]; subst.
    rewrite write_untouched.
    + unfold arr_write. rewrite He. apply upd_same.
    + intros w' Hw' He' Heq. apply Hn. unfold enabled_addrs. apply in_map_iff.
      exists w'. split; [assumption|]. apply filter_In. auto.
  - apply IH; [|assumption|assumption].
    destruct (enabled x); [inversion Hnd|]; assumption.
Qed.

(* ------------------------------------------------------------------ *)
(** * Generic refinement: a machine whose read is its abstraction and whose
      single write simulates arr_write refines the array on every history   *)

Definition cycle_perm (c c' : cycle) : Prop :=
  Permutation (fst c) (fst c') /\ snd c = snd c'.

Section Refinement.
Context {S : Type}.
Variable cread : S -> Z -> Z.          (* also the abstraction function *)
Variable cwrite : S -> wport -> S.
Variable inv : S -> Prop.              (* representation invariant *)
Variable okw : wport -> Prop.          (* admissible write ports (ranges) *)
Variable oka : Z -> Prop.              (* admissible read addresses *)

Hypothesis write_ok : forall s w, inv s -> okw w ->
  inv (cwrite s w) /\ forall a, oka a -> cread (cwrite s w) a = arr_write (cread s) w a.

Definition cyc_adm (c : cycle) : Prop := Forall okw (fst c) /\ Forall oka (snd c).

Lemma fold_refines ws : forall s A, inv s -> Forall okw ws ->
  (forall a, oka a -> cread s a = A a) ->
  inv (fold_left cwrite ws s)
  /\ forall a, oka a -> cread (fold_left cwrite ws s) a = fold_left arr_write ws A a.
Proof.
  induction ws as [|w r IH]; intros s A Hi Hok H; simpl; [auto|].
  inversion Hok as [|? ? Hw Hr]; subst.
  destruct (write_ok s w Hi Hw) as [Hi' Hrd].
  apply IH; [assumption|assumption|]. intros a Ha. rewrite Hrd by assumption.
  unfold arr_write, upd. destruct (enabled w); [|auto].
  destruct (a =? w_addr w); auto.
Qed.

(* one cycle, ports visited in any order *)
Lemma step_refines s A c c' :
  inv s -> (forall a, oka a -> cread s a = A a) ->
  cycle_ok c -> cycle_perm c c' -> cyc_adm c' ->
  fst (mach_step cread cwrite s c') = fst (arr_step A c)
  /\ inv (snd (mach_step cread cwrite s c'))
  /\ forall a, oka a -> cread (snd (mach_step cread cwrite s c')) a = snd (arr_step A c) a.
Proof.
  intros Hi H Hok [Hp Hr] [Hw Ha]. unfold mach_step, arr_step. simpl.
  destruct (fold_refines (fst c') s A Hi Hw H) as [Hi' Hf].
  split; [|split; [assumption|]].
  - rewrite Hr. apply map_ext_in. intros a Hin. apply H.
    rewrite Forall_forall in Ha. apply Ha. assumption.
  - intros a Hoa. rewrite Hf by assumption. symmetry. apply writes_commute; assumption.
Qed.

(* every history *)
Theorem run_refines : forall h h' s A,
  inv s -> (forall a, oka a -> cread s a = A a) ->
  Forall cycle_ok h -> Forall2 cycle_perm h h' -> Forall cyc_adm h' ->
  fst (mach_run cread cwrite s h') = fst (arr_run A h)
  /\ inv (snd (mach_run cread cwrite s h'))
  /\ forall a, oka a -> cread (snd (mach_run cread cwrite s h')) a = snd (arr_run A h) a.
Proof.
  induction h as [|c r IH]; intros h' s A Hi H Hok Hp Hadm.
  - inversion Hp; subst. simpl. auto.
  - inversion Hp as [|? c' ? r' Hc Hr]; subst.
    inversion Hok as [|? ? Hokc Hokr]; subst.
    inversion Hadm as [|? ? Hac Har]; subst.
    destruct (step_refines s A c c' Hi H Hokc Hc Hac) as [H1 [H2 H3]].
    cbn [mach_run arr_run].
    destruct (mach_step cread cwrite s c') as [rd s1].
    destruct (arr_step A c) as [rd' A1]. simpl in H1, H2, H3.
    specialize (IH r' s1 A1 H2 H3 Hokr Hr Har).
    destruct (mach_run cread cwrite s1 r') as [rds s2].
    destruct (arr_run A1 r) as [rds' A2]. simpl in *.
    destruct IH as [IH1 IH2]. split; [congruence|assumption].
Qed.

End Refinement.

Lemma cycle_perm_refl c : cycle_perm c c.
Proof. split; [apply Permutation_refl|reflexivity]. Qed.

Lemma Forall2_refl_perm h : Forall2 cycle_perm h h.
Proof. induction h; constructor; [apply cycle_perm_refl|assumption]. Qed.

(* ------------------------------------------------------------------ *)
(** * (i) the dict of Simulation                                        *)

Lemma assoc_pyd_set d k v k' :
  assoc (pyd_set d k v) k' = if k' =? k then Some v else assoc d k'.
Proof.
  induction d as [|[k0 v0] r IH]; simpl.
  - rewrite (Z.eqb_sym k k'). reflexivity.
  - destruct (k0 =? k) eqn:E; simpl.
    + destruct (k0 =? k') eqn:E1, (k' =? k) eqn:E2; try reflexivity; lia.
    + destruct (k0 =? k') eqn:E1; [|apply IH].
      destruct (k' =? k) eqn:E2; [lia|reflexivity].
Qed.

Lemma pyd_get_set dflt d k v k' :
  pyd_get dflt (pyd_set d k v) k' = if k' =? k then v else pyd_get dflt d k'.
Proof.
  unfold pyd_get, assoc_d. rewrite assoc_pyd_set. destruct (k' =? k); reflexivity.
Qed.

Lemma sim_write_ok dflt d w a :
  pyd_get dflt (sim_mem_update d w) a = arr_write (pyd_get dflt d) w a.
Proof.
  unfold sim_mem_update, arr_write, upd. destruct (enabled w); [|reflexivity].
  apply pyd_get_set.
Qed.

Definition all_cycles_adm (h : list cycle) : Forall (cyc_adm (fun _ => True) (fun _ => True)) h.
Proof.
  induction h as [|c r IH]; constructor; [|assumption].
  split; apply Forall_forall; intros; exact I.
Qed.

Theorem sim_refines_array dflt : forall h h' d A,
  (forall a, pyd_get dflt d a = A a) ->
  Forall cycle_ok h -> Forall2 cycle_perm h h' ->
  fst (sim_mem_run dflt d h') = fst (arr_run A h)
  /\ forall a, pyd_get dflt (snd (sim_mem_run dflt d h')) a = snd (arr_run A h) a.
Proof.
  intros h h' d A H Hok Hp.
  destruct (run_refines (pyd_get dflt) sim_mem_update (fun _ => True) (fun _ => True)
              (fun _ => True)
              (fun s w _ _ => conj I (fun a _ => sim_write_ok dflt s w a))
              h h' d A I (fun a _ => H a) Hok Hp (all_cycles_adm h')) as [H1 [_ H2]].
  split; [assumption|]. intros a. apply H2. exact I.
Qed.

(* the dict keeps unique keys (it is a Python dict) *)
Lemma pyd_set_keys d k v :
  map fst (pyd_set d k v) = if existsb (Z.eqb k) (map fst d) then map fst d else map fst d ++ [k].
Proof.
  induction d as [|[k0 v0] r IH]; simpl; [reflexivity|].
  rewrite (Z.eqb_sym k k0). destruct (k0 =? k) eqn:E; simpl; [reflexivity|].
  rewrite IH. destruct (existsb (Z.eqb k) (map fst r)); reflexivity.
Qed.

Lemma pyd_set_nodup d k v : NoDup (map fst d) -> NoDup (map fst (pyd_set d k v)).
Proof.
  intros H. rewrite pyd_set_keys. destruct (existsb (Z.eqb k) (map fst d)) eqn:E; [assumption|].
  apply NoDup_rev in H. rewrite <- (rev_involutive (map fst d ++ [k])).
  apply NoDup_rev. rewrite rev_app_distr. simpl. constructor; [|assumption].
  rewrite <- in_rev. intro Hin.
  assert (existsb (Z.eqb k) (map fst d) = true); [|congruence].
  apply existsb_exists. exists k. split; [assumption|apply Z.eqb_refl].
Qed.
