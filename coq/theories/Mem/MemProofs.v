(* C08 -- proofs: every concrete memory model refines the array specification for
   every history; writes to distinct addresses commute; the chained hash map is a
   finite map for every bucket count and hash function; rom_read is data[a]. *)
From PyRTL Require Import Mem.MemDefs.
From Coq Require Import ZifyBool Permutation.

(* ------------------------------------------------------------------ *)
(** * The array specification                                           *)

Lemma fold_write_ext ws : forall A B, (forall a, A a = B a) ->
  forall a, fold_left arr_write ws A a = fold_left arr_write ws B a.
Proof.
  induction ws as [|w r IH]; intros A B H a; simpl; [apply H|].
  apply IH. intros a'. unfold arr_write, upd. destruct (enabled w); [|apply H].
  destruct (a' =? w_addr w); [reflexivity|apply H].
Qed.

Lemma arr_step_ext A B c : (forall a, A a = B a) ->
  fst (arr_step A c) = fst (arr_step B c)
  /\ forall a, snd (arr_step A c) a = snd (arr_step B c) a.
Proof.
  intros H. unfold arr_step. simpl. split.
  - apply map_ext. assumption.
  - apply fold_write_ext. assumption.
Qed.

Lemma arr_run_ext h : forall A B, (forall a, A a = B a) ->
  fst (arr_run A h) = fst (arr_run B h)
  /\ forall a, snd (arr_run A h) a = snd (arr_run B h) a.
Proof.
  induction h as [|c r IH]; intros A B H; simpl; [auto|].
  destruct (arr_step_ext A B c H) as [H1 H2]. unfold arr_step in *. simpl in H1, H2.
  specialize (IH _ _ H2).
  destruct (arr_run (fold_left arr_write (fst c) A) r) as [rds A2].
  destruct (arr_run (fold_left arr_write (fst c) B) r) as [rds' B2].
  simpl in *. destruct IH as [IH1 IH2]. split; [congruence|assumption].
Qed.

Lemma enabled_addrs_cons w ws :
  enabled_addrs (w :: ws) = if enabled w then w_addr w :: enabled_addrs ws else enabled_addrs ws.
Proof. unfold enabled_addrs. simpl. destruct (enabled w); reflexivity. Qed.

Lemma enabled_addrs_perm ws ws' : Permutation ws ws' ->
  Permutation (enabled_addrs ws) (enabled_addrs ws').
Proof.
  induction 1.
  - constructor.
  - rewrite !enabled_addrs_cons. destruct (enabled x); [constructor|]; assumption.
  - rewrite !enabled_addrs_cons. destruct (enabled x), (enabled y);
      try apply Permutation_refl. apply perm_swap.
  - eapply Permutation_trans; eassumption.
Qed.

Lemma nodupb_spec l : nodupb l = true <-> NoDup l.
Proof.
  induction l as [|x r IH]; simpl.
  - split; [constructor|reflexivity].
  - rewrite andb_true_iff, negb_true_iff, IH. split.
    + intros [H1 H2]. constructor; [|assumption]. intro Hin.
      assert (existsb (Z.eqb x) r = true); [|congruence].
      apply existsb_exists. exists x. split; [assumption|apply Z.eqb_refl].
    + intros H. inversion H as [|? ? Hn Hr]; subst. split; [|assumption].
      destruct (existsb (Z.eqb x) r) eqn:E; [|reflexivity].
      apply existsb_exists in E. destruct E as [y [Hy Heq]].
      apply Z.eqb_eq in Heq. subst. contradiction.
Qed.

Lemma cycle_okb_spec c : cycle_okb c = true <-> cycle_ok c.
Proof. apply nodupb_spec. Qed.

(* writes to distinct addresses commute: the order in which the ports are visited
   (port order, Python set order, net order) is irrelevant *)
Theorem writes_commute ws ws' : Permutation ws ws' -> NoDup (enabled_addrs ws) ->
  forall A a, fold_left arr_write ws A a = fold_left arr_write ws' A a.
Proof.
  induction 1 as [|x l l' Hp IH|x y l|l l' l'' Hp1 IH1 Hp2 IH2]; intros Hnd A a.
  - reflexivity.
  - simpl. apply IH. rewrite enabled_addrs_cons in Hnd.
    destruct (enabled x); [inversion Hnd|]; assumption.
  - simpl. apply fold_write_ext. intros a'.
    rewrite !enabled_addrs_cons in Hnd. unfold arr_write, upd.
    destruct (enabled y) eqn:Ey, (enabled x) eqn:Ex; try reflexivity.
    destruct (a' =? w_addr x) eqn:E1, (a' =? w_addr y) eqn:E2; try reflexivity.
    exfalso. inversion Hnd as [|? ? Hn _]; subst. apply Hn. left. lia.
  - rewrite IH1 by assumption. apply IH2.
    eapply Permutation_NoDup; [apply enabled_addrs_perm; eassumption|assumption].
Qed.

(* the value an address holds after the cycle's writes *)
Lemma write_untouched ws : forall A a,
  (forall w, In w ws -> enabled w = true -> w_addr w <> a) ->
  fold_left arr_write ws A a = A a.
Proof.
  induction ws as [|w r IH]; intros A a H; simpl; [reflexivity|].
  rewrite IH by (intros; apply H; [right|]; assumption).
  unfold arr_write. destruct (enabled w) eqn:E; [|reflexivity].
  apply upd_other. intro Heq. apply (H w (or_introl eq_refl) E). congruence.
Qed.

Lemma write_lands ws : forall A w, NoDup (enabled_addrs ws) -> In w ws -> enabled w = true ->
  fold_left arr_write ws A (w_addr w) = w_data w.
Proof.
  induction ws as [|x r IH]; intros A w Hnd Hin He; [contradiction|].
  simpl. rewrite enabled_addrs_cons in Hnd. destruct Hin as [->|Hin].
  - rewrite He in Hnd. inversion Hnd as [|? ? Hn Hr]; subst.
    rewrite write_untouched.
    + unfold arr_write. rewrite He. apply upd_same.
    + intros w' Hw' He' Heq. apply Hn. unfold enabled_addrs. apply in_map_iff.
      exists w'. split; [assumption|]. apply filter_In. auto.
  - apply IH; [|assumption|assumption].
    destruct (enabled x); [inversion Hnd|]; assumption.
Qed.

(* the array semantics is the "last word written earlier" semantics *)
Lemma cycle_write_spec c A a : cycle_ok c ->
  fold_left arr_write (fst c) A a
  = match cycle_write_to c a with Some v => v | None => A a end.
Proof.
  intros Hok. unfold cycle_write_to.
  destruct (find (fun w => enabled w && (w_addr w =? a)) (fst c)) as [w|] eqn:E.
  - apply find_some in E. destruct E as [Hin Hb]. apply andb_true_iff in Hb.
    destruct Hb as [He Ha]. assert (w_addr w = a) by lia. subst a.
    apply write_lands; assumption.
  - apply write_untouched. intros w Hin He Heq.
    pose proof (find_none _ _ E w Hin) as Hn. cbv beta in Hn. rewrite He in Hn. simpl in Hn. lia.
Qed.

Theorem arr_run_is_last_write A0 : forall h past A,
  Forall cycle_ok h -> (forall a, A a = word_at A0 past a) ->
  fst (arr_run A h) = hist_reads A0 past h.
Proof.
  induction h as [|c r IH]; intros past A Hok H; [reflexivity|].
  inversion Hok as [|? ? Hc Hr]; subst. cbn [arr_run hist_reads]. unfold arr_step.
  specialize (IH (c :: past) (fold_left arr_write (fst c) A) Hr).
  destruct (arr_run (fold_left arr_write (fst c) A) r) as [rds A2]. simpl in *.
  f_equal.
  - apply map_ext. assumption.
  - apply IH. intros a. rewrite cycle_write_spec by assumption.
    unfold word_at. simpl. destruct (cycle_write_to c a); [reflexivity|]. apply H.
Qed.

(* ------------------------------------------------------------------ *)
(** * Generic refinement: a machine whose read is its abstraction and whose
      single write simulates arr_write refines the array on every history   *)

Definition cycle_perm (c c' : cycle) : Prop :=
  Permutation (fst c) (fst c') /\ snd c = snd c'.

Section Refinement.
Context {S : Type}.
Variable cread : S -> Z -> Z.          (* also the abstraction function *)
Variable cwrite : S -> wport -> S.
Variable inv : S -> Prop.              (* representation invariant *)
Variable okw : wport -> Prop.          (* admissible write ports (ranges) *)
Variable oka : Z -> Prop.              (* admissible read addresses *)

Hypothesis write_ok : forall s w, inv s -> okw w ->
  inv (cwrite s w) /\ forall a, oka a -> cread (cwrite s w) a = arr_write (cread s) w a.

Definition cyc_adm (c : cycle) : Prop := Forall okw (fst c) /\ Forall oka (snd c).

Lemma fold_refines ws : forall s A, inv s -> Forall okw ws ->
  (forall a, oka a -> cread s a = A a) ->
  inv (fold_left cwrite ws s)
  /\ forall a, oka a -> cread (fold_left cwrite ws s) a = fold_left arr_write ws A a.
Proof.
  induction ws as [|w r IH]; intros s A Hi Hok H; simpl; [auto|].
  inversion Hok as [|? ? Hw Hr]; subst.
  destruct (write_ok s w Hi Hw) as [Hi' Hrd].
  apply IH; [assumption|assumption|]. intros a Ha. rewrite Hrd by assumption.
  unfold arr_write, upd. destruct (enabled w); [|auto].
  destruct (a =? w_addr w); auto.
Qed.

(* one cycle, ports visited in any order *)
Lemma step_refines s A c c' :
  inv s -> (forall a, oka a -> cread s a = A a) ->
  cycle_ok c -> cycle_perm c c' -> cyc_adm c' ->
  fst (mach_step cread cwrite s c') = fst (arr_step A c)
  /\ inv (snd (mach_step cread cwrite s c'))
  /\ forall a, oka a -> cread (snd (mach_step cread cwrite s c')) a = snd (arr_step A c) a.
Proof.
  intros Hi H Hok [Hp Hr] [Hw Ha]. unfold mach_step, arr_step. simpl.
  destruct (fold_refines (fst c') s A Hi Hw H) as [Hi' Hf].
  split; [|split; [assumption|]].
  - rewrite Hr. apply map_ext_in. intros a Hin. apply H.
    rewrite Forall_forall in Ha. apply Ha. assumption.
  - intros a Hoa. rewrite Hf by assumption. symmetry. apply writes_commute; assumption.
Qed.

(* every history *)
Theorem run_refines : forall h h' s A,
  inv s -> (forall a, oka a -> cread s a = A a) ->
  Forall cycle_ok h -> Forall2 cycle_perm h h' -> Forall cyc_adm h' ->
  fst (mach_run cread cwrite s h') = fst (arr_run A h)
  /\ inv (snd (mach_run cread cwrite s h'))
  /\ forall a, oka a -> cread (snd (mach_run cread cwrite s h')) a = snd (arr_run A h) a.
Proof.
  induction h as [|c r IH]; intros h' s A Hi H Hok Hp Hadm.
  - inversion Hp; subst. simpl. auto.
  - inversion Hp as [|? c' ? r' Hc Hr]; subst.
    inversion Hok as [|? ? Hokc Hokr]; subst.
    inversion Hadm as [|? ? Hac Har]; subst.
    destruct (step_refines s A c c' Hi H Hokc Hc Hac) as [H1 [H2 H3]].
    cbn [mach_run arr_run].
    destruct (mach_step cread cwrite s c') as [rd s1].
    destruct (arr_step A c) as [rd' A1]. simpl in H1, H2, H3.
    specialize (IH r' s1 A1 H2 H3 Hokr Hr Har).
    destruct (mach_run cread cwrite s1 r') as [rds s2].
    destruct (arr_run A1 r) as [rds' A2]. simpl in *.
    destruct IH as [IH1 IH2]. split; [congruence|assumption].
Qed.

End Refinement.

Lemma cycle_perm_refl c : cycle_perm c c.
Proof. split; [apply Permutation_refl|reflexivity]. Qed.

Lemma Forall2_refl_perm h : Forall2 cycle_perm h h.
Proof. induction h; constructor; [apply cycle_perm_refl|assumption]. Qed.

(* ------------------------------------------------------------------ *)
(** * (i) the dict of Simulation                                        *)

Lemma assoc_pyd_set d k v k' :
  assoc (pyd_set d k v) k' = if k' =? k then Some v else assoc d k'.
Proof.
  induction d as [|[k0 v0] r IH]; simpl.
  - rewrite (Z.eqb_sym k k'). reflexivity.
  - destruct (k0 =? k) eqn:E; simpl.
    + destruct (k0 =? k') eqn:E1, (k' =? k) eqn:E2; try reflexivity; lia.
    + destruct (k0 =? k') eqn:E1; [|apply IH].
      destruct (k' =? k) eqn:E2; [lia|reflexivity].
Qed.

Lemma pyd_get_set dflt d k v k' :
  pyd_get dflt (pyd_set d k v) k' = if k' =? k then v else pyd_get dflt d k'.
Proof.
  unfold pyd_get, assoc_d. rewrite assoc_pyd_set. destruct (k' =? k); reflexivity.
Qed.

(* the translated store condition of Simulation._mem_update is "enable is non-zero" *)
Lemma mem_update_cond_enabled w : mem_update_cond (w_en w) = enabled w.
Proof. reflexivity. Qed.

Lemma sim_write_ok dflt d w a :
  pyd_get dflt (sim_mem_update d w) a = arr_write (pyd_get dflt d) w a.
Proof.
  unfold sim_mem_update, arr_write, upd. rewrite mem_update_cond_enabled.
  destruct (enabled w); [|reflexivity]. apply pyd_get_set.
Qed.

Definition all_cycles_adm (h : list cycle) : Forall (cyc_adm (fun _ => True) (fun _ => True)) h.
Proof.
  induction h as [|c r IH]; constructor; [|assumption].
  split; apply Forall_forall; intros; exact I.
Qed.

Theorem sim_refines_array dflt : forall h h' d A,
  (forall a, pyd_get dflt d a = A a) ->
  Forall cycle_ok h -> Forall2 cycle_perm h h' ->
  fst (sim_mem_run dflt d h') = fst (arr_run A h)
  /\ forall a, pyd_get dflt (snd (sim_mem_run dflt d h')) a = snd (arr_run A h) a.
Proof.
  intros h h' d A H Hok Hp.
  destruct (run_refines (pyd_get dflt) sim_mem_update (fun _ => True) (fun _ => True)
              (fun _ => True)
              (fun s w _ _ => conj I (fun a _ => sim_write_ok dflt s w a))
              h h' d A I (fun a _ => H a) Hok Hp (all_cycles_adm h')) as [H1 [_ H2]].
  split; [assumption|]. intros a. apply H2. exact I.
Qed.

(* the dict keeps unique keys (it is a Python dict) *)
Lemma pyd_set_keys d k v :
  map fst (pyd_set d k v) = if existsb (Z.eqb k) (map fst d) then map fst d else map fst d ++ [k].
Proof.
  induction d as [|[k0 v0] r IH]; simpl; [reflexivity|].
  rewrite (Z.eqb_sym k k0). destruct (k0 =? k) eqn:E; simpl; [reflexivity|].
  rewrite IH. destruct (existsb (Z.eqb k) (map fst r)); reflexivity.
Qed.

Lemma pyd_set_nodup d k v : NoDup (map fst d) -> NoDup (map fst (pyd_set d k v)).
Proof.
  intros H. rewrite pyd_set_keys. destruct (existsb (Z.eqb k) (map fst d)) eqn:E; [assumption|].
  apply NoDup_rev in H. rewrite <- (rev_involutive (map fst d ++ [k])).
  apply NoDup_rev. rewrite rev_app_distr. simpl. constructor; [|assumption].
  rewrite <- in_rev. intro Hin.
  assert (existsb (Z.eqb k) (map fst d) = true); [|congruence].
  apply existsb_exists. exists k. split; [assumption|apply Z.eqb_refl].
Qed.

Lemma sim_update_nodup d w : NoDup (map fst d) -> NoDup (map fst (sim_mem_update d w)).
Proof.
  unfold sim_mem_update. rewrite mem_update_cond_enabled.
  destruct (enabled w); [apply pyd_set_nodup|auto].
Qed.

Lemma sim_run_nodup dflt h : forall d, NoDup (map fst d) ->
  NoDup (map fst (snd (sim_mem_run dflt d h))).
Proof.
  induction h as [|c r IH]; intros d H; [assumption|].
  unfold sim_mem_run in *. cbn [mach_run]. unfold mach_step at 1.
  assert (Hf : NoDup (map fst (fold_left sim_mem_update (fst c) d))).
  { generalize d H. induction (fst c) as [|w ws IHw]; intros d0 H0; simpl; [assumption|].
    apply IHw. apply sim_update_nodup. assumption. }
  specialize (IH _ Hf).
  destruct (mach_run (pyd_get dflt) sim_mem_update (fold_left sim_mem_update (fst c) d) r).
  assumption.
Qed.

(* the `& bitmask` on the read port changes nothing when the data fit *)
Lemma sim_w_write_ok dflt dw d w a : 0 <= dw -> inrange (w_data w) dw ->
  sanitize (pyd_get dflt (sim_mem_update d w) a) dw
  = arr_write (fun a => sanitize (pyd_get dflt d a) dw) w a.
Proof.
  intros Hdw Hr. unfold sim_mem_update, arr_write, upd. rewrite mem_update_cond_enabled.
  destruct (enabled w); [|reflexivity].
  rewrite pyd_get_set. destruct (a =? w_addr w); [|reflexivity].
  apply sanitize_id; assumption.
Qed.

Definition data_fit (dw : Z) (c : cycle) : Prop := Forall (fun w => inrange (w_data w) dw) (fst c).

Theorem sim_w_refines_array dflt dw : 0 <= dw -> forall h h' d,
  Forall cycle_ok h -> Forall2 cycle_perm h h' -> Forall (data_fit dw) h' ->
  let A := fun a => sanitize (pyd_get dflt d a) dw in
  fst (sim_mem_run_w dflt dw d h') = fst (arr_run A h)
  /\ (forall a, sanitize (pyd_get dflt (snd (sim_mem_run_w dflt dw d h')) a) dw = snd (arr_run A h) a)
  /\ Forall (Forall (fun v => inrange v dw)) (fst (sim_mem_run_w dflt dw d h')).
Proof.
  intros Hdw h h' d Hok Hp Hfit A.
  assert (Hadm : Forall (cyc_adm (fun w => inrange (w_data w) dw) (fun _ => True)) h').
  { apply Forall_forall. intros c Hc. rewrite Forall_forall in Hfit. split; [apply Hfit; assumption|].
    apply Forall_forall. intros; exact I. }
  destruct (run_refines (fun d a => sanitize (pyd_get dflt d a) dw) sim_mem_update
              (fun _ => True) (fun w => inrange (w_data w) dw) (fun _ => True)
              (fun s w _ Hw => conj I (fun a _ => sim_w_write_ok dflt dw s w a Hdw Hw))
              h h' d A I (fun a _ => eq_refl) Hok Hp Hadm) as [H1 [_ H2]].
  split; [assumption|]. split; [intros a; apply H2; exact I|].
  clear - Hdw. unfold sim_mem_run_w. generalize d. induction h' as [|c r IH]; intros d0; cbn [mach_run].
  - constructor.
  - unfold mach_step at 1. specialize (IH (fold_left sim_mem_update (fst c) d0)).
    destruct (mach_run _ sim_mem_update (fold_left sim_mem_update (fst c) d0) r). simpl in *.
    constructor; [|assumption]. apply Forall_forall. intros v Hv. apply in_map_iff in Hv.
    destruct Hv as [a [<- _]]. apply sanitize_range. assumption.
Qed.

(* ------------------------------------------------------------------ *)
(** * (ii) FastSimulation's deferred write list                         *)

Lemma fast_apply_ws ws : forall d,
  fold_left fast_apply (fast_mem_ws ws) d = fold_left sim_mem_update ws d.
Proof.
  induction ws as [|w r IH]; intros d; [reflexivity|].
  cbn [fold_left]. rewrite <- IH. unfold fast_mem_ws. cbn [flat_map].
  rewrite fold_left_app. unfold sim_mem_update. rewrite mem_update_cond_enabled.
  destruct (enabled w); reflexivity.
Qed.

Lemma fast_step_eq_sim dflt d c : fast_mem_step dflt d c = sim_mem_step dflt d c.
Proof.
  unfold fast_mem_step, sim_mem_step, mach_step. rewrite fast_apply_ws. reflexivity.
Qed.

Lemma fast_run_eq_sim dflt h : forall d, fast_mem_run dflt d h = sim_mem_run dflt d h.
Proof.
  induction h as [|c r IH]; intros d; [reflexivity|].
  unfold sim_mem_run in *. cbn [fast_mem_run mach_run].
  rewrite fast_step_eq_sim. unfold sim_mem_step.
  destruct (mach_step (pyd_get dflt) sim_mem_update d c) as [rd d']. rewrite IH. reflexivity.
Qed.

(* the generated straight-line program, for any interleaving of reads and appends *)
Lemma fast_exec_fold dflt d prog : forall rds ws,
  fold_left (fast_exec dflt d) prog (rds, ws)
  = (rds ++ map (pyd_get dflt d) (prog_reads prog), ws ++ fast_mem_ws (prog_writes prog)).
Proof.
  induction prog as [|e r IH]; intros rds ws; simpl.
  - rewrite !app_nil_r. reflexivity.
  - destruct e as [a|w]; simpl; rewrite IH; unfold fast_mem_ws; simpl.
    + rewrite <- app_assoc. reflexivity.
    + destruct (enabled w); simpl; [rewrite <- app_assoc|]; reflexivity.
Qed.

Theorem fast_prog_step_spec dflt d prog :
  fast_prog_step dflt d prog = fast_mem_step dflt d (prog_writes prog, prog_reads prog).
Proof.
  unfold fast_prog_step. rewrite fast_exec_fold. reflexivity.
Qed.

Theorem fast_refines_array dflt : forall h h' d A,
  (forall a, pyd_get dflt d a = A a) ->
  Forall cycle_ok h -> Forall2 cycle_perm h h' ->
  fst (fast_mem_run dflt d h') = fst (arr_run A h)
  /\ forall a, pyd_get dflt (snd (fast_mem_run dflt d h')) a = snd (arr_run A h) a.
Proof. intros. rewrite fast_run_eq_sim. apply sim_refines_array; assumption. Qed.

(* ------------------------------------------------------------------ *)
(** * (iii) the chained hash map                                        *)

Section HashMapFacts.
Context {V : Type}.
Variable hash : Z -> Z.
Variable dfl : V.

Lemma kassoc_replace (c : @chain V) k v : forall c', chain_replace c k v = Some c' ->
  forall k', kassoc c' k' = if k' =? k then Some v else kassoc c k'.
Proof.
  induction c as [|[k0 v0] r IH]; intros c' H k'; simpl in H; [discriminate|].
  destruct (k0 =? k) eqn:E.
  - injection H as <-. simpl. destruct (k0 =? k') eqn:E1, (k' =? k) eqn:E2; try reflexivity; lia.
  - destruct (chain_replace r k v) as [r'|] eqn:Er; [|discriminate]. injection H as <-.
    simpl. destruct (k0 =? k') eqn:E1.
    + destruct (k' =? k) eqn:E2; [lia|reflexivity].
    + apply IH. reflexivity.
Qed.

Lemma kassoc_insert (c : @chain V) k v k' :
  kassoc (chain_insert c k v) k' = if k' =? k then Some v else kassoc c k'.
Proof.
  unfold chain_insert. destruct (chain_replace c k v) as [c'|] eqn:E.
  - apply kassoc_replace. assumption.
  - simpl. rewrite (Z.eqb_sym k k'). reflexivity.
Qed.

Lemma set_nth_length {A} (l : list A) : forall n x, length (set_nth n l x) = length l.
Proof. induction l as [|y r IH]; intros [|n] x; simpl; auto. Qed.

Lemma nth_set_nth_same {A} (l : list A) : forall n x d, (n < length l)%nat ->
  nth n (set_nth n l x) d = x.
Proof.
  induction l as [|y r IH]; intros [|n] x d H; simpl in *; try lia; [reflexivity|].
  apply IH. lia.
Qed.

Lemma nth_set_nth_other {A} (l : list A) : forall n m x d, n <> m ->
  nth m (set_nth n l x) d = nth m l d.
Proof.
  induction l as [|y r IH]; intros [|n] [|m] x d H; simpl; try reflexivity; try lia.
  apply IH. lia.
Qed.

Lemma hm_pos_bound (h : @hmap V) k : h <> [] -> (hm_pos hash h k < length h)%nat.
Proof.
  intros H. unfold hm_pos. destruct h as [|c r]; [contradiction|].
  assert (0 < Z.of_nat (length (c :: r))) by (simpl; lia).
  pose proof (Z.mod_pos_bound (hash k) _ H0). lia.
Qed.

Lemma hm_insert_length (h : @hmap V) k v : length (hm_insert hash h k v) = length h.
Proof. unfold hm_insert. apply set_nth_length. Qed.

Lemma hm_insert_nonempty (h : @hmap V) k v : h <> [] -> hm_insert hash h k v <> [].
Proof.
  intros H E. apply (f_equal (@length _)) in E. rewrite hm_insert_length in E.
  destruct h; [contradiction|discriminate].
Qed.

(* the hash map is a finite map, for every bucket count and hash function *)
Theorem hm_find_insert (h : @hmap V) k v k' : h <> [] ->
  hm_find hash (hm_insert hash h k v) k' = fmap_set (hm_find hash h) k v k'.
Proof.
  intros Hne. unfold hm_find, fmap_set.
  assert (Hp : forall x, hm_pos hash (hm_insert hash h k v) x = hm_pos hash h x).
  { intros x. unfold hm_pos. rewrite hm_insert_length. reflexivity. }
  rewrite Hp. unfold hm_insert.
  destruct (Nat.eq_dec (hm_pos hash h k) (hm_pos hash h k')) as [E|E].
  - rewrite <- E. rewrite nth_set_nth_same by (apply hm_pos_bound; assumption).
    apply kassoc_insert.
  - rewrite nth_set_nth_other by assumption.
    destruct (k' =? k) eqn:Ek; [|reflexivity]. assert (k' = k) by lia. subst. contradiction.
Qed.

Lemma nth_repeat_nil {A} n m : nth m (repeat (@nil A) n) [] = [].
Proof. revert m. induction n as [|n IH]; intros [|m]; simpl; auto. Qed.

Theorem hm_find_create n k : hm_find hash (@hm_create V n) k = None.
Proof. unfold hm_find, hm_create. rewrite (@nth_repeat_nil (Z * V)). reflexivity. Qed.

Theorem hm_lookup_insert (h : @hmap V) k v k' : h <> [] ->
  hm_lookup hash dfl (hm_insert hash h k v) k'
  = if k' =? k then v else hm_lookup hash dfl h k'.
Proof.
  intros Hne. unfold hm_lookup. rewrite hm_find_insert by assumption. unfold fmap_set.
  destruct (k' =? k); reflexivity.
Qed.

Theorem hm_lookup_create n k : hm_lookup hash dfl (@hm_create V n) k = dfl.
Proof. unfold hm_lookup. rewrite hm_find_create. reflexivity. Qed.

End HashMapFacts.

(* -- limbs -- *)
Lemma join_split n : forall v, 0 <= v < 2 ^ (64 * Z.of_nat n) ->
  join_limbs (split_limbs n v) = v.
Proof.
  induction n as [|n IH]; intros v Hv.
  - simpl in *. lia.
  - cbn [split_limbs join_limbs].
    assert (Hpow : 2 ^ (64 * Z.of_nat (Datatypes.S n)) = 2 ^ 64 * 2 ^ (64 * Z.of_nat n)).
    { rewrite <- Z.pow_add_r by lia. f_equal. lia. }
    rewrite Hpow in Hv. rewrite IH.
    + pose proof (Z.div_mod v (2 ^ 64)). lia.
    + split; [apply Z.div_pos; lia|]. apply Z.div_lt_upper_bound; lia.
Qed.

Lemma join_zero n : join_limbs (repeat 0 n) = 0.
Proof. induction n as [|n IH]; simpl; [reflexivity|]. rewrite IH. reflexivity. Qed.

Definition c_okw (nl : nat) (w : wport) : Prop :=
  0 <= w_addr w < 2 ^ 64 /\ 0 <= w_data w < 2 ^ (64 * Z.of_nat nl).
Definition c_oka (a : Z) : Prop := 0 <= a < 2 ^ 64.

Lemma c_key_id a : 0 <= a < 2 ^ 64 -> c_key a = a.
Proof. intros. unfold c_key. apply Z.mod_small. assumption. Qed.

Lemma c_write_ok nl (h : cmap) w : h <> [] -> c_okw nl w ->
  c_write nl h w <> [] /\ forall a, c_oka a -> c_lookup nl (c_write nl h w) a = arr_write (c_lookup nl h) w a.
Proof.
  intros Hne [Ha Hd]. unfold c_write, arr_write, upd. destruct (enabled w); [|auto].
  split; [apply hm_insert_nonempty; assumption|].
  intros a Hoa. unfold c_lookup. rewrite hm_lookup_insert by assumption.
  rewrite !c_key_id by assumption. destruct (a =? w_addr w); [|reflexivity].
  apply join_split. assumption.
Qed.

Theorem comp_refines_array nl : forall h h' (s : cmap) A,
  s <> [] -> (forall a, c_oka a -> c_lookup nl s a = A a) ->
  Forall cycle_ok h -> Forall2 cycle_perm h h' -> Forall (cyc_adm (c_okw nl) c_oka) h' ->
  fst (comp_mem_run nl s h') = fst (arr_run A h)
  /\ forall a, c_oka a -> c_lookup nl (snd (comp_mem_run nl s h')) a = snd (arr_run A h) a.
Proof.
  intros h h' s A Hne H Hok Hp Hadm.
  destruct (run_refines (c_lookup nl) (c_write nl) (fun s => s <> []) (c_okw nl) c_oka
              (c_write_ok nl) h h' s A Hne H Hok Hp Hadm) as [H1 [_ H2]].
  split; assumption.
Qed.

(* initialize_mems: an empty 256-bucket map, then one insert per item *)
Lemma c_lookup_create nl size a : c_lookup nl (hm_create size) a = 0.
Proof. unfold c_lookup. rewrite hm_lookup_create. apply join_zero. Qed.

Lemma hm_create_nonempty {V} size : (0 < size)%nat -> @hm_create V size <> [].
Proof. destruct size; [lia|discriminate]. Qed.

Definition init_writes (init : list (Z * Z)) : list wport :=
  map (fun kv => (fst kv, snd kv, 1)) init.

Theorem c_init_spec nl size init : (0 < size)%nat ->
  Forall (fun kv => 0 <= fst kv < 2 ^ 64 /\ 0 <= snd kv < 2 ^ (64 * Z.of_nat nl)) init ->
  c_init nl size init <> []
  /\ forall a, c_oka a ->
       c_lookup nl (c_init nl size init) a = fold_left arr_write (init_writes init) (fun _ => 0) a.
Proof.
  intros Hs Hr. unfold c_init. fold (init_writes init).
  apply (fold_refines (c_lookup nl) (c_write nl) (fun s => s <> []) (c_okw nl) c_oka (c_write_ok nl)).
  - apply hm_create_nonempty. assumption.
  - unfold init_writes. apply Forall_forall. intros w Hw. apply in_map_iff in Hw.
    destruct Hw as [kv [<- Hin]]. rewrite Forall_forall in Hr. apply (Hr kv Hin).
  - intros a _. apply c_lookup_create.
Qed.

(* a Python dict has unique keys, so "last insert wins" is "the item's value" *)
Lemma assoc_notin l a : ~ In a (map fst l) -> assoc l a = None.
Proof.
  induction l as [|[k v] r IH]; simpl; intros H; [reflexivity|].
  destruct (k =? a) eqn:E; [exfalso; apply H; left; lia|]. apply IH. tauto.
Qed.

Lemma init_writes_spec init : NoDup (map fst init) -> forall A a,
  fold_left arr_write (init_writes init) A a
  = match assoc init a with Some v => v | None => A a end.
Proof.
  induction init as [|[k v] r IH]; intros Hnd A a; simpl; [reflexivity|].
  inversion Hnd as [|? ? Hn Hr]; subst. unfold init_writes in IH. rewrite IH by assumption.
  unfold arr_write, enabled, w_en, w_addr, w_data, upd. simpl.
  destruct (k =? a) eqn:E.
  - assert (k = a) by lia. subst. rewrite assoc_notin by assumption. rewrite Z.eqb_refl. reflexivity.
  - destruct (assoc r a); [reflexivity|]. rewrite Z.eqb_sym, E. reflexivity.
Qed.

Theorem c_init_arr nl size init : (0 < size)%nat -> NoDup (map fst init) ->
  Forall (fun kv => 0 <= fst kv < 2 ^ 64 /\ 0 <= snd kv < 2 ^ (64 * Z.of_nat nl)) init ->
  forall a, c_oka a -> c_lookup nl (c_init nl size init) a = arr_init init 0 a.
Proof.
  intros Hs Hnd Hr a Ha. destruct (c_init_spec nl size init Hs Hr) as [_ H].
  rewrite H by assumption. rewrite init_writes_spec by assumption. reflexivity.
Qed.

(* ------------------------------------------------------------------ *)
(** * (iv) ROM                                                          *)

Lemma py_list_get_nonneg l a : 0 <= a -> py_list_get l a = nth_error l (Z.to_nat a).
Proof.
  intros Ha. unfold py_list_get.
  destruct ((a <? - Z.of_nat (length l)) || (Z.of_nat (length l) <=? a)) eqn:E.
  - symmetry. apply nth_error_None. lia.
  - destruct (a <? 0) eqn:E1; [lia|reflexivity].
Qed.

Definition rom_spec (bw : Z) (pad : bool) (data : romdata) (a : Z) : rom_result :=
  match rom_data_at data a with
  | Some v => if (0 <=? v) && (v <? 2 ^ bw) then RomOk v else RomErr ErrValue
  | None => match data with
            | RomFun _ => RomErr ErrFun
            | RomDict _ => if pad then RomOk 0 else RomErr ErrKey
            | RomList _ => if pad then RomOk 0 else RomErr ErrIndex
            end
  end.

Theorem rom_read_spec aw bw pad data a : 0 <= bw -> 0 <= a < 2 ^ aw ->
  rom_read aw bw pad data a = rom_spec bw pad data a.
Proof.
  intros Hbw Ha. unfold rom_read, rom_spec, rom_addr_guard, rom_value_guard, rom_pad_key, rom_pad_index.
  destruct ((a <? 0) || (a >? 2 ^ aw - 1)) eqn:E; [lia|].
  pose proof (pow2_pos bw Hbw) as Hp.
  destruct data as [l|d|f]; simpl.
  - rewrite py_list_get_nonneg by lia. destruct (nth_error l (Z.to_nat a)) as [v|].
    + destruct ((v <? 0) || (v >=? 2 ^ bw)) eqn:E1, ((0 <=? v) && (v <? 2 ^ bw)) eqn:E2;
        try reflexivity; lia.
    + destruct pad; [|reflexivity]. destruct ((0 <? 0) || (0 >=? 2 ^ bw)) eqn:E1; [lia|reflexivity].
  - destruct (assoc d a) as [v|].
    + destruct ((v <? 0) || (v >=? 2 ^ bw)) eqn:E1, ((0 <=? v) && (v <? 2 ^ bw)) eqn:E2;
        try reflexivity; lia.
    + destruct pad; [|reflexivity]. destruct ((0 <? 0) || (0 >=? 2 ^ bw)) eqn:E1; [lia|reflexivity].
  - destruct (f a) as [v|]; [|reflexivity].
    destruct ((v <? 0) || (v >=? 2 ^ bw)) eqn:E1, ((0 <=? v) && (v <? 2 ^ bw)) eqn:E2;
      try reflexivity; lia.
Qed.

Theorem rom_read_oob aw bw pad data a : a < 0 \/ 2 ^ aw <= a ->
  rom_read aw bw pad data a = RomErr ErrAddr.
Proof.
  intros H. unfold rom_read, rom_addr_guard. destruct ((a <? 0) || (a >? 2 ^ aw - 1)) eqn:E; [reflexivity|lia].
Qed.

(* a successful read is in range and is the datum *)
Theorem rom_read_ok aw bw pad data a v : 0 <= bw ->
  rom_read aw bw pad data a = RomOk v ->
  0 <= a < 2 ^ aw /\ 0 <= v < 2 ^ bw
  /\ (rom_data_at data a = Some v \/ (rom_data_at data a = None /\ pad = true /\ v = 0)).
Proof.
  intros Hbw H.
  assert (Ha : 0 <= a < 2 ^ aw).
  { unfold rom_read, rom_addr_guard in H. destruct ((a <? 0) || (a >? 2 ^ aw - 1)) eqn:E; [discriminate|lia]. }
  split; [assumption|]. rewrite rom_read_spec in H by assumption. unfold rom_spec in H.
  destruct (rom_data_at data a) as [x|].
  - destruct ((0 <=? x) && (x <? 2 ^ bw)) eqn:E; [|discriminate]. injection H as <-.
    split; [lia|left; reflexivity].
  - pose proof (pow2_pos bw Hbw).
    destruct data; try discriminate; destruct pad; try discriminate; injection H as <-;
      (split; [lia|right; auto]).
Qed.

Lemma rom_tabulate_spec aw bw pad data n : forall a0 tbl,
  rom_tabulate aw bw pad data n a0 = Some tbl ->
  length tbl = n
  /\ forall i, (i < n)%nat -> rom_read aw bw pad data (a0 + Z.of_nat i) = RomOk (nth i tbl 0).
Proof.
  induction n as [|n IH]; intros a0 tbl H; simpl in H.
  - injection H as <-. split; [reflexivity|]. intros; lia.
  - destruct (rom_read aw bw pad data a0) as [v|] eqn:E; [|discriminate].
    destruct (rom_tabulate aw bw pad data n (a0 + 1)) as [r|] eqn:Er; [|discriminate].
    injection H as <-. destruct (IH _ _ Er) as [Hl Hi]. split; [simpl; lia|].
    intros [|i] Hlt.
    + simpl. rewrite Z.add_0_r. assumption.
    + cbn [nth]. rewrite <- Hi by lia. f_equal. lia.
Qed.

(* CompiledSimulation / Verilog: indexing the tabulated ROM is reading the ROM *)
Theorem rom_table_spec aw bw pad data tbl a : 0 <= aw ->
  rom_table aw bw pad data = Some tbl -> 0 <= a < 2 ^ aw ->
  rom_read aw bw pad data a = RomOk (nth (Z.to_nat a) tbl 0).
Proof.
  intros Haw H Ha. unfold rom_table in H. destruct (rom_tabulate_spec _ _ _ _ _ _ _ H) as [_ Hi].
  specialize (Hi (Z.to_nat a)). rewrite Z2Nat.id in Hi by lia. simpl in Hi. apply Hi. lia.
Qed.

(* ------------------------------------------------------------------ *)
(** * Packaged statements from the initial state of each simulator      *)

Definition hist_ok (h h' : list cycle) : Prop :=
  Forall cycle_ok h /\ Forall2 cycle_perm h h'.

Theorem sim_from_init dflt init h h' : hist_ok h h' ->
  fst (sim_mem_run dflt init h') = hist_reads (arr_init init dflt) [] h.
Proof.
  intros [Hok Hp].
  destruct (sim_refines_array dflt h h' init (arr_init init dflt) (fun a => eq_refl) Hok Hp) as [H _].
  rewrite H. apply arr_run_is_last_write; [assumption|reflexivity].
Qed.

Theorem fast_from_init dflt init h h' : hist_ok h h' ->
  fst (fast_mem_run dflt init h') = hist_reads (arr_init init dflt) [] h.
Proof. intros. rewrite fast_run_eq_sim. apply sim_from_init. assumption. Qed.

Definition c_init_ok (nl : nat) (init : list (Z * Z)) : Prop :=
  NoDup (map fst init)
  /\ Forall (fun kv => 0 <= fst kv < 2 ^ 64 /\ 0 <= snd kv < 2 ^ (64 * Z.of_nat nl)) init.

Theorem comp_from_init nl size init h h' : (0 < size)%nat -> c_init_ok nl init ->
  hist_ok h h' -> Forall (cyc_adm (c_okw nl) c_oka) h' ->
  fst (comp_mem_run nl (c_init nl size init) h') = hist_reads (arr_init init 0) [] h.
Proof.
  intros Hs [Hnd Hr] [Hok Hp] Hadm.
  destruct (c_init_spec nl size init Hs Hr) as [Hne _].
  destruct (comp_refines_array nl h h' (c_init nl size init) (arr_init init 0) Hne
              (c_init_arr nl size init Hs Hnd Hr) Hok Hp Hadm) as [H _].
  rewrite H. apply arr_run_is_last_write; [assumption|reflexivity].
Qed.

(* the three back-ends therefore agree with each other *)
Corollary backends_agree nl size init h h1 h2 h3 : (0 < size)%nat -> c_init_ok nl init ->
  hist_ok h h1 -> hist_ok h h2 -> hist_ok h h3 -> Forall (cyc_adm (c_okw nl) c_oka) h3 ->
  fst (sim_mem_run 0 init h1) = fst (fast_mem_run 0 init h2)
  /\ fst (fast_mem_run 0 init h2) = fst (comp_mem_run nl (c_init nl size init) h3).
Proof.
  intros. rewrite (sim_from_init 0 init h h1), (fast_from_init 0 init h h2),
    (comp_from_init nl size init h h3) by assumption. auto.
Qed.

(* -- corollaries in the property's words (array level; they transfer to every
      back-end through the refinement theorems) -- *)

(* read-during-write returns the old word; the new word is visible from the next cycle *)
Corollary read_during_write A a d rs :
  fst (arr_run A [([(a, d, 1)], [a]); ([], a :: rs)]) = [[A a]; d :: map (upd A a d) rs].
Proof.
  cbn. unfold arr_write, enabled, w_en, w_addr, w_data. simpl. rewrite upd_same. reflexivity.
Qed.

(* a disabled write is a no-op *)
Corollary disabled_write_noop A ws rs :
  Forall (fun w => w_en w = 0) ws ->
  forall a, snd (arr_step A (ws, rs)) a = A a.
Proof.
  intros H a. unfold arr_step. simpl. apply write_untouched. intros w Hin He.
  rewrite Forall_forall in H. specialize (H w Hin). unfold enabled in He. rewrite H in He. discriminate.
Qed.

Corollary disabled_write_noop_dict d ws :
  Forall (fun w => w_en w = 0) ws -> fold_left sim_mem_update ws d = d.
Proof.
  induction ws as [|w r IH]; intros H; simpl; [reflexivity|].
  inversion H as [|? ? Hw Hr]; subst. unfold sim_mem_update at 2. rewrite mem_update_cond_enabled.
  unfold enabled. rewrite Hw. simpl.
  apply IH. assumption.
Qed.

Corollary disabled_write_noop_hashmap nl (h : cmap) ws :
  Forall (fun w => w_en w = 0) ws -> fold_left (c_write nl) ws h = h.
Proof.
  induction ws as [|w r IH]; intros H; simpl; [reflexivity|].
  inversion H as [|? ? Hw Hr]; subst. unfold c_write at 2. unfold enabled. rewrite Hw. simpl.
  apply IH. assumption.
Qed.

(* any number of read ports compose: each port sees what it would see alone, and
   reading does not disturb the state *)
Corollary read_ports_compose A ws rs1 rs2 :
  fst (arr_step A (ws, rs1 ++ rs2)) = fst (arr_step A (ws, rs1)) ++ fst (arr_step A (ws, rs2))
  /\ snd (arr_step A (ws, rs1 ++ rs2)) = snd (arr_step A (ws, [])).
Proof. unfold arr_step. simpl. rewrite map_app. auto. Qed.

(* any number of write ports to distinct addresses compose: each enabled port's word
   lands, every other address keeps its word *)
Corollary write_ports_compose A c : cycle_ok c ->
  (forall w, In w (fst c) -> enabled w = true -> snd (arr_step A c) (w_addr w) = w_data w)
  /\ (forall a, ~ In a (enabled_addrs (fst c)) -> snd (arr_step A c) a = A a).
Proof.
  intros Hok. unfold arr_step. simpl. split.
  - intros w Hin He. apply write_lands; assumption.
  - intros a Hn. apply write_untouched. intros w Hin He Heq. apply Hn.
    unfold enabled_addrs. apply in_map_iff. exists w. split; [assumption|].
    apply filter_In. auto.
Qed.

(* CompiledSimulation keys the hash map on the low 64-bit limb of the address only:
   for addrwidth > 64 the array property is FALSE of the faithful model *)
Theorem comp_wide_addr_refuted :
  exists h, Forall cycle_ok h
            /\ fst (comp_mem_run 1 (c_init 1 c_size []) h) <> fst (arr_run (arr_init [] 0) h).
Proof.
  exists [([(2 ^ 64 + 5, 9, 1)], [0]); ([], [5])]. split.
  - repeat constructor; simpl; intuition.
  - vm_compute. discriminate.
Qed.

(* -- statements in the exact shape exported by Props/C08.v -- *)
Theorem arr_run_last_write_from_start A0 h :
  Forall cycle_ok h -> fst (arr_run A0 h) = hist_reads A0 [] h.
Proof. intros H. apply arr_run_is_last_write; [assumption|reflexivity]. Qed.

Theorem sim_dict_keys_unique dflt h d :
  NoDup (map fst d) -> NoDup (map fst (snd (sim_mem_run dflt d h))).
Proof. apply sim_run_nodup. Qed.

Theorem c_init_arr_ok nl size init : (0 < size)%nat -> c_init_ok nl init ->
  forall a, c_oka a -> c_lookup nl (c_init nl size init) a = arr_init init 0 a.
Proof. intros Hs [Hn Hr]. apply c_init_arr; assumption. Qed.

(* ------------------------------------------------------------------ *)
(** * (v) Verilog memory block                                          *)
Lemma vlog_apply_ws ws : forall m a,
  fold_left vlog_apply (vlog_nba ws) m a = fold_left arr_write ws m a.
Proof.
  induction ws as [|w r IH]; intros m a; [reflexivity|].
  cbn [fold_left]. rewrite <- IH. unfold vlog_nba, fast_mem_ws. cbn [flat_map].
  rewrite fold_left_app. unfold arr_write. destruct (enabled w); reflexivity.
Qed.

Lemma vlog_fold_ext l : forall m m', (forall a, m a = m' a) ->
  forall a, fold_left vlog_apply l m a = fold_left vlog_apply l m' a.
Proof.
  induction l as [|p r IH]; intros m m' H a; simpl; [apply H|].
  apply IH. intros a'. unfold vlog_apply, upd. destruct (a' =? fst p); [reflexivity|apply H].
Qed.

Theorem vlog_refines_array : forall h h' m A,
  (forall a, m a = A a) -> Forall cycle_ok h -> Forall2 cycle_perm h h' ->
  fst (vlog_run m h') = fst (arr_run A h)
  /\ forall a, snd (vlog_run m h') a = snd (arr_run A h) a.
Proof.
  induction h as [|c r IH]; intros h' m A H Hok Hp.
  - inversion Hp; subst. simpl. auto.
  - inversion Hp as [|? c' ? r' [Hpc Hrc] Hr]; subst. inversion Hok as [|? ? Hc Hokr]; subst.
    cbn [vlog_run arr_run]. unfold vlog_step, arr_step.
    assert (Hnext : forall a, fold_left vlog_apply (vlog_nba (fst c')) m a = fold_left arr_write (fst c) A a).
    { intros a. rewrite vlog_apply_ws. rewrite (fold_write_ext (fst c') m A H).
      symmetry. apply writes_commute; assumption. }
    specialize (IH r' _ _ Hnext Hokr Hr).
    destruct (vlog_run (fold_left vlog_apply (vlog_nba (fst c')) m) r') as [rds m2].
    destruct (arr_run (fold_left arr_write (fst c) A) r) as [rds' A2]. simpl in *.
    destruct IH as [IH1 IH2]. split; [|assumption].
    f_equal; [|assumption]. rewrite Hrc. apply map_ext. assumption.
Qed.

(* ------------------------------------------------------------------ *)
(** * (vi) synthesized ports                                            *)
Lemma rebuild_id n : forall x, 0 <= x < 2 ^ Z.of_nat n -> rebuild n x = x.
Proof.
  unfold rebuild. induction n as [|n IH]; intros x Hx.
  - simpl in *. lia.
  - cbn [to_bits of_bits].
    assert (Hpow : 2 ^ Z.of_nat (Datatypes.S n) = 2 * 2 ^ Z.of_nat n).
    { rewrite Nat2Z.inj_succ, Z.pow_succ_r by lia. reflexivity. }
    rewrite Hpow in Hx. rewrite IH.
    + pose proof (Z.div_mod x 2). rewrite Zmod_odd in H. unfold b2z. destruct (Z.odd x); lia.
    + split; [apply Z.div_pos; lia|]. apply Z.div_lt_upper_bound; lia.
Qed.

Lemma synth_cycle_id aw dw c : cycle_fits aw dw c -> synth_cycle aw dw c = c.
Proof.
  intros [Hw Hr]. destruct c as [ws rs]. unfold synth_cycle. simpl in *. f_equal.
  - induction ws as [|w r IH]; [reflexivity|]. inversion Hw as [|? ? [Ha [Hd He]] Hrest]; subst.
    simpl. rewrite IH by assumption. f_equal. unfold synth_wport.
    rewrite !rebuild_id by (simpl; try lia; assumption). destruct w as [[a d] e]. reflexivity.
  - induction rs as [|a r IH]; [reflexivity|]. inversion Hr; subst.
    simpl. rewrite IH, rebuild_id by assumption. reflexivity.
Qed.

(* splitting a port into bits and re-assembling it changes nothing: every refinement
   theorem above transfers to the synthesized design *)
Theorem synth_step_id {S} (step : S -> cycle -> list Z * S) aw dw s c :
  cycle_fits aw dw c ->
  Forall (fun v => 0 <= v < 2 ^ Z.of_nat dw) (fst (step s c)) ->
  synth_step step aw dw s c = step s c.
Proof.
  intros Hc Hv. unfold synth_step. rewrite synth_cycle_id by assumption.
  destruct (step s c) as [rd s']. simpl in *. f_equal.
  induction rd as [|v r IH]; [reflexivity|]. inversion Hv; subst.
  simpl. rewrite IH, rebuild_id by assumption. reflexivity.
Qed.

(* ------------------------------------------------------------------ *)
(** * Structure of the hash map: buckets stay well formed                *)
Section HashMapWF.
Context {V : Type}.
Variable hash : Z -> Z.

Lemma chain_replace_some (c : @chain V) k v : forall c', chain_replace c k v = Some c' ->
  map fst c' = map fst c /\ In k (map fst c).
Proof.
  induction c as [|[k0 v0] r IH]; intros c' H; simpl in H; [discriminate|].
  destruct (k0 =? k) eqn:E.
  - injection H as <-. simpl. split; [reflexivity|left; lia].
  - destruct (chain_replace r k v) as [r'|] eqn:Er; [|discriminate]. injection H as <-.
    destruct (IH _ eq_refl) as [H1 H2]. simpl. split; [f_equal; assumption|right; assumption].
Qed.

Lemma chain_replace_none (c : @chain V) k v : chain_replace c k v = None -> ~ In k (map fst c).
Proof.
  induction c as [|[k0 v0] r IH]; intros H; simpl in *; [tauto|].
  destruct (k0 =? k) eqn:E; [discriminate|].
  destruct (chain_replace r k v); [discriminate|]. intros [Heq|Hin]; [lia|]. apply IH; auto.
Qed.

Lemma nth_error_set_nth {A} (l : list A) : forall n m x,
  nth_error (set_nth n l x) m
  = if Nat.eqb m n then (if Nat.ltb n (length l) then Some x else None) else nth_error l m.
Proof.
  induction l as [|y r IH]; intros [|n] [|m] x; simpl; try reflexivity.
  - destruct (Nat.eqb m n); reflexivity.
  - rewrite IH. reflexivity.
Qed.

Theorem hm_wf_create n : hm_wf hash (@hm_create V n).
Proof.
  intros i c H. apply nth_error_In in H. unfold hm_create in H. apply repeat_spec in H. subst.
  simpl. split; [constructor|tauto].
Qed.

Theorem hm_wf_insert (h : @hmap V) k v : h <> [] -> hm_wf hash h -> hm_wf hash (hm_insert hash h k v).
Proof.
  intros Hne Hwf i c Hn.
  assert (Hp : forall x, hm_pos hash (hm_insert hash h k v) x = hm_pos hash h x).
  { intros x. unfold hm_pos. rewrite hm_insert_length. reflexivity. }
  unfold hm_insert in Hn. rewrite nth_error_set_nth in Hn.
  pose proof (hm_pos_bound hash h k Hne) as Hb.
  destruct (Nat.eqb i (hm_pos hash h k)) eqn:Ei.
  - apply Nat.eqb_eq in Ei. subst i.
    destruct (Nat.ltb (hm_pos hash h k) (length h)) eqn:El; [|apply Nat.ltb_ge in El; lia].
    injection Hn as <-.
    assert (Hc0 : nth_error h (hm_pos hash h k) = Some (nth (hm_pos hash h k) h [])).
    { apply nth_error_nth'. assumption. }
    destruct (Hwf _ _ Hc0) as [Hnd Hpos].
    unfold chain_insert. destruct (chain_replace (nth (hm_pos hash h k) h []) k v) as [c'|] eqn:Er.
    + destruct (chain_replace_some _ _ _ _ Er) as [Hk _]. rewrite Hk.
      split; [assumption|]. intros x Hx. rewrite Hp. apply Hpos. assumption.
    + apply chain_replace_none in Er. simpl. split; [constructor; assumption|].
      intros x [<-|Hx]; rewrite Hp; [reflexivity|apply Hpos; assumption].
  - destruct (Hwf _ _ Hn) as [Hnd Hpos]. split; [assumption|].
    intros x Hx. rewrite Hp. apply Hpos. assumption.
Qed.

(* an insert never duplicates a key: the number of nodes grows by one exactly when the
   key is new (the C code allocates a node it leaks otherwise, but never links it) *)
Lemma chain_insert_length (c : @chain V) k v :
  length (chain_insert c k v) = if existsb (Z.eqb k) (map fst c) then length c else Datatypes.S (length c).
Proof.
  unfold chain_insert. destruct (chain_replace c k v) as [c'|] eqn:Er.
  - destruct (chain_replace_some _ _ _ _ Er) as [Hk Hin].
    assert (Hl : length c' = length c).
    { rewrite <- (map_length fst c'), Hk, map_length. reflexivity. }
    destruct (existsb (Z.eqb k) (map fst c)) eqn:E; [assumption|].
    exfalso. assert (existsb (Z.eqb k) (map fst c) = true); [|congruence].
    apply existsb_exists. exists k. split; [assumption|apply Z.eqb_refl].
  - apply chain_replace_none in Er. destruct (existsb (Z.eqb k) (map fst c)) eqn:E; [|reflexivity].
    apply existsb_exists in E. destruct E as [x [Hx Heq]]. apply Z.eqb_eq in Heq. subst. contradiction.
Qed.

End HashMapWF.

(* the state after a run does not depend on what was read *)
Lemma mach_run_state {S} (cread : S -> Z -> Z) cwrite : forall h (s : S),
  snd (mach_run cread cwrite s h) = fold_left (fun s c => fold_left cwrite (fst c) s) h s.
Proof.
  induction h as [|c r IH]; intros s; [reflexivity|].
  cbn [mach_run fold_left]. unfold mach_step. rewrite <- IH.
  destruct (mach_run cread cwrite (fold_left cwrite (fst c) s) r). reflexivity.
Qed.

(* every state CompiledSimulation can reach is well formed *)
Theorem comp_run_wf nl : forall h (s : cmap), s <> [] -> hm_wf c_hash s ->
  hm_wf c_hash (snd (comp_mem_run nl s h)) /\ snd (comp_mem_run nl s h) <> [].
Proof.
  assert (Hw : forall ws (s : cmap), s <> [] -> hm_wf c_hash s ->
            hm_wf c_hash (fold_left (c_write nl) ws s) /\ fold_left (c_write nl) ws s <> []).
  { induction ws as [|w r IH]; intros s Hne Hwf; simpl; [auto|].
    apply IH; unfold c_write; destruct (enabled w); auto.
    - apply hm_insert_nonempty. assumption.
    - apply hm_wf_insert; assumption. }
  intros h s. unfold comp_mem_run. rewrite mach_run_state. revert s.
  induction h as [|c r IH]; intros s Hne Hwf; simpl; [auto|].
  destruct (Hw (fst c) s Hne Hwf) as [H1 H2]. apply IH; assumption.
Qed.

Theorem c_init_wf nl size init : (0 < size)%nat ->
  hm_wf c_hash (c_init nl size init) /\ c_init nl size init <> [].
Proof.
  intros Hs. unfold c_init.
  generalize (map (fun kv : Z * Z => (fst kv, snd kv, 1)) init) as ws.
  assert (H0 : hm_wf c_hash (@hm_create (list Z) size)) by apply hm_wf_create.
  assert (H1 : @hm_create (list Z) size <> []) by (apply hm_create_nonempty; assumption).
  revert H0 H1. generalize (@hm_create (list Z) size) as s.
  intros s H0 H1 ws. revert s H0 H1.
  induction ws as [|w r IH]; intros s H0 H1; simpl; [auto|].
  apply IH; unfold c_write; destruct (enabled w); auto.
  - apply hm_wf_insert; assumption.
  - apply hm_insert_nonempty. assumption.
Qed.

Theorem comp_states_wf nl size init h : (0 < size)%nat ->
  hm_wf c_hash (snd (comp_mem_run nl (c_init nl size init) h)).
Proof.
  intros Hs. destruct (c_init_wf nl size init Hs) as [H1 H2].
  exact (proj1 (comp_run_wf nl h _ H2 H1)).
Qed.

Theorem chain_insert_no_duplicate_node {V} (c : @chain V) k v :
  length (chain_insert c k v)
  = if existsb (Z.eqb k) (map fst c) then length c else Datatypes.S (length c).
Proof. exact (chain_insert_length (fun x => x) c k v). Qed.

(* ------------------------------------------------------------------ *)
(** * Translated fragments (Gen/MemFrag.v) fit together                 *)
(* MemBlock._build, Simulation._mem_update and the C emitter agree on where address, data
   and enable sit in the '@' net's args *)
Theorem port_args_roundtrip w : sim_port (build_args w) = w /\ c_port (build_args w) = w.
Proof. destruct w as [[a d] e]. split; reflexivity. Qed.

Theorem c_size_positive : (0 < c_size)%nat.
Proof. unfold c_size, c_size_src. lia. Qed.

(* ------------------------------------------------------------------ *)
(** * The emitted C step: in-place inserts are safe because lookups come first *)
Lemma c_exec_inserts nl : forall prog rds (h : cmap), forallb is_insert prog = true ->
  fold_left (c_exec nl) prog (rds, h) = (rds, fold_left (c_write nl) (c_prog_writes prog) h)
  /\ c_prog_reads prog = [].
Proof.
  induction prog as [|e r IH]; intros rds h H; simpl; [auto|].
  destruct e as [a|w]; simpl in H; [discriminate|]. destruct (IH rds (c_write nl h w) H) as [H1 H2].
  simpl. rewrite H1, H2. auto.
Qed.

Theorem c_prog_step_spec nl : forall prog (h : cmap), lookups_first prog = true ->
  c_prog_step nl h prog = comp_mem_step nl h (c_prog_writes prog, c_prog_reads prog).
Proof.
  unfold c_prog_step, comp_mem_step, mach_step. simpl.
  assert (G : forall prog rds (h : cmap), lookups_first prog = true ->
            fold_left (c_exec nl) prog (rds, h)
            = (rds ++ map (c_lookup nl h) (c_prog_reads prog), fold_left (c_write nl) (c_prog_writes prog) h)).
  { induction prog as [|e r IH]; intros rds h H; simpl.
    - rewrite app_nil_r. reflexivity.
    - destruct e as [a|w]; simpl in H.
      + simpl. rewrite IH by assumption. rewrite <- app_assoc. reflexivity.
      + destruct (c_exec_inserts nl r rds (c_write nl h w) H) as [H1 H2].
        simpl. rewrite H1, H2. simpl. rewrite app_nil_r. reflexivity. }
  intros prog h H. rewrite G by assumption. reflexivity.
Qed.

(* ... and the order matters: a lookup emitted after an insert would see the new word *)
Theorem c_prog_order_matters :
  exists prog, lookups_first prog = false
    /\ fst (c_prog_step 1 (c_init 1 c_size []) prog)
       <> fst (comp_mem_step 1 (c_init 1 c_size []) (c_prog_writes prog, c_prog_reads prog)).
Proof.
  exists [CInsert (3, 7, 1); CLookup 3]. split; [reflexivity|]. vm_compute. discriminate.
Qed.

(* a ROM word needs no masking on its way to the read port *)
Theorem rom_mask_identity aw bw pad data a v : 0 <= bw ->
  rom_read aw bw pad data a = RomOk v -> sanitize v bw = v.
Proof.
  intros Hbw H. destruct (rom_read_ok aw bw pad data a v Hbw H) as [_ [Hv _]].
  apply sanitize_id; [assumption|exact Hv].
Qed.

(* ------------------------------------------------------------------ *)
(** * (vii) the write port built by conditional_assignment               *)
Lemma cond_fold_false (l : list (bool * wport)) : Forall (fun pw => fst pw = false) l ->
  forall acc, fold_left (fun (acc : wport) (pw : bool * wport) => if fst pw then snd pw else acc) l acc = acc.
Proof.
  induction l as [|[p w] r IH]; intros H acc; [reflexivity|].
  inversion H as [|? ? Hp Hr]; subst. simpl in *. rewrite Hp. apply IH. assumption.
Qed.

(* the predicates of one conditional block are mutually exclusive: when branch (true, w) is the
   one taken, the port IS that branch's write -- with ITS enable *)
Theorem cond_port_taken pre w post :
  Forall (fun pw => fst pw = false) pre -> Forall (fun pw => fst pw = false) post ->
  cond_port (pre ++ (true, w) :: post) = w.
Proof.
  intros Hpre Hpost. destruct w as [[a d] e]. destruct pre as [|[p0 w0] pre']; simpl.
  - apply cond_fold_false. assumption.
  - assert (Hp : p0 = false) by (inversion Hpre; assumption).
    assert (Hr : Forall (fun pw : bool * wport => fst pw = false) pre') by (inversion Hpre; assumption).
    subst p0. rewrite fold_left_app. rewrite (cond_fold_false pre' Hr). simpl.
    apply cond_fold_false. assumption.
Qed.

(* when no branch is taken nothing is written *)
Theorem cond_port_none brs : Forall (fun pw => fst pw = false) brs ->
  enabled (cond_port brs) = false.
Proof.
  intros H. destruct brs as [|[p0 w0] rest]; [reflexivity|].
  assert (Hp : p0 = false) by (inversion H; assumption).
  assert (Hr : Forall (fun pw : bool * wport => fst pw = false) rest) by (inversion H; assumption).
  subst p0. simpl. rewrite (cond_fold_false rest Hr). reflexivity.
Qed.

(* in particular a taken branch whose own enable is 0 is a no-op *)
Corollary cond_port_disabled_branch pre w post A :
  Forall (fun pw => fst pw = false) pre -> Forall (fun pw => fst pw = false) post ->
  w_en w = 0 -> forall a, arr_write A (cond_port (pre ++ (true, w) :: post)) a = A a.
Proof.
  intros H1 H2 He a. rewrite cond_port_taken by assumption.
  unfold arr_write, enabled. rewrite He. reflexivity.
Qed.
