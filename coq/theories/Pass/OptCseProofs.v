(* C04 -- one round of common_subexp_elimination (model: Opt.cse_round) and the
   CSE loop preserve every surviving wire / every Output on every cycle.
   Instance of Pass/OptSimProofs.sim_run; a discarded net is justified by
   cse_merge_sound against the earlier net with the same key. *)
From PyRTL Require Import Netlist.Sem Netlist.WFDefs Gen.ConstFold Pass.Opt Pass.OptCheck
  Pass.OptFoldProofs Pass.OptProofs Pass.OptDeadProofs Pass.OptAliasProofs Pass.OptSimProofs
  Pass.OptCpProofs Pass.OptLoopProofs Pass.OptCpLoopProofs.
From PyRTL Require Import Sim.SimModel Sim.SimCorrect.
From Coq Require Import ZifyBool.

Local Open Scope Z_scope.

Lemma net_eqb_eq a b : net_eqb a b = true -> a = b.
Proof.
  unfold net_eqb. intros H. apply andb_true_iff in H. destruct H as [H H3].
  apply andb_true_iff in H. destruct H as [H1 H2].
  apply op_eqb_eq in H1. apply list_Z_eqb_eq in H2. apply Z.eqb_eq in H3.
  destruct a, b; simpl in *; subst; reflexivity.
Qed.

Lemma nets_eqb_eq a : forall b, nets_eqb a b = true -> a = b.
Proof.
  induction a as [|x a IH]; intros [|y b] H; simpl in H; try discriminate; [reflexivity|].
  apply andb_true_iff in H. destruct H as [H1 H2]. f_equal; [apply net_eqb_eq|apply IH]; assumption.
Qed.

Lemma cse_nets_ok_split nl : forall ns pre, cse_nets_ok nl pre ns = true ->
  forall l1 n l2, ns = l1 ++ n :: l2 -> cse_net_ok nl (pre ++ l1) n = true.
Proof.
  unfold cse_nets_ok, cse_net_ok.
  induction ns as [|m r IH]; intros pre H l1 n l2 E.
  - destruct l1; discriminate E.
  - cbn [cse_nets_ok_g] in H. apply andb_true_iff in H. destruct H as [H1 H2].
    destruct l1 as [|m' l1]; cbn [app] in E; injection E as -> E.
    + rewrite app_nil_r. assumption.
    + specialize (IH (pre ++ [m']) H2 l1 n l2 E). rewrite <- app_assoc in IH. exact IH.
Qed.

Section Cse.
Variable nl : netlist.
Variable dflt : Z.
Hypothesis Hwf : wfb nl = true.
Hypothesis Hok : cse_pass_ok nl = true.

Local Notation nl' := (cse_round nl).
Local Notation rho := (cse_rho nl).
Local Notation nofold := (fun _ : wid => false).
Local Notation nocst := (fun _ : wid => 0).

Let Hparts := wfb_parts nl Hwf.
Let Hwidths : forallb (fun x => 0 <=? wwidth x) (wires nl) = true := proj1 Hparts.

Lemma ok_parts : nets nl' = flat_map (cse_tr nl) (nets nl)
  /\ cse_nets_ok nl [] (nets nl) = true /\ forallb (cse_base_ok nl) (rdy0 nl) = true.
Proof.
  unfold cse_pass_ok in Hok. cbv zeta in Hok. apply andb_true_iff in Hok. destruct Hok as [H H3].
  apply andb_true_iff in H. destruct H as [H1 H2]. apply nets_eqb_eq in H1. auto.
Qed.

Lemma Hmems : mems nl' = mems nl.
Proof. unfold cse_round. destruct (cse_scan nl [] (nets nl)). reflexivity. Qed.

Lemma inv_respects_cse pre rdy st st' ins v v' :
  Inv nl nl' rho [] dflt pre rdy st st' ins v v' -> respects_consts nl v.
Proof.
  intros HI w c Hk.
  assert (Hc : is_const nl w = true) by (unfold is_const; rewrite Hk; reflexivity).
  rewrite (base_const nl dflt st ins v w (inv_base _ _ _ _ _ _ _ _ _ _ _ _ HI) Hc).
  unfold const_val. rewrite Hk. reflexivity.
Qed.

Lemma net_value_some st v n0 : is_comb (nop n0) = true ->
  arity_ok (nop n0) (length (nargs n0)) = true -> exists r, net_value nl st v n0 = Some r.
Proof.
  intros Hc Har. unfold net_value.
  destruct (nop n0) eqn:Eop; try discriminate Hc;
    try (apply op_spec_some; [reflexivity|unfold argvals; rewrite map_length; exact Har|intros m0; discriminate]).
  eexists. reflexivity.
Qed.

Lemma cse_Hstep : forall pre n post, nets nl = pre ++ n :: post -> is_comb (nop n) = true ->
  forall rdy st st' ins v v', st_rel nofold nocst st st' ->
  Inv nl nl' rho [] dflt pre rdy st st' ins v v' ->
  (forall a, In a (nargs n) -> In a rdy) -> ~ In (ndest n) rdy ->
  arity_ok (nop n) (length (nargs n)) = true ->
  exists x, exec_spec nl st v n = upd v (ndest n) x /\ inrange x (width_of nl (ndest n)) /\
    ((cse_tr nl n = [] /\ (live nl' rho (ndest n) = true -> x = v' (rho (ndest n)))
                /\ In (rho (ndest n)) ([] ++ rdy))
     \/ (exists n'', cse_tr nl n = [n''] /\ is_comb (nop n'') = true
                     /\ exec_spec nl' st' v' n'' = upd v' (ndest n) x
                     /\ rho (ndest n) = ndest n /\ ~ In (ndest n) [])).
Proof.
  intros pre n post Hsplit Hc rdy st st' ins v v' Hst HI Hargs Hd Har.
  destruct ok_parts as [_ [Hpos _]].
  pose proof (cse_nets_ok_split nl (nets nl) [] Hpos pre n post Hsplit) as Hn.
  cbn [app] in Hn. unfold cse_net_ok, cse_net_ok_g in Hn. cbv zeta in Hn.
  fold (cse_rho nl) (cse_gone nl n) in Hn.
  pose proof (width_nonneg nl Hwidths (ndest n)) as Hwd0.
  set (x := exec_spec nl st v n (ndest n)).
  exists x. split; [apply exec_upd_form; assumption|].
  split; [apply exec_inrange; assumption|].
  assert (Hmemeq : forall m a, smems st m a = smems st' m a) by (apply Hst).
  unfold cse_tr, cse_tr_g. fold (cse_rho nl) (cse_gone nl n). destruct (cse_gone nl n) eqn:Eg.
  - (* discarded: an earlier net with the same key computes the same value *)
    left. split; [reflexivity|].
    apply andb_true_iff in Hn. destruct Hn as [Hn Hidem].
    apply andb_true_iff in Hn. destruct Hn as [_ Hex].
    apply existsb_exists in Hex. destruct Hex as [n0 [Hn0 Hchk]].
    apply andb_true_iff in Hchk. destruct Hchk as [Hchk Hw0].
    apply andb_true_iff in Hchk. destruct Hchk as [Hchk Hc0].
    apply andb_true_iff in Hchk. destruct Hchk as [Hd0 Hkey].
    apply Z.eqb_eq in Hd0, Hw0, Hidem.
    destruct (inv_solved _ _ _ _ _ _ _ _ _ _ _ _ HI n0 Hn0 Hc0) as [S1 [S2 [S3 S4]]].
    destruct (net_value_some st v n0 Hc0 S3) as [r Hr].
    pose proof (cse_merge_sound nl n0 n st v (inv_respects_cse _ _ _ _ _ _ _ HI) Hkey Hc0 Hw0 r Hr)
      as Hmerge.
    split.
    + intros Hl. unfold x. rewrite <- Hmerge, <- S4, <- Hd0.
      assert (Hrr : rho (ndest n0) = ndest n0) by (rewrite Hd0; exact Hidem).
      destruct (inv_sim _ _ _ _ _ _ _ _ _ _ _ _ HI (ndest n0) S1) as [Hv _].
      unfold live in Hv, Hl. rewrite Hrr in Hv. apply Hv. rewrite Hd0. exact Hl.
    + cbn [app]. rewrite <- Hd0. assumption.
  - (* kept, arguments redirected *)
    right. exists (map_args rho n).
    apply andb_true_iff in Hn. destruct Hn as [Hall Hdest].
    assert (Hhd : op_has_dest (nop n) = true) by (destruct (nop n); try discriminate Hc; reflexivity).
    rewrite Hhd in Hdest. apply andb_true_iff in Hdest. destruct Hdest as [Hrd Hw].
    apply Z.eqb_eq in Hrd, Hw.
    split; [reflexivity|]. split; [exact Hc|]. split; [|split; [assumption|intros []]].
    apply kept_net_value; try assumption; try apply Hmems.
    intros a Ha. rewrite forallb_forall in Hall. specialize (Hall a Ha).
    apply andb_true_iff in Hall. destruct Hall as [Hdcl Hwa]. apply Z.eqb_eq in Hwa.
    split; [|assumption].
    destruct (inv_sim _ _ _ _ _ _ _ _ _ _ _ _ HI a (Hargs a Ha)) as [Hv _]. apply Hv. exact Hdcl.
Qed.

Lemma net_in_ok n : In n (nets nl) -> exists pre, cse_net_ok nl pre n = true.
Proof.
  intros Hin. destruct ok_parts as [_ [Hpos _]].
  destruct (in_split n (nets nl) Hin) as [l1 [l2 E]].
  exists l1. exact (cse_nets_ok_split nl (nets nl) [] Hpos l1 n l2 E).
Qed.

Lemma not_normal_not_gone n : normal_dest nl n = false -> cse_gone nl n = false.
Proof. intros H. unfold cse_gone, cse_gone_g. rewrite H. reflexivity. Qed.

Lemma cse_Hreg : forall n, In n (nets nl) -> nop n = OpReg ->
  (cse_tr nl n = [] /\ nofold (ndest n) = true
   /\ forall st ins v, (forall w, In w (rdy0 nl) -> v w = base_val nl dflt st ins w) ->
        v (arg n 0) mod 2 ^ width_of nl (ndest n) = nocst (ndest n))
  \/ (exists n'', cse_tr nl n = [n''] /\ nop n'' = OpReg /\ ndest n'' = ndest n
        /\ nofold (ndest n) = false /\ arg n'' 0 = rho (arg n 0)
        /\ width_of nl' (ndest n) = width_of nl (ndest n) /\ live nl' rho (arg n 0) = true).
Proof.
  intros n Hin Eop. right. destruct (net_in_ok n Hin) as [pre Hn]. unfold cse_net_ok, cse_net_ok_g in Hn.
  cbv zeta in Hn. fold (cse_rho nl) (cse_gone nl n) in Hn.
  destruct (cse_gone nl n) eqn:Eg.
  - apply andb_true_iff in Hn. destruct Hn as [Hn _]. apply andb_true_iff in Hn.
    destruct Hn as [Hc _]. rewrite Eop in Hc. discriminate Hc.
  - exists (map_args rho n). unfold cse_tr, cse_tr_g. fold (cse_rho nl) (cse_gone nl n). rewrite Eg.
    apply andb_true_iff in Hn. destruct Hn as [Hall Hdest]. rewrite Eop in Hdest. cbn [op_has_dest] in Hdest.
    apply andb_true_iff in Hdest. destruct Hdest as [_ Hw]. apply Z.eqb_eq in Hw.
    pose proof Hparts as Hp. destruct Hp as [_ [_ [_ [Hseq _]]]].
    rewrite forallb_forall in Hseq. specialize (Hseq n Hin). rewrite Eop in Hseq. cbn [is_comb] in Hseq.
    apply andb_true_iff in Hseq. destruct Hseq as [_ Har]. simpl in Har. apply Nat.eqb_eq in Har.
    destruct (nargs n) as [|a0 [|a1 r]] eqn:Ea; try discriminate Har.
    cbn [forallb] in Hall. apply andb_true_iff in Hall. destruct Hall as [Ha0 _].
    apply andb_true_iff in Ha0. destruct Ha0 as [Hdcl _].
    split; [reflexivity|]. split; [exact Eop|]. split; [reflexivity|]. split; [reflexivity|].
    split; [unfold arg, map_args; cbn [nargs]; rewrite Ea; reflexivity|].
    split; [assumption|]. unfold live, declared', arg. rewrite Ea. exact Hdcl.
Qed.

Lemma cse_Hwr : forall n m, In n (nets nl) -> nop n = OpMemWr m ->
  exists n'', cse_tr nl n = [n''] /\ nop n'' = OpMemWr m
    /\ forall i, (i < 3)%nat -> arg n'' i = rho (arg n i) /\ live nl' rho (arg n i) = true.
Proof.
  intros n m Hin Eop. destruct (net_in_ok n Hin) as [pre Hn]. unfold cse_net_ok, cse_net_ok_g in Hn.
  cbv zeta in Hn. fold (cse_rho nl) (cse_gone nl n) in Hn.
  assert (Eg : cse_gone nl n = false).
  { apply not_normal_not_gone. unfold normal_dest. rewrite Eop. reflexivity. }
  rewrite Eg in Hn. exists (map_args rho n). unfold cse_tr, cse_tr_g. fold (cse_rho nl) (cse_gone nl n). rewrite Eg.
  split; [reflexivity|]. split; [exact Eop|].
  apply andb_true_iff in Hn. destruct Hn as [Hall _].
  pose proof Hparts as Hp. destruct Hp as [_ [_ [_ [Hseq _]]]].
  rewrite forallb_forall in Hseq. specialize (Hseq n Hin). rewrite Eop in Hseq. cbn [is_comb] in Hseq.
  apply andb_true_iff in Hseq. destruct Hseq as [_ Har]. simpl in Har. apply Nat.eqb_eq in Har.
  destruct (nargs n) as [|a0 [|a1 [|a2 [|a3 r]]]] eqn:Ea; try discriminate Har.
  cbn [forallb] in Hall.
  repeat match goal with H : _ && _ = true |- _ => apply andb_true_iff in H; destruct H end.
  intros i Hi. unfold arg, map_args, live, declared'. cbn [nargs]. rewrite Ea.
  destruct i as [|[|[|i]]]; cbn [map nth]; try lia; split; try reflexivity; assumption.
Qed.

Lemma cse_Hbase : forall st st' ins, st_rel nofold nocst st st' ->
  forall w, In w (rdy0 nl) ->
  (live nl' rho w = true -> base_val nl dflt st ins w = base_val nl' dflt st' ins (rho w))
  /\ In (rho w) ([] ++ rdy0 nl).
Proof.
  intros st st' ins [S1 [S2 S3]] w Hw. destruct ok_parts as [_ [_ Hb]].
  rewrite forallb_forall in Hb. specialize (Hb w Hw). unfold cse_base_ok, cse_base_ok_g in Hb.
  fold (cse_rho nl) in Hb.
  apply andb_true_iff in Hb. destruct Hb as [Hr Hsame]. apply Z.eqb_eq in Hr.
  rewrite Hr. split; [|assumption].
  intros Hl. unfold live, declared' in Hl. rewrite Hr in Hl.
  unfold declared in Hsame. rewrite Hl in Hsame. apply owire_eqb_eq in Hsame.
  unfold base_val. rewrite Hsame.
  destruct (find_wire (wires nl) w) as [x0|]; [|reflexivity].
  destruct (wkind x0); try reflexivity. apply S1. reflexivity.
Qed.

Lemma cse_Hcomb_tr : forall n, In n (nets nl) -> is_comb (nop n) = true ->
  forall n'', In n'' (cse_tr nl n) -> is_comb (nop n'') = true.
Proof.
  intros n Hin Hc n''. unfold cse_tr, cse_tr_g. destruct (cse_gone_g nl (cse_wm nl) n); intros Hi; simpl in Hi;
    try contradiction. destruct Hi as [<-|[]]. exact Hc.
Qed.

Theorem cse_round_sim : forall inss st st', st_rel nofold nocst st st' ->
  Forall (legal_ins nl) inss -> legal_regs nl (sregs st) ->
  Forall2 (OptSimProofs.sim_val nl nl' rho) (fst (run nl dflt st inss)) (fst (run nl' dflt st' inss)).
Proof.
  exact (OptSimProofs.sim_run nl nl' (cse_tr nl) rho [] nofold nocst dflt Hwf (proj1 ok_parts)
           cse_Hstep cse_Hreg cse_Hwr cse_Hbase cse_Hcomb_tr).
Qed.

End Cse.

Lemma cse_round_preserves dflt nl : cse_round_ok nl = true -> forall inss st, True ->
  Forall (legal_ins nl) inss -> legal_regs nl (sregs st) ->
  Forall2 (out_eq nl) (fst (run nl dflt st inss)) (fst (run (cse_round nl) dflt st inss))
  /\ outs_sub nl (cse_round nl)
  /\ Forall (legal_ins (cse_round nl)) inss
  /\ legal_regs (cse_round nl) (sregs st).
Proof.
  intros Hok inss st _ Hins Hregs. unfold cse_round_ok in Hok.
  apply andb_true_iff in Hok. destruct Hok as [Hok Hlink].
  apply andb_true_iff in Hok. destruct Hok as [Hwf Hok].
  assert (Hrel : st_rel (fun _ => false) (fun _ => 0) st st).
  { split; [reflexivity|]. split; [discriminate|reflexivity]. }
  pose proof (cse_round_sim nl dflt Hwf Hok inss st st Hrel Hins Hregs) as Hsim.
  split; [|split; [|split]].
  - eapply Forall2_weaken'; [|exact Hsim]. intros v v'. apply sim_to_out_eq; assumption.
  - exact (link_outs_sub _ _ _ Hlink).
  - eapply Forall_impl; [|exact Hins]. intros ins. apply (link_legal_ins _ _ _ Hlink).
  - exact (link_legal_regs _ _ _ Hlink _ Hregs).
Qed.

Lemma loop_steady_True pass : forall fuel prev nl st, loop_steady pass (fun _ _ => True) fuel prev nl st.
Proof.
  induction fuel as [|f IH]; intros prev nl st; cbn [loop_steady]; [exact I|].
  destruct (Z.of_nat (length (nets nl)) <=? prev - 1); [split; [exact I|apply IH]|exact I].
Qed.

Theorem cse_preserves nl dflt : cse_ok nl = true ->
  forall inss st, Forall (legal_ins nl) inss -> legal_regs nl (sregs st) ->
  Forall2 (out_eq nl) (fst (run nl dflt st inss))
          (fst (run (common_subexp_elimination nl) dflt st inss))
  /\ outs_sub nl (common_subexp_elimination nl)
  /\ Forall (legal_ins (common_subexp_elimination nl)) inss
  /\ legal_regs (common_subexp_elimination nl) (sregs st).
Proof.
  intros Hok inss st Hins Hregs.
  exact (loop_preserves cse_round cse_round_ok (fun _ _ => True) dflt (cse_round_preserves dflt)
           _ _ nl inss st Hok (loop_steady_True _ _ _ _ _) Hins Hregs).
Qed.
