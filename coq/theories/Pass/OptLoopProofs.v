(* C04 -- composing pass rounds: Output traces are preserved by a sequence of
   rounds when each round preserves them (and keeps the Outputs, and invents no
   Input / Register), in particular by the `while net_count.shrinking()` loops. *)
From PyRTL Require Import Netlist.Sem Netlist.WFDefs Pass.Opt Pass.OptCheck Pass.OptDeadProofs
  Pass.OptAliasProofs.
From PyRTL Require Import Sim.SimModel Sim.SimCorrect.
From Coq Require Import ZifyBool.

Local Open Scope Z_scope.

(* the observable relation: every Output of nl has the same value *)
Definition out_eq (nl : netlist) (v v' : wid -> Z) : Prop :=
  forall o, is_output nl o = true -> v o = v' o.

Definition outs_sub (nl nl' : netlist) : Prop :=
  forall o, is_output nl o = true -> is_output nl' o = true.

Lemma Forall2_refl {A} (R : A -> A -> Prop) : (forall a, R a a) -> forall l, Forall2 R l l.
Proof. intros H l. induction l; constructor; auto. Qed.

Lemma Forall2_compose {A} (R1 R2 R3 : A -> A -> Prop) :
  (forall a b c, R1 a b -> R2 b c -> R3 a c) ->
  forall l1 l2 l3, Forall2 R1 l1 l2 -> Forall2 R2 l2 l3 -> Forall2 R3 l1 l3.
Proof.
  intros H l1 l2 l3 H12. revert l3. induction H12; intros l3 H23; inversion H23; subst; constructor; eauto.
Qed.

Lemma out_eq_trans nl nl1 l1 l2 l3 : outs_sub nl nl1 ->
  Forall2 (out_eq nl) l1 l2 -> Forall2 (out_eq nl1) l2 l3 -> Forall2 (out_eq nl) l1 l3.
Proof.
  intros Hs. apply Forall2_compose. intros a b c H1 H2 o Ho.
  rewrite (H1 o Ho). apply H2. apply Hs. assumption.
Qed.

(* what link_ok gives *)
Lemma find_wire_name ws w x : find_wire ws w = Some x -> wname x = w.
Proof. intros H. apply find_wire_In in H. apply H. Qed.

Section Link.
Variable nl nl' : netlist.
Variable rho : wid -> wid.
Hypothesis Hlink : link_ok nl nl' rho = true.

Lemma link_parts :
  (forall x, In x (wires nl) -> is_out_kind (wkind x) = true ->
     rho (wname x) = wname x
     /\ find_wire (wires nl') (wname x) = find_wire (wires nl) (wname x))
  /\ (forall x, In x (wires nl) -> wkind x = KInput ->
        find_wire (wires nl') (wname x) = find_wire (wires nl) (wname x))
  /\ (forall x', In x' (wires nl') -> is_src_kind (wkind x') = true ->
        find_wire (wires nl) (wname x') = find_wire (wires nl') (wname x')).
Proof.
  unfold link_ok in Hlink. apply andb_true_iff in Hlink. destruct Hlink as [H H3].
  apply andb_true_iff in H. destruct H as [H1 H2].
  rewrite forallb_forall in H1, H2, H3. split; [|split].
  - intros x Hx Hk. specialize (H1 x Hx). rewrite Hk in H1.
    apply andb_true_iff in H1. destruct H1 as [Hr Hw]. split; [lia|apply owire_eqb_eq; assumption].
  - intros x Hx Hk. specialize (H2 x Hx). rewrite Hk in H2. apply owire_eqb_eq. assumption.
  - intros x' Hx' Hk. specialize (H3 x' Hx'). rewrite Hk in H3. apply owire_eqb_eq. assumption.
Qed.

Lemma link_output o : is_output nl o = true ->
  rho o = o /\ find_wire (wires nl') o = find_wire (wires nl) o /\ is_output nl' o = true.
Proof.
  intros Ho. unfold is_output, kind_of in Ho.
  destruct (find_wire (wires nl) o) as [x|] eqn:E; [|discriminate].
  destruct (find_wire_In _ _ _ E) as [Hx Hn]. subst o.
  destruct link_parts as [L1 _].
  assert (Hk : is_out_kind (wkind x) = true) by (destruct (wkind x); try discriminate Ho; reflexivity).
  destruct (L1 x Hx Hk) as [Hr Hf]. split; [assumption|]. split; [rewrite Hf; exact E|].
  unfold is_output, kind_of. rewrite Hf, E. destruct (wkind x); try discriminate Hk. reflexivity.
Qed.

Lemma link_outs_sub : outs_sub nl nl'.
Proof. intros o Ho. apply (link_output o Ho). Qed.

Lemma link_legal_ins ins : legal_ins nl ins -> legal_ins nl' ins.
Proof.
  intros H w Hw. unfold is_input, kind_of in Hw.
  destruct (find_wire (wires nl') w) as [x'|] eqn:E; [|discriminate].
  destruct (find_wire_In _ _ _ E) as [Hx Hn]. subst w.
  destruct link_parts as [_ [_ L3]].
  assert (Hk : is_src_kind (wkind x') = true) by (destruct (wkind x'); try discriminate Hw; reflexivity).
  specialize (L3 x' Hx Hk). specialize (H (wname x')).
  unfold is_input, kind_of, width_of in *. rewrite L3, E in H. rewrite E. apply H. assumption.
Qed.

Lemma link_legal_regs rg : legal_regs nl rg -> legal_regs nl' rg.
Proof.
  intros H w Hw. unfold is_reg, kind_of in Hw.
  destruct (find_wire (wires nl') w) as [x'|] eqn:E; [|discriminate].
  destruct (find_wire_In _ _ _ E) as [Hx Hn]. subst w.
  destruct link_parts as [_ [_ L3]].
  assert (Hk : is_src_kind (wkind x') = true) by (destruct (wkind x'); try discriminate Hw; reflexivity).
  specialize (L3 x' Hx Hk). specialize (H (wname x')).
  unfold is_reg, kind_of, width_of in *. rewrite L3, E in H. rewrite E. apply H. assumption.
Qed.

End Link.

(* one round of a pass, abstractly *)
Section Loop.
Variable pass : netlist -> netlist.
Variable ok : netlist -> bool.
Variable steady : netlist -> state -> Prop.
Variable dflt : Z.

Hypothesis Hround : forall nl, ok nl = true -> forall inss st, steady nl st ->
  Forall (legal_ins nl) inss -> legal_regs nl (sregs st) ->
  Forall2 (out_eq nl) (fst (run nl dflt st inss)) (fst (run (pass nl) dflt st inss))
  /\ outs_sub nl (pass nl)
  /\ Forall (legal_ins (pass nl)) inss /\ legal_regs (pass nl) (sregs st).

(* the steady-state hypothesis of every round the loop runs *)
Fixpoint loop_steady (fuel : nat) (prev : Z) (nl : netlist) (st : state) : Prop :=
  match fuel with
  | O => True
  | S f =>
      let cur := Z.of_nat (length (nets nl)) in
      if cur <=? prev - 1 then steady nl st /\ loop_steady f cur (pass nl) st else True
  end.

Theorem loop_preserves : forall fuel prev nl inss st,
  loop_ok ok fuel pass prev nl = true -> loop_steady fuel prev nl st ->
  Forall (legal_ins nl) inss -> legal_regs nl (sregs st) ->
  let nl' := shrink_loop fuel pass prev nl in
  Forall2 (out_eq nl) (fst (run nl dflt st inss)) (fst (run nl' dflt st inss))
  /\ outs_sub nl nl'
  /\ Forall (legal_ins nl') inss /\ legal_regs nl' (sregs st).
Proof.
  induction fuel as [|f IH]; intros prev nl inss st Hok Hst Hins Hregs; cbn [shrink_loop].
  - split; [apply Forall2_refl; intros a o _; reflexivity|]. split; [intros o Ho; exact Ho|auto].
  - cbn [loop_ok loop_steady] in Hok, Hst.
    destruct (Z.of_nat (length (nets nl)) <=? prev - 1) eqn:E.
    + apply andb_true_iff in Hok. destruct Hok as [Hok1 Hok2]. destruct Hst as [Hst1 Hst2].
      destruct (Hround nl Hok1 inss st Hst1 Hins Hregs) as [R1 [S1 [I1 G1]]].
      destruct (IH _ (pass nl) inss st Hok2 Hst2 I1 G1) as [R2 [S2 [I2 G2]]].
      split; [eapply out_eq_trans; eassumption|]. split; [|auto].
      intros o Ho. apply S2. apply S1. assumption.
    + split; [apply Forall2_refl; intros a o _; reflexivity|]. split; [intros o Ho; exact Ho|auto].
Qed.

End Loop.
