(* C11 -- model of pyrtl/transform.py copy_block (and of the "work on a copy"
   prologue of passes.synthesize / passes.optimize(update_working_block=False)).
   Definitions only (no proofs): the harness evaluates `copy_tie_case`.

   copy_block(block_in):
     _clone_block_and_wires : one clone_wire per wire of block_in, recorded in the
                              dict temp_wv_map (old wire object -> new wire object)
     _copy_net              : args/dests looked up in temp_wv_map; 'm'/'@' nets get
                              the memory re-instantiated by _make_copy, id preserved
   Wire *identity* (the Python object) is the `wid`; a clone is a fresh object, so
   the model allocates fresh ids beyond every id of the source.  The dict
   temp_wv_map is the function `fresh_map nl`. *)
From PyRTL Require Export Netlist.Sem Pass.CopyAttrDefs.
From PyRTL Require Export Gen.CopyAttrs.

(* ---------------------------------------------------------------- renaming *)

Definition rename_wire (f : wid -> wid) (x : wire) : wire :=
  mkWire (f (wname x)) (wwidth x) (wkind x).

Definition rename_net (f : wid -> wid) (n : net) : net :=
  mkNet (nop n) (map f (nargs n)) (f (ndest n)).

(* the same design over other wire identities: every attribute kept (class,
   bitwidth, Const value, reset_value; op, op_param, argument order; memories
   with id, widths and ROM contents) *)
Definition rename (f : wid -> wid) (nl : netlist) : netlist :=
  mkNetlist (map (rename_wire f) (wires nl)) (map (rename_net f) (nets nl)) (mems nl).

(* "the same values on corresponding wires" *)
Definition val_rel (f : wid -> wid) (v v' : wid -> Z) : Prop := forall w, v' (f w) = v w.

Definition state_rel (f : wid -> wid) (st st' : state) : Prop :=
  val_rel f (sregs st) (sregs st') /\ (forall m a, smems st' m a = smems st m a).

(* register_value_map keyed by the corresponding registers *)
Definition rename_map (f : wid -> wid) (l : list (Z * Z)) : list (Z * Z) :=
  map (fun p => (f (fst p), snd p)) l.

(* the part of well-formedness the renaming theorem needs: the nets whose
   arguments the cycle semantics addresses by position have them
   (sanity_check_net: 'r' and 'm' take 1 argument, '@' takes 3) *)
Definition seq_arity_ok (n : net) : bool :=
  match nop n with
  | OpReg | OpMemRd _ => (1 <=? length (nargs n))%nat
  | OpMemWr _ => (3 <=? length (nargs n))%nat
  | _ => true
  end.

Definition seq_arity (nl : netlist) : bool := forallb seq_arity_ok (nets nl).

(* ---------------------------------------------------------------- copy_block *)

(* transform.clone_wire, per class: which attributes the clone receives.
     Const    -> Const(old.val, old.bitwidth, name)
     Register -> old.__class__(old.bitwidth, name=name, reset_value=old.reset_value)
     others   -> old.__class__(old.bitwidth, name=name)
   Before the repair of defect F2 the Register clone was built without
   reset_value, so the clone's reset_value was None: *)
Definition clone_kind_f2 (k : kind) : kind :=
  match k with
  | KReg _ => KReg None
  | k => k
  end.

(* what the property requires of clone_wire: every attribute is kept *)
Definition clone_kind_spec (k : kind) : kind := k.

(* WHAT /repo DOES NOW is no longer written by hand: Gen/CopyAttrs.v is
   regenerated on every run by py/genfrag_C11.py from the source of
   transform.clone_wire (per class: which constructor, which attributes are
   passed, which fall back to the constructor's defaults).  `clone_kind` is read
   off that generated function; Pass/CopyGen.v proves it keeps every attribute
   (the proof breaks when the source stops passing one). *)
Definition clone_kind (k : kind) : kind := wkind (gen_clone_wire 0 (mkWire 0 0 k)).

Definition map_kinds (ck : kind -> kind) (nl : netlist) : netlist :=
  mkNetlist (map (fun x => mkWire (wname x) (wwidth x) (ck (wkind x))) (wires nl))
            (nets nl) (mems nl).

(* fresh identities: beyond every id the source uses *)
Definition max_id (nl : netlist) : Z := fold_right (fun x m => Z.max (wname x) m) 0 (wires nl).
Definition min_id (nl : netlist) : Z := fold_right (fun x m => Z.min (wname x) m) 0 (wires nl).
Definition fresh_offset (nl : netlist) : Z := 1 + max_id nl - min_id nl.
Definition fresh_map (nl : netlist) : wid -> wid := fun w => w + fresh_offset nl.

Definition clone_wire (ck : kind -> kind) (f : wid -> wid) (x : wire) : wire :=
  mkWire (f (wname x)) (wwidth x) (ck (wkind x)).

(* MemBlock._make_copy / RomBlock._make_copy followed by `new_mem.id = old_mem.id`:
   the generated attribute-level function (Gen/CopyAttrs.v), restricted to the
   part of a memory the netlist carries *)
Definition gen_make_copy_mem (m : mem) : mem :=
  core_mem (gen_get_new_block_mem_instance (-1) (mattrs_of_core m)).

(* the same, as the property requires it (id, widths, ROM contents kept); the
   generic copy lemmas are stated over this one, Pass/CopyGen.v proves the
   generated function equal to it *)
Definition make_copy_mem (m : mem) : mem := mkMem (mid m) (maddrw m) (mdataw m) (mrom m).

(* transform._copy_net *)
Definition copy_net (f : wid -> wid) (n : net) : net :=
  mkNet (nop n) (map f (nargs n)) (f (ndest n)).

Definition copy_with (ck : kind -> kind) (nl : netlist) : netlist * (wid -> wid) :=
  let f := fresh_map nl in
  (mkNetlist (map (clone_wire ck f) (wires nl)) (map (copy_net f) (nets nl))
             (map make_copy_mem (mems nl)), f).

(* the code as it is / the code as the property requires it *)
Definition copy_block (nl : netlist) : netlist * (wid -> wid) := copy_with clone_kind nl.
Definition copy_block_spec (nl : netlist) : netlist * (wid -> wid) := copy_with clone_kind_spec nl.

(* copy_block assembled ONLY from generated fragments: _clone_block_and_wires
   (gen_clone_wires over ALL declared wires), _copy_net (gen_copy_net),
   _get_new_block_mem_instance o _make_copy (gen_make_copy_mem).  This is what the
   structural tie compares with the real copy_block result. *)
Definition copy_block_gen (nl : netlist) : netlist * (wid -> wid) :=
  let f := fresh_map nl in
  (mkNetlist (gen_clone_wires f (wires nl)) (map (gen_copy_net f) (nets nl))
             (map gen_make_copy_mem (mems nl)), f).

(* inputs for the copy: the same values on the corresponding Input wires *)
Definition shift_ins (off : Z) (ins : wid -> Z) : wid -> Z := fun w => ins (w - off).

(* a non-updating pass = the pass run on a private copy; the source value is
   not an argument of anything that could change it *)
Definition nonupdating (pass : netlist -> netlist) (nl : netlist) : netlist :=
  pass (fst (copy_block_spec nl)).

(* ---------------------------------------------------------------- fingerprint *)

Definition fp_wire (x : wire) : wid * Z * kind := (wname x, wwidth x, wkind x).
Definition fp_net (n : net) : op * list wid * wid := (nop n, nargs n, ndest n).
Definition fp_mem (m : mem) : Z * Z * Z * option (list (Z * Z)) :=
  (mid m, maddrw m, mdataw m, mrom m).

Definition fingerprint (nl : netlist) :=
  (map fp_wire (wires nl), map fp_net (nets nl), map fp_mem (mems nl)).

(* ---------------------------------------------------------------- edits *)

Inductive edit :=
| EAddWire (x : wire)
| EAddNet (n : net)
| ERemoveNet (i : nat)
| ERenameWire (a b : wid)          (* every occurrence of identity a becomes b *)
| ERemoveWire (a : wid)
| ESetKind (a : wid) (k : kind).   (* e.g. assigning reset_value / Const val *)

Fixpoint remove_nth {A} (i : nat) (l : list A) : list A :=
  match l, i with
  | [], _ => []
  | _ :: r, O => r
  | x :: r, S j => x :: remove_nth j r
  end.

Definition swap_id (a b w : wid) : wid := if w =? a then b else w.

Definition apply_edit (e : edit) (nl : netlist) : netlist :=
  match e with
  | EAddWire x => mkNetlist (x :: wires nl) (nets nl) (mems nl)
  | EAddNet n => mkNetlist (wires nl) (nets nl ++ [n]) (mems nl)
  | ERemoveNet i => mkNetlist (wires nl) (remove_nth i (nets nl)) (mems nl)
  | ERenameWire a b => rename (swap_id a b) nl
  | ERemoveWire a =>
      mkNetlist (filter (fun x => negb (wname x =? a)) (wires nl)) (nets nl) (mems nl)
  | ESetKind a k =>
      mkNetlist (map (fun x => if wname x =? a then mkWire (wname x) (wwidth x) k else x) (wires nl))
                (nets nl) (mems nl)
  end.

(* two blocks side by side; an edit or a simulation addresses one of them *)
Definition world := (netlist * netlist)%type.
Definition edit_fst (e : edit) (w : world) : world := (apply_edit e (fst w), snd w).
Definition edit_snd (e : edit) (w : world) : world := (fst w, apply_edit e (snd w)).

(* ---------------------------------------------------------------- harness *)

Definition kind_code (k : kind) : list Z :=
  match k with
  | KWire => [0] | KInput => [1] | KOutput => [2]
  | KConst v => [3; v]
  | KReg None => [4]
  | KReg (Some v) => [5; v]
  end.

Definition op_code (o : op) : list Z :=
  match o with
  | OpW => [0] | OpNot => [1] | OpAnd => [2] | OpOr => [3] | OpXor => [4] | OpNand => [5]
  | OpAdd => [6] | OpSub => [7] | OpMul => [8] | OpLt => [9] | OpGt => [10] | OpEq => [11]
  | OpMux => [12] | OpConcat => [13] | OpSelect idx => 14 :: idx
  | OpReg => [15] | OpMemRd m => [16; m] | OpMemWr m => [17; m]
  end.

(* a flat, printable image of `fingerprint` *)
Definition fp_code (nl : netlist) : list (list Z) :=
  map (fun x => 0 :: wname x :: wwidth x :: kind_code (wkind x)) (wires nl)
  ++ map (fun n => 1 :: ndest n :: Z.of_nat (length (nargs n)) :: nargs n ++ op_code (nop n)) (nets nl)
  ++ map (fun m => 2 :: mid m :: maddrw m :: mdataw m ::
                   match mrom m with
                   | None => [0]
                   | Some d => 1 :: flat_map (fun p => [fst p; snd p]) d
                   end) (mems nl).

(* structural tie.  src = dump of the source block, cp = dump of what the real
   copy_block returned (both with wire ids by sorted name and nets in one
   canonical order).  Rows:
     0: the model of the code as it is, run on src
     1: the real copy, carried to the model's fresh identities by the name bijection
     2: what the property requires: rename of src (every attribute kept)
     3: [fresh_offset; 1 if the identities of row 0 are disjoint from src's] *)
Definition copy_tie_case (src cp : netlist) : list (list (list Z)) :=
  let '(m, f) := copy_block_gen src in
  [ fp_code m; fp_code (rename f cp); fp_code (rename f src);
    [[fresh_offset src;
      b2z (forallb (fun x => forallb (fun y => negb (wname x =? wname y)) (wires src)) (wires m))]] ].

(* attribute-level tie for memories: what the generated _make_copy /
   _get_new_block_mem_instance give for the attributes of each source memory
   (the harness compares with the attributes of the real copies) *)
Definition optz (o : option Z) : Z := match o with Some v => v | None => -1 end.
Definition mattrs_code (a : mattrs) : list Z :=
  [ma_id a; ma_name a; ma_bitwidth a; ma_addrwidth a; b2z (ma_async a); optz (ma_max_read a);
   optz (ma_max_write a); b2z (is_rom a); b2z (ma_pad a); b2z (ma_newroms a)].
Definition mem_tie_case (l : list mattrs) : list (list Z) :=
  map (fun a => mattrs_code (gen_get_new_block_mem_instance (-1) a)) l.
