(* C09 -- postconditions of the model's passes, for all netlists. *)
From PyRTL Require Import Pass.Lower Pass.RewriteSound Pass.GateSound Pass.LowerSound.
From PyRTL Require Import Gen.LowerRules.
From Coq Require Import ZifyBool.

(* a property of single nets holds of the transformed list when it holds of
   every kept net and of every replacement *)
Lemma transform_Forall (Q : net -> Prop) rl nl :
  (forall next n rn rw, rl nl next n = Some (rn, rw) -> Forall Q rn) ->
  forall ns next,
    (forall n next', In n ns -> rl nl next' n = None -> Q n) ->
    Forall Q (fst (transform rl nl next ns)).
Proof.
  intro Hrep. induction ns as [|n r IH]; intros next Hkeep; [constructor|].
  cbn [transform]. destruct (rl nl next n) as [[rn rw]|] eqn:E; cbn [fst].
  - apply Forall_app. split; [apply (Hrep next n rn rw E)|].
    apply IH. intros m nx Hm. apply Hkeep. right. exact Hm.
  - constructor; [apply (Hkeep n next); [left; reflexivity|exact E]|].
    apply IH. intros m nx Hm. apply Hkeep. right. exact Hm.
Qed.

Lemma forallb_Forall {A} (f : A -> bool) l : forallb f l = true <-> Forall (fun x => f x = true) l.
Proof. rewrite forallb_forall, Forall_forall. reflexivity. Qed.

(* ---------- nand_synth / and_inverter_synth: only the kept ops remain ---------- *)
(* every op a right-hand side emits (and the 's'/'w' of `dest <<= ...`) is in the kept set *)
Definition rules_emit (keep : list Z) (rules : list (Z * grule)) : bool :=
  mem_in 115 keep && mem_in 119 keep
  && forallb (fun cr => forallb (fun g => mem_in (op_code (fst g)) keep) (gprog (snd cr))) rules.

Lemma lower_prog_ops keep n next : forall p i,
  forallb (fun g => mem_in (op_code (fst g)) keep) p = true ->
  Forall (fun m => mem_in (op_code (nop m)) keep = true) (lower_prog n next i p).
Proof.
  induction p as [|[o opds] r IH]; intros i H; cbn [lower_prog]; [constructor|].
  cbn [forallb fst] in H. apply andb_true_iff in H. destruct H as [H1 H2].
  constructor; [exact H1|apply IH; exact H2].
Qed.

Lemma assign_ops keep nl next src srcw d : mem_in 115 keep = true -> mem_in 119 keep = true ->
  Forall (fun m => mem_in (op_code (nop m)) keep = true) (fst (assign nl next src srcw d)).
Proof.
  intros Hs Hw. unfold assign. destruct (width_of nl d <? srcw); cbn [fst]; repeat constructor; assumption.
Qed.

Theorem gate_post keep rules nl next :
  rules_emit keep rules = true -> gate_pre keep rules nl = true ->
  only_ops keep (apply_rule_at next (gate_rule keep rules) nl) = true.
Proof.
  intros Hemit Hpre. unfold only_ops, apply_rule_at. cbn [nets]. apply forallb_Forall.
  unfold rules_emit in Hemit. rewrite !andb_true_iff in Hemit. destruct Hemit as [[Hs Hw] Hr].
  rewrite forallb_forall in Hr.
  apply transform_Forall.
  - intros nx n rn rw E. unfold gate_rule in E.
    destruct (mem_in (op_code (nop n)) keep); [discriminate|].
    destruct (find_rule (op_code (nop n)) rules) as [r|] eqn:F; [|discriminate].
    unfold lower_gate in E. injection E as <- _.
    apply Forall_app. split.
    + apply lower_prog_ops. apply (Hr (op_code (nop n), r)). apply find_rule_in. exact F.
    + apply assign_ops; assumption.
  - intros n nx Hn E. unfold gate_pre in Hpre. rewrite forallb_forall in Hpre. specialize (Hpre n Hn).
    unfold gate_rule in E. destruct (mem_in (op_code (nop n)) keep); [reflexivity|].
    destruct (find_rule (op_code (nop n)) rules); [discriminate|discriminate].
Qed.

Lemma nand_rules_emit : rules_emit nand_synth_keep nand_synth_rules = true.
Proof. vm_compute. reflexivity. Qed.
Lemma aig_rules_emit : rules_emit and_inverter_synth_keep and_inverter_synth_rules = true.
Proof. vm_compute. reflexivity. Qed.

(* ---------- two_way_concat: every concat has at most two arguments ---------- *)
Definition concat2 (n : net) : Prop :=
  match nop n with OpConcat => (length (nargs n) <=? 2)%nat = true | _ => True end.

Lemma concat_chain_concat2 nl : forall rest next acc accw ns ws fin,
  concat_chain nl next acc accw rest = (ns, ws, fin) -> Forall concat2 ns.
Proof.
  induction rest as [|a r IH]; intros next acc accw ns ws fin Ec.
  - cbn in Ec. injection Ec as <- _ _. constructor.
  - cbn [concat_chain] in Ec.
    destruct (concat_chain nl (next + 1) next (accw + width_of nl a) r) as [[ns1 ws1] f1] eqn:E1.
    injection Ec as <- _ _. constructor; [reflexivity|]. eapply IH. exact E1.
Qed.

Lemma assign_concat2 nl next src srcw d : Forall concat2 (fst (assign nl next src srcw d)).
Proof. unfold assign. destruct (width_of nl d <? srcw); cbn [fst]; repeat constructor. Qed.

Theorem two_way_concat_post nl next :
  post_two_way_concat (apply_rule_at next two_way_concat_rule nl) = true.
Proof.
  unfold post_two_way_concat, apply_rule_at. cbn [nets].
  assert (H : Forall concat2 (fst (transform two_way_concat_rule nl next (nets nl)))).
  { apply transform_Forall.
    - intros nx n rn rw E. unfold two_way_concat_rule in E.
      destruct (nop n); try discriminate. destruct (nargs n) as [|a0 rest]; [discriminate|].
      destruct (2 <? length (a0 :: rest))%nat; [|discriminate].
      destruct (concat_chain nl nx a0 (width_of nl a0) rest) as [[ns ws] [fin finw]] eqn:Ec.
      injection E as <- _. apply Forall_app. split; [eapply concat_chain_concat2; exact Ec|apply assign_concat2].
    - intros n nx _ E. unfold two_way_concat_rule in E. unfold concat2.
      destruct (nop n); try exact I. destruct (nargs n) as [|a0 rest] eqn:Ea; [reflexivity|].
      destruct (2 <? length (a0 :: rest))%nat eqn:E2.
      + destruct (concat_chain nl nx a0 (width_of nl a0) rest) as [[ns ws] [fin finw]]. discriminate.
      + lia. }
  apply forallb_Forall. eapply Forall_impl; [|exact H].
  intros n Hn. unfold concat2 in Hn. destruct (nop n); auto.
Qed.

(* ---------- one_bit_selects: every select has exactly one index ---------- *)
Definition select1 (n : net) : Prop :=
  match nop n with OpSelect idx => (length idx =? 1)%nat = true | _ => True end.

(* what sanity_check_net guarantees of a select net *)
Definition select_shape_ok (nl : netlist) (n : net) : Prop :=
  match nop n with
  | OpSelect idx => (exists src, nargs n = [src]) /\ 1 <= width_of nl (ndest n) /\ idx <> []
  | _ => True
  end.

Lemma bit_selects_select1 src : forall idx next, Forall select1 (bit_selects src next idx).
Proof. induction idx as [|i r IH]; intro next; cbn [bit_selects]; constructor; [reflexivity|apply IH]. Qed.

Lemma assign_select1 nl next src srcw d : srcw <= width_of nl d ->
  Forall select1 (fst (assign nl next src srcw d)).
Proof.
  intro H. unfold assign. destruct (width_of nl d <? srcw) eqn:E; [lia|]. cbn [fst]. repeat constructor.
Qed.

Theorem one_bit_selects_post nl next :
  Forall (select_shape_ok nl) (nets nl) ->
  post_one_bit_selects (apply_rule_at next one_bit_selects_rule nl) = true.
Proof.
  intro Hshape. unfold post_one_bit_selects, apply_rule_at. cbn [nets].
  assert (H : Forall select1 (fst (transform one_bit_selects_rule nl next (nets nl)))).
  { apply transform_Forall.
    - intros nx n rn rw E. unfold one_bit_selects_rule in E.
      destruct (nop n) as [| | | | | | | | | | | | | |idx0| | |]; try discriminate.
      destruct (nargs n) as [|src [|? ?]]; try discriminate.
      set (wd := width_of nl (ndest n)) in *.
      assert (Hk : Z.of_nat (length (firstn (Z.to_nat wd) idx0)) <= wd \/ wd < 0).
      { rewrite firstn_length. lia. }
      destruct (length (firstn (Z.to_nat wd) idx0)) as [|[|k2]] eqn:Ek; [discriminate| |].
      + injection E as <- _. apply Forall_app. split; [apply bit_selects_select1|].
        apply assign_select1. fold wd. destruct Hk as [Hk|Hk]; [lia|].
        rewrite firstn_length in Ek. lia.
      + remember (S (S k2)) as k eqn:Hk2. injection E as <- _.
        apply Forall_app. split; [apply bit_selects_select1|].
        constructor; [exact I|]. apply assign_select1. fold wd. destruct Hk as [Hk|Hk]; [lia|].
        rewrite firstn_length in Ek. lia.
    - intros n nx Hn E. rewrite Forall_forall in Hshape. specialize (Hshape n Hn).
      unfold select_shape_ok in Hshape. unfold one_bit_selects_rule in E. unfold select1.
      destruct (nop n) as [| | | | | | | | | | | | | |idx0| | |]; try exact I.
      destruct Hshape as ([src Hs] & Hw & Hne). rewrite Hs in E.
      destruct (length (firstn (Z.to_nat (width_of nl (ndest n))) idx0)) as [|[|k2]] eqn:Ek;
        try discriminate.
      exfalso. rewrite firstn_length in Ek. destruct idx0; [congruence|]. cbn [length] in Ek. lia. }
  apply forallb_Forall. eapply Forall_impl; [|exact H].
  intros n Hn. unfold select1 in Hn. destruct (nop n); auto.
Qed.

(* ---------- two_way_fanout: the tree lemma ---------- *)
Definition count (x : Z) (l : list Z) : nat := length (filter (Z.eqb x) l).

Lemma count_app x l1 l2 : count x (l1 ++ l2) = (count x l1 + count x l2)%nat.
Proof. unfold count. rewrite filter_app, app_length. reflexivity. Qed.

Lemma make_tree_mono : forall fuel w n next tn lv nx,
  make_tree fuel w n next = (tn, lv, nx) -> next <= nx.
Proof.
  induction fuel as [|f IH]; intros w n next tn lv nx E; cbn [make_tree] in E.
  - injection E as _ _ <-. lia.
  - destruct (n <=? 1)%nat; [injection E as _ _ <-; lia|].
    destruct (make_tree f next (n / 2) (next + 1)) as [[n1 l1] nx1] eqn:E1.
    destruct (make_tree f next (n - n / 2) nx1) as [[n2 l2] nx2] eqn:E2.
    injection E as _ _ <-. apply IH in E1. apply IH in E2. lia.
Qed.

(* In the tree built for [n] uses of wire [w]: the root is read exactly once,
   every new wire exactly twice, nothing else is read; and there are [n]
   leaves (given enough fuel).  Hence fan-out <= 2 inside every tree. *)
Theorem make_tree_counts : forall fuel w n next tn lv nx,
  w < next ->
  make_tree fuel w n next = (tn, lv, nx) ->
  forall x, count x (flat_map nargs tn ++ lv)
            = if x =? w then 1%nat else if (next <=? x) && (x <? nx) then 2%nat else 0%nat.
Proof.
  induction fuel as [|f IH]; intros w n next tn lv nx Hw E x; cbn [make_tree] in E.
  - injection E as <- <- <-. cbn [flat_map app]. unfold count. cbn [filter].
    destruct (x =? w) eqn:Ex; cbn; [reflexivity|]. destruct ((next <=? x) && (x <? next)) eqn:E2; [lia|reflexivity].
  - destruct (n <=? 1)%nat.
    + injection E as <- <- <-. cbn [flat_map app]. unfold count. cbn [filter].
      destruct (x =? w) eqn:Ex; cbn; [reflexivity|]. destruct ((next <=? x) && (x <? next)) eqn:E2; [lia|reflexivity].
    + destruct (make_tree f next (n / 2) (next + 1)) as [[n1 l1] nx1] eqn:E1.
      destruct (make_tree f next (n - n / 2) nx1) as [[n2 l2] nx2] eqn:E2.
      injection E as <- <- <-.
      pose proof (make_tree_mono _ _ _ _ _ _ _ E1) as M1. pose proof (make_tree_mono _ _ _ _ _ _ _ E2) as M2.
      pose proof (IH next (n / 2)%nat (next + 1) n1 l1 nx1 ltac:(lia) E1 x) as C1.
      pose proof (IH next (n - n / 2)%nat nx1 n2 l2 nx2 ltac:(lia) E2 x) as C2.
      change (flat_map nargs (mkNet OpW [w] next :: n1 ++ n2)) with ([w] ++ flat_map nargs (n1 ++ n2)).
      rewrite flat_map_app.
      rewrite !count_app in *.
      assert (Cw : count x [w] = if x =? w then 1%nat else 0%nat).
      { unfold count. cbn [filter]. destruct (x =? w); reflexivity. }
      rewrite Cw.
      set (c1 := count x (flat_map nargs n1)) in *. set (c2 := count x (flat_map nargs n2)) in *.
      set (d1 := count x l1) in *. set (d2 := count x l2) in *.
      destruct (x =? w) eqn:Exw; destruct (x =? next) eqn:Exn;
        destruct ((next + 1 <=? x) && (x <? nx1)) eqn:R1; destruct ((nx1 <=? x) && (x <? nx2)) eqn:R2;
        destruct ((next <=? x) && (x <? nx2)) eqn:R3; lia.
      (* arithmetic only *)
Qed.

Theorem make_tree_leaves : forall fuel w n next tn lv nx,
  (n <= fuel)%nat -> (1 <= n)%nat ->
  make_tree fuel w n next = (tn, lv, nx) -> length lv = n.
Proof.
  induction fuel as [|f IH]; intros w n next tn lv nx Hf Hn E; [lia|].
  cbn [make_tree] in E. destruct (n <=? 1)%nat eqn:En.
  - injection E as _ <- _. cbn. lia.
  - destruct (make_tree f next (n / 2) (next + 1)) as [[n1 l1] nx1] eqn:E1.
    destruct (make_tree f next (n - n / 2) nx1) as [[n2 l2] nx2] eqn:E2.
    injection E as _ <- _.
    assert (H2 : (2 <= n)%nat) by lia.
    assert (Hd : (1 <= n / 2 /\ n / 2 < n)%nat).
    { split; [apply Nat.div_le_lower_bound; lia|apply Nat.div_lt; lia]. }
    rewrite app_length.
    rewrite (IH next (n / 2)%nat (next + 1) n1 l1 nx1 ltac:(lia) ltac:(lia) E1),
            (IH next (n - n / 2)%nat nx1 n2 l2 nx2 ltac:(lia) ltac:(lia) E2). lia.
Qed.

(* ---------- direct_connect_outputs: the loop stops only at the postcondition ---------- *)
Fixpoint dco_passes (fuel : nat) (nl : netlist) : netlist :=
  match fuel with O => nl | S f => dco_passes f (dco_with dco_skips nl) end.

Lemma post_dco_no_change nl : dco_changes dco_skips nl = false -> post_direct_connect_outputs nl = true.
Proof.
  unfold dco_changes, post_direct_connect_outputs. intro H. apply forallb_forall. intros n Hn.
  destruct (dco_candidate dco_skips nl n) eqn:E; [|reflexivity].
  exfalso. assert (Ht : existsb (fun n => match dco_candidate dco_skips nl n with Some _ => true | None => false end)
                          (nets nl) = true).
  { apply existsb_exists. exists n. rewrite E. auto. }
  rewrite H in Ht. discriminate.
Qed.

(* either the result has no removable w-net before an Output, or every one of
   the [fuel] passes was a changing pass *)
Theorem dco_iter_post : forall fuel nl,
  post_direct_connect_outputs (dco_iter dco_skips fuel nl) = true
  \/ dco_iter dco_skips fuel nl = dco_passes fuel nl.
Proof.
  induction fuel as [|f IH]; intro nl; cbn [dco_iter dco_passes]; [right; reflexivity|].
  destruct (dco_changes dco_skips nl) eqn:E.
  - apply IH.
  - left. apply post_dco_no_change. exact E.
Qed.

(* ---------- ... and the fuel is enough when no net reads an Output ---------- *)
Definition outputs_unread (nl : netlist) : Prop :=
  forall x n, In x (wires nl) -> wkind x = KOutput -> In n (nets nl) -> ~ In (wname x) (nargs n).

Lemma find_wire_in ws w x : find_wire ws w = Some x -> In x ws /\ wname x = w.
Proof.
  induction ws as [|y r IH]; cbn; [discriminate|].
  destruct (wname y =? w) eqn:E.
  - intro H. injection H as ->. split; [left; reflexivity|lia].
  - intro H. destruct (IH H). split; [right; assumption|assumption].
Qed.

Lemma mem_in_spec w l : mem_in w l = true <-> In w l.
Proof.
  unfold mem_in. rewrite existsb_exists. split.
  - intros (y & Hy & E). replace w with y by lia. exact Hy.
  - intro H. exists w. split; [exact H|lia].
Qed.

Lemma filter_readers_nil w ns : (forall n, In n ns -> ~ In w (nargs n)) ->
  filter (fun n => mem_in w (nargs n)) ns = [].
Proof.
  induction ns as [|n r IH]; intro H; [reflexivity|]. cbn [filter].
  destruct (mem_in w (nargs n)) eqn:Em.
  - exfalso. apply mem_in_spec in Em. apply (H n); [left; reflexivity|exact Em].
  - apply IH. intros m Hm. apply H. right. exact Hm.
Qed.

Lemma output_no_readers nl w : outputs_unread nl -> is_output nl w = true -> readers nl w = [].
Proof.
  intros Hu Ho. unfold is_output, kind_of in Ho.
  destruct (find_wire (wires nl) w) as [x|] eqn:E; [|discriminate].
  destruct (find_wire_in _ _ _ E) as [Hin Hnm]. destruct (wkind x) eqn:Ek; try discriminate.
  unfold readers. apply filter_readers_nil. intros n Hn. rewrite <- Hnm. apply (Hu x n Hin Ek Hn).
Qed.

Lemma flat_map_shrinks {A} (f : A -> list A) l r0 :
  (forall x, (length (f x) <= 1)%nat) -> In r0 l -> f r0 = [] ->
  (length (flat_map f l) < length l)%nat.
Proof.
  intros H1 Hin H0.
  assert (Hle : forall l', (length (flat_map f l') <= length l')%nat).
  { induction l' as [|y r IH]; cbn; [lia|]. rewrite app_length. specialize (H1 y). lia. }
  induction l as [|y r IH]; [destruct Hin|].
  cbn [flat_map length]. rewrite app_length. destruct Hin as [->|Hin].
  - rewrite H0. cbn. specialize (Hle r). lia.
  - specialize (IH Hin). specialize (H1 y). lia.
Qed.

Lemma dco_net_le1 nl rm n : (length (dco_net dco_skips nl rm n) <= 1)%nat.
Proof.
  unfold dco_net. destruct (dco_candidate dco_skips nl n); [cbn; lia|].
  destruct (nop n); cbn; try lia. destruct (mem_in (ndest n) rm); cbn; lia.
Qed.

Lemma dco_candidate_some nl n r : dco_candidate dco_skips nl n = Some r ->
  In r (nets nl) /\ nop r = OpW /\ is_output nl (ndest r) = true.
Proof.
  unfold dco_candidate. destruct (dco_skips (nop n)); [discriminate|].
  destruct (readers nl (ndest n)) as [|r0 [|? ?]] eqn:Er; try discriminate.
  destruct (nop r0) eqn:Eo; try discriminate. destruct (is_output nl (ndest r0)) eqn:Ei; [|discriminate].
  cbn [andb]. destruct (width_of nl (ndest r0) =? width_of nl (ndest n)); [|discriminate].
  intro H. injection H as <-. repeat split; auto.
  assert (Hin : In r0 (readers nl (ndest n))) by (rewrite Er; left; reflexivity).
  unfold readers in Hin. apply filter_In in Hin. apply Hin.
Qed.

Lemma dco_pass_shrinks nl : outputs_unread nl -> dco_changes dco_skips nl = true ->
  (length (nets (dco_with dco_skips nl)) < length (nets nl))%nat.
Proof.
  intros Hu Hc. unfold dco_changes in Hc. apply existsb_exists in Hc. destruct Hc as (n0 & Hn0 & Hc).
  destruct (dco_candidate dco_skips nl n0) as [r0|] eqn:E0; [|discriminate].
  destruct (dco_candidate_some nl n0 r0 E0) as (Hr0 & Hw & Ho).
  unfold dco_with. cbn [nets]. apply (flat_map_shrinks _ _ r0); [apply dco_net_le1|exact Hr0|].
  unfold dco_net.
  assert (Hnone : dco_candidate dco_skips nl r0 = None).
  { unfold dco_candidate. rewrite Hw. cbn [dco_skips]. rewrite (output_no_readers nl _ Hu Ho). reflexivity. }
  rewrite Hnone, Hw.
  assert (Hrm : mem_in (ndest r0) (dco_removed_dests dco_skips nl) = true).
  { apply mem_in_spec. unfold dco_removed_dests. apply in_flat_map. exists n0. split; [exact Hn0|].
    rewrite E0. left. reflexivity. }
  rewrite Hrm. reflexivity.
Qed.

Lemma dco_pass_unread nl : outputs_unread nl -> outputs_unread (dco_with dco_skips nl).
Proof.
  intros Hu x n Hx Hk Hn. unfold dco_with in *. cbn [wires nets] in *.
  apply filter_In in Hx. destruct Hx as [Hx _].
  apply in_flat_map in Hn. destruct Hn as (m & Hm & Hn).
  assert (Ha : nargs n = nargs m).
  { unfold dco_net in Hn. destruct (dco_candidate dco_skips nl m).
    - destruct Hn as [<-|[]]. reflexivity.
    - destruct (nop m); try (destruct Hn as [<-|[]]; reflexivity).
      destruct (mem_in (ndest m) (dco_removed_dests dco_skips nl)); [destruct Hn|destruct Hn as [<-|[]]; reflexivity]. }
  rewrite Ha. apply (Hu x m Hx Hk Hm).
Qed.

Theorem dco_post nl : outputs_unread nl ->
  post_direct_connect_outputs (direct_connect_outputs nl) = true.
Proof.
  intro Hu. unfold direct_connect_outputs. apply post_dco_no_change.
  assert (H : forall fuel nl0, outputs_unread nl0 -> (length (nets nl0) <= fuel)%nat ->
                dco_changes dco_skips (dco_iter dco_skips fuel nl0) = false).
  { induction fuel as [|f IH]; intros nl0 Hu0 Hl; cbn [dco_iter].
    - unfold dco_changes. destruct (nets nl0); [reflexivity|cbn in Hl; lia].
    - destruct (dco_changes dco_skips nl0) eqn:E; [|exact E].
      apply IH; [apply dco_pass_unread; exact Hu0|].
      pose proof (dco_pass_shrinks nl0 Hu0 E). lia. }
  apply H; [exact Hu|lia].
Qed.
