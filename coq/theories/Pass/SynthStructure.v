(* The generators of Pass/BasicGates.v are natural in the gate algebra: a map h
   that commutes with the six gate operations commutes with every generator.
   Instantiated at h = geval bv : gexp -> bool this links the STRUCTURE synthesize
   emits (Synth.lower: gate expressions over the argument bits) to the VALUES
   used by the executable semantics (Synth.lower_val):
       map (geval bv) (lower nl n) = lower_val nl bv n. *)
From Coq Require Import ZArith List Bool Lia.
From PyRTL Require Import Base.PyZ Netlist.Sem Pass.BasicGates Pass.Synth.
Import ListNotations.

Lemma map_repeat {A B} (f : A -> B) x n : map f (repeat x n) = repeat (f x) n.
Proof. induction n; cbn [repeat map]; [reflexivity|]. rewrite IHn. reflexivity. Qed.

Section Hom.
Context {B1 B2 : Type} (G1 : galg B1) (G2 : galg B2) (h : B1 -> B2).
Hypothesis h_and : forall x y, h (band G1 x y) = band G2 (h x) (h y).
Hypothesis h_or : forall x y, h (bor G1 x y) = bor G2 (h x) (h y).
Hypothesis h_xor : forall x y, h (bxor G1 x y) = bxor G2 (h x) (h y).
Hypothesis h_nand : forall x y, h (bnand G1 x y) = bnand G2 (h x) (h y).
Hypothesis h_not : forall x, h (bnot G1 x) = bnot G2 (h x).
Hypothesis h_const : forall b, h (bconst G1 b) = bconst G2 b.

Ltac hom := repeat (rewrite h_and || rewrite h_or || rewrite h_xor || rewrite h_nand
                    || rewrite h_not || rewrite h_const); try reflexivity.

(* the generated one-bit formulas (whatever expression the code currently has) *)
Lemma hom_oba_sum x y c : h (g_oba_sum G1 x y c) = g_oba_sum G2 (h x) (h y) (h c).
Proof. unfold g_oba_sum. hom. Qed.
Lemma hom_oba_carry x y c : h (g_oba_carry G1 x y c) = g_oba_carry G2 (h x) (h y) (h c).
Proof. unfold g_oba_carry. hom. Qed.
Lemma hom_add_arg_b x : h (g_add_arg_b G1 x) = g_add_arg_b G2 (h x).
Proof. unfold g_add_arg_b. hom. Qed.
Lemma hom_add_top x : h (g_add_top G1 x) = g_add_top G2 (h x).
Proof. unfold g_add_top. hom. Qed.
Lemma hom_sub_arg_b x : h (g_sub_arg_b G1 x) = g_sub_arg_b G2 (h x).
Proof. unfold g_sub_arg_b. hom. Qed.
Lemma hom_sub_top x : h (g_sub_top G1 x) = g_sub_top G2 (h x).
Proof. unfold g_sub_top. hom. Qed.
Lemma hom_eq_bit x y : h (g_eq_bit G1 x y) = g_eq_bit G2 (h x) (h y).
Proof. unfold g_eq_bit. hom. Qed.
Lemma hom_eq_post x : h (g_eq_post G1 x) = g_eq_post G2 (h x).
Proof. unfold g_eq_post. hom. Qed.
Lemma hom_lt_base x y : h (g_lt_base G1 x y) = g_lt_base G2 (h x) (h y).
Proof. unfold g_lt_base. hom. Qed.
Lemma hom_lt_step x y s : h (g_lt_step G1 x y s) = g_lt_step G2 (h x) (h y) (h s).
Proof. unfold g_lt_step. hom. Qed.
Lemma hom_select_bit s x y : h (g_select_bit G1 s x y) = g_select_bit G2 (h s) (h x) (h y).
Proof. unfold g_select_bit. hom. Qed.
Lemma hom_mult_pp1 x y : h (g_mult_pp1 G1 x y) = g_mult_pp1 G2 (h x) (h y).
Proof. unfold g_mult_pp1. hom. Qed.
Lemma hom_mult_pp x y : h (g_mult_pp G1 x y) = g_mult_pp G2 (h x) (h y).
Proof. unfold g_mult_pp. hom. Qed.
Lemma hom_fa_sum x y c : h (g_mult_fa_sum G1 x y c) = g_mult_fa_sum G2 (h x) (h y) (h c).
Proof. unfold g_mult_fa_sum. hom. Qed.
Lemma hom_fa_carry x y c : h (g_mult_fa_carry G1 x y c) = g_mult_fa_carry G2 (h x) (h y) (h c).
Proof. unfold g_mult_fa_carry. hom. Qed.
Lemma hom_ha_sum x y : h (g_mult_ha_sum G1 x y) = g_mult_ha_sum G2 (h x) (h y).
Proof. unfold g_mult_ha_sum. hom. Qed.
Lemma hom_ha_carry x y : h (g_mult_ha_carry G1 x y) = g_mult_ha_carry G2 (h x) (h y).
Proof. unfold g_mult_ha_carry. hom. Qed.
Lemma hom_decompose1 o x : option_map h (g_decompose1 G1 o x) = g_decompose1 G2 o (h x).
Proof. unfold g_decompose1. destruct o; cbn [option_map]; hom. Qed.
Lemma hom_decompose2 o x y : option_map h (g_decompose2 G1 o x y) = g_decompose2 G2 o (h x) (h y).
Proof. unfold g_decompose2. destruct o; cbn [option_map]; hom. Qed.

Lemma hom_gzero : h (gzero G1) = gzero G2.
Proof. unfold gzero. hom. Qed.

(* vectors *)
Lemma hom_zext n l : map h (zext G1 n l) = zext G2 n (map h l).
Proof. unfold zext. rewrite map_app, map_repeat, map_length, hom_gzero. reflexivity. Qed.

Lemma hom_match_bw a b :
  (map h (fst (match_bw G1 a b)), map h (snd (match_bw G1 a b))) = match_bw G2 (map h a) (map h b).
Proof. unfold match_bw. cbn [fst snd]. rewrite !hom_zext, !map_length. reflexivity. Qed.

Lemma hom_fit n l : map h (fit G1 n l) = fit G2 n (map h l).
Proof. unfold fit. rewrite <- firstn_map, map_app, map_repeat, map_length, hom_gzero. reflexivity. Qed.

Lemma hom_map2 (f1 : B1 -> B1 -> B1) (f2 : B2 -> B2 -> B2)
  (Hf : forall x y, h (f1 x y) = f2 (h x) (h y)) a : forall b,
  map h (map2 f1 a b) = map2 f2 (map h a) (map h b).
Proof.
  induction a as [|x ta IH]; intros [|y tb]; cbn [map2 map]; try reflexivity.
  rewrite Hf, IH. reflexivity.
Qed.

Lemma hom_ripple a : forall b c,
  (map h (fst (ripple G1 a b c)), h (snd (ripple G1 a b c))) = ripple G2 (map h a) (map h b) (h c).
Proof.
  induction a as [|x ta IH]; intros [|y tb] c; cbn [ripple map fst snd]; try reflexivity.
  specialize (IH tb (g_oba_carry G1 x y c)).
  rewrite hom_oba_carry in IH. rewrite <- IH.
  destruct (ripple G1 ta tb (g_oba_carry G1 x y c)) as [ms co]. cbn [fst snd map].
  rewrite hom_oba_sum. reflexivity.
Qed.

Lemma hom_add_helper a b c :
  (map h (fst (add_helper G1 a b c)), h (snd (add_helper G1 a b c)))
  = add_helper G2 (map h a) (map h b) (h c).
Proof.
  unfold add_helper. rewrite <- hom_match_bw.
  destruct (match_bw G1 a b) as [a' b']. cbn [fst snd]. apply hom_ripple.
Qed.

Lemma hom_map_fn (f1 : B1 -> B1) (f2 : B2 -> B2) (Hf : forall x, h (f1 x) = f2 (h x)) l :
  map h (map f1 l) = map f2 (map h l).
Proof. rewrite !map_map. apply map_ext. exact Hf. Qed.

Lemma hom_basic_add a b : map h (basic_add G1 a b) = basic_add G2 (map h a) (map h b).
Proof.
  unfold basic_add.
  pose proof (hom_add_helper a (map (g_add_arg_b G1) b) (bconst G1 g_add_cin)) as H.
  rewrite h_const, (hom_map_fn _ _ hom_add_arg_b) in H. rewrite <- H.
  destruct (add_helper G1 a (map (g_add_arg_b G1) b) (bconst G1 g_add_cin)) as [s c]. cbn [fst snd].
  rewrite map_app. cbn [map]. rewrite hom_add_top. reflexivity.
Qed.

Lemma hom_basic_sub a b : map h (basic_sub G1 a b) = basic_sub G2 (map h a) (map h b).
Proof.
  unfold basic_sub.
  pose proof (hom_add_helper a (map (g_sub_arg_b G1) b) (bconst G1 g_sub_cin)) as H.
  rewrite h_const, (hom_map_fn _ _ hom_sub_arg_b) in H. rewrite <- H.
  destruct (add_helper G1 a (map (g_sub_arg_b G1) b) (bconst G1 g_sub_cin)) as [s c]. cbn [fst snd].
  rewrite map_app. cbn [map]. rewrite hom_sub_top. reflexivity.
Qed.

Lemma hom_tree_reduce (op1 : B1 -> B1 -> B1) (op2 : B2 -> B2 -> B2)
  (Hop : forall x y, h (op1 x y) = op2 (h x) (h y)) fuel : forall l,
  h (tree_reduce G1 fuel op1 l) = tree_reduce G2 fuel op2 (map h l).
Proof.
  induction fuel as [|f IH]; intros [|x [|y r]]; cbn [tree_reduce map]; try apply hom_gzero; try reflexivity.
  rewrite Hop, !IH.
  change (h x :: h y :: map h r) with (map h (x :: y :: r)).
  rewrite map_length, firstn_map, skipn_map. reflexivity.
Qed.

Lemma hom_basic_eq a b : map h (basic_eq G1 a b) = basic_eq G2 (map h a) (map h b).
Proof.
  unfold basic_eq. rewrite <- hom_match_bw.
  destruct (match_bw G1 a b) as [a' b']. cbn [fst snd map].
  rewrite hom_eq_post. unfold or_all_bits.
  rewrite (hom_tree_reduce (bor G1) (bor G2) h_or).
  rewrite <- (map_length h (map2 (g_eq_bit G1) a' b')).
  rewrite (hom_map2 _ _ hom_eq_bit). reflexivity.
Qed.

Lemma hom_lt_from a : forall b acc,
  h (lt_from G1 acc a b) = lt_from G2 (h acc) (map h a) (map h b).
Proof.
  induction a as [|x ta IH]; intros [|y tb] acc; cbn [lt_from map]; try reflexivity.
  rewrite IH, hom_lt_step. reflexivity.
Qed.

Lemma hom_basic_lt a b : map h (basic_lt G1 a b) = basic_lt G2 (map h a) (map h b).
Proof.
  destruct a as [|x ta]; destruct b as [|y tb]; cbn [basic_lt map]; rewrite ?hom_gzero; try reflexivity.
  rewrite hom_lt_from, hom_lt_base. reflexivity.
Qed.

Lemma hom_basic_gt a b : map h (basic_gt G1 a b) = basic_gt G2 (map h a) (map h b).
Proof. unfold basic_gt. destruct g_gt_swaps; apply hom_basic_lt. Qed.

Lemma hom_basic_select s a b :
  map h (basic_select G1 s a b) = basic_select G2 (h s) (map h a) (map h b).
Proof. unfold basic_select. apply hom_map2. intros x y. apply hom_select_bit. Qed.

(* Wallace multiplier *)
Notation mh := (map (map h)).

Lemma hom_add_at x cols : forall k, mh (add_at k x cols) = add_at k (h x) (mh cols).
Proof.
  induction cols as [|c r IH]; intros [|k]; cbn [add_at map]; try reflexivity.
  - rewrite map_app. reflexivity.
  - rewrite IH. reflexivity.
Qed.

Lemma hom_pp_row i a bs : forall j cols,
  mh (pp_row G1 i a j bs cols) = pp_row G2 i (h a) j (map h bs) (mh cols).
Proof.
  induction bs as [|b r IH]; intros j cols; cbn [pp_row map]; [reflexivity|].
  rewrite IH, hom_add_at, hom_mult_pp. reflexivity.
Qed.

Lemma hom_pp_all bs as_ : forall i cols,
  mh (pp_all G1 i as_ bs cols) = pp_all G2 i (map h as_) (map h bs) (mh cols).
Proof.
  induction as_ as [|a r IH]; intros i cols; cbn [pp_all map]; [reflexivity|].
  rewrite IH, hom_pp_row. reflexivity.
Qed.

Lemma hom_col3 n : forall w, (length w <= n)%nat ->
  (map h (fst (col3 G1 w)), map h (snd (col3 G1 w))) = col3 G2 (map h w).
Proof.
  induction n as [|n IH]; intros w Hl.
  - destruct w; [reflexivity|simpl in Hl; lia].
  - destruct w as [|a [|b [|c r]]]; try reflexivity.
    + cbn [col3 fst snd map]. rewrite hom_ha_sum, hom_ha_carry. reflexivity.
    + cbn [col3 map]. specialize (IH r ltac:(simpl in Hl; lia)). rewrite <- IH.
      destruct (col3 G1 r) as [s k]. cbn [fst snd map]. rewrite hom_fa_sum, hom_fa_carry. reflexivity.
Qed.

Lemma hom_pass cols : forall cin, mh (pass G1 cols cin) = pass G2 (mh cols) (map h cin).
Proof.
  induction cols as [|w r IH]; intro cin; cbn [pass map]; [reflexivity|].
  rewrite <- (hom_col3 (length w) w (le_n _)).
  destruct (col3 G1 w) as [s k]. cbn [fst snd map]. rewrite map_app, IH. reflexivity.
Qed.

Lemma hom_reduced (cols : list (list B1)) : reduced (mh cols) = reduced cols.
Proof.
  unfold reduced. induction cols as [|c r IH]; cbn [map forallb]; [reflexivity|].
  rewrite map_length, IH. reflexivity.
Qed.

Lemma hom_total_bits (cols : list (list B1)) : total_bits (mh cols) = total_bits cols.
Proof.
  unfold total_bits. induction cols as [|c r IH]; cbn [map fold_right]; [reflexivity|].
  rewrite map_length, IH. reflexivity.
Qed.

Lemma hom_wallace fuel : forall cols, mh (wallace G1 fuel cols) = wallace G2 fuel (mh cols).
Proof.
  induction fuel as [|f IH]; intro cols; cbn [wallace]; rewrite hom_reduced.
  - destruct (reduced cols); reflexivity.
  - destruct (reduced cols); [reflexivity|]. rewrite IH, hom_pass. reflexivity.
Qed.

Lemma hom_nth_col k (cols : list (list B1)) :
  map h (map (fun c => nth k c (gzero G1)) cols) = map (fun c => nth k c (gzero G2)) (mh cols).
Proof.
  rewrite !map_map. apply map_ext. intro c. rewrite <- hom_gzero. symmetry. apply map_nth.
Qed.

Lemma hom_repeat_nil n : mh (repeat (@nil B1) n) = repeat [] n.
Proof. rewrite map_repeat. reflexivity. Qed.

Lemma hom_mult_general A Bv :
  map h (let rw := (length A + length Bv)%nat in
         let bits := pp_all G1 0 A Bv (repeat [] rw) in
         let cols := wallace G1 (total_bits bits) bits in
         let row0 := map (fun c => nth 0 c (gzero G1)) cols in
         let row1 := map (fun c => nth 1 c (gzero G1)) cols in
         firstn rw (basic_add G1 row0 row1))
  = (let rw := (length (map h A) + length (map h Bv))%nat in
     let bits := pp_all G2 0 (map h A) (map h Bv) (repeat [] rw) in
     let cols := wallace G2 (total_bits bits) bits in
     let row0 := map (fun c => nth 0 c (gzero G2)) cols in
     let row1 := map (fun c => nth 1 c (gzero G2)) cols in
     firstn rw (basic_add G2 row0 row1)).
Proof.
  cbv zeta. rewrite !map_length, <- firstn_map, hom_basic_add, !hom_nth_col, hom_wallace.
  rewrite hom_pp_all, hom_repeat_nil, <- (hom_repeat_nil (length A + length Bv)), <- hom_pp_all, hom_total_bits.
  rewrite hom_pp_all, hom_repeat_nil. reflexivity.
Qed.

Lemma hom_mult_core A Bv :
  map h (match A with
         | [a] => map (g_mult_pp1 G1 a) Bv ++ [gzero G1]
         | _ => let rw := (length A + length Bv)%nat in
                let bits := pp_all G1 0 A Bv (repeat [] rw) in
                let cols := wallace G1 (total_bits bits) bits in
                let row0 := map (fun c => nth 0 c (gzero G1)) cols in
                let row1 := map (fun c => nth 1 c (gzero G1)) cols in
                firstn rw (basic_add G1 row0 row1)
         end)
  = match map h A with
    | [a] => map (g_mult_pp1 G2 a) (map h Bv) ++ [gzero G2]
    | _ => let rw := (length (map h A) + length (map h Bv))%nat in
           let bits := pp_all G2 0 (map h A) (map h Bv) (repeat [] rw) in
           let cols := wallace G2 (total_bits bits) bits in
           let row0 := map (fun c => nth 0 c (gzero G2)) cols in
           let row1 := map (fun c => nth 1 c (gzero G2)) cols in
           firstn rw (basic_add G2 row0 row1)
    end.
Proof.
  destruct A as [|a [|a' r]].
  - apply (hom_mult_general [] Bv).
  - cbn [map]. rewrite map_app, !map_map. cbn [map]. rewrite hom_gzero. f_equal.
    apply map_ext. intro b. apply hom_mult_pp1.
  - apply (hom_mult_general (a :: a' :: r) Bv).
Qed.

Lemma hom_basic_mult A Bv : map h (basic_mult G1 A Bv) = basic_mult G2 (map h A) (map h Bv).
Proof.
  unfold basic_mult. rewrite map_length.
  destruct (Nat.eqb (length Bv) 1); apply hom_mult_core.
Qed.

End Hom.

(* ------------------------------------------------------------------ gexp -> bool *)

Section Link.
Variable nl : netlist.
Variable bv : wid -> nat -> bool.

Local Notation ev := (geval bv).

Lemma ev_wbits a : map ev (wbits nl a) = vbits nl bv a.
Proof. unfold wbits, vbits. rewrite map_map. reflexivity. Qed.

Lemma opt_list_hom (l : list (option gexp)) :
  map ev (opt_list l (GConst false)) = opt_list (map (option_map ev) l) false.
Proof.
  unfold opt_list. rewrite !map_map. apply map_ext. intros [x|]; reflexivity.
Qed.

Ltac disch := intros; reflexivity.

Lemma ev_decompose1 o x : option_map ev (g_decompose1 ealg o x) = g_decompose1 balg o (ev x).
Proof. apply hom_decompose1; disch. Qed.
Lemma ev_decompose2 o x y : option_map ev (g_decompose2 ealg o x y) = g_decompose2 balg o (ev x) (ev y).
Proof. apply hom_decompose2; disch. Qed.
Lemma ev_fit k l : map ev (fit ealg k l) = fit balg k (map ev l).
Proof. apply hom_fit; disch. Qed.
Lemma ev_basic_add a b : map ev (basic_add ealg a b) = basic_add balg (map ev a) (map ev b).
Proof. apply hom_basic_add; disch. Qed.
Lemma ev_basic_sub a b : map ev (basic_sub ealg a b) = basic_sub balg (map ev a) (map ev b).
Proof. apply hom_basic_sub; disch. Qed.
Lemma ev_basic_mult a b : map ev (basic_mult ealg a b) = basic_mult balg (map ev a) (map ev b).
Proof. apply hom_basic_mult; disch. Qed.
Lemma ev_basic_lt a b : map ev (basic_lt ealg a b) = basic_lt balg (map ev a) (map ev b).
Proof. apply hom_basic_lt; disch. Qed.
Lemma ev_basic_gt a b : map ev (basic_gt ealg a b) = basic_gt balg (map ev a) (map ev b).
Proof. apply hom_basic_gt; disch. Qed.
Lemma ev_basic_eq a b : map ev (basic_eq ealg a b) = basic_eq balg (map ev a) (map ev b).
Proof. apply hom_basic_eq; disch. Qed.
Lemma ev_basic_select s a b :
  map ev (basic_select ealg s a b) = basic_select balg (ev s) (map ev a) (map ev b).
Proof. apply hom_basic_select; disch. Qed.

Lemma ev_map2_decompose o a : forall b,
  map (option_map ev) (map2 (g_decompose2 ealg o) a b) = map2 (g_decompose2 balg o) (map ev a) (map ev b).
Proof.
  induction a as [|x ta IH]; intros [|y tb]; cbn [map2 map]; try reflexivity.
  rewrite ev_decompose2, IH. reflexivity.
Qed.

(* every gate expression synthesize emits for a combinational net evaluates to
   the corresponding bit of the executable semantics *)
Theorem lower_structure n : map ev (lower nl n) = lower_val nl bv n.
Proof.
  unfold lower, lower_val.
  destruct (nop n) eqn:Eop; try reflexivity;
    rewrite ?ev_fit, ?ev_basic_add, ?ev_basic_sub, ?ev_basic_mult, ?ev_basic_lt, ?ev_basic_gt,
            ?ev_basic_eq, ?ev_basic_select, ?ev_wbits; try reflexivity.
  - rewrite <- firstn_map, opt_list_hom, map_map.
    rewrite (map_ext _ _ (ev_decompose1 OpW)), <- map_map, ev_wbits. reflexivity.
  - rewrite <- firstn_map, opt_list_hom, map_map.
    rewrite (map_ext _ _ (ev_decompose1 OpNot)), <- map_map, ev_wbits. reflexivity.
  - rewrite <- firstn_map, opt_list_hom, ev_map2_decompose, !ev_wbits. reflexivity.
  - rewrite <- firstn_map, opt_list_hom, ev_map2_decompose, !ev_wbits. reflexivity.
  - rewrite <- firstn_map, opt_list_hom, ev_map2_decompose, !ev_wbits. reflexivity.
  - rewrite <- firstn_map, opt_list_hom, ev_map2_decompose, !ev_wbits. reflexivity.
  - (* concat *)
    rewrite <- firstn_map. f_equal.
    induction (rev (nargs n)) as [|a r IH]; cbn [flat_map map]; [reflexivity|].
    rewrite map_app, ev_wbits, IH. reflexivity.
  - (* select *)
    rewrite <- firstn_map, map_map. reflexivity.
Qed.

End Link.

(* ------------------------------------------------------------------ the emitted block *)

(* Semantics of the block `synth nl` as DATA: the list of per-net gate groups
   (GAssign: gate expressions per destination bit; GReg: 1-bit registers;
   GMemRd/GMemWr: memory ports with re-assembled address/data). *)
Section Emitted.
Variable nl : netlist.

Definition gnet_exec (st : gstate) (bv : wid -> nat -> bool) (g : gnet) : wid -> nat -> bool :=
  match g with
  | GAssign w bits => updbits bv w (map (geval bv) bits)
  | GMemRd m w n a na => updbits bv w (of_Z n (gmem_read nl (gmems st) m (bits_val bv a na)))
  | _ => bv
  end.

Definition gnet_write (bv : wid -> nat -> bool) (ms : Z -> Z -> Z) (g : gnet) : Z -> Z -> Z :=
  match g with
  | GMemWr m a na d nd en =>
      if bv en O then upd ms m (upd (ms m) (bits_val bv a na) (bits_val bv d nd)) else ms
  | _ => ms
  end.

Definition gnet_regnext (bv : wid -> nat -> bool) (rg : wid -> nat -> bool) (g : gnet)
  : wid -> nat -> bool :=
  match g with
  | GReg w n src => fun w' i => if (w' =? w) && Nat.ltb i n then bv src i else rg w' i
  | _ => rg
  end.

Definition gnet_step (gs : list gnet) (st : gstate) (ins : wid -> Z) : (wid -> nat -> bool) * gstate :=
  let bv := fold_left (gnet_exec st) gs (gbase nl st ins) in
  (bv, {| gregs := fold_left (gnet_regnext bv) gs (gregs st);
          gmems := fold_left (gnet_write bv) gs (gmems st) |}).

Fixpoint gnet_run (gs : list gnet) (st : gstate) (inss : list (wid -> Z))
  : list (wid -> nat -> bool) * gstate :=
  match inss with
  | [] => ([], st)
  | ins :: rest =>
      let '(bv, st') := gnet_step gs st ins in
      let '(bvs, st'') := gnet_run gs st' rest in
      (bv :: bvs, st'')
  end.

Lemma fold_left_map_ext {A X Y} (f : A -> Y -> A) (g : A -> X -> A) (k : X -> Y) l :
  (forall a x, f a (k x) = g a x) -> forall a, fold_left f (map k l) a = fold_left g l a.
Proof.
  intro H. induction l as [|x r IH]; intro a; cbn [map fold_left]; [reflexivity|].
  rewrite H. apply IH.
Qed.

Lemma exec_structure st bv n : gnet_exec st bv (synth_net nl n) = gexec nl st bv n.
Proof.
  unfold synth_net, gexec. destruct (nop n); cbn [gnet_exec]; rewrite ?lower_structure; reflexivity.
Qed.

Lemma write_structure bv ms n : gnet_write bv ms (synth_net nl n) = gwrite nl bv ms n.
Proof. unfold synth_net, gwrite. destruct (nop n); reflexivity. Qed.

Lemma regnext_structure bv rg n : gnet_regnext bv rg (synth_net nl n) = gregnext nl bv rg n.
Proof. unfold synth_net, gregnext. destruct (nop n); reflexivity. Qed.

Theorem step_structure st ins : gnet_step (synth nl) st ins = gstep nl st ins.
Proof.
  unfold gnet_step, gstep, synth.
  rewrite (fold_left_map_ext _ (gexec nl st) _ _ (exec_structure st)).
  rewrite (fold_left_map_ext _ _ _ _ (regnext_structure _)).
  rewrite (fold_left_map_ext _ _ _ _ (write_structure _)). reflexivity.
Qed.

(* running the emitted gate groups = the executable semantics used by the harness *)
Theorem run_structure inss : forall st, gnet_run (synth nl) st inss = grun nl st inss.
Proof.
  induction inss as [|ins rest IH]; intro st; cbn [gnet_run grun]; [reflexivity|].
  rewrite step_structure. destruct (gstep nl st ins) as [bv st']. rewrite IH. reflexivity.
Qed.

(* C03 shape, model side: by construction (the types gnet / gexp) `synth nl`
   contains only single-bit ~ & | ^ nand gates over wire bits and constants,
   single-bit registers and memory ports; stated as the exhaustive case split *)
Theorem synth_shape n :
  match synth_net nl n with
  | GAssign w bits => w = ndest n /\ bits = lower nl n
  | GReg w k src => nop n = OpReg /\ w = ndest n /\ k = wnat nl (ndest n)
  | GMemRd m w k a na => nop n = OpMemRd m /\ na = wnat nl a
  | GMemWr m a na d nd en => nop n = OpMemWr m /\ na = wnat nl a /\ nd = wnat nl d
  end.
Proof. unfold synth_net. destruct (nop n); repeat split; reflexivity. Qed.

End Emitted.
