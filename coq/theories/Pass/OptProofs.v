(* C04 -- semantic justification of the rewriting steps of optimize():
     * cse_key_sound        equal CSE keys => equal values under every valuation
     * w_net_identity / full_slice_identity   `w` nets and full-width selects are identities
     * dead_step / dead_run nets whose destinations nobody (kept) reads can be removed
                            without changing any other wire on any cycle
   all over the reference semantics Sem.op_spec / comb / step / run. *)
From PyRTL Require Import Netlist.Sem Netlist.WFDefs Gen.ConstFold Pass.Opt Pass.OptFoldProofs.
From Coq Require Import ZifyBool.

Local Open Scope Z_scope.

(* ------------------------------------------------------------------ CSE keys *)

Lemma list_Z_eqb_eq a : forall b, list_Z_eqb a b = true -> a = b.
Proof.
  induction a as [|x a IH]; intros [|y b] H; simpl in H; try discriminate; [reflexivity|].
  apply andb_true_iff in H. destruct H as [H1 H2]. f_equal; [lia|apply IH; assumption].
Qed.

Lemma op_eqb_eq a b : op_eqb a b = true -> a = b.
Proof.
  destruct a, b; simpl; intros H; try discriminate; try reflexivity.
  - apply list_Z_eqb_eq in H. subst. reflexivity.
  - f_equal. lia.
  - f_equal. lia.
Qed.

Lemma karg_eqb_eq a b : karg_eqb a b = true -> a = b.
Proof.
  destruct a, b; simpl; intros H; try discriminate.
  - f_equal. lia.
  - apply andb_true_iff in H. destruct H. f_equal; lia.
Qed.

Lemma kargs_eqb_eq a : forall b, kargs_eqb a b = true -> a = b.
Proof.
  induction a as [|x a IH]; intros [|y b] H; simpl in H; try discriminate; [reflexivity|].
  apply andb_true_iff in H. destruct H as [H1 H2]. f_equal; [apply karg_eqb_eq|apply IH]; assumption.
Qed.

Section CSE.
Variable nl : netlist.

(* the value (and width) a key argument denotes under a valuation *)
Definition karg_val (v : wid -> Z) (k : karg) : Z * Z :=
  match k with
  | KW w => (v w, width_of nl w)
  | KC wd c => (c, wd)
  end.

Lemma karg_of_val v w : respects_consts nl v ->
  karg_val v (karg_of nl w) = (v w, width_of nl w).
Proof.
  intros Hc. unfold karg_of. destruct (kind_of nl w) eqn:E; try reflexivity.
  simpl. rewrite (Hc w v0 E). reflexivity.
Qed.

Lemma argvals_kargs v n : respects_consts nl v ->
  argvals nl v n = map (karg_val v) (map (karg_of nl) (nargs n)).
Proof.
  intros Hc. unfold argvals. rewrite map_map. apply map_ext. intros a.
  symmetry. apply karg_of_val. assumption.
Qed.

Lemma kinsert_length a l : length (kinsert a l) = S (length l).
Proof. induction l as [|b r IH]; simpl; [reflexivity|]. destruct (karg_leb a b); simpl; lia. Qed.

Lemma ksort_length l : length (ksort l) = length l.
Proof. induction l as [|a r IH]; simpl; [reflexivity|]. rewrite kinsert_length. lia. Qed.

(* Sorting the arguments does not change the value -- exactly for the ops that
   are NOT in ops_where_arg_order_matters.  Each remaining binary op needs its
   own commutativity fact; a non-commutative op leaving the string leaves an
   unprovable goal here. *)
Ltac comm_op :=
  cbn [op_spec];
  first [ reflexivity
        | f_equal;
          first [ apply Z.land_comm | apply Z.lor_comm | apply Z.lxor_comm
                | apply Z.add_comm | apply Z.mul_comm
                | rewrite Z.land_comm, Z.max_comm; reflexivity
                | rewrite Z.eqb_sym; reflexivity ] ].

Lemma op_spec_sorted v o l : ops_where_arg_order_matters o = false ->
  op_spec o (map (karg_val v) (ksort l)) = op_spec o (map (karg_val v) l).
Proof.
  intros Hord.
  destruct l as [|a [|b [|c r]]].
  - reflexivity.
  - reflexivity.
  - (* two arguments: sorted order is either the given one or the swap *)
    cbn [ksort fold_right kinsert]. destruct (karg_leb a b); [reflexivity|].
    cbn [map]. destruct (karg_val v a) as [x wx], (karg_val v b) as [y wy].
    destruct o; try discriminate Hord; comm_op.
  - (* three or more: no order-insensitive op takes that many arguments *)
    pose proof (ksort_length (a :: b :: c :: r)) as Hlen.
    destruct (ksort (a :: b :: c :: r)) as [|a' [|b' [|c' r']]]; try discriminate Hlen.
    cbn [map]. destruct (karg_val v a), (karg_val v b), (karg_val v a'), (karg_val v b').
    destruct o; try discriminate Hord; reflexivity.
Qed.

(* the value a combinational net computes, before reduction to its destination *)
Definition net_value (st : state) (v : wid -> Z) (n : net) : option Z :=
  match nop n with
  | OpReg | OpMemWr _ => None
  | OpMemRd m => Some (mem_read nl st m (v (arg n 0)))
  | o => op_spec o (argvals nl v n)
  end.

Lemma arg0_argvals v n : v (arg n 0) = nth 0 (map fst (argvals nl v n)) (v 0).
Proof.
  unfold arg, argvals. rewrite map_map. simpl. symmetry.
  exact (map_nth v (nargs n) 0 0).
Qed.

Definition cse_key_sound_stmt : Prop :=
  forall n1 n2 st v, respects_consts nl v ->
    key_eqb (cse_key nl n1) (cse_key nl n2) = true ->
    nop n1 = nop n2 /\ net_value st v n1 = net_value st v n2.

Theorem cse_key_sound : cse_key_sound_stmt.
Proof.
  intros n1 n2 st v Hc Hk. unfold key_eqb, cse_key in Hk. cbn [fst snd] in Hk.
  apply andb_true_iff in Hk. destruct Hk as [Hop Hargs].
  apply op_eqb_eq in Hop. apply kargs_eqb_eq in Hargs. rewrite <- Hop in Hargs.
  split; [assumption|].
  assert (Hav : forall o, o = nop n1 -> (o = OpConcat \/ True) ->
            op_spec o (argvals nl v n1) = op_spec o (argvals nl v n2)
            /\ (ops_where_arg_order_matters o = true -> argvals nl v n1 = argvals nl v n2)).
  { intros o -> _. rewrite !argvals_kargs by assumption.
    destruct (ops_where_arg_order_matters (nop n1)) eqn:Hord.
    - rewrite Hargs. split; reflexivity.
    - split; [|discriminate].
      rewrite <- (op_spec_sorted v (nop n1) (map (karg_of nl) (nargs n1)) Hord).
      rewrite <- (op_spec_sorted v (nop n1) (map (karg_of nl) (nargs n2)) Hord).
      rewrite Hargs. reflexivity. }
  destruct (Hav (nop n1) eq_refl (or_intror I)) as [Hspec Hsame].
  unfold net_value. rewrite <- Hop.
  destruct (nop n1) eqn:Eop; try exact Hspec; try reflexivity.
  (* memory read: same memory (part of the op), same address *)
  f_equal. f_equal. rewrite !arg0_argvals. rewrite Hsame; [reflexivity|].
  (* 'm' is in ops_where_arg_order_matters *)
  reflexivity.
Qed.

(* consequence: two nets with equal keys and equally wide destinations drive
   their destinations to the same value, so one destination can stand for both *)
Corollary cse_merge_sound n1 n2 st v : respects_consts nl v ->
  key_eqb (cse_key nl n1) (cse_key nl n2) = true ->
  is_comb (nop n1) = true ->
  width_of nl (ndest n1) = width_of nl (ndest n2) ->
  forall r, net_value st v n1 = Some r ->
  exec_spec nl st v n1 (ndest n1) = exec_spec nl st v n2 (ndest n2).
Proof.
  intros Hc Hk Hcomb Hw r Hr.
  destruct (cse_key_sound n1 n2 st v Hc Hk) as [Hop Hv].
  rewrite Hr in Hv. symmetry in Hv.
  unfold exec_spec. unfold net_value in Hr, Hv. rewrite <- Hop in *.
  destruct (nop n1) eqn:Eop; try discriminate Hcomb;
    try (rewrite Hr, Hv, !upd_same, Hw; reflexivity).
  injection Hr as Hr. injection Hv as Hv. rewrite !upd_same, Hr, Hv, Hw. reflexivity.
Qed.

End CSE.

(* -------------------------------------------- `w` nets and full-width selects *)

Lemma w_net_identity x w : op_spec OpW [(x, w)] = Some x.
Proof. reflexivity. Qed.

Lemma select_range x : forall k lo, 0 <= lo ->
  select_spec x (zrange_from lo k) = (x / 2 ^ lo) mod 2 ^ Z.of_nat k.
Proof.
  induction k as [|k IH]; intros lo Hlo.
  - simpl. rewrite Z.mod_1_r. reflexivity.
  - cbn [zrange_from select_spec fold_right]. fold (select_spec x (zrange_from (lo + 1) k)).
    rewrite IH by lia. rewrite Z.testbit_spec' by assumption.
    rewrite Nat2Z.inj_succ, Z.pow_succ_r by lia.
    rewrite Z.rem_mul_r by (try apply Z.pow_pos_nonneg; lia).
    replace (x / 2 ^ (lo + 1)) with (x / 2 ^ lo / 2); [reflexivity|].
    rewrite Z.pow_add_r by lia. rewrite Z.div_div by (try apply Z.pow_pos_nonneg; lia).
    reflexivity.
Qed.

Lemma zrange_from_In lo k j : (j < k)%nat -> In (lo + Z.of_nat j) (zrange_from lo k).
Proof.
  revert lo j. induction k as [|k IH]; intros lo j Hj; [lia|].
  simpl. destruct j as [|j]; [left; lia|]. right.
  replace (lo + Z.of_nat (S j)) with (lo + 1 + Z.of_nat j) by lia. apply IH. lia.
Qed.

Lemma zrange_from_length lo k : length (zrange_from lo k) = k.
Proof. revert lo. induction k; intros; simpl; auto. Qed.

(* A select whose index list is range(lo, hi+1), whose source and destination
   have the same width w, whose indices are all inside the source (sanity_check)
   and whose destination is not wider than the index list (sanity_check) copies
   its source. *)
Theorem full_slice_identity nl n idx x :
  nop n = OpSelect idx -> is_full_slice nl n = true ->
  (forall i, In i idx -> 0 <= i < width_of nl (arg n 0)) ->
  width_of nl (ndest n) <= Z.of_nat (length idx) ->
  inrange x (width_of nl (arg n 0)) ->
  select_spec x idx mod 2 ^ width_of nl (ndest n) = x.
Proof.
  intros Eop Hfull Hidx Hlen Hx. unfold is_full_slice in Hfull. rewrite Eop in Hfull.
  apply andb_true_iff in Hfull. destruct Hfull as [Hw Hr].
  assert (Hweq : width_of nl (arg n 0) = width_of nl (ndest n)) by lia.
  destruct idx as [|lo rest] eqn:Eidx; [discriminate|]. rewrite <- Eidx in *.
  set (k := Z.to_nat (last idx 0 + 1 - lo)) in *.
  apply list_Z_eqb_eq in Hr.
  assert (Hk : length idx = k) by (rewrite Hr at 1; apply zrange_from_length).
  assert (Hlo : 0 <= lo) by (apply (Hidx lo); rewrite Eidx; left; reflexivity).
  set (w := width_of nl (arg n 0)) in *.
  assert (Hwn : 0 <= w) by (apply (inrange_nonneg_w x); assumption).
  (* the last index lo + k - 1 is inside the source *)
  assert (Hkpos : (0 < k)%nat) by (rewrite <- Hk, Eidx; simpl; lia).
  assert (Hlast : lo + Z.of_nat (k - 1) < w).
  { apply (Hidx (lo + Z.of_nat (k - 1))). rewrite Hr. apply zrange_from_In. lia. }
  assert (Hlo0 : lo = 0) by lia. assert (Hkw : Z.of_nat k = w) by lia.
  rewrite Hr, select_range by lia. rewrite Hlo0, Z.pow_0_r, Z.div_1_r, Hkw, <- Hweq.
  rewrite Z.mod_mod by (apply Z.pow_nonzero; lia).
  apply Z.mod_small. exact Hx.
Qed.

(* --------------------------------------------------------------- dead nets *)

Section Dead.
Variable nl nl' : netlist.
Variable keep : net -> bool.
Variable D : wid -> Prop.            (* wires whose value may change / disappear *)
Variable dflt : Z.

Hypothesis Hnets : nets nl' = filter keep (nets nl).
Hypothesis Hmems : mems nl' = mems nl.
Hypothesis Hwires : forall w, ~ D w -> find_wire (wires nl') w = find_wire (wires nl) w.
Hypothesis Hzero : ~ D 0.
(* kept nets neither read nor write a dead wire *)
Hypothesis Hkept : forall n, In n (nets nl) -> keep n = true ->
  (forall a, In a (nargs n) -> ~ D a) /\ (op_has_dest (nop n) = true -> ~ D (ndest n)).
(* dropped nets write only dead wires, and no memory *)
Hypothesis Hdropped : forall n, In n (nets nl) -> keep n = false ->
  op_has_dest (nop n) = true /\ D (ndest n).

Definition agree (v v' : wid -> Z) : Prop := forall w, ~ D w -> v w = v' w.
Definition st_agree (st st' : state) : Prop :=
  agree (sregs st) (sregs st') /\ forall m a, smems st m a = smems st' m a.

Lemma width_same w : ~ D w -> width_of nl' w = width_of nl w.
Proof. intros H. unfold width_of. rewrite Hwires by assumption. reflexivity. Qed.

Lemma arg_not_dead n i : (forall a, In a (nargs n) -> ~ D a) -> ~ D (arg n i).
Proof.
  intros H. unfold arg. destruct (nth_in_or_default i (nargs n) 0) as [Hin | ->]; auto.
Qed.

Lemma base_agree st st' ins : st_agree st st' ->
  agree (base_val nl dflt st ins) (base_val nl' dflt st' ins).
Proof.
  intros [Hr _] w Hw. unfold base_val. rewrite Hwires by assumption.
  destruct (find_wire (wires nl) w) as [x|]; [|reflexivity].
  destruct (wkind x); try reflexivity. apply Hr. assumption.
Qed.

Lemma mem_read_same st st' m a : (forall m a, smems st m a = smems st' m a) ->
  mem_read nl' st' m a = mem_read nl st m a.
Proof.
  intros H. unfold mem_read. rewrite Hmems.
  destruct (find_mem (mems nl) m) as [mm|]; [destruct (mrom mm)|]; auto.
Qed.

Lemma argvals_same v v' n : agree v v' -> (forall a, In a (nargs n) -> ~ D a) ->
  argvals nl' v' n = argvals nl v n.
Proof.
  intros Ha Hn. unfold argvals. apply map_ext_in. intros a Hin.
  rewrite width_same by auto. rewrite (Ha a) by auto. reflexivity.
Qed.

Lemma upd_agree v v' k x : agree v v' -> agree (upd v k x) (upd v' k x).
Proof. intros Ha w Hw. unfold upd. destruct (w =? k); [reflexivity|apply Ha; assumption]. Qed.

Lemma exec_kept st st' v v' n : In n (nets nl) -> keep n = true ->
  (forall m a, smems st m a = smems st' m a) -> agree v v' ->
  agree (exec_spec nl st v n) (exec_spec nl' st' v' n).
Proof.
  intros Hin Hk Hm Ha. destruct (Hkept n Hin Hk) as [Hargs Hdest].
  unfold exec_spec. rewrite (argvals_same v v' n Ha Hargs).
  destruct (nop n) eqn:Eop; try assumption;
    try (rewrite width_same by (apply Hdest; reflexivity);
         destruct (op_spec _ _); [apply upd_agree|]; assumption).
  (* memory read *)
  rewrite width_same by (apply Hdest; reflexivity).
  rewrite (mem_read_same st st') by assumption.
  rewrite <- (Ha (arg n 0)) by (apply arg_not_dead; assumption).
  apply upd_agree. assumption.
Qed.

Lemma exec_dropped st v v' n : In n (nets nl) -> keep n = false ->
  agree v v' -> agree (exec_spec nl st v n) v'.
Proof.
  intros Hin Hk Ha. destruct (Hdropped n Hin Hk) as [_ Hd].
  assert (Hu : forall x, agree (upd v (ndest n) x) v').
  { intros x w Hw. unfold upd. destruct (w =? ndest n) eqn:E; [|apply Ha; assumption].
    exfalso. apply Hw. assert (w = ndest n) by lia. subst. assumption. }
  unfold exec_spec. destruct (nop n); try assumption; try apply Hu;
    destruct (op_spec _ _); try apply Hu; assumption.
Qed.

Lemma comb_agree st st' : (forall m a, smems st m a = smems st' m a) ->
  forall ns v v', incl ns (nets nl) -> agree v v' ->
  agree (fold_left (exec_spec nl st) ns v) (fold_left (exec_spec nl' st') (filter keep ns) v').
Proof.
  intros Hm. induction ns as [|n r IH]; intros v v' Hincl Ha; simpl; [assumption|].
  assert (Hin : In n (nets nl)) by (apply Hincl; left; reflexivity).
  assert (Hr : incl r (nets nl)) by (intros x Hx; apply Hincl; right; assumption).
  destruct (keep n) eqn:Hk; simpl.
  - apply IH; [assumption|]. apply exec_kept; assumption.
  - apply IH; [assumption|]. apply exec_dropped; assumption.
Qed.

Lemma regs_agree v v' : agree v v' ->
  forall ns rg rg', incl ns (nets nl) -> agree rg rg' ->
  agree (fold_left (regnext_spec nl v) ns rg) (fold_left (regnext_spec nl' v') (filter keep ns) rg').
Proof.
  intros Ha. induction ns as [|n r IH]; intros rg rg' Hincl Hr; simpl; [assumption|].
  assert (Hin : In n (nets nl)) by (apply Hincl; left; reflexivity).
  assert (Hrest : incl r (nets nl)) by (intros x Hx; apply Hincl; right; assumption).
  destruct (keep n) eqn:Hk; simpl; apply IH; try assumption.
  - destruct (Hkept n Hin Hk) as [Hargs Hdest].
    unfold regnext_spec. destruct (nop n) eqn:Eop; try assumption.
    rewrite width_same by (apply Hdest; reflexivity).
    rewrite <- (Ha (arg n 0)) by (apply arg_not_dead; assumption).
    apply upd_agree. assumption.
  - destruct (Hdropped n Hin Hk) as [_ Hd].
    unfold regnext_spec. destruct (nop n); try assumption.
    intros w Hw. unfold upd. destruct (w =? ndest n) eqn:E; [|apply Hr; assumption].
    exfalso. apply Hw. assert (w = ndest n) by lia. subst. assumption.
Qed.

Lemma mems_agree v v' : agree v v' ->
  forall ns ms ms', incl ns (nets nl) -> (forall m a, ms m a = ms' m a) ->
  forall m a, fold_left (write_spec v) ns ms m a
              = fold_left (write_spec v') (filter keep ns) ms' m a.
Proof.
  intros Ha. induction ns as [|n r IH]; intros ms ms' Hincl Hm; simpl; [assumption|].
  assert (Hin : In n (nets nl)) by (apply Hincl; left; reflexivity).
  assert (Hrest : incl r (nets nl)) by (intros x Hx; apply Hincl; right; assumption).
  destruct (keep n) eqn:Hk; simpl; apply IH; try assumption.
  - destruct (Hkept n Hin Hk) as [Hargs _].
    intros m a. unfold write_spec. destruct (nop n); try apply Hm.
    rewrite <- !(Ha (arg n _)) by (apply arg_not_dead; assumption).
    destruct (v (arg n 2) =? 0); [apply Hm|].
    unfold upd. destruct (m =? m0); [|apply Hm]. destruct (a =? v (arg n 0)); [reflexivity|apply Hm].
  - destruct (Hdropped n Hin Hk) as [Hd _].
    intros m a. unfold write_spec. destruct (nop n); try apply Hm. discriminate Hd.
Qed.

(* one cycle: every wire outside D has the same value, and the successor states agree *)
Theorem dead_step st st' ins : st_agree st st' ->
  agree (fst (step nl dflt st ins)) (fst (step nl' dflt st' ins))
  /\ st_agree (snd (step nl dflt st ins)) (snd (step nl' dflt st' ins)).
Proof.
  intros Hs. pose proof Hs as [Hr Hm]. unfold step, comb. cbn [fst snd]. rewrite Hnets.
  assert (Hv : agree (fold_left (exec_spec nl st) (nets nl) (base_val nl dflt st ins))
                     (fold_left (exec_spec nl' st') (filter keep (nets nl))
                                (base_val nl' dflt st' ins))).
  { apply comb_agree; [assumption|apply incl_refl|apply base_agree; assumption]. }
  split; [exact Hv|]. split; cbn [sregs smems].
  - apply regs_agree; [assumption|apply incl_refl|assumption].
  - apply mems_agree; [assumption|apply incl_refl|assumption].
Qed.

(* every cycle of every input sequence *)
Theorem dead_run : forall inss st st', st_agree st st' ->
  Forall2 agree (fst (run nl dflt st inss)) (fst (run nl' dflt st' inss)).
Proof.
  induction inss as [|ins rest IH]; intros st st' Hs; cbn [run]; [constructor|].
  destruct (dead_step st st' ins Hs) as [Hv Hs'].
  destruct (step nl dflt st ins) as [v st1]. destruct (step nl' dflt st' ins) as [v' st1'].
  cbn [fst snd] in Hv, Hs'. specialize (IH st1 st1' Hs').
  destruct (run nl dflt st1 rest) as [vs st2]. destruct (run nl' dflt st1' rest) as [vs' st2'].
  cbn [fst] in *. constructor; assumption.
Qed.

End Dead.
