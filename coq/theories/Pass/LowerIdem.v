(* C09 -- applying a pass a second time: nand_synth, and_inverter_synth,
   two_way_concat and direct_connect_outputs are idempotent (a netlist that meets
   the postcondition is left exactly as it is).  one_bit_selects and
   two_way_fanout are NOT idempotent in the code (every select is rewritten again;
   a buffer with two readers gets a tree again) -- for those the general
   preservation / postcondition theorems apply to the second run as to the first. *)
From PyRTL Require Import Pass.Lower Pass.LowerHyps Pass.RewriteSound Pass.GateSound Pass.LowerSound
  Pass.LowerPost Pass.LowerTheorems.
From PyRTL Require Import Gen.LowerRules Netlist.Sanity.
From Coq Require Import ZifyBool.

Lemma transform_none rl nl : forall ns next,
  (forall n, In n ns -> forall nx, rl nl nx n = None) -> transform rl nl next ns = (ns, []).
Proof.
  induction ns as [|n r IH]; intros next H; [reflexivity|]. cbn [transform].
  rewrite (H n (or_introl eq_refl) next). rewrite IH by (intros; apply H; right; assumption). reflexivity.
Qed.

Lemma apply_rule_id rl nl next :
  (forall n, In n (nets nl) -> forall nx, rl nl nx n = None) -> apply_rule_at next rl nl = nl.
Proof.
  intro H. unfold apply_rule_at. rewrite (transform_none rl nl (nets nl) next H). cbn [fst snd].
  rewrite app_nil_r. destruct nl; reflexivity.
Qed.

Lemma gate_rule_fixed keep rules nl : only_ops keep nl = true ->
  forall next, apply_rule_at next (gate_rule keep rules) nl = nl.
Proof.
  intros H next. apply apply_rule_id. intros n Hn nx. unfold only_ops in H. rewrite forallb_forall in H.
  unfold gate_rule. rewrite (H n Hn). reflexivity.
Qed.

Theorem nand_synth_idem nl : pre_nand_synth nl = true -> nand_synth (nand_synth nl) = nand_synth nl.
Proof. intro H. apply gate_rule_fixed. apply nand_synth_post. exact H. Qed.

Theorem and_inverter_synth_idem nl :
  pre_and_inverter_synth nl = true -> and_inverter_synth (and_inverter_synth nl) = and_inverter_synth nl.
Proof. intro H. apply gate_rule_fixed. apply and_inverter_synth_post. exact H. Qed.

Lemma two_way_concat_fixed nl : post_two_way_concat nl = true ->
  forall next, apply_rule_at next two_way_concat_rule nl = nl.
Proof.
  intros H next. apply apply_rule_id. intros n Hn nx. unfold post_two_way_concat in H.
  rewrite forallb_forall in H. specialize (H n Hn). unfold two_way_concat_rule.
  destruct (nop n); try reflexivity. destruct (nargs n) as [|a0 rest]; [reflexivity|].
  destruct (2 <? length (a0 :: rest))%nat eqn:E; [|reflexivity]. exfalso. lia.
Qed.

Theorem two_way_concat_idem nl : two_way_concat (two_way_concat nl) = two_way_concat nl.
Proof. apply two_way_concat_fixed. apply two_way_concat_post. Qed.

Lemma dco_fixed nl : post_direct_connect_outputs nl = true -> direct_connect_outputs nl = nl.
Proof.
  intro H. unfold direct_connect_outputs.
  assert (Hc : dco_changes dco_skips nl = false).
  { unfold dco_changes. unfold post_direct_connect_outputs in H. rewrite forallb_forall in H.
    destruct (existsb _ (nets nl)) eqn:E; [|reflexivity]. apply existsb_exists in E.
    destruct E as (n & Hn & Hs). specialize (H n Hn). destruct (dco_candidate dco_skips nl n); discriminate. }
  destruct (length (nets nl)); cbn [dco_iter]; [reflexivity|]. rewrite Hc. reflexivity.
Qed.

Theorem dco_idem nl : sanity_block nl = true ->
  direct_connect_outputs (direct_connect_outputs nl) = direct_connect_outputs nl.
Proof. intro H. apply dco_fixed. apply dco_post_sane. exact H. Qed.
