(* C09 -- pass ORDERINGS for the four rule-based passes: the per-net
   well-formedness every rule lemma needs ([lower_ok], decidable as [lower_okb])
   is re-established by every rule-based pass, so any sequence of them preserves
   behaviour. *)
From PyRTL Require Import Pass.Lower Pass.RewriteSound Pass.GateSound Pass.LowerSound Pass.LowerPost
  Pass.LowerTheorems.
From PyRTL Require Import Pass.LowerHyps.
From PyRTL Require Import Gen.LowerRules Netlist.Sanity.
From Coq Require Import ZifyBool.

Definition lower_net_ok (nl : netlist) (n : net) : Prop :=
  gate_net_ok nl n /\ (nop n = OpConcat -> width_of nl (ndest n) <= sumwidths nl (nargs n)).

Definition lower_ok (nl : netlist) : Prop :=
  widths_nonneg nl /\ Forall (lower_net_ok nl) (nets nl).

Lemma lower_okb_ok nl : lower_okb nl = true -> lower_ok nl.
Proof.
  unfold lower_okb. intro H. apply andb_true_iff in H. destruct H as [Hw Hn].
  split; [apply widths_nonneg_of_wires; exact Hw|].
  apply forallb_Forall in Hn. eapply Forall_impl; [|exact Hn].
  intros n Hb. unfold lower_net_okb in Hb. unfold lower_net_ok, gate_net_ok.
  destruct (nop n) eqn:Eo; try (split; [exact I|intro; discriminate]).
  1-4: (destruct (nargs n) as [|a [|b [|? ?]]]; try discriminate;
        split; [exists a, b; split; [reflexivity|lia]|intro; discriminate]).
  split; [exact I|intros _; lia].
Qed.

Lemma sane_lower_ok nl : sanity_block nl = true -> lower_ok nl.
Proof.
  intro H. pose proof (sane_widths_nonneg nl H) as Hnn. split; [exact Hnn|].
  destruct (sanity_block_parts nl H) as [Hn _]. eapply Forall_impl; [|exact Hn].
  intros n Hs. split; [apply sanity_gate_net_ok; assumption|].
  apply (sanity_concat_net_ok nl n Hnn Hs).
Qed.

(* kept nets stay fine in the extended netlist *)
Lemma lower_net_ok_stable B nl nl' n : 0 < B ->
  extends B nl nl' -> net_bounded B n -> lower_net_ok nl n -> lower_net_ok nl' n.
Proof.
  intros H0 [_ Hw] [Hd Ha] [Hg Hc]. split.
  - unfold gate_net_ok in *. destruct (nop n); try exact I;
      (destruct Hg as (a & b & Hargs & H1 & H2); exists a, b; split; [exact Hargs|];
       rewrite !Hw; [split; assumption| | |]; try assumption; apply Ha; rewrite Hargs; cbn; auto).
  - intro Ec. specialize (Hc Ec). rewrite (Hw _ Hd). unfold sumwidths in *.
    replace (map (width_of nl') (nargs n)) with (map (width_of nl) (nargs n)); [exact Hc|].
    apply map_ext_in. intros a Hin. symmetry. apply Hw. apply Ha. exact Hin.
Qed.

(* what each rule's replacement must satisfy *)
Definition repl_lower_ok (rl : rule) (nl : netlist) (B : Z) : Prop :=
  forall next n rn rw, B <= next -> 0 < B -> net_bounded B n -> widths_nonneg nl -> lower_net_ok nl n ->
    rl nl next n = Some (rn, rw) ->
    (forall x, In x rw -> 0 <= wwidth x)
    /\ forall nl', extends B nl nl' -> declares nl' rw -> Forall (lower_net_ok nl') rn.

Lemma trivial_lower_net_ok nl n :
  match nop n with OpAnd | OpOr | OpXor | OpNand | OpConcat => False | _ => True end ->
  lower_net_ok nl n.
Proof.
  intro H. split; [unfold gate_net_ok|]; destruct (nop n); try contradiction; try exact I; intro; discriminate.
Qed.

Lemma assign_lower_ok nl nl' next src srcw d :
  Forall (lower_net_ok nl') (fst (assign nl next src srcw d)).
Proof.
  unfold assign. destruct (width_of nl d <? srcw); cbn [fst];
    repeat constructor; apply trivial_lower_net_ok; exact I.
Qed.

Lemma assign_wires_nonneg nl next src srcw d : widths_nonneg nl ->
  forall x, In x (snd (assign nl next src srcw d)) -> 0 <= wwidth x.
Proof.
  intros Hnn x. unfold assign. destruct (width_of nl d <? srcw); cbn [snd]; [|intros []].
  intros [<-|[]]. cbn. apply Hnn.
Qed.

(* ---------- gate rules ---------- *)
Lemma lower_prog_lower_ok nl' n next w a b :
  nargs n = [a; b] -> width_of nl' a = w -> width_of nl' b = w -> 0 <= w ->
  forall p i, gprog_ok i p = true ->
    (forall k, (k < i + length p)%nat -> width_of nl' (next + Z.of_nat k) = w) ->
    Forall (lower_net_ok nl') (lower_prog n next i p).
Proof.
  intros Hargs Hwa Hwb Hw0. induction p as [|[o opds] r IH]; intros i Hok Hwd; cbn [lower_prog]; [constructor|].
  cbn [gprog_ok] in Hok. apply andb_true_iff in Hok. destruct Hok as [Hg Hr]. cbn [length] in Hwd.
  constructor.
  - assert (Hrw : forall od, opd_ok i od = true -> width_of nl' (resolve n next od) = w).
    { intros od Hod. apply (resolve_width nl' n next w a b Hargs Hwa Hwb i od w Hod); [|reflexivity].
      intros k Hk. apply Hwd. lia. }
    assert (Hdw : width_of nl' (next + Z.of_nat i) = w) by (apply Hwd; lia).
    unfold gins_ok in Hg.
    destruct o; try discriminate;
      destruct opds as [|x [|y [|? ?]]]; try discriminate.
    + apply trivial_lower_net_ok. exact I.
    + apply andb_true_iff in Hg. destruct Hg as [Hx Hy]. split; [|intro; discriminate].
      unfold gate_net_ok. cbn [nop nargs ndest map]. eexists _, _. split; [reflexivity|].
      rewrite (Hrw x Hx), (Hrw y Hy), Hdw. lia.
    + apply andb_true_iff in Hg. destruct Hg as [Hx Hy]. split; [|intro; discriminate].
      unfold gate_net_ok. cbn [nop nargs ndest map]. eexists _, _. split; [reflexivity|].
      rewrite (Hrw x Hx), (Hrw y Hy), Hdw. lia.
    + apply andb_true_iff in Hg. destruct Hg as [Hx Hy]. split; [|intro; discriminate].
      unfold gate_net_ok. cbn [nop nargs ndest map]. eexists _, _. split; [reflexivity|].
      rewrite (Hrw x Hx), (Hrw y Hy), Hdw. lia.
    + apply andb_true_iff in Hg. destruct Hg as [Hx Hy]. split; [|intro; discriminate].
      unfold gate_net_ok. cbn [nop nargs ndest map]. eexists _, _. split; [reflexivity|].
      rewrite (Hrw x Hx), (Hrw y Hy), Hdw. lia.
  - apply IH; [exact Hr|]. intros k Hk. apply Hwd. lia.
Qed.

Lemma gate_repl_lower_ok keep rules nl B : rules_ok rules = true ->
  repl_lower_ok (gate_rule keep rules) nl B.
Proof.
  intros Hok next n rn rw Hnext HB0 Hbn Hnn [HP _] E.
  unfold gate_rule in E. destruct (mem_in (op_code (nop n)) keep); [discriminate|].
  destruct (find_rule (op_code (nop n)) rules) as [r|] eqn:F; [|discriminate].
  destruct (rules_ok_find rules (nop n) r Hok F) as (Htgt & Hgr & _).
  unfold grule_ok in Hgr. apply andb_true_iff in Hgr. destruct Hgr as [Hpo _].
  unfold lower_gate in E. injection E as <- <-.
  assert (HPn : exists a b, nargs n = [a; b] /\ width_of nl a = width_of nl b
                            /\ 0 <= width_of nl (ndest n) <= width_of nl a).
  { unfold gate_net_ok in HP. destruct (nop n); try contradiction; exact HP. }
  destruct HPn as (a & b & Hargs & Hwab & Hwd).
  assert (Hw : width_of nl (arg n 0) = width_of nl a) by (unfold arg; rewrite Hargs; reflexivity).
  destruct Hbn as [Hd Hab].
  assert (Ha : a < B) by (apply Hab; rewrite Hargs; left; reflexivity).
  assert (Hb : b < B) by (apply Hab; rewrite Hargs; right; left; reflexivity).
  split.
  - intros x Hx. apply in_app_or in Hx. destruct Hx as [Hx|Hx].
    + unfold tmp_wires in Hx. apply in_map_iff in Hx. destruct Hx as (i & <- & _). cbn. rewrite Hw. lia.
    + apply (assign_wires_nonneg nl _ _ _ _ Hnn x Hx).
  - intros nl' [_ Hwx] Hdecl. apply declares_app in Hdecl. destruct Hdecl as [Hd1 _].
    apply Forall_app. split; [|apply assign_lower_ok].
    apply (lower_prog_lower_ok nl' n next (width_of nl a) a b Hargs (Hwx a Ha)
             (eq_trans (Hwx b Hb) (eq_sym Hwab)) ltac:(lia) (gprog r) 0%nat Hpo).
    intros k Hk. rewrite <- Hw.
    apply (Hd1 (mkWire (next + Z.of_nat k) (width_of nl (arg n 0)) KWire)). apply in_tmp_wires. exact Hk.
Qed.

(* ---------- two_way_concat ---------- *)
Lemma concat_chain_lower_ok B nl nl' : extends B nl nl' -> widths_nonneg nl ->
  forall rest next acc accw ns ws fin,
    concat_chain nl next acc accw rest = (ns, ws, fin) ->
    declares nl' ws -> width_of nl' acc = accw -> 0 <= accw ->
    (forall a, In a rest -> a < B) ->
    Forall (lower_net_ok nl') ns /\ (forall x, In x ws -> 0 <= wwidth x).
Proof.
  intros [_ Hwx] Hnn. induction rest as [|a r IH]; intros next acc accw ns ws fin E Hdecl Hacc Haccw Hr.
  - cbn in E. injection E as <- <- _. split; [constructor|intros x []].
  - cbn [concat_chain] in E.
    destruct (concat_chain nl (next + 1) next (accw + width_of nl a) r) as [[ns1 ws1] f1] eqn:E1.
    injection E as <- <- _.
    assert (Hwn : width_of nl' next = accw + width_of nl a).
    { apply (Hdecl (mkWire next (accw + width_of nl a) KWire)). left. reflexivity. }
    pose proof (Hnn a) as Hwa.
    destruct (IH (next + 1) next (accw + width_of nl a) ns1 ws1 f1 E1) as [H1 H2].
    + intros x Hx. apply Hdecl. right. exact Hx.
    + exact Hwn.
    + lia.
    + intros; apply Hr; right; assumption.
    + split.
      * constructor; [|exact H1]. split; [exact I|]. intros _. cbn [ndest nargs]. unfold sumwidths. cbn [map fold_right].
        rewrite Hwn, Hacc, (Hwx a (Hr a (or_introl eq_refl))). lia.
      * intros x [<-|Hx]; [cbn; lia|apply H2; exact Hx].
Qed.

Lemma concat_chain_wires_nonneg nl : widths_nonneg nl ->
  forall rest next acc accw ns ws fin, 0 <= accw ->
    concat_chain nl next acc accw rest = (ns, ws, fin) -> forall x, In x ws -> 0 <= wwidth x.
Proof.
  intro Hnn. induction rest as [|a r IH]; intros next acc accw ns ws fin Haccw Ec x Hx.
  - cbn in Ec. injection Ec as _ <- _. destruct Hx.
  - cbn [concat_chain] in Ec.
    destruct (concat_chain nl (next + 1) next (accw + width_of nl a) r) as [[ns1 ws1] f1] eqn:E1.
    injection Ec as _ <- _. pose proof (Hnn a). destruct Hx as [<-|Hx]; [cbn; lia|].
    apply (IH (next + 1) next (accw + width_of nl a) ns1 ws1 f1 ltac:(lia) E1 x Hx).
Qed.

Lemma concat_repl_lower_ok nl B : repl_lower_ok two_way_concat_rule nl B.
Proof.
  intros next n rn rw Hnext HB0 Hbn Hnn _ E.
  unfold two_way_concat_rule in E.
  destruct (nop n) eqn:Eop; try discriminate.
  destruct (nargs n) as [|a0 rest] eqn:Eargs; [discriminate|].
  destruct (2 <? length (a0 :: rest))%nat; [|discriminate].
  destruct (concat_chain nl next a0 (width_of nl a0) rest) as [[ns ws] [fin finw]] eqn:Ec.
  injection E as <- <-.
  destruct Hbn as [Hd Hab]. try rewrite Eargs in Hab.
  assert (Ha0 : a0 < B) by (apply Hab; left; reflexivity).
  assert (Hrest : forall a, In a rest -> a < B) by (intros; apply Hab; right; assumption).
  split.
  - intros x Hx. apply in_app_or in Hx. destruct Hx as [Hx|Hx]; [|apply (assign_wires_nonneg nl _ _ _ _ Hnn x Hx)].
    apply (concat_chain_wires_nonneg nl Hnn rest next a0 (width_of nl a0) ns ws (fin, finw) (Hnn a0) Ec x Hx).
  - intros nl' Hext Hdecl. apply declares_app in Hdecl. destruct Hdecl as [Hd1 _].
    apply Forall_app. split; [|apply assign_lower_ok].
    pose proof Hext as [_ Hwx].
    apply (concat_chain_lower_ok B nl nl' Hext Hnn rest next a0 (width_of nl a0) ns ws (fin, finw) Ec Hd1
             (Hwx a0 Ha0) (Hnn a0) Hrest).
Qed.

(* ---------- one_bit_selects ---------- *)
Lemma bit_selects_lower_ok nl' src : forall idx next, Forall (lower_net_ok nl') (bit_selects src next idx).
Proof.
  induction idx as [|i r IH]; intro next; cbn [bit_selects]; constructor; [|apply IH].
  apply trivial_lower_net_ok. exact I.
Qed.

Lemma sum_acc (l : list Z) c : fold_right Z.add c l = c + fold_right Z.add 0 l.
Proof. induction l as [|a r IH]; cbn; [lia|]. rewrite IH. lia. Qed.

Lemma sum_rev (l : list Z) : fold_right Z.add 0 (rev l) = fold_right Z.add 0 l.
Proof.
  induction l as [|a r IH]; [reflexivity|]. cbn [rev]. rewrite fold_right_app. cbn [fold_right].
  rewrite sum_acc, IH. lia.
Qed.

Lemma sum_ones nl' next k : (forall j, (j < k)%nat -> width_of nl' (next + Z.of_nat j) = 1) ->
  sumwidths nl' (rev (zrange next k)) = Z.of_nat k.
Proof.
  intro H. unfold sumwidths. rewrite map_rev, sum_rev.
  revert next H. induction k as [|k IH]; intros next H; [reflexivity|].
  cbn [zrange map fold_right]. rewrite IH.
  - specialize (H 0%nat ltac:(lia)). rewrite Z.add_0_r in H. rewrite H. lia.
  - intros j Hj. replace (next + 1 + Z.of_nat j) with (next + Z.of_nat (S j)) by lia. apply H. lia.
Qed.

Lemma select_repl_lower_ok nl B : repl_lower_ok one_bit_selects_rule nl B.
Proof.
  intros next n rn rw Hnext HB0 Hbn Hnn _ E.
  unfold one_bit_selects_rule in E.
  destruct (nop n) as [| | | | | | | | | | | | | |idx0| | |] eqn:Eop; try discriminate.
  destruct (nargs n) as [|src [|? ?]] eqn:Eargs; try discriminate.
  set (idx := firstn (Z.to_nat (width_of nl (ndest n))) idx0) in *.
  destruct (length idx) as [|[|k2]] eqn:Ek; [discriminate| |].
  - injection E as <- <-. split.
    + intros x [<-|Hx]; [cbn; lia|apply (assign_wires_nonneg nl _ _ _ _ Hnn x Hx)].
    + intros nl' _ _. apply Forall_app. split; [apply bit_selects_lower_ok|apply assign_lower_ok].
  - remember (S (S k2)) as k eqn:Hk. clear Hk k2. injection E as <- <-. split.
    + intros x Hx. apply in_app_or in Hx. destruct Hx as [Hx|[<-|Hx]].
      * unfold tmp_wires in Hx. apply in_map_iff in Hx. destruct Hx as (i & <- & _). cbn. lia.
      * cbn. lia.
      * apply (assign_wires_nonneg nl _ _ _ _ Hnn x Hx).
    + intros nl' _ Hdecl. apply declares_app in Hdecl. destruct Hdecl as [Hd1 Hd2].
      apply Forall_app. split; [apply bit_selects_lower_ok|].
      constructor; [|apply assign_lower_ok].
      split; [exact I|]. intros _. cbn [ndest nargs].
      pose proof (Hd2 (mkWire (next + Z.of_nat k) (Z.of_nat k) KWire) (or_introl eq_refl)) as Hc.
      cbn [wname wwidth] in Hc. rewrite Hc.
      rewrite sum_ones; [lia|].
      intros j Hj. apply (Hd1 (mkWire (next + Z.of_nat j) 1 KWire)). apply in_tmp_wires. exact Hj.
Qed.

(* ---------- a rule-based pass re-establishes lower_ok ---------- *)
Lemma find_wire_app_cases l1 l2 w x : find_wire (l1 ++ l2) w = Some x ->
  find_wire l1 w = Some x \/ (find_wire l1 w = None /\ In x l2).
Proof.
  induction l1 as [|y r IH]; cbn [app find_wire].
  - intro H. right. split; [reflexivity|]. induction l2 as [|z r2 IH2]; cbn in H; [discriminate|].
    destruct (wname z =? w); [injection H as ->; left; reflexivity|right; auto].
  - destruct (wname y =? w); [intro H; left; exact H|exact IH].
Qed.

Theorem apply_rule_lower_ok P rl nl :
  (forall B, rule_ok P rl nl B) -> (forall B, repl_lower_ok rl nl B) ->
  (forall n, lower_net_ok nl n -> widths_nonneg nl -> P n) ->
  lower_ok nl -> lower_ok (apply_rule rl nl).
Proof.
  intros Hrule Hrepl HPimp [Hnn Hnets].
  set (B := fresh nl). pose proof (fresh_pos nl) as HB0. fold B in HB0.
  assert (HP : Forall P (nets nl)).
  { eapply Forall_impl; [|exact Hnets]. intros n Hn. apply HPimp; assumption. }
  pose proof (nl'_extends P rl nl B B (Hrule B) HB0 (Z.le_refl _) (fresh_nets nl) HP) as Hext.
  pose proof (nl'_declares P rl nl B B (Hrule B) HB0 (Z.le_refl _) (fresh_wire nl) (fresh_nets nl) HP) as Hdecl.
  unfold apply_rule. fold B. set (nl' := apply_rule_at B rl nl) in *.
  (* the transformed nets and the fresh wires *)
  assert (Hgen : forall ns next, B <= next -> Forall (net_bounded B) ns -> Forall (lower_net_ok nl) ns ->
            declares nl' (snd (transform rl nl next ns)) ->
            Forall (lower_net_ok nl') (fst (transform rl nl next ns))
            /\ forall x, In x (snd (transform rl nl next ns)) -> 0 <= wwidth x).
  { induction ns as [|n r IH]; intros next Hnext Hb Hok Hd; [split; [constructor|intros x []]|].
    inversion Hb as [|? ? Hbn Hbr]; subst. inversion Hok as [|? ? Hokn Hokr]; subst.
    cbn [transform] in *. destruct (rl nl next n) as [[rn rw]|] eqn:E; cbn [fst snd] in *.
    - apply declares_app in Hd. destruct Hd as [Hd1 Hd2].
      destruct (Hrepl B next n rn rw Hnext HB0 Hbn Hnn Hokn E) as [Hw Hn].
      destruct (IH (next + Z.of_nat (length rw)) ltac:(lia) Hbr Hokr Hd2) as [IH1 IH2].
      split; [apply Forall_app; split; [apply Hn; assumption|exact IH1]|].
      intros x Hx. apply in_app_or in Hx. destruct Hx; auto.
    - destruct (IH next Hnext Hbr Hokr Hd) as [IH1 IH2].
      split; [constructor; [apply (lower_net_ok_stable B nl nl' n HB0 Hext Hbn Hokn)|exact IH1]|exact IH2]. }
  destruct (Hgen (nets nl) B (Z.le_refl _) (fresh_nets nl) Hnets Hdecl) as [G1 G2].
  split; [|exact G1].
  intro w. unfold width_of. destruct (find_wire (wires nl') w) as [x|] eqn:E; [|lia].
  unfold nl', apply_rule_at in E. cbn [wires] in E.
  apply find_wire_app_cases in E. destruct E as [E|[_ E]].
  - specialize (Hnn w). unfold width_of in Hnn. rewrite E in Hnn. exact Hnn.
  - apply G2. exact E.
Qed.

(* ---------- sequences of rule-based passes ---------- *)
Inductive rpass := PNand | PAig | PConcat | PSelect.

Definition run_rpass (p : rpass) (nl : netlist) : netlist :=
  match p with
  | PNand => nand_synth nl | PAig => and_inverter_synth nl
  | PConcat => two_way_concat nl | PSelect => one_bit_selects nl
  end.

Definition run_rpasses (ps : list rpass) (nl : netlist) : netlist :=
  fold_left (fun acc p => run_rpass p acc) ps nl.

Lemma rpass_lower_ok p nl : lower_ok nl -> lower_ok (run_rpass p nl).
Proof.
  intro H. destruct p; cbn [run_rpass].
  - apply (apply_rule_lower_ok (gate_net_ok nl) nand_rule nl); try exact H.
    + intro B. apply gate_rule_ok. exact nand_synth_rules_ok.
    + intro B. apply gate_repl_lower_ok. exact nand_synth_rules_ok.
    + intros n [Hg _] _. exact Hg.
  - apply (apply_rule_lower_ok (gate_net_ok nl) aig_rule nl); try exact H.
    + intro B. apply gate_rule_ok. exact and_inverter_synth_rules_ok.
    + intro B. apply gate_repl_lower_ok. exact and_inverter_synth_rules_ok.
    + intros n [Hg _] _. exact Hg.
  - apply (apply_rule_lower_ok (concat_net_ok nl) two_way_concat_rule nl); try exact H.
    + intro B. apply two_way_concat_rule_ok.
    + intro B. apply concat_repl_lower_ok.
    + intros n [_ Hc] Hnn. split; [exact Hnn|exact Hc].
  - apply (apply_rule_lower_ok (select_net_ok nl) one_bit_selects_rule nl); try exact H.
    + intro B. apply one_bit_selects_rule_ok.
    + intro B. apply select_repl_lower_ok.
    + intros n _ Hnn. exact Hnn.
Qed.

Lemma rpass_preserves p nl : lower_ok nl -> preserved nl (run_rpass p nl).
Proof.
  intros [Hnn Hn]. unfold preserved. destruct p; cbn [run_rpass].
  - apply nand_synth_preserves. eapply Forall_impl; [|exact Hn]. intros n [Hg _]. exact Hg.
  - apply and_inverter_synth_preserves. eapply Forall_impl; [|exact Hn]. intros n [Hg _]. exact Hg.
  - apply two_way_concat_preserves. eapply Forall_impl; [|exact Hn]. intros n [_ Hc]. split; [exact Hnn|exact Hc].
  - apply one_bit_selects_preserves. apply Forall_forall. intros n _. exact Hnn.
Qed.

Lemma rpass_wires p nl x : In x (wires nl) -> In x (wires (run_rpass p nl)).
Proof.
  intro H. destruct p; cbn [run_rpass]; unfold nand_synth, and_inverter_synth, two_way_concat, one_bit_selects,
    apply_rule, apply_rule_at; cbn [wires]; apply in_or_app; left; exact H.
Qed.

Lemma Forall2_trans {A} (R S T : A -> A -> Prop) l1 l2 l3 :
  (forall a b c, R a b -> S b c -> T a c) -> Forall2 R l1 l2 -> Forall2 S l2 l3 -> Forall2 T l1 l3.
Proof.
  intros H F1. revert l3. induction F1; intros l3 F2; inversion F2; subst; constructor; eauto.
Qed.

Lemma st_eq_trans s1 s2 s3 : st_eq s1 s2 -> st_eq s2 s3 -> st_eq s1 s3.
Proof. intros [A1 A2] [B1 B2]. split; intros; [rewrite A1|rewrite A2]; auto. Qed.

Lemma preserved_trans nl1 nl2 nl3 :
  (forall x, In x (wires nl1) -> In x (wires nl2)) ->
  preserved nl1 nl2 -> preserved nl2 nl3 -> preserved nl1 nl3.
Proof.
  intros Hsub H12 H23 dflt st inss. destruct (H12 dflt st inss) as [A1 A2]. destruct (H23 dflt st inss) as [B1 B2].
  split; [|eapply st_eq_trans; eassumption].
  eapply Forall2_trans; [|exact A1|exact B1].
  intros a b c Hab Hbc x Hx. rewrite (Hab x Hx). apply Hbc. apply Hsub. exact Hx.
Qed.

Lemma preserved_refl nl : preserved nl nl.
Proof.
  intros dflt st inss. split; [|apply st_eq_refl].
  induction (fst (run nl dflt st inss)); constructor; auto. intros x _. reflexivity.
Qed.

(* every ordering, every length *)
Theorem rule_pass_sequences_preserve : forall ps nl,
  lower_ok nl -> preserved nl (run_rpasses ps nl) /\ lower_ok (run_rpasses ps nl).
Proof.
  induction ps as [|p r IH]; intros nl H; unfold run_rpasses; cbn [fold_left].
  - split; [apply preserved_refl|exact H].
  - destruct (IH (run_rpass p nl) (rpass_lower_ok p nl H)) as [I1 I2]. split; [|exact I2].
    eapply preserved_trans; [apply rpass_wires|apply rpass_preserves; exact H|exact I1].
Qed.

Theorem rule_pass_sequences_preserve_b : forall ps nl,
  lower_okb nl = true -> preserved nl (run_rpasses ps nl).
Proof. intros ps nl H. apply rule_pass_sequences_preserve. apply lower_okb_ok. exact H. Qed.

Theorem rule_pass_sequences_preserve_sane : forall ps nl,
  sanity_block nl = true -> preserved nl (run_rpasses ps nl).
Proof. intros ps nl H. apply rule_pass_sequences_preserve. apply sane_lower_ok. exact H. Qed.
