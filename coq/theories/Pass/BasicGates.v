(* Gate-level generators used by synthesize (the _basic_xxx functions of pyrtl/corecircuits.py):
   definitions only, no proofs.

   A WireVector of bitwidth n is the list of its n one-bit wires, index 0 = least
   significant bit.  The generators are polymorphic in a gate algebra
   (`galg` in Gen/SynthGates.v): at `bool` they compute values, at gate expressions
   (Pass/Synth.v) they build the circuit.  Every *expression* of the Python code
   (sum/carry of _one_bit_add, carry-in literal, `~b`, the top bit handed to
   concat(...) in _basic_add/_basic_sub, the _basic_lt/_basic_select/_basic_eq
   formulas, full/half adders of _basic_mult) is regenerated from /repo on every
   run (Gen/SynthGates.v); the control skeleton written here is guarded by the
   textual gate in py/genfrag_C03.py and tied behaviourally by py/checks/C03.py. *)
From PyRTL Require Export Base.PyZ Netlist.Syntax Gen.SynthGates.

(* unsigned value of a bit list *)
Fixpoint to_Z (l : list bool) : Z :=
  match l with [] => 0 | b :: t => b2z b + 2 * to_Z t end.

(* the n low bits of z *)
Fixpoint of_Z (n : nat) (z : Z) : list bool :=
  match n with O => [] | S k => Z.odd z :: of_Z k (Z.div2 z) end.

Fixpoint map2 {A B C} (f : A -> B -> C) (a : list A) (b : list B) : list C :=
  match a, b with x :: ta, y :: tb => f x y :: map2 f ta tb | _, _ => [] end.

Section Generators.
Context {B : Type} (G : galg B).

Definition gzero : B := bconst G false.

(* WireVector.zero_extended *)
Definition zext (n : nat) (l : list B) : list B := l ++ repeat gzero (n - length l).

(* match_bitwidth(a, b) (unsigned) *)
Definition match_bw (a b : list B) : list B * list B :=
  let n := Nat.max (length a) (length b) in (zext n a, zext n b).

(* `dest <<= v`: truncate, or zero-extend, to the destination width *)
Definition fit (n : nat) (l : list B) : list B := firstn n (l ++ repeat gzero (n - length l)).

(* _add_helper on equal-length vectors: one _one_bit_add per bit, LSB first,
   ripple carry; returns (sumbits, carry_out).  (The code's base case is len 1
   and it recurses on a[1:], b[1:]; for n >= 1 that is this recursion.) *)
Fixpoint ripple (a b : list B) (cin : B) : list B * B :=
  match a, b with
  | x :: ta, y :: tb =>
      let s := g_oba_sum G x y cin in
      let c := g_oba_carry G x y cin in
      let '(ms, co) := ripple ta tb c in (s :: ms, co)
  | _, _ => ([], cin)
  end.

Definition add_helper (a b : list B) (cin : B) : list B * B :=
  let '(a', b') := match_bw a b in ripple a' b' cin.

(* _basic_add: concat(<top>(carry_out), sumbits) of _add_helper(a, <arg_b>(b), <cin>) *)
Definition basic_add (a b : list B) : list B :=
  let '(s, c) := add_helper a (map (g_add_arg_b G) b) (bconst G g_add_cin) in
  s ++ [g_add_top G c].

(* _basic_sub: same shape; `~b` complements b at b's own width *)
Definition basic_sub (a b : list B) : list B :=
  let '(s, c) := add_helper a (map (g_sub_arg_b G) b) (bconst G g_sub_cin) in
  s ++ [g_sub_top G c].

(* tree_reduce(op, vector): balanced split at len // 2 *)
Fixpoint tree_reduce (fuel : nat) (op : B -> B -> B) (l : list B) : B :=
  match l with
  | [] => gzero
  | [x] => x
  | _ => match fuel with
         | O => gzero
         | S f => let h := Nat.div2 (length l) in
                  op (tree_reduce f op (firstn h l)) (tree_reduce f op (skipn h l))
         end
  end.

Definition or_all_bits (l : list B) : B := tree_reduce (length l) (bor G) l.

(* _basic_eq: <post>(or_all_bits(<bit>(a, b))) *)
Definition basic_eq (a b : list B) : list B :=
  let '(a', b') := match_bw a b in
  [g_eq_post G (or_all_bits (map2 (g_eq_bit G) a' b'))].

(* _basic_lt: lt(a[:k+1], b[:k+1]) = step(a[k], b[k], lt(a[:k], b[:k])),
   lt(a[:1], b[:1]) = base(a[0], b[0]).  The code recurses from the msb down
   (small = _basic_lt(a[:-1], b[:-1])); unrolled from the lsb up it is this
   accumulation and builds the identical gates. *)
Fixpoint lt_from (acc : B) (a b : list B) : B :=
  match a, b with
  | x :: ta, y :: tb => lt_from (g_lt_step G x y acc) ta tb
  | _, _ => acc
  end.

Definition basic_lt (a b : list B) : list B :=
  match a, b with
  | x :: ta, y :: tb => [lt_from (g_lt_base G x y) ta tb]
  | _, _ => [gzero]
  end.

Definition basic_gt (a b : list B) : list B :=
  if g_gt_swaps then basic_lt b a else basic_lt a b.

(* _basic_select(s, a, b): per bit (a & ~s) | (b & s) *)
Definition basic_select (s : B) (a b : list B) : list B :=
  map2 (g_select_bit G s) a b.

(* ---- _basic_mult: Wallace reduction ---- *)

(* bits[k].append(x) *)
Fixpoint add_at (k : nat) (x : B) (cols : list (list B)) : list (list B) :=
  match cols with
  | [] => []
  | c :: r => match k with O => (c ++ [x]) :: r | S k' => c :: add_at k' x r end
  end.

Fixpoint pp_row (i : nat) (a : B) (j : nat) (bs : list B) (cols : list (list B)) :=
  match bs with
  | [] => cols
  | b :: r => pp_row i a (S j) r (add_at (i + j) (g_mult_pp G a b) cols)
  end.

Fixpoint pp_all (i : nat) (as_ bs : list B) (cols : list (list B)) :=
  match as_ with
  | [] => cols
  | a :: r => pp_all (S i) r bs (pp_row i a 0 bs cols)
  end.

(* one column of one pass: full adders while >= 3 wires remain, a half adder if
   exactly 2 remain, else pass the remaining wire through;
   returns (wires staying at this weight, carries to the next weight) *)
Fixpoint col3 (w : list B) : list B * list B :=
  match w with
  | a :: b :: c :: r =>
      let '(s, k) := col3 r in (g_mult_fa_sum G a b c :: s, g_mult_fa_carry G a b c :: k)
  | [a; b] => ([g_mult_ha_sum G a b], [g_mult_ha_carry G a b])
  | _ => (w, [])
  end.

(* one pass of the `while` body; deferred[i] receives the carries of column i-1
   first, then its own sums; deferred[result_bitwidth] is dropped *)
Fixpoint pass (cols : list (list B)) (cin : list B) : list (list B) :=
  match cols with
  | [] => []
  | w :: r => let '(s, k) := col3 w in (cin ++ s) :: pass r k
  end.

Definition reduced (cols : list (list B)) : bool :=
  forallb (fun c => Nat.leb (length c) 2) cols.

Fixpoint wallace (fuel : nat) (cols : list (list B)) : list (list B) :=
  if reduced cols then cols
  else match fuel with O => cols | S f => wallace f (pass cols []) end.

Definition total_bits (cols : list (list B)) : nat :=
  fold_right (fun c n => (length c + n)%nat) O cols.

Definition basic_mult (A Bv : list B) : list B :=
  let '(A, Bv) := if Nat.eqb (length Bv) 1 then (Bv, A) else (A, Bv) in
  match A with
  | [a] => map (g_mult_pp1 G a) Bv ++ [gzero]
  | _ =>
    let rw := (length A + length Bv)%nat in
    let bits := pp_all 0 A Bv (repeat [] rw) in
    let cols := wallace (total_bits bits) bits in
    let row0 := map (fun c => nth 0 c gzero) cols in
    let row1 := map (fun c => nth 1 c gzero) cols in
    firstn rw (basic_add row0 row1)
  end.

End Generators.

(* the semantic instance *)
Definition balg : galg bool :=
  mkAlg bool andb orb xorb (fun a b => negb (a && b)) negb (fun b => b).

(* ---- harness entry points (py/checks/C03.py) ---- *)

(* op codes: 0 add, 1 sub, 2 mult, 3 lt, 4 gt, 5 eq, 6 select (x = s ++ a, y = b) *)
Definition gate_op (o : Z) (n : nat) (x y : Z) : Z :=
  let a := of_Z n x in
  let b := of_Z n y in
  to_Z (match o with
        | 0 => basic_add balg a b
        | 1 => basic_sub balg a b
        | 2 => basic_mult balg a b
        | 3 => basic_lt balg a b
        | 4 => basic_gt balg a b
        | 5 => basic_eq balg a b
        | _ => []
        end).

Fixpoint zrange (n : nat) : list Z :=
  match n with O => [] | S k => zrange k ++ [Z.of_nat k] end.

(* full table of an op at width n: row x, column y *)
Definition gate_table (o : Z) (n : nat) : list (list Z) :=
  let vals := zrange (Nat.pow 2 n) in
  map (fun x => map (fun y => gate_op o n x y) vals) vals.

(* select table at width n: rows s in {0,1}, then x, columns y *)
Definition select_table (n : nat) : list (list (list Z)) :=
  let vals := zrange (Nat.pow 2 n) in
  map (fun s => map (fun x => map (fun y =>
     to_Z (basic_select balg s (of_Z n x) (of_Z n y))) vals) vals) [false; true].
