(* C03: the bit-blasted netlist built by synthesize computes, wire by wire and
   cycle by cycle, the bits of the reference semantics (Netlist/Sem.v) of the
   original netlist:  value(w) = sum_i bit(w_i) * 2^i. *)
From Coq Require Import ZArith List Bool Lia ZifyBool.
From PyRTL Require Import Base.PyZ Netlist.Sem Netlist.WFDefs Pass.BasicGates Pass.BasicGatesProofs Pass.Synth.
Import ListNotations.
Open Scope Z_scope.

(* ------------------------------------------------------------------ generic helpers *)

Lemma mem_in_In w l : mem_in w l = true <-> In w l.
Proof.
  unfold mem_in. rewrite existsb_exists. split.
  - intros [x [Hin Heq]]. apply Z.eqb_eq in Heq. subst. assumption.
  - intros H. exists w. split; [assumption|apply Z.eqb_refl].
Qed.

Lemma find_wire_In ws w x : find_wire ws w = Some x -> In x ws /\ wname x = w.
Proof.
  induction ws as [|y r IH]; simpl; [discriminate|].
  destruct (wname y =? w) eqn:E.
  - intros H. injection H as <-. split; [left; reflexivity|lia].
  - intros H. destruct (IH H). split; [right|]; assumption.
Qed.

Lemma wfb_parts nl : wfb nl = true ->
  forallb (fun x => 0 <=? wwidth x) (wires nl) = true
  /\ forallb (fun x => match wkind x with
                       | KConst c => inrangeb c (wwidth x)
                       | _ => true
                       end) (wires nl) = true
  /\ nets_ok nl (rdy0 nl) (nets nl) = true
  /\ forallb (fun n => if is_comb (nop n) then true
                       else forallb (fun a => mem_in a (rdy_final nl)) (nargs n)
                            && arity_ok (nop n) (length (nargs n))) (nets nl) = true
  /\ forallb (fun x => mem_in (wname x) (rdy_final nl)) (wires nl) = true.
Proof.
  unfold wfb. intros H.
  repeat (apply andb_true_iff in H; destruct H as [H ?]). auto.
Qed.

Lemma b2z_Zb2z b : b2z b = Z.b2z b.
Proof. reflexivity. Qed.

Lemma testbit_cons_0 x a : Z.testbit (b2z x + 2 * a) 0 = x.
Proof. rewrite Z.add_comm, b2z_Zb2z. apply Z.testbit_0_r. Qed.

Lemma testbit_cons_S x a i : 0 <= i -> Z.testbit (b2z x + 2 * a) (Z.succ i) = Z.testbit a i.
Proof. intro H. rewrite Z.add_comm, b2z_Zb2z. apply Z.testbit_succ_r. assumption. Qed.

Lemma testbit_to_Z l : forall i, (i < length l)%nat ->
  Z.testbit (to_Z l) (Z.of_nat i) = nth i l false.
Proof.
  induction l as [|x t IH]; intros i Hi; [simpl in Hi; lia|].
  cbn [to_Z]. destruct i as [|i].
  - apply testbit_cons_0.
  - rewrite Nat2Z.inj_succ, testbit_cons_S by lia. cbn [nth]. apply IH. simpl in Hi. lia.
Qed.

(* the bits of z, read with testbit, are of_Z *)
Lemma map_testbit_of_Z n : forall z,
  map (fun i => Z.testbit z (Z.of_nat i)) (seq 0 n) = of_Z n z.
Proof.
  induction n as [|n IH]; intro z; [reflexivity|].
  cbn [seq map of_Z]. f_equal.
  rewrite <- seq_shift, map_map, <- IH. apply map_ext. intro i.
  rewrite Nat2Z.inj_succ, Z.div2_div. symmetry. apply Z.div2_bits. lia.
Qed.

(* the generated per-bit formulas of synthesize: bit i of a Const / of a reset value *)
Lemma land1_shiftr c i : 0 <= i -> Z.land (Z.shiftr c i) 1 = b2z (Z.testbit c i).
Proof.
  intro Hi. change 1 with (Z.ones 1). rewrite Z.land_ones by lia. change (2 ^ 1) with 2.
  rewrite <- Z.bit0_mod, Z.shiftr_spec by lia. rewrite Z.add_0_l. reflexivity.
Qed.

Lemma const_bit_spec c (i : nat) : negb (g_const_bit c (Z.of_nat i) =? 0) = Z.testbit c (Z.of_nat i).
Proof. unfold g_const_bit. rewrite land1_shiftr by lia. destruct (Z.testbit c (Z.of_nat i)); reflexivity. Qed.

Lemma synth_reset_spec rv (i : nat) :
  synth_reset rv i = option_map (fun v => Z.testbit v (Z.of_nat i)) rv.
Proof.
  unfold synth_reset, g_reset_bit. destruct rv as [v|]; cbn [option_map]; [|reflexivity].
  rewrite land1_shiftr by lia. destruct (Z.testbit v (Z.of_nat i)); reflexivity.
Qed.

Lemma map_nth_seq (l : list bool) : map (fun i => nth i l false) (seq 0 (length l)) = l.
Proof.
  induction l as [|x t IH]; [reflexivity|].
  cbn [length seq map nth]. f_equal. rewrite <- seq_shift, map_map. exact IH.
Qed.

Lemma firstn_map_seq {A} (f : nat -> A) k n : (k <= n)%nat ->
  firstn k (map f (seq 0 n)) = map f (seq 0 k).
Proof.
  intro H. rewrite firstn_map. f_equal.
  replace n with (k + (n - k))%nat by lia. rewrite seq_app, firstn_app, seq_length.
  rewrite Nat.sub_diag. cbn [firstn]. rewrite app_nil_r.
  rewrite firstn_all2; [reflexivity|]. rewrite seq_length. lia.
Qed.

Lemma mod_pow2_mod z k m : 0 <= k <= m -> (z mod 2 ^ m) mod 2 ^ k = z mod 2 ^ k.
Proof.
  intro H. apply mod_bits_eq; [lia|]. intros i Hi. apply Z.mod_pow2_bits_low. lia.
Qed.

(* bitwise ops on bit lists *)
Lemma bitop_cons (f : bool -> bool -> bool) (F : Z -> Z -> Z)
  (HF : forall a b i, Z.testbit (F a b) i = f (Z.testbit a i) (Z.testbit b i)) x y a b :
  F (b2z x + 2 * a) (b2z y + 2 * b) = b2z (f x y) + 2 * F a b.
Proof.
  apply Z.bits_inj'. intros i Hi. rewrite HF.
  destruct (Z.eq_dec i 0) as [->|Hne].
  - rewrite !testbit_cons_0. reflexivity.
  - replace i with (Z.succ (i - 1)) by lia. rewrite !testbit_cons_S by lia. symmetry. apply HF.
Qed.

Lemma to_Z_map2 (f : bool -> bool -> bool) (F : Z -> Z -> Z)
  (HF : forall a b i, Z.testbit (F a b) i = f (Z.testbit a i) (Z.testbit b i))
  (H0 : F 0 0 = 0) a : forall b, length a = length b ->
  to_Z (map2 f a b) = F (to_Z a) (to_Z b) /\ length (map2 f a b) = length a.
Proof.
  induction a as [|x ta IH]; intros [|y tb] Hl; try discriminate.
  - cbn. split; [symmetry; exact H0|reflexivity].
  - cbn [map2 to_Z length]. destruct (IH tb ltac:(simpl in Hl; lia)) as [I1 I2].
    rewrite (bitop_cons f F HF), I1, I2. split; reflexivity.
Qed.

Lemma map2_nand a : forall b, map2 (fun x y => negb (x && y)) a b = map negb (map2 andb a b).
Proof. induction a as [|x ta IH]; intros [|y tb]; cbn [map2 map]; [reflexivity..|]. rewrite IH. reflexivity. Qed.

Section Correct.
Variable nl : netlist.
Hypothesis Hwidths : forallb (fun x => 0 <=? wwidth x) (wires nl) = true.

Local Notation wnat := (wnat nl).
Local Notation width := (width_of nl).

Lemma width_nonneg w : 0 <= width w.
Proof.
  unfold width_of. destruct (find_wire (wires nl) w) as [x|] eqn:E; [|lia].
  apply find_wire_In in E. destruct E as [Hin _].
  rewrite forallb_forall in Hwidths. specialize (Hwidths x Hin). lia.
Qed.

Lemma wnat_width w : Z.of_nat (wnat w) = width w.
Proof. unfold Synth.wnat. apply Z2Nat.id. apply width_nonneg. Qed.

(* value(w) = sum_i bit(w_i) 2^i *)
Definition repr (v : wid -> Z) (bv : wid -> nat -> bool) (w : wid) : Prop :=
  v w = to_Z (vbits nl bv w).

Lemma vbits_length bv w : length (vbits nl bv w) = wnat w.
Proof. unfold vbits. rewrite map_length, seq_length. reflexivity. Qed.

Lemma bits_val_vbits bv w : bits_val bv w (wnat w) = to_Z (vbits nl bv w).
Proof. reflexivity. Qed.

Lemma repr_range v bv w : repr v bv w -> 0 <= v w < 2 ^ width w.
Proof.
  intro H. rewrite H. pose proof (to_Z_range (vbits nl bv w)) as R.
  rewrite vbits_length, wnat_width in R. exact R.
Qed.

Lemma repr_testbit v bv w k : repr v bv w -> 0 <= k < width w ->
  Z.testbit (v w) k = bv w (Z.to_nat k).
Proof.
  intros H Hk. rewrite H. replace k with (Z.of_nat (Z.to_nat k)) at 1 by lia.
  rewrite testbit_to_Z.
  - unfold vbits. rewrite (nth_indep _ false (bv w 0%nat)).
    + rewrite map_nth, seq_nth; [reflexivity|]. pose proof (wnat_width w). lia.
    + rewrite map_length, seq_length. pose proof (wnat_width w). lia.
  - rewrite vbits_length. pose proof (wnat_width w). lia.
Qed.

(* ------------------------------------------------------------------ decompose_correct *)

Lemma concat_spec_snoc l a : concat_spec (l ++ [a]) = concat_spec l * 2 ^ snd a + fst a.
Proof. unfold concat_spec. rewrite fold_left_app. reflexivity. Qed.

Lemma concat_bits v bv args : (forall a, In a args -> repr v bv a) ->
  to_Z (flat_map (vbits nl bv) (rev args)) = concat_spec (map (fun a => (v a, width a)) args).
Proof.
  induction args as [|a l IH] using rev_ind; intro H; [reflexivity|].
  rewrite rev_app_distr. cbn [rev app flat_map]. rewrite map_app. cbn [map].
  rewrite concat_spec_snoc. cbn [fst snd].
  rewrite to_Z_app, vbits_length, wnat_width, IH.
  - rewrite (H a) by (apply in_or_app; right; left; reflexivity). ring.
  - intros x Hx. apply H. apply in_or_app. left. assumption.
Qed.

Lemma select_bits x idx : to_Z (map (fun k => Z.testbit x k) idx) = select_spec x idx.
Proof. induction idx as [|k r IH]; cbn [map to_Z select_spec fold_right]; [reflexivity|]. rewrite IH. reflexivity. Qed.

Lemma to_Z_single b : to_Z [b] = b2z b.
Proof. cbn [to_Z]. lia. Qed.

Lemma b2z_mod2 b (wd : Z) : wd = 1 -> b2z b mod 2 ^ wd = b2z b.
Proof. intros ->. change (2 ^ 1) with 2. destruct b; reflexivity. Qed.

Lemma opt_list_map {A} (f : A -> option A) (g : A -> A) d l :
  (forall x, f x = Some (g x)) -> opt_list (map f l) d = map g l.
Proof. intro H. unfold opt_list. rewrite map_map. apply map_ext. intro x. rewrite H. reflexivity. Qed.

Lemma opt_list_map2 {A} (f : A -> A -> option A) (g : A -> A -> A) d a : forall b,
  (forall x y, f x y = Some (g x y)) -> opt_list (map2 f a b) d = map2 g a b.
Proof.
  intros b H. revert b. induction a as [|x ta IH]; intros [|y tb]; cbn [map2 opt_list map]; try reflexivity.
  rewrite H. f_equal. apply IH.
Qed.

Lemma flat_vbits_length bv l :
  Z.of_nat (length (flat_map (vbits nl bv) (rev l))) = fold_right (fun a s => width a + s) 0 l.
Proof.
  induction l as [|a r IH]; [reflexivity|].
  cbn [rev fold_right]. rewrite flat_map_app, app_length. cbn [flat_map]. rewrite app_nil_r.
  rewrite Nat2Z.inj_add, IH, vbits_length, wnat_width. lia.
Qed.

Lemma same_wnat a b : width a = width b -> wnat a = wnat b.
Proof. intro H. unfold Synth.wnat. rewrite H. reflexivity. Qed.

(* the per-bit lowering lemma: for every combinational primitive, the bits that
   synthesize's gates compute for the destination are the bits of the documented
   op (Sem.op_spec) on the values carried by the argument bits, reduced to the
   destination width *)
Lemma decompose_correct v bv n :
  net_synth_ok nl n = true -> arity_ok (nop n) (length (nargs n)) = true ->
  (forall a, In a (nargs n) -> repr v bv a) ->
  match nop n with OpReg | OpMemRd _ | OpMemWr _ => True | _ =>
    exists r, op_spec (nop n) (argvals nl v n) = Some r
      /\ to_Z (lower_val nl bv n) = r mod 2 ^ width (ndest n)
      /\ length (lower_val nl bv n) = wnat (ndest n)
  end.
Proof.
  intros Hok Har Hargs.
  pose proof (wnat_width (ndest n)) as Hwd. pose proof (width_nonneg (ndest n)) as Hwd0.
  unfold net_synth_ok in Hok. unfold lower_val, argvals, arg in *.
  destruct (nop n) eqn:Eop; try exact I; cbn [arity_ok] in Har.
  (* every case but concat has fixed arity: name the arguments *)
  all: try (destruct (nargs n) as [|a0 [|a1 [|a2 [|a3 rest]]]] eqn:Eargs; cbn in Har; try discriminate Har;
            cbn [nth map] in *;
            pose proof (Hargs a0 ltac:(simpl; auto)) as R0; pose proof (repr_range _ _ _ R0) as G0;
            pose proof (wnat_width a0) as W0; pose proof (vbits_length bv a0) as L0;
            try (pose proof (Hargs a1 ltac:(simpl; auto)) as R1; pose proof (repr_range _ _ _ R1) as G1;
                 pose proof (wnat_width a1) as W1; pose proof (vbits_length bv a1) as L1);
            try (pose proof (Hargs a2 ltac:(simpl; auto)) as R2; pose proof (repr_range _ _ _ R2) as G2;
                 pose proof (wnat_width a2) as W2; pose proof (vbits_length bv a2) as L2)).
  - (* w *)
    eexists; split; [reflexivity|].
    rewrite (opt_list_map _ (fun x => x)) by reflexivity. rewrite map_id.
    rewrite to_Z_firstn, firstn_length, Hwd, <- R0. split; [reflexivity|lia].
  - (* ~ *)
    eexists; split; [reflexivity|].
    rewrite (opt_list_map _ negb) by reflexivity.
    rewrite to_Z_firstn, firstn_length, map_length, to_Z_map_negb, Hwd, L0, W0, <- R0. split; [reflexivity|lia].
  - (* & *)
    eexists; split; [reflexivity|].
    rewrite (opt_list_map2 _ andb) by reflexivity.
    destruct (to_Z_map2 andb Z.land Z.land_spec eq_refl (vbits nl bv a0) (vbits nl bv a1)) as [M1 M2]; [lia|].
    rewrite to_Z_firstn, firstn_length, M1, M2, Hwd, <- R0, <- R1. split; [reflexivity|lia].
  - (* | *)
    eexists; split; [reflexivity|].
    rewrite (opt_list_map2 _ orb) by reflexivity.
    destruct (to_Z_map2 orb Z.lor Z.lor_spec eq_refl (vbits nl bv a0) (vbits nl bv a1)) as [M1 M2]; [lia|].
    rewrite to_Z_firstn, firstn_length, M1, M2, Hwd, <- R0, <- R1. split; [reflexivity|lia].
  - (* ^ *)
    eexists; split; [reflexivity|].
    rewrite (opt_list_map2 _ xorb) by reflexivity.
    destruct (to_Z_map2 xorb Z.lxor Z.lxor_spec eq_refl (vbits nl bv a0) (vbits nl bv a1)) as [M1 M2]; [lia|].
    rewrite to_Z_firstn, firstn_length, M1, M2, Hwd, <- R0, <- R1. split; [reflexivity|lia].
  - (* nand *)
    eexists; split; [reflexivity|].
    rewrite (opt_list_map2 _ (fun x y => negb (x && y))) by reflexivity.
    destruct (to_Z_map2 andb Z.land Z.land_spec eq_refl (vbits nl bv a0) (vbits nl bv a1)) as [M1 M2]; [lia|].
    rewrite map2_nand, to_Z_firstn, firstn_length, map_length, to_Z_map_negb, M1, M2, Hwd, L0, W0, <- R0, <- R1.
    replace (Z.max (width a0) (width a1)) with (width a0) by lia. split; [reflexivity|lia].
  - (* + *)
    eexists; split; [reflexivity|].
    destruct (basic_add_correct (vbits nl bv a0) (vbits nl bv a1)) as [A1 _].
    rewrite fit_val, fit_length, A1, Hwd, <- R0, <- R1. split; reflexivity.
  - (* - *)
    eexists; split; [reflexivity|].
    destruct (basic_sub_correct_if (fun c => eq_refl) (vbits nl bv a0) (vbits nl bv a1)) as [A1 _]; [lia|].
    rewrite fit_val, fit_length, A1, Hwd, <- R0, <- R1. split; [|reflexivity].
    apply mod_pow2_mod. rewrite Nat2Z.inj_succ, L0. lia.
  - (* * *)
    eexists; split; [reflexivity|].
    rewrite fit_val, fit_length, basic_mult_correct, Hwd, <- R0, <- R1. split; reflexivity.
  - (* < *)
    eexists; split; [reflexivity|].
    rewrite basic_lt_correct; [| lia | intro E; rewrite E in L0; simpl in L0; lia].
    rewrite fit_val, fit_length, to_Z_single, Hwd, <- R0, <- R1. split; reflexivity.
  - (* > *)
    eexists; split; [reflexivity|].
    rewrite basic_gt_correct; [| lia | intro E; rewrite E in L0; simpl in L0; lia].
    rewrite fit_val, fit_length, to_Z_single, Hwd, <- R0, <- R1. split; reflexivity.
  - (* = *)
    eexists; split; [reflexivity|].
    rewrite basic_eq_correct.
    rewrite fit_val, fit_length, to_Z_single, Hwd, <- R0, <- R1. split; reflexivity.
  - (* mux *)
    eexists; split; [reflexivity|].
    rewrite basic_select_correct by lia.
    assert (Hs : v a0 = b2z (bv a0 0%nat)).
    { rewrite R0. unfold vbits. replace (wnat a0) with 1%nat by lia. cbn [seq map]. apply to_Z_single. }
    rewrite fit_val, fit_length, Hwd. split; [|reflexivity].
    rewrite Hs. destruct (bv a0 0%nat); cbn [b2z Z.eqb]; [rewrite <- R2|rewrite <- R1]; reflexivity.
  - (* concat *)
    eexists; split; [reflexivity|].
    rewrite to_Z_firstn, firstn_length, Hwd. split.
    + f_equal. apply concat_bits. exact Hargs.
    + pose proof (flat_vbits_length bv (nargs n)). lia.
  - (* select *)
    eexists; split; [reflexivity|].
    apply andb_true_iff in Hok. destruct Hok as [Hlen Hidx]. rewrite forallb_forall in Hidx.
    rewrite <- select_bits.
    rewrite (map_ext_in (fun k => bv a0 (Z.to_nat k)) (fun k => Z.testbit (v a0) k)).
    + rewrite to_Z_firstn, firstn_length, map_length, Hwd. split; [reflexivity|lia].
    + intros k Hk. symmetry. apply repr_testbit; [exact R0|]. specialize (Hidx k Hk). lia.
Qed.


(* ------------------------------------------------------------------ one cycle *)

Local Notation is_base := (is_base nl).
Local Notation net_ok := (net_ok nl).
Local Notation nets_ok := (nets_ok nl).
Local Notation rdy0 := (rdy0 nl).
Local Notation rdy_final := (rdy_final nl).

Definition is_input_w (w : wid) : bool := match kind_of nl w with KInput => true | _ => false end.
Definition is_reg_w (w : wid) : bool := match kind_of nl w with KReg _ => true | _ => false end.

Definition legal_ins (ins : wid -> Z) : Prop :=
  forall w, is_input_w w = true -> inrange (ins w) (width w).

(* state relation: every register shows the value its 1-bit registers spell;
   memories (word-level on both sides) are equal *)
Definition Rs (st : state) (gst : gstate) : Prop :=
  (forall r, is_reg_w r = true -> sregs st r = bits_val (gregs gst) r (wnat r))
  /\ (forall m a, smems st m a = gmems gst m a).

(* the invariant: value(w) = sum_i bit(w_i) 2^i on every wire computed so far *)
Definition Inv (rdy : list wid) (v : wid -> Z) (bv : wid -> nat -> bool) : Prop :=
  forall w, In w rdy -> repr v bv w.

Lemma repr_upd_other v bv w d x l : w <> d -> repr v bv w -> repr (upd v d x) (updbits bv d l) w.
Proof.
  intros Hne H. unfold repr, vbits, updbits in *. rewrite upd_other by assumption.
  rewrite H. f_equal. apply map_ext. intro i. destruct (w =? d) eqn:E; [lia|reflexivity].
Qed.

Lemma repr_upd_same v bv d x l : length l = wnat d -> x = to_Z l ->
  repr (upd v d x) (updbits bv d l) d.
Proof.
  intros Hl Hx. unfold repr, vbits, updbits. rewrite upd_same, Hx. f_equal.
  rewrite <- Hl. rewrite <- (map_nth_seq l) at 1. apply map_ext. intro i. rewrite Z.eqb_refl. reflexivity.
Qed.

Lemma mem_read_related st gst m a : (forall m a, smems st m a = gmems gst m a) ->
  mem_read nl st m a = gmem_read nl (gmems gst) m a.
Proof.
  intro H. unfold mem_read, gmem_read.
  destruct (find_mem (mems nl) m) as [mm|]; [destruct (mrom mm)|]; auto.
Qed.

Hypothesis Hsynth : synth_okb nl = true.

Lemma exec_related st gst rdy v bv n : In n (nets nl) ->
  (forall m a, smems st m a = gmems gst m a) ->
  Inv rdy v bv -> net_ok rdy n = true ->
  Inv (rdy_next rdy n) (exec_spec nl st v n) (gexec nl gst bv n).
Proof.
  intros Hin Hm HI Hok.
  assert (Hso : net_synth_ok nl n = true).
  { unfold synth_okb in Hsynth. rewrite forallb_forall in Hsynth. apply Hsynth. assumption. }
  unfold net_ok, rdy_next in *. destruct (is_comb (nop n)) eqn:Hc.
  2:{ unfold exec_spec, gexec. destruct (nop n); try discriminate Hc; assumption. }
  apply andb_true_iff in Hok. destruct Hok as [Hok Hop].
  apply andb_true_iff in Hok. destruct Hok as [Hok Har].
  apply andb_true_iff in Hok. destruct Hok as [Hargs Hfresh].
  assert (Hargs' : forall a, In a (nargs n) -> repr v bv a).
  { intros a Ha. apply HI. apply mem_in_In. rewrite forallb_forall in Hargs. apply Hargs. assumption. }
  assert (Hnd : ~ In (ndest n) rdy).
  { intro Hd. apply mem_in_In in Hd. rewrite Hd in Hfresh. discriminate. }
  pose proof (decompose_correct v bv n Hso Har Hargs') as HD.
  intros w Hw. destruct Hw as [<-|Hw].
  - (* the destination *)
    unfold exec_spec, gexec.
    destruct (nop n) eqn:Eop; try discriminate Hc;
      try (destruct HD as (r & Hr & Hv & Hl); rewrite Hr; apply repr_upd_same; [exact Hl|symmetry; exact Hv]).
    (* memory read port *)
    apply repr_upd_same.
    + apply of_Z_length.
    + rewrite to_Z_of_Z, wnat_width. f_equal.
      rewrite (mem_read_related st gst) by assumption. f_equal.
      unfold arg. cbn [arity_ok] in Har. apply Nat.eqb_eq in Har.
      destruct (nargs n) as [|a0 [|]] eqn:Ea; cbn in Har; try discriminate. cbn [nth].
      apply (Hargs' a0). left. reflexivity.
  - (* every other ready wire is untouched *)
    assert (Hne : w <> ndest n) by (intro E; subst; contradiction).
    unfold exec_spec, gexec.
    destruct (nop n) eqn:Eop; try discriminate Hc;
      try (destruct HD as (r & Hr & _); rewrite Hr);
      apply repr_upd_other; auto.
Qed.

Lemma comb_related st gst : (forall m a, smems st m a = gmems gst m a) ->
  forall ns rdy v bv, (forall n, In n ns -> In n (nets nl)) ->
  Inv rdy v bv -> nets_ok rdy ns = true ->
  Inv (fold_left rdy_next ns rdy)
      (fold_left (exec_spec nl st) ns v) (fold_left (gexec nl gst) ns bv).
Proof.
  intro Hm. induction ns as [|n r IH]; intros rdy v bv Hsub HI Hok; cbn [fold_left]; [assumption|].
  cbn [WFDefs.nets_ok] in Hok. apply andb_true_iff in Hok. destruct Hok as [Hn Hr].
  apply IH; [intros; apply Hsub; right; assumption| |assumption].
  apply exec_related; try assumption. apply Hsub. left. reflexivity.
Qed.

Hypothesis Hconsts :
  forallb (fun x => match wkind x with
                    | KConst c => inrangeb c (wwidth x)
                    | _ => true
                    end) (wires nl) = true.

Lemma repr_of_testbits (v : wid -> Z) bv w z : v w = z -> inrange z (width w) ->
  (forall i, bv w i = Z.testbit z (Z.of_nat i)) -> repr v bv w.
Proof.
  intros Hv Hr Hb. unfold repr, vbits. rewrite Hv.
  rewrite (map_ext _ (fun i => Z.testbit z (Z.of_nat i))) by exact Hb.
  rewrite map_testbit_of_Z, to_Z_of_Z, wnat_width. symmetry. apply Z.mod_small. exact Hr.
Qed.

Lemma base_related st gst ins : Rs st gst -> legal_ins ins ->
  Inv rdy0 (base_val nl 0 st ins) (gbase nl gst ins).
Proof.
  intros [HR1 HR2] Hins w Hin.
  unfold WFDefs.rdy0 in Hin. apply filter_In in Hin. destruct Hin as [_ Hb].
  unfold WFDefs.is_base in Hb.
  destruct (find_wire (wires nl) w) as [x|] eqn:E; [|discriminate].
  pose proof (find_wire_In _ _ _ E) as [Hx _].
  destruct (wkind x) eqn:Ek; try discriminate.
  - (* input *)
    apply (repr_of_testbits _ _ _ (ins w)).
    + unfold base_val. rewrite E, Ek. reflexivity.
    + apply Hins. unfold is_input_w, kind_of. rewrite E, Ek. reflexivity.
    + intro i. unfold gbase. rewrite E, Ek. reflexivity.
  - (* const *)
    apply (repr_of_testbits _ _ _ v).
    + unfold base_val. rewrite E, Ek. reflexivity.
    + rewrite forallb_forall in Hconsts. specialize (Hconsts x Hx). rewrite Ek in Hconsts.
      apply inrangeb_spec in Hconsts. unfold width_of. rewrite E. assumption.
    + intro i. unfold gbase. rewrite E, Ek. apply const_bit_spec.
  - (* register *)
    unfold repr. unfold base_val. rewrite E, Ek.
    rewrite HR1 by (unfold is_reg_w, kind_of; rewrite E, Ek; reflexivity).
    unfold bits_val, vbits. f_equal. apply map_ext. intro i. unfold gbase. rewrite E, Ek. reflexivity.
Qed.

(* next register values: pointwise, whatever the wire *)
Lemma regs_related v bv : forall ns rg grg w,
  (forall n, In n ns -> nop n = OpReg ->
     repr v bv (arg n 0) /\ width (ndest n) <= width (arg n 0)) ->
  rg w = bits_val grg w (wnat w) ->
  fold_left (regnext_spec nl v) ns rg w
  = bits_val (fold_left (gregnext nl bv) ns grg) w (wnat w).
Proof.
  induction ns as [|n r IH]; intros rg grg w Hn H0; cbn [fold_left]; [assumption|].
  apply IH; [intros; apply Hn; [right|]; assumption|].
  unfold regnext_spec, gregnext. destruct (nop n) eqn:Eop; try assumption.
  destruct (Hn n (or_introl eq_refl) Eop) as [Ha Hw].
  unfold upd. destruct (w =? ndest n) eqn:E.
  - assert (w = ndest n) by lia. subst w.
    rewrite Ha. unfold bits_val.
    rewrite (map_ext_in _ (bv (arg n 0))).
    + rewrite <- (firstn_map_seq (bv (arg n 0)) (wnat (ndest n)) (wnat (arg n 0))).
      * rewrite to_Z_firstn, wnat_width. reflexivity.
      * pose proof (wnat_width (ndest n)). pose proof (wnat_width (arg n 0)). lia.
    + intros i Hi. apply in_seq in Hi. rewrite Z.eqb_refl. cbn [andb].
      destruct (Nat.ltb_spec i (wnat (ndest n))); [reflexivity|lia].
  - rewrite H0. unfold bits_val. f_equal. apply map_ext. intro i. rewrite E. reflexivity.
Qed.

Lemma mems_related v bv : forall ns ms gms,
  (forall n m, In n ns -> nop n = OpMemWr m ->
     repr v bv (arg n 0) /\ repr v bv (arg n 1) /\ repr v bv (arg n 2) /\ width (arg n 2) = 1) ->
  (forall m a, ms m a = gms m a) ->
  forall m a, fold_left (write_spec v) ns ms m a = fold_left (gwrite nl bv) ns gms m a.
Proof.
  induction ns as [|n r IH]; intros ms gms Hn H0; cbn [fold_left]; [assumption|].
  apply IH; [intros; eapply Hn; [right|]; eassumption|].
  unfold write_spec, gwrite. destruct (nop n) eqn:Eop; try assumption.
  destruct (Hn n m (or_introl eq_refl) Eop) as (Ha & Hd & He & Hw).
  assert (Hen : v (arg n 2) = b2z (bv (arg n 2) 0%nat)).
  { rewrite He. unfold vbits. replace (wnat (arg n 2)) with 1%nat.
    - cbn [seq map]. apply to_Z_single.
    - pose proof (wnat_width (arg n 2)). lia. }
  rewrite Hen. destruct (bv (arg n 2) 0%nat); cbn [b2z Z.eqb]; [|assumption].
  rewrite Ha, Hd. intros m' a'. unfold upd, bits_val, vbits.
  destruct (m' =? m); [|apply H0]. destruct (a' =? _); [reflexivity|apply H0].
Qed.

Hypothesis Hnets : nets_ok rdy0 (nets nl) = true.
Hypothesis Hseq :
  forallb (fun n => if is_comb (nop n) then true
                    else forallb (fun a => mem_in a rdy_final) (nargs n)
                         && arity_ok (nop n) (length (nargs n))) (nets nl) = true.

Lemma nth_in_args n (i : nat) : (i < length (nargs n))%nat -> In (arg n i) (nargs n).
Proof. intros. unfold arg. apply nth_In. assumption. Qed.

Theorem step_related st gst ins : Rs st gst -> legal_ins ins ->
  Inv rdy_final (fst (step nl 0 st ins)) (fst (gstep nl gst ins))
  /\ Rs (snd (step nl 0 st ins)) (snd (gstep nl gst ins)).
Proof.
  intros HR Hins. unfold step, gstep. cbn [fst snd].
  pose proof (base_related st gst ins HR Hins) as HI0.
  destruct HR as [HR1 HR2].
  pose proof (comb_related st gst HR2 (nets nl) rdy0 _ _ (fun n H => H) HI0 Hnets) as HI.
  fold rdy_final in HI. unfold comb.
  set (v := fold_left (exec_spec nl st) (nets nl) (base_val nl 0 st ins)) in *.
  set (bv := fold_left (gexec nl gst) (nets nl) (gbase nl gst ins)) in *.
  assert (Hseqargs : forall n, In n (nets nl) -> is_comb (nop n) = false ->
            forall i, (i < length (nargs n))%nat -> repr v bv (arg n i)).
  { intros n Hn Hc i Hi. rewrite forallb_forall in Hseq. specialize (Hseq n Hn).
    rewrite Hc in Hseq. apply andb_true_iff in Hseq. destruct Hseq as [Hs _].
    rewrite forallb_forall in Hs. apply HI. apply mem_in_In. apply Hs.
    apply nth_in_args. assumption. }
  assert (Harity : forall n, In n (nets nl) -> is_comb (nop n) = false ->
            arity_ok (nop n) (length (nargs n)) = true).
  { intros n Hn Hc. rewrite forallb_forall in Hseq. specialize (Hseq n Hn).
    rewrite Hc in Hseq. apply andb_true_iff in Hseq. apply Hseq. }
  assert (Hso : forall n, In n (nets nl) -> net_synth_ok nl n = true).
  { intros n Hn. unfold synth_okb in Hsynth. rewrite forallb_forall in Hsynth. auto. }
  split; [exact HI|]. split; cbn [sregs smems gregs gmems].
  - intros r Hr. apply regs_related; [|apply HR1; assumption].
    intros n Hn E.
    assert (Hc : is_comb (nop n) = false) by (rewrite E; reflexivity).
    pose proof (Harity n Hn Hc) as Ha. rewrite E in Ha. cbn in Ha. apply Nat.eqb_eq in Ha.
    split; [apply Hseqargs; try assumption; lia|].
    pose proof (Hso n Hn) as Hs. unfold net_synth_ok in Hs. rewrite E in Hs. lia.
  - apply mems_related; [|assumption].
    intros n m Hn E.
    assert (Hc : is_comb (nop n) = false) by (rewrite E; reflexivity).
    pose proof (Harity n Hn Hc) as Ha. rewrite E in Ha. cbn in Ha. apply Nat.eqb_eq in Ha.
    pose proof (Hso n Hn) as Hs. unfold net_synth_ok in Hs. rewrite E in Hs.
    repeat split; try (apply Hseqargs; try assumption; lia). lia.
Qed.

End Correct.

(* ------------------------------------------------------------------ packaged statements *)

Definition wires_repr (nl : netlist) (v : wid -> Z) (bv : wid -> nat -> bool) : Prop :=
  forall x, In x (wires nl) ->
    v (wname x) = bits_val bv (wname x) (wnat nl (wname x))
    /\ inrange (v (wname x)) (width_of nl (wname x)).

Theorem step_related_wf nl st gst ins :
  wfb nl = true -> synth_okb nl = true ->
  Rs nl st gst -> legal_ins nl ins ->
  wires_repr nl (fst (step nl 0 st ins)) (fst (gstep nl gst ins))
  /\ Rs nl (snd (step nl 0 st ins)) (snd (gstep nl gst ins)).
Proof.
  intros Hwf Hs HR Hi. destruct (wfb_parts nl Hwf) as [H1 [H2 [H3 [H4 H5]]]].
  destruct (step_related nl H1 Hs H2 H3 H4 st gst ins HR Hi) as [HI HR'].
  split; [|exact HR'].
  intros x Hx. rewrite forallb_forall in H5. specialize (H5 x Hx).
  apply mem_in_In in H5. specialize (HI _ H5).
  split; [exact HI|]. exact (repr_range nl H1 _ _ _ HI).
Qed.

Theorem run_related nl : wfb nl = true -> synth_okb nl = true ->
  forall inss st gst, Rs nl st gst -> Forall (legal_ins nl) inss ->
  Forall2 (wires_repr nl) (fst (run nl 0 st inss)) (fst (grun nl gst inss))
  /\ Rs nl (snd (run nl 0 st inss)) (snd (grun nl gst inss)).
Proof.
  intros Hwf Hs. induction inss as [|ins rest IH]; intros st gst HR Hins; cbn [run grun].
  - split; [constructor|exact HR].
  - inversion Hins as [|? ? Hi Hrest]; subst.
    pose proof (step_related_wf nl st gst ins Hwf Hs HR Hi) as [Hv HR1].
    unfold gstep in *. unfold step in *.
    destruct (IH _ _ HR1 Hrest) as [Hvs HR2]. cbn [fst snd] in *.
    match goal with |- context [run nl 0 ?s rest] => destruct (run nl 0 s rest) as [vs st2] eqn:E1 end.
    match goal with |- context [grun nl ?s rest] => destruct (grun nl s rest) as [bvs gst2] eqn:E2 end.
    cbn [fst snd] in *. split; [constructor; assumption|assumption].
Qed.

(* initial states under the ORIGINAL testbench: register_value_map through
   reg_map, reset values bit by bit, memory_value_map through mem_map *)
Definition legal_init (nl : netlist) (regmap : list (Z * Z)) : Prop :=
  forall w, is_reg_w nl w = true -> inrange (init_reg nl 0 regmap w) (width_of nl w).

Lemma init_related nl regmap memmap :
  forallb (fun x => 0 <=? wwidth x) (wires nl) = true ->
  legal_init nl regmap ->
  Rs nl (init_state nl 0 regmap memmap) (ginit nl regmap memmap).
Proof.
  intros Hw Hl. split; cbn [init_state ginit sregs smems gregs gmems]; [|reflexivity].
  intros r Hr. specialize (Hl r Hr).
  assert (Hb : forall i, ginit_reg nl regmap r i = Z.testbit (init_reg nl 0 regmap r) (Z.of_nat i)).
  { intro i. unfold ginit_reg, init_reg. destruct (assoc regmap r); [reflexivity|].
    unfold is_reg_w in Hr. destruct (kind_of nl r); try discriminate.
    rewrite synth_reset_spec. destruct reset; cbn [option_map]; [reflexivity|].
    rewrite Z.bits_0. reflexivity. }
  unfold bits_val. rewrite (map_ext _ _ Hb), map_testbit_of_Z, to_Z_of_Z, (wnat_width nl Hw).
  symmetry. apply Z.mod_small. exact Hl.
Qed.

(* C03_simulation: for every well-formed netlist, every legal initial state of
   the original testbench and every legal input sequence, on every cycle every
   wire of the original design has exactly the value spelled by its synthesized
   bits; in particular every Output. *)
Theorem synth_simulation nl regmap memmap inss :
  wfb nl = true -> synth_okb nl = true -> legal_init nl regmap -> Forall (legal_ins nl) inss ->
  Forall2 (wires_repr nl)
    (fst (run nl 0 (init_state nl 0 regmap memmap) inss))
    (fst (grun nl (ginit nl regmap memmap) inss)).
Proof.
  intros Hwf Hs Hl Hi. destruct (wfb_parts nl Hwf) as [H1 _].
  apply (run_related nl Hwf Hs inss); [apply init_related; assumption|assumption].
Qed.

(* ------------------------------------------------------------------ interface maps *)

Theorem io_map_keys nl merge :
  map fst (io_map nl merge) = map wname (filter is_io (wires nl)).
Proof. unfold io_map. rewrite map_map. reflexivity. Qed.


Theorem io_map_shape nl (merge : bool) x : In x (filter is_io (wires nl)) ->
  In (wname x, if merge then [(wname x, None)]
               else map (fun i => (wname x, Some i)) (seq 0 (Z.to_nat (wwidth x)))) (io_map nl merge)
  /\ (merge = false ->
      length (map (fun i => (wname x, Some i)) (seq 0 (Z.to_nat (wwidth x)))) = Z.to_nat (wwidth x)).
Proof.
  intro H. split.
  - unfold io_map. apply in_map_iff. exists x. split; [reflexivity|assumption].
  - intros _. rewrite map_length, seq_length. reflexivity.
Qed.

Theorem reg_map_keys nl : map fst (reg_map nl) = map wname (filter is_reg (wires nl)).
Proof. unfold reg_map. rewrite map_map. reflexivity. Qed.

Theorem reg_map_shape nl x : In x (filter is_reg (wires nl)) ->
  exists bits, In (wname x, bits) (reg_map nl)
    /\ bits = map (fun i => (wname x, i)) (seq 0 (Z.to_nat (wwidth x)))
    /\ length bits = Z.to_nat (wwidth x).
Proof.
  intro H. eexists. split; [|split; [reflexivity|]].
  - unfold reg_map. apply in_map_iff. exists x. split; [reflexivity|assumption].
  - rewrite map_length, seq_length. reflexivity.
Qed.

(* mem_map is keyed by the ORIGINAL memories: the testbench's
   memory_value_map = {original MemBlock: ...} finds every memory of the design *)
Theorem mem_map_keys nl : map fst (mem_map nl) = map MOrig (used_mems nl).
Proof. unfold mem_map. rewrite map_map. reflexivity. Qed.

Lemma mem_map_lookup_in l m : In m l ->
  mem_map_lookup (MOrig m) (map (fun m => (mem_map_key m, MPost m)) l) = Some (MPost m).
Proof.
  induction l as [|x r IH]; intro H; [contradiction|].
  unfold mem_map_key, g_mem_map_keyed_by_original. cbn [map mem_map_lookup memref_eqb].
  destruct (x =? m) eqn:E.
  - assert (x = m) by lia. subst. reflexivity.
  - apply IH. destruct H as [H|H]; [lia|assumption].
Qed.

Theorem mem_map_by_original nl m : In m (used_mems nl) ->
  mem_map_lookup (MOrig m) (mem_map nl) = Some (MPost m).
Proof. apply mem_map_lookup_in. Qed.

Lemma used_mems_complete nl n m : In n (nets nl) ->
  (nop n = OpMemRd m \/ nop n = OpMemWr m) -> In m (used_mems nl).
Proof.
  intros Hn Hop. unfold used_mems. apply nodup_In. apply in_flat_map. exists n. split; [assumption|].
  destruct Hop as [-> | ->]; left; reflexivity.
Qed.
