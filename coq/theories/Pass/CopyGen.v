(* C11 -- bridge between the fragments REGENERATED from /repo (Gen/CopyAttrs.v,
   by py/genfrag_C11.py) and the definitions the property theorems use.
   Every lemma here is re-checked against what transform.py / memory.py say now:
   a source edit that stops passing an attribute, clones fewer wires, or no longer
   carries the memory id over changes the generated definitions and breaks the
   corresponding proof below. *)
From PyRTL Require Import Netlist.Sem Netlist.WFDefs Pass.Copy Pass.CopyProofs Pass.CopyWF.

(* clone_wire keeps, for every wire class, the class, the bitwidth, the Const
   value and the Register reset_value; the clone is the new object *)
Lemma gen_clone_wire_keeps name x : gen_clone_wire name x = mkWire name (wwidth x) (wkind x).
Proof. destruct x as [n w k]. destruct k; reflexivity. Qed.

Lemma clone_kind_keeps k : clone_kind k = k.
Proof. destruct k; reflexivity. Qed.

(* _make_copy + `new_mem.id = old_mem.id`: the netlist-level part of a memory
   (id, addrwidth, bitwidth, ROM contents) is kept, whatever id the constructor drew *)
Lemma gen_mem_copy_core fid a : core_mem (gen_get_new_block_mem_instance fid a) = core_mem a.
Proof. destruct a as [i n b w s r wr [d|] p nr]; reflexivity. Qed.

Lemma gen_make_copy_mem_keeps m : gen_make_copy_mem m = make_copy_mem m.
Proof. destruct m as [i a d [r|]]; reflexivity. Qed.

(* a MemBlock copy keeps EVERY constructor attribute *)
Lemma gen_memblock_copy_keeps_all fid a :
  ma_rom a = None -> ma_pad a = false -> ma_newroms a = false ->
  gen_get_new_block_mem_instance fid a = a.
Proof.
  destruct a as [i n b w s r wr [d|] p nr]; cbn; intros H1 H2 H3; try discriminate; subst; reflexivity.
Qed.

(* a RomBlock copy keeps every constructor attribute except build_new_roms, which
   RomBlock._make_copy does not pass (the copy gets the default False);
   max_write_ports is the 0 that RomBlock.__init__ fixes *)
Definition without_newroms (a : mattrs) : mattrs :=
  mkMAttrs (ma_id a) (ma_name a) (ma_bitwidth a) (ma_addrwidth a) (ma_async a) (ma_max_read a)
           (ma_max_write a) (ma_rom a) (ma_pad a) false.

Lemma gen_romblock_copy_keeps fid a :
  is_rom a = true -> ma_max_write a = Some 0 ->
  gen_get_new_block_mem_instance fid a = without_newroms a.
Proof.
  destruct a as [i n b w s r wr [d|] p nr]; cbn; intros H1 H2; try discriminate; subst; reflexivity.
Qed.

Lemma gen_romblock_copy_keeps_all fid a :
  is_rom a = true -> ma_max_write a = Some 0 -> ma_newroms a = false ->
  gen_get_new_block_mem_instance fid a = a.
Proof.
  intros H1 H2 H3. rewrite (gen_romblock_copy_keeps fid a H1 H2).
  destruct a; cbn in *; subst; reflexivity.
Qed.

(* copy_block assembled from the generated fragments IS the model the theorems are about *)
Lemma copy_with_ext ck ck' nl : (forall k, ck k = ck' k) -> copy_with ck nl = copy_with ck' nl.
Proof.
  intro H. unfold copy_with. f_equal. f_equal. apply map_ext. intro x. unfold clone_wire. rewrite H. reflexivity.
Qed.

Theorem copy_block_gen_is_model nl : copy_block_gen nl = copy_block nl.
Proof.
  unfold copy_block_gen, copy_block, copy_with, gen_clone_wires. f_equal. f_equal.
  - apply map_ext. intro x. rewrite gen_clone_wire_keeps. unfold clone_wire. rewrite clone_kind_keeps. reflexivity.
  - apply map_ext. exact gen_make_copy_mem_keeps.
Qed.

Lemma copy_block_is_spec nl : copy_block nl = copy_block_spec nl.
Proof. apply copy_with_ext. exact clone_kind_keeps. Qed.

(* the full statement, for the copy assembled from the regenerated fragments *)
Theorem copy_isomorphic_current nl : fst (copy_block nl) = rename (snd (copy_block nl)) nl.
Proof. apply copy_isomorphic_of. exact clone_kind_keeps. Qed.

Theorem copy_gen_isomorphic nl :
  fst (copy_block_gen nl) = rename (snd (copy_block_gen nl)) nl /\ injective (snd (copy_block_gen nl)).
Proof.
  rewrite copy_block_gen_is_model. split; [apply copy_isomorphic_current|apply fresh_map_injective].
Qed.

(* ... and its behaviour: from reset, on every wire, every cycle, every input sequence *)
Theorem copy_gen_behaviour nl dflt regmap memmap inss :
  seq_arity nl = true ->
  let '(cp, f) := copy_block_gen nl in
  Forall2 (val_rel f)
    (fst (run nl dflt (init_state nl dflt regmap memmap) inss))
    (fst (run cp dflt (init_state cp dflt (rename_map f regmap) memmap)
              (map (shift_ins (fresh_offset nl)) inss))).
Proof.
  rewrite copy_block_gen_is_model, copy_block_is_spec. apply copy_spec_behaviour.
Qed.

Theorem copy_block_interface nl :
  iface (fst (copy_block nl))
  = map (fun p => (snd (copy_block nl) (fst (fst p)), snd (fst p), snd p)) (iface nl).
Proof. rewrite copy_block_is_spec. apply copy_spec_interface. Qed.

(* every declared wire, connected or not, is cloned by the generated loop *)
Theorem gen_clone_wires_all f ws x : In x ws -> In (gen_clone_wire (f (wname x)) x) (gen_clone_wires f ws).
Proof. intro H. unfold gen_clone_wires. apply (in_map (fun x => gen_clone_wire (f (wname x)) x)). exact H. Qed.
