(* C09 -- syntax of the right-hand sides of the gate-basis rewrite rules
   (pyrtl/passes.py nand_synth / and_inverter_synth).  Definitions only.

   A right-hand side such as
        temp_0 = arg(0).nand(arg(1))
        dest <<= temp_0.nand(arg(0)).nand(temp_0.nand(arg(1)))
   is a straight-line program: every operator application creates one LogicNet
   whose destination is a fresh temporary, in Python evaluation order (receiver /
   left operand, then right operand, then the operator).  [GA k] is `arg(k)`,
   [GT i] is the temporary made by instruction number i.  The translator
   py/genfrag_C09.py regenerates Gen/LowerRules.v in this syntax on every run. *)
From PyRTL Require Export Netlist.Syntax.

Inductive gopd := GA (k : nat) | GT (i : nat).
Definition gins : Type := (op * list gopd)%type.
Record grule := mkGRule { gprog : list gins; gres : gopd }.

(* LogicNet.op character (ASCII code) of each op constructor *)
Definition op_code (o : op) : Z :=
  match o with
  | OpW => 119 | OpNot => 126 | OpAnd => 38 | OpOr => 124 | OpXor => 94 | OpNand => 110
  | OpAdd => 43 | OpSub => 45 | OpMul => 42 | OpLt => 60 | OpGt => 62 | OpEq => 61
  | OpMux => 120 | OpConcat => 99 | OpSelect _ => 115 | OpReg => 114
  | OpMemRd _ => 109 | OpMemWr _ => 64
  end.

Fixpoint find_rule (c : Z) (rs : list (Z * grule)) : option grule :=
  match rs with
  | [] => None
  | (c', r) :: rest => if c' =? c then Some r else find_rule c rest
  end.
