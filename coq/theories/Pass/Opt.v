(* C04 -- executable model of pyrtl/passes.py: optimize and its constituent
   passes (_remove_wire_nets, _remove_slice_nets, constant_propagation /
   _constant_prop_pass, _remove_unlistened_nets, common_subexp_elimination,
   _remove_unused_wires).  Definitions only (no proofs): the harness evaluates
   these with vm_compute.  The folding tables and op-class strings come from
   Gen/ConstFold.v, regenerated from the current source on every run.

   Python sets are modelled as lists in the (topological) order of the dump;
   where the code picks "the first element of a set" (the CSE representative)
   the model picks the first in list order -- the result is the same up to
   the choice of representative, which the correspondence check quotients. *)
From PyRTL Require Export Netlist.Sem Netlist.WFDefs Gen.ConstFold.

(* ------------------------------------------------------------------ helpers *)

Definition is_output (nl : netlist) (w : wid) : bool :=
  match kind_of nl w with KOutput => true | _ => false end.
Definition is_const (nl : netlist) (w : wid) : bool :=
  match kind_of nl w with KConst _ => true | _ => false end.
Definition is_register (nl : netlist) (w : wid) : bool :=
  match kind_of nl w with KReg _ => true | _ => false end.
Definition const_val (nl : netlist) (w : wid) : Z :=
  match kind_of nl w with KConst c => c | _ => 0 end.

Definition op_has_dest (o : op) : bool :=
  match o with OpMemWr _ => false | _ => true end.

Definition net_dests (n : net) : list wid :=
  if op_has_dest (nop n) then [ndest n] else [].

Definition net_wires (n : net) : list wid := net_dests n ++ nargs n.

Definition map_args (f : wid -> wid) (n : net) : net :=
  mkNet (nop n) (map f (nargs n)) (ndest n).

(* _ProducerList.find_producer: follow dest -> source links to the end.  The
   chain is acyclic in a well-formed block; fuel = number of links + 1. *)
Fixpoint find_producer (fuel : nat) (m : list (Z * Z)) (x : wid) : wid :=
  match fuel with
  | O => x
  | S f => match assoc m x with
           | Some y => find_producer f m y
           | None => x
           end
  end.

Fixpoint number {A} (i : Z) (l : list A) : list (Z * A) :=
  match l with
  | [] => []
  | x :: r => (i, x) :: number (i + 1) r
  end.

(* _remove_unused_wires(block, keep_inputs=True) *)
Definition remove_unused_wires (nl : netlist) : netlist :=
  let used := flat_map net_wires (nets nl) in
  mkNetlist
    (filter (fun x => mem_in (wname x) used
                      || match wkind x with KInput => true | _ => false end) (wires nl))
    (nets nl) (mems nl).

(* ------------------------------------------- _remove_wire_nets / _remove_slice_nets *)

(* shared shape of the two passes: [sel] nets are identities; those whose
   destination is not an Output disappear, every argument is redirected to its
   ultimate producer *)
Definition remove_nets_by (sel : net -> bool) (nl : netlist) : netlist :=
  let gone := fun n => sel n && negb (is_output nl (ndest n)) in
  (* the code also records dest -> source for identity nets that drive an Output,
     but an Output is never an argument (sanity_check), so those links are never
     followed; the model keeps only the links that can be *)
  let m := flat_map (fun n => if gone n then [(ndest n, arg n 0)] else []) (nets nl) in
  let fuel := S (length (nets nl)) in
  let ns := flat_map (fun n => if gone n then []
                               else [map_args (find_producer fuel m) n]) (nets nl) in
  let dead := flat_map (fun n => if gone n then [ndest n] else []) (nets nl) in
  mkNetlist (filter (fun x => negb (mem_in (wname x) dead)) (wires nl)) ns (mems nl).

Definition is_w_net (n : net) : bool :=
  match nop n with OpW => true | _ => false end.

Definition remove_wire_nets (nl : netlist) : netlist := remove_nets_by is_w_net nl.

Fixpoint zrange_from (lo : Z) (k : nat) : list Z :=
  match k with
  | O => []
  | S k' => lo :: zrange_from (lo + 1) k'
  end.

Fixpoint list_Z_eqb (a b : list Z) : bool :=
  match a, b with
  | [], [] => true
  | x :: a', y :: b' => (x =? y) && list_Z_eqb a' b'
  | _, _ => false
  end.

(* is_net_slicing_entire_wire *)
Definition is_full_slice (nl : netlist) (n : net) : bool :=
  match nop n with
  | OpSelect idx =>
      (width_of nl (arg n 0) =? width_of nl (ndest n))
      && match idx with
         | [] => false
         | lo :: _ => list_Z_eqb idx (zrange_from lo (Z.to_nat (last idx 0 + 1 - lo)))
         end
  | _ => false
  end.

Definition remove_slice_nets (nl : netlist) : netlist := remove_nets_by (is_full_slice nl) nl.

(* ------------------------------------------------------- _constant_prop_pass *)

Inductive cp_dec :=
| CpKeep
| CpConst (c : Z)        (* replace_net_with_const *)
| CpWire (w : wid)       (* replace_net_with_wire(other_wire) *)
| CpNot (w : wid).       (* replace_net(LogicNet('~', other_wire)) *)

Definition cp_decide (nl : netlist) (n : net) : cp_dec :=
  let o := nop n in
  if negb (valid_net_ops o) then CpKeep else
  let numc := length (filter (is_const nl) (nargs n)) in
  if Nat.eqb numc 0 || no_optimization_ops o then CpKeep else
  if in_two_var_ops o && Nat.eqb numc 1 then
    if forallb (fun w => width_of nl w =? 1) (nargs n ++ net_dests n) then
      let a0 := arg n 0 in
      let a1 := arg n 1 in
      let cw := if is_const nl a1 then a1 else a0 in
      let ow := if is_const nl a1 then a0 else a1 in
      match two_var_ops o [const_val nl cw; 0], two_var_ops o [const_val nl cw; 1] with
      | Some o0, Some o1 =>
          if o0 =? o1 then CpConst o0
          else if o0 =? 0 then CpWire ow
          else CpNot ow
      | _, _ => CpKeep
      end
    else CpKeep
  else if in_two_var_ops o then
    match two_var_ops o [const_val nl (arg n 0); const_val nl (arg n 1)] with
    | Some c => CpConst c
    | None => CpKeep
    end
  else
    match one_var_ops o [const_val nl (arg n 0); mask (width_of nl (arg n 0))] with
    | Some c => CpConst c
    | None => CpKeep
    end.

Definition max_wid (nl : netlist) : Z :=
  fold_left (fun m x => Z.max m (wname x)) (wires nl) 0.

(* per net (k = the fresh constant's id):
   (nets emitted, producer links, constant wires created) *)
Definition cp_apply (nl : netlist) (k : Z) (n : net)
  : list net * list (Z * Z) * list wire :=
  let d := ndest n in
  let wd := width_of nl d in
  match cp_decide nl n with
  | CpKeep => ([n], [], [])
  | CpConst c =>
      let cw := mkWire k wd (KConst (c mod 2 ^ wd)) in
      if is_output nl d then ([mkNet OpW [k] d], [], [cw]) else ([], [(d, k)], [cw])
  | CpWire w =>
      if is_output nl d then ([mkNet OpW [w] d], [], []) else ([], [(d, w)], [])
  | CpNot w => ([mkNet OpNot [w] d], [], [])
  end.

(* the fresh Const created for net n is named after n's destination (any fresh
   name will do: each destination has a single driver) *)
Definition constant_prop_pass (nl : netlist) : netlist :=
  let base := max_wid nl + 1 in
  let res := fun n => cp_apply nl (base + ndest n) n in
  let m := flat_map (fun n => snd (fst (res n))) (nets nl) in
  let rho := find_producer (S (length (nets nl))) m in
  remove_unused_wires
    (mkNetlist (wires nl ++ flat_map (fun n => snd (res n)) (nets nl))
               (flat_map (fun n => map (map_args rho) (fst (fst (res n)))) (nets nl))
               (mems nl)).

(* `while net_count.shrinking(): pass` with _NetCount (prev = 1000*len initially,
   continue while cur <= prev - 1) *)
Fixpoint shrink_loop (fuel : nat) (pass : netlist -> netlist) (prev : Z) (nl : netlist) : netlist :=
  match fuel with
  | O => nl
  | S f =>
      let cur := Z.of_nat (length (nets nl)) in
      if cur <=? prev - 1 then shrink_loop f pass cur (pass nl) else nl
  end.

Definition shrinking (pass : netlist -> netlist) (nl : netlist) : netlist :=
  shrink_loop (S (S (length (nets nl)))) pass (1000 * Z.of_nat (length (nets nl))) nl.

Definition constant_propagation (nl : netlist) : netlist := shrinking constant_prop_pass nl.

(* ---------------------------------------------------- _remove_unlistened_nets *)

Definition add_new (l xs : list wid) : list wid :=
  fold_left (fun acc x => if mem_in x acc then acc else x :: acc) xs l.

Definition seed_net (nl : netlist) (n : net) : bool :=
  negb (op_has_dest (nop n)) || is_output nl (ndest n).

Definition listened_net (nl : netlist) (lw : list wid) (n : net) : bool :=
  seed_net nl n || mem_in (ndest n) lw.

(* one sweep over the nets from last to first *)
Definition listen_round (nl : netlist) (lw : list wid) : list wid :=
  fold_right (fun n acc => if listened_net nl acc n then add_new acc (nargs n) else acc)
             lw (nets nl).

Fixpoint listen_fix (fuel : nat) (nl : netlist) (lw : list wid) : list wid :=
  match fuel with
  | O => lw
  | S f => let lw' := listen_round nl lw in
           if Nat.eqb (length lw') (length lw) then lw else listen_fix f nl lw'
  end.

Definition listened_wires (nl : netlist) : list wid :=
  listen_fix (S (length (nets nl))) nl [].

Definition remove_unlistened_nets (nl : netlist) : netlist :=
  let lw := listened_wires nl in
  remove_unused_wires
    (mkNetlist (wires nl) (filter (listened_net nl lw) (nets nl)) (mems nl)).

(* ------------------------------------------------ common_subexp_elimination *)

(* _const_to_int: a Const argument is represented by (bitwidth, value), any other
   wire by its identity *)
Inductive karg := KW (w : wid) | KC (width val : Z).

Definition karg_of (nl : netlist) (w : wid) : karg :=
  match kind_of nl w with
  | KConst c => KC (width_of nl w) c
  | _ => KW w
  end.

Definition karg_eqb (a b : karg) : bool :=
  match a, b with
  | KW x, KW y => x =? y
  | KC w v, KC w' v' => (w =? w') && (v =? v')
  | _, _ => false
  end.

(* some total order standing for `sorted(..., key=hash)` *)
Definition karg_leb (a b : karg) : bool :=
  match a, b with
  | KW x, KW y => x <=? y
  | KW _, KC _ _ => true
  | KC _ _, KW _ => false
  | KC w v, KC w' v' => (w <? w') || ((w =? w') && (v <=? v'))
  end.

Fixpoint kinsert (a : karg) (l : list karg) : list karg :=
  match l with
  | [] => [a]
  | b :: r => if karg_leb a b then a :: l else b :: kinsert a r
  end.

Definition ksort (l : list karg) : list karg := fold_right kinsert [] l.

Definition op_eqb (a b : op) : bool :=
  match a, b with
  | OpW, OpW | OpNot, OpNot | OpAnd, OpAnd | OpOr, OpOr | OpXor, OpXor | OpNand, OpNand
  | OpAdd, OpAdd | OpSub, OpSub | OpMul, OpMul | OpLt, OpLt | OpGt, OpGt | OpEq, OpEq
  | OpMux, OpMux | OpConcat, OpConcat | OpReg, OpReg => true
  | OpSelect i, OpSelect j => list_Z_eqb i j
  | OpMemRd m, OpMemRd m' => m =? m'
  | OpMemWr m, OpMemWr m' => m =? m'
  | _, _ => false
  end.

Definition cse_key (nl : netlist) (n : net) : op * list karg :=
  let ks := map (karg_of nl) (nargs n) in
  (nop n, if ops_where_arg_order_matters (nop n) then ks else ksort ks).

Fixpoint kargs_eqb (a b : list karg) : bool :=
  match a, b with
  | [], [] => true
  | x :: a', y :: b' => karg_eqb x y && kargs_eqb a' b'
  | _, _ => false
  end.

Definition key_eqb (a b : op * list karg) : bool :=
  op_eqb (fst a) (fst b) && kargs_eqb (snd a) (snd b).

(* _has_normal_dest_wire *)
Definition normal_dest (nl : netlist) (n : net) : bool :=
  op_has_dest (nop n)
  && negb (is_register nl (ndest n)) && negb (is_output nl (ndest n)).

Fixpoint key_lookup (k : op * list karg) (tab : list ((op * list karg) * wid)) : option wid :=
  match tab with
  | [] => None
  | (k', d) :: r => if key_eqb k' k then Some d else key_lookup k r
  end.

(* one round: (kept nets, wire_map old_dst -> kept dst) ; keys are those of the
   nets as they are at the start of the round *)
Fixpoint cse_scan (nl : netlist) (tab : list ((op * list karg) * wid)) (ns : list net)
  : list net * list (Z * Z) :=
  match ns with
  | [] => ([], [])
  | n :: r =>
      if normal_dest nl n then
        let k := cse_key nl n in
        match key_lookup k tab with
        | Some d => let '(kept, wm) := cse_scan nl tab r in (kept, (ndest n, d) :: wm)
        | None => let '(kept, wm) := cse_scan nl ((k, ndest n) :: tab) r in (n :: kept, wm)
        end
      else let '(kept, wm) := cse_scan nl tab r in (n :: kept, wm)
  end.

Definition cse_round (nl : netlist) : netlist :=
  let '(kept, wm) := cse_scan nl [] (nets nl) in
  let f := fun w => match assoc wm w with Some d => d | None => w end in
  mkNetlist (filter (fun x => match assoc wm (wname x) with Some _ => false | None => true end)
                    (wires nl))
            (map (map_args f) kept) (mems nl).

Definition common_subexp_elimination (nl : netlist) : netlist := shrinking cse_round nl.

(* ------------------------------------------------------------------ optimize *)

Definition optimize (nl : netlist) : netlist :=
  common_subexp_elimination
    (remove_unlistened_nets
       (constant_propagation
          (remove_slice_nets (remove_wire_nets nl)))).
