(* C11 -- well-formedness is invariant under renaming: wfb (rename f nl) = wfb nl.
   Consequence: every theorem with premise `wfb` (C01: pyrtl.Simulation refines
   the reference semantics) applies to the copy exactly when it applies to the
   source, so "Simulation of the copy = Simulation of the source" follows from
   C01 on both sides and C11_rename_preserves_semantics in the middle. *)
From PyRTL Require Import Netlist.Sem Netlist.WFDefs Pass.Copy Pass.CopyProofs.
From Coq Require Import ZifyBool.

Section RenameWF.
Variable f : wid -> wid.
Hypothesis f_inj : forall a b, f a = f b -> a = b.

Lemma mem_in_map a l : mem_in (f a) (map f l) = mem_in a l.
Proof.
  unfold mem_in. induction l as [|x r IH]; [reflexivity|].
  cbn [map existsb]. rewrite (eqb_inj f f_inj), IH. reflexivity.
Qed.

Lemma forallb_map {A B} (p : B -> bool) (g : A -> B) l :
  forallb p (map g l) = forallb (fun x => p (g x)) l.
Proof. induction l as [|x r IH]; [reflexivity|]. cbn [map forallb]. rewrite IH. reflexivity. Qed.

Lemma forallb_ext_in {A} (p q : A -> bool) l :
  (forall x, In x l -> p x = q x) -> forallb p l = forallb q l.
Proof.
  induction l as [|x r IH]; intro H; [reflexivity|]. cbn [forallb].
  rewrite (H x (or_introl eq_refl)), IH; [reflexivity|]. intros y Hy. apply H. right. exact Hy.
Qed.

Lemma filter_map_comm {A B} (p : B -> bool) (g : A -> B) l :
  filter p (map g l) = map g (filter (fun x => p (g x)) l).
Proof.
  induction l as [|x r IH]; [reflexivity|]. cbn [map filter].
  destruct (p (g x)); cbn [map]; rewrite IH; reflexivity.
Qed.

Lemma is_base_rename nl w : is_base (rename f nl) (f w) = is_base nl w.
Proof.
  unfold is_base, rename. cbn [wires]. rewrite (find_wire_rename f f_inj).
  destruct (find_wire (wires nl) w); reflexivity.
Qed.

Lemma rdy0_rename nl : rdy0 (rename f nl) = map f (rdy0 nl).
Proof.
  unfold rdy0, rename. cbn [wires]. rewrite map_map. cbn [rename_wire wname].
  rewrite <- (map_map wname f). rewrite filter_map_comm. f_equal.
  apply filter_ext. intro a.
  change (mkNetlist (map (rename_wire f) (wires nl)) (map (rename_net f) (nets nl)) (mems nl))
    with (rename f nl).
  apply is_base_rename.
Qed.

Lemma rdy_next_rename rdy n : rdy_next (map f rdy) (rename_net f n) = map f (rdy_next rdy n).
Proof. unfold rdy_next. cbn [rename_net nop ndest]. destruct (is_comb (nop n)); reflexivity. Qed.

Lemma args_ready_rename rdy n :
  forallb (fun a => mem_in a (map f rdy)) (nargs (rename_net f n))
  = forallb (fun a => mem_in a rdy) (nargs n).
Proof.
  cbn [rename_net nargs]. rewrite forallb_map. apply forallb_ext_in. intros a _. apply mem_in_map.
Qed.

Lemma op_ok_rename nl n :
  arity_ok (nop n) (length (nargs n)) = true ->
  op_ok (rename f nl) (rename_net f n) = op_ok nl n.
Proof.
  intro Ha. unfold op_ok.
  replace (ndest (rename_net f n)) with (f (ndest n)) by reflexivity.
  replace (nop (rename_net f n)) with (nop n) by reflexivity.
  rewrite (width_of_rename f f_inj).
  destruct (nop n) eqn:E; try reflexivity; cbn [arity_ok] in Ha; apply Nat.eqb_eq in Ha.
  - rewrite (arg_rename f n 0) by lia. rewrite (width_of_rename f f_inj). reflexivity.
  - rewrite (arg_rename f n 0), (arg_rename f n 1) by lia.
    rewrite !(width_of_rename f f_inj). reflexivity.
Qed.

Lemma net_ok_rename nl rdy n :
  net_ok (rename f nl) (map f rdy) (rename_net f n) = net_ok nl rdy n.
Proof.
  unfold net_ok.
  replace (nop (rename_net f n)) with (nop n) by reflexivity.
  destruct (is_comb (nop n)); [|reflexivity].
  rewrite args_ready_rename.
  replace (ndest (rename_net f n)) with (f (ndest n)) by reflexivity.
  rewrite mem_in_map.
  replace (length (nargs (rename_net f n))) with (length (nargs n))
    by (cbn [rename_net nargs]; rewrite map_length; reflexivity).
  destruct (arity_ok (nop n) (length (nargs n))) eqn:Ha.
  - rewrite (op_ok_rename nl n Ha). reflexivity.
  - rewrite !andb_false_r. reflexivity.
Qed.

Lemma nets_ok_rename nl ns : forall rdy,
  nets_ok (rename f nl) (map f rdy) (map (rename_net f) ns) = nets_ok nl rdy ns.
Proof.
  induction ns as [|n r IH]; intro rdy; [reflexivity|].
  cbn [map nets_ok]. rewrite net_ok_rename, rdy_next_rename, IH. reflexivity.
Qed.

Lemma fold_rdy_rename ns : forall rdy,
  fold_left rdy_next (map (rename_net f) ns) (map f rdy) = map f (fold_left rdy_next ns rdy).
Proof.
  induction ns as [|n r IH]; intro rdy; [reflexivity|].
  cbn [map fold_left]. rewrite rdy_next_rename. apply IH.
Qed.

Lemma rdy_final_rename nl : rdy_final (rename f nl) = map f (rdy_final nl).
Proof.
  unfold rdy_final. rewrite rdy0_rename. unfold rename at 1. cbn [nets]. apply fold_rdy_rename.
Qed.

Lemma forallb_wires_rename nl (p q : wire -> bool) :
  (forall x, p (rename_wire f x) = q x) ->
  forallb p (wires (rename f nl)) = forallb q (wires nl).
Proof.
  intro H. unfold rename. cbn [wires]. rewrite forallb_map. apply forallb_ext_in. intros x _. apply H.
Qed.

Lemma forallb_nets_rename nl (p q : net -> bool) :
  (forall n, p (rename_net f n) = q n) ->
  forallb p (nets (rename f nl)) = forallb q (nets nl).
Proof.
  intro H. unfold rename. cbn [nets]. rewrite forallb_map. apply forallb_ext_in. intros x _. apply H.
Qed.

Theorem wfb_rename nl : wfb (rename f nl) = wfb nl.
Proof.
  unfold wfb. rewrite rdy0_rename, rdy_final_rename.
  rewrite (forallb_wires_rename nl _ (fun x => 0 <=? wwidth x)) by reflexivity.
  rewrite (forallb_wires_rename nl _ (fun x => match wkind x with
                                               | KConst c => inrangeb c (wwidth x)
                                               | _ => true
                                               end)) by reflexivity.
  rewrite (forallb_wires_rename nl _ (fun x => mem_in (wname x) (rdy_final nl)))
    by (intro x; cbn [rename_wire wname]; apply mem_in_map).
  rewrite (forallb_nets_rename nl _
             (fun n => if is_comb (nop n) then true
                       else forallb (fun a => mem_in a (rdy_final nl)) (nargs n)
                            && arity_ok (nop n) (length (nargs n)))).
  2:{ intro n. replace (nop (rename_net f n)) with (nop n) by reflexivity.
      destruct (is_comb (nop n)); [reflexivity|].
      rewrite args_ready_rename. cbn [rename_net nargs]. rewrite map_length. reflexivity. }
  replace (nets (rename f nl)) with (map (rename_net f) (nets nl)) by reflexivity.
  rewrite nets_ok_rename. reflexivity.
Qed.

Lemma seq_arity_rename nl : seq_arity (rename f nl) = seq_arity nl.
Proof.
  unfold seq_arity, rename. cbn [nets]. rewrite forallb_map.
  apply forallb_ext_in. intros n _. unfold seq_arity_ok. cbn [rename_net nop nargs].
  rewrite map_length. reflexivity.
Qed.

End RenameWF.

(* the required copy of a well-formed design is well-formed *)
Theorem copy_spec_wfb nl : wfb (fst (copy_block_spec nl)) = wfb nl.
Proof.
  pose proof (copy_spec_isomorphic nl) as [H Hi]. rewrite H. apply wfb_rename. exact Hi.
Qed.

(* renaming is invertible on designs: renaming back by any left inverse gives
   the source again (so "is a renaming of" is symmetric: the source is equally
   a renaming of the copy) *)
Lemma rename_rename f g nl : rename g (rename f nl) = rename (fun w => g (f w)) nl.
Proof.
  unfold rename. cbn [wires nets mems]. rewrite !map_map. f_equal.
  apply map_ext. intro n. unfold rename_net. cbn [nop nargs ndest]. rewrite map_map. reflexivity.
Qed.

Lemma rename_id_on nl (h : wid -> wid) : (forall w, h w = w) -> rename h nl = nl.
Proof.
  intro H. destruct nl as [ws ns ms]. unfold rename. cbn [wires nets mems]. f_equal.
  - rewrite <- (map_id ws) at 2. apply map_ext. intros [a b c]. unfold rename_wire. cbn. rewrite H. reflexivity.
  - rewrite <- (map_id ns) at 2. apply map_ext. intros [o a d]. unfold rename_net. cbn. rewrite H. f_equal.
    rewrite <- (map_id a) at 2. apply map_ext. exact H.
Qed.

Theorem rename_left_inverse f g nl : (forall w, g (f w) = w) -> rename g (rename f nl) = nl.
Proof. intro H. rewrite rename_rename. apply rename_id_on. exact H. Qed.

Theorem copy_spec_invertible nl :
  rename (fun w => w - fresh_offset nl) (fst (copy_block_spec nl)) = nl.
Proof.
  pose proof (copy_spec_isomorphic nl) as [H _]. rewrite H.
  apply rename_left_inverse. intro w. unfold copy_block_spec, copy_with, fresh_map. cbn [snd]. lia.
Qed.

(* ---------------------------------------------------------------- interface, unconnected pins *)

(* every DECLARED wire of the source -- whether or not any net mentions it (a
   reserved Input pin, a pin left dangling by an earlier in-place optimize, an
   unused Const) -- has its clone in the copy: _clone_block_and_wires iterates
   over block_in.wirevector_subset(), not over the wires of the nets *)
Lemma copy_keeps_every_declared_wire ck nl x :
  In x (wires nl) -> In (clone_wire ck (fresh_map nl) x) (wires (fst (copy_with ck nl))).
Proof. intro H. unfold copy_with. cbn [fst wires]. apply in_map. exact H. Qed.

(* the interface of a design: its Input and Output pins with their widths *)
Definition is_io (x : wire) : bool :=
  match wkind x with KInput | KOutput => true | _ => false end.
Definition iface (nl : netlist) : list (wid * Z * kind) :=
  map (fun x => (wname x, wwidth x, wkind x)) (filter is_io (wires nl)).

Lemma iface_rename f nl :
  iface (rename f nl) = map (fun p => (f (fst (fst p)), snd (fst p), snd p)) (iface nl).
Proof.
  unfold iface, rename. cbn [wires]. induction (wires nl) as [|x r IH]; [reflexivity|].
  cbn [map filter].
  replace (is_io (rename_wire f x)) with (is_io x) by reflexivity.
  destruct (is_io x); cbn [map fst snd rename_wire wname wwidth wkind]; rewrite IH; reflexivity.
Qed.

Theorem copy_spec_interface nl :
  iface (fst (copy_block_spec nl))
  = map (fun p => (snd (copy_block_spec nl) (fst (fst p)), snd (fst p), snd p)) (iface nl).
Proof.
  pose proof (copy_spec_isomorphic nl) as [H _]. rewrite H. apply iface_rename.
Qed.
