(* C09 -- the per-pass statements assembled from the generic lemma, the rule
   lemmas and the postcondition lemmas. *)
From PyRTL Require Import Pass.Lower Pass.RewriteSound Pass.GateSound Pass.LowerSound Pass.LowerPost.
From PyRTL Require Import Gen.LowerRules Netlist.Sanity.
From Coq Require Import ZifyBool.

(* every declared wire (every Input, Output, Register, Const, named wire) has the same value *)
Definition same_on_wires (nl : netlist) (v v' : wid -> Z) : Prop :=
  forall x, In x (wires nl) -> v (wname x) = v' (wname x).

Lemma Forall2_impl {A B} (R S : A -> B -> Prop) l1 l2 :
  (forall a b, R a b -> S a b) -> Forall2 R l1 l2 -> Forall2 S l1 l2.
Proof. intros H F. induction F; constructor; auto. Qed.

Theorem pass_preserves P rl nl :
  (forall B, rule_ok P rl nl B) -> Forall P (nets nl) ->
  forall dflt st inss,
    Forall2 (same_on_wires nl) (fst (run nl dflt st inss)) (fst (run (apply_rule rl nl) dflt st inss))
    /\ st_eq (snd (run nl dflt st inss)) (snd (run (apply_rule rl nl) dflt st inss)).
Proof.
  intros Hr HP dflt st inss.
  destruct (local_rewrite_sound P rl nl (Hr (fresh nl)) HP dflt st inss) as [H1 H2].
  split; [|exact H2]. eapply Forall2_impl; [|exact H1].
  intros v v' Ha x Hx. apply Ha. apply fresh_wire. exact Hx.
Qed.

Theorem nand_synth_preserves nl : Forall (gate_net_ok nl) (nets nl) ->
  forall dflt st inss,
    Forall2 (same_on_wires nl) (fst (run nl dflt st inss)) (fst (run (nand_synth nl) dflt st inss))
    /\ st_eq (snd (run nl dflt st inss)) (snd (run (nand_synth nl) dflt st inss)).
Proof.
  apply (pass_preserves (gate_net_ok nl) nand_rule nl).
  intro B. apply gate_rule_ok. exact nand_synth_rules_ok.
Qed.

Theorem and_inverter_synth_preserves nl : Forall (gate_net_ok nl) (nets nl) ->
  forall dflt st inss,
    Forall2 (same_on_wires nl) (fst (run nl dflt st inss)) (fst (run (and_inverter_synth nl) dflt st inss))
    /\ st_eq (snd (run nl dflt st inss)) (snd (run (and_inverter_synth nl) dflt st inss)).
Proof.
  apply (pass_preserves (gate_net_ok nl) aig_rule nl).
  intro B. apply gate_rule_ok. exact and_inverter_synth_rules_ok.
Qed.

Theorem two_way_concat_preserves nl : Forall (concat_net_ok nl) (nets nl) ->
  forall dflt st inss,
    Forall2 (same_on_wires nl) (fst (run nl dflt st inss)) (fst (run (two_way_concat nl) dflt st inss))
    /\ st_eq (snd (run nl dflt st inss)) (snd (run (two_way_concat nl) dflt st inss)).
Proof. apply (pass_preserves (concat_net_ok nl) two_way_concat_rule nl). intro B. apply two_way_concat_rule_ok. Qed.

Theorem one_bit_selects_preserves nl : Forall (select_net_ok nl) (nets nl) ->
  forall dflt st inss,
    Forall2 (same_on_wires nl) (fst (run nl dflt st inss)) (fst (run (one_bit_selects nl) dflt st inss))
    /\ st_eq (snd (run nl dflt st inss)) (snd (run (one_bit_selects nl) dflt st inss)).
Proof. apply (pass_preserves (select_net_ok nl) one_bit_selects_rule nl). intro B. apply one_bit_selects_rule_ok. Qed.

(* the per-net hypotheses follow from the sanity_check model (C10) + non-negative widths *)
Definition widths_nonneg (nl : netlist) : Prop := forall w, 0 <= width_of nl w.

Lemma widths_nonneg_of_wires nl : forallb (fun x => 0 <=? wwidth x) (wires nl) = true -> widths_nonneg nl.
Proof.
  intros H w. unfold width_of. destruct (find_wire (wires nl) w) as [x|] eqn:E; [|lia].
  rewrite forallb_forall in H.
  assert (Hin : In x (wires nl)).
  { clear H. induction (wires nl) as [|y r IH]; cbn in E; [discriminate|].
    destruct (wname y =? w); [injection E as ->; left; reflexivity|right; auto]. }
  specialize (H x Hin). lia.
Qed.

Lemma sanity_gate_net_ok nl n : widths_nonneg nl -> sanity_net nl n = true -> gate_net_ok nl n.
Proof.
  intros Hnn H. unfold sanity_net in H. repeat (apply andb_true_iff in H; destruct H as [H ?]).
  unfold gate_net_ok. unfold Sanity.W in *.
  destruct (nop n) eqn:Eo; try exact I;
    (destruct (nargs n) as [|a [|b [|? ?]]] eqn:Ea; cbn in *; try discriminate;
     exists a, b; unfold arg in *; rewrite Ea in *; cbn in *;
     split; [reflexivity|split; [lia|split; [apply Hnn|lia]]]).
Qed.

Lemma sanity_concat_net_ok nl n : widths_nonneg nl -> sanity_net nl n = true -> concat_net_ok nl n.
Proof.
  intros Hnn H. split; [exact Hnn|]. intro Eo.
  unfold sanity_net in H. repeat (apply andb_true_iff in H; destruct H as [H ?]).
  rewrite Eo in *. unfold Sanity.W in *. lia.
Qed.

Lemma sanity_select_shape_ok nl n :
  forallb (fun x => 1 <=? wwidth x) (wires nl) = true -> sanity_net nl n = true -> select_shape_ok nl n.
Proof.
  intros Hw H. unfold sanity_net in H. repeat (apply andb_true_iff in H; destruct H as [H ?]).
  unfold select_shape_ok. destruct (nop n) as [| | | | | | | | | | | | | |idx| | |] eqn:Eo; try exact I.
  unfold Sanity.W in *. cbn in *.
  destruct (nargs n) as [|src [|? ?]] eqn:Ea; cbn in *; try discriminate.
  assert (Hd : 1 <= width_of nl (ndest n)).
  { unfold declared in *. unfold width_of. destruct (find_wire (wires nl) (ndest n)) as [x|] eqn:E; [|discriminate].
    rewrite forallb_forall in Hw.
    assert (Hin : In x (wires nl)).
    { clear -E. induction (wires nl) as [|y r IH]; cbn in E; [discriminate|].
      destruct (wname y =? ndest n); [injection E as ->; left; reflexivity|right; auto]. }
    specialize (Hw x Hin). lia. }
  split; [exists src; reflexivity|split; [exact Hd|]].
  intro He. subst idx. cbn in *. lia.
Qed.

(* ---------- the statements for blocks accepted by sanity_check ---------- *)
Lemma sanity_block_parts nl : sanity_block nl = true ->
  Forall (fun n => sanity_net nl n = true) (nets nl)
  /\ forallb (fun x => 1 <=? wwidth x) (wires nl) = true.
Proof.
  intro H. unfold sanity_block in H. repeat (apply andb_true_iff in H; destruct H as [H ?]).
  split; [apply forallb_Forall; assumption|assumption].
Qed.

Lemma sane_widths_nonneg nl : sanity_block nl = true -> widths_nonneg nl.
Proof.
  intro H. destruct (sanity_block_parts nl H) as [_ Hw]. apply widths_nonneg_of_wires.
  rewrite forallb_forall in *. intros x Hx. specialize (Hw x Hx). lia.
Qed.

Definition preserved (nl nl' : netlist) : Prop :=
  forall dflt st inss,
    Forall2 (same_on_wires nl) (fst (run nl dflt st inss)) (fst (run nl' dflt st inss))
    /\ st_eq (snd (run nl dflt st inss)) (snd (run nl' dflt st inss)).

Theorem nand_synth_preserves_sane nl : sanity_block nl = true -> preserved nl (nand_synth nl).
Proof.
  intro H. unfold preserved. apply nand_synth_preserves. destruct (sanity_block_parts nl H) as [Hn _].
  eapply Forall_impl; [|exact Hn]. intros n Hs. apply sanity_gate_net_ok; [apply sane_widths_nonneg; exact H|exact Hs].
Qed.

Theorem and_inverter_synth_preserves_sane nl : sanity_block nl = true -> preserved nl (and_inverter_synth nl).
Proof.
  intro H. unfold preserved. apply and_inverter_synth_preserves. destruct (sanity_block_parts nl H) as [Hn _].
  eapply Forall_impl; [|exact Hn]. intros n Hs. apply sanity_gate_net_ok; [apply sane_widths_nonneg; exact H|exact Hs].
Qed.

Theorem two_way_concat_preserves_sane nl : sanity_block nl = true -> preserved nl (two_way_concat nl).
Proof.
  intro H. unfold preserved. apply two_way_concat_preserves. destruct (sanity_block_parts nl H) as [Hn _].
  eapply Forall_impl; [|exact Hn]. intros n Hs. apply sanity_concat_net_ok; [apply sane_widths_nonneg; exact H|exact Hs].
Qed.

Theorem one_bit_selects_preserves_sane nl : sanity_block nl = true -> preserved nl (one_bit_selects nl).
Proof.
  intro H. unfold preserved. apply one_bit_selects_preserves. apply Forall_forall. intros n _. apply sane_widths_nonneg. exact H.
Qed.

Theorem nand_synth_post nl : pre_nand_synth nl = true -> post_nand_synth (nand_synth nl) = true.
Proof. apply gate_post. exact nand_rules_emit. Qed.

Theorem and_inverter_synth_post nl :
  pre_and_inverter_synth nl = true -> post_and_inverter_synth (and_inverter_synth nl) = true.
Proof. apply gate_post. exact aig_rules_emit. Qed.

Theorem one_bit_selects_post_sane nl : sanity_block nl = true ->
  post_one_bit_selects (one_bit_selects nl) = true.
Proof.
  intro H. apply one_bit_selects_post. destruct (sanity_block_parts nl H) as [Hn Hw].
  eapply Forall_impl; [|exact Hn]. intros n Hs. apply sanity_select_shape_ok; assumption.
Qed.

(* ---------- direct_connect_outputs: witnesses ---------- *)
(* `r.next <<= i; o <<= r` *)
Definition dco_reg_witness : netlist :=
  mkNetlist [mkWire 1 2 KInput; mkWire 2 2 KOutput; mkWire 3 2 (KReg None)]
            [mkNet OpW [3] 2; mkNet OpReg [1] 3] [].

(* the code before the F4 repair skipped only '@' producers *)
Definition dco_skips_unrepaired (o : op) : bool := match o with OpMemWr _ => true | _ => false end.

(* `t1 <<= ~a; t2 <<= t1; o <<= t2` *)
Definition dco_chain_witness : netlist :=
  mkNetlist [mkWire 1 3 KInput; mkWire 2 3 KOutput; mkWire 3 3 KWire; mkWire 4 3 KWire; mkWire 5 3 KWire]
            [mkNet OpNot [1] 5; mkNet OpW [5] 3; mkNet OpW [3] 4; mkNet OpW [4] 2] [].

(* ---------- direct_connect_outputs postcondition for sane blocks ---------- *)
Lemma nodupb_NoDup l : nodupb l = true -> NoDup l.
Proof.
  induction l as [|x r IH]; intro H; [constructor|].
  cbn [nodupb] in H. apply andb_true_iff in H. destruct H as [H1 H2].
  constructor; [|apply IH; exact H2].
  intro Hin. apply mem_in_spec in Hin. rewrite Hin in H1. discriminate.
Qed.

Lemma sane_outputs_unread nl : sanity_block nl = true -> outputs_unread nl.
Proof.
  intros H x n Hx Hk Hn Hin.
  pose proof H as H'. unfold sanity_block in H'. repeat (apply andb_true_iff in H'; destruct H' as [H' ?]).
  rewrite forallb_forall in H'. specialize (H' n Hn).
  unfold sanity_net in H'. repeat (apply andb_true_iff in H'; destruct H' as [H' ?]).
  match goal with Hf : forallb (fun x0 => negb (kind_is_output nl x0)) (nargs n) = true |- _ =>
    rewrite forallb_forall in Hf; specialize (Hf _ Hin); unfold kind_is_output, kind_of in Hf end.
  match goal with Hd : nodupb (map wname (wires nl)) = true |- _ =>
    rewrite (find_wire_nodup (wires nl) x (nodupb_NoDup _ Hd) Hx) in * end.
  rewrite Hk in *. discriminate.
Qed.

Theorem dco_post_sane nl : sanity_block nl = true ->
  post_direct_connect_outputs (direct_connect_outputs nl) = true.
Proof. intro H. apply dco_post. apply sane_outputs_unread. exact H. Qed.
