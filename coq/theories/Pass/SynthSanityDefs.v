(* Premises of the C03 theorems stated through PyRTL's own check (definitions only):
   Gen/SanityNet.v `check` is the `if ...: raise` list of Block.sanity_check_net
   regenerated from pyrtl/core.py by py/genfrag_C10.py; synthesize() runs it
   (block_pre.sanity_check()) before doing anything else. *)
From PyRTL Require Import Base.PyZ Netlist.Sem Netlist.Sanity Gen.SanityNet.

(* WireVector.__init__ rejects bitwidth <= 0 *)
Definition widths_posb (nl : netlist) : bool := forallb (fun x => 1 <=? wwidth x) (wires nl).

(* no raise of the regenerated sanity_check_net fires on any net of the netlist *)
Definition sanity_nets_okb (nl : netlist) : bool :=
  forallb (fun n => match check (shape_of nl n) with None => true | Some _ => false end) (nets nl).


(* harness entry point: both premises on a dumped design *)
Definition sanity_prem_case (nl : netlist) : list Z := [b2z (widths_posb nl); b2z (sanity_nets_okb nl)].
