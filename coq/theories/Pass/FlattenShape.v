(* C03 shape, model side: the flattened synthesized netlist (Pass/Flatten.v)
   satisfies the SAME boolean predicate `shapeb` that py/checks/C03.py evaluates on
   every real synthesized block: only 1-bit ~ & | ^ nand w r nets, memory ports,
   and concat/select re-assembly adjacent to I/O vectors or memory ports. *)
From Coq Require Import ZArith List Bool Lia ZifyBool.
From PyRTL Require Import Base.PyZ Netlist.Sem Netlist.WFDefs Pass.BasicGates Pass.BasicGatesProofs
  Pass.Synth Pass.SynthProofs Pass.SynthStructure Pass.SynthHarness Pass.Flatten Pass.FlattenProofs.
Import ListNotations.
Open Scope Z_scope.

Definition is_gate (o : op) : bool :=
  match o with OpNot | OpAnd | OpOr | OpXor | OpNand => true | _ => false end.

Fixpoint ptemps (gs : list gnet) (base : Z) : list Z :=
  match gs with
  | [] => []
  | g :: r => (match g with
               | GMemRd _ _ _ _ _ => [base]
               | GMemWr _ _ _ _ _ _ => [base; base + 1]
               | _ => []
               end) ++ ptemps r (base + gnet_size g)
  end.

Section Shape.
Variable merge : bool.
Variable nl : netlist.
Hypothesis Hids : inc 0 (wires nl).
Hypothesis Hwf : wfb nl = true.
Hypothesis Hsy : synth_okb nl = true.

Local Notation bid := (bid nl).
Local Notation T0 := (T0 nl).
Local Notation nl' := (flatten merge nl).
Local Notation wnat := (wnat nl).

Lemma Hw : forallb (fun x => 0 <=? wwidth x) (wires nl) = true.
Proof. apply (wfb_parts nl Hwf). Qed.

Definition argloc (lo hi : Z) (x : net) : Prop := forall a, In a (nargs x) -> a < T0 \/ lo <= a < hi.

(* a net whose shape is decided locally: a 1-bit gate, buffer or register *)
Definition ok1 (lo hi : Z) (x : net) : Prop :=
  (is_gate (nop x) = true \/ nop x = OpW \/ nop x = OpReg) /\ all1 nl' x = true /\ argloc lo hi x.

Lemma ok1_shape lo hi x : ok1 lo hi x -> net_shape merge nl' x = true.
Proof.
  intros [[Hg|[Hg|Hg]] [H1 _]]; unfold net_shape.
  - destruct (nop x); try discriminate Hg; exact H1.
  - rewrite Hg, H1. reflexivity.
  - rewrite Hg. exact H1.
Qed.

Lemma ok1_weaken lo hi lo' hi' x : lo' <= lo -> hi <= hi' -> ok1 lo hi x -> ok1 lo' hi' x.
Proof.
  intros H1 H2 (A & B & C). split; [assumption|]. split; [assumption|].
  intros a Ha. destruct (C a Ha); [left; assumption|right; lia].
Qed.

Lemma bit_w1 a i : (i < wnat a)%nat -> w1 nl' (bid a i) = true /\ bid a i < T0.
Proof.
  intro Hi. destruct (bit_static merge nl Hids Hw a i Hi) as (_ & _ & _ & _ & W & _ & R & _).
  split; [unfold w1; rewrite W; reflexivity|lia].
Qed.

(* ---- gates of one expression ---- *)
Lemma emit_static Q g : forall base, T0 <= base ->
  (forall d, In d (snd (snd (emit nl g base))) -> In d (wires nl')) ->
  gclosed Q g = true -> (forall a i, Q a i = true -> w1 nl' (bid a i) = true /\ bid a i < T0) ->
  w1 nl' (fst (emit nl g base)) = true
  /\ (fst (emit nl g base) < T0 \/ base <= fst (emit nl g base) < base + gsize g)
  /\ (forall x, In x (fst (snd (emit nl g base))) -> ok1 base (base + gsize g) x).
Proof.
  induction g as [w i|b|a IHa|a IHa b IHb|a IHa b IHb|a IHa b IHb|a IHa b IHb];
    intros base Hbase Hdecl Hcl HQ; cbn [emit gsize gclosed] in *.
  1: { destruct (HQ w i Hcl) as [Q1 Q2]. cbn [fst snd]. split; [assumption|]. split; [left; assumption|intros x []]. }
  1: { cbn [fst snd] in *. split; [|split; [right; lia|intros x []]].
    pose proof (lookup_width merge nl Hids Hw _ (Hdecl _ (or_introl eq_refl))) as W. cbn [wname wwidth] in W.
    unfold w1. rewrite W. reflexivity. }
  1: { pose proof (gsize_nonneg a) as Ga. specialize (IHa (base + 1)).
    destruct (emit nl a (base + 1)) as [ia [na wa]]. cbn [fst snd] in *.
    destruct IHa as (A1 & A2 & A3); try assumption; try lia.
    { intros d Hd. apply Hdecl. right. assumption. }
    pose proof (lookup_width merge nl Hids Hw _ (Hdecl _ (or_introl eq_refl))) as W. cbn [wname wwidth] in W.
    assert (Wb : w1 nl' base = true) by (unfold w1; rewrite W; reflexivity).
    split; [assumption|]. split; [right; lia|].
    intros x Hx. apply in_app_or in Hx. destruct Hx as [Hx|[<-|[]]].
    + apply (ok1_weaken (base + 1) (base + 1 + gsize a)); [lia|lia|auto].
    + split; [left; reflexivity|]. split.
      * unfold all1. cbn [nargs ndest forallb]. rewrite A1, Wb. reflexivity.
      * intros z [<-|[]]. destruct A2; [left; assumption|right; lia]. }
  all: apply andb_true_iff in Hcl; destruct Hcl as [Ca Cb];
      pose proof (gsize_nonneg a) as Ga; pose proof (gsize_nonneg b) as Gb;
      unfold gate2 in *; specialize (IHa (base + 1)); specialize (IHb (base + 1 + gsize a));
      destruct (emit nl a (base + 1)) as [ia [na wa]]; destruct (emit nl b (base + 1 + gsize a)) as [ib [nb wb]];
      cbn [fst snd] in *;
      (destruct IHa as (A1 & A2 & A3); try assumption; try lia;
         [intros d Hd; apply Hdecl; right; apply in_or_app; left; assumption|]);
      (destruct IHb as (B1 & B2 & B3); try assumption; try lia;
         [intros d Hd; apply Hdecl; right; apply in_or_app; right; assumption|]);
      pose proof (lookup_width merge nl Hids Hw _ (Hdecl _ (or_introl eq_refl))) as W; cbn [wname wwidth] in W;
      (assert (Wb : w1 nl' base = true) by (unfold w1; rewrite W; reflexivity));
      (split; [assumption|]); (split; [right; lia|]);
      intros x Hx; apply in_app_or in Hx; destruct Hx as [Hx|Hx];
      [ apply (ok1_weaken (base + 1) (base + 1 + gsize a)); [lia|lia|auto]
      | apply in_app_or in Hx; destruct Hx as [Hx|[<-|[]]];
        [ apply (ok1_weaken (base + 1 + gsize a) (base + 1 + gsize a + gsize b)); [lia|lia|auto]
        | split; [left; reflexivity|]; split;
          [ unfold all1; cbn [nargs ndest forallb]; rewrite A1, B1, Wb; reflexivity
          | intros z [<-|[<-|[]]]; [destruct A2|destruct B2]; [left; assumption|right; lia|left; assumption|right; lia] ] ] ].
Qed.


Lemma emit_bits_static Q dest bits : forall j base, T0 <= base ->
  (forall d, In d (snd (emit_bits nl dest j bits base)) -> In d (wires nl')) ->
  forallb (gclosed Q) bits = true ->
  (forall a i, Q a i = true -> w1 nl' (bid a i) = true /\ bid a i < T0) ->
  (forall k, (k < length bits)%nat -> w1 nl' (bid dest (j + k)) = true) ->
  forall x, In x (fst (emit_bits nl dest j bits base)) -> ok1 base (base + bits_size bits) x.
Proof.
  induction bits as [|g r IH]; intros j base Hbase Hdecl Hcl HQ Hdest x; cbn [emit_bits].
  - intros [].
  - cbn [forallb] in Hcl. apply andb_true_iff in Hcl. destruct Hcl as [Cg Cr].
    pose proof (gsize_nonneg g) as Gg. pose proof (bits_size_nonneg r) as Gr.
    pose proof (emit_static Q g base Hbase) as Sg.
    cbn [emit_bits] in Hdecl.
    destruct (emit nl g base) as [id0 [ns ws]]. specialize (IH (S j) (base + gsize g)).
    destruct (emit_bits nl dest (S j) r (base + gsize g)) as [ns' ws']. cbn [fst snd] in *.
    destruct Sg as (G1 & G2 & G3); try assumption.
    { intros d Hd. apply Hdecl. apply in_or_app. left. assumption. }
    rewrite bits_size_cons. intro Hx. apply in_app_or in Hx. destruct Hx as [Hx|[<-|Hx]].
    + apply (ok1_weaken base (base + gsize g)); [lia|lia|auto].
    + split; [right; left; reflexivity|]. split.
      * unfold all1. cbn [nargs ndest forallb]. rewrite G1.
        pose proof (Hdest 0%nat ltac:(cbn [length]; lia)) as D. rewrite Nat.add_0_r in D. rewrite D. reflexivity.
      * intros z [<-|[]]. destruct G2; [left; assumption|right; lia].
    + apply (ok1_weaken (base + gsize g) (base + gsize g + bits_size r)); [lia|lia|].
      apply IH; try assumption; try lia.
      * intros d Hd. apply Hdecl. apply in_or_app. right. assumption.
      * intros k Hk. replace (S j + k)%nat with (j + S k)%nat by lia. apply Hdest. cbn [length]. lia.
Qed.

(* ---- memory-port re-assembly ---- *)
Lemma cat_shape a na t :
  (forall i, (i < na)%nat -> w1 nl' (bid a i) = true) ->
  (exists y, In y (nets nl') /\ mem_in t (nargs y) = true) ->
  (forall y, In y (nets nl') -> mem_in t (nargs y) = true -> is_port (nop y) = true) ->
  net_shape merge nl' (cat_net nl a na t) = true.
Proof.
  intros Hb [y [Hy Hu]] Hall. unfold net_shape, cat_net. cbn [nop nargs ndest].
  assert (F : forallb (w1 nl') (rev (map (bid a) (seq 0 na))) = true).
  { apply forallb_forall. intros z Hz. apply in_rev in Hz. apply in_map_iff in Hz.
    destruct Hz as [i [<- Hi]]. apply in_seq in Hi. apply Hb. lia. }
  rewrite F. destruct (if merge then is_kind_out nl' t else false); [reflexivity|].
  assert (Hin : In y (users nl' t)) by (unfold users; apply filter_In; split; assumption).
  destruct (users nl' t) as [|u us] eqn:E; [contradiction|]. cbn [length Nat.eqb]. rewrite <- E.
  apply forallb_forall. intros z Hz. unfold users in Hz. apply filter_In in Hz. destruct Hz as [Hz1 Hz2].
  rewrite (Hall z Hz1 Hz2). reflexivity.
Qed.

Lemma sel_shape i src d m y :
  w1 nl' d = true -> In y (nets nl') -> nop y = OpMemRd m -> ndest y = src ->
  net_shape merge nl' (mkNet (OpSelect [Z.of_nat i]) [src] d) = true.
Proof.
  intros Hd Hy Hop Hdst. unfold net_shape. cbn [nop nargs ndest length Nat.eqb arg nth]. rewrite Hd.
  destruct (if merge then is_kind_in nl' src else false); [reflexivity|].
  unfold produced_by. apply existsb_exists. exists y. split; [assumption|].
  rewrite Hop, Hdst, Z.eqb_refl. reflexivity.
Qed.

Lemma mem_in_self t l : mem_in t (t :: l) = true.
Proof. unfold mem_in. cbn [existsb]. rewrite Z.eqb_refl. reflexivity. Qed.

(* facts about one original net *)
Definition net_facts (n : net) : Prop :=
  In n (nets nl) /\ net_synth_ok nl n = true /\ arity_ok (nop n) (length (nargs n)) = true.

Lemma arity_all n : In n (nets nl) -> net_facts n.
Proof.
  intro Hn. split; [assumption|]. split.
  - unfold synth_okb in Hsy. rewrite forallb_forall in Hsy. auto.
  - destruct (wfb_parts nl Hwf) as (_ & _ & Hnets & Hseq & _).
    destruct (is_comb (nop n)) eqn:Hc.
    + assert (G : forall ns rdy, nets_ok nl rdy ns = true -> In n ns -> arity_ok (nop n) (length (nargs n)) = true).
      { induction ns as [|y r IH]; intros rdy Hok Hin; [contradiction|].
        cbn [WFDefs.nets_ok] in Hok. apply andb_true_iff in Hok. destruct Hok as [H1 H2].
        destruct Hin as [->|Hin]; [|eauto].
        unfold net_ok in H1. rewrite Hc in H1. apply andb_true_iff in H1. destruct H1 as [H1 _].
        apply andb_true_iff in H1. tauto. }
      eapply G; eassumption.
    + rewrite forallb_forall in Hseq. specialize (Hseq n Hn). rewrite Hc in Hseq.
      apply andb_true_iff in Hseq. tauto.
Qed.

(* the nets of one gate group: argument locality, and shape given the global user facts *)
Definition group_ctx (n : net) (base : Z) : Prop :=
  (forall x, In x (fst (emit_gnet nl (synth_net nl n) base)) -> In x (nets nl'))
  /\ (forall t, In t (ptemps [synth_net nl n] base) ->
        forall y, In y (nets nl') -> mem_in t (nargs y) = true -> is_port (nop y) = true).

Lemma group_shape n base : net_facts n -> T0 <= base ->
  (forall d, In d (snd (emit_gnet nl (synth_net nl n) base)) -> In d (wires nl')) ->
  forall x, In x (fst (emit_gnet nl (synth_net nl n) base)) ->
    (group_ctx n base -> net_shape merge nl' x = true)
    /\ argloc base (base + gnet_size (synth_net nl n)) x.
Proof.
  intros (Hn & Hso & Har) Hbase Hdecl x. unfold group_ctx.
  pose proof (lower_closed nl n Hso Har) as Hcl.
  assert (HQ : forall a i, Qn nl n a i = true -> w1 nl' (bid a i) = true /\ bid a i < T0).
  { intros a i Hq. unfold Qn in Hq. apply andb_true_iff in Hq. destruct Hq as [_ Hq]. apply Nat.ltb_lt in Hq.
    apply bit_w1. assumption. }
  pose proof (lower_len nl (Hw) n Hso Har) as Hlen0.
  assert (Hgen : synth_net nl n = GAssign (ndest n) (lower nl n) -> length (lower nl n) = wnat (ndest n) ->
            In x (fst (emit_gnet nl (synth_net nl n) base)) ->
            (group_ctx n base -> net_shape merge nl' x = true)
            /\ argloc base (base + gnet_size (synth_net nl n)) x).
  { intros E Hlen. unfold group_ctx. rewrite E in *. cbn [emit_gnet gnet_size fst snd] in *. intro Hx.
    pose proof (emit_bits_static (Qn nl n) (ndest n) (lower nl n) 0%nat base Hbase Hdecl Hcl HQ) as S.
    destruct (S (fun k Hk => proj1 (bit_w1 (ndest n) (0 + k) ltac:(cbn [Nat.add]; lia))) x Hx) as (A & B & C).
    split; [intros _; apply (ok1_shape base (base + bits_size (lower nl n))); repeat split; assumption|exact C]. }
  unfold group_ctx in Hgen. unfold net_synth_ok in Hso.
  destruct (nop n) eqn:Eop;
    try (apply Hgen; [unfold synth_net; rewrite Eop; reflexivity|apply Hlen0; [reflexivity|intros; discriminate]]).
  - (* register *)
    unfold synth_net in *. rewrite Eop in *. cbn [emit_gnet gnet_size fst snd] in *.
    intro Hx. apply in_map_iff in Hx. destruct Hx as [i [<- Hi]]. apply in_seq in Hi.
    assert (Hle : (wnat (ndest n) <= wnat (arg n 0))%nat) by (unfold Synth.wnat; lia).
    destruct (bit_w1 (ndest n) i ltac:(lia)) as [D1 D2]. destruct (bit_w1 (arg n 0) i ltac:(lia)) as [S1 S2].
    split.
    + intros _. unfold net_shape, all1. cbn [nop nargs ndest forallb]. rewrite D1, S1. reflexivity.
    + intros z [<-|[]]. left. assumption.
  - (* memory read port *)
    unfold synth_net in *. rewrite Eop in *. cbn [emit_gnet gnet_size fst snd ptemps app] in *.
    set (rd := mkNet (OpMemRd m) [base] (base + 1)) in *.
    intros [<-|[<-|Hx]].
    + split.
      * intros [Hsub Hus]. assert (Hrd : In rd (nets nl')) by (apply Hsub; right; left; reflexivity).
        apply cat_shape.
        -- intros i Hi. apply bit_w1. assumption.
        -- exists rd. split; [assumption|]. apply mem_in_self.
        -- apply Hus. left. reflexivity.
      * intros z Hz. unfold cat_net in Hz. cbn [nargs] in Hz. apply in_rev in Hz. apply in_map_iff in Hz.
        destruct Hz as [i [<- Hi]]. apply in_seq in Hi. left. apply bit_w1. lia.
    + split; [intros _; reflexivity|]. intros z [<-|[]]. right. lia.
    + apply in_map_iff in Hx. destruct Hx as [i [<- Hi]]. apply in_seq in Hi. split.
      * intros [Hsub Hus]. assert (Hrd : In rd (nets nl')) by (apply Hsub; right; left; reflexivity).
        apply (sel_shape i (base + 1) _ m rd); try reflexivity; try assumption. apply bit_w1. lia.
      * intros z [<-|[]]. right. lia.
  - (* memory write port *)
    unfold synth_net in *. rewrite Eop in *. cbn [emit_gnet gnet_size fst snd ptemps app] in *.
    set (wr := mkNet (OpMemWr m) [base; base + 1; bid (arg n 2) 0] 0) in *.
    intros [<-|[<-|[<-|[]]]].
    + split.
      * intros [Hsub Hus]. assert (Hwr : In wr (nets nl')) by (apply Hsub; right; right; left; reflexivity).
        apply cat_shape.
        -- intros i Hi. apply bit_w1. assumption.
        -- exists wr. split; [assumption|]. apply mem_in_self.
        -- apply Hus. left. reflexivity.
      * intros z Hz. unfold cat_net in Hz. cbn [nargs] in Hz. apply in_rev in Hz. apply in_map_iff in Hz.
        destruct Hz as [i [<- Hi]]. apply in_seq in Hi. left. apply bit_w1. lia.
    + split.
      * intros [Hsub Hus]. assert (Hwr : In wr (nets nl')) by (apply Hsub; right; right; left; reflexivity).
        apply cat_shape.
        -- intros i Hi. apply bit_w1. assumption.
        -- exists wr. split; [assumption|]. unfold wr, mem_in. cbn [nargs existsb]. rewrite Z.eqb_refl, orb_true_r. reflexivity.
        -- apply Hus. right. left. reflexivity.
      * intros z Hz. unfold cat_net in Hz. cbn [nargs] in Hz. apply in_rev in Hz. apply in_map_iff in Hz.
        destruct Hz as [i [<- Hi]]. apply in_seq in Hi. left. apply bit_w1. lia.
    + split; [intros _; reflexivity|]. intros z [<-|[<-|[<-|[]]]]; [right; lia|right; lia|].
      left. apply bit_w1. unfold Synth.wnat. lia.
Qed.

(* within its own group, a re-assembled vector is read only by the memory port *)
Lemma group_users n base : net_facts n -> T0 <= base ->
  forall x, In x (fst (emit_gnet nl (synth_net nl n) base)) ->
  forall t, In t (ptemps [synth_net nl n] base) -> mem_in t (nargs x) = true -> is_port (nop x) = true.
Proof.
  intros (Hn & Hso & Har) Hbase x Hx t Ht Hu. apply mem_in_In in Hu.
  unfold synth_net in *. unfold net_synth_ok in Hso.
  assert (Hcat : forall a na t', In t (nargs (cat_net nl a na t')) -> (na <= wnat a)%nat -> t < T0).
  { intros a na t' Hz Hle. unfold cat_net in Hz. cbn [nargs] in Hz. apply in_rev in Hz. apply in_map_iff in Hz.
    destruct Hz as [i [<- Hi]]. apply in_seq in Hi. apply bit_w1. lia. }
  destruct (nop n) eqn:Eop; cbn [emit_gnet fst ptemps app] in *; try contradiction.
  - destruct Ht as [<-|[]]. destruct Hx as [<-|[<-|Hx]].
    + pose proof (Hcat _ _ _ Hu ltac:(lia)). lia.
    + reflexivity.
    + apply in_map_iff in Hx. destruct Hx as [i [<- _]]. cbn [nargs] in Hu. destruct Hu as [Hu|[]]. lia.
  - destruct Hx as [<-|[<-|[<-|[]]]].
    + pose proof (Hcat _ _ _ Hu ltac:(lia)). destruct Ht as [<-|[<-|[]]]; lia.
    + pose proof (Hcat _ _ _ Hu ltac:(lia)). destruct Ht as [<-|[<-|[]]]; lia.
    + reflexivity.
Qed.

Lemma ptemps_range gs : forall base t, In t (ptemps gs base) -> base <= t < base + gnets_size gs.
Proof.
  induction gs as [|g r IH]; intros base t H; [contradiction|].
  cbn [ptemps] in H. change (gnets_size (g :: r)) with (gnet_size g + gnets_size r).
  pose proof (gnet_size_nonneg g). pose proof (gnets_size_nonneg r).
  apply in_app_or in H. destruct H as [H|H].
  - destruct g; cbn [gnet_size] in *; try contradiction.
    + destruct H as [<-|[]]. lia.
    + destruct H as [<-|[<-|[]]]; lia.
  - specialize (IH _ _ H). lia.
Qed.

Lemma ptemps_single g base : ptemps [g] base = match g with
                                               | GMemRd _ _ _ _ _ => [base]
                                               | GMemWr _ _ _ _ _ _ => [base; base + 1]
                                               | _ => []
                                               end.
Proof. cbn [ptemps]. apply app_nil_r. Qed.

(* the whole list of groups *)
Lemma groups_ok : forall ns base, (forall n, In n ns -> net_facts n) -> T0 <= base ->
  (forall d, In d (snd (emit_gnets nl (map (synth_net nl) ns) base)) -> In d (wires nl')) ->
  (forall x, In x (fst (emit_gnets nl (map (synth_net nl) ns) base)) ->
     argloc base (base + gnets_size (map (synth_net nl) ns)) x)
  /\ (forall x t, In x (fst (emit_gnets nl (map (synth_net nl) ns) base)) ->
        In t (ptemps (map (synth_net nl) ns) base) -> mem_in t (nargs x) = true -> is_port (nop x) = true)
  /\ ((forall x, In x (fst (emit_gnets nl (map (synth_net nl) ns) base)) -> In x (nets nl')) ->
      (forall t, In t (ptemps (map (synth_net nl) ns) base) ->
         forall y, In y (nets nl') -> mem_in t (nargs y) = true -> is_port (nop y) = true) ->
      forall x, In x (fst (emit_gnets nl (map (synth_net nl) ns) base)) -> net_shape merge nl' x = true).
Proof.
  induction ns as [|n r IH]; intros base Hall Hbase Hdecl.
  - cbn [map emit_gnets fst]. repeat split; intros; contradiction.
  - cbn [map] in *. rewrite (emit_gnets_cons nl) in *. cbn [fst snd] in *. cbn [ptemps].
    rewrite <- (ptemps_single (synth_net nl n) base).
    change (gnets_size (synth_net nl n :: map (synth_net nl) r))
      with (gnet_size (synth_net nl n) + gnets_size (map (synth_net nl) r)).
    pose proof (gnet_size_nonneg (synth_net nl n)) as G1.
    pose proof (gnets_size_nonneg (map (synth_net nl) r)) as G2.
    pose proof (Hall n (or_introl eq_refl)) as Hn.
    assert (Hd1 : forall d, In d (snd (emit_gnet nl (synth_net nl n) base)) -> In d (wires nl'))
      by (intros d Hd; apply Hdecl; apply in_or_app; left; assumption).
    destruct (IH (base + gnet_size (synth_net nl n)) (fun y Hy => Hall y (or_intror Hy)) ltac:(lia))
      as (I1 & I2 & I3).
    { intros d Hd. apply Hdecl. apply in_or_app. right. assumption. }
    pose proof (group_shape n base Hn Hbase Hd1) as GS.
    split; [|split].
    + intros x Hx. apply in_app_or in Hx. destruct Hx as [Hx|Hx].
      * destruct (GS x Hx) as [_ L]. intros a Ha. destruct (L a Ha); [left; assumption|right; lia].
      * intros a Ha. destruct (I1 x Hx a Ha); [left; assumption|right; lia].
    + intros x t Hx Ht Hu. apply in_app_or in Hx. apply in_app_or in Ht.
      destruct Hx as [Hx|Hx]; destruct Ht as [Ht|Ht].
      * eapply group_users; eassumption.
      * exfalso. destruct (GS x Hx) as [_ L]. apply mem_in_In in Hu.
        pose proof (ptemps_range _ _ _ Ht). destruct (L t Hu); lia.
      * exfalso. apply mem_in_In in Hu. pose proof (ptemps_range _ _ _ Ht) as R.
        cbn [gnets_size fold_right] in R. destruct (I1 x Hx t Hu); lia.
      * eapply I2; eassumption.
    + intros Hsub Hus x Hx. apply in_app_or in Hx. destruct Hx as [Hx|Hx].
      * destruct (GS x Hx) as [S _]. apply S. split.
        -- intros y Hy. apply Hsub. apply in_or_app. left. assumption.
        -- intros t Ht. apply Hus. apply in_or_app. left. assumption.
      * apply I3; try assumption.
        -- intros y Hy. apply Hsub. apply in_or_app. right. assumption.
        -- intros t Ht. apply Hus. apply in_or_app. right. assumption.
Qed.


Lemma xnat_wnat' x : In x (wires nl) -> xnat x = wnat (wname x).
Proof. intro Hx. unfold xnat, Synth.wnat, width_of. rewrite (inc_find 0 _ x Hids Hx). reflexivity. Qed.

Lemma osynth_map : osynth nl = map (synth_net nl) (comb_nets nl ++ seq_nets nl).
Proof. unfold osynth. rewrite map_app. reflexivity. Qed.

(* C03_shape for the model: the flattened synthesized netlist satisfies shapeb *)
Theorem flatten_shape : shapeb merge nl' = true.
Proof.
  pose proof Hw as Hww.
  unfold shapeb. apply forallb_forall. intros x Hx.
  destruct (groups_ok (comb_nets nl ++ seq_nets nl) T0) as (L & U & S).
  { intros n Hn. apply arity_all. apply in_app_or in Hn.
    destruct Hn as [Hn|Hn]; [unfold comb_nets in Hn|unfold seq_nets in Hn]; apply filter_In in Hn; tauto. }
  { lia. }
  { rewrite <- osynth_map. apply temp_decl. }
  rewrite <- osynth_map in L, U, S.
  rewrite (flatten_nets merge nl) in Hx.
  assert (Hin_args : forall y, In y (in_nets merge nl) -> forall a, In a (nargs y) -> a < T0).
  { intros y Hy a Ha. unfold in_nets in Hy. destruct (Bool.bool_dec merge true) as [Em|Em].
    - replace (if merge then _ else _) with
        (flat_map (fun x => map (fun i => mkNet (OpSelect [Z.of_nat i]) [wname x] (bid (wname x) i)) (seq 0 (xnat x)))
                  (filter is_in (wires nl))) in Hy by (rewrite Em; reflexivity).
      apply in_flat_map in Hy. destruct Hy as [x0 [Hx0 Hy]]. apply in_map_iff in Hy. destruct Hy as [i [<- _]].
      cbn [nargs] in Ha. destruct Ha as [<-|[]]. apply filter_In in Hx0. destruct Hx0 as [Hx0 _].
      destruct (wire_bounds nl Hids Hww x0 Hx0) as [B _]. unfold Flatten.T0.
      pose proof (KK_pos nl Hids Hww). pose proof (NN_pos nl Hids Hww). nia.
    - replace (if merge then _ else _) with (@nil net) in Hy by (destruct merge; [congruence|reflexivity]).
      contradiction. }
  assert (Hout_args : forall y, In y (out_nets merge nl) -> forall a, In a (nargs y) -> a < T0).
  { intros y Hy a Ha. unfold out_nets in Hy. destruct (Bool.bool_dec merge true) as [Em|Em].
    - replace (if merge then _ else _) with
        (map (fun x => cat_net nl (wname x) (xnat x) (wname x)) (filter is_out (wires nl))) in Hy
        by (rewrite Em; reflexivity).
      apply in_map_iff in Hy. destruct Hy as [x0 [<- Hx0]]. apply filter_In in Hx0. destruct Hx0 as [Hx0 _].
      unfold cat_net in Ha. cbn [nargs] in Ha. apply in_rev in Ha. apply in_map_iff in Ha.
      destruct Ha as [i [<- Hi]]. apply in_seq in Hi. apply bit_w1. rewrite <- (xnat_wnat' x0 Hx0). lia.
    - replace (if merge then _ else _) with (@nil net) in Hy by (destruct merge; [congruence|reflexivity]).
      contradiction. }
  assert (Hus : forall t, In t (ptemps (osynth nl) T0) ->
            forall y, In y (nets nl') -> mem_in t (nargs y) = true -> is_port (nop y) = true).
  { intros t Ht y Hy Hu. pose proof (ptemps_range _ _ _ Ht) as R.
    rewrite (flatten_nets merge nl) in Hy. apply in_app_or in Hy. destruct Hy as [Hy|Hy].
    - exfalso. apply mem_in_In in Hu. pose proof (Hin_args y Hy t Hu). lia.
    - apply in_app_or in Hy. destruct Hy as [Hy|Hy].
      + eapply U; eassumption.
      + exfalso. apply mem_in_In in Hu. pose proof (Hout_args y Hy t Hu). lia. }
  assert (Hsub : forall y, In y (fst (emit_gnets nl (osynth nl) T0)) -> In y (nets nl')).
  { intros y Hy. rewrite (flatten_nets merge nl). apply in_or_app. right. apply in_or_app. left. assumption. }
  apply in_app_or in Hx. destruct Hx as [Hx|Hx].
  - (* input selects *)
    unfold in_nets in Hx. destruct (Bool.bool_dec merge true) as [Em|Em].
    + replace (if merge then _ else _) with
        (flat_map (fun x => map (fun i => mkNet (OpSelect [Z.of_nat i]) [wname x] (bid (wname x) i)) (seq 0 (xnat x)))
                  (filter is_in (wires nl))) in Hx by (rewrite Em; reflexivity).
      apply in_flat_map in Hx. destruct Hx as [x0 [Hx0 Hx]]. apply in_map_iff in Hx. destruct Hx as [i [<- Hi]].
      apply in_seq in Hi. apply filter_In in Hx0. destruct Hx0 as [Hx0 Hk].
      unfold net_shape. cbn [nop nargs ndest length Nat.eqb arg nth].
      destruct (bit_w1 (wname x0) i ltac:(rewrite <- (xnat_wnat' x0 Hx0); lia)) as [W _]. rewrite W.
      assert (Hio : is_io x0 = true) by (unfold is_in in Hk; unfold is_io; destruct (wkind x0); try discriminate; reflexivity).
      pose proof (lookup_kind merge nl Hids Hww x0 (vec_decl merge nl x0 Em Hx0 Hio)) as K.
      replace (if merge then is_kind_in nl' (wname x0) else false) with true; [reflexivity|].
      unfold is_kind_in. rewrite K. unfold is_in in Hk. destruct (wkind x0); try discriminate. rewrite Em. reflexivity.
    + replace (if merge then _ else _) with (@nil net) in Hx by (destruct merge; [congruence|reflexivity]).
      contradiction.
  - apply in_app_or in Hx. destruct Hx as [Hx|Hx].
    + (* the gate groups *)
      apply S; assumption.
    + (* output concats *)
      unfold out_nets in Hx. destruct (Bool.bool_dec merge true) as [Em|Em].
      * replace (if merge then _ else _) with
          (map (fun x => cat_net nl (wname x) (xnat x) (wname x)) (filter is_out (wires nl))) in Hx
          by (rewrite Em; reflexivity).
        apply in_map_iff in Hx. destruct Hx as [x0 [<- Hx0]]. apply filter_In in Hx0. destruct Hx0 as [Hx0 Hk].
        unfold net_shape, cat_net. cbn [nop nargs ndest].
        assert (F : forallb (w1 nl') (rev (map (bid (wname x0)) (seq 0 (xnat x0)))) = true).
        { apply forallb_forall. intros z Hz. apply in_rev in Hz. apply in_map_iff in Hz.
          destruct Hz as [i [<- Hi]]. apply in_seq in Hi. apply bit_w1. rewrite <- (xnat_wnat' x0 Hx0). lia. }
        rewrite F.
        assert (Hio : is_io x0 = true) by (unfold is_out in Hk; unfold is_io; destruct (wkind x0); try discriminate; reflexivity).
        pose proof (lookup_kind merge nl Hids Hww x0 (vec_decl merge nl x0 Em Hx0 Hio)) as K.
        replace (if merge then is_kind_out nl' (wname x0) else false) with true; [reflexivity|].
        unfold is_kind_out. rewrite K. unfold is_out in Hk. destruct (wkind x0); try discriminate. rewrite Em. reflexivity.
      * replace (if merge then _ else _) with (@nil net) in Hx by (destruct merge; [congruence|reflexivity]).
        contradiction.
Qed.

End Shape.
