(* C09 -- executable model of the lowering / restructuring passes of
   pyrtl/passes.py over the deep embedding.  Definitions only (no proofs): the
   harness evaluates this file, the proofs live in Pass/Rewrite*.v, Pass/Lower*Proofs.v.

   transform.net_transform(f): for every net of the block (a snapshot of
   block.logic), f either returns True (keep) or builds replacement nets over
   fresh temporaries with the construction API and returns None (the original
   net is removed).  Model: a [rule] maps one net to [None] (keep) or to
   [Some (replacement nets, fresh wires)]; [apply_rule] replaces each net in
   place (so a topological order stays topological).  Fresh wires are numbered
   from [fresh nl] upwards.

   The gate-basis right-hand sides are NOT written here: they come from
   Gen/LowerRules.v, regenerated from passes.py on every run. *)
From PyRTL Require Export Netlist.Sem Netlist.WFDefs Pass.GateProg.
From PyRTL Require Import Gen.LowerRules.

Definition repl : Type := (list net * list wire)%type.
Definition rule : Type := netlist -> Z -> net -> option repl.

(* ---------- fresh identifiers ---------- *)
Definition max_list (l : list Z) : Z := fold_right Z.max 0 l.
Definition net_ids (n : net) : list Z := ndest n :: nargs n.
Definition fresh (nl : netlist) : Z :=
  1 + Z.max (max_list (map wname (wires nl))) (max_list (flat_map net_ids (nets nl))).

Fixpoint zrange (start : Z) (k : nat) : list Z :=
  match k with O => [] | S k' => start :: zrange (start + 1) k' end.

Definition tmp_wires (next : Z) (k : nat) (w : Z) : list wire :=
  map (fun i => mkWire i w KWire) (zrange next k).

(* ---------- `dest <<= src` (wire.py WireVector.__ilshift__) ----------
   as_wires(src, bitwidth=len(dest)) truncates a wider source with
   `src[:len(dest)]` (an 's' net to a fresh temporary), then a 'w' net.
   (A narrower source would be zero-extended; sanity_check_net forbids a
   destination wider than the natural result for every op rewritten here, so
   that branch is unreachable and modelled as the plain 'w' net.) *)
Definition assign (nl : netlist) (next : Z) (src : wid) (srcw : Z) (d : wid) : repl :=
  let wd := width_of nl d in
  if wd <? srcw
  then ([mkNet (OpSelect (zrange 0 (Z.to_nat wd))) [src] next; mkNet OpW [next] d],
        [mkWire next wd KWire])
  else ([mkNet OpW [src] d], []).

(* ---------- gate-basis rules (nand_synth, and_inverter_synth) ---------- *)
Definition resolve (n : net) (next : Z) (o : gopd) : wid :=
  match o with GA k => arg n k | GT i => next + Z.of_nat i end.

Fixpoint lower_prog (n : net) (next : Z) (i : nat) (p : list gins) : list net :=
  match p with
  | [] => []
  | (o, opds) :: r =>
      mkNet o (map (resolve n next) opds) (next + Z.of_nat i) :: lower_prog n next (S i) r
  end.

(* every temporary has the (common) width of the arguments: _two_var_op /
   __invert__ results are as wide as their (equal-width) operands *)
Definition lower_gate (nl : netlist) (next : Z) (n : net) (r : grule) : repl :=
  let w := width_of nl (arg n 0) in
  let k := length (gprog r) in
  let a := assign nl (next + Z.of_nat k) (resolve n next (gres r)) w (ndest n) in
  (lower_prog n next 0 (gprog r) ++ fst a, tmp_wires next k w ++ snd a).

Definition gate_rule (keep : list Z) (rules : list (Z * grule)) : rule :=
  fun nl next n =>
    if mem_in (op_code (nop n)) keep then None
    else match find_rule (op_code (nop n)) rules with
         | Some r => Some (lower_gate nl next n r)
         | None => None           (* the code raises PyrtlError: outside the precondition *)
         end.

(* precondition = the code does not raise *)
Definition gate_pre (keep : list Z) (rules : list (Z * grule)) (nl : netlist) : bool :=
  forallb (fun n => mem_in (op_code (nop n)) keep
                    || match find_rule (op_code (nop n)) rules with Some _ => true | None => false end)
          (nets nl).

Definition nand_rule : rule := gate_rule nand_synth_keep nand_synth_rules.
Definition aig_rule : rule := gate_rule and_inverter_synth_keep and_inverter_synth_rules.

(* ---------- two_way_concat ---------- *)
(* w = concat(a0, a1); for a in rest: w = concat(w, a) *)
Fixpoint concat_chain (nl : netlist) (next : Z) (acc : wid) (accw : Z) (rest : list wid)
  : list net * list wire * (wid * Z) :=
  match rest with
  | [] => ([], [], (acc, accw))
  | a :: r =>
      let w' := accw + width_of nl a in
      let '(ns, ws, fin) := concat_chain nl (next + 1) next w' r in
      (mkNet OpConcat [acc; a] next :: ns, mkWire next w' KWire :: ws, fin)
  end.

Definition two_way_concat_rule : rule :=
  fun nl next n =>
    match nop n, nargs n with
    | OpConcat, a0 :: rest =>
        if (2 <? length (nargs n))%nat then
          let '(ns, ws, (fin, finw)) := concat_chain nl next a0 (width_of nl a0) rest in
          let a := assign nl (next + Z.of_nat (length ws)) fin finw (ndest n) in
          Some (ns ++ fst a, ws ++ snd a)
        else None
    | _, _ => None
    end.

(* ---------- one_bit_selects ---------- *)
(* dest = net.dests[0]
   catlist = [src[i] for i in op_param[:len(dest)]]; dest <<= concat_list(catlist)
   (a destination narrower than the index list takes the low selected bits only) *)
Fixpoint bit_selects (src : wid) (next : Z) (idx : list Z) : list net :=
  match idx with
  | [] => []
  | i :: r => mkNet (OpSelect [i]) [src] next :: bit_selects src (next + 1) r
  end.

Definition one_bit_selects_rule : rule :=
  fun nl next n =>
    match nop n, nargs n with
    | OpSelect idx0, [src] =>
        let idx := firstn (Z.to_nat (width_of nl (ndest n))) idx0 in
        let k := length idx in
        match k with
        | O => None                       (* concat_list([]) raises: not a legal net *)
        | S O =>
            let a := assign nl (next + 1) next 1 (ndest n) in
            Some (bit_selects src next idx ++ fst a, tmp_wires next 1 1 ++ snd a)
        | _ =>
            let c := next + Z.of_nat k in
            let a := assign nl (c + 1) c (Z.of_nat k) (ndest n) in
            Some (bit_selects src next idx ++ mkNet OpConcat (rev (zrange next k)) c :: fst a,
                  tmp_wires next k 1 ++ mkWire c (Z.of_nat k) KWire :: snd a)
        end
    | _, _ => None
    end.

(* ---------- net_transform ---------- *)
Fixpoint transform (rl : rule) (nl : netlist) (next : Z) (ns : list net) : repl :=
  match ns with
  | [] => ([], [])
  | n :: r =>
      match rl nl next n with
      | None => let t := transform rl nl next r in (n :: fst t, snd t)
      | Some (rn, rw) =>
          let t := transform rl nl (next + Z.of_nat (length rw)) r in
          (rn ++ fst t, rw ++ snd t)
      end
  end.

(* fresh temporaries are numbered from [next] (any next >= fresh nl will do:
   PyRTL's temporaries get unused names) *)
Definition apply_rule_at (next : Z) (rl : rule) (nl : netlist) : netlist :=
  let t := transform rl nl next (nets nl) in
  mkNetlist (wires nl ++ snd t) (fst t) (mems nl).

Definition apply_rule (rl : rule) (nl : netlist) : netlist := apply_rule_at (fresh nl) rl nl.

Definition nand_synth : netlist -> netlist := apply_rule nand_rule.
Definition and_inverter_synth : netlist -> netlist := apply_rule aig_rule.
Definition two_way_concat : netlist -> netlist := apply_rule two_way_concat_rule.
Definition one_bit_selects : netlist -> netlist := apply_rule one_bit_selects_rule.

(* ---------- direct_connect_outputs ---------- *)
Definition is_output (nl : netlist) (w : wid) : bool :=
  match kind_of nl w with KOutput => true | _ => false end.

Definition has_dest (o : op) : bool := match o with OpMemWr _ => false | _ => true end.

(* nets reading w (each net once: net_connections iterates set(net.args)) *)
Definition readers (nl : netlist) (w : wid) : list net :=
  filter (fun n => mem_in w (nargs n)) (nets nl).

(* THE F4 SPOT: producers the pass refuses to retarget.
   passes.py (after the F4 repair): `if net.op in '@r': continue`.
   (Before the repair only '@' was skipped and `o <<= r` produced an 'r' net
   whose destination is an Output; see dco_skips_unrepaired in Props/C09.v.) *)
Definition dco_skips (o : op) : bool :=
  match o with OpMemWr _ | OpReg => true | _ => false end.

(* the NON-TRUNCATING 'w' net into an Output that [n]'s destination exclusively feeds
   (passes.py: `if len(dst_net.dests[0]) != len(dest_wire): continue`) *)
Definition dco_candidate (skips : op -> bool) (nl : netlist) (n : net) : option net :=
  if skips (nop n) then None
  else match readers nl (ndest n) with
       | [r] => match nop r with
                | OpW => if is_output nl (ndest r)
                            && (width_of nl (ndest r) =? width_of nl (ndest n))
                         then Some r else None   (* a truncating 'w' net is not redundant *)
                | _ => None
                end
       | _ => None
       end.

Section DCO.
Variable skips : op -> bool.

Definition dco_removed_dests (nl : netlist) : list wid :=
  flat_map (fun n => match dco_candidate skips nl n with Some r => [ndest r] | None => [] end) (nets nl).
Definition dco_removed_wires (nl : netlist) : list wid :=
  flat_map (fun n => match dco_candidate skips nl n with Some _ => [ndest n] | None => [] end) (nets nl).

Definition dco_net (nl : netlist) (rm : list wid) (n : net) : list net :=
  match dco_candidate skips nl n with
  | Some r => [mkNet (nop n) (nargs n) (ndest r)]
  | None => match nop n with
            | OpW => if mem_in (ndest n) rm then [] else [n]
            | _ => [n]
            end
  end.

Definition dco_with (nl : netlist) : netlist :=
  let rm := dco_removed_dests nl in
  let rw := dco_removed_wires nl in
  mkNetlist (filter (fun x => negb (mem_in (wname x) rw)) (wires nl))
            (flat_map (dco_net nl rm) (nets nl))
            (mems nl).
End DCO.

(* direct_connect_outputs: `while _direct_connect_outputs_pass(block): pass`
   -- one pass is [dco_with]; a pass reports a change iff it found a candidate.
   Every changing pass removes at least one net of a well-formed block, so
   [length (nets nl)] passes are always enough fuel. *)
Definition dco_changes (skips : op -> bool) (nl : netlist) : bool :=
  existsb (fun n => match dco_candidate skips nl n with Some _ => true | None => false end) (nets nl).

Fixpoint dco_iter (skips : op -> bool) (fuel : nat) (nl : netlist) : netlist :=
  match fuel with
  | O => nl
  | S f => if dco_changes skips nl then dco_iter skips f (dco_with skips nl) else nl
  end.

Definition direct_connect_outputs (nl : netlist) : netlist :=
  dco_iter dco_skips (length (nets nl)) nl.

(* ---------- two_way_fanout ---------- *)
Definition count_args (w : wid) (ns : list net) : nat :=
  length (filter (Z.eqb w) (flat_map nargs ns)).

(* _make_tree.f(w, n): returns tree nets, leaves (one per use), next fresh id *)
Fixpoint make_tree (fuel : nat) (w : wid) (n : nat) (next : Z) : list net * list wid * Z :=
  match fuel with
  | O => ([], [w], next)
  | S f =>
      if (n <=? 1)%nat then ([], [w], next)
      else
        let o := next in
        let '(n1, l1, nx1) := make_tree f o (n / 2) (next + 1) in
        let '(n2, l2, nx2) := make_tree f o (n - n / 2) nx1 in
        (mkNet OpW [w] o :: n1 ++ n2, l1 ++ l2, nx2)
  end.

Record tentry := mkT { te_wire : wid; te_nets : list net; te_leaves : list wid }.

Definition is_output_kind (k : kind) : bool := match k with KOutput => true | _ => false end.

Fixpoint build_tab (ns : list net) (ws : list wire) (next : Z) : list tentry * list wire :=
  match ws with
  | [] => ([], [])
  | x :: r =>
      let k := count_args (wname x) ns in
      if is_output_kind (wkind x) || (k <=? 1)%nat then build_tab ns r next
      else
        let '(tn, lv, nx) := make_tree k (wname x) k next in
        let t := build_tab ns r nx in
        (mkT (wname x) tn lv :: fst t,
         tmp_wires next (Z.to_nat (nx - next)) (wwidth x) ++ snd t)
  end.

(* next unused leaf of x's tree; the tree's nets are emitted at its first use *)
Fixpoint take_leaf (x : wid) (tab : list tentry) : option (wid * list net * list tentry) :=
  match tab with
  | [] => None
  | e :: r =>
      if te_wire e =? x then
        match te_leaves e with
        | l :: ls => Some (l, te_nets e, mkT x [] ls :: r)
        | [] => None
        end
      else match take_leaf x r with
           | Some (l, em, r') => Some (l, em, e :: r')
           | None => None
           end
  end.

Fixpoint rw_args (args : list wid) (tab : list tentry) : list wid * list net * list tentry :=
  match args with
  | [] => ([], [], tab)
  | a :: r =>
      match take_leaf a tab with
      | Some (l, em, tab') =>
          let '(r', em', tab'') := rw_args r tab' in (l :: r', em ++ em', tab'')
      | None =>
          let '(r', em', tab'') := rw_args r tab in (a :: r', em', tab'')
      end
  end.

Fixpoint rw_nets (ns : list net) (tab : list tentry) : list net :=
  match ns with
  | [] => []
  | n :: r =>
      let '(args', em, tab') := rw_args (nargs n) tab in
      em ++ mkNet (nop n) args' (ndest n) :: rw_nets r tab'
  end.

Definition two_way_fanout_at (next : Z) (nl : netlist) : netlist :=
  let t := build_tab (nets nl) (wires nl) next in
  mkNetlist (wires nl ++ snd t) (rw_nets (nets nl) (fst t)) (mems nl).

Definition two_way_fanout (nl : netlist) : netlist := two_way_fanout_at (fresh nl) nl.

(* ---------- postconditions (boolean) ---------- *)
Definition only_ops (allowed : list Z) (nl : netlist) : bool :=
  forallb (fun n => mem_in (op_code (nop n)) allowed) (nets nl).

Definition post_nand_synth : netlist -> bool := only_ops nand_synth_keep.
Definition post_and_inverter_synth : netlist -> bool := only_ops and_inverter_synth_keep.

Definition post_two_way_concat (nl : netlist) : bool :=
  forallb (fun n => match nop n with
                    | OpConcat => (length (nargs n) <=? 2)%nat
                    | _ => true
                    end) (nets nl).

Definition post_one_bit_selects (nl : netlist) : bool :=
  forallb (fun n => match nop n with
                    | OpSelect idx => (length idx =? 1)%nat
                    | _ => true
                    end) (nets nl).

(* no net with an eligible producer is left whose destination exclusively feeds a
   non-truncating 'w' net into an Output *)
Definition post_direct_connect_outputs (nl : netlist) : bool :=
  forallb (fun n => match dco_candidate dco_skips nl n with Some _ => false | None => true end)
          (nets nl).

Definition post_two_way_fanout (nl : netlist) : bool :=
  forallb (fun x => is_output_kind (wkind x) || (count_args (wname x) (nets nl) <=? 2)%nat)
          (wires nl).

(* documented / coded preconditions *)
Definition pre_nand_synth : netlist -> bool := gate_pre nand_synth_keep nand_synth_rules.
Definition pre_and_inverter_synth : netlist -> bool :=
  gate_pre and_inverter_synth_keep and_inverter_synth_rules.

(* selects whose destination is exactly as wide as the index list (always the
   case for API-built selects; raw nets may be narrower) *)
Definition selects_exact (nl : netlist) : bool :=
  forallb (fun n => match nop n with
                    | OpSelect idx => width_of nl (ndest n) =? Z.of_nat (length idx)
                    | _ => true
                    end) (nets nl).
