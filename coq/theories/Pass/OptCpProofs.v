(* C04 -- one round of _constant_prop_pass (model: Opt.constant_prop_pass) and the
   constant_propagation loop preserve the value of every surviving wire on every
   cycle, under the sanctioned steady-state hypothesis for folded registers.
   Instance of Pass/OptSimProofs.sim_run; the per-net step conditions come from
   cp_decide_sound. *)
From PyRTL Require Import Netlist.Sem Netlist.WFDefs Gen.ConstFold Pass.Opt Pass.OptCheck
  Pass.OptFoldProofs Pass.OptDeadProofs Pass.OptAliasProofs Pass.OptSimProofs.
From PyRTL Require Import Sim.SimModel Sim.SimCorrect.
From Coq Require Import ZifyBool.

Local Open Scope Z_scope.

Ltac split_andb :=
  repeat match goal with
         | H : _ && _ = true |- _ => apply andb_true_iff in H; destruct H
         end;
  repeat match goal with
         | H : (_ =? _) = true |- _ => apply Z.eqb_eq in H
         | H : (_ <=? _) = true |- _ => apply Z.leb_le in H
         end.

Lemma is_kconst_base nl dflt st ins k c : is_kconst nl k c = true ->
  base_val nl dflt st ins k = c.
Proof.
  unfold is_kconst, kind_of, base_val. destruct (find_wire (wires nl) k) as [x|]; [|discriminate].
  destruct (wkind x); try discriminate. intros H. lia.
Qed.

Lemma base_const nl dflt st ins v a :
  (forall w, In w (rdy0 nl) -> v w = base_val nl dflt st ins w) ->
  is_const nl a = true -> v a = const_val nl a.
Proof.
  intros Hb Hc. unfold is_const, const_val, kind_of in *.
  destruct (find_wire (wires nl) a) as [x|] eqn:E; [|discriminate].
  destruct (wkind x) eqn:Ek; try discriminate.
  destruct (find_wire_In _ _ _ E) as [Hx Hn].
  rewrite Hb.
  - unfold base_val. rewrite E, Ek. reflexivity.
  - unfold rdy0. apply filter_In. split.
    + apply in_map_iff. exists x. split; assumption.
    + unfold is_base. rewrite E, Ek. reflexivity.
Qed.

Lemma cp_decide_memrd nl n m : nop n = OpMemRd m -> cp_decide nl n = CpKeep.
Proof. intros H. unfold cp_decide. rewrite H. cbn. rewrite orb_true_r. reflexivity. Qed.

Section Cp.
Variable nl : netlist.
Variable dflt : Z.
Hypothesis Hwf : wfb nl = true.
Hypothesis Hok : cp_pass_ok nl = true.

Local Notation nl' := (constant_prop_pass nl).
Local Notation rho := (cp_rho nl).
Local Notation K := (cp_K nl).
Let Hparts := wfb_parts nl Hwf.
Let Hwidths : forallb (fun x => 0 <=? wwidth x) (wires nl) = true := proj1 Hparts.

Lemma net_ok_of n : In n (nets nl) -> cp_net_ok nl n = true.
Proof.
  intros Hin. unfold cp_pass_ok in Hok. cbv zeta in Hok. apply andb_true_iff in Hok. destruct Hok as [H _].
  rewrite forallb_forall in H. exact (H n Hin).
Qed.

Lemma base_ok_of w : In w (rdy0 nl) -> cp_base_ok nl w = true.
Proof.
  intros Hin. unfold cp_pass_ok in Hok. cbv zeta in Hok. apply andb_true_iff in Hok. destruct Hok as [_ H].
  rewrite forallb_forall in H. exact (H w Hin).
Qed.

Lemma Hnets : nets nl' = flat_map (cp_tr nl) (nets nl).
Proof. reflexivity. Qed.
Lemma Hmems : mems nl' = mems nl.
Proof. reflexivity. Qed.

Lemma keep_dest_facts d : cp_keep_dest nl d = true ->
  rho d = d /\ ~ In d K /\ width_of nl' d = width_of nl d.
Proof.
  unfold cp_keep_dest, cp_keep_dest_g. intros H. split_andb. split; [assumption|]. split; [|assumption].
  intro Hc. apply mem_in_In in Hc.
  match goal with H : negb _ = true |- _ => rewrite Hc in H; discriminate end.
Qed.

Lemma alias_const_facts st' ins v' d k c :
  cp_alias_const nl d k c = true ->
  (forall k0, In k0 K -> v' k0 = base_val nl' dflt st' ins k0) ->
  rho d = k /\ In k K /\ (declared nl' k = true -> v' k = c).
Proof.
  unfold cp_alias_const, cp_alias_const_g. intros H HK. split_andb. split; [assumption|].
  assert (Hin : In k K) by (apply mem_in_In; assumption).
  split; [assumption|]. intros Hd.
  match goal with H : (if declared _ _ then _ else _) = true |- _ => rewrite Hd in H;
    rewrite (HK k Hin); apply is_kconst_base; exact H end.
Qed.

Lemma inv_respects pre rdy st st' ins v v' :
  Inv nl nl' rho K dflt pre rdy st st' ins v v' -> respects_consts nl v.
Proof.
  intros HI w c Hk.
  assert (Hc : is_const nl w = true) by (unfold is_const; rewrite Hk; reflexivity).
  rewrite (base_const nl dflt st ins v w (inv_base _ _ _ _ _ _ _ _ _ _ _ _ HI) Hc).
  unfold const_val. rewrite Hk. reflexivity.
Qed.

Lemma sound_pre_facts n : cp_sound_pre nl n = true ->
  width_of nl (ndest n) <= width_of nl (arg n 0) /\ binary_same_width nl n.
Proof.
  unfold cp_sound_pre, cp_sound_pre_g, binary_same_width. intros H. apply andb_true_iff in H. destruct H as [H1 H2].
  split; [apply Z.leb_le; assumption|].
  destruct (nargs n) as [|a [|b [|c r]]]; auto. apply Z.eqb_eq. assumption.
Qed.

Lemma cp_Hstep : forall pre n post, nets nl = pre ++ n :: post -> is_comb (nop n) = true ->
  forall rdy st st' ins v v', st_rel (cp_folded nl) (cp_cst nl) st st' ->
  Inv nl nl' rho K dflt pre rdy st st' ins v v' ->
  (forall a, In a (nargs n) -> In a rdy) -> ~ In (ndest n) rdy ->
  arity_ok (nop n) (length (nargs n)) = true ->
  exists x, exec_spec nl st v n = upd v (ndest n) x /\ inrange x (width_of nl (ndest n)) /\
    ((cp_tr nl n = [] /\ (live nl' rho (ndest n) = true -> x = v' (rho (ndest n)))
                /\ In (rho (ndest n)) (K ++ rdy))
     \/ (exists n'', cp_tr nl n = [n''] /\ is_comb (nop n'') = true
                     /\ exec_spec nl' st' v' n'' = upd v' (ndest n) x
                     /\ rho (ndest n) = ndest n /\ ~ In (ndest n) K)).
Proof.
  intros pre n post Hsplit Hc rdy st st' ins v v' Hst HI Hargs Hd Har.
  assert (Hin : In n (nets nl)) by (rewrite Hsplit; apply in_or_app; right; left; reflexivity).
  pose proof (net_ok_of n Hin) as Hn. unfold cp_net_ok, cp_net_ok_g in Hn. rewrite Hc in Hn.
  fold (cp_comb_ok nl n) in Hn. unfold cp_comb_ok, cp_comb_ok_g in Hn.
  fold (cp_keep_dest nl) (cp_sound_pre nl) (cp_alias_const nl) in Hn.
  pose proof (width_nonneg nl Hwidths (ndest n)) as Hwd0.
  set (x := exec_spec nl st v n (ndest n)).
  exists x. split; [apply exec_upd_form; assumption|].
  split; [apply exec_inrange; assumption|].
  assert (Hsim : forall a, In a (nargs n) ->
            (declared nl' (rho a) = true -> v a = v' (rho a))
            /\ inrange (v a) (width_of nl a) /\ In (rho a) (K ++ rdy)).
  { intros a Ha. exact (inv_sim _ _ _ _ _ _ _ _ _ _ _ _ HI a (Hargs a Ha)). }
  assert (Hmemeq : forall m a, smems st m a = smems st' m a) by (apply Hst).
  (* soundness of the decision, available whenever the decision is not Keep *)
  assert (Hsound : cp_decide nl n <> CpKeep -> cp_sound_pre nl n = true ->
            match cp_decide nl n with
            | CpKeep => True
            | CpConst c => x = c mod 2 ^ width_of nl (ndest n)
            | CpWire w => x = v w /\ width_of nl w = 1 /\ width_of nl (ndest n) = 1 /\ In w (nargs n)
            | CpNot w => x = 1 - v w /\ width_of nl w = 1 /\ width_of nl (ndest n) = 1 /\ In w (nargs n)
            end).
  { intros Hnk Hpre. destruct (sound_pre_facts n Hpre) as [Hle Hbw].
    apply (cp_decide_sound nl n v x (inv_respects _ _ _ _ _ _ _ HI)); try assumption.
    - intros a Ha. apply (Hsim a Ha).
    - intro E. rewrite E in Hc. discriminate.
    - destruct (exec_value_form nl st v n Hc Har) as [s [Hs Hx]].
      + intros m E. apply Hnk. apply (cp_decide_memrd nl n m E).
      + exists s. split; [assumption|exact Hx]. }
  unfold cp_tr, cp_res, cp_apply.
  destruct (cp_decide nl n) as [|c|w|w] eqn:Edec.
  - (* Keep: same net, arguments redirected *)
    split_andb. right. exists (map_args rho n).
    match goal with H : cp_keep_dest _ _ = true |- _ =>
      destruct (keep_dest_facts _ H) as [Hrd [HdK Hw]] end.
    split; [reflexivity|]. split; [exact Hc|]. split; [|split; assumption].
    apply kept_net_value; try assumption; try reflexivity.
    intros a Ha.
    match goal with H : forallb _ (nargs n) = true |- _ => rewrite forallb_forall in H;
      specialize (H a Ha); apply andb_true_iff in H; destruct H as [Hdcl Hwa] end.
    split; [apply (Hsim a Ha); assumption|apply Z.eqb_eq; assumption].
  - (* folded to a constant *)
    apply andb_true_iff in Hn. destruct Hn as [Hpre Hn].
    pose proof (Hsound ltac:(discriminate) Hpre) as Hx. cbv beta iota in Hx.
    destruct (is_output nl (ndest n)) eqn:Eout; cbn [fst snd map].
    + split_andb. right. exists (mkNet OpW [rho (cp_kid nl n)] (ndest n)).
      match goal with H : cp_keep_dest _ _ = true |- _ =>
        destruct (keep_dest_facts _ H) as [Hrd [HdK Hw]] end.
      split; [reflexivity|]. split; [reflexivity|]. split; [|split; assumption].
      unfold exec_spec, argvals. cbn [nop nargs ndest map op_spec]. f_equal.
      match goal with H : rho (cp_kid nl n) = cp_kid nl n |- _ => rewrite H end.
      rewrite (inv_K _ _ _ _ _ _ _ _ _ _ _ _ HI) by (apply mem_in_In; assumption).
      match goal with H : is_kconst _ _ _ = true |- _ =>
        rewrite (is_kconst_base _ dflt st' ins _ _ H) end.
      rewrite Hw, Hx. apply Z.mod_mod. apply Z.pow_nonzero; [discriminate|exact Hwd0].
    + left. split; [reflexivity|].
      destruct (alias_const_facts st' ins v' _ _ _ Hn (inv_K _ _ _ _ _ _ _ _ _ _ _ _ HI))
        as [Hrd [HkK Hval]].
      split.
      * intros Hl. unfold live, declared' in Hl. rewrite Hrd in *. rewrite Hx. symmetry.
        apply Hval. exact Hl.
      * rewrite Hrd. apply in_or_app. left. assumption.
  - (* replaced by the other (one-bit) wire *)
    apply andb_true_iff in Hn. destruct Hn as [Hpre Hn].
    pose proof (Hsound ltac:(discriminate) Hpre) as Hx. cbv beta iota in Hx.
    destruct Hx as [Hx [Hww [Hwd1 Hwin]]].
    destruct (Hsim w Hwin) as [Hvw [Hrw Hinw]].
    destruct (is_output nl (ndest n)) eqn:Eout; cbn [fst snd map].
    + split_andb. right. exists (mkNet OpW [rho w] (ndest n)).
      match goal with H : cp_keep_dest _ _ = true |- _ =>
        destruct (keep_dest_facts _ H) as [Hrd [HdK Hw]] end.
      split; [reflexivity|]. split; [reflexivity|]. split; [|split; assumption].
      unfold exec_spec, argvals. cbn [nop nargs ndest map op_spec]. f_equal.
      rewrite <- Hvw by assumption. rewrite Hw, Hwd1, Hx. apply Z.mod_small.
      rewrite Hww in Hrw. exact Hrw.
    + left. split; [reflexivity|]. assert (Hrd : rho (ndest n) = rho w) by (apply Z.eqb_eq; assumption). split.
      * intros Hl. unfold live, declared' in Hl. rewrite Hrd in *. rewrite Hx. apply Hvw. exact Hl.
      * rewrite Hrd. assumption.
  - (* replaced by an inverter of the other (one-bit) wire *)
    split_andb.
    match goal with H : cp_sound_pre _ _ = true |- _ =>
      pose proof (Hsound ltac:(discriminate) H) as Hx end. cbv beta iota in Hx.
    destruct Hx as [Hx [Hww [Hwd1 Hwin]]].
    destruct (Hsim w Hwin) as [Hvw [Hrw Hinw]].
    cbn [fst snd map]. right. exists (mkNet OpNot [rho w] (ndest n)).
    match goal with H : cp_keep_dest _ _ = true |- _ =>
      destruct (keep_dest_facts _ H) as [Hrd [HdK Hw]] end.
    split; [reflexivity|]. split; [reflexivity|]. split; [|split; assumption].
    unfold exec_spec, argvals. cbn [nop nargs ndest map op_spec]. f_equal.
    rewrite <- Hvw by assumption.
    assert (Hw' : width_of nl' (rho w) = 1) by congruence. rewrite Hw', Hw, Hwd1, Hx.
    rewrite Hww in Hrw. unfold inrange in Hrw. change (2 ^ 1) with 2 in *.
    apply Z.mod_small. clear - Hrw. lia.
Qed.

Lemma reg_arity n : In n (nets nl) -> nop n = OpReg -> exists a0, nargs n = [a0].
Proof.
  intros Hin Eop. pose proof Hparts as Hp. destruct Hp as [_ [_ [_ [Hseq _]]]].
  rewrite forallb_forall in Hseq. specialize (Hseq n Hin). rewrite Eop in Hseq. cbn [is_comb] in Hseq.
  apply andb_true_iff in Hseq. destruct Hseq as [_ Har]. simpl in Har. apply Nat.eqb_eq in Har.
  destruct (nargs n) as [|a0 [|a1 r]]; try discriminate Har. eauto.
Qed.

Lemma cp_Hreg : forall n, In n (nets nl) -> nop n = OpReg ->
  (cp_tr nl n = [] /\ cp_folded nl (ndest n) = true
   /\ forall st ins v, (forall w, In w (rdy0 nl) -> v w = base_val nl dflt st ins w) ->
        v (arg n 0) mod 2 ^ width_of nl (ndest n) = cp_cst nl (ndest n))
  \/ (exists n'', cp_tr nl n = [n''] /\ nop n'' = OpReg /\ ndest n'' = ndest n
        /\ cp_folded nl (ndest n) = false /\ arg n'' 0 = rho (arg n 0)
        /\ width_of nl' (ndest n) = width_of nl (ndest n) /\ live nl' rho (arg n 0) = true).
Proof.
  intros n Hin Eop. pose proof (net_ok_of n Hin) as Hn. unfold cp_net_ok, cp_net_ok_g in Hn.
  rewrite Eop in Hn. cbn [is_comb] in Hn. unfold cp_reg_ok_g in Hn.
  fold (cp_alias_const nl) in Hn.
  unfold cp_tr, cp_res, cp_apply.
  destruct (cp_decide nl n) as [|c|w|w] eqn:Edec; try discriminate Hn.
  - right. split_andb. exists (map_args rho n). cbn [fst snd map].
    split; [reflexivity|]. split; [exact Eop|]. split; [reflexivity|].
    split; [match goal with H : negb _ = true |- _ => destruct (cp_folded nl (ndest n)); [discriminate H|reflexivity] end|].
    split.
    + destruct (reg_arity n Hin Eop) as [a0 Ea]. unfold arg, map_args. cbn [nargs]. rewrite Ea. reflexivity.
    + split; assumption.
  - left. split_andb.
    match goal with H : negb (is_output _ _) = true |- _ =>
      destruct (is_output nl (ndest n)); [discriminate H|] end.
    cbn [fst snd map]. split; [reflexivity|]. split.
    + unfold cp_folded. apply existsb_exists. exists n. split; [assumption|].
      unfold cp_fold_net. rewrite Eop, Edec, Z.eqb_refl. reflexivity.
    + intros st ins v Hb.
      rewrite (base_const nl dflt st ins v _ Hb) by assumption. symmetry. assumption.
Qed.

Lemma cp_Hwr : forall n m, In n (nets nl) -> nop n = OpMemWr m ->
  exists n'', cp_tr nl n = [n''] /\ nop n'' = OpMemWr m
    /\ forall i, (i < 3)%nat -> arg n'' i = rho (arg n i) /\ live nl' rho (arg n i) = true.
Proof.
  intros n m Hin Eop. pose proof (net_ok_of n Hin) as Hn. unfold cp_net_ok, cp_net_ok_g in Hn.
  rewrite Eop in Hn. cbn [is_comb] in Hn. unfold cp_wr_ok_g in Hn.
  unfold cp_tr, cp_res, cp_apply.
  destruct (cp_decide nl n) eqn:Edec; try discriminate Hn.
  exists (map_args rho n). cbn [fst snd map]. split; [reflexivity|]. split; [exact Eop|].
  pose proof Hparts as Hp. destruct Hp as [_ [_ [_ [Hseq _]]]].
  rewrite forallb_forall in Hseq. specialize (Hseq n Hin). rewrite Eop in Hseq. cbn [is_comb] in Hseq.
  apply andb_true_iff in Hseq. destruct Hseq as [_ Har]. simpl in Har. apply Nat.eqb_eq in Har.
  destruct (nargs n) as [|a0 [|a1 [|a2 [|a3 r]]]] eqn:Ea; try discriminate Har.
  cbn [forallb] in Hn. split_andb.
  intros i Hi. unfold arg, map_args, live, declared'. cbn [nargs]. rewrite Ea.
  destruct i as [|[|[|i]]]; cbn [map nth]; try lia; split; try reflexivity; assumption.
Qed.

Lemma cp_Hbase : forall st st' ins, st_rel (cp_folded nl) (cp_cst nl) st st' ->
  forall w, In w (rdy0 nl) ->
  (live nl' rho w = true -> base_val nl dflt st ins w = base_val nl' dflt st' ins (rho w))
  /\ In (rho w) (K ++ rdy0 nl).
Proof.
  intros st st' ins [S1 [S2 S3]] w Hw. pose proof (base_ok_of w Hw) as Hb.
  unfold cp_base_ok, cp_base_ok_g in Hb.
  destruct (cp_folded nl w) eqn:Ef.
  - (* a folded register: represented by its constant *)
    pose proof Ef as Ef'. unfold cp_folded in Ef'. apply existsb_exists in Ef'.
    destruct Ef' as [n [Hin Hn]]. apply andb_true_iff in Hn. destruct Hn as [Hfn Hd].
    assert (Hdw : ndest n = w) by (apply Z.eqb_eq; assumption). subst w.
    unfold cp_fold_net in Hfn.
    destruct (nop n) eqn:Eop; try discriminate Hfn.
    destruct (cp_decide nl n) eqn:Edec; try discriminate Hfn.
    pose proof (net_ok_of n Hin) as Hok'. unfold cp_net_ok, cp_net_ok_g in Hok'. rewrite Eop in Hok'.
    cbn [is_comb] in Hok'. unfold cp_reg_ok_g in Hok'. rewrite Edec in Hok'. fold nl' rho K in Hok'.
    split_andb.
    match goal with H : cp_alias_const_g _ _ _ _ _ _ = true |- _ =>
      unfold cp_alias_const_g in H end.
    split_andb.
    assert (Hrd : rho (ndest n) = cp_kid nl n) by assumption.
    split.
    + intros Hl. unfold live, declared' in Hl. rewrite Hrd in *.
      match goal with H : (if declared _ _ then _ else _) = true |- _ =>
        unfold declared in H; rewrite Hl in H;
        rewrite (is_kconst_base _ dflt st' ins _ _ H) end.
      rewrite <- (S2 _ Ef).
      match goal with H : is_register _ _ = true |- _ =>
        unfold is_register, kind_of in H; unfold base_val;
        destruct (find_wire (wires nl) (ndest n)) as [x0|]; [|discriminate H];
        destruct (wkind x0); try discriminate H; reflexivity end.
    + rewrite Hrd. apply in_or_app. left. apply mem_in_In. assumption.
  - cbn [orb] in Hb. apply andb_true_iff in Hb. destruct Hb as [Hr Hsame].
    assert (Hrd : rho w = w) by (apply Z.eqb_eq; assumption). rewrite Hrd. split; [|apply in_or_app; right; assumption].
    intros Hl. unfold live, declared' in Hl. rewrite Hrd in Hl.
    unfold declared in Hsame. rewrite Hl in Hsame. apply owire_eqb_eq in Hsame.
    unfold base_val. rewrite Hsame.
    destruct (find_wire (wires nl) w) as [x0|]; [|reflexivity].
    destruct (wkind x0); try reflexivity. apply S1. assumption.
Qed.

Lemma cp_Hcomb_tr : forall n, In n (nets nl) -> is_comb (nop n) = true ->
  forall n'', In n'' (cp_tr nl n) -> is_comb (nop n'') = true.
Proof.
  intros n Hin Hc n''. unfold cp_tr, cp_res, cp_apply.
  destruct (cp_decide nl n); [|destruct (is_output nl (ndest n))|destruct (is_output nl (ndest n))|];
    cbn [fst snd map]; intros Hi; simpl in Hi;
    try contradiction; destruct Hi as [<-|Hi]; try contradiction; try reflexivity; exact Hc.
Qed.

Theorem cp_pass_sim : forall inss st st', st_rel (cp_folded nl) (cp_cst nl) st st' ->
  Forall (legal_ins nl) inss -> legal_regs nl (sregs st) ->
  Forall2 (OptSimProofs.sim_val nl nl' rho) (fst (run nl dflt st inss)) (fst (run nl' dflt st' inss)).
Proof.
  exact (OptSimProofs.sim_run nl nl' (cp_tr nl) rho K (cp_folded nl) (cp_cst nl) dflt Hwf Hnets
           cp_Hstep cp_Hreg cp_Hwr cp_Hbase cp_Hcomb_tr).
Qed.

End Cp.
