(* C04 -- _remove_wire_nets / _remove_slice_nets (model: Opt.remove_nets_by):
   removing identity nets and redirecting every reader to the ultimate producer
   preserves the value of every surviving wire on every cycle.
   Proof: simulation along the (topologically ordered) net list with the
   invariant  v w = v' (rho w)  for every wire w computed so far. *)
From PyRTL Require Import Netlist.Sem Netlist.WFDefs Gen.ConstFold Pass.Opt Pass.OptCheck
  Pass.OptProofs.
From PyRTL Require Import Sim.SimModel Sim.SimCorrect.
From Coq Require Import ZifyBool.

Local Open Scope Z_scope.

Lemma find_wire_filter dead ws w : ~ In w dead ->
  find_wire (filter (fun x => negb (mem_in (wname x) dead)) ws) w = find_wire ws w.
Proof.
  intros Hw. induction ws as [|x r IH]; simpl; [reflexivity|].
  destruct (mem_in (wname x) dead) eqn:E; simpl.
  - destruct (wname x =? w) eqn:E2; [|assumption].
    exfalso. apply Hw. apply mem_in_In in E. assert (wname x = w) by lia. subst. assumption.
  - rewrite IH. reflexivity.
Qed.

Lemma op_spec_some o l : is_comb o = true -> arity_ok o (length l) = true ->
  (forall m, o <> OpMemRd m) -> exists r, op_spec o l = Some r.
Proof.
  intros Hc Ha Hm.
  destruct o; try discriminate Hc; try (exfalso; eapply Hm; reflexivity);
    destruct l as [|[x wx] [|[y wy] [|[z wz] [|q l]]]]; simpl in Ha; try discriminate Ha;
    simpl; eexists; reflexivity.
Qed.

Section Alias.
Variable nl : netlist.
Variable sel : net -> bool.
Variable rho : wid -> wid.
Variable dflt : Z.

Definition gone (n : net) : bool := sel n && negb (is_output nl (ndest n)).
Definition dead_list : list wid :=
  flat_map (fun n => if gone n then [ndest n] else []) (nets nl).
Definition tr (n : net) : list net := if gone n then [] else [map_args rho n].
Definition nl' : netlist :=
  mkNetlist (filter (fun x => negb (mem_in (wname x) dead_list)) (wires nl))
            (flat_map tr (nets nl)) (mems nl).

Hypothesis Hwf : wfb nl = true.
(* the selected nets are identities of the reference semantics *)
Hypothesis Hgone : forall n, In n (nets nl) -> gone n = true ->
  is_comb (nop n) = true /\ In (arg n 0) (nargs n)
  /\ width_of nl (ndest n) = width_of nl (arg n 0)
  /\ forall st v, inrange (v (arg n 0)) (width_of nl (arg n 0)) ->
       exec_spec nl st v n = upd v (ndest n) (v (arg n 0)).
(* rho sends a removed destination where its source goes, and fixes the rest *)
Hypothesis Hrho_gone : forall n, In n (nets nl) -> gone n = true -> rho (ndest n) = rho (arg n 0).
Hypothesis Hrho_id : forall w, In w (rdy_final nl) -> ~ In w dead_list -> rho w = w.
Hypothesis Hrho_width : forall w, In w (rdy_final nl) -> width_of nl (rho w) = width_of nl w.
Hypothesis Hrho_alive : forall w, In w (rdy_final nl) -> ~ In (rho w) dead_list.
Hypothesis Hbase_alive : forall w, In w (rdy0 nl) -> ~ In w dead_list.
Hypothesis Hkept_alive : forall n, In n (nets nl) -> gone n = false -> op_has_dest (nop n) = true ->
  ~ In (ndest n) dead_list.

Let Hparts := wfb_parts nl Hwf.
Let Hwidths : forallb (fun x => 0 <=? wwidth x) (wires nl) = true := proj1 Hparts.

Lemma width_alive w : ~ In w dead_list -> width_of nl' w = width_of nl w.
Proof. intros H. unfold width_of, nl'. cbn [wires]. rewrite find_wire_filter by assumption. reflexivity. Qed.

Lemma rdy_mono ns : forall rdy w, In w rdy -> In w (fold_left (rdy_next) ns rdy).
Proof.
  induction ns as [|n r IH]; intros rdy w Hin; simpl; [assumption|].
  apply IH. unfold rdy_next. destruct (is_comb (nop n)); [right|]; assumption.
Qed.

Definition Inv (rdy : list wid) (v v' : wid -> Z) : Prop :=
  forall w, In w rdy -> v w = v' (rho w) /\ inrange (v w) (width_of nl w) /\ In (rho w) rdy.

Definition st_eq (st st' : state) : Prop :=
  (forall r, sregs st r = sregs st' r) /\ (forall m a, smems st m a = smems st' m a).

Lemma mem_read_eq st st' m a : st_eq st st' -> mem_read nl' st' m a = mem_read nl st m a.
Proof.
  intros [_ H]. unfold mem_read, nl'. cbn [mems].
  destruct (find_mem (mems nl) m) as [mm|]; [destruct (mrom mm)|]; auto.
Qed.

Lemma argvals_mapped rdy v v' n : Inv rdy v v' ->
  (forall w, In w rdy -> In w (rdy_final nl)) ->
  (forall a, In a (nargs n) -> In a rdy) ->
  argvals nl' v' (map_args rho n) = argvals nl v n.
Proof.
  intros HI Hsub Hargs. unfold argvals, map_args. cbn [nargs]. rewrite map_map.
  apply map_ext_in. intros a Ha. specialize (Hargs a Ha).
  destruct (HI a Hargs) as [Hv _]. rewrite <- Hv.
  rewrite width_alive by (apply Hrho_alive; auto). rewrite Hrho_width by auto. reflexivity.
Qed.

Lemma comb_sim st st' : st_eq st st' ->
  forall ns rdy v v', incl ns (nets nl) -> nets_ok nl rdy ns = true ->
  fold_left rdy_next ns rdy = rdy_final nl ->
  Inv rdy v v' ->
  Inv (rdy_final nl) (fold_left (exec_spec nl st) ns v)
      (fold_left (exec_spec nl' st') (flat_map tr ns) v').
Proof.
  intros Hst. induction ns as [|n r IH]; intros rdy v v' Hincl Hok Hfin HI.
  - simpl in *. subst. assumption.
  - cbn [fold_left flat_map]. rewrite fold_left_app.
    assert (Hin : In n (nets nl)) by (apply Hincl; left; reflexivity).
    assert (Hrest : incl r (nets nl)) by (intros x Hx; apply Hincl; right; assumption).
    cbn [nets_ok] in Hok. apply andb_true_iff in Hok. destruct Hok as [Hn Hr].
    cbn [fold_left] in Hfin.
    assert (Hsub : forall w, In w rdy -> In w (rdy_final nl)).
    { intros w Hw. rewrite <- Hfin. apply rdy_mono. unfold rdy_next.
      destruct (is_comb (nop n)); [right|]; assumption. }
    apply (IH (rdy_next rdy n)); try assumption.
    unfold net_ok in Hn. unfold rdy_next. destruct (is_comb (nop n)) eqn:Hc.
    + (* combinational net *)
      apply andb_true_iff in Hn. destruct Hn as [Hn Hop].
      apply andb_true_iff in Hn. destruct Hn as [Hn Har].
      apply andb_true_iff in Hn. destruct Hn as [Hargs Hfresh].
      rewrite forallb_forall in Hargs.
      assert (Hargs' : forall a, In a (nargs n) -> In a rdy)
        by (intros a Ha; apply mem_in_In; apply Hargs; assumption).
      assert (Hd : ~ In (ndest n) rdy).
      { intro Hd. apply mem_in_In in Hd. rewrite Hd in Hfresh. discriminate. }
      assert (Hdfin : In (ndest n) (rdy_final nl)).
      { rewrite <- Hfin. apply rdy_mono. unfold rdy_next. rewrite Hc. left. reflexivity. }
      unfold tr. destruct (gone n) eqn:Hg; cbn [fold_left].
      * (* removed identity net *)
        destruct (Hgone n Hin Hg) as [_ [Ha0 [Hw Hid]]].
        destruct (HI (arg n 0) (Hargs' _ Ha0)) as [Hv0 [Hr0 Hin0]].
        rewrite (Hid st v Hr0).
        intros w [<-|Hw'].
        -- rewrite upd_same. rewrite (Hrho_gone n Hin Hg). split; [assumption|].
           split; [rewrite Hw; assumption|right; assumption].
        -- assert (w <> ndest n) by (intro; subst; contradiction).
           rewrite upd_other by assumption. destruct (HI w Hw') as [H1 [H2 H3]].
           split; [assumption|]. split; [assumption|right; assumption].
      * (* kept net, arguments redirected *)
        assert (Hhd : op_has_dest (nop n) = true) by (destruct (nop n); try discriminate Hc; reflexivity).
        assert (Hdalive : ~ In (ndest n) dead_list) by (apply Hkept_alive; assumption).
        assert (Hrd : rho (ndest n) = ndest n) by (apply Hrho_id; assumption).
        assert (Hstep : exists x, exec_spec nl st v n = upd v (ndest n) x
                                  /\ exec_spec nl' st' v' (map_args rho n) = upd v' (ndest n) x
                                  /\ inrange x (width_of nl (ndest n))).
        { unfold exec_spec. cbn [nop ndest map_args].
          rewrite (argvals_mapped rdy v v' n HI Hsub Hargs').
          rewrite (width_alive _ Hdalive).
          pose proof (width_nonneg nl Hwidths (ndest n)) as Hwn.
          destruct (nop n) eqn:Eop; try discriminate Hc;
            try (match goal with
                 | |- context [op_spec ?o ?l] =>
                     destruct (op_spec_some o l) as [x Hx];
                     [ reflexivity
                     | unfold argvals; rewrite map_length; exact Har
                     | intros m0; discriminate
                     | rewrite Hx; eexists; split; [reflexivity|]; split;
                       [reflexivity|apply mod_range; assumption] ]
                 end).
          (* memory read *)
          eexists. split; [reflexivity|]. split; [|apply mod_range; assumption].
          rewrite (mem_read_eq st st') by assumption.
          simpl in Har. apply Nat.eqb_eq in Har.
          destruct (nargs n) as [|a0 [|a1 rest]] eqn:Eargs; try discriminate Har.
          unfold arg. cbn [nargs map_args]. rewrite Eargs. cbn [map nth].
          destruct (HI a0 (Hargs' a0 (or_introl eq_refl))) as [Hv0 _].
          rewrite <- Hv0. reflexivity. }
        destruct Hstep as [x [E1 [E2 Hx]]]. rewrite E1, E2.
        intros w [<-|Hw'].
        -- rewrite Hrd, !upd_same. split; [reflexivity|]. split; [assumption|left; reflexivity].
        -- assert (w <> ndest n) by (intro; subst; contradiction).
           destruct (HI w Hw') as [H1 [H2 H3]].
           assert (rho w <> ndest n) by (intro Heq; rewrite Heq in H3; contradiction).
           rewrite !upd_other by assumption.
           split; [assumption|]. split; [assumption|right; assumption].
    + (* register / memory-write nets do nothing during propagation *)
      assert (Hg : gone n = false).
      { destruct (gone n) eqn:Hg; [|reflexivity].
        destruct (Hgone n Hin Hg) as [Hc' _]. congruence. }
      unfold tr. rewrite Hg. cbn [fold_left].
      unfold exec_spec. cbn [nop map_args].
      destruct (nop n); try discriminate Hc; assumption.
Qed.

Lemma regs_sim v v' : Inv (rdy_final nl) v v' ->
  forall ns rg rg', incl ns (nets nl) -> (forall r, rg r = rg' r) ->
  forall r, fold_left (regnext_spec nl v) ns rg r
            = fold_left (regnext_spec nl' v') (flat_map tr ns) rg' r.
Proof.
  intros HI. induction ns as [|n rest IH]; intros rg rg' Hincl Heq; [exact Heq|].
  cbn [fold_left flat_map]. rewrite fold_left_app.
  assert (Hin : In n (nets nl)) by (apply Hincl; left; reflexivity).
  assert (Hrest : incl rest (nets nl)) by (intros x Hx; apply Hincl; right; assumption).
  apply IH; [assumption|].
  unfold tr. destruct (gone n) eqn:Hg; cbn [fold_left].
  - destruct (Hgone n Hin Hg) as [Hc _]. unfold regnext_spec.
    destruct (nop n); try discriminate Hc; assumption.
  - unfold regnext_spec. cbn [nop ndest map_args].
    destruct (nop n) eqn:Eop; try assumption.
    pose proof Hparts as Hp. destruct Hp as [_ [_ [_ [Hseq _]]]]. rewrite forallb_forall in Hseq.
    specialize (Hseq n Hin). rewrite Eop in Hseq. cbn [is_comb] in Hseq.
    apply andb_true_iff in Hseq. destruct Hseq as [Hargs Har].
    simpl in Har. apply Nat.eqb_eq in Har.
    destruct (nargs n) as [|a0 [|a1 r']] eqn:Eargs; try discriminate Har.
    rewrite forallb_forall in Hargs.
    assert (Ha0 : In a0 (rdy_final nl)) by (apply mem_in_In; apply Hargs; left; reflexivity).
    destruct (HI a0 Ha0) as [Hv0 _].
    rewrite width_alive by (apply Hkept_alive; [assumption|assumption|rewrite Eop; reflexivity]).
    unfold arg, map_args. cbn [nargs]. rewrite ?Eargs. cbn [map nth]. rewrite <- Hv0.
    intros r0. unfold upd. destruct (r0 =? ndest n); [reflexivity|apply Heq].
Qed.

Lemma mems_sim v v' : Inv (rdy_final nl) v v' ->
  forall ns ms ms', incl ns (nets nl) -> (forall m a, ms m a = ms' m a) ->
  forall m a, fold_left (write_spec v) ns ms m a
              = fold_left (write_spec v') (flat_map tr ns) ms' m a.
Proof.
  intros HI. induction ns as [|n rest IH]; intros ms ms' Hincl Heq; [exact Heq|].
  cbn [fold_left flat_map]. rewrite fold_left_app.
  assert (Hin : In n (nets nl)) by (apply Hincl; left; reflexivity).
  assert (Hrest : incl rest (nets nl)) by (intros x Hx; apply Hincl; right; assumption).
  apply IH; [assumption|].
  unfold tr. destruct (gone n) eqn:Hg; cbn [fold_left].
  - destruct (Hgone n Hin Hg) as [Hc _]. unfold write_spec.
    destruct (nop n); try discriminate Hc; assumption.
  - unfold write_spec. cbn [nop map_args].
    destruct (nop n) eqn:Eop; try assumption.
    pose proof Hparts as Hp. destruct Hp as [_ [_ [_ [Hseq _]]]]. rewrite forallb_forall in Hseq.
    specialize (Hseq n Hin). rewrite Eop in Hseq. cbn [is_comb] in Hseq.
    apply andb_true_iff in Hseq. destruct Hseq as [Hargs Har].
    simpl in Har. apply Nat.eqb_eq in Har.
    destruct (nargs n) as [|a0 [|a1 [|a2 [|a3 r']]]] eqn:Eargs; try discriminate Har.
    rewrite forallb_forall in Hargs.
    assert (Hall : forall a, In a [a0; a1; a2] -> v a = v' (rho a)).
    { intros a Ha. apply HI. apply mem_in_In. apply Hargs. assumption. }
    unfold arg, map_args. cbn [nargs]. rewrite ?Eargs. cbn [map nth].
    rewrite <- (Hall a0), <- (Hall a1), <- (Hall a2) by (simpl; auto).
    intros m0 a. destruct (v a2 =? 0); [apply Heq|].
    unfold upd. destruct (m0 =? m); [|apply Heq]. destruct (a =? v a0); [reflexivity|apply Heq].
Qed.

Lemma base_inv st st' ins : st_eq st st' -> legal_ins nl ins -> legal_regs nl (sregs st) ->
  Inv (rdy0 nl) (base_val nl dflt st ins) (base_val nl' dflt st' ins).
Proof.
  intros [Hr _] Hins Hregs w Hw.
  assert (Hfin : In w (rdy_final nl)) by (unfold rdy_final; apply rdy_mono; assumption).
  assert (Halive : ~ In w dead_list) by (apply Hbase_alive; assumption).
  rewrite (Hrho_id w Hfin Halive). split; [|split; [|assumption]].
  - unfold base_val, nl'. cbn [wires]. rewrite find_wire_filter by assumption.
    destruct (find_wire (wires nl) w) as [x|]; [|reflexivity].
    destruct (wkind x); try reflexivity. apply Hr.
  - unfold rdy0 in Hw. apply filter_In in Hw. destruct Hw as [_ Hb].
    unfold is_base in Hb. unfold base_val, width_of.
    destruct (find_wire (wires nl) w) as [x|] eqn:E; [|discriminate].
    pose proof (find_wire_In _ _ _ E) as [Hx _].
    destruct (wkind x) eqn:Ek; try discriminate.
    + specialize (Hins w). unfold is_input, kind_of, width_of in Hins. rewrite E, Ek in Hins.
      apply Hins. reflexivity.
    + pose proof Hparts as Hp. destruct Hp as [_ [Hc _]]. rewrite forallb_forall in Hc. specialize (Hc x Hx).
      rewrite Ek in Hc. apply inrangeb_spec in Hc. assumption.
    + specialize (Hregs w). unfold is_reg, kind_of, width_of in Hregs. rewrite E, Ek in Hregs.
      apply Hregs. reflexivity.
Qed.

Definition sim_val (v v' : wid -> Z) : Prop := forall w, In w (rdy_final nl) -> v w = v' (rho w).

Theorem alias_step st st' ins : st_eq st st' -> legal_ins nl ins -> legal_regs nl (sregs st) ->
  sim_val (fst (step nl dflt st ins)) (fst (step nl' dflt st' ins))
  /\ st_eq (snd (step nl dflt st ins)) (snd (step nl' dflt st' ins))
  /\ legal_regs nl (sregs (snd (step nl dflt st ins))).
Proof.
  intros Hst Hins Hregs. unfold step, comb. cbn [fst snd].
  change (nets nl') with (flat_map tr (nets nl)).
  pose proof Hparts as Hp. destruct Hp as [_ [_ [Hnets _]]].
  pose proof (comb_sim st st' Hst (nets nl) (rdy0 nl) _ _ (incl_refl _) Hnets eq_refl
                (base_inv st st' ins Hst Hins Hregs)) as HI.
  split; [intros w Hw; apply (HI w Hw)|]. split; [split; cbn [sregs smems]|].
  - apply regs_sim; [assumption|apply incl_refl|apply Hst].
  - apply mems_sim; [assumption|apply incl_refl|apply Hst].
  - cbn [sregs]. apply (regs_legal nl Hwidths (proj1 (proj2 Hparts))). exact Hregs.
Qed.

Theorem alias_run : forall inss st st', st_eq st st' ->
  Forall (legal_ins nl) inss -> legal_regs nl (sregs st) ->
  Forall2 sim_val (fst (run nl dflt st inss)) (fst (run nl' dflt st' inss)).
Proof.
  induction inss as [|ins rest IH]; intros st st' Hst Hins Hregs; cbn [run]; [constructor|].
  inversion Hins as [|? ? Hi Hrest]; subst.
  destruct (alias_step st st' ins Hst Hi Hregs) as [Hv [Hs' Hl]].
  destruct (step nl dflt st ins) as [v st1]. destruct (step nl' dflt st' ins) as [v' st1'].
  cbn [fst snd] in Hv, Hs', Hl. specialize (IH st1 st1' Hs' Hrest Hl).
  destruct (run nl dflt st1 rest) as [vs st2]. destruct (run nl' dflt st1' rest) as [vs' st2'].
  cbn [fst] in *. constructor; assumption.
Qed.

End Alias.
